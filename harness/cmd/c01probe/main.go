// c01probe: development aid - runs the generated programs of a seed one by one and reports the expensive ones.
package main

import (
	"fmt"
	"os"
	"runtime"
	"strconv"
	"time"

	"verif/harness/internal/c01"
)

func main() {
	seed, _ := strconv.ParseInt(os.Args[1], 10, 64)
	n, _ := strconv.Atoi(os.Args[2])
	g := c01.NewGen(seed)
	var ms runtime.MemStats
	for i := 0; i < n; i++ {
		p := g.Program()
		src := c01.RenderProgram(p)
		runtime.ReadMemStats(&ms)
		before := ms.TotalAlloc
		t0 := time.Now()
		_, err := c01.RunRoute("source", src)
		runtime.ReadMemStats(&ms)
		d := time.Since(t0)
		if ms.TotalAlloc-before > 200<<20 || d > 2*time.Second {
			fmt.Printf("program %d: alloc %d MB, %v, err %v, source %d bytes\n%s\n----\n", i, (ms.TotalAlloc-before)>>20, d, err, len(src), src)
		}
	}
}
