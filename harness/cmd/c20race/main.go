// c20race is built with -race: it runs a workload of independent runtimes on
// free-running goroutines and prints every unit's outcomes as JSON lines.
// Data race reports go to stderr (the race detector writes them there).
package main

import (
	"fmt"
	"os"
	"strconv"
	"sync"

	"verif/harness/internal/c20"
)

func main() {
	seed, _ := strconv.ParseInt(os.Args[1], 10, 64)
	n, _ := strconv.Atoi(os.Args[2])
	rounds, _ := strconv.Atoi(os.Args[3])
	for r := 0; r < rounds; r++ {
		w := c20.BuildWorkload(seed+int64(r), n, 3)
		var wg sync.WaitGroup
		for _, u := range w.Units {
			wg.Add(1)
			go func() {
				defer wg.Done()
				vm := w.NewRuntime(u)
				if err := w.RunUnit(u, vm); err != nil {
					fmt.Fprintf(os.Stderr, "UNIT-ERROR %d %v\n", u.ID, err)
				}
			}()
		}
		wg.Wait()
		for _, u := range w.Units {
			fmt.Printf("%s\n", u.Line())
		}
	}
}
