// c20race is built with -race: it runs a workload of independent runtimes on
// free-running goroutines and prints every unit's outcomes as JSON lines.
// Data race reports go to stderr (the race detector writes them there).
package main

import (
	"fmt"
	"os"
	"strconv"
	"sync"

	"github.com/robertkrimen/otto"

	"verif/harness/internal/c20"
)

// tour touches most built-in families; its result is deterministic, so every
// concurrent execution must print the sequential answer.
const tour = `
var out = [];
for (var i = 0; i < 30; i++) {
  out.push(/a(b+)c/.exec("xxabbbc" + i)[1], "abc".replace(/b/g, "[" + i + "]"), new RegExp("x" + G + "_" + (i % 5), "gi").test("X" + G + "_" + (i % 5)), new RegExp("[a-" + String.fromCharCode(98 + (G + i) % 20) + "]+").exec("abcxyz")[0]);
  out.push(JSON.stringify({k: [i, "s", null], d: new Date(86400000 * i).toISOString()}), JSON.parse('{"a":[1,2,{"b":' + i + '}]}').a[2].b);
  out.push([5, 3, i % 7, 1].sort().join(), [1, 2, 3].map(function (x) { return x * i }).reduce(function (a, b) { return a + b }, 0));
  out.push(Math.max(i, 3) + Math.floor(i / 3) + Math.pow(2, i % 10), (i * 1.5).toFixed(2), parseInt("1" + i, 8), ("" + i).charCodeAt(0));
  out.push(encodeURIComponent("é" + i), "a,b,c".split(",").length, " t ".trim() + i, String.fromCharCode(65 + i % 26).toLowerCase());
  out.push(Object.keys({a: 1, b: i}).join(), typeof Function.prototype.bind.call(function () {}, null), new Error("m" + i).message);
}
out.join("|");
`

func runTour(g int) string {
	vm := otto.New()
	vm.Set("G", g)
	v, err := vm.Run(tour)
	if err != nil {
		return "ERR " + err.Error()
	}
	return v.String()

}

// sharedTrace is compiled ONCE and run by many runtimes at the same time: its errors are raised at
// different depths and lines, and both the script (e.stack) and the host (Error.String) format the
// positions of the frames, which are looked up in the file table the shared Script carries.
const sharedTrace = `
function lvl3(k) { if (k % 3 === 0) { null.p } if (k % 3 === 1) { undefinedName } throw new RangeError("r" + k) }
function lvl2(k) {
  return lvl3(k)
}
function lvl1(k) { try { return lvl2(k) } catch (e) { return e.name + "@" + e.stack } }
var parts = [];
for (var k = 0; k < 9; k++) { parts.push(lvl1(k)) }
parts.push(String(G));
if (G % 2 === 0) { lvl2(G) }
parts.join("#");
`

func runSharedTrace(sc *otto.Script, g int) string {
	vm := otto.New()
	vm.Set("G", g)
	v, err := vm.Run(sc)
	if err != nil {
		if oe, ok := err.(*otto.Error); ok {
			return "ERR " + oe.String()
		}
		return "ERR " + err.Error()
	}
	return v.String()
}

func main() {
	// runtimes with a stack depth limit: some recurse close to the limit through Run, the others are
	// entered from Go at rest (Value.Call, Otto.Call) - the nesting one runtime reaches must not count
	// against another (or against its own later calls); the results are fixed by the programs
	{
		const limit = 12 // for the runtimes entered from Go; the recursing ones have no limit and go deep
		var lg sync.WaitGroup
		for i := 0; i < 8; i++ {
			lg.Add(1)
			go func() {
				defer lg.Done()
				vm := otto.New()
				if i%2 == 1 {
					vm.SetStackDepthLimit(limit)
				}
				if _, err := vm.Run(`function down(n) { return n > 0 ? 1 + down(n - 1) : 0 } function sum(n) { return n > 0 ? n + sum(n - 1) : 0 }`); err != nil {
					fmt.Fprintf(os.Stderr, "UNIT-ERROR limit %d: %v\n", i, err)
					return
				}
				sum, _ := vm.Get("sum")
				for r := 0; r < 150; r++ {
					var got string
					switch {
					case i%2 == 0:
						v, err := vm.Run(`down(400)`)
						got = fmt.Sprint(v, err)
						if got != "400 <nil>" {
							fmt.Fprintf(os.Stderr, "UNIT-ERROR limit %d: down(400) without a limit gave %s (limit of the others: %d)\n", i, got, limit)
							return
						}
					case i%4 == 1: // one entry point per runtime: alternating them would reset what one leaves behind
						v, err := sum.Call(otto.UndefinedValue(), 3)
						got = fmt.Sprint(v, err)
					default:
						v, err := vm.Call("sum", nil, 3)
						got = fmt.Sprint(v, err)
					}
					if i%2 == 1 && got != "6 <nil>" {
						fmt.Fprintf(os.Stderr, "UNIT-ERROR limit %d: sum(3) called from Go at rest under limit %d gave %s while other runtimes recurse\n", i, limit, got)
						return
					}
				}
			}()
		}
		lg.Wait()
	}
	// a compiled Script shared by concurrently running runtimes, including the formatting of
	// error traces (positions come from the Script's file); reference computed afterwards
	if sc, err := otto.New().Compile("shared-trace.js", sharedTrace); err == nil {
		var sg sync.WaitGroup
		sgot := make([][]string, 8)
		for i := 0; i < 8; i++ {
			sg.Add(1)
			go func() {
				defer sg.Done()
				for r := 0; r < 40; r++ {
					sgot[i] = append(sgot[i], runSharedTrace(sc, i))
				}
			}()
		}
		sg.Wait()
		for i := range sgot {
			want := runSharedTrace(sc, i)
			for _, g := range sgot[i] {
				if g != want {
					fmt.Fprintf(os.Stderr, "UNIT-ERROR shared-trace %d: a runtime sharing a compiled Script with others formatted a different result than alone: %.200q want %.200q\n", i, g, want)
					break
				}
			}
		}
	} else {
		fmt.Fprintf(os.Stderr, "UNIT-ERROR shared-trace: %v\n", err)
	}

	// the concurrent executions come FIRST, on cold package-level state; each goroutine uses
	// its own patterns/keys; the sequential reference is computed afterwards
	var tg sync.WaitGroup
	got := make([]string, 12)
	for i := 0; i < 12; i++ {
		tg.Add(1)
		go func() {
			defer tg.Done()
			got[i] = runTour(i)
			if again := runTour(i); again != got[i] {
				got[i] = "DIFFERS"
			}
		}()
	}
	defer func() {
		tg.Wait()
		for i := range got {
			if want := runTour(i); got[i] != want {
				fmt.Fprintf(os.Stderr, "UNIT-ERROR tour %d: a runtime used concurrently with others computed a different result than alone\n", i)
			}
		}
	}()
	seed, _ := strconv.ParseInt(os.Args[1], 10, 64)
	n, _ := strconv.Atoi(os.Args[2])
	rounds, _ := strconv.Atoi(os.Args[3])
	for r := 0; r < rounds; r++ {
		w := c20.BuildWorkload(seed+int64(r), n, 3)
		var wg sync.WaitGroup
		for _, u := range w.Units {
			wg.Add(1)
			go func() {
				defer wg.Done()
				vm := w.NewRuntime(u)
				if err := w.RunUnit(u, vm); err != nil {
					fmt.Fprintf(os.Stderr, "UNIT-ERROR %d %v\n", u.ID, err)
				}
			}()
		}
		wg.Wait()
		for _, u := range w.Units {
			fmt.Printf("%s\n", u.Line())
		}
		fmt.Printf("%s\n", w.TemplateUnit().Line())
	}
}
