// c20race is built with -race: it runs a workload of independent runtimes on
// free-running goroutines and prints every unit's outcomes as JSON lines.
// Data race reports go to stderr (the race detector writes them there).
package main

import (
	"fmt"
	"os"
	"strconv"
	"sync"

	"github.com/robertkrimen/otto"

	"verif/harness/internal/c20"
)

// tour touches most built-in families; its result is deterministic, so every
// concurrent execution must print the sequential answer.
const tour = `
var out = [];
for (var i = 0; i < 30; i++) {
  out.push(/a(b+)c/.exec("xxabbbc" + i)[1], "abc".replace(/b/g, "[" + i + "]"), new RegExp("x" + G + "_" + (i % 5), "gi").test("X" + G + "_" + (i % 5)), new RegExp("[a-" + String.fromCharCode(98 + (G + i) % 20) + "]+").exec("abcxyz")[0]);
  out.push(JSON.stringify({k: [i, "s", null], d: new Date(86400000 * i).toISOString()}), JSON.parse('{"a":[1,2,{"b":' + i + '}]}').a[2].b);
  out.push([5, 3, i % 7, 1].sort().join(), [1, 2, 3].map(function (x) { return x * i }).reduce(function (a, b) { return a + b }, 0));
  out.push(Math.max(i, 3) + Math.floor(i / 3) + Math.pow(2, i % 10), (i * 1.5).toFixed(2), parseInt("1" + i, 8), ("" + i).charCodeAt(0));
  out.push(encodeURIComponent("é" + i), "a,b,c".split(",").length, " t ".trim() + i, String.fromCharCode(65 + i % 26).toLowerCase());
  out.push(Object.keys({a: 1, b: i}).join(), typeof Function.prototype.bind.call(function () {}, null), new Error("m" + i).message);
}
out.join("|");
`

func runTour(g int) string {
	vm := otto.New()
	vm.Set("G", g)
	v, err := vm.Run(tour)
	if err != nil {
		return "ERR " + err.Error()
	}
	return v.String()

}

func main() {
	// the concurrent executions come FIRST, on cold package-level state; each goroutine uses
	// its own patterns/keys; the sequential reference is computed afterwards
	var tg sync.WaitGroup
	got := make([]string, 12)
	for i := 0; i < 12; i++ {
		tg.Add(1)
		go func() {
			defer tg.Done()
			got[i] = runTour(i)
			if again := runTour(i); again != got[i] {
				got[i] = "DIFFERS"
			}
		}()
	}
	defer func() {
		tg.Wait()
		for i := range got {
			if want := runTour(i); got[i] != want {
				fmt.Fprintf(os.Stderr, "UNIT-ERROR tour %d: a runtime used concurrently with others computed a different result than alone\n", i)
			}
		}
	}()
	seed, _ := strconv.ParseInt(os.Args[1], 10, 64)
	n, _ := strconv.Atoi(os.Args[2])
	rounds, _ := strconv.Atoi(os.Args[3])
	for r := 0; r < rounds; r++ {
		w := c20.BuildWorkload(seed+int64(r), n, 3)
		var wg sync.WaitGroup
		for _, u := range w.Units {
			wg.Add(1)
			go func() {
				defer wg.Done()
				vm := w.NewRuntime(u)
				if err := w.RunUnit(u, vm); err != nil {
					fmt.Fprintf(os.Stderr, "UNIT-ERROR %d %v\n", u.ID, err)
				}
			}()
		}
		wg.Wait()
		for _, u := range w.Units {
			fmt.Printf("%s\n", u.Line())
		}
	}
}
