// apicheck runs the API-level state machine stage (spec/OttoAPI.tla + replay) alone:
//
//	apicheck [quick|thorough]
//
// It prints the coverage map and the violations; it does not write an evidence file.
package main

import (
	"encoding/json"
	"fmt"
	"os"

	"verif/harness/internal/api"
	"verif/harness/internal/core"
)

func main() {
	tier := "quick"
	if len(os.Args) > 1 {
		tier = os.Args[1]
	}
	c, err := core.NewCtx("API", tier)
	if err != nil {
		fmt.Println("CHECK-ERROR (not a verdict): setup:", err)
		os.Exit(2)
	}
	cov, err := api.Stage(c, tier != "thorough")
	b, _ := json.MarshalIndent(cov, "", " ")
	fmt.Println(string(b))
	for i, v := range c.Violations() {
		if i >= 20 {
			fmt.Printf("... %d more violations\n", len(c.Violations())-20)
			break
		}
		fmt.Printf("VIOLATION property=API replay=%s\n  %s\n", v.Path, v.Detail)
	}
	if len(c.Violations()) > 0 {
		os.Exit(1)
	}
	if err != nil {
		fmt.Println("CHECK-ERROR (not a verdict):", err)
		os.Exit(2)
	}
	fmt.Printf("OK stage=API tier=%s\n", tier)
}
