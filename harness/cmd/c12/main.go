package main

import (
	"verif/harness/internal/c12"
	"verif/harness/internal/core"
)

func main() { core.Main("C12", c12.Check) }
