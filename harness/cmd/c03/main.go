package main

import (
	"verif/harness/internal/c03"
	"verif/harness/internal/core"
)

func main() { core.Main("C03", c03.Check) }
