package main

import (
	"verif/harness/internal/c07"
	"verif/harness/internal/core"
)

func main() { core.Main("C07", c07.Check) }
