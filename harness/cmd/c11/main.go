package main

import (
	"verif/harness/internal/c11"
	"verif/harness/internal/core"
)

func main() { core.Main("C11", c11.Check) }
