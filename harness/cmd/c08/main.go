package main

import (
	"verif/harness/internal/c08"
	"verif/harness/internal/core"
)

func main() { core.Main("C08", c08.Check) }
