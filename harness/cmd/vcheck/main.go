// vcheck runs one property check: vcheck <Cxx> [quick|thorough]
package main

import (
	"fmt"
	"os"

	"verif/harness/internal/c05"
	"verif/harness/internal/c07"
	"verif/harness/internal/core"
)

type checkFn func(*core.Ctx) (map[string]any, []string, error)

var checks = map[string]checkFn{
	"C05": c05.Check,
	"C07": c07.Check,
}

func main() {
	if len(os.Args) < 2 {
		fmt.Println("usage: vcheck <Cxx> [quick|thorough]")
		os.Exit(2)
	}
	prop := os.Args[1]
	tier := "quick"
	if len(os.Args) > 2 {
		tier = os.Args[2]
	}
	if t := os.Getenv("VERIF_TIER"); t != "" && len(os.Args) <= 2 {
		tier = t
	}
	fn, ok := checks[prop]
	if !ok {
		fmt.Println("unknown property", prop)
		os.Exit(2)
	}
	c, err := core.NewCtx(prop, tier)
	if err != nil {
		fmt.Println("setup error:", err)
		os.Exit(2)
	}
	core.RunWitnesses(c)
	cov, assumptions, err := fn(c)
	if err != nil {
		fmt.Println("CHECK-ERROR (not a verdict):", err)
		os.Exit(2)
	}
	os.Exit(c.Finish(cov, assumptions))
}
