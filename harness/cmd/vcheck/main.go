package main

import (
	"fmt"

	"github.com/robertkrimen/otto"
)

func main() {
	vm := otto.New()
	v, err := vm.Run("1+1")
	fmt.Println(v, err)
}
