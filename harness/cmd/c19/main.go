package main

import (
	"verif/harness/internal/c19"
	"verif/harness/internal/core"
)

func main() { core.Main("C19", c19.Check) }
