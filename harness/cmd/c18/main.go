package main

import (
	"verif/harness/internal/c18"
	"verif/harness/internal/core"
)

func main() { core.Main("C18", c18.Check) }
