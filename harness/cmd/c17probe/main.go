// c17probe: development aid - prints how often each targeted family variant containing a marker occurs.
package main

import (
	"fmt"
	"math/rand"
	"os"
	"strings"

	"verif/harness/internal/c01"
	"verif/harness/internal/c17/scen"
)

func main() {
	rng := rand.New(rand.NewSource(1))
	n := 0
	for i := 0; i < 300; i++ {
		h, m, q := scen.Scenario(rng)
		src := c01.RenderProgram(h)
		if strings.Contains(src, os.Args[1]) {
			n++
			if n == 1 {
				fmt.Println(src, "\n--M--\n", c01.RenderProgram(m), "\n--Q--\n", c01.RenderProgram(q))
			}
		}
	}
	fmt.Println("count", n)
}
