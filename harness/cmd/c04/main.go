package main

import (
	"verif/harness/internal/c04"
	"verif/harness/internal/core"
)

func main() { core.Main("C04", c04.Check) }
