package main

import (
	"verif/harness/internal/c16"
	"verif/harness/internal/core"
)

func main() { core.Main("C16", c16.Check) }
