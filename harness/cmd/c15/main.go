package main

import (
	"verif/harness/internal/c15"
	"verif/harness/internal/core"
)

func main() { core.Main("C15", c15.Check) }
