package main

import (
	"verif/harness/internal/c10"
	"verif/harness/internal/core"
)

func main() { core.Main("C10", c10.Check) }
