package main

import (
	"verif/harness/internal/c20"
	"verif/harness/internal/core"
)

func main() { core.Main("C20", c20.Check) }
