package main

import (
	"verif/harness/internal/c02"
	"verif/harness/internal/core"
)

func main() { core.Main("C02", c02.Check) }
