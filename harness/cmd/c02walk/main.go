// c02walk prints the paths of all functions reachable on a fresh otto runtime
// (input of spec/gen_c02fns.py, which writes spec/C02Fns.tla).
package main

import (
	"fmt"
	"os"

	"verif/harness/internal/c02"
)

func main() {
	p, err := c02.Walk()
	if err != nil {
		fmt.Fprintln(os.Stderr, err)
		os.Exit(2)
	}
	for _, s := range p {
		fmt.Println(s)
	}
}
