package main

import (
	"verif/harness/internal/c13"
	"verif/harness/internal/core"
)

func main() { core.Main("C13", c13.Check) }
