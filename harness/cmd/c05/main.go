package main

import (
	"verif/harness/internal/c05"
	"verif/harness/internal/core"
)

func main() { core.Main("C05", c05.Check) }
