package main

import (
	"verif/harness/internal/c06"
	"verif/harness/internal/core"
)

func main() { core.Main("C06", c06.Check) }
