package main

import (
	"verif/harness/internal/c14"
	"verif/harness/internal/core"
)

func main() { core.Main("C14", c14.Check) }
