package main

import (
	"verif/harness/internal/c17"
	"verif/harness/internal/core"
)

func main() { core.Main("C17", c17.Check) }
