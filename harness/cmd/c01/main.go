package main

import (
	"verif/harness/internal/c01"
	"verif/harness/internal/core"
)

func main() { core.Main("C01", c01.Check) }
