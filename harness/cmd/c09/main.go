package main

import (
	"verif/harness/internal/c09"
	"verif/harness/internal/core"
)

func main() { core.Main("C09", c09.Check) }
