package main

import (
	"fmt"
	"os"

	"github.com/robertkrimen/otto"
)

func main() {
	vm := otto.New()
	v, err := vm.Run(os.Args[1])
	fmt.Printf("%v | %v\n", v, err)
}
