// Package bridge is shared by the C15 and C16 drivers: it builds real Go
// values from the abstract Go values of spec/Bridge.tla (by reflection over a
// fixed family of declared types), projects Go values back into that abstract
// form (the trusted part) and holds the JavaScript-side observation prelude.
package bridge

import (
	"bytes"
	"encoding/json"
	"fmt"
	"math"
	"math/big"
	"reflect"
	"regexp"
	"sort"
	"unicode/utf16"

	"github.com/robertkrimen/otto"

	"verif/harness/internal/jsx"
	"verif/harness/internal/num"
)

// T is the struct type of the abstract value [k |-> "struct", ...].
type T struct {
	A   int
	B   string `json:"bee"`
	c   int
	F   float64
	Any interface{}
	Hid int `json:"-"`
}

// GetA has a value receiver (visible on T and *T).
func (t T) GetA() int { return t.A }

// SetA has a pointer receiver (visible on *T only).
func (t *T) SetA(v int) { t.A = v }

// SetC/GetC let the harness reach the unexported field.
func SetC(t *T, v int) { t.c = v }
func GetC(t *T) int     { return t.c }

// Declared named types of every scalar kind (abstract values [k |-> "named", base]).
type (
	NInt     int
	NInt8    int8
	NInt16   int16
	NInt32   int32
	NInt64   int64
	NUint    uint
	NUint8   uint8
	NUint16  uint16
	NUint32  uint32
	NUint64  uint64
	NFloat32 float32
	NFloat64 float64
	NString  string
	NBool    bool
)

// NS is a struct whose fields have named numeric types (abstract value [k |-> "nstruct", ptr, f]):
// field i holds f[i]; the kinds are those of nsKinds, in order.
type NS struct {
	A NInt
	B NInt8
	C NInt16
	D NInt32
	E NInt64
	F NUint
	G NUint8
	H NUint16
	I NUint32
	J NUint64
	L NFloat64
}

// PS is a struct whose fields are pointers to every numeric kind (abstract value [k |-> "pstruct", ptr, f]).
type PS struct {
	A *int
	B *int8
	C *int16
	D *int32
	E *int64
	F *uint
	G *uint8
	H *uint16
	I *uint32
	J *uint64
	K *float32
	L *float64
}

var nsKinds = []string{"int", "int8", "int16", "int32", "int64", "uint", "uint8", "uint16", "uint32", "uint64", "float64"}

var namedTypes = map[string]reflect.Type{
	"int": reflect.TypeOf(NInt(0)), "int8": reflect.TypeOf(NInt8(0)), "int16": reflect.TypeOf(NInt16(0)), "int32": reflect.TypeOf(NInt32(0)), "int64": reflect.TypeOf(NInt64(0)),
	"uint": reflect.TypeOf(NUint(0)), "uint8": reflect.TypeOf(NUint8(0)), "uint16": reflect.TypeOf(NUint16(0)), "uint32": reflect.TypeOf(NUint32(0)), "uint64": reflect.TypeOf(NUint64(0)),
	"float32": reflect.TypeOf(NFloat32(0)), "float64": reflect.TypeOf(NFloat64(0)), "string": reflect.TypeOf(NString("")), "bool": reflect.TypeOf(NBool(false)),
}

var nsType, nsPtrType = reflect.TypeOf(NS{}), reflect.TypeOf(&NS{})

func namedKind(t reflect.Type) (string, bool) {
	for k, nt := range namedTypes {
		if nt == t {
			return k, true
		}
	}
	return "", false
}

type M = map[string]any

// ---- exact integers ("Z") and numbers ---------------------------------------

// ZOfBig encodes an integer exactly as Num!Canon(neg, |v|, 0) does.
func ZOfBig(v *big.Int) M {
	if v.Sign() == 0 {
		return M{"c": "int", "v": 0}
	}
	neg := v.Sign() < 0
	m := new(big.Int).Abs(v)
	e := int(m.TrailingZeroBits())
	m.Rsh(m, uint(e))
	L := m.BitLen()
	if L+e <= 30 || (L == 1 && e == 30) {
		x := new(big.Int).Lsh(m, uint(e)).Int64()
		if neg {
			x = -x
		}
		return M{"c": "int", "v": int(x)}
	}
	var limbs []any
	mask := big.NewInt(0x7fff)
	t := new(big.Int).Set(m)
	for t.Sign() != 0 {
		limbs = append(limbs, int(new(big.Int).And(t, mask).Int64()))
		t.Rsh(t, 15)
	}
	return M{"c": "big", "neg": neg, "m": limbs, "e": e}
}

func ZOfInt64(i int64) M   { return ZOfBig(big.NewInt(i)) }
func ZOfUint64(u uint64) M { return ZOfBig(new(big.Int).SetUint64(u)) }

// BigOfZ decodes an exact integer.
func BigOfZ(z any) (*big.Int, error) {
	m, ok := z.(map[string]any)
	if !ok {
		return nil, fmt.Errorf("bad integer %v", z)
	}
	switch m["c"] {
	case "int":
		return big.NewInt(int64(m["v"].(float64))), nil
	case "big":
		r := new(big.Int)
		limbs := m["m"].([]any)
		for i := len(limbs) - 1; i >= 0; i-- {
			r.Lsh(r, 15)
			r.Or(r, big.NewInt(int64(limbs[i].(float64))))
		}
		e := int(m["e"].(float64))
		if e < 0 {
			return nil, fmt.Errorf("not an integer: %v", z)
		}
		r.Lsh(r, uint(e))
		if m["neg"].(bool) {
			r.Neg(r)
		}
		return r, nil
	}
	return nil, fmt.Errorf("bad integer class %v", m["c"])
}

// NumJSON is the JSON form (as map) of a float64.
func NumJSON(f float64) M {
	var m M
	json.Unmarshal([]byte(jsx.NumEnc(f)), &m)
	return m
}

// FloatOfNum decodes a Num.
func FloatOfNum(n any) (float64, error) {
	b, _ := json.Marshal(n)
	var x num.N
	if err := json.Unmarshal(b, &x); err != nil {
		return 0, err
	}
	return x.Float()
}

func Units(s string) []any {
	r := []any{}
	for _, u := range utf16.Encode([]rune(s)) {
		r = append(r, int(u))
	}
	return r
}

func StringOfUnits(u any) string {
	a, _ := u.([]any)
	us := make([]uint16, len(a))
	for i, x := range a {
		us[i] = uint16(x.(float64))
	}
	return string(utf16.Decode(us))
}

// ---- abstract Go value -> real Go value --------------------------------------

var kindTypes = map[string]reflect.Type{
	"bool": reflect.TypeOf(false), "string": reflect.TypeOf(""),
	"int": reflect.TypeOf(int(0)), "int8": reflect.TypeOf(int8(0)), "int16": reflect.TypeOf(int16(0)), "int32": reflect.TypeOf(int32(0)), "int64": reflect.TypeOf(int64(0)),
	"uint": reflect.TypeOf(uint(0)), "uint8": reflect.TypeOf(uint8(0)), "uint16": reflect.TypeOf(uint16(0)), "uint32": reflect.TypeOf(uint32(0)), "uint64": reflect.TypeOf(uint64(0)),
	"float32": reflect.TypeOf(float32(0)), "float64": reflect.TypeOf(float64(0)),
	"iface": reflect.TypeOf((*interface{})(nil)).Elem(),
	"struct": reflect.TypeOf(T{}), "ptr": reflect.TypeOf(&T{}),
}

// ElemType maps an element kind name to its Go type.
func ElemType(name string) (reflect.Type, error) {
	if t, ok := kindTypes[name]; ok {
		return t, nil
	}
	if len(name) > 6 && name[:6] == "named:" {
		if t, ok := namedTypes[name[6:]]; ok {
			return t, nil
		}
	}
	return nil, fmt.Errorf("unknown element kind %q", name)
}

func kindName(t reflect.Type) string {
	if t.Kind() == reflect.Interface {
		return "iface"
	}
	if k, ok := namedKind(t); ok {
		return "named:" + k
	}
	if t == kindTypes["struct"] {
		return "struct"
	}
	if t == kindTypes["ptr"] {
		return "ptr"
	}
	if t.PkgPath() == "" {
		if _, ok := kindTypes[t.Kind().String()]; ok {
			return t.Kind().String()
		}
	}
	return "?" + t.String()
}

func isInt(k string) bool {
	switch k {
	case "int", "int8", "int16", "int32", "int64":
		return true
	}
	return false
}
func isUint(k string) bool {
	switch k {
	case "uint", "uint8", "uint16", "uint32", "uint64":
		return true
	}
	return false
}

// Build constructs the Go value an abstract value denotes.
func Build(g any) (interface{}, error) {
	v, err := buildRV(g)
	if err != nil {
		return nil, err
	}
	if !v.IsValid() {
		return nil, nil
	}
	return v.Interface(), nil
}

func buildRV(g any) (reflect.Value, error) {
	m, ok := g.(map[string]any)
	if !ok {
		return reflect.Value{}, fmt.Errorf("bad abstract value %v", g)
	}
	k, _ := m["k"].(string)
	switch {
	case k == "nil":
		return reflect.Value{}, nil
	case k == "ptrnil":
		return reflect.ValueOf((*T)(nil)), nil
	case k == "nilptr":
		t, err := ElemType(m["of"].(string))
		if err != nil {
			return reflect.Value{}, err
		}
		return reflect.Zero(reflect.PtrTo(t)), nil
	case k == "ptr":
		to, err := buildRV(m["to"])
		if err != nil {
			return reflect.Value{}, err
		}
		if !to.IsValid() {
			return reflect.Value{}, fmt.Errorf("pointer to untyped nil")
		}
		p := reflect.New(to.Type())
		p.Elem().Set(to)
		return p, nil
	case k == "named":
		base, err := buildRV(m["base"])
		if err != nil {
			return reflect.Value{}, err
		}
		bk, _ := m["base"].(map[string]any)["k"].(string)
		nt, ok := namedTypes[bk]
		if !ok || !base.IsValid() {
			return reflect.Value{}, fmt.Errorf("no named type for %q", bk)
		}
		return base.Convert(nt), nil
	case k == "imap":
		kk, _ := m["key"].(string)
		kt := kindTypes[kk]
		if named, _ := m["named"].(bool); named {
			kt = namedTypes[kk]
		}
		et, err := ElemType(m["elem"].(string))
		if err != nil {
			return reflect.Value{}, err
		}
		mt := reflect.MapOf(kt, et)
		if m["isnil"].(bool) {
			return reflect.Zero(mt), nil
		}
		keys, _ := m["keys"].([]any)
		vals, _ := m["vals"].([]any)
		mv := reflect.MakeMap(mt)
		for i := range keys {
			kv, err := buildRV(M{"k": kk, "z": keys[i]})
			if err != nil {
				return reflect.Value{}, err
			}
			ev, err := buildRV(vals[i])
			if err != nil {
				return reflect.Value{}, err
			}
			if !ev.IsValid() {
				ev = reflect.Zero(et)
			}
			mv.SetMapIndex(kv.Convert(kt), ev)
		}
		return mv, nil
	case k == "pstruct":
		fs, _ := m["f"].([]any)
		p := reflect.New(reflect.TypeOf(PS{}))
		if len(fs) != p.Elem().NumField() {
			return reflect.Value{}, fmt.Errorf("pstruct needs %d fields", p.Elem().NumField())
		}
		for i, f := range fs {
			fv, err := buildRV(f)
			if err != nil {
				return reflect.Value{}, err
			}
			if fv.Type() != p.Elem().Field(i).Type() {
				return reflect.Value{}, fmt.Errorf("pstruct field %d: %v is not %v", i, fv.Type(), p.Elem().Field(i).Type())
			}
			p.Elem().Field(i).Set(fv)
		}
		if m["ptr"].(bool) {
			return p, nil
		}
		return p.Elem(), nil
	case k == "nstruct":
		fs, _ := m["f"].([]any)
		if len(fs) != len(nsKinds) {
			return reflect.Value{}, fmt.Errorf("nstruct needs %d fields", len(nsKinds))
		}
		p := reflect.New(nsType)
		for i, f := range fs {
			fv, err := buildRV(f)
			if err != nil {
				return reflect.Value{}, err
			}
			if fv.Type() != p.Elem().Field(i).Type() {
				return reflect.Value{}, fmt.Errorf("nstruct field %d: %v is not %v", i, fv.Type(), p.Elem().Field(i).Type())
			}
			p.Elem().Field(i).Set(fv)
		}
		if m["ptr"].(bool) {
			return p, nil
		}
		return p.Elem(), nil
	case k == "bool":
		return reflect.ValueOf(m["b"].(bool)), nil
	case isInt(k) || isUint(k):
		z, err := BigOfZ(m["z"])
		if err != nil {
			return reflect.Value{}, err
		}
		rv := reflect.New(kindTypes[k]).Elem()
		if isInt(k) {
			if !z.IsInt64() || rv.OverflowInt(z.Int64()) {
				return reflect.Value{}, fmt.Errorf("%v does not fit %s", z, k)
			}
			rv.SetInt(z.Int64())
		} else {
			if !z.IsUint64() || rv.OverflowUint(z.Uint64()) {
				return reflect.Value{}, fmt.Errorf("%v does not fit %s", z, k)
			}
			rv.SetUint(z.Uint64())
		}
		return rv, nil
	case k == "float32" || k == "float64":
		f, err := FloatOfNum(m["n"])
		if err != nil {
			return reflect.Value{}, err
		}
		if k == "float32" {
			if !math.IsNaN(f) && float64(float32(f)) != f {
				return reflect.Value{}, fmt.Errorf("%v is not a float32", f)
			}
			return reflect.ValueOf(float32(f)), nil
		}
		return reflect.ValueOf(f), nil
	case k == "string":
		return reflect.ValueOf(StringOfUnits(m["s"])), nil
	case k == "slice":
		et, err := ElemType(m["elem"].(string))
		if err != nil {
			return reflect.Value{}, err
		}
		st := reflect.SliceOf(et)
		if m["isnil"].(bool) {
			return reflect.Zero(st), nil
		}
		items, _ := m["items"].([]any)
		s := reflect.MakeSlice(st, len(items), len(items))
		for i, it := range items {
			ev, err := buildRV(it)
			if err != nil {
				return reflect.Value{}, err
			}
			if ev.IsValid() {
				if !ev.Type().AssignableTo(et) {
					return reflect.Value{}, fmt.Errorf("element %v not assignable to %v", ev.Type(), et)
				}
				s.Index(i).Set(ev)
			}
		}
		return s, nil
	case k == "map":
		et, err := ElemType(m["elem"].(string))
		if err != nil {
			return reflect.Value{}, err
		}
		mt := reflect.MapOf(kindTypes["string"], et)
		if m["isnil"].(bool) {
			return reflect.Zero(mt), nil
		}
		keys, _ := m["keys"].([]any)
		vals, _ := m["vals"].([]any)
		mv := reflect.MakeMap(mt)
		for i := range keys {
			ev, err := buildRV(vals[i])
			if err != nil {
				return reflect.Value{}, err
			}
			if !ev.IsValid() {
				ev = reflect.Zero(et)
			}
			mv.SetMapIndex(reflect.ValueOf(StringOfUnits(keys[i])), ev)
		}
		return mv, nil
	case k == "struct":
		var t T
		geti := func(name string) (int, error) {
			z, err := BigOfZ(m[name])
			if err != nil {
				return 0, err
			}
			return int(z.Int64()), nil
		}
		var err error
		if t.A, err = geti("A"); err != nil {
			return reflect.Value{}, err
		}
		if t.c, err = geti("c"); err != nil {
			return reflect.Value{}, err
		}
		if t.Hid, err = geti("Hid"); err != nil {
			return reflect.Value{}, err
		}
		t.B = StringOfUnits(m["B"])
		if t.F, err = FloatOfNum(m["F"]); err != nil {
			return reflect.Value{}, err
		}
		if t.Any, err = Build(m["Any"]); err != nil {
			return reflect.Value{}, err
		}
		if m["ptr"].(bool) {
			return reflect.ValueOf(&t), nil
		}
		return reflect.ValueOf(t), nil
	}
	return reflect.Value{}, fmt.Errorf("unknown abstract kind %q", k)
}

// ---- real Go value -> abstract Go value (trusted projection) -----------------

// Project gives the abstract form of a Go value of the declared family.
func Project(v interface{}) any {
	if v == nil {
		return M{"k": "nil"}
	}
	return projectRV(reflect.ValueOf(v))
}

func projectRV(rv reflect.Value) any {
	if !rv.IsValid() {
		return M{"k": "nil"}
	}
	t := rv.Type()
	if t == kindTypes["ptr"] {
		if rv.IsNil() {
			return M{"k": "ptrnil"}
		}
		m := projectRV(rv.Elem()).(M)
		m["ptr"] = true
		return m
	}
	if t == kindTypes["struct"] {
		x := rv.Interface().(T)
		return M{"k": "struct", "ptr": false, "A": ZOfInt64(int64(x.A)), "B": Units(x.B), "c": ZOfInt64(int64(x.c)),
			"F": NumJSON(x.F), "Any": Project(x.Any), "Hid": ZOfInt64(int64(x.Hid))}
	}
	if t == nsPtrType {
		if rv.IsNil() {
			return M{"k": "nilptr", "of": "nstruct"}
		}
		m := projectRV(rv.Elem()).(M)
		m["ptr"] = true
		return m
	}
	if t == nsType {
		fs := []any{}
		for i := 0; i < rv.NumField(); i++ {
			fs = append(fs, projectRV(rv.Field(i)))
		}
		return M{"k": "nstruct", "ptr": false, "f": fs}
	}
	if bk, ok := namedKind(t); ok {
		return M{"k": "named", "base": projectRV(rv.Convert(kindTypes[bk]))}
	}
	if t.PkgPath() != "" {
		return M{"k": "?", "go": t.String()}
	}
	if t.Kind() == reflect.Ptr {
		if rv.IsNil() {
			return M{"k": "nilptr", "of": kindName(t.Elem())}
		}
		return M{"k": "ptr", "to": projectRV(rv.Elem())}
	}
	switch rv.Kind() {
	case reflect.Bool:
		return M{"k": "bool", "b": rv.Bool()}
	case reflect.Int, reflect.Int8, reflect.Int16, reflect.Int32, reflect.Int64:
		return M{"k": rv.Kind().String(), "z": ZOfInt64(rv.Int())}
	case reflect.Uint, reflect.Uint8, reflect.Uint16, reflect.Uint32, reflect.Uint64:
		return M{"k": rv.Kind().String(), "z": ZOfUint64(rv.Uint())}
	case reflect.Float32, reflect.Float64:
		return M{"k": rv.Kind().String(), "n": NumJSON(rv.Float())}
	case reflect.String:
		return M{"k": "string", "s": Units(rv.String())}
	case reflect.Interface:
		if rv.IsNil() {
			return M{"k": "nil"}
		}
		return projectRV(rv.Elem())
	case reflect.Slice:
		items := []any{}
		for i := 0; i < rv.Len(); i++ {
			items = append(items, projectRV(rv.Index(i)))
		}
		return M{"k": "slice", "elem": kindName(t.Elem()), "isnil": rv.IsNil(), "items": items}
	case reflect.Map:
		if kk := t.Key().Kind().String(); isInt(kk) || isUint(kk) {
			// integer-keyed map: keys in the code-unit order of their decimal strings
			_, named := namedKind(t.Key())
			ks := rv.MapKeys()
			dec := func(v reflect.Value) string {
				if isInt(kk) {
					return fmt.Sprint(v.Int())
				}
				return fmt.Sprint(v.Uint())
			}
			sort.Slice(ks, func(i, j int) bool { return lessUnits(dec(ks[i]), dec(ks[j])) })
			keys, vals := []any{}, []any{}
			for _, k := range ks {
				if isInt(kk) {
					keys = append(keys, ZOfInt64(k.Int()))
				} else {
					keys = append(keys, ZOfUint64(k.Uint()))
				}
				vals = append(vals, projectRV(rv.MapIndex(k)))
			}
			return M{"k": "imap", "key": kk, "named": named, "elem": kindName(t.Elem()), "isnil": rv.IsNil(), "keys": keys, "vals": vals}
		}
		if t.Key() != kindTypes["string"] {
			return M{"k": "?", "go": t.String()}
		}
		ks := rv.MapKeys()
		sort.Slice(ks, func(i, j int) bool { return lessUnits(ks[i].String(), ks[j].String()) })
		keys, vals := []any{}, []any{}
		for _, k := range ks {
			keys = append(keys, Units(k.String()))
			vals = append(vals, projectRV(rv.MapIndex(k)))
		}
		return M{"k": "map", "elem": kindName(t.Elem()), "isnil": rv.IsNil(), "keys": keys, "vals": vals}
	}
	return M{"k": "?", "go": t.String()}
}

func lessUnits(a, b string) bool {
	x, y := utf16.Encode([]rune(a)), utf16.Encode([]rune(b))
	for i := 0; i < len(x) && i < len(y); i++ {
		if x[i] != y[i] {
			return x[i] < y[i]
		}
	}
	return len(x) < len(y)
}

// ProjectX projects an exported JavaScript value structurally (JSON-like data):
// every Go number kind is a number, every slice an array, every string-keyed map
// an object with sorted keys.
func ProjectX(v interface{}) any {
	if v == nil {
		return M{"x": "nil"}
	}
	return projectX(reflect.ValueOf(v))
}

func projectX(rv reflect.Value) any {
	if !rv.IsValid() {
		return M{"x": "nil"}
	}
	if _, isValue := rv.Interface().(otto.Value); isValue {
		return M{"x": "?", "go": "otto.Value"}
	}
	switch rv.Kind() {
	case reflect.Bool:
		return M{"x": "bool", "b": rv.Bool()}
	case reflect.Int, reflect.Int8, reflect.Int16, reflect.Int32, reflect.Int64:
		return M{"x": "num", "n": ZOfInt64(rv.Int())}
	case reflect.Uint, reflect.Uint8, reflect.Uint16, reflect.Uint32, reflect.Uint64:
		return M{"x": "num", "n": ZOfUint64(rv.Uint())}
	case reflect.Float32, reflect.Float64:
		return M{"x": "num", "n": NumJSON(rv.Float())}
	case reflect.String:
		return M{"x": "str", "s": Units(rv.String())}
	case reflect.Interface, reflect.Ptr:
		if rv.IsNil() {
			return M{"x": "nil"}
		}
		return projectX(rv.Elem())
	case reflect.Slice, reflect.Array:
		items := []any{}
		for i := 0; i < rv.Len(); i++ {
			items = append(items, projectX(rv.Index(i)))
		}
		return M{"x": "arr", "items": items}
	case reflect.Map:
		if rv.Type().Key().Kind() != reflect.String {
			return M{"x": "?", "go": rv.Type().String()}
		}
		ks := rv.MapKeys()
		sort.Slice(ks, func(i, j int) bool { return lessUnits(ks[i].String(), ks[j].String()) })
		keys, vals := []any{}, []any{}
		for _, k := range ks {
			keys = append(keys, Units(k.String()))
			vals = append(vals, projectX(rv.MapIndex(k)))
		}
		return M{"x": "obj", "keys": keys, "vals": vals}
	}
	return M{"x": "?", "go": rv.Type().String()}
}

// ---- JSON text -> tree --------------------------------------------------------

var reInt = regexp.MustCompile(`^-?[0-9]+$`)

// JSONTree parses a JSON text into the tree shape of Bridge!GoJSON (numbers by
// exact value, object keys sorted by code units).
func JSONTree(text []byte) (any, error) {
	dec := json.NewDecoder(bytes.NewReader(text))
	dec.UseNumber()
	var v any
	if err := dec.Decode(&v); err != nil {
		return nil, err
	}
	return jsonTree(v)
}

func jsonTree(v any) (any, error) {
	switch x := v.(type) {
	case nil:
		return M{"j": "null"}, nil
	case bool:
		return M{"j": "bool", "b": x}, nil
	case string:
		return M{"j": "str", "s": Units(x)}, nil
	case json.Number:
		s := x.String()
		if reInt.MatchString(s) {
			z, _ := new(big.Int).SetString(s, 10)
			if z.Sign() == 0 && s[0] == '-' {
				return M{"j": "num", "n": M{"c": "nzero"}}, nil
			}
			return M{"j": "num", "n": ZOfBig(z)}, nil
		}
		f, err := x.Float64()
		if err != nil {
			return nil, err
		}
		return M{"j": "num", "n": NumJSON(f)}, nil
	case []any:
		items := []any{}
		for _, e := range x {
			t, err := jsonTree(e)
			if err != nil {
				return nil, err
			}
			items = append(items, t)
		}
		return M{"j": "arr", "items": items}, nil
	case map[string]any:
		ks := make([]string, 0, len(x))
		for k := range x {
			ks = append(ks, k)
		}
		sort.Slice(ks, func(i, j int) bool { return lessUnits(ks[i], ks[j]) })
		keys, vals := []any{}, []any{}
		for _, k := range ks {
			t, err := jsonTree(x[k])
			if err != nil {
				return nil, err
			}
			keys = append(keys, Units(k))
			vals = append(vals, t)
		}
		return M{"j": "obj", "keys": keys, "vals": vals}, nil
	}
	return nil, fmt.Errorf("unexpected JSON value %T", v)
}

// ---- JavaScript side ------------------------------------------------------------

// Prelude: OBS(x) projects what a script sees of a value into the "J" shapes of
// spec/Bridge.tla; it needs jsx.Prelude (ENC, UNITS) and the host function NUMENC.
const Prelude = `
function CMPU(a, b){ var n = Math.min(a.length, b.length);
  for (var i=0;i<n;i++){ var x=a.charCodeAt(i), y=b.charCodeAt(i); if (x!==y) return x<y?-1:1; }
  return a.length===b.length?0:(a.length<b.length?-1:1); }
function OBS(x){
  if (x === null || (typeof x !== "object" && typeof x !== "function")) return ENC(x);
  if (typeof x === "function") return {t:"fn"};
  var cls = Object.prototype.toString.call(x);
  if (cls === "[object Array]" || cls === "[object GoSlice]" || cls === "[object GoArray]") {
    var it = [];
    for (var i=0;i<x.length;i++) it.push((i in x) ? OBS(x[i]) : {t:"hole"});
    return {t:"arr", items:it};
  }
  var ks = Object.keys(x).sort(CMPU), keys = [], vals = [];
  for (var j=0;j<ks.length;j++){ keys.push(UNITS(ks[j])); vals.push(OBS(x[ks[j]])); }
  return {t:"obj", keys:keys, vals:vals};
}
function OBSTOP(x, scalar){
  var r = {js:OBS(x), ty:UNITS(typeof x)};
  if (scalar) r.str = UNITS(String(x));
  else { var fi = []; for (var k in x) fi.push(k); fi.sort(CMPU); r.forin = fi.map(UNITS); }
  return JSON.stringify(r);
}
`

// NewVM returns a runtime with NUMENC installed and the given prelude run.
func NewVM(prelude string) (*otto.Otto, error) {
	vm := otto.New()
	if err := vm.Set("NUMENC", func(call otto.FunctionCall) otto.Value {
		f, _ := call.Argument(0).ToFloat()
		v, _ := otto.ToValue(jsx.NumEnc(f))
		return v
	}); err != nil {
		return nil, err
	}
	if _, err := vm.Run(prelude); err != nil {
		return nil, fmt.Errorf("prelude: %v", err)
	}
	return vm, nil
}

// ErrClass classifies an error returned by the otto API: the name of a
// JavaScript Error object, or "value" for a thrown non-Error value.
func ErrClass(err error) string {
	if err == nil {
		return ""
	}
	if oe, ok := err.(*otto.Error); ok {
		s := oe.Error()
		for i := 0; i < len(s); i++ {
			if s[i] == ':' {
				return s[:i]
			}
		}
		return s
	}
	return "value"
}

// ---- type-directed forms (C16) ---------------------------------------------------

// Box holds one slice-typed field per element kind: the addressable slices of the
// live-container state machine (reached from scripts as b.I8, b.U8, ...).
type Box struct {
	I8  []int8
	U8  []uint8
	F32 []float32
	Str []string
	Any []interface{}
	I64 []int64
	U64 []uint64
}

// BoxField names the field of Box for an element kind.
func BoxField(k string) string {
	switch k {
	case "int8":
		return "I8"
	case "uint8":
		return "U8"
	case "float32":
		return "F32"
	case "string":
		return "Str"
	case "int64":
		return "I64"
	case "uint64":
		return "U64"
	}
	return "Any"
}

// TypeOf maps a parameter type of spec/Bridge.tla to a Go type.
func TypeOf(ty any) (reflect.Type, error) {
	m, ok := ty.(map[string]any)
	if !ok {
		return nil, fmt.Errorf("bad type %v", ty)
	}
	k, _ := m["k"].(string)
	switch k {
	case "slice":
		e, err := TypeOf(m["e"])
		if err != nil {
			return nil, err
		}
		return reflect.SliceOf(e), nil
	case "map":
		e, err := TypeOf(m["e"])
		if err != nil {
			return nil, err
		}
		return reflect.MapOf(kindTypes["string"], e), nil
	}
	return ElemType(k)
}

func structForm(x T) M {
	return M{"k": "struct", "A": ZOfInt64(int64(x.A)), "B": Units(x.B), "c": ZOfInt64(int64(x.c)),
		"F": NumJSON(x.F), "Any": ifaceForm(reflect.ValueOf(x.Any)), "Hid": ZOfInt64(int64(x.Hid))}
}

func ifaceForm(rv reflect.Value) any {
	for rv.IsValid() && rv.Kind() == reflect.Interface {
		rv = rv.Elem()
	}
	if rv.IsValid() {
		if rv.Type() == kindTypes["ptr"] {
			if rv.IsNil() {
				return M{"k": "ptrnil"}
			}
			return M{"k": "ptr", "to": structForm(rv.Elem().Interface().(T))}
		}
		if rv.Type() == kindTypes["struct"] {
			return structForm(rv.Interface().(T))
		}
		return M{"k": "x", "x": projectX(rv)}
	}
	return M{"k": "x", "x": M{"x": "nil"}}
}

// ProjectAs projects a Go value as the given static type (type-directed form).
func ProjectAs(rv reflect.Value, t reflect.Type) any {
	switch {
	case t.Kind() == reflect.Interface:
		return ifaceForm(rv)
	case t == kindTypes["struct"]:
		return structForm(rv.Interface().(T))
	case t == kindTypes["ptr"]:
		if rv.IsNil() {
			return M{"k": "ptrnil"}
		}
		return M{"k": "ptr", "to": structForm(rv.Elem().Interface().(T))}
	case t.Kind() == reflect.Slice:
		items := []any{}
		for i := 0; i < rv.Len(); i++ {
			items = append(items, ProjectAs(rv.Index(i), t.Elem()))
		}
		return M{"k": "slice", "items": items}
	case t.Kind() == reflect.Map:
		ks := rv.MapKeys()
		sort.Slice(ks, func(i, j int) bool { return lessUnits(fmt.Sprint(ks[i].Interface()), fmt.Sprint(ks[j].Interface())) })
		keys, vals := []any{}, []any{}
		for _, k := range ks {
			keys = append(keys, Units(fmt.Sprint(k.Interface())))
			vals = append(vals, ProjectAs(rv.MapIndex(k), t.Elem()))
		}
		return M{"k": "map", "keys": keys, "vals": vals}
	}
	return projectRV(rv)
}

// BuildAs constructs a Go value of type t from a type-directed form.
func BuildAs(g any, t reflect.Type) (reflect.Value, error) {
	m, ok := g.(map[string]any)
	if !ok {
		return reflect.Value{}, fmt.Errorf("bad form %v", g)
	}
	if m["k"] == "x" {
		v, err := buildX(m["x"])
		if err != nil {
			return reflect.Value{}, err
		}
		if v == nil {
			return reflect.Zero(t), nil
		}
		rv := reflect.ValueOf(v)
		if !rv.Type().AssignableTo(t) {
			return reflect.Value{}, fmt.Errorf("%v not assignable to %v", rv.Type(), t)
		}
		out := reflect.New(t).Elem()
		out.Set(rv)
		return out, nil
	}
	rv, err := buildRV(g)
	if err != nil {
		return reflect.Value{}, err
	}
	if !rv.IsValid() {
		return reflect.Zero(t), nil
	}
	if !rv.Type().AssignableTo(t) {
		return reflect.Value{}, fmt.Errorf("%v not assignable to %v", rv.Type(), t)
	}
	out := reflect.New(t).Elem()
	out.Set(rv)
	return out, nil
}

func buildX(x any) (interface{}, error) {
	m, ok := x.(map[string]any)
	if !ok {
		return nil, fmt.Errorf("bad exported form %v", x)
	}
	switch m["x"] {
	case "nil":
		return nil, nil
	case "bool":
		return m["b"].(bool), nil
	case "str":
		return StringOfUnits(m["s"]), nil
	case "num":
		f, err := FloatOfNum(m["n"])
		if err != nil {
			return nil, err
		}
		if f == math.Trunc(f) && math.Abs(f) < 1<<31 && !(f == 0 && math.Signbit(f)) {
			return int(f), nil
		}
		return f, nil
	case "arr":
		items, _ := m["items"].([]any)
		out := make([]interface{}, len(items))
		for i, it := range items {
			v, err := buildX(it)
			if err != nil {
				return nil, err
			}
			out[i] = v
		}
		return out, nil
	case "obj":
		keys, _ := m["keys"].([]any)
		vals, _ := m["vals"].([]any)
		out := map[string]interface{}{}
		for i := range keys {
			v, err := buildX(vals[i])
			if err != nil {
				return nil, err
			}
			out[StringOfUnits(keys[i])] = v
		}
		return out, nil
	}
	return nil, fmt.Errorf("bad exported form %v", x)
}

// StructOfForm builds a T from the struct form.
func StructOfForm(g any) (T, error) {
	m, ok := g.(map[string]any)
	if !ok {
		return T{}, fmt.Errorf("bad struct form %v", g)
	}
	var t T
	geti := func(name string) (int, error) {
		z, err := BigOfZ(m[name])
		if err != nil {
			return 0, err
		}
		return int(z.Int64()), nil
	}
	var err error
	if t.A, err = geti("A"); err != nil {
		return t, err
	}
	if t.c, err = geti("c"); err != nil {
		return t, err
	}
	if t.Hid, err = geti("Hid"); err != nil {
		return t, err
	}
	t.B = StringOfUnits(m["B"])
	if t.F, err = FloatOfNum(m["F"]); err != nil {
		return t, err
	}
	av, err := BuildAs(m["Any"], kindTypes["iface"])
	if err != nil {
		return t, err
	}
	t.Any = av.Interface()
	return t, nil
}

// StructForm is the type-directed form of a T.
func StructForm(x T) M { return structForm(x) }

// ---- containers reached through an addressable parent (Bridge!DocMutate, DocPtrCall) ----------

// Inner and Doc: a struct bridged by pointer whose fields are slices, a nested
// struct by value, a pointer to a struct, an array, a slice and an array of
// structs and a slice of slices (abstract value [k |-> "doc", ...]).
type Inner struct {
	Tags  []string
	Sizes []int8
	N     int
}

type Doc struct {
	Title string
	Tags  []string
	Sizes []int8
	Any   []interface{}
	In    Inner
	PIn   *Inner
	Arr   [2]int8
	SIn   []Inner
	AIn   [2]Inner
	Grid  [][]int8
}

func exactSlice(rv reflect.Value) reflect.Value {
	// capacity = length, so that growth always reallocates (as the specification assumes)
	ns := reflect.MakeSlice(rv.Type(), rv.Len(), rv.Len())
	reflect.Copy(ns, rv)
	return ns
}

func buildSeq(items any, t reflect.Type) (reflect.Value, error) {
	a, _ := items.([]any)
	s := reflect.MakeSlice(reflect.SliceOf(t), len(a), len(a))
	for i, it := range a {
		v, err := BuildAs(it, t)
		if err != nil {
			return reflect.Value{}, err
		}
		s.Index(i).Set(v)
	}
	return s, nil
}

func buildInner(g any) (Inner, error) {
	m, ok := g.(map[string]any)
	if !ok {
		return Inner{}, fmt.Errorf("bad inner form %v", g)
	}
	var in Inner
	tags, err := buildSeq(m["Tags"], kindTypes["string"])
	if err != nil {
		return in, err
	}
	sizes, err := buildSeq(m["Sizes"], kindTypes["int8"])
	if err != nil {
		return in, err
	}
	z, err := BigOfZ(m["N"])
	if err != nil {
		return in, err
	}
	in.Tags, in.Sizes, in.N = tags.Interface().([]string), sizes.Interface().([]int8), int(z.Int64())
	return in, nil
}

// BuildDoc builds the *Doc an abstract doc value denotes.
func BuildDoc(g any) (*Doc, error) {
	m, ok := g.(map[string]any)
	if !ok || m["k"] != "doc" {
		return nil, fmt.Errorf("bad doc form %v", g)
	}
	d := &Doc{Title: StringOfUnits(m["Title"])}
	tags, err := buildSeq(m["Tags"], kindTypes["string"])
	if err != nil {
		return nil, err
	}
	sizes, err := buildSeq(m["Sizes"], kindTypes["int8"])
	if err != nil {
		return nil, err
	}
	anys, err := buildSeq(m["Any"], kindTypes["iface"])
	if err != nil {
		return nil, err
	}
	d.Tags, d.Sizes, d.Any = tags.Interface().([]string), sizes.Interface().([]int8), anys.Interface().([]interface{})
	if d.In, err = buildInner(m["In"]); err != nil {
		return nil, err
	}
	pin, err := buildInner(m["PIn"])
	if err != nil {
		return nil, err
	}
	d.PIn = &pin
	arr, err := buildSeq(m["Arr"], kindTypes["int8"])
	if err != nil || arr.Len() != 2 {
		return nil, fmt.Errorf("bad Arr: %v", err)
	}
	d.Arr = [2]int8{int8(arr.Index(0).Int()), int8(arr.Index(1).Int())}
	for _, x := range m["SIn"].([]any) {
		in, err := buildInner(x)
		if err != nil {
			return nil, err
		}
		d.SIn = append(d.SIn, in)
	}
	d.SIn = exactSlice(reflect.ValueOf(d.SIn)).Interface().([]Inner)
	ain, _ := m["AIn"].([]any)
	if len(ain) != 2 {
		return nil, fmt.Errorf("AIn needs 2 elements")
	}
	for i, x := range ain {
		if d.AIn[i], err = buildInner(x); err != nil {
			return nil, err
		}
	}
	for _, row := range m["Grid"].([]any) {
		r, err := buildSeq(row, kindTypes["int8"])
		if err != nil {
			return nil, err
		}
		d.Grid = append(d.Grid, r.Interface().([]int8))
	}
	d.Grid = exactSlice(reflect.ValueOf(d.Grid)).Interface().([][]int8)
	return d, nil
}

func seqForm(rv reflect.Value) []any {
	out := []any{}
	for i := 0; i < rv.Len(); i++ {
		out = append(out, ProjectAs(rv.Index(i), rv.Type().Elem()))
	}
	return out
}

func innerForm(in Inner) M {
	return M{"Tags": seqForm(reflect.ValueOf(in.Tags)), "Sizes": seqForm(reflect.ValueOf(in.Sizes)), "N": ZOfInt64(int64(in.N))}
}

// DocForm projects a *Doc into its abstract form.
func DocForm(d *Doc) any {
	if d == nil {
		return M{"k": "nildoc"}
	}
	pin := any(M{"k": "nil"})
	if d.PIn != nil {
		pin = innerForm(*d.PIn)
	}
	sin := []any{}
	for _, in := range d.SIn {
		sin = append(sin, innerForm(in))
	}
	grid := []any{}
	for _, row := range d.Grid {
		grid = append(grid, seqForm(reflect.ValueOf(row)))
	}
	return M{"k": "doc", "Title": Units(d.Title), "Tags": seqForm(reflect.ValueOf(d.Tags)), "Sizes": seqForm(reflect.ValueOf(d.Sizes)),
		"Any": seqForm(reflect.ValueOf(d.Any)), "In": innerForm(d.In), "PIn": pin, "Arr": seqForm(reflect.ValueOf(d.Arr)),
		"SIn": sin, "AIn": []any{innerForm(d.AIn[0]), innerForm(d.AIn[1])}, "Grid": grid}
}

// DocPath gives the script text that selects the nested container sel of the doc denoted by X.
func DocPath(X, sel string) (string, error) {
	p, ok := map[string]string{
		"Tags": ".Tags", "Sizes": ".Sizes", "Any": ".Any", "In.Tags": ".In.Tags", "In.Sizes": ".In.Sizes",
		"PIn.Tags": ".PIn.Tags", "PIn.Sizes": ".PIn.Sizes", "Grid0": ".Grid[0]", "Grid1": ".Grid[1]",
		"SIn0.Tags": ".SIn[0].Tags", "AIn0.Tags": ".AIn[0].Tags",
		"In": ".In", "PIn": ".PIn", "Arr": ".Arr", "SIn0": ".SIn[0]", "AIn0": ".AIn[0]",
	}[sel]
	if !ok {
		return "", fmt.Errorf("unknown selector %q", sel)
	}
	return X + p, nil
}

// PlaceDoc sets the doc into the runtime as x: directly, as the element of a []*Doc or as a value of a map[string]*Doc;
// it returns the script expression denoting the doc.
func PlaceDoc(vm *otto.Otto, where string, d *Doc) (string, error) {
	switch where {
	case "ptr":
		return "x", vm.Set("x", d)
	case "inslice":
		return "x[0]", vm.Set("x", []*Doc{d})
	case "inmap":
		return "x.k", vm.Set("x", map[string]*Doc{"k": d})
	}
	return "", fmt.Errorf("unknown placement %q", where)
}

// ExportedDoc finds the *Doc inside what Export returned for x.
func ExportedDoc(where string, e interface{}) *Doc {
	switch v := e.(type) {
	case *Doc:
		return v
	case []*Doc:
		if len(v) == 1 {
			return v[0]
		}
	case map[string]*Doc:
		return v["k"]
	}
	return nil
}

// Tagged has a field for every form of json tag (Bridge!TagAccess).
type Tagged struct {
	Plain     int
	Named     int `json:"n"`
	Omit      int `json:"count,omitempty"`
	Str       int `json:"s,string"`
	KeepName  int `json:",omitempty"`
	Dash      int `json:"-"`
	DashComma int `json:"-,"`
}

// TaggedForm lists the field values in declaration order.
func TaggedForm(t Tagged) []any {
	out := []any{}
	for _, v := range []int{t.Plain, t.Named, t.Omit, t.Str, t.KeepName, t.Dash, t.DashComma} {
		out = append(out, ZOfInt64(int64(v)))
	}
	return out
}
