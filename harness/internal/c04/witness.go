package c04

import (
	"fmt"

	"github.com/robertkrimen/otto/ast"
	"github.com/robertkrimen/otto/parser"

	"verif/harness/internal/core"
)

type nilCounter struct{ nils, calls int }

func (c *nilCounter) Enter(n ast.Node) ast.Visitor {
	c.calls++
	if isNil(n) {
		c.nils++
	}
	return c
}
func (c *nilCounter) Exit(n ast.Node) {}

func idxWitness(src string, pick func(*ast.Program) ast.Node) func() (string, error) {
	return func() (res string, err error) {
		p, perr := parser.ParseFile(nil, "", src, 0)
		if perr != nil {
			return "", perr
		}
		defer func() {
			if r := recover(); r != nil {
				res = "Idx0/Idx1 panics"
			}
		}()
		n := pick(p)
		if isNil(n) {
			return "(no initializer node)", nil
		}
		return fmt.Sprintf("span %d-%d", n.Idx0(), n.Idx1()), nil
	}
}

func init() {
	core.GoWitnesses["c04_walk_nil_nodes"] = func() (string, error) {
		p, err := parser.ParseFile(nil, "", "while (a) break;", 0)
		if err != nil {
			return "", err
		}
		c := &nilCounter{}
		ast.Walk(c, p)
		return fmt.Sprintf("visitor received %d nil node(s)", c.nils), nil
	}
	core.GoWitnesses["c04_empty_for_initializer"] = idxWitness("for (;;) ;", func(p *ast.Program) ast.Node {
		return p.Body[0].(*ast.ForStatement).Initializer
	})
	core.GoWitnesses["c04_case_without_statements"] = idxWitness("switch (a) { case 1: }", func(p *ast.Program) ast.Node {
		return p.Body[0].(*ast.SwitchStatement).Body[0]
	})
	core.GoWitnesses["c04_empty_program"] = idxWitness("", func(p *ast.Program) ast.Node { return p })
}
