package c04

import (
	"bytes"
	"encoding/json"
	"fmt"
	"math/rand"
	"os"
	"sort"
	"strings"
	"sync"
	"sync/atomic"
	"time"

	"github.com/robertkrimen/otto"
	"github.com/robertkrimen/otto/ast"
	"github.com/robertkrimen/otto/file"
	"github.com/robertkrimen/otto/parser"

	"verif/harness/internal/c03"
	"verif/harness/internal/core"
	"verif/harness/internal/tlc"
)

type counters struct {
	lines, agreeAccept, agreeReject, skip, dev int64
	totalParses, truncations, junk, junkAccepted int64
	sideEffectRuns, recorded, storeCommentsParses int64
	fileSetParses, posChecked, runs int64
}

type state struct {
	distinct  sync.Map
	nDistinct int64
	c        *core.Ctx
	n        counters
	mu       sync.Mutex
	recs     []TreeRec
	maxRecs  int
	nextID   int64
	vms      sync.Pool
	samples  []any
	truncMod int64
}

// keep records one accepted tree for the judge (bounded).
func (s *state) keep(src string, p *ast.Program) { s.keepBase(src, p, 1) }

func (s *state) keepBase(src string, p *ast.Program, base int) {
	id := int(atomic.AddInt64(&s.nextID, 1))
	s.mu.Lock()
	full := len(s.recs) >= s.maxRecs
	s.mu.Unlock()
	if full {
		return
	}
	r := Record(id, src, p, base)
	s.mu.Lock()
	if len(s.recs) < s.maxRecs {
		s.recs = append(s.recs, r)
		atomic.AddInt64(&s.n.recorded, 1)
	}
	s.mu.Unlock()
}

// lineStarts: the (line, column) pairs that exist in src, by the ES5 line terminators (CR LF is one).
func positionOK(src string, line, col int) bool {
	if line < 1 || col < 1 {
		return false
	}
	lines := 1
	maxCol := 0
	cur := 0
	i := 0
	for i < len(src) {
		c := src[i]
		switch {
		case c == '\r':
			if i+1 < len(src) && src[i+1] == '\n' {
				i++
				cur++
			}
			fallthrough
		case c == '\n':
			cur++
			if cur > maxCol {
				maxCol = cur
			}
			lines++
			cur = 0
		case c == 0xE2 && i+2 < len(src) && src[i+1] == 0x80 && (src[i+2] == 0xA8 || src[i+2] == 0xA9):
			cur += 3
			if cur > maxCol {
				maxCol = cur
			}
			lines++
			cur = 0
			i += 2
		default:
			cur++
		}
		i++
	}
	if cur > maxCol {
		maxCol = cur
	}
	return line <= lines && col <= maxCol+1
}

// total runs the parser in one mode and checks totality + error positions; it returns the outcome.
func (s *state) total(src string, mode parser.Mode, what string) c03.Outcome {
	atomic.AddInt64(&s.n.totalParses, 1)
	out := c03.Parse(src, mode)
	if out.C == "panic" || out.C == "hang" {
		s.c.Violate(fmt.Sprintf("totality: parser %s (mode %d, %s) on %q: %s", out.C, mode, what, src, trunc(out.Msg, 200)),
			map[string]any{"src": src, "bytes": []byte(src), "mode": int(mode), "outcome": out.C, "msg": out.Msg})
		return out
	}
	if out.C == "reject" {
		if el, ok := out.Err.(*parser.ErrorList); ok {
			for _, e := range *el {
				if !positionOK(src, e.Position.Line, e.Position.Column) {
					s.c.Violate(fmt.Sprintf("error position %d:%d outside the input %q (%s)", e.Position.Line, e.Position.Column, src, e.Message),
						map[string]any{"src": src, "bytes": []byte(src), "line": e.Position.Line, "column": e.Position.Column})
					break
				}
			}
		}
	}
	if mode == 0 {
		s.withFileSet(src, out, what)
	}
	return out
}

// the files that are already in the file set when the input is added to it
var preFiles = []string{"var pre1 = 1;\n// the first file of the set\n", "/* second file */ function pre2(a, b) {\n  return a + b;\n}\n" + strings.Repeat("pre2(1, 2);\n", 12)}

type errAt struct {
	Line, Col int
	Msg       string
}

func errList(o c03.Outcome) []errAt {
	var r []errAt
	if el, ok := o.Err.(*parser.ErrorList); ok {
		for _, e := range *el {
			r = append(r, errAt{e.Position.Line, e.Position.Column, e.Message})
		}
	}
	return r
}

// withFileSet: the same input added to a file.FileSet that already holds one
// or two other files (so its base is > 1) must be handled exactly as the
// stand-alone input: no panic, same verdict, same errors at the same
// line:column, and (judge) node spans inside [base, base+len].
func (s *state) withFileSet(src string, alone c03.Outcome, what string) {
	n := int(atomic.AddInt64(&s.n.fileSetParses, 1))
	fs := &file.FileSet{}
	nPre := 1 + n%2
	for i := 0; i < nPre; i++ {
		fs.AddFile(fmt.Sprintf("pre%d.js", i+1), preFiles[i])
	}
	out := c03.ParseFS(fs, src, 0)
	rep := map[string]any{"src": src, "bytes": []byte(src), "files_before": nPre, "stand_alone": alone.C, "in_file_set": out.C, "msg": out.Msg}
	if out.C == "panic" || out.C == "hang" {
		s.c.Violate(fmt.Sprintf("totality: parser %s with a file set holding %d other file(s) (%s) on %q: %s", out.C, nPre, what, src, trunc(out.Msg, 200)), rep)
		return
	}
	if out.C != alone.C {
		s.c.Violate(fmt.Sprintf("verdict depends on the file set: stand-alone %s, with %d other file(s) %s, on %q", alone.C, nPre, out.C, src), rep)
		return
	}
	if out.C == "reject" {
		a, b := errList(alone), errList(out)
		same := len(a) == len(b)
		for i := 0; same && i < len(a); i++ {
			same = a[i] == b[i]
		}
		if !same {
			rep["errors_stand_alone"], rep["errors_in_file_set"] = fmt.Sprint(a), fmt.Sprint(b)
			s.c.Violate(fmt.Sprintf("error positions depend on the file set (%d other file(s)) on %q: stand-alone %v, in the set %v", nPre, src, trunc(fmt.Sprint(a), 150), trunc(fmt.Sprint(b), 150)), rep)
		}
		return
	}
	if n%4 == 0 && len(src) < 2000 && out.Tree != nil && out.Tree.File != nil {
		s.keepBase(src, out.Tree, out.Tree.File.Base())
	}
}

const sideProbe = "H(1); zz = 1;\n"

type vmBox struct {
	vm  *otto.Otto
	log *[]string
}

func newBox() *vmBox {
	vm := otto.New()
	log := []string{}
	vm.Set("H", func(call otto.FunctionCall) otto.Value {
		log = append(log, "H")
		return otto.UndefinedValue()
	})
	return &vmBox{vm: vm, log: &log}
}

func (b *vmBox) snapshot() string {
	v, err := b.vm.Run(`Object.getOwnPropertyNames(this).sort().join()`)
	if err != nil {
		return "snapshot error: " + err.Error()
	}
	return v.String()
}

// noSideEffect: running rejected source must fail and change nothing.
func (s *state) noSideEffect(src string) {
	atomic.AddInt64(&s.n.sideEffectRuns, 1)
	b := s.vms.Get().(*vmBox)
	fresh := false
	defer func() {
		if r := recover(); r != nil {
			s.c.Violate(fmt.Sprintf("Run of rejected source panicked: %q: %v", src, r), map[string]any{"src": src, "panic": fmt.Sprint(r)})
			return
		}
		if !fresh {
			s.vms.Put(b)
		}
	}()
	before := b.snapshot()
	*b.log = (*b.log)[:0]
	_, err := b.vm.Run(sideProbe + src)
	after := b.snapshot()
	if err == nil || len(*b.log) != 0 || before != after {
		fresh = true // do not reuse a runtime that was changed
		s.c.Violate(fmt.Sprintf("rejected source had an effect when run: %q: err=%v host-calls=%d globals-changed=%v", src, err, len(*b.log), before != after),
			map[string]any{"src": sideProbe + src, "err": fmt.Sprint(err), "host_calls": len(*b.log), "globals_before": before, "globals_after": after})
	}
}

// runLine: the text is evaluated on a runtime; the specification says whether it must complete or throw.
// A Go panic out of Run is a totality violation whatever the specification says.
func (s *state) runLine(c *core.Ctx, l *c03.Line, src string) {
	atomic.AddInt64(&s.n.runs, 1)
	b := s.vms.Get().(*vmBox)
	var err error
	panicked := ""
	func() {
		defer func() {
			if r := recover(); r != nil {
				panicked = fmt.Sprint(r)
			}
		}()
		_, err = b.vm.Run(src)
	}()
	if panicked != "" {
		c.Violate(fmt.Sprintf("[%s/%s] Run of %q panicked: %s", l.Fam, l.Tag, src, trunc(panicked, 200)), map[string]any{"src": src, "panic": panicked})
		return // the runtime is not reused
	}
	s.vms.Put(b)
	switch {
	case l.Run == "ok" && err != nil:
		c.Violate(fmt.Sprintf("[%s/%s] %q throws (%s); the specification: completes", l.Fam, l.Tag, src, trunc(err.Error(), 120)), map[string]any{"src": src, "error": err.Error(), "specification": "ok"})
	case l.Run == "throw" && err == nil:
		c.Violate(fmt.Sprintf("[%s/%s] %q completes; the specification: throws", l.Fam, l.Tag, src), map[string]any{"src": src, "specification": "throw"})
	}
}

func expClass(raw json.RawMessage) string {
	var e struct {
		C string `json:"c"`
	}
	json.Unmarshal(raw, &e)
	return e.C
}

// handle: one generated line (token-level mutant or early-error seed).
func (s *state) handle(c *core.Ctx, l *c03.Line, src string, st *c03.Stats) error {
	atomic.AddInt64(&s.n.lines, 1)
	if l.Run != "" {
		s.runLine(c, l, src)
	}
	out := s.total(src, 0, l.Fam+"/"+l.Tag)
	if out.C == "panic" || out.C == "hang" {
		return nil
	}
	// the comment-storing mode shares the grammar code paths but has its own bookkeeping: totality only
	atomic.AddInt64(&s.n.storeCommentsParses, 1)
	s.total(src, parser.StoreComments, l.Fam+"/"+l.Tag)
	want := expClass(l.Exp)
	if out.C == "accept" {
		s.keep(src, out.Tree)
	}
	if l.Pos != nil && out.C == "reject" {
		// the specification says where the offending byte is (line terminators of 7.3, column in bytes)
		atomic.AddInt64(&s.n.posChecked, 1)
		found := false
		for _, e := range errList(out) {
			if e.Line == l.Pos.Line && e.Col == l.Pos.Col {
				found = true
			}
		}
		if !found {
			c.Violate(fmt.Sprintf("[%s/%s] %q: no error is reported at %d:%d, the position of the ill-formed byte; errors: %v", l.Fam, l.Tag, src, l.Pos.Line, l.Pos.Col, trunc(fmt.Sprint(errList(out)), 200)),
				map[string]any{"src": src, "bytes": []byte(src), "expected_line": l.Pos.Line, "expected_column": l.Pos.Col, "errors": fmt.Sprint(errList(out))})
		}
	}
	if os.Getenv("C04_MUTANT") == "flip" && strings.Contains(src, "while") && out.C == "reject" {
		out.C = "accept" // seeded adapter fault (binding demonstration): must be reported
	}
	switch {
	case want == "skip":
		atomic.AddInt64(&s.n.skip, 1)
	case want == out.C:
		if _, seen := s.distinct.LoadOrStore(src, true); !seen {
			atomic.AddInt64(&s.nDistinct, 1)
		}
		if want == "accept" {
			atomic.AddInt64(&s.n.agreeAccept, 1)
			if os.Getenv("C04_TREES") != "" && !c03.Same(out.JSON(), l.Exp) && !(len(l.Dev) > 0 && c03.Same(out.JSON(), l.Dev[0])) {
				c.Note("tree differs (C03's business): %q", src)
			}
		} else {
			atomic.AddInt64(&s.n.agreeReject, 1)
			s.noSideEffect(src)
		}
		if n := atomic.LoadInt64(&s.n.lines); n%4999 == 1 {
			s.mu.Lock()
			if len(s.samples) < 8 {
				s.samples = append(s.samples, map[string]any{"src": src, "classification": want})
			}
			s.mu.Unlock()
		}
	case len(l.Dev) > 0 && expClass(l.Dev[0]) == out.C:
		atomic.AddInt64(&s.n.dev, 1)
		c.Hit("deviation")
	case len(l.Dev) > 0 && expClass(l.Dev[0]) == "skip":
		// under the open deviations the text is tokenised differently: not decidable at the token level
		atomic.AddInt64(&s.n.skip, 1)
	default:
		msg := ""
		if out.C == "reject" {
			msg = " (" + trunc(out.Msg, 100) + ")"
		}
		c.Violate(fmt.Sprintf("[%s/%s] %q: parser %ss%s ; ES5 (Grammar!Classify): %s", l.Fam, l.Tag, src, out.C, msg, want),
			map[string]any{"src": src, "units": l.Src, "parser": out.C, "specification": want, "msg": out.Msg})
	}
	// truncations of the rendering at every byte offset: totality (and well-formedness when accepted)
	if l.Tag == "none" || l.Fam == "early" || atomic.LoadInt64(&s.n.lines)%s.truncMod == 0 {
		for k := 0; k < len(src); k++ {
			atomic.AddInt64(&s.n.truncations, 1)
			o := s.total(src[:k], 0, "truncation")
			if o.C == "accept" && k%3 == 0 {
				s.keep(src[:k], o.Tree)
			}
		}
	}
	return nil
}

func trunc(s string, n int) string {
	if len(s) > n {
		return s[:n] + "..."
	}
	return s
}

func cfg(c *core.Ctx, fams []string, nsel int) string { return c03.MutCfg(c, fams, nsel) }

// Check is the C04 property check.
func Check(c *core.Ctx) (map[string]any, []string, error) {
	s := &state{c: c, maxRecs: 30000, truncMod: 40}
	nsel, nJunk := 60, 200000
	if c.Thorough() {
		nsel, nJunk, s.maxRecs, s.truncMod = 0, 4000000, 160000, 8
	}
	s.vms.New = func() any { return newBox() }
	fams := []string{"mut", "early", "after", "utf8", "ek", "idesc", "objdup", "rejunk", "lexctx", "pragma"}
	if f := os.Getenv("C04_FAMS"); f != "" {
		fams = strings.Split(f, ",")
	}
	runs := []c03.RunCfg{{Name: "token-mutations-and-early-errors(" + strings.Join(fams, ",") + ")", Module: "C04", Cfg: cfg(c, fams, nsel), Seed: c.Seed}}
	_, tlcStats, nLines, err := c03.Drive(c, runs, s.handle)
	if err != nil {
		return nil, nil, err
	}
	// byte-level junk (harness-generated, seeded): totality, error positions, well-formedness of what is accepted
	s.junk(nJunk)
	// judge the recorded trees
	jres, err := s.judge()
	if err != nil {
		return nil, nil, err
	}
	var states, trans int64
	for _, t := range tlcStats {
		states += t["distinct"].(int64)
		trans += t["generated"].(int64)
	}
	if len(s.samples) == 0 {
		s.samples = append(s.samples, "no sample")
	}
	cov := map[string]any{
		"states": states + jres.states, "transitions": trans + jres.states, "traces_validated_against_impl": nLines + int64(jres.judged), "samples": s.samples,
		"tlc_runs": append(tlcStats, map[string]any{"config": "C04Judge", "distinct": jres.states, "judged_trees": jres.judged, "wall_s": jres.wall}),
		"generated_lines": nLines, "evaluations": s.n.totalParses, "distinct_nontrivial": s.nDistinct, "accept_agreed": s.n.agreeAccept, "reject_agreed": s.n.agreeReject, "outside_es5_skipped": s.n.skip,
		"known_deviation_class": s.n.dev, "parser_calls_total": s.n.totalParses, "truncations": s.n.truncations, "store_comments_parses": s.n.storeCommentsParses,
		"file_set_parses": s.n.fileSetParses, "error_positions_compared_with_spec": s.n.posChecked, "texts_run_on_a_runtime": s.n.runs, "junk_inputs": s.n.junk, "junk_accepted": s.n.junkAccepted, "rejected_sources_run_for_side_effects": s.n.sideEffectRuns,
		"trees_judged_wellformed": jres.judged, "trees_failing_only_by_known_deviation": jres.dev, "trees_bad": jres.bad,
		"judge_selftest": jres.self,
		"rule": "evaluations = parser calls under recover + watchdog; distinct_nontrivial = distinct source texts whose accept/reject classification by Grammar!Classify was compared with the parser; a generated line is one token-level mutant (or early-error seed) with its classification by Grammar!Classify; every parser call is under recover and a 20 s watchdog; accepted trees are logged (nodes with Idx0/Idx1/parent, ast.Walk events) and judged by spec/C04Judge.tla",
	}
	assume := []string{
		"trusted: the enumeration of the nodes of an accepted tree (harness/internal/c04/trace.go), the rendering of code units to UTF-8, TLC",
		"accept/reject is judged only for inputs that are token sequences over the alphabet of spec/C04.tla; truncations and random byte strings are judged on totality, error positions and well-formedness of accepted trees",
		"a Go stack exhaustion (nesting deeper than the 10 000 levels tried) is not recoverable and not explored",
	}
	return cov, assume, nil
}

// ---------------------------------------------------------------------------
// byte-level junk

var junkAtoms = []string{
	"a", "b", " ", "\n", "\r", "\t", ";", ",", ".", "(", ")", "[", "]", "{", "}", "+", "-", "*", "/", "%", "=", "<", ">", "!", "~", "?", ":", "&", "|", "^",
	"\"", "'", "\\", "0", "1", "9", "e", "x", "u", "\\u", "\\x", "\\u0041", "/*", "*/", "//", "<!--", "-->", "0x", "1e", ".5", "08", "0.", "1e+",
	"var ", "function ", "return ", "if", "else ", "for", "while", "do ", "break ", "continue ", "switch", "case ", "default:", "try", "catch", "finally",
	"throw ", "new ", "delete ", "typeof ", "void ", "in ", "instanceof ", "this", "null", "true", "with", "debugger", "get ", "set ", "class ", "let ",
	"\u00a0", "\u2028", "\u2029", "\ufeff", "\u0085", "\u00e9", "\U0001F600", "\xff", "\xc0", "\x80", "\xed\xa0\x80", "\xe2\x80", "\xf0\x9f", "\x00", "\x7f", "\x1b",
	"/[", "/(", "/a/", "/a/g", "(?=", "\\1", "{1,}", "$", "_", "#", "@", "`",
}

func (s *state) junk(n int) {
	var wg sync.WaitGroup
	per := n / s.c.Workers
	for w := 0; w < s.c.Workers; w++ {
		wg.Add(1)
		go func(w int) {
			defer wg.Done()
			rng := rand.New(rand.NewSource(s.c.Seed*1000 + int64(w)))
			for i := 0; i < per; i++ {
				var b bytes.Buffer
				switch rng.Intn(10) {
				case 0: // raw bytes
					k := 1 + rng.Intn(6)
					for j := 0; j < k; j++ {
						b.WriteByte(byte(rng.Intn(256)))
					}
				default:
					k := 1 + rng.Intn(9)
					for j := 0; j < k; j++ {
						b.WriteString(junkAtoms[rng.Intn(len(junkAtoms))])
					}
				}
				src := b.String()
				atomic.AddInt64(&s.n.junk, 1)
				o := s.total(src, 0, "junk")
				if i%4 == 0 {
					s.total(src, parser.StoreComments, "junk")
				}
				if i%16 == 0 {
					s.total(src, parser.IgnoreRegExpErrors, "junk")
				}
				if o.C == "accept" {
					atomic.AddInt64(&s.n.junkAccepted, 1)
					if i%5 == 0 {
						s.keep(src, o.Tree)
					}
				}
			}
		}(w)
	}
	wg.Wait()
	// structured junk: every escape prefix followed by every truncated escape, in both quote
	// kinds, inside a regular expression and as an identifier (the lexer indexes ahead there)
	var escapes []string
	for _, pre := range []string{"", "a", "\\uD83D", "\\uDBFF", "\\uD800", "\\uDC00", "\\u0041", "\\x41", "\\7", "\\0", "\\\\"} {
		for _, suf := range []string{"\\u", "\\u1", "\\u12", "\\u123", "\\uD", "\\uDC", "\\uDC0", "\\uDC00", "\\ug000", "\\x", "\\x4", "\\xg", "\\", "\\8", "\\400"} {
			for _, q := range []string{"\"", "'"} {
				escapes = append(escapes, "x = "+q+pre+suf+q, "x = "+q+pre+suf, q+pre+suf+q+".length")
			}
			escapes = append(escapes, "x = /"+pre+suf+"/", pre+suf+" = 1", "a."+pre+suf)
		}
	}
	for _, src := range escapes {
		atomic.AddInt64(&s.n.junk, 1)
		for _, m := range []parser.Mode{0, parser.StoreComments, parser.IgnoreRegExpErrors} {
			s.total(src, m, "structured junk (escapes)")
		}
	}
	// structured junk: unterminated tokens and deep nesting
	for _, src := range []string{
		"/*", "/* *", "//", "\"", "'", "\"\\", "'\\u", "/", "/a", "/[", "/[/", "/\\", "a = /", "0x", "1e", "1e+", ".", "..", "...", "\\", "\\u", "\\u00", "a\\u00", "\\u0030", "a.\\u0030",
		strings.Repeat("(", 10000), strings.Repeat("[", 10000), strings.Repeat("{", 10000), strings.Repeat("a(", 5000), strings.Repeat("!", 10000) + "a",
		strings.Repeat("(", 3000) + "a" + strings.Repeat(")", 3000), strings.Repeat("[", 3000) + strings.Repeat("]", 3000), strings.Repeat("{", 3000) + strings.Repeat("}", 3000),
		strings.Repeat("a?", 3000) + "a" + strings.Repeat(":a", 3000), strings.Repeat("a=", 5000) + "a", strings.Repeat("function f(){", 2000) + strings.Repeat("}", 2000),
		strings.Repeat("if(a)", 5000) + ";", strings.Repeat("L:", 100) + ";", strings.Repeat("a.", 5000) + "a", strings.Repeat("new ", 5000) + "a", strings.Repeat("a,", 5000) + "a",
		strings.Repeat("a+", 20000) + "a", "x = \"" + strings.Repeat("\\u0041", 5000) + "\"", "/" + strings.Repeat("(", 2000) + strings.Repeat(")", 2000) + "/", "/" + strings.Repeat("[", 2000) + "/",
	} {
		atomic.AddInt64(&s.n.junk, 1)
		for _, m := range []parser.Mode{0, parser.StoreComments, parser.IgnoreRegExpErrors} {
			o := s.total(src, m, "structured junk")
			if o.C == "accept" && m == 0 && len(src) < 4000 {
				s.keep(src, o.Tree)
			}
		}
	}
}

// ---------------------------------------------------------------------------
// the judge

type judgeResult struct {
	judged, dev, bad int
	states           int64
	wall             float64
	self             map[string]any
}

func (s *state) judge() (*judgeResult, error) {
	res := &judgeResult{}
	recs := s.recs
	sort.Slice(recs, func(i, j int) bool { return recs[i].ID < recs[j].ID })
	// self-test of the judge: corrupted copies of a conforming record must be rejected
	selfIDs := map[int]string{}
	var selfRecs []TreeRec
	if base, ok := parseForSelfTest(); ok {
		a := base
		a.ID = -1
		a.Nodes = append([]NodeRec(nil), base.Nodes...)
		a.Nodes[len(a.Nodes)-1].I1 = base.Len + 5
		selfIDs[-1] = "SpansInFile"
		b := base
		b.ID = -2
		b.Nodes = append([]NodeRec(nil), base.Nodes...)
		b.Nodes[len(b.Nodes)-1].I0 = 1
		b.Nodes[len(b.Nodes)-1].I1 = base.Len + 1
		selfIDs[-2] = "SpansNested"
		w := base
		w.ID = -3
		w.Walk = append([]WalkEv(nil), base.Walk[:len(base.Walk)-2]...)
		w.Walk = append(w.Walk, base.Walk[len(base.Walk)-1])
		selfIDs[-3] = "WalkBalanced"
		selfRecs = []TreeRec{a, b, w}
	}
	all := append(append([]TreeRec(nil), selfRecs...), recs...)
	byID := map[int]*TreeRec{}
	for i := range all {
		byID[all[i].ID] = &all[i]
	}
	const batch = 40000
	selfHit := map[string]bool{}
	t0 := time.Now()
	for lo := 0; lo < len(all); lo += batch {
		hi := min(lo+batch, len(all))
		var buf bytes.Buffer
		enc := json.NewEncoder(&buf)
		for _, r := range all[lo:hi] {
			if r.Nodes == nil {
				r.Nodes = []NodeRec{}
			}
			if r.Walk == nil {
				r.Walk = []WalkEv{}
			}
			if err := enc.Encode(r); err != nil {
				return nil, err
			}
		}
		cfg := fmt.Sprintf("CONSTANTS\n OpenDev = %s\nINIT Init\nNEXT Next\nINVARIANT Judge\nCHECK_DEADLOCK FALSE\n", core.TLASet(s.c.Findings.OpenIDs()))
		r, err := tlc.Run(tlc.Opts{SpecDir: s.c.SpecDir, Module: "C04Judge", Cfg: cfg, Workers: s.c.Workers, Files: map[string][]byte{"trace.ndjson": buf.Bytes()}, Timeout: 30 * time.Minute},
			func(p []byte) {
				var v struct {
					ID      int      `json:"id"`
					Verdict string   `json:"verdict"`
					Strict  []string `json:"strict"`
					WithDev []string `json:"withdev"`
				}
				if json.Unmarshal(p, &v) != nil {
					return
				}
				if want, ok := selfIDs[v.ID]; ok {
					for _, f := range v.Strict {
						if f == want {
							selfHit[want] = true
						}
					}
					return
				}
				rec := byID[v.ID]
				if v.Verdict == "dev" {
					res.dev++
					s.c.Hit("deviation")
					return
				}
				res.bad++
				s.c.Violate(fmt.Sprintf("accepted tree is not well formed (%s) for %q", strings.Join(v.WithDev, ","), trunc(rec.Src, 200)),
					map[string]any{"src": rec.Src, "bytes": []byte(rec.Src), "failing": v.WithDev, "record": rec})
			})
		if r != nil {
			res.states += r.Distinct
		}
		if err != nil {
			return nil, err
		}
	}
	res.wall = time.Since(t0).Seconds()
	res.judged = len(recs)
	res.self = map[string]any{"corrupted_records": len(selfRecs), "rejected": len(selfHit)}
	if len(selfRecs) > 0 && len(selfHit) != len(selfRecs) {
		return nil, fmt.Errorf("judge self-test: corrupted records not all rejected: %v", selfHit)
	}
	return res, nil
}

func parseForSelfTest() (TreeRec, bool) {
	src := "var a = f(b + 1);"
	o := c03.Parse(src, 0)
	if o.C != "accept" {
		return TreeRec{}, false
	}
	return Record(0, src, o.Tree, 1), true
}
