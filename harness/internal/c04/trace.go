// Package c04: parsing is total, junk is rejected cleanly, accepted trees
// are well formed (spec/C04.tla, spec/C04Judge.tla, spec/Grammar.tla).
//
// This file records, for an accepted tree, the facts the judge needs: every
// node with its Idx0/Idx1 and parent (an enumeration written independently of
// ast.Walk) and the Enter/Exit event stream of ast.Walk.  It decides nothing.
package c04

import (
	"fmt"
	"reflect"

	"github.com/robertkrimen/otto/ast"
)

// NodeRec is one node of an accepted tree.
type NodeRec struct {
	I0   int    `json:"i0"` // Idx0, -1 if the call panicked
	I1   int    `json:"i1"` // Idx1, -1 if the call panicked
	Par  int    `json:"par"`
	Kind string `json:"kind"`
	Aux  int    `json:"aux"` // number of list children (statements of a case clause / program, expressions of a sequence)
}

// WalkEv is one visitor call of ast.Walk: E = 1 Enter, 2 Exit; N = node number, 0 = nil node, -1 = a node the enumeration does not know.
type WalkEv struct {
	E int `json:"e"`
	N int `json:"n"`
}

// TreeRec is the trace record of one accepted tree.
type TreeRec struct {
	ID    int       `json:"id"`
	Base  int       `json:"base"` // base of the file in its file set (1 when parsed stand-alone)
	Len   int       `json:"len"`
	Nodes []NodeRec `json:"nodes"`
	Walk  []WalkEv  `json:"walk"`
	WalkPanic int   `json:"wpanic"` // 1 if ast.Walk itself panicked
	Src   string    `json:"-"`
}

func isNil(n any) bool {
	if n == nil {
		return true
	}
	v := reflect.ValueOf(n)
	return v.Kind() == reflect.Ptr && v.IsNil()
}

func safeIdx(f func() int) (r int) {
	defer func() {
		if recover() != nil {
			r = -1
		}
	}()
	return f()
}

type enum struct {
	nodes []NodeRec
	index map[ast.Node]int
}

func (e *enum) add(n ast.Node, par int, aux int) int {
	rec := NodeRec{Par: par, Kind: fmt.Sprintf("%T", n)[5:], Aux: aux}
	rec.I0 = safeIdx(func() int { return int(n.Idx0()) })
	rec.I1 = safeIdx(func() int { return int(n.Idx1()) })
	e.nodes = append(e.nodes, rec)
	k := len(e.nodes)
	e.index[n] = k
	return k
}

// visit enumerates n and its non-nil children, parents first, children in source order of the struct fields Walk uses.
func (e *enum) visit(n ast.Node, par int) {
	if isNil(n) {
		return
	}
	kids := []ast.Node{}
	ex := func(x ast.Expression) {
		if !isNil(x) {
			kids = append(kids, x)
		}
	}
	st := func(x ast.Statement) {
		if !isNil(x) {
			kids = append(kids, x)
		}
	}
	aux := 0
	switch v := n.(type) {
	case *ast.Program:
		aux = len(v.Body)
		for _, s := range v.Body {
			st(s)
		}
	case *ast.ArrayLiteral:
		for _, x := range v.Value {
			ex(x)
		}
	case *ast.AssignExpression:
		ex(v.Left)
		ex(v.Right)
	case *ast.BinaryExpression:
		ex(v.Left)
		ex(v.Right)
	case *ast.BlockStatement:
		for _, s := range v.List {
			st(s)
		}
	case *ast.BracketExpression:
		ex(v.Left)
		ex(v.Member)
	case *ast.BranchStatement:
		if v.Label != nil {
			kids = append(kids, v.Label)
		}
	case *ast.CallExpression:
		ex(v.Callee)
		for _, x := range v.ArgumentList {
			ex(x)
		}
	case *ast.CaseStatement:
		aux = len(v.Consequent)
		ex(v.Test)
		for _, s := range v.Consequent {
			st(s)
		}
	case *ast.CatchStatement:
		if v.Parameter != nil {
			kids = append(kids, v.Parameter)
		}
		st(v.Body)
	case *ast.ConditionalExpression:
		ex(v.Test)
		ex(v.Consequent)
		ex(v.Alternate)
	case *ast.DoWhileStatement:
		ex(v.Test)
		st(v.Body)
	case *ast.DotExpression:
		ex(v.Left)
		if v.Identifier != nil {
			kids = append(kids, v.Identifier)
		}
	case *ast.ExpressionStatement:
		ex(v.Expression)
	case *ast.ForInStatement:
		ex(v.Into)
		ex(v.Source)
		st(v.Body)
	case *ast.ForStatement:
		ex(v.Initializer)
		ex(v.Update)
		ex(v.Test)
		st(v.Body)
	case *ast.FunctionLiteral:
		if v.Name != nil {
			kids = append(kids, v.Name)
		}
		if v.ParameterList != nil {
			for _, p := range v.ParameterList.List {
				if p != nil {
					kids = append(kids, p)
				}
			}
		}
		st(v.Body)
	case *ast.FunctionStatement:
		if v.Function != nil {
			kids = append(kids, v.Function)
		}
	case *ast.IfStatement:
		ex(v.Test)
		st(v.Consequent)
		st(v.Alternate)
	case *ast.LabelledStatement:
		if v.Label != nil {
			kids = append(kids, v.Label)
		}
		st(v.Statement)
	case *ast.NewExpression:
		ex(v.Callee)
		for _, x := range v.ArgumentList {
			ex(x)
		}
	case *ast.ObjectLiteral:
		for _, p := range v.Value {
			ex(p.Value)
		}
	case *ast.ReturnStatement:
		ex(v.Argument)
	case *ast.SequenceExpression:
		aux = len(v.Sequence)
		for _, x := range v.Sequence {
			ex(x)
		}
	case *ast.SwitchStatement:
		ex(v.Discriminant)
		for _, c := range v.Body {
			if c != nil {
				kids = append(kids, c)
			}
		}
	case *ast.ThrowStatement:
		ex(v.Argument)
	case *ast.TryStatement:
		st(v.Body)
		if v.Catch != nil {
			kids = append(kids, v.Catch)
		}
		st(v.Finally)
	case *ast.UnaryExpression:
		ex(v.Operand)
	case *ast.VariableExpression:
		ex(v.Initializer)
	case *ast.VariableStatement:
		for _, x := range v.List {
			ex(x)
		}
	case *ast.WhileStatement:
		ex(v.Test)
		st(v.Body)
	case *ast.WithStatement:
		ex(v.Object)
		st(v.Body)
	}
	k := e.add(n, par, aux)
	for _, c := range kids {
		e.visit(c, k)
	}
}

type logVisitor struct {
	e  *enum
	ev *[]WalkEv
}

func (l logVisitor) num(n ast.Node) int {
	if isNil(n) {
		return 0
	}
	if k, ok := l.e.index[n]; ok {
		return k
	}
	return -1
}
func (l logVisitor) Enter(n ast.Node) ast.Visitor {
	*l.ev = append(*l.ev, WalkEv{E: 1, N: l.num(n)})
	return l
}
func (l logVisitor) Exit(n ast.Node) { *l.ev = append(*l.ev, WalkEv{E: 2, N: l.num(n)}) }

// Record builds the trace record of an accepted program.
func Record(id int, src string, p *ast.Program, base int) (rec TreeRec) {
	e := &enum{index: map[ast.Node]int{}}
	e.visit(p, 0)
	rec = TreeRec{ID: id, Base: base, Len: len(src), Nodes: e.nodes, Src: src}
	evs := []WalkEv{}
	func() {
		defer func() {
			if recover() != nil {
				rec.WalkPanic = 1
			}
		}()
		ast.Walk(logVisitor{e, &evs}, p)
	}()
	rec.Walk = evs
	return rec
}
