package c14

import (
	"encoding/json"
	"fmt"
	"strings"
	"sync"

	"github.com/robertkrimen/otto"

	"verif/harness/internal/core"
)

// member is one runtime of a group.
type member struct {
	name string
	s    *session
}

// refDump is the complete shape of a fresh runtime after the helpers were
// loaded and the objects of the table registered (what every unmutated member
// of a group must still show).  skip: the dump avoids the two names on which
// Object.getOwnPropertyDescriptor panics (finding D14_gopd_panics_on_internal_accessor).
func refDump(underscore bool, lines []*Line) (dump string, skip bool, err error) {
	s, err := open(Config{Name: "reference", Underscore: underscore}, lines)
	if err != nil {
		return "", false, err
	}
	dump, err = s.call("DUMP")
	if err != nil && strings.HasPrefix(err.Error(), "GO PANIC") {
		if s, err = open(Config{Name: "reference", Underscore: underscore}, lines); err != nil {
			return "", false, err
		}
		dump, err = s.call("DUMP", []string{"caller", "stack"})
		return dump, true, err
	}
	return dump, false, err
}

func (s *session) dump(skip bool) (string, error) {
	if skip {
		return s.call("DUMP", []string{"caller", "stack"})
	}
	return s.call("DUMP")
}

type groupResult struct {
	evals      int64
	devHits    int64
	complaints []string // reproducible differences
}

// runGroup builds {A = New(), B = A.Copy(), C = B.Copy()}, loads the helpers in
// each, runs the mutation script of the specification in member mut, takes one
// more Copy() of another member afterwards, and compares: every unmutated
// runtime with the table (all lines) and with the reference dump (own names in
// order, attributes, values, identities); the mutated one with the table as
// changed by the mutation (spec/LibShape.tla MutTab).
func runGroup(underscore bool, mut int, lines []*Line, ref string, skip bool) (r groupResult, err error) {
	defer func() {
		if p := recover(); p != nil {
			err = fmt.Errorf("GO PANIC in group: %v", p)
		}
	}()
	a := newVM(underscore)
	b := a.Copy()
	cc := b.Copy()
	vms := []*otto.Otto{a, b, cc}
	names := []string{"original", "copy", "copy-of-copy"}
	var ms []member
	for i, vm := range vms {
		s, err := attach(Config{Name: names[i], Underscore: underscore}, vm, lines)
		if err != nil {
			return r, err
		}
		s.keepVM = true
		ms = append(ms, member{names[i], s})
	}
	if _, err := ms[mut].s.vm.Run(mutated.Script); err != nil {
		return r, fmt.Errorf("mutation script in %s: %v", names[mut], err)
	}
	// a copy taken after the mutation from a runtime that did not run it
	src := (mut + 1) % 3
	later := &session{cfg: Config{Name: "later-copy-of-" + names[src], Underscore: underscore}, vm: ms[src].s.vm.Copy(), lines: lines, pre: ms[src].s.pre, keepVM: true}
	ms = append(ms, member{later.cfg.Name, later})
	where := fmt.Sprintf("[group underscore=%v, %s ran the mutation] ", underscore, names[mut])
	for i, m := range ms {
		if i == mut {
			var t tally
			m.s.lines = mutated.Lines
			bad := m.s.replay(nil, &t)
			r.evals += t.evals
			r.devHits += t.dev
			for _, x := range bad {
				got := x.out
				if x.err != nil {
					got = x.err.Error()
				}
				r.complaints = append(r.complaints, where+m.name+" (mutated): "+x.line.label()+": implementation "+trunc(got, 250)+" ; specification (table after the mutation) "+trunc(string(x.line.Exp), 250))
			}
			continue
		}
		d, err := m.s.dump(skip)
		if err != nil {
			return r, fmt.Errorf("%s%s: dump: %v", where, m.name, err)
		}
		r.evals++
		if d != ref {
			r.complaints = append(r.complaints, where+m.name+": complete shape differs from a runtime nobody touched: "+firstDiff(ref, d))
		}
		var t tally
		bad := m.s.replay(nil, &t)
		r.evals += t.evals
		r.devHits += t.dev
		for _, x := range bad {
			got := x.out
			if x.err != nil {
				got = x.err.Error()
			}
			r.complaints = append(r.complaints, where+m.name+": "+x.line.label()+": implementation "+trunc(got, 250)+" ; specification "+trunc(string(x.line.Exp), 250))
		}
	}
	return r, nil
}

// groupFamily runs the groups of a tier; a complaint is reported when a second group built the same way repeats it.
func groupFamily(c *core.Ctx, lines []*Line) (map[string]any, error) {
	type job struct {
		us  bool
		mut int
	}
	jobs := []job{{false, 0}, {false, 1}, {false, 2}, {true, 1}}
	if c.Thorough() {
		jobs = append(jobs, job{true, 0}, job{true, 2})
	}
	refs := map[bool]string{}
	skips := map[bool]bool{}
	for _, us := range []bool{false, true} {
		d, sk, err := refDump(us, lines)
		if err != nil {
			return nil, fmt.Errorf("reference dump: %v", err)
		}
		d2, _, err := refDump(us, lines)
		if err != nil || d2 != d {
			return nil, fmt.Errorf("reference dump is not deterministic (underscore=%v)", us)
		}
		refs[us], skips[us] = d, sk
	}
	res := make([]groupResult, len(jobs))
	errs := make([]error, len(jobs))
	var wg sync.WaitGroup
	for i, j := range jobs {
		wg.Add(1)
		go func(i int, j job) {
			defer wg.Done()
			res[i], errs[i] = runGroup(j.us, j.mut, lines, refs[j.us], skips[j.us])
			if errs[i] == nil && len(res[i].complaints) > 0 {
				// reproduce with a second group
				r2, e2 := runGroup(j.us, j.mut, lines, refs[j.us], skips[j.us])
				if e2 != nil {
					errs[i] = e2
					return
				}
				again := map[string]bool{}
				for _, x := range r2.complaints {
					again[x] = true
				}
				var keep []string
				for _, x := range res[i].complaints {
					if again[x] {
						keep = append(keep, x)
					}
				}
				res[i].complaints = keep
			}
		}(i, j)
	}
	wg.Wait()
	var evals, dev int64
	nBad := 0
	for i := range jobs {
		if errs[i] != nil {
			if strings.Contains(errs[i].Error(), "GO PANIC") {
				c.Violate(errs[i].Error(), map[string]any{"group": jobs[i].mut, "underscore": jobs[i].us})
				continue
			}
			return nil, errs[i]
		}
		evals += res[i].evals
		dev += res[i].devHits
		for k, x := range res[i].complaints {
			nBad++
			if k < 4 {
				c.Violate(x, map[string]any{"underscore": jobs[i].us, "mutated_member": jobs[i].mut, "mutation_script": mutated.Script, "difference": x})
			}
		}
	}
	var sample json.RawMessage
	for _, l := range mutated.Lines {
		if l.K == "obj" && l.ID == "Math" {
			sample = json.RawMessage(l.raw)
		}
	}
	return map[string]any{"groups": len(jobs), "runtimes_per_group": 4, "mutation_script": mutated.Script,
		"lines_of_the_mutated_table": len(mutated.Lines), "observations": evals, "conforming_to_known_deviation": dev,
		"differences": nBad, "sample_mutated_line": sample}, nil
}
