// Package c14: the standard library has the ES5 shape (spec/LibShape.tla,
// spec/LibShapeTab.tla, spec/C14.tla).
//
// TLC checks the table's internal consistency and prints one line per object,
// per own property and per for-in subject with the observation ES5 prescribes.
// This driver only renders a line as a reflection query on a runtime, projects
// the answer into the same JSON shape and compares.  Configurations: a fresh
// runtime, a runtime with underscore loaded, a Copy() of each (copied before
// and after the observation helpers were loaded).
//
// The process runs with LocalTZA = +05:30 (no daylight saving time) so that the
// distinguishing calls of the local-time and UTC Date methods differ.
package c14

import (
	"bytes"
	"encoding/json"
	"fmt"
	"os"
	"path/filepath"
	"reflect"
	"sort"
	"strings"
	"sync"
	"time"

	"github.com/robertkrimen/otto"
	"github.com/robertkrimen/otto/underscore"

	"verif/harness/internal/core"
	"verif/harness/internal/jsx"
	"verif/harness/internal/tlc"
)

func init() {
	// importing the underscore package makes every otto.New() load it; the
	// check enables it only for the configurations that ask for it
	underscore.Disable()
	time.Local = time.FixedZone("VST", 5*3600+30*60)
}

// Line is one line of spec/C14.tla.
type Line struct {
	K      string            `json:"k"`
	I      int               `json:"i"`
	ID     string            `json:"id"`
	Js     string            `json:"js"`
	Vo     string            `json:"vo"`
	Vn     string            `json:"vn"`
	Grp    string            `json:"grp"`
	Clause string            `json:"clause"`
	Call   string            `json:"call"`
	Base   string            `json:"base"` // k = "fn": the target function (JavaScript text)
	Fn     string            `json:"fn"`   // k = "fn": the function object in terms of F = the target
	Names  []string          `json:"names"`
	Mask   json.RawMessage   `json:"mask"`
	Owner  string            `json:"owner"`
	Name   string            `json:"name"`
	Kind   string            `json:"kind"`
	Note   string            `json:"note"`
	Mut    bool              `json:"mut"`
	Exp    json.RawMessage   `json:"exp"`
	Dev    []json.RawMessage `json:"dev"`
	raw    string
}

func (l *Line) label() string {
	switch l.K {
	case "obj":
		return "object " + l.ID
	case "row":
		return "property " + l.Owner + " . " + l.Name
	case "call":
		return "call of " + l.ID + ": " + l.Call
	case "fn":
		return "function object " + l.ID + " = " + l.Fn + " with F = " + l.Base
	}
	return "for-in over " + l.Js
}

// fnMask names the facets of a function-object line on which the specification says "n/a".
func (l *Line) fnMask() string {
	var e struct {
		Call      string `json:"call"`
		New       string `json:"new"`
		Prototype struct {
			Own string `json:"own"`
		} `json:"prototype"`
		Thr struct {
			Own string `json:"own"`
		} `json:"thr"`
	}
	json.Unmarshal(l.Exp, &e)
	m := ""
	if e.Call == "n/a" {
		m += " call"
	}
	if e.New == "n/a" {
		m += " new"
	}
	if e.Prototype.Own == "n/a" {
		m += " prototype"
	}
	if e.Thr.Own == "n/a" {
		m += " thr"
	}
	return m + " "
}

// facetDiff names the facets of a function-object observation that differ from the expectation (from the
// expectation under the open findings when that one is closer).
func facetDiff(got string, l *Line) string {
	var o map[string]json.RawMessage
	if json.Unmarshal([]byte(got), &o) != nil {
		return "implementation " + trunc(got, 300)
	}
	diff := func(exp json.RawMessage) []string {
		var e map[string]json.RawMessage
		json.Unmarshal(exp, &e)
		var ks, ds []string
		for k := range e {
			ks = append(ks, k)
		}
		sort.Strings(ks)
		for _, k := range ks {
			if !same(string(o[k]), e[k]) {
				ds = append(ds, fmt.Sprintf("%s: implementation %s ; specification %s", k, trunc(string(o[k]), 200), trunc(string(e[k]), 200)))
			}
		}
		return ds
	}
	ds := diff(l.Exp)
	if len(l.Dev) > 0 {
		if dd := diff(l.Dev[0]); len(dd) < len(ds) {
			ds = append(dd, "(compared with the expectation under the open findings)")
		}
	}
	return strings.Join(ds, " | ")
}

var vmMu sync.Mutex // underscore.Enable/Disable is process-global

func newVM(withUnderscore bool) *otto.Otto {
	vmMu.Lock()
	defer vmMu.Unlock()
	if withUnderscore {
		underscore.Enable()
		defer underscore.Disable()
	}
	return otto.New()
}

// install loads the host functions and the observation helpers.
func install(vm *otto.Otto) error {
	if err := vm.Set("NUMENC", func(call otto.FunctionCall) otto.Value {
		f, _ := call.Argument(0).ToFloat()
		v, _ := otto.ToValue(jsx.NumEnc(f))
		return v
	}); err != nil {
		return err
	}
	if err := vm.Set("HOSTFN", func(call otto.FunctionCall) otto.Value {
		a, _ := call.Argument(0).ToInteger()
		b, _ := call.Argument(1).ToInteger()
		v, _ := otto.ToValue(a + b)
		return v
	}); err != nil {
		return err
	}
	if _, err := vm.Run(jsx.Prelude + Prelude); err != nil {
		return fmt.Errorf("prelude: %v", err)
	}
	return nil
}

// Config is one way of obtaining a runtime.
type Config struct {
	Name       string
	Underscore bool
	Copy       string // "" | "before" (copy a pristine runtime, then load helpers) | "after" (load helpers and register, then copy) | "twice"
	Mutate     string // JavaScript run before the helpers are loaded (binding self-test only)
}

type session struct {
	cfg    Config
	vm     *otto.Otto
	lines  []*Line
	pre    []string
	panics []string
	keepVM bool // the runtime itself is the subject (a member of a group): never replace it
}

// open builds the runtime of a configuration and registers the objects of the table.
func open(cfg Config, lines []*Line) (s *session, err error) {
	defer func() {
		if r := recover(); r != nil {
			err = fmt.Errorf("GO PANIC while building %s: %v", cfg.Name, r)
		}
	}()
	vm := newVM(cfg.Underscore)
	if cfg.Copy == "before" || cfg.Copy == "twice" {
		vm = vm.Copy()
	}
	if cfg.Copy == "twice" {
		vm = vm.Copy()
	}
	if cfg.Mutate != "" {
		// a cross-wired library can recurse without end (toLocaleString := toString ...): otto has no
		// default limit and a Go stack overflow cannot be recovered
		vm.SetStackDepthLimit(400)
		if _, err := vm.Run(cfg.Mutate); err != nil {
			return nil, fmt.Errorf("mutation %q: %v", cfg.Mutate, err)
		}
	}
	if s, err = attach(cfg, vm, lines); err != nil {
		return nil, err
	}
	if cfg.Copy == "after" {
		s.vm = vm.Copy()
	}
	return s, nil
}

// attach loads the helpers into an existing runtime and registers the objects of the table.
func attach(cfg Config, vm *otto.Otto, lines []*Line) (s *session, err error) {
	defer func() {
		if r := recover(); r != nil {
			err = fmt.Errorf("GO PANIC while preparing %s: %v", cfg.Name, r)
		}
	}()
	// the global names that exist before the harness adds its own
	var pre []string
	if v, err := vm.Run("Object.getOwnPropertyNames(this).join(',')"); err == nil {
		pre = strings.Split(v.String(), ",")
	}
	if err := install(vm); err != nil {
		return nil, err
	}
	s = &session{cfg: cfg, vm: vm, lines: lines, pre: pre}
	for _, l := range lines {
		if l.K != "obj" {
			continue
		}
		if _, err := vm.Call("REGISTER", nil, l.ID, l.Js, l.Vo, l.Vn); err != nil {
			return nil, fmt.Errorf("REGISTER %s: %v", l.ID, err)
		}
	}
	// the function objects of the family spec/C14Fn.tla are created now: in the configurations that copy a
	// runtime "after", they are made in the original and observed in the copy
	for _, l := range lines {
		if l.K != "fn" {
			continue
		}
		if _, err := vm.Call("DYNREG", nil, l.ID, l.Base, l.Fn); err != nil {
			return nil, fmt.Errorf("DYNREG %s: %v", l.ID, err)
		}
	}
	return s, nil
}

// observe evaluates one line; the result is the JSON text of the observation.
// For an object line the facet "reflect" (Object.getOwnPropertyDescriptor
// answers for every own name) is probed last: a Go panic escaping the runtime
// is an observation ("go-panic"), after which the session is rebuilt.
func (s *session) observe(l *Line) (out string, err error) {
	if l.K == "fn" {
		// only what the projection needs crosses into the runtime: the names to look for and which facets the
		// specification leaves open ("n/a")
		return s.call("OBSFN", l.ID, l.Names, l.fnMask())
	}
	out, err = s.call("OBSLINE", l.raw)
	if err != nil && l.K == "call" && strings.HasPrefix(err.Error(), "GO PANIC") {
		s.panics = append(s.panics, l.ID+" call: "+err.Error())
		if e := s.rebuild(); e != nil {
			return "", e
		}
		return `{"t":"go-panic"}`, nil
	}
	if err != nil || l.K != "obj" {
		return out, err
	}
	var m map[string]any
	if e := json.Unmarshal([]byte(out), &m); e != nil {
		return "", fmt.Errorf("OBSLINE gave %q", out)
	}
	r, err := s.call("REFLECTALL", l.ID)
	if err != nil {
		if !strings.HasPrefix(err.Error(), "GO PANIC") {
			return "", err
		}
		s.panics = append(s.panics, l.ID+": "+err.Error())
		r = "go-panic"
		if e := s.rebuild(); e != nil {
			return "", e
		}
	}
	m["reflect"] = r
	b, _ := json.Marshal(m)
	return string(b), nil
}

// rebuild replaces the runtime after a Go panic went through it.
func (s *session) rebuild() error {
	if s.keepVM {
		return nil
	}
	s2, err := open(s.cfg, s.lines)
	if err != nil {
		return err
	}
	s.vm = s2.vm
	return nil
}

func (s *session) call(fn string, args ...any) (out string, err error) {
	defer func() {
		if r := recover(); r != nil {
			out, err = "", fmt.Errorf("GO PANIC: %v", r)
		}
	}()
	v, e := s.vm.Call(fn, nil, args...)
	if e != nil {
		return "", fmt.Errorf("%s failed: %v", fn, e)
	}
	return v.String(), nil
}

func same(a string, b json.RawMessage) bool {
	var x, y any
	if json.Unmarshal([]byte(a), &x) != nil || json.Unmarshal(b, &y) != nil {
		return false
	}
	return reflect.DeepEqual(x, y)
}

type mismatch struct {
	line *Line
	out  string
	err  error
}

type tally struct {
	evals, conform, dev int64
	extras              map[string][]string
}

// replay evaluates every line on the session.
func (s *session) replay(c *core.Ctx, t *tally) []mismatch {
	var bad []mismatch
	for _, l := range s.lines {
		out, err := s.observe(l)
		t.evals++
		switch {
		case err == nil && same(out, l.Exp):
			t.conform++
		case err == nil && len(l.Dev) > 0 && same(out, l.Dev[0]):
			t.dev++
			if c != nil {
				c.Hit("deviation at " + l.label())
			}
		default:
			bad = append(bad, mismatch{l, out, err})
		}
	}
	return bad
}

// secondPass observes every line again on the same runtime and reports the
// lines whose observation changed.
func (s *session) secondPass() []string {
	first := make([]string, len(s.lines))
	for i, l := range s.lines {
		first[i], _ = s.observe(l)
	}
	var diff []string
	for i, l := range s.lines {
		o, _ := s.observe(l)
		if o != first[i] {
			diff = append(diff, l.label()+": "+trunc(first[i], 200)+" then "+trunc(o, 200))
		}
	}
	return diff
}

func (s *session) str(fn string, args ...any) (string, error) {
	v, err := s.vm.Call(fn, nil, args...)
	if err != nil {
		return "", err
	}
	return v.String(), nil
}

// cfgText: OpenDev = the open findings (of any property) that the table mentions.
func cfgText(c *core.Ctx, generator bool) string {
	tab, _ := os.ReadFile(filepath.Join(c.SpecDir, "LibShapeTab.tla"))
	fns, _ := os.ReadFile(filepath.Join(c.SpecDir, "C14Fn.tla"))
	var ids []string
	for _, id := range c.Findings.OpenIDs() {
		if bytes.Contains(tab, []byte(`D("`+id+`")`)) || bytes.Contains(fns, []byte(`D("`+id+`")`)) {
			ids = append(ids, id)
		}
	}
	deep := "" // only the generator has the constant
	if generator {
		deep = " Deep = FALSE\n"
		if c.Thorough() {
			deep = " Deep = TRUE\n"
		}
	}
	return fmt.Sprintf("CONSTANTS\n OpenDev = %s\n%sINIT Init\nNEXT Next\nINVARIANT Emit\nCHECK_DEADLOCK FALSE\n", core.TLASet(ids), deep)
}

// Mutated holds what spec/C14.tla says about a runtime that ran the structural mutation script.
type Mutated struct {
	Script string
	Lines  []*Line
}

var mutated Mutated

// Generate runs TLC on spec/C14.tla and returns the lines of the table ordered by index
// (the lines of the mutated table and the mutation script go to the variable mutated).
func Generate(c *core.Ctx) ([]*Line, *tlc.Result, error) {
	var lines []*Line
	var perr error
	res, err := tlc.Run(tlc.Opts{SpecDir: c.SpecDir, Module: "C14", Cfg: cfgText(c, true), Workers: c.Workers, Timeout: 10 * time.Minute},
		func(p []byte) {
			l := &Line{raw: string(p)}
			if e := json.Unmarshal(p, l); e != nil && perr == nil {
				perr = fmt.Errorf("bad line: %v: %s", e, p[:min(len(p), 200)])
			}
			lines = append(lines, l)
		})
	if err != nil {
		return nil, res, err
	}
	if perr != nil {
		return nil, res, perr
	}
	sort.Slice(lines, func(i, j int) bool { return lines[i].I < lines[j].I })
	for i, l := range lines {
		if l.I != i+1 {
			return nil, res, fmt.Errorf("lines are not 1..N: position %d has index %d", i+1, l.I)
		}
	}
	var base []*Line
	mutated = Mutated{}
	for _, l := range lines {
		switch {
		case l.K == "mutation":
			mutated.Script = l.Js
		case l.Mut:
			mutated.Lines = append(mutated.Lines, l)
		default:
			base = append(base, l)
		}
	}
	if mutated.Script == "" || len(mutated.Lines) == 0 {
		return nil, res, fmt.Errorf("the generator printed no mutation")
	}
	return base, res, nil
}

func configs(thorough bool) []Config {
	cs := []Config{
		{Name: "fresh"},
		{Name: "underscore", Underscore: true},
		{Name: "copy-of-fresh", Copy: "before"},
		{Name: "copy-of-underscore", Underscore: true, Copy: "before"},
		{Name: "fresh-copied-with-registry", Copy: "after"},
		{Name: "underscore-copied-with-registry", Underscore: true, Copy: "after"},
	}
	if thorough {
		cs = append(cs,
			Config{Name: "fresh-2"},
			Config{Name: "underscore-2", Underscore: true},
			Config{Name: "copy-of-copy-of-fresh", Copy: "twice"},
			Config{Name: "copy-of-copy-of-underscore", Underscore: true, Copy: "twice"})
	}
	return cs
}

func trunc(s string, n int) string {
	if len(s) > n {
		return s[:n] + "..."
	}
	return s
}

// Check is the property check.
func Check(c *core.Ctx) (map[string]any, []string, error) {
	phase := map[string]float64{} // wall seconds per phase (informative)
	mark := time.Now()
	lap := func(name string) {
		phase[name] = time.Since(mark).Seconds()
		mark = time.Now()
	}
	lines, res, err := Generate(c)
	if err != nil {
		return nil, nil, err
	}
	lap("generate")
	// table: the lines of the library table; the function objects made at run time (spec/C14Fn.tla) are replayed
	// on every configuration (made before the copy where the configuration copies "after") and, below, on the
	// members of one copy group; the other passes (self-tests, sweeps, judge walk) are about the table
	var table []*Line
	for _, l := range lines {
		if l.K != "fn" {
			table = append(table, l)
		}
	}
	nObj, nRow, nForin, nCall, nFn, nDevLines := 0, 0, 0, 0, 0, 0
	for _, l := range lines {
		switch l.K {
		case "fn":
			nFn++
		case "obj":
			nObj++
		case "call":
			nCall++
		case "row":
			nRow++
		case "forin":
			nForin++
		}
		if len(l.Dev) > 0 {
			nDevLines++
		}
	}

	// 1. every line on every configuration
	cfgs := configs(c.Thorough())
	type result struct {
		t        tally
		bad      []mismatch
		err      error
		second   []string
		dump     string
		dumpSkip bool
		xtra     string
	}
	results := make([]result, len(cfgs))
	var wg sync.WaitGroup
	for i := range cfgs {
		wg.Add(1)
		go func(i int) {
			defer wg.Done()
			r := &results[i]
			s, err := open(cfgs[i], lines)
			if err != nil {
				r.err = err
				return
			}
			r.bad = s.replay(c, &r.t)
			if c.Thorough() {
				// using the library does not change it: a second pass over the same runtime observes the same
				r.second = s.secondPass()
			}
			r.xtra = extrasOf(cfgs[i], table)
			if cfgs[i].Copy != "after" {
				// the complete shape of everything reachable from the global object
				r.dump, r.dumpSkip, r.err = dumpOf(cfgs[i])
			}
		}(i)
	}
	wg.Wait()
	var evals, conform, devHits int64
	perCfg := map[string]any{}
	for i, r := range results {
		if r.err != nil {
			if strings.Contains(r.err.Error(), "GO PANIC") {
				c.Violate(fmt.Sprintf("configuration %s: %v", cfgs[i].Name, r.err), map[string]any{"config": cfgs[i]})
				continue
			}
			return nil, nil, fmt.Errorf("configuration %s: %v", cfgs[i].Name, r.err)
		}
		evals += r.t.evals
		conform += r.t.conform
		devHits += r.t.dev
		perCfg[cfgs[i].Name] = map[string]any{"lines": r.t.evals, "conforming": r.t.conform, "conforming_to_known_deviation": r.t.dev, "rejected": len(r.bad)}
		for _, d := range r.second {
			c.Violate(fmt.Sprintf("[%s] a second pass over the same runtime observes something else: %s", cfgs[i].Name, d), map[string]any{"config": cfgs[i], "difference": d})
		}
		if len(r.bad) == 0 {
			continue
		}
		// reproduce on a second runtime of the same configuration before reporting
		s2, err := open(cfgs[i], lines)
		if err != nil {
			return nil, nil, fmt.Errorf("configuration %s (second runtime): %v", cfgs[i].Name, err)
		}
		for _, m := range r.bad {
			out2, err2 := s2.observe(m.line)
			if (m.err == nil) != (err2 == nil) || out2 != m.out {
				c.Note("%s on %s: not reproducible (%s / %s)", m.line.label(), cfgs[i].Name, trunc(m.out, 200), trunc(out2, 200))
				continue
			}
			got := m.out
			if m.err != nil {
				got = m.err.Error()
			}
			detail := fmt.Sprintf("[%s] %s (ES5 %s): implementation %s ; specification %s", cfgs[i].Name, m.line.label(), m.line.Clause, trunc(got, 300), trunc(string(m.line.Exp), 300))
			if m.line.K == "fn" && m.err == nil {
				detail = fmt.Sprintf("[%s] %s (ES5 %s): %s", cfgs[i].Name, m.line.label(), m.line.Clause, facetDiff(got, m.line))
			}
			c.Violate(detail, map[string]any{"config": cfgs[i], "line": json.RawMessage(m.line.raw), "observed": got, "expected": m.line.Exp})
		}
	}

	lap("configurations")
	// 2. every fresh runtime and every copy has the identical shape
	shapeCmp := 0
	base := map[bool]int{}
	for i, cf := range cfgs {
		if results[i].dump == "" {
			continue
		}
		b, ok := base[cf.Underscore]
		if !ok {
			base[cf.Underscore] = i
			continue
		}
		shapeCmp++
		if results[i].dump != results[b].dump {
			d := firstDiff(results[b].dump, results[i].dump)
			c.Violate(fmt.Sprintf("the complete shape of configuration %s differs from %s: %s", cf.Name, cfgs[b].Name, d),
				map[string]any{"a": cfgs[b], "b": cf, "first_difference": d})
		}
	}

	// 2b. runtimes are independent: a structural change of the library in one runtime of a group
	// {original, copy, copy of the copy} leaves the shape of every other one (and of later copies) alone
	groups, err := groupFamily(c, table)
	if err != nil {
		return nil, nil, err
	}

	lap("copy_groups")
	// 3. informative: what the implementation adds to the table (clause 16 allows it)
	var extras map[string][]string
	json.Unmarshal([]byte(results[0].xtra), &extras)
	nExtra := 0
	var extraList []string
	for o, ns := range extras {
		nExtra += len(ns)
		extraList = append(extraList, o+": "+strings.Join(ns, " "))
	}
	sort.Strings(extraList)

	// 4. the calls distinguish: f's call applied to every other function of the same owner must not give f's result
	dist, err := distinguishing(table)
	if err != nil {
		return nil, nil, err
	}

	lap("distinguishing")
	// 5. the binding is live: seeded changes of the runtime and of an expected value are rejected
	self, err := selfTest(table, lines)
	if err != nil {
		return nil, nil, err
	}
	for _, m := range self {
		// the self-test presupposes a tree that conforms; when the replay has already found
		// violations they are the verdict and the self-test result is only noted
		if !m["rejected"].(bool) && len(c.Violations()) > 0 {
			c.Note("binding self-test not meaningful on a violating tree: %v", m["change"])
			continue
		}
		if !m["rejected"].(bool) {
			return nil, nil, fmt.Errorf("binding self-test: the change %q was NOT rejected", m["change"])
		}
	}

	lap("self_test")
	// 5b. thorough: every function-valued property mutated three ways; runtimes created concurrently
	var sweep, conc map[string]any
	if c.Thorough() {
		if sweep, err = mutationSweep(c, table); err != nil {
			return nil, nil, err
		}
		if conc, err = concurrentFresh(c, 16); err != nil {
			return nil, nil, err
		}
	}

	// 6. the judge direction
	var judge map[string]any
	{
		judge, err = runJudge(c, table)
		if err != nil {
			return nil, nil, err
		}
	}

	lap("judge_and_sweeps")
	var samples []any
	for _, l := range lines {
		if (l.K == "row" && l.Owner == "Math" && l.Name == "atan2") || (l.K == "call" && l.ID == "Array.prototype.push") || (l.K == "obj" && l.ID == "RegExp.prototype") || (l.K == "forin" && l.ID == "i:string") {
			samples = append(samples, json.RawMessage(l.raw))
		}
	}
	distinct := map[string]bool{}
	for _, l := range lines {
		distinct[l.K+"|"+l.ID+"|"+l.Owner+"|"+l.Name+"|"+l.Call] = true
	}
	cov := map[string]any{
		"states": res.Distinct, "transitions": res.Generated, "traces_validated_against_impl": evals,
		"samples": samples, "exhaustive": true,
		"evaluations": evals, "distinct_nontrivial": len(distinct),
		"rule":                          "one line per object, own property and for-in subject of the ES5 table (all lines enumerated by TLC), each replayed on every configuration; distinct = distinct table entries (every entry is compared on >= 5 facets, none is trivial)",
		"tlc":                           map[string]any{"generated": res.Generated, "distinct": res.Distinct, "lines": res.Lines, "wall_s": res.Wall},
		"table":                         map[string]any{"objects": nObj, "own_properties": nRow, "forin_subjects": nForin, "distinguishing_calls": nCall, "function_objects_made_at_run_time": nFn, "lines_changed_by_open_findings": nDevLines},
		"configurations":                perCfg,
		"conforming":                    conform,
		"conforming_to_known_deviation": devHits,
		"shape_dumps_compared":          shapeCmp,
		"copy_groups":                   groups,
		"shape_dump_bytes":              len(results[0].dump),
		"extras_not_in_es5":             map[string]any{"count": nExtra, "by_owner": extraList},
		"distinguishing_calls":          dist,
		"binding_self_test":             self,
		"mutation_sweep":                sweep,
		"concurrent_fresh":              conc,
		"judge":                         judge,
		"phase_wall_s":                  phase,
	}
	assume := []string{
		"trusted: the JavaScript-side projection (harness/internal/c14 prelude: reflection through Object.getOwnPropertyDescriptor/getOwnPropertyNames/getPrototypeOf/isExtensible, Object.prototype.toString, typeof, for-in, direct eval for the distinguishing calls), Go float64 bit projection, TLC",
		"the table is a hand transcription of ES5.1 15.1-15.12, 10.6, 13.2 and (flagged) Annex B.2; TLC checks its internal consistency, not its agreement with the standard's text",
		"LocalTZA = +05:30 without daylight saving time (time.Local is set by the check process)",
		"function behaviour is spot-checked by one distinguishing call per function; full semantics belong to C05-C13",
	}
	return cov, assume, nil
}

// extrasOf lists what the implementation adds to the objects of the table
// (informative; clause 16 allows additional properties).
func extrasOf(cfg Config, lines []*Line) string {
	s, err := open(cfg, lines)
	if err != nil {
		return "{}"
	}
	for _, l := range lines {
		if l.K == "obj" {
			s.call("OBSLINE", l.raw)
		}
	}
	out, _ := s.call("EXTRAS")
	return out
}

func firstDiff(a, b string) string {
	la, lb := strings.Split(a, "\n"), strings.Split(b, "\n")
	for i := 0; i < len(la) && i < len(lb); i++ {
		if la[i] != lb[i] {
			return fmt.Sprintf("line %d: %s  <>  %s", i+1, trunc(la[i], 200), trunc(lb[i], 200))
		}
	}
	return fmt.Sprintf("lengths %d <> %d lines", len(la), len(lb))
}

// dumpOf builds another runtime of the configuration and dumps the complete
// reachable shape before anything is registered.
func dumpOf(cfg Config) (out string, skipped bool, err error) {
	s, err := open(cfg, nil)
	if err != nil {
		return "", false, err
	}
	out, err = s.call("DUMP")
	if err != nil && strings.HasPrefix(err.Error(), "GO PANIC") {
		// Object.getOwnPropertyDescriptor panics on the internal accessors (finding
		// D14_gopd_panics_on_internal_accessor): dump those two names without their descriptor
		if s, err = open(cfg, nil); err != nil {
			return "", false, err
		}
		out, err = s.call("DUMP", []string{"caller", "stack"})
		return out, true, err
	}
	return out, false, err
}

// distinguishing: for every function f with a call and every other function g
// of the same owner, f's call evaluated on g must differ from f's expected
// result.  Pairs that collide are reported (ES5 gives some pairs identical
// semantics on every input the call can use).
func distinguishing(lines []*Line) (map[string]any, error) {
	s, err := open(Config{Name: "fresh"}, lines)
	if err != nil {
		return nil, err
	}
	owner := map[string]string{}
	for _, l := range lines {
		if l.K == "obj" && l.Vo != "" {
			owner[l.ID] = l.Vo
		}
	}
	byOwner := map[string][]*Line{}
	for _, l := range lines {
		if l.K == "call" && owner[l.ID] != "" {
			byOwner[owner[l.ID]] = append(byOwner[owner[l.ID]], l)
		}
	}
	pairs, collide := 0, []string{}
	for _, fs := range byOwner {
		for _, f := range fs {
			for _, g := range fs {
				if g == f {
					continue
				}
				pairs++
				out, err := s.call("CALLON", g.ID, f.Call)
				if err != nil {
					if e := s.rebuild(); e != nil {
						return nil, e
					}
					continue // a Go-level failure certainly differs
				}
				if same(out, f.Exp) {
					collide = append(collide, f.ID+" ~ "+g.ID)
				}
			}
		}
	}
	sort.Strings(collide)
	return map[string]any{"ordered_pairs_tried": pairs, "indistinguishable": collide}, nil
}

// selfTest demonstrates that the binding rejects changes: the runtime is
// changed by a script before the helpers are loaded (cross-wired functions, a
// flipped attribute, a deleted method, an enumerable addition to a prototype,
// a re-linked constructor) and the replay must reject each; and an expected
// value of an emitted line is corrupted.
func selfTest(lines, all []*Line) ([]map[string]any, error) {
	muts := []string{
		"var t = Math.sin; Math.sin = Math.cos; Math.cos = t;",
		"var t = Date.prototype.getHours; Date.prototype.getHours = Date.prototype.getUTCHours; Date.prototype.getUTCHours = t;",
		"Object.defineProperty(Array.prototype, 'push', {enumerable: true});",
		"Math.max = Math.min;",
		"delete String.prototype.trim;",
		"Object.prototype.extra = 1;",
		"RangeError.prototype.constructor = Error;",
		"Object.preventExtensions(JSON);",
		"String.prototype.substring = String.prototype.substr;",
	}
	var out []map[string]any
	for _, m := range muts {
		s, err := open(Config{Name: "mutated", Mutate: m}, lines)
		if err != nil {
			return nil, err
		}
		var t tally
		bad := s.replay(nil, &t)
		e := map[string]any{"change": m, "rejected": len(bad) > 0, "lines_rejected": len(bad)}
		if len(bad) > 0 {
			e["first"] = bad[0].line.label()
		}
		out = append(out, e)
	}
	// corrupt the expectation of one line (length of Array.prototype.slice: 2 -> 3)
	s, err := open(Config{Name: "fresh"}, lines)
	if err != nil {
		return nil, err
	}
	for _, l := range lines {
		if l.K == "row" && l.Owner == "Array.prototype.slice" && l.Name == "length" {
			cor := strings.Replace(string(l.Exp), `"v":2`, `"v":3`, 1)
			o, err := s.observe(l)
			out = append(out, map[string]any{"change": "expected length of Array.prototype.slice 2 -> 3 in the emitted line",
				"rejected": err == nil && cor != string(l.Exp) && !same(o, json.RawMessage(cor)) && same(o, l.Exp)})
		}
	}
	// the family of function objects made at run time is bound too: a bind that drops the bound arguments
	// (lengths, results of calls) and one that hands out extensible-less objects must be rejected by its lines,
	// and so must a corrupted expected length
	var fns []*Line
	for _, l := range all {
		if l.K == "fn" {
			fns = append(fns, l)
		}
	}
	if len(fns) == 0 {
		return out, nil
	}
	for _, m := range []string{
		"var ob = Function.prototype.bind; Function.prototype.bind = function(t){ return ob.call(this, t); };",
		"var ob = Function.prototype.bind; Function.prototype.bind = function(){ return Object.preventExtensions(ob.apply(this, arguments)); };",
	} {
		s, err := open(Config{Name: "mutated", Mutate: m}, all)
		if err != nil {
			return nil, err
		}
		s.lines = nil // every fifth line of the family (each target kind and chain form occurs many times)
		for i, l := range fns {
			if i%5 == 0 {
				s.lines = append(s.lines, l)
			}
		}
		var t tally
		bad := s.replay(nil, &t)
		e := map[string]any{"change": m, "rejected": len(bad) > 0, "lines_rejected": len(bad), "of_function_object_lines": len(s.lines)}
		if len(bad) > 0 {
			e["first"] = bad[0].line.label()
		}
		out = append(out, e)
	}
	s, err = open(Config{Name: "fresh"}, all)
	if err != nil {
		return nil, err
	}
	for _, l := range fns {
		if !strings.Contains(l.ID, "/bind.") { // a bound function
			continue
		}
		o, err := s.observe(l)
		ref := l.Exp // the expectation the tree meets now: strict, or under the open finding
		if !same(o, ref) && len(l.Dev) > 0 {
			ref = l.Dev[0]
		}
		var m map[string]any
		json.Unmarshal(ref, &m)
		n := m["len"].(map[string]any)["val"].(map[string]any)["n"].(map[string]any)
		n["v"] = n["v"].(float64) + 1
		cor, _ := json.Marshal(m)
		out = append(out, map[string]any{"change": "expected length of " + l.ID + " increased by one in the emitted line",
			"rejected": err == nil && same(o, ref) && !same(o, cor)})
		break
	}
	return out, nil
}

// ownerExpr is the JavaScript path of a library object at the top level of a script.
func ownerExpr(id string) string {
	if id == "global" {
		return "this"
	}
	return id
}

// mutationSweep: every function-valued property of the library is (1) made
// enumerable, (2) deleted, (3) overwritten with its neighbour of the same
// owner; each mutant runtime must be rejected by the replay (or be unusable
// for the harness, which is a rejection too).
func mutationSweep(c *core.Ctx, lines []*Line) (map[string]any, error) {
	type mutant struct{ what, js string }
	var ms []mutant
	byOwner := map[string][]string{}
	var owners []string
	for _, l := range lines {
		if l.K == "row" && l.Kind == "function" && !strings.HasPrefix(l.Owner, "i:") {
			if _, ok := byOwner[l.Owner]; !ok {
				owners = append(owners, l.Owner)
			}
			byOwner[l.Owner] = append(byOwner[l.Owner], l.Name)
		}
	}
	for _, o := range owners {
		ns := byOwner[o]
		for i, n := range ns {
			e := ownerExpr(o)
			ms = append(ms, mutant{o + "." + n + " enumerable", fmt.Sprintf("Object.defineProperty(%s, '%s', {enumerable: true});", e, n)})
			ms = append(ms, mutant{o + "." + n + " deleted", fmt.Sprintf("delete %s['%s'];", e, n)})
			if len(ns) > 1 {
				sib := ns[(i+1)%len(ns)]
				ms = append(ms, mutant{o + "." + n + " := " + sib, fmt.Sprintf("%s['%s'] = %s['%s'];", e, n, e, sib)})
			}
		}
	}
	killed := make([]int, len(ms)) // 0 survived, 1 rejected by a line, 2 harness unusable
	var wg sync.WaitGroup
	sem := make(chan struct{}, c.Workers)
	for i := range ms {
		wg.Add(1)
		sem <- struct{}{}
		go func(i int) {
			defer wg.Done()
			defer func() { <-sem }()
			defer func() {
				if r := recover(); r != nil {
					killed[i] = 2
				}
			}()
			s, err := open(Config{Name: "mutant", Mutate: ms[i].js}, lines)
			if err != nil {
				killed[i] = 2
				return
			}
			var t tally
			if bad := s.replay(nil, &t); len(bad) > 0 {
				killed[i] = 1
			}
		}(i)
	}
	wg.Wait()
	var survived []string
	n1, n2 := 0, 0
	for i, k := range killed {
		switch k {
		case 0:
			survived = append(survived, ms[i].what)
		case 1:
			n1++
		case 2:
			n2++
		}
	}
	if len(survived) > 0 {
		return nil, fmt.Errorf("mutation sweep: %d mutants were NOT rejected: %v", len(survived), survived)
	}
	return map[string]any{"mutants": len(ms), "rejected_by_a_line": n1, "rejected_harness_unusable": n2, "survived": len(survived)}, nil
}

// concurrentFresh creates n runtimes from n goroutines at once and compares their complete shape.
func concurrentFresh(c *core.Ctx, n int) (map[string]any, error) {
	dumps := make([]string, n)
	errs := make([]error, n)
	var wg sync.WaitGroup
	for i := 0; i < n; i++ {
		wg.Add(1)
		go func(i int) {
			defer wg.Done()
			dumps[i], _, errs[i] = dumpOf(Config{Name: fmt.Sprintf("concurrent-%d", i), Copy: map[bool]string{true: "before", false: ""}[i%2 == 1]})
		}(i)
	}
	wg.Wait()
	for i := 0; i < n; i++ {
		if errs[i] != nil {
			return nil, errs[i]
		}
		if dumps[i] != dumps[0] {
			d := firstDiff(dumps[0], dumps[i])
			c.Violate(fmt.Sprintf("runtime %d of %d created concurrently differs in shape from the first: %s", i, n, d), map[string]any{"first_difference": d})
		}
	}
	return map[string]any{"runtimes": n, "copies_among_them": n / 2, "identical": true}, nil
}
