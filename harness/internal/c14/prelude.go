package c14

// Prelude is the JavaScript side: it evaluates a line of spec/C14.tla as a
// reflection query and projects the answer into the JSON shape of the expected
// observation.  It computes no expectation.
const Prelude = `
var GLOBAL = this;
var REG = {}, REGIDS = [], XTRA = {};
// the helpers keep working in a runtime whose library a script has changed: what they need is captured now
var $parse = JSON.parse, $stringify = JSON.stringify;
function ENC(v){
  if (v === undefined) return {t:"undef"};
  if (v === null) return {t:"null"};
  if (typeof v === "boolean") return {t:"bool", b:v};
  if (typeof v === "number") return {t:"num", n:$parse(NUMENC(v))};
  if (typeof v === "string") return {t:"str", s:UNITS(v)};
  return {t:"obj", id:-1};
}
function S(x){ return x === 0 ? (1/x < 0 ? "-0" : "0") : String(x); }
function T(f){ try { f(); return "no"; } catch (e) { return (e instanceof Error) ? e.name : "value"; } }
function CLS(x){ var s = Object.prototype.toString.call(x); return s.substring(8, s.length-1); }
// a number reduced to what ES5 fixes: special values and integers verbatim, anything else to its sign
function Q(x){
  if (typeof x !== "number") return "?" + typeof x;
  if (x !== x) return "NaN";
  if (x === 0) return 1/x < 0 ? "-0" : "0";
  if (x === Infinity) return "Inf";
  if (x === -Infinity) return "-Inf";
  if (x % 1 === 0) return String(x);
  return x > 0 ? "+" : "-";
}
function MV(F){
  var xs = [-0, 1, -1, Infinity, -Infinity, 0.5, -0.5, 2.25], r = [];
  for (var i = 0; i < xs.length; i++) r.push(Q(F(xs[i])));
  return r.join(",");
}
function ISOBJ(v){ return v !== null && (typeof v === "object" || typeof v === "function"); }
function PATHOF(v){
  if (v === null) return "null";
  for (var i = 0; i < REGIDS.length; i++) if (REG[REGIDS[i]] === v) return REGIDS[i];
  return "?";
}
function REGISTER(id, js, vo, vn){
  var v;
  try { v = js !== "" ? (0,eval)(js) : REG[vo][vn]; } catch (e) { v = undefined; }
  REG[id] = v; REGIDS.push(id);
  return typeof v;
}
function ENCP(v){ return ISOBJ(v) ? {t:"ref", id:PATHOF(v)} : ENC(v); }
function ATTR(b){ return b === true ? "T" : (b === false ? "F" : "!"); }
function SAMEV(a, b){ return a === b ? (a !== 0 || 1/a === 1/b) : (a !== a && b !== b); }

// an own property through Object.getOwnPropertyDescriptor, cross-checked with hasOwnProperty,
// propertyIsEnumerable and [[Get]]
function OBSROW(owner, name, exp){
  var o = REG[owner];
  if (!ISOBJ(o)) return {own:"owner is " + typeof o};
  var d = Object.getOwnPropertyDescriptor(o, name);
  var hop = Object.prototype.hasOwnProperty.call(o, name);
  if (d === undefined) {
    if (hop) return {own:"hasOwnProperty disagrees"};
    return exp ? {own:"none", attrs:[], ty:"undefined", val:{t:"none"}, beh:[]} : {own:"none", attrs:[], ty:"undefined", val:{t:"none"}};
  }
  if (!hop) return {own:"hasOwnProperty disagrees"};
  if (Object.prototype.propertyIsEnumerable.call(o, name) !== d.enumerable) return {own:"propertyIsEnumerable disagrees"};
  if ("get" in d || "set" in d)
  {
    var ra = {own:"acc", attrs:["-", ATTR(d.enumerable), ATTR(d.configurable)], ty:"accessor", val:{t:"acc", get:ENCP(d.get), set:ENCP(d.set)}};
    if (exp) ra.beh = [];
    return ra;
  }
  var v = d.value, a = [ATTR(d.writable), ATTR(d.enumerable), ATTR(d.configurable)];
  if (!SAMEV(o[name], v)) return {own:"[[Get]] disagrees with the descriptor"};
  var ea = (exp && exp.attrs) || [];
  for (var i = 0; i < 3; i++) if (ea[i] === "?") a[i] = "?";       // attribute ES5 leaves open
  var anyv = exp && exp.val && exp.val.t === "any";                 // value ES5 leaves open: type only
  var r = {own:"data", attrs:a, ty:typeof v, val: anyv ? {t:"any"} : ENCP(v)};
  if (exp && exp.beh !== undefined) r.beh = exp.beh.length === 2 ? BEHAVE(o, name, d, exp.beh) : [];
  return r;
}
// what the attributes DO: [[Put]] of a fresh object, [[Delete]]; the property is restored.  Nothing is
// looked up on the library between the change and the restoration (the intrinsics are captured first).
function BEHAVE(o, name, d, mask){
  var gopd = Object.getOwnPropertyDescriptor, dp = Object.defineProperty, sentinel = {}, put, del;
  var old = d.value;
  try { o[name] = sentinel; } catch (e) { return ["put throws " + e.name, "-"]; }
  put = o[name] === sentinel ? "T" : (SAMEV(o[name], old) ? "F" : "!");
  if (put === "T") { o[name] = old; if (!SAMEV(o[name], old)) put = "not restorable"; }
  var res;
  try { res = delete o[name]; } catch (e) { return [put, "delete throws " + e.name]; }
  var still = gopd(o, name) !== undefined;
  del = (res === true && !still) ? "T" : ((res === false && still) ? "F" : "!" + res + still);
  if (!still) dp(o, name, {value:old, writable:d.writable, enumerable:d.enumerable, configurable:d.configurable});
  var back = gopd(o, name);
  if (back === undefined || !SAMEV(back.value, old) || back.writable !== d.writable || back.enumerable !== d.enumerable || back.configurable !== d.configurable) del = "not restored";
  if (mask[0] === "?") put = "?";
  if (mask[1] === "?") del = "?";
  return [put, del];
}

function CALLRES(F, src){
  var v;
  try { v = (function(F, src){ return eval(src); })(F, src); }
  catch (e) { return {t:"throw", name:(e instanceof Error) ? e.name : "value"}; }
  return ISOBJ(v) ? {t:"obj"} : ENC(v);
}
function CALLON(id, src){ return $stringify(CALLRES(REG[id], src)); }

function OBSOBJ(l){
  var o = REG[l.id];
  if (!ISOBJ(o)) return {ty:typeof o, "new":"", cls:"", proto:"", ext:false, missing:l.names, dupnames:[], enumextra:[]};
  var own = Object.getOwnPropertyNames(o), missing = [], enumextra = [], extra = [];
  // a listed name must be an own property AND be reported exactly once by Object.getOwnPropertyNames
  var dup = [];
  for (var i = 0; i < l.names.length; i++) {
    var cnt = 0;
    for (var c = 0; c < own.length; c++) if (own[c] === l.names[i]) cnt++;
    if (!Object.prototype.hasOwnProperty.call(o, l.names[i]) || cnt === 0) missing.push(l.names[i]);
    if (cnt > 1) dup.push(l.names[i]);
  }
  for (var c2 = 0; c2 < own.length; c2++) if (!Object.prototype.hasOwnProperty.call(o, own[c2])) dup.push("?" + own[c2]);
  for (var j = 0; j < own.length; j++) {
    var known = false;
    for (var k = 0; k < l.names.length; k++) if (l.names[k] === own[j]) known = true;
    if (known) continue;
    var en = Object.prototype.propertyIsEnumerable.call(o, own[j]);
    extra.push(own[j] + (en ? "(enumerable)" : ""));
    if (en) enumextra.push(own[j]);
  }
  if (extra.length && l.grp !== "inst") XTRA[l.id] = extra;
  enumextra.sort();
  var nw = "n/a";
  if (l.exp["new"] !== "n/a") nw = T(function(){ new o(); });
  return {ty:typeof o, "new": nw,
          cls: l.mask.cls ? CLS(o) : "?",
          proto: l.mask.proto ? PATHOF(Object.getPrototypeOf(o)) : "?",
          ext: Object.isExtensible(o),
          missing: missing, dupnames: dup,
          enumextra: l.mask.enumextra ? enumextra : []};
}
// Object.getOwnPropertyDescriptor answers for every own property (a Go panic is seen by the caller)
function REFLECTALL(id){
  var o = REG[id];
  if (!ISOBJ(o)) return "not an object";
  var own = Object.getOwnPropertyNames(o);
  for (var j = 0; j < own.length; j++) {
    var d = Object.getOwnPropertyDescriptor(o, own[j]);
    if (d === undefined) return "no descriptor for own name " + own[j];
    if (typeof d.enumerable !== "boolean" || typeof d.configurable !== "boolean") return "incomplete descriptor for " + own[j];
    if (("get" in d || "set" in d) === ("value" in d || "writable" in d)) return "descriptor of " + own[j] + " is neither data nor accessor";
  }
  return "ok";
}
function EXTRAS(){ return $stringify(XTRA); }

function FORIN(js, id, registered){
  // in a runtime whose library a script has changed the subject is the instance registered before the change
  var o = registered ? REG[id] : (0,eval)(js), r = [];
  for (var k in o) r.push(k);
  r.sort();
  return r;
}

// Function objects created at run time (spec/C14Fn.tla).  DYNREG makes the target (F) and the function object
// of a case; OBSFN projects what the runtime shows of it.  RET is the body of the functions made from source
// text: it reports the this value, the number of arguments and the arguments.  No expectation is computed here.
// (the registry is private to the two functions: DUMP walks everything reachable from the global object)
var DYNREG, OBSFN;
function TAG(t){ return t === GLOBAL ? "g" : (ISOBJ(t) ? String(t.k) : typeof t); }
function RET(t, a){ return TAG(t) + "|" + a.length + "|" + Array.prototype.slice.call(a).join(); }
(function(){
var DYN = {};
DYNREG = function(id, base, fn){
  var B, f;
  try { B = (0,eval)(base); f = (function(F, src){ return eval(src); })(B, fn); }
  catch (e) { DYN[id] = {err:(e instanceof Error) ? e.name : "value"}; return "throw"; }
  DYN[id] = {B:B, f:f};
  return typeof f;
};
OBSFN = function(id, names, mask){ return OBSFN1(DYN[id], names, mask); };
})();
function DESC(o, n){
  var d = Object.getOwnPropertyDescriptor(o, n);
  if (d === undefined) return {own:"none"};
  if (Object.prototype.propertyIsEnumerable.call(o, n) !== d.enumerable) return {own:"propertyIsEnumerable disagrees"};
  if ("get" in d || "set" in d) return {own:"acc", attrs:["-", ATTR(d.enumerable), ATTR(d.configurable)]};
  return {own:"data", attrs:[ATTR(d.writable), ATTR(d.enumerable), ATTR(d.configurable)]};
}
function LENOF(f, beh){
  var ld = Object.getOwnPropertyDescriptor(f, "length"), len = DESC(f, "length");
  if (len.own === "data") {
    len.val = ENC(ld.value);
    if (!SAMEV(f.length, ld.value)) len.own = "[[Get]] disagrees with the descriptor";
    if (beh) len.beh = BEHAVE(f, "length", ld, ["", ""]);
  }
  return len;
}
function SORTED(a){ a.sort(); return a; }
function OBSFN1(e, names, mask){
  if (e === undefined) return $stringify({ty:"not registered"});
  if (e.err !== undefined) return $stringify({ty:"making it throws " + e.err});
  var f = e.f, B = e.B, r = {}, k, i;
  if (typeof f !== "function") return $stringify({ty:typeof f});
  r.ty = typeof f; r.cls = CLS(f); r.proto = PATHOF(Object.getPrototypeOf(f)); r.ext = Object.isExtensible(f);
  r.len = LENOF(f, true);
  if (mask.indexOf(" prototype ") >= 0) r.prototype = {own:"n/a"};
  else {
    var pr = DESC(f, "prototype");
    if (pr.own === "data") {
      var P = f.prototype;
      if (!ISOBJ(P)) pr.obj = {cls:typeof P};
      else {
        var c = DESC(P, "constructor"), en = [];
        if (c.own === "data") c.same = P.constructor === f;
        for (k in P) en.push(k);
        pr.obj = {cls:CLS(P), proto:PATHOF(Object.getPrototypeOf(P)), ext:Object.isExtensible(P),
                  names:SORTED(Object.getOwnPropertyNames(P)), ctor:c, forin:SORTED(en)};
      }
    }
    r.prototype = pr;
  }
  if (mask.indexOf(" thr ") >= 0) r.thr = {own:"n/a"};
  else {
    var cd = Object.getOwnPropertyDescriptor(f, "caller"), ad = Object.getOwnPropertyDescriptor(f, "arguments");
    var t = {caller:DESC(f, "caller"), arguments:DESC(f, "arguments")};
    t.one = cd !== undefined && ad !== undefined && typeof cd.get === "function" && cd.get === cd.set && cd.get === ad.get && ad.get === ad.set;
    if (cd !== undefined && typeof cd.get === "function")
      t.fn = {cls:CLS(cd.get), proto:PATHOF(Object.getPrototypeOf(cd.get)), ext:Object.isExtensible(cd.get), len:LENOF(cd.get, false)};
    else t.fn = {cls:"no getter"};
    t.get = [T(function(){ f.caller; }), T(function(){ f.arguments; })];
    t.put = [T(function(){ f.caller = 1; }), T(function(){ f.arguments = 1; })];
    r.thr = t;
  }
  var own = Object.getOwnPropertyNames(f), missing = [], enumown = [], fi = [], refl = "ok";
  for (i = 0; i < names.length; i++) {
    var cnt = 0;
    for (k = 0; k < own.length; k++) if (own[k] === names[i]) cnt++;
    if (cnt !== 1 || !Object.prototype.hasOwnProperty.call(f, names[i])) missing.push(names[i]);
  }
  for (k = 0; k < own.length; k++) {
    if (Object.prototype.propertyIsEnumerable.call(f, own[k])) enumown.push(own[k]);
    var d = Object.getOwnPropertyDescriptor(f, own[k]);
    if (d === undefined) refl = "no descriptor for own name " + own[k];
    else if (typeof d.enumerable !== "boolean" || typeof d.configurable !== "boolean") refl = "incomplete descriptor for " + own[k];
    else if (("get" in d || "set" in d) === ("value" in d || "writable" in d)) refl = "descriptor of " + own[k] + " is neither data nor accessor";
  }
  for (k in f) fi.push(k);
  r.missing = missing; r.enumown = SORTED(enumown); r.forin = SORTED(fi); r.reflect = refl;
  if (mask.indexOf(" call ") >= 0) r.call = "n/a";
  else { try { var v = f("x", "y"); r.call = typeof v === "string" ? v : "a " + typeof v; } catch (x) { r.call = "throws " + ((x instanceof Error) ? x.name : "value"); } }
  if (mask.indexOf(" new ") >= 0) r["new"] = "n/a";
  else {
    try { var o = new f("x"); r["new"] = (ISOBJ(B.prototype) && Object.getPrototypeOf(o) === B.prototype) ? "base" : "an object whose [[Prototype]] is " + PATHOF(Object.getPrototypeOf(o)); }
    catch (x2) { r["new"] = (x2 instanceof Error) ? x2.name : "value"; }
  }
  return $stringify(r);
}

function OBSLINE(text){
  var l = $parse(text), r;
  if (l.k === "obj") r = OBSOBJ(l);
  else if (l.k === "row") r = OBSROW(l.owner, l.name, l.exp);
  else if (l.k === "call") r = CALLRES(REG[l.id], l.call);
  else r = FORIN(l.js, l.id, l.mut === true);
  return $stringify(r);
}

// judge direction: every own property of every object of the table, and of the objects the implementation
// hangs on library objects beyond the table (registered on discovery as owner.name), raw (unmasked)
function WALK(listedIds, instIds, noReflect, preNames){
  // noReflect: {id: [names of the table]} for the objects whose additional properties cannot be reflected
  var listed = {}, inst = {}, unl = {}, evs = [], i;
  for (i = 0; i < listedIds.length; i++) listed[listedIds[i]] = true;
  for (i = 0; i < instIds.length; i++) inst[instIds[i]] = true;
  var queue = REGIDS.slice();
  for (var q = 0; q < queue.length; q++) {
    var id = queue[q], o = REG[id], isl = listed[id] === true;
    if (!ISOBJ(o)) { evs.push({ev:"obj", id:id, listed:isl, fn:false, host:false, obs:{ty:typeof o, cls:"", proto:"", ext:false}}); continue; }
    var isfn = typeof o === "function", host = !isl && !isfn;
    if (!isl && id.indexOf("global.") === 0 && id.split(".").length > 2 && !isfn) continue;   // not below a host object's objects
    evs.push({ev:"obj", id:id, listed:isl, fn:isfn, host:host,
              obs:{ty:typeof o, cls:CLS(o), proto:PATHOF(Object.getPrototypeOf(o)), ext:Object.isExtensible(o)}});
    var names = Object.getOwnPropertyNames(o);
    for (var j = 0; j < names.length; j++) {
      var n = names[j], sk = false, keep = noReflect[id];
      if (keep !== undefined) { sk = true; for (var k = 0; k < keep.length; k++) if (keep[k] === n) sk = false; }
      var en = Object.prototype.propertyIsEnumerable.call(o, n), obs;
      if (sk) obs = {own:"unreflected", attrs:[], ty:"", val:{t:"none"}};
      else {
        var d = Object.getOwnPropertyDescriptor(o, n);
        // discover: an unregistered object hanging on a library object (not on an instance); on the global object
        // only host objects that were there before the harness loaded its helpers (console)
        var disc = (isl || (host && id.indexOf("global.") === 0)) && inst[id] !== true && d !== undefined && ISOBJ(d.value) && PATHOF(d.value) === "?";
        if (disc && id === "global") {
          disc = false;
          if (typeof d.value === "object") for (var pn = 0; pn < preNames.length; pn++) if (preNames[pn] === n) disc = true;
        }
        if (disc) {
          var nid = id + "." + n; REG[nid] = d.value; REGIDS.push(nid); queue.push(nid);
        }
        obs = OBSROW(id, n, null);
        if (obs.attrs === undefined) obs = {own:obs.own, attrs:[], ty:"", val:{t:"none"}};
      }
      evs.push({ev:"prop", o:id, listed:isl, fn:isfn, host:host, n:n, e:en, obs:obs});
    }
  }
  return $stringify(evs);
}

// the complete shape of everything reachable from the global object: objects numbered in order of
// discovery; per object typeof, [[Class]], [[Prototype]], [[Extensible]], own properties in the order of
// Object.getOwnPropertyNames with attributes and value (primitive text or object number)
function DUMP(skip){
  skip = skip || [];
  var objs = [GLOBAL], out = [];
  function idOf(v){
    for (var i = 0; i < objs.length; i++) if (objs[i] === v) return i;
    objs.push(v); return objs.length - 1;
  }
  function show(v){
    if (ISOBJ(v)) return "#" + idOf(v);
    if (typeof v === "number") return "n:" + S(v);
    if (typeof v === "string") return "s:" + $stringify(v);
    return String(v);
  }
  for (var n = 0; n < objs.length; n++) {
    var o = objs[n], p = Object.getPrototypeOf(o);
    var head = n + " " + typeof o + " " + CLS(o) + " proto=" + (p === null ? "null" : "#" + idOf(p)) + " ext=" + Object.isExtensible(o);
    if (typeof o === "function") { var src = Function.prototype.toString.call(o); head += " src=" + (src.length > 60 ? src.length + ":" + src.substring(0, 60) : src); }
    out.push(head);
    var names = Object.getOwnPropertyNames(o);
    for (var i = 0; i < names.length; i++) {
      var sk = false;
      for (var q = 0; q < skip.length; q++) if (skip[q] === names[i]) sk = true;
      if (sk) { out.push("  " + $stringify(names[i]) + " (not reflected) e=" + Object.prototype.propertyIsEnumerable.call(o, names[i])); continue; }
      var d = Object.getOwnPropertyDescriptor(o, names[i]);
      if ("get" in d || "set" in d)
        out.push("  " + $stringify(names[i]) + " acc " + ATTR(d.enumerable) + ATTR(d.configurable) + " get=" + show(d.get) + " set=" + show(d.set));
      else
        out.push("  " + $stringify(names[i]) + " " + ATTR(d.writable) + ATTR(d.enumerable) + ATTR(d.configurable) + " " + show(d.value));
    }
  }
  return out.join("\n");
}
`
