package c14

// Prelude is the JavaScript side: it evaluates a line of spec/C14.tla as a
// reflection query and projects the answer into the JSON shape of the expected
// observation.  It computes no expectation.
const Prelude = `
var GLOBAL = this;
var REG = {}, REGIDS = [], XTRA = {};
function S(x){ return x === 0 ? (1/x < 0 ? "-0" : "0") : String(x); }
function T(f){ try { f(); return "no"; } catch (e) { return (e instanceof Error) ? e.name : "value"; } }
function CLS(x){ var s = Object.prototype.toString.call(x); return s.substring(8, s.length-1); }
// a number reduced to what ES5 fixes: special values and integers verbatim, anything else to its sign
function Q(x){
  if (typeof x !== "number") return "?" + typeof x;
  if (x !== x) return "NaN";
  if (x === 0) return 1/x < 0 ? "-0" : "0";
  if (x === Infinity) return "Inf";
  if (x === -Infinity) return "-Inf";
  if (x % 1 === 0) return String(x);
  return x > 0 ? "+" : "-";
}
function MV(F){
  var xs = [-0, 1, -1, Infinity, -Infinity, 0.5, -0.5, 2.25], r = [];
  for (var i = 0; i < xs.length; i++) r.push(Q(F(xs[i])));
  return r.join(",");
}
function ISOBJ(v){ return v !== null && (typeof v === "object" || typeof v === "function"); }
function PATHOF(v){
  if (v === null) return "null";
  for (var i = 0; i < REGIDS.length; i++) if (REG[REGIDS[i]] === v) return REGIDS[i];
  return "?";
}
function REGISTER(id, js, vo, vn){
  var v;
  try { v = js !== "" ? (0,eval)(js) : REG[vo][vn]; } catch (e) { v = undefined; }
  REG[id] = v; REGIDS.push(id);
  return typeof v;
}
function ENCP(v){ return ISOBJ(v) ? {t:"ref", id:PATHOF(v)} : ENC(v); }
function ATTR(b){ return b === true ? "T" : (b === false ? "F" : "!"); }
function SAMEV(a, b){ return a === b ? (a !== 0 || 1/a === 1/b) : (a !== a && b !== b); }

// an own property through Object.getOwnPropertyDescriptor, cross-checked with hasOwnProperty,
// propertyIsEnumerable and [[Get]]
function OBSROW(owner, name, exp){
  var o = REG[owner];
  if (!ISOBJ(o)) return {own:"owner is " + typeof o};
  var d = Object.getOwnPropertyDescriptor(o, name);
  var hop = Object.prototype.hasOwnProperty.call(o, name);
  if (d === undefined) {
    if (hop) return {own:"hasOwnProperty disagrees"};
    return {own:"none", attrs:[], ty:"undefined", val:{t:"none"}};
  }
  if (!hop) return {own:"hasOwnProperty disagrees"};
  if (Object.prototype.propertyIsEnumerable.call(o, name) !== d.enumerable) return {own:"propertyIsEnumerable disagrees"};
  if ("get" in d || "set" in d)
    return {own:"acc", attrs:["-", ATTR(d.enumerable), ATTR(d.configurable)], ty:"accessor", val:{t:"acc", get:ENCP(d.get), set:ENCP(d.set)}};
  var v = d.value, a = [ATTR(d.writable), ATTR(d.enumerable), ATTR(d.configurable)];
  if (!SAMEV(o[name], v)) return {own:"[[Get]] disagrees with the descriptor"};
  var ea = (exp && exp.attrs) || [];
  for (var i = 0; i < 3; i++) if (ea[i] === "?") a[i] = "?";       // attribute ES5 leaves open
  var anyv = exp && exp.val && exp.val.t === "any";                 // value ES5 leaves open: type only
  return {own:"data", attrs:a, ty:typeof v, val: anyv ? {t:"any"} : ENCP(v)};
}

function CALLRES(F, src){
  var v;
  try { v = (function(F, src){ return eval(src); })(F, src); }
  catch (e) { return {t:"throw", name:(e instanceof Error) ? e.name : "value"}; }
  return ISOBJ(v) ? {t:"obj"} : ENC(v);
}
function CALLON(id, src){ return JSON.stringify(CALLRES(REG[id], src)); }

function OBSOBJ(l){
  var o = REG[l.id];
  if (!ISOBJ(o)) return {ty:typeof o, cls:"", proto:"", ext:false, missing:l.names, enumextra:[], call:[]};
  var own = Object.getOwnPropertyNames(o), missing = [], enumextra = [], extra = [];
  for (var i = 0; i < l.names.length; i++)
    if (!Object.prototype.hasOwnProperty.call(o, l.names[i])) missing.push(l.names[i]);
  for (var j = 0; j < own.length; j++) {
    var known = false;
    for (var k = 0; k < l.names.length; k++) if (l.names[k] === own[j]) known = true;
    if (known) continue;
    var d = Object.getOwnPropertyDescriptor(o, own[j]);
    extra.push(own[j] + (d.enumerable ? "(enumerable)" : ""));
    if (d.enumerable) enumextra.push(own[j]);
  }
  if (extra.length && l.grp !== "inst") XTRA[l.id] = extra;
  enumextra.sort();
  return {ty:typeof o,
          cls: l.mask.cls ? CLS(o) : "?",
          proto: l.mask.proto ? PATHOF(Object.getPrototypeOf(o)) : "?",
          ext: Object.isExtensible(o),
          missing: missing,
          enumextra: l.mask.enumextra ? enumextra : [],
          call: l.call === "" ? [] : [CALLRES(o, l.call)]};
}
function EXTRAS(){ return JSON.stringify(XTRA); }

function FORIN(js){
  var o = (0,eval)(js), r = [];
  for (var k in o) r.push(k);
  r.sort();
  return r;
}

function OBSLINE(text){
  var l = JSON.parse(text), r;
  if (l.k === "obj") r = OBSOBJ(l);
  else if (l.k === "row") r = OBSROW(l.owner, l.name, l.exp);
  else r = FORIN(l.js);
  return JSON.stringify(r);
}

// the complete shape of everything reachable from the global object: objects numbered in order of
// discovery; per object typeof, [[Class]], [[Prototype]], [[Extensible]], own properties in the order of
// Object.getOwnPropertyNames with attributes and value (primitive text or object number)
function DUMP(){
  var objs = [GLOBAL], out = [];
  function idOf(v){
    for (var i = 0; i < objs.length; i++) if (objs[i] === v) return i;
    objs.push(v); return objs.length - 1;
  }
  function show(v){
    if (ISOBJ(v)) return "#" + idOf(v);
    if (typeof v === "number") return "n:" + S(v);
    if (typeof v === "string") return "s:" + JSON.stringify(v);
    return String(v);
  }
  for (var n = 0; n < objs.length; n++) {
    var o = objs[n], p = Object.getPrototypeOf(o);
    var head = n + " " + typeof o + " " + CLS(o) + " proto=" + (p === null ? "null" : "#" + idOf(p)) + " ext=" + Object.isExtensible(o);
    if (typeof o === "function") { var src = Function.prototype.toString.call(o); head += " src=" + (src.length > 60 ? src.length + ":" + src.substring(0, 60) : src); }
    out.push(head);
    var names = Object.getOwnPropertyNames(o);
    for (var i = 0; i < names.length; i++) {
      var d = Object.getOwnPropertyDescriptor(o, names[i]);
      if ("get" in d || "set" in d)
        out.push("  " + JSON.stringify(names[i]) + " acc " + ATTR(d.enumerable) + ATTR(d.configurable) + " get=" + show(d.get) + " set=" + show(d.set));
      else
        out.push("  " + JSON.stringify(names[i]) + " " + ATTR(d.writable) + ATTR(d.enumerable) + ATTR(d.configurable) + " " + show(d.value));
    }
  }
  return out.join("\n");
}
`
