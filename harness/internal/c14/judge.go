package c14

import "verif/harness/internal/core"

func runJudge(c *core.Ctx) (map[string]any, error) { return nil, nil }
