package c14

import (
	"bytes"
	"encoding/json"
	"fmt"
	"sort"
	"strings"
	"time"

	"verif/harness/internal/core"
	"verif/harness/internal/tlc"
)

// walk records every own property of every library object of a configuration.
func walk(cfg Config, lines []*Line) ([]map[string]any, error) {
	s, err := open(cfg, lines)
	if err != nil {
		return nil, err
	}
	var listed, inst []string
	for _, l := range lines {
		if l.K == "obj" {
			listed = append(listed, l.ID)
			if l.Grp == "inst" {
				inst = append(inst, l.ID)
			}
		}
	}
	out, err := s.call("WALK", listed, inst, map[string]any{}, s.pre)
	if err != nil && strings.HasPrefix(err.Error(), "GO PANIC") {
		// finding D14_gopd_panics_on_internal_accessor: on the objects for which the deviating specification
		// expects the panic, the properties outside the table are recorded without descriptor
		if s, err = open(cfg, lines); err != nil {
			return nil, err
		}
		no := map[string]any{}
		for _, l := range lines {
			if l.K == "obj" && len(l.Dev) > 0 {
				var d struct {
					Reflect string `json:"reflect"`
				}
				json.Unmarshal(l.Dev[0], &d)
				if d.Reflect == "go-panic" {
					names := make([]any, len(l.Names))
					for i, n := range l.Names {
						names[i] = n
					}
					no[l.ID] = names
				}
			}
		}
		out, err = s.call("WALK", listed, inst, no, s.pre)
	}
	if err != nil {
		return nil, err
	}
	var evs []map[string]any
	if err := json.Unmarshal([]byte(out), &evs); err != nil {
		return nil, fmt.Errorf("WALK output: %v", err)
	}
	for _, e := range evs {
		e["cfg"] = cfg.Name
	}
	return evs, nil
}

// runJudge: direction code -> specification (spec/C14Judge.tla).
func runJudge(c *core.Ctx, lines []*Line) (map[string]any, error) {
	cfgs := []Config{{Name: "fresh"}, {Name: "underscore", Underscore: true}, {Name: "copy-of-fresh", Copy: "before"}}
	if c.Thorough() {
		cfgs = append(cfgs, Config{Name: "copy-of-underscore", Underscore: true, Copy: "before"},
			Config{Name: "fresh-copied-with-registry", Copy: "after"}, Config{Name: "copy-of-copy-of-fresh", Copy: "twice"})
	}
	var all []map[string]any
	perCfg := map[string]int{}
	for _, cf := range cfgs {
		evs, err := walk(cf, lines)
		if err != nil {
			return nil, fmt.Errorf("walk of %s: %v", cf.Name, err)
		}
		// the walk is deterministic: a second runtime of the configuration gives the same record
		evs2, err := walk(cf, lines)
		if err != nil {
			return nil, err
		}
		a, _ := json.Marshal(evs)
		b, _ := json.Marshal(evs2)
		if !bytes.Equal(a, b) {
			c.Violate(fmt.Sprintf("two runtimes of configuration %s give different library walks", cf.Name), map[string]any{"config": cf})
		}
		perCfg[cf.Name] = len(evs)
		all = append(all, evs...)
	}
	// binding self-test of the judge: corrupted copies of accepted records (configuration "selftest") must be rejected
	nSelf := 0
	for _, e := range all {
		if e["cfg"] != "fresh" {
			continue
		}
		cp := func(mut func(m map[string]any)) {
			b, _ := json.Marshal(e)
			var m map[string]any
			json.Unmarshal(b, &m)
			m["cfg"] = "selftest"
			mut(m)
			all = append(all, m)
			nSelf++
		}
		switch {
		case e["ev"] == "prop" && e["o"] == "Array.prototype" && e["n"] == "push":
			cp(func(m map[string]any) { m["obs"].(map[string]any)["attrs"] = []any{"T", "T", "T"}; m["e"] = true }) // enumerable method
			cp(func(m map[string]any) { m["n"] = "addition"; m["e"] = true })                                       // enumerable addition to a prototype
		case e["ev"] == "prop" && e["o"] == "Math.trunc" && e["n"] == "length":
			cp(func(m map[string]any) { m["obs"].(map[string]any)["attrs"] = []any{"T", "F", "T"} }) // writable length of an unlisted function
		case e["ev"] == "obj" && e["id"] == "Math.trunc":
			cp(func(m map[string]any) { m["obs"].(map[string]any)["proto"] = "Object.prototype" })
		case e["ev"] == "obj" && e["id"] == "JSON":
			cp(func(m map[string]any) { m["obs"].(map[string]any)["cls"] = "Object" })
		}
	}
	var buf bytes.Buffer
	for _, e := range all {
		b, err := json.Marshal(e)
		if err != nil {
			return nil, err
		}
		buf.Write(b)
		buf.WriteByte('\n')
	}
	type verdict struct {
		I         int             `json:"i"`
		V         string          `json:"v"`
		Rule      string          `json:"rule"`
		Want      json.RawMessage `json:"want"`
		Ev        json.RawMessage `json:"ev"`
		Cfg       string          `json:"cfg"`
		Unseen    [][]string      `json:"unseen"`
		UnseenDev [][]string      `json:"unseen_dev"`
		Seen      int             `json:"seen"`
	}
	var vs []verdict
	var perr error
	res, err := tlc.Run(tlc.Opts{SpecDir: c.SpecDir, Module: "C14Judge", Cfg: cfgText(c, false), Workers: c.Workers, Timeout: 10 * time.Minute,
		Files: map[string][]byte{"trace.ndjson": buf.Bytes()}},
		func(p []byte) {
			var v verdict
			if e := json.Unmarshal(p, &v); e != nil && perr == nil {
				perr = fmt.Errorf("bad verdict line: %v: %s", e, p[:min(len(p), 300)])
			}
			vs = append(vs, v)
		})
	if err != nil {
		return nil, err
	}
	if perr != nil {
		return nil, perr
	}
	sort.Slice(vs, func(i, j int) bool { return vs[i].I < vs[j].I })
	nDev, nBad, nComplete, nSelfRejected := 0, 0, 0, 0
	var devAt []string
	for _, v := range vs {
		var evc struct {
			Cfg string
		}
		json.Unmarshal(v.Ev, &evc)
		if evc.Cfg == "selftest" || v.Cfg == "selftest" {
			if v.V == "bad" && v.Cfg == "" {
				nSelfRejected++
			}
			continue
		}
		switch v.V {
		case "dev":
			nDev++
			c.Hit("judge: deviation")
			var ev struct {
				Cfg, O, N, ID string
			}
			json.Unmarshal(v.Ev, &ev)
			if ev.Cfg == "fresh" {
				devAt = append(devAt, strings.TrimSuffix(ev.O+ev.ID+" . "+ev.N, " . "))
			}
		case "complete":
			nComplete++
			nDev += len(v.UnseenDev)
		case "bad":
			nBad++
			if v.Cfg != "" {
				c.Violate(fmt.Sprintf("[judge, %s] properties of the ES5 table that the runtime does not have: %v", v.Cfg, v.Unseen),
					map[string]any{"config": v.Cfg, "unseen": v.Unseen})
			} else {
				c.Violate(fmt.Sprintf("[judge] %s: recorded %s ; specification %s", v.Rule, trunc(string(v.Ev), 400), trunc(string(v.Want), 300)),
					map[string]any{"record": v.Ev, "rule": v.Rule, "expected": v.Want})
			}
		default:
			return nil, fmt.Errorf("unknown verdict %q", v.V)
		}
	}
	if nComplete+0 != len(cfgs) && nBad == 0 {
		return nil, fmt.Errorf("judge: %d completeness verdicts for %d configurations", nComplete, len(cfgs))
	}
	if nSelf < 4 || nSelfRejected != nSelf {
		return nil, fmt.Errorf("judge self-test: %d of %d corrupted records were rejected", nSelfRejected, nSelf)
	}
	return map[string]any{"records_judged": len(all) - nSelf, "selftest_corrupted_records_rejected": nSelfRejected, "records_per_configuration": perCfg, "accepted_under_known_deviation": nDev,
		"rejected": nBad, "deviations_seen_on_fresh": devAt,
		"tlc": map[string]any{"generated": res.Generated, "distinct": res.Distinct, "wall_s": res.Wall}}, nil
}
