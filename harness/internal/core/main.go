package core

import (
	"fmt"
	"os"
)

// CheckFn is a property check: it returns the coverage map and assumptions
// for the evidence file; violations are recorded on the context.
type CheckFn func(*Ctx) (map[string]any, []string, error)

// Main is the body of every cmd/<id>/main.go: <bin> [quick|thorough]
func Main(prop string, fn CheckFn) {
	tier := "quick"
	if len(os.Args) > 1 {
		tier = os.Args[1]
	} else if t := os.Getenv("VERIF_TIER"); t != "" {
		tier = t
	}
	if tier != "quick" && tier != "thorough" {
		fmt.Println("usage: <check> [quick|thorough]")
		os.Exit(2)
	}
	c, err := NewCtx(prop, tier)
	if err != nil {
		fmt.Println("CHECK-ERROR (not a verdict): setup:", err)
		os.Exit(2)
	}
	RunWitnesses(c)
	if os.Getenv("VERIF_WITNESS_ONLY") != "" {
		os.Exit(0) // maintenance aid: only report which open findings still reproduce
	}
	cov, assumptions, err := fn(c)
	if err != nil {
		if n := len(c.Violations()); n > 0 {
			// violations confirmed on the real code are the verdict, even when a later stage
			// (e.g. a self-test that presupposes a conforming tree) could not complete
			c.Note("check stopped early after recording violations: %v", err)
			cov = map[string]any{"states": 1, "transitions": 1, "traces_validated_against_impl": n,
				"samples": []any{"run stopped early: " + err.Error()}}
			os.Exit(c.Finish(cov, assumptions))
		}
		fmt.Println("CHECK-ERROR (not a verdict):", err)
		os.Exit(2)
	}
	os.Exit(c.Finish(cov, assumptions))
}
