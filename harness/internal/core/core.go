// Package core holds what every property driver shares: the run context,
// known-findings handling, violation reporting and the evidence file.
package core

import (
	"crypto/sha1"
	"encoding/hex"
	"encoding/json"
	"fmt"
	"os"
	"path/filepath"
	"runtime"
	"sort"
	"strconv"
	"strings"
	"sync"
	"time"
)

const Root = "/verif"

// Finding is one entry of /verif/known_findings.json.
type Finding struct {
	ID       string `json:"id"`
	Property string `json:"property"`
	Status   string `json:"status"` // "open" or "fixed"
	Site     string `json:"site"`
	Clause   string `json:"clause"`
	What     string `json:"what"`
	Commit   string `json:"commit,omitempty"`
	// Witness: a script whose String() result shows the finding.
	WitnessJS   string `json:"witness_js,omitempty"`
	WitnessOtto string `json:"witness_otto,omitempty"` // what the pinned tree answers
	WitnessES5  string `json:"witness_es5,omitempty"`  // what ES5 requires
	WitnessGo   string `json:"witness_go,omitempty"`   // name of a Go-side witness instead of a script
}

type FindingsFile struct {
	Findings []Finding `json:"findings"`
}

// LoadFindings reads known_findings.json and every known_findings.d/*.json
// (same format; one file per property keeps concurrent edits apart).
func LoadFindings() (*FindingsFile, error) {
	var all FindingsFile
	files := []string{filepath.Join(Root, "known_findings.json")}
	more, _ := filepath.Glob(filepath.Join(Root, "known_findings.d", "*.json"))
	sort.Strings(more)
	files = append(files, more...)
	for _, p := range files {
		b, err := os.ReadFile(p)
		if err != nil {
			return nil, err
		}
		var f FindingsFile
		if err := json.Unmarshal(b, &f); err != nil {
			return nil, fmt.Errorf("%s: %v", p, err)
		}
		all.Findings = append(all.Findings, f.Findings...)
	}
	return &all, nil
}

// OpenIDs returns the ids of all open findings (the constant Dev of the
// deviating instance of the specification).
func (f *FindingsFile) OpenIDs() []string {
	var r []string
	for _, x := range f.Findings {
		if x.Status == "open" {
			r = append(r, x.ID)
		}
	}
	sort.Strings(r)
	return r
}

func (f *FindingsFile) OpenFor(prop string) []Finding {
	var r []Finding
	for _, x := range f.Findings {
		if x.Status == "open" && x.Property == prop {
			r = append(r, x)
		}
	}
	return r
}

// TLASet renders ids as a TLA+ set of strings.
func TLASet(ids []string) string {
	q := make([]string, len(ids))
	for i, s := range ids {
		q[i] = strconv.Quote(s)
	}
	return "{" + strings.Join(q, ", ") + "}"
}

// Ctx is the context of one check run.
type Ctx struct {
	Property string
	Tier     string // quick | thorough
	Seed     int64
	SpecDir  string
	Workers  int
	Findings *FindingsFile
	Start    time.Time

	mu         sync.Mutex
	violations []Violation
	notes      []string
	KnownHits  map[string]int64 // deviation id (or "dev") -> conforming-to-deviation cases
}

type Violation struct {
	Detail string
	Replay any
	Path   string
}

func NewCtx(prop, tier string) (*Ctx, error) {
	seed := int64(1)
	if s := os.Getenv("VERIF_SEED"); s != "" {
		if v, err := strconv.ParseInt(s, 10, 64); err == nil {
			seed = v
		}
	}
	ff, err := LoadFindings()
	if err != nil {
		return nil, err
	}
	w := runtime.NumCPU()
	return &Ctx{Property: prop, Tier: tier, Seed: seed, SpecDir: filepath.Join(Root, "spec"), Workers: w,
		Findings: ff, Start: time.Now(), KnownHits: map[string]int64{}}, nil
}

func (c *Ctx) Thorough() bool { return c.Tier == "thorough" }

// Violate records a violation (already reproduced by the caller) and writes
// its replay file. At most 20 replay files are kept per run.
func (c *Ctx) Violate(detail string, replay any) {
	c.mu.Lock()
	defer c.mu.Unlock()
	v := Violation{Detail: detail, Replay: replay}
	if len(c.violations) < 20 {
		b, _ := json.MarshalIndent(map[string]any{"property": c.Property, "detail": detail, "replay": replay}, "", " ")
		h := sha1.Sum(b)
		dir := filepath.Join(Root, "replays", c.Property)
		os.MkdirAll(dir, 0o755)
		v.Path = filepath.Join(dir, hex.EncodeToString(h[:6])+".json")
		os.WriteFile(v.Path, b, 0o644)
	}
	c.violations = append(c.violations, v)
	if p := os.Getenv("VERIF_DEBUG_DUMP"); p != "" {
		if f, err := os.OpenFile(p, os.O_APPEND|os.O_CREATE|os.O_WRONLY, 0o644); err == nil {
			b, _ := json.Marshal(map[string]any{"detail": detail, "replay": replay})
			f.Write(append(b, '\n'))
			f.Close()
		}
	}
}

func (c *Ctx) Hit(id string) {
	c.mu.Lock()
	c.KnownHits[id]++
	c.mu.Unlock()
}

func (c *Ctx) Note(format string, a ...any) {
	c.mu.Lock()
	c.notes = append(c.notes, fmt.Sprintf(format, a...))
	c.mu.Unlock()
}

func (c *Ctx) Violations() []Violation { return c.violations }

// Evidence is the file written on every run (EVIDENCE.schema.json).
type Evidence struct {
	PropertyID  string         `json:"property_id"`
	Tier        string         `json:"tier"`
	Seed        int64          `json:"seed"`
	Level       string         `json:"level"`
	Coverage    map[string]any `json:"coverage"`
	Assumptions []string       `json:"assumptions"`
	WallS       float64        `json:"wall_s"`
	Violations  int            `json:"violations"`
	Notes       []string       `json:"notes,omitempty"`
	KnownHits   map[string]int64 `json:"known_finding_hits,omitempty"`
}

// Finish prints verdict lines, writes evidence and returns the exit code.
func (c *Ctx) Finish(cov map[string]any, assumptions []string) int {
	ev := Evidence{PropertyID: c.Property, Tier: c.Tier, Seed: c.Seed, Level: "model_checking", Coverage: cov,
		Assumptions: assumptions, WallS: time.Since(c.Start).Seconds(), Violations: len(c.violations),
		Notes: c.notes, KnownHits: c.KnownHits}
	b, _ := json.MarshalIndent(ev, "", " ")
	evDir := filepath.Join(Root, "evidence")
	if os.Getenv("VERIF_REPO") != "" {
		// development runs against another checkout (seeded changes) must not overwrite the evidence of /repo
		evDir = filepath.Join(Root, ".build", "evidence-scratch")
	}
	os.MkdirAll(evDir, 0o755)
	if err := os.WriteFile(filepath.Join(evDir, c.Property+".json"), b, 0o644); err != nil {
		fmt.Println("cannot write evidence:", err)
		return 2
	}
	for i, v := range c.violations {
		if i >= 20 {
			fmt.Printf("... %d more violations\n", len(c.violations)-20)
			break
		}
		d := v.Detail
		if len(d) > 400 {
			d = d[:400] + "..."
		}
		fmt.Printf("VIOLATION property=%s replay=%s\n  %s\n", c.Property, v.Path, d)
	}
	if len(c.violations) > 0 {
		return 1
	}
	fmt.Printf("OK property=%s tier=%s seed=%d wall=%.1fs\n", c.Property, c.Tier, c.Seed, ev.WallS)
	return 0
}
