package core

import (
	"fmt"
	"os"

	"github.com/robertkrimen/otto"
)

// GoWitnesses are Go-side reproductions of findings that a script cannot show.
var GoWitnesses = map[string]func() (string, error){}

// RunWitnesses executes the witness of every open finding of the property and
// prints the KNOWN-FINDING line for those that still reproduce.
func RunWitnesses(c *Ctx) {
	for _, f := range c.Findings.OpenFor(c.Property) {
		got, err := runWitness(f)
		if os.Getenv("VERIF_WITNESS_ONLY") != "" {
			state := "other"
			if err == nil && got == f.WitnessOtto {
				state = "reproduces"
			} else if err == nil && got == f.WitnessES5 {
				state = "conforms"
			}
			fmt.Printf("WITNESS %s %s %q\n", f.ID, state, got)
			continue
		}
		switch {
		case err != nil:
			c.Note("finding %s: witness could not run: %v", f.ID, err)
		case got == f.WitnessOtto:
			fmt.Printf("KNOWN-FINDING: property=%s %s: %s (witness %q gives %q, ES5 requires %q; %s)\n", c.Property, f.ID, f.What, f.WitnessJS+f.WitnessGo, got, f.WitnessES5, f.Site)
		case got == f.WitnessES5:
			c.Note("finding %s no longer reproduces (witness now conforms)", f.ID)
		default:
			c.Note("finding %s: witness gives %q (neither the listed deviation %q nor ES5 %q)", f.ID, got, f.WitnessOtto, f.WitnessES5)
		}
	}
}

func runWitness(f Finding) (res string, err error) {
	defer func() {
		if r := recover(); r != nil {
			res, err = fmt.Sprintf("GO PANIC: %v", r), nil
		}
	}()
	if f.WitnessGo != "" {
		w, ok := GoWitnesses[f.WitnessGo]
		if !ok {
			return "", fmt.Errorf("no Go witness %q", f.WitnessGo)
		}
		return w()
	}
	vm := otto.New()
	v, e := vm.Run(f.WitnessJS)
	if e != nil {
		return "throws " + e.Error(), nil
	}
	return v.String(), nil
}
