// Package scen holds the targeted copy/mutate/observe behaviours of property C17.
package scen

import (
	"math/rand"

	. "verif/harness/internal/c01"
)

// Targeted behaviours: one (history, mutation, observation) family per kind of
// reference the copy has to remap or duplicate.  Every family has random
// variants; mutations and observations address exactly that kind.

func hc(args ...N) N              { return Expr(Call(Id("H"), args...)) }
func od(name string, args ...N) N { return Call(Dot(Id("Object"), name), args...) }
func one(r *rand.Rand, xs ...N) N { return xs[r.Intn(len(xs))] }
func some(r *rand.Rand, xs ...N) []N {
	out := []N{}
	for _, x := range xs {
		if r.Intn(100) < 60 {
			out = append(out, x)
		}
	}
	if len(out) == 0 {
		out = append(out, xs[r.Intn(len(xs))])
	}
	return out
}

// Families is the number of targeted families.
const Families = 21

// Scenario returns a (history, mutation, observation) triple of a random family.
func Scenario(r *rand.Rand) (h, m, q []N) { return ScenarioOf(r.Intn(Families), r) }

// ScenarioOf returns a random variant of the given family.
func ScenarioOf(family int, r *rand.Rand) (h, m, q []N) {
	base := []N{Var("a", Num(1)), Var("b", Str("s")), Var("c", nil), Var("n", Num(0))}
	switch family {
	case 0: // accessor properties: getter/setter functions are objects of the heap
		acc := Obj()
		if r.Intn(3) != 0 {
			acc = Obj("set", Fn("", []string{"x"}, Expr(Asg("=", Dot(This(), "_v"), Id("x"))), hc(Str("set"), Id("x"))))
		}
		if r.Intn(2) == 0 {
			acc["pr"] = append(acc["pr"].([]N), Obj("get", Fn("", nil, Return(Bin("+", Str("got:"), Dot(This(), "_v")))))["pr"].([]N)...)
		}
		acc["pr"] = append(acc["pr"].([]N), Obj("configurable", Bool(true), "enumerable", Bool(r.Intn(2) == 0))["pr"].([]N)...)
		h = []N{Var("o", Obj("_v", Num(0))), Expr(od("defineProperty", Id("o"), Str("v"), acc))}
		m = some(r, Expr(Asg("=", Dot(Id("o"), "v"), Num(7))), Expr(od("defineProperty", Id("o"), Str("v"), Obj("get", Fn("", nil, Return(Str("new")))))), Expr(Un("delete", Dot(Id("o"), "v"))))
		q = []N{Var("d", od("getOwnPropertyDescriptor", Id("o"), Str("v"))),
			hc(Un("typeof", Id("d")), Cond(Id("d"), Un("typeof", Dot(Id("d"), "set")), Num(0)), Cond(Id("d"), Un("typeof", Dot(Id("d"), "get")), Num(0))),
			Expr(Asg("=", Dot(Id("o"), "v"), Num(8))), hc(Dot(Id("o"), "_v"), Dot(Id("o"), "v"))}
	case 1: // the name binding of a function expression refers to the function itself
		h = []N{Var("f", Fn("g", nil, Expr(Asg("=", Dot(Id("g"), "n"), Bin("+", Bin("||", Dot(Id("g"), "n"), Num(0)), Num(1)))), Return(Bin("===", Id("g"), Id("f")))))}
		m = some(r, Expr(Call(Id("f"))), Expr(Asg("=", Dot(Id("f"), "tag"), Str("m"))))
		q = []N{hc(Call(Id("f")), Dot(Id("f"), "n"), Dot(Id("f"), "tag"))}
	case 2: // bound functions: target, bound this, bound arguments
		h = []N{Var("box", Obj("n", Num(0))), Var("self", Obj("k", Num(1))),
			FDecl("inc", []string{"bx", "d"}, Expr(Asg("+", Dot(Id("bx"), "n"), Id("d"))), Return(Bin("+", Dot(Id("bx"), "n"), Bin("||", Dot(This(), "k"), Num(0))))),
			Var("bf", Call(Dot(Id("inc"), "bind"), one(r, Id("self"), Null()), Id("box")))}
		m = some(r, Expr(Call(Id("bf"), Num(5))), Expr(Asg("=", Dot(Id("self"), "k"), Num(100))), Expr(Asg("=", Dot(Id("box"), "n"), Num(50))))
		q = []N{hc(Call(Id("bf"), Num(5)), Dot(Id("box"), "n"), Dot(Id("self"), "k"))}
	case 3: // an arguments object that outlives its call stays tied to the parameters
		h = []N{Var("args", nil), Var("setX", nil), Var("getX", nil),
			FDecl("fa", []string{"x", "y"}, Expr(Asg("=", Id("args"), Id("arguments"))), Expr(Asg("=", Id("setX"), Fn("", []string{"v"}, Expr(Asg("=", Id("x"), Id("v")))))),
				Expr(Asg("=", Id("getX"), Fn("", nil, Return(Id("x")))))),
			Expr(Call(Id("fa"), Num(1), Num(2)))}
		m = some(r, Expr(Un("delete", Idx(Id("args"), Num(0)))), Expr(Call(Id("setX"), Num(9))), Expr(Asg("=", Idx(Id("args"), Num(0)), Num(5))), Expr(Asg("=", Idx(Id("args"), Num(1)), Num(6))))
		q = []N{hc(Idx(Id("args"), Num(0)), Call(Id("getX")), Bin("in", Str("0"), Id("args"))), Expr(Call(Id("setX"), Num(7))), hc(Idx(Id("args"), Num(0)), Idx(Id("args"), Num(1)), Dot(Id("args"), "length"))}
	case 4: // closures over mutable variables, shared between two functions
		h = []N{FDecl("mk", []string{"s"}, Var("cnt", Id("s")), Return(Obj("inc", Fn("", nil, Return(Upd("++", true, Id("cnt")))), "get", Fn("", nil, Return(Id("cnt")))))),
			Var("c1", Call(Id("mk"), Num(r.Intn(3)))), Var("c2", Call(Id("mk"), Num(10)))}
		m = some(r, Expr(Call(Dot(Id("c1"), "inc"))), Expr(Call(Dot(Id("c2"), "inc"))), Expr(Asg("=", Dot(Id("c1"), "get"), Dot(Id("c2"), "get"))))
		q = []N{hc(Call(Dot(Id("c1"), "get")), Call(Dot(Id("c2"), "get")), Call(Dot(Id("c1"), "inc")))}
	case 5: // prototype chains
		h = []N{FDecl("P", nil, Expr(Asg("=", Dot(This(), "own"), Num(1)))), Expr(Asg("=", Dot(Dot(Id("P"), "prototype"), "m"), Fn("", nil, Return(Num(1))))),
			Var("o", New(Id("P"))), Var("ch", od("create", Id("o")))}
		m = some(r, Expr(Asg("=", Dot(Dot(Id("P"), "prototype"), "m"), Fn("", nil, Return(Num(2))))), Expr(Asg("=", Dot(Id("P"), "prototype"), Obj("m", Fn("", nil, Return(Num(3)))))),
			Expr(Asg("=", Dot(Id("o"), "m"), Fn("", nil, Return(Num(4))))), Expr(Un("delete", Dot(Id("o"), "own"))))
		q = []N{hc(Call(Dot(Id("ch"), "m")), Bin("instanceof", Id("o"), Id("P")), Bin("===", od("getPrototypeOf", Id("o")), Dot(Id("P"), "prototype")), Dot(Id("ch"), "own"),
			Call(Dot(New(Id("P")), "m")))}
	case 6: // property order, attributes, extensibility
		h = []N{Var("o", Obj("b", Num(1), "a", Num(2))), Expr(od("defineProperty", Id("o"), Str("h"), Obj("value", Num(3), "enumerable", Bool(false), "configurable", Bool(r.Intn(2) == 0), "writable", Bool(r.Intn(2) == 0))))}
		lock := []string{"freeze", "seal", "preventExtensions"}[r.Intn(3)]
		m = some(r, Block(Expr(Un("delete", Dot(Id("o"), "b"))), Expr(Asg("=", Dot(Id("o"), "b"), Num(3)))), Expr(od(lock, Id("o"))),
			Expr(Asg("=", Dot(Id("o"), "z"), Num(9))), Expr(od("defineProperty", Id("o"), Str("a"), Obj("enumerable", Bool(false)))))
		q = []N{Var("ks", Str("")), ForIn(true, "k", Id("o"), Block(Expr(Asg("+", Id("ks"), Id("k"))))),
			hc(Id("ks"), Dot(od("keys", Id("o")), "length"), Dot(od("getOwnPropertyNames", Id("o")), "length"), od("isFrozen", Id("o")), od("isExtensible", Id("o"))),
			Expr(Asg("=", Dot(Id("o"), "a"), Num(9))), Expr(Asg("=", Dot(Id("o"), "h"), Num(9))), Expr(Asg("=", Dot(Id("o"), "fresh"), Num(1))), hc(Dot(Id("o"), "a"), Dot(Id("o"), "h"), Dot(Id("o"), "fresh"))}
	case 7: // a function created inside with keeps the object environment
		h = []N{Var("x", Str("gx")), Var("w", Obj("x", Num(1))), Var("fw", nil), With(Id("w"), Block(Expr(Asg("=", Id("fw"), Fn("", nil, Return(Id("x")))))))}
		m = some(r, Expr(Asg("=", Dot(Id("w"), "x"), Num(2))), Expr(Un("delete", Dot(Id("w"), "x"))), Expr(Asg("=", Id("x"), Str("gx2"))))
		q = []N{hc(Call(Id("fw")), Dot(Id("w"), "x"), Id("x"))}
	case 8: // modified built-ins
		h = []N{Expr(Asg("=", Dot(Dot(Id("TypeError"), "prototype"), "name"), Str("T2"))), Expr(Asg("=", Dot(Dot(Id("Object"), "prototype"), "extra"), Num(1)))}
		m = some(r, Expr(Asg("=", Dot(Dot(Id("TypeError"), "prototype"), "name"), Str("T3"))), Expr(Un("delete", Dot(Dot(Id("Object"), "prototype"), "extra"))),
			Expr(Asg("=", Dot(Dot(Id("Object"), "prototype"), "toString"), Fn("", nil, Return(Str("X"))))), Expr(Asg("=", Dot(Dot(Id("Error"), "prototype"), "message"), Str("dflt"))))
		q = []N{hc(Dot(New(Id("TypeError"), Str("m")), "name"), Dot(Obj(), "extra"), Bin("+", Str(""), Obj()), Dot(New(Id("Error")), "message"), Bin("+", Str(""), New(Id("RangeError"), Str("r"))))}
	case 9: // arrays
		h = []N{Var("arr", Arr(Num(1), Num(2), Num(3))), Var("alias", Id("arr"))}
		m = some(r, Expr(Asg("=", Dot(Id("arr"), "length"), Num(1))), Expr(Asg("=", Idx(Id("arr"), Num(5)), Num(6))), Expr(Asg("=", Dot(Id("arr"), "tag"), Str("t"))), Expr(Asg("=", Id("arr"), Arr())))
		q = []N{hc(Dot(Id("alias"), "length"), Idx(Id("alias"), Num(1)), Bin("in", Num(5), Id("alias")), Dot(Id("alias"), "tag"), Bin("===", Id("arr"), Id("alias")), Bin("+", Str(""), Id("alias")))}
	case 10: // global bindings
		h = []N{Var("g1", Num(1)), Expr(Asg("=", Id("implicit"), Num(2))), Expr(EvalCall(true, Var("ev", Num(3))))}
		m = some(r, Expr(Asg("=", Id("newGlobal"), Num(1))), Expr(Un("delete", Id("implicit"))), Expr(Un("delete", Id("ev"))), Expr(Asg("=", Id("g1"), Num(10))), FDecl("g1", nil, Return(Num(0))))
		q = []N{hc(Un("typeof", Id("newGlobal")), Un("typeof", Id("implicit")), Un("typeof", Id("ev")), Un("typeof", Id("g1")), Un("delete", Id("g1")))}
	case 11: // error objects and thrown values kept in variables
		h = []N{Var("er", nil), Try([]N{Expr(Call(Id("nope")))}, "e", []N{Expr(Asg("=", Id("er"), Id("e")))}, true, nil, false), Var("er2", New(Id("RangeError"), Str("mm")))}
		m = some(r, Expr(Asg("=", Dot(Id("er"), "name"), Str("Mine"))), Expr(Asg("=", Dot(Id("er2"), "message"), Str("changed"))), Expr(Asg("=", Dot(Id("er"), "extra"), Id("er2"))))
		q = []N{hc(Dot(Id("er"), "name"), Bin("instanceof", Id("er"), Id("ReferenceError")), Dot(Id("er2"), "message"), Bin("+", Str(""), Id("er2")), Un("typeof", Dot(Id("er"), "extra")))}
	case 13: // native error objects created AFTER the copy: each runtime has its own constructors and prototypes
		kinds := []string{"Error", "EvalError", "RangeError", "ReferenceError", "SyntaxError", "TypeError", "URIError"}
		k1 := kinds[r.Intn(len(kinds))]
		h = []N{Expr(Asg("=", Dot(Dot(Id(k1), "prototype"), "tag"), Str("h")))}
		k2 := kinds[r.Intn(len(kinds))]
		m = some(r, Expr(Asg("=", Dot(Dot(Id(k2), "prototype"), "tag"), Str("m"))), Expr(Asg("=", Dot(Dot(Id(k2), "prototype"), "name"), Str("Renamed"))),
			Expr(Asg("=", Dot(Dot(Id("Error"), "prototype"), "shared"), Num(1))))
		q = []N{}
		for _, k := range kinds {
			q = append(q, Var("e", New(Id(k), Str("m"))),
				hc(Str(k), Bin("instanceof", Id("e"), Id(k)), Bin("instanceof", Id("e"), Id("Error")), Bin("===", od("getPrototypeOf", Id("e")), Dot(Id(k), "prototype")),
					Dot(Id("e"), "name"), Bin("+", Str(""), Id("e")), Dot(Id("e"), "tag"), Dot(Id("e"), "shared")))
		}
		// errors raised by the interpreter itself
		q = append(q,
			Try([]N{Expr(Id("notDeclared"))}, "x", []N{hc(Bin("instanceof", Id("x"), Id("ReferenceError")), Bin("===", od("getPrototypeOf", Id("x")), Dot(Id("ReferenceError"), "prototype")), Dot(Id("x"), "tag"))}, true, nil, false),
			Try([]N{Expr(Dot(Null(), "p"))}, "x", []N{hc(Bin("instanceof", Id("x"), Id("TypeError")), Bin("===", od("getPrototypeOf", Id("x")), Dot(Id("TypeError"), "prototype")), Dot(Id("x"), "tag"))}, true, nil, false),
			Try([]N{Expr(Asg("=", Dot(Arr(), "length"), Num(-1)))}, "x", []N{hc(Bin("instanceof", Id("x"), Id("RangeError")), Bin("===", od("getPrototypeOf", Id("x")), Dot(Id("RangeError"), "prototype")), Dot(Id("x"), "tag"))}, true, nil, false))
	case 14: // several closures sharing ONE catch-clause environment (and a function nested in it)
		h = []N{Var("inc", nil), Var("get", nil), Var("deep", nil),
			Try([]N{Throw(Num(r.Intn(3)))}, "cv", []N{
				Expr(Asg("=", Id("inc"), Fn("", nil, Return(Upd("++", true, Id("cv")))))),
				Expr(Asg("=", Id("get"), Fn("", nil, Return(Id("cv"))))),
				Expr(Asg("=", Id("deep"), Call(Fn("", nil, Return(Fn("", []string{"v"}, Expr(Asg("=", Id("cv"), Id("v"))), Return(Id("cv")))))))),
			}, true, nil, false),
			Expr(Call(Id("inc")))}
		m = some(r, Expr(Call(Id("inc"))), Block(Expr(Call(Id("inc"))), Expr(Call(Id("inc")))), Expr(Call(Id("deep"), Num(40))))
		q = []N{hc(Call(Id("inc")), Call(Id("get")), Call(Id("deep"), Num(7)), Call(Id("get")), Call(Id("inc")))}
	case 15: // scopes without an arguments object, and the eval binding deleted or replaced before the copy
		h = []N{FDecl("fa", []string{"arguments"}, Return(Fn("", nil, Return(Bin("+", Str("p:"), Id("arguments")))))), Var("ga", Call(Id("fa"), Num(r.Intn(5))))}
		switch r.Intn(4) {
		case 0:
			h = append(h, Expr(Un("delete", Id("eval"))))
		case 1:
			h = append(h, Expr(Asg("=", Id("eval"), Num(1))))
		case 2:
			h = append(h, Var("keep", Id("eval")), Expr(Asg("=", Id("eval"), Fn("", []string{"s"}, Return(Str("fake"))))))
		}
		m = some(r, Expr(Asg("=", Id("ga"), Call(Id("fa"), Str("m")))), Expr(Asg("=", Id("eval"), Num(2))), Expr(Asg("=", Id("a"), Num(50))))
		q = []N{hc(Call(Id("ga")), Un("typeof", Id("eval")), Un("typeof", Id("keep"))),
			Cond(Bin("===", Un("typeof", Id("keep")), Str("function")), Call(Id("H"), EvalVia(Id("keep"), Expr(Id("a")))), Num(0)),
			Cond(Bin("===", Un("typeof", Id("eval")), Str("function")), Call(Id("H"), EvalVia(Id("eval"), Expr(Id("a")))), Num(0))}
		q = []N{q[0], Expr(q[1]), Expr(q[2]),
			// restore the built-in under its own name: calls by the name eval are direct evals again (15.1.2.1.1)
			hc(Call(Fn("", nil, Var("a", Str("local")),
				If(Bin("===", Un("typeof", Id("keep")), Str("function")), Block(Expr(Asg("=", Id("eval"), Id("keep"))), Return(EvalVia(Id("eval"), Expr(Id("a"))))), nil),
				Return(Str("no built-in kept")))))}
	case 16: // the single [[ThrowTypeError]] function of a runtime (13.2.3): bound functions made before and after the copy share it
		gd := func(o N, n string) N { return od("getOwnPropertyDescriptor", o, Str(n)) }
		h = []N{FDecl("tf", nil, Return(Num(1))), Var("b1", Call(Dot(Id("tf"), "bind"), Null())), Var("t1", Dot(gd(Id("b1"), "caller"), "get"))}
		if r.Intn(2) == 0 {
			// bind was used before the copy, but neither a bound function nor the thrower is reachable at copy time
			h = []N{FDecl("tf", nil, Return(Num(1))), Expr(Call(Dot(Id("tf"), "bind"), Null())), Var("b1", Id("tf")), Var("t1", nil)}
		}
		m = some(r, Var("bm", Call(Dot(Id("tf"), "bind"), Null())), Expr(Asg("=", Dot(Id("tf"), "tag"), Num(1))))
		q = []N{Var("b2", Call(Dot(Id("tf"), "bind"), Obj())),
			Var("t2", Dot(gd(Id("b2"), "caller"), "get")),
			hc(Bin("===", Bin("||", Id("t1"), Id("t2")), Id("t2")), Bin("===", Id("t2"), Dot(gd(Id("b2"), "arguments"), "set")),
				Bin("===", Dot(gd(Call(Dot(Id("tf"), "bind"), Num(1)), "arguments"), "get"), Dot(gd(Id("b2"), "caller"), "set")), Un("typeof", Id("t2")),
				// the thrower is a function of THIS runtime
				// (the global Function is outside the modelled fragment: compare with the prototype of a function of this runtime)
				Bin("===", od("getPrototypeOf", Id("t2")), od("getPrototypeOf", Id("tf"))), Bin("instanceof", Id("t2"), Id("Object")), od("isExtensible", Id("t2"))),
			Try([]N{Expr(Call(Id("t2")))}, "e", []N{hc(Str("thrower"), Bin("instanceof", Id("e"), Id("TypeError")), Bin("===", od("getPrototypeOf", Id("e")), Dot(Id("TypeError"), "prototype")))}, true, nil, false),
			Try([]N{Expr(Dot(Id("b2"), "caller"))}, "e", []N{hc(Str("caller"), Bin("instanceof", Id("e"), Id("TypeError")))}, true, nil, false)}
	case 17: // several with-environments over ONE object, each inside a different activation
		h = []N{Var("wo", Obj("shared", Num(1))),
			FDecl("mkw", []string{"s"}, Var("rf", nil), With(Id("wo"), Block(Expr(Asg("=", Id("rf"), Obj("get", Fn("", nil, Return(Bin("+", Id("s"), Id("shared")))), "set", Fn("", []string{"v"}, Expr(Asg("=", Id("s"), Id("v"))))))))), Return(Id("rf"))),
			Var("w1", Call(Id("mkw"), Str("sA"))), Var("w2", Call(Id("mkw"), Str("sB")))}
		m = some(r, Expr(Call(Dot(Id("w2"), "set"), Str("sZ"))), Expr(Asg("=", Dot(Id("wo"), "shared"), Num(2))), Expr(Call(Dot(Id("w1"), "set"), Str("sY"))))
		q = []N{hc(Call(Dot(Id("w1"), "get")), Call(Dot(Id("w2"), "get"))), Expr(Call(Dot(Id("w1"), "set"), Str("sQ"))), hc(Call(Dot(Id("w1"), "get")), Call(Dot(Id("w2"), "get")))}
	case 18: // attributes of captured bindings: a binding declared by eval code is deletable, a var is not (10.5)
		h = []N{FDecl("mkd", nil, Expr(EvalCall(true, Var("ex", Num(1)))), Var("vy", Num(2)),
			Return(Obj("del", Fn("", nil, Return(Arr(Un("delete", Id("ex")), Un("delete", Id("vy")), Un("typeof", Id("ex")), Un("typeof", Id("vy"))))),
				"bump", Fn("", nil, Expr(Asg("=", Id("ex"), Bin("+", Id("ex"), Num(1)))), Return(Id("ex")))))),
			Var("d1", Call(Id("mkd"))), Var("d2", Call(Id("mkd")))}
		m = some(r, Expr(Call(Dot(Id("d1"), "bump"))), Expr(Call(Dot(Id("d2"), "del"))))
		q = []N{Var("dr", Call(Dot(Id("d1"), "del"))), hc(Idx(Id("dr"), Num(0)), Idx(Id("dr"), Num(1)), Idx(Id("dr"), Num(2)), Idx(Id("dr"), Num(3))),
			Var("dr2", Call(Dot(Id("d2"), "del"))), hc(Idx(Id("dr2"), Num(0)), Idx(Id("dr2"), Num(2)))}
	case 19: // objects WITHOUT own properties at copy time (plain, array, prototype object): their tables are not shared
		h = []N{Var("reg", Obj()), Var("bag", Arr()), FDecl("Base", nil), Expr(Asg("=", Dot(Id("Base"), "prototype"), Obj())), Var("inst", New(Id("Base")))}
		m = some(r, Expr(Asg("=", Dot(Id("reg"), "k"), Num(1))), Expr(Asg("=", Dot(Dot(Id("Base"), "prototype"), "hello"), Fn("", nil, Return(Num(7))))),
			Expr(Asg("=", Idx(Id("bag"), Num(0)), Str("x"))), Expr(Asg("=", Dot(Id("bag"), "tag"), Num(2))))
		q = []N{hc(Bin("in", Str("k"), Id("reg")), Dot(Id("reg"), "k"), Dot(od("keys", Id("reg")), "length"), Un("typeof", Dot(Id("inst"), "hello")),
			Dot(Id("bag"), "length"), Dot(Id("bag"), "tag"), Dot(od("getOwnPropertyNames", Dot(Id("Base"), "prototype")), "length")),
			Expr(Asg("=", Dot(Id("reg"), "z"), Num(26))), hc(Dot(Id("reg"), "z"), Dot(od("keys", Id("reg")), "length"))}
	case 20: // extensibility and attributes fixed BEFORE the copy (freeze / seal / preventExtensions of object, array, function)
		lock := []string{"freeze", "seal", "preventExtensions"}
		h = []N{Var("fo", Obj("a", Num(1))), Var("fa", Arr(Num(1), Num(2))), FDecl("ff", nil),
			Expr(od(lock[r.Intn(3)], Id("fo"))), Expr(od(lock[r.Intn(3)], Id("fa"))), Expr(od(lock[r.Intn(3)], Id("ff")))}
		m = some(r, Expr(Asg("=", Dot(Id("fo"), "b"), Num(2))), Expr(Asg("=", Dot(Id("fo"), "a"), Num(5))), Expr(Un("delete", Dot(Id("fo"), "a"))),
			Expr(Asg("=", Idx(Id("fa"), Num(2)), Num(3))), Expr(Asg("=", Dot(Id("ff"), "p"), Str("s"))))
		q = []N{hc(od("isFrozen", Id("fo")), od("isSealed", Id("fo")), od("isExtensible", Id("fo")), od("isFrozen", Id("fa")), od("isExtensible", Id("fa")), od("isExtensible", Id("ff"))),
			Expr(Asg("=", Dot(Id("fo"), "b"), Num(9))), Expr(Asg("=", Idx(Id("fa"), Num(2)), Num(9))), Expr(Asg("=", Dot(Id("ff"), "p"), Num(9))),
			Try([]N{Expr(od("defineProperty", Id("fo"), Str("c"), Obj("value", Num(1))))}, "e", []N{hc(Str("define threw"), Bin("instanceof", Id("e"), Id("TypeError")))}, true, nil, false),
			hc(Dot(od("keys", Id("fo")), "length"), Dot(Id("fo"), "a"), Dot(Id("fo"), "b"), Dot(Id("fa"), "length"), Un("typeof", Dot(Id("ff"), "p")))}
	default: // object graph with cycles and shared sub-objects
		h = []N{Var("x1", Obj("v", Num(1))), Var("x2", Obj("peer", Id("x1"), "v", Num(2))), Expr(Asg("=", Dot(Id("x1"), "peer"), Id("x2"))), Var("both", Arr(Id("x1"), Id("x2"), Id("x1")))}
		m = some(r, Expr(Asg("=", Dot(Dot(Id("x1"), "peer"), "v"), Num(20))), Expr(Asg("=", Dot(Idx(Id("both"), Num(2)), "v"), Num(10))), Expr(Asg("=", Dot(Id("x2"), "peer"), Null())))
		q = []N{hc(Dot(Id("x1"), "v"), Dot(Id("x2"), "v"), Bin("===", Idx(Id("both"), Num(0)), Idx(Id("both"), Num(2))), Bin("===", Dot(Dot(Id("x1"), "peer"), "peer"), Id("x1")), Dot(Idx(Id("both"), Num(1)), "v"))}
	}
	h = append(base, h...)
	return h, m, q
}
