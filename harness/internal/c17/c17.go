// Package c17: Copy() equivalence and isolation (spec/C17.tla judges).
package c17

import (
	"bytes"
	"encoding/json"
	"fmt"
	"math/rand"
	"os"
	"sync"
	"time"

	"github.com/robertkrimen/otto"

	"verif/harness/internal/c01"
	"verif/harness/internal/c17/scen"
	"verif/harness/internal/core"
	"verif/harness/internal/tlc"
)

// host-call logs are routed per runtime: a copy shares the Go function value
var logs sync.Map // *otto.Otto -> *[][]any

func hostH(call otto.FunctionCall) otto.Value {
	if l, ok := logs.Load(call.Otto); ok {
		args := make([]any, len(call.ArgumentList))
		for i, a := range call.ArgumentList {
			args[i] = c01.Proj(a)
		}
		p := l.(*[][]any)
		*p = append(*p, args)
	}
	return call.Argument(0)
}

type side struct {
	vm  *otto.Otto
	log [][]any
}

func newSide(vm *otto.Otto) *side {
	s := &side{vm: vm}
	logs.Store(vm, &s.log)
	return s
}

func (s *side) run(src string) (obs c01.Obs, err error) {
	s.log = nil
	defer func() {
		if p := recover(); p != nil {
			err = fmt.Errorf("GO PANIC: %v", p)
		}
	}()
	v, e := s.vm.Run(src)
	return c01.MakeObs(s.log, v, e), nil
}

type traceLine struct {
	ID         int       `json:"id"`
	H          [][]c01.N `json:"h"`
	M          []c01.N   `json:"m"`
	Q          []c01.N   `json:"q"`
	ObsM       c01.Obs   `json:"obsM"`
	ObsMutated c01.Obs   `json:"obsMutated"`
	ObsOthers  []c01.Obs `json:"obsOthers"`
}

type rec struct {
	line    traceLine
	srcs    []string // history sources
	m, q    string
	config  string
	failure string
	family  int // targeted family, -1 for a random slice
}

// observation epilogue appended to every q: the globals and a call through a closure
func epilogue() []c01.N {
	id := c01.Id
	return []c01.N{c01.Expr(c01.Call(id("H"), c01.Un("typeof", id("a")), id("a"), c01.Un("typeof", id("b")), id("b"), c01.Un("typeof", id("c")), id("c"), id("n"),
		c01.Un("typeof", id("p")), c01.Un("typeof", id("q"))))}
}

func Check(c *core.Ctx) (map[string]any, []string, error) {
	nProg := 600
	if c.Thorough() {
		nProg = 12000
	}
	if s := os.Getenv("VERIF_C17_PROGRAMS"); s != "" {
		fmt.Sscan(s, &nProg)
	}
	g := c01.NewGen(c.Seed + 2000)
	g.MaxTop = 8
	rng := rand.New(rand.NewSource(c.Seed))
	configs := []string{"mutate-original", "mutate-copy", "copy-of-copy-mutate-middle", "copy-of-copy-mutate-last"}
	recs := make([]*rec, nProg)
	for i := range recs {
		pre := 4 // the leading var declarations stay in the history
		var h, m, q []c01.N
		fam := -1
		if i%2 == 0 {
			// targeted behaviour: one family per kind of reference the copy must remap
			fam = rng.Intn(scen.Families)
			if f := os.Getenv("VERIF_C17_FAMILY"); f != "" { // development aid: one family only
				fmt.Sscan(f, &fam)
			}
			h, m, q = scen.ScenarioOf(fam, rng)
			q = append(q, epilogue()...)
		} else {
			body := g.Program()
			rest := body[pre:]
			a := rng.Intn(len(rest) + 1)
			b := a + rng.Intn(len(rest)-a+1)
			h = append(append([]c01.N{}, body[:pre]...), rest[:a]...)
			m = rest[a:b]
			q = append(append([]c01.N{}, rest[b:]...), epilogue()...)
		}
		r := &rec{config: configs[(i/2)%len(configs)], family: fam}
		// the history is sometimes two programs (state carried between Run calls)
		hs := [][]c01.N{h}
		if len(h) > pre+1 && i%3 == 0 {
			k := pre + rng.Intn(len(h)-pre)
			hs = [][]c01.N{h[:k], h[k:]}
		}
		r.line = traceLine{ID: i + 1, H: hs, M: m, Q: q}
		for _, x := range hs {
			r.srcs = append(r.srcs, c01.RenderProgram(x))
		}
		r.m, r.q = c01.RenderProgram(m), c01.RenderProgram(q)
		recs[i] = r
	}
	var wg sync.WaitGroup
	jobs := make(chan *rec, 64)
	for w := 0; w < c.Workers; w++ {
		wg.Add(1)
		go func() {
			defer wg.Done()
			for r := range jobs {
				done := make(chan struct{})
				go func() {
					defer close(done)
					vm := otto.New()
					vm.Set("H", hostH)
					orig := newSide(vm)
					for _, s := range r.srcs {
						if _, err := orig.run(s); err != nil {
							r.failure = err.Error()
							return
						}
					}
					sides := []*side{orig, newSide(orig.vm.Copy())}
					mut := 0
					switch r.config {
					case "mutate-copy":
						mut = 1
					case "copy-of-copy-mutate-middle":
						sides = append(sides, newSide(sides[1].vm.Copy()))
						mut = 1
					case "copy-of-copy-mutate-last":
						sides = append(sides, newSide(sides[1].vm.Copy()))
						mut = 2
					}
					om, err := sides[mut].run(r.m)
					if err != nil {
						r.failure = err.Error()
						return
					}
					r.line.ObsM = om
					r.line.ObsOthers = []c01.Obs{}
					for k, s := range sides {
						o, err := s.run(r.q)
						if err != nil {
							r.failure = err.Error()
							return
						}
						if k == mut {
							r.line.ObsMutated = o
						} else {
							r.line.ObsOthers = append(r.line.ObsOthers, o)
						}
					}
					for _, s := range sides {
						logs.Delete(s.vm)
					}
				}()
				select {
				case <-done:
				case <-time.After(30 * time.Second):
					r.failure = "TIMEOUT"
				}
			}
		}()
	}
	for _, r := range recs {
		jobs <- r
	}
	close(jobs)
	wg.Wait()
	var buf bytes.Buffer
	enc := json.NewEncoder(&buf)
	judged := 0
	for _, r := range recs {
		if r.failure != "" {
			c.Violate(fmt.Sprintf("%s (%s); history:\n%s", r.failure, r.config, r.srcs[0]), map[string]any{"history": r.srcs, "m": r.m, "q": r.q, "config": r.config})
			continue
		}
		enc.Encode(r.line)
		judged++
	}
	var nUnd, nBad int64
	undByFamily := map[int]int{}
	res, err := tlc.Run(tlc.Opts{SpecDir: c.SpecDir, Module: "C17",
		Cfg:     fmt.Sprintf("CONSTANTS\n OpenDev = %s\n Fuel = 300\nINIT Init\nNEXT Next\nINVARIANT Check\nCHECK_DEADLOCK FALSE\n", core.TLASet(c.Findings.OpenIDs())),
		Workers: c.Workers, Files: map[string][]byte{"trace.ndjson": buf.Bytes()}, Timeout: 60 * time.Minute, HeapMB: 12000},
		func(p []byte) {
			var v struct {
				ID          int             `json:"id"`
				Status      string          `json:"status"`
				OkM         bool            `json:"okM"`
				OkMutated   bool            `json:"okMutated"`
				BadOthers   []int           `json:"badOthers"`
				WantMutated json.RawMessage `json:"wantMutated"`
				WantOthers  json.RawMessage `json:"wantOthers"`
			}
			if json.Unmarshal(p, &v) != nil {
				return
			}
			r := recs[v.ID-1]
			switch v.Status {
			case "und":
				nUnd++
				undByFamily[r.family]++
			case "bad":
				nBad++
				what := "the runtime the mutation ran on answers the observation program differently from a runtime that ran history;mutation"
				if len(v.BadOthers) > 0 {
					what = "a runtime the mutation did NOT run on answers the observation program differently from a runtime that only ran the history (not equivalent at copy time, or not isolated)"
				}
				lj, _ := json.Marshal(r.line.ObsOthers)
				c.Violate(fmt.Sprintf("Copy (%s): %s.\nobserved others %s, required %s\nobserved mutated %s, required %s\nhistory:\n%s\nmutation:\n%s\nobservation:\n%s",
					r.config, what, string(lj), string(v.WantOthers), r.line.ObsMutated.JSON(), string(v.WantMutated), r.srcs, r.m, r.q),
					map[string]any{"config": r.config, "history": r.srcs, "m": r.m, "q": r.q, "line": r.line, "verdict": json.RawMessage(p)})
			}
		})
	if err != nil {
		return nil, nil, err
	}
	samples := []any{}
	if len(recs) > 0 {
		samples = append(samples, map[string]any{"config": recs[0].config, "history": recs[0].srcs, "mutation": recs[0].m, "observation": recs[0].q, "observed": recs[0].line})
	}
	// a family that the specification leaves undecided every time decides nothing: say so loudly
	perFamily := map[int]int{}
	for _, r := range recs {
		perFamily[r.family]++
	}
	undFam := map[string]string{}
	for f, n := range undByFamily {
		undFam[fmt.Sprint(f)] = fmt.Sprintf("%d of %d", n, perFamily[f])
		if f >= 0 && n == perFamily[f] && n >= 3 {
			c.Note("targeted family %d is undecided in all its %d behaviours: its observations leave the modelled fragment", f, n)
		}
	}
	cov := map[string]any{
		"undecided_by_family": undFam,
		"states":              res.Distinct, "transitions": res.Generated, "traces_validated_against_impl": judged,
		"samples": samples, "behaviours": nProg, "configurations": configs,
		"undecided": nUnd, "rejected": nBad, "tlc_wall_s": res.Wall,
	}
	return cov, []string{
		"behaviours H ; Copy (; Copy) ; M on one side ; Q on all sides, with H, M, Q consecutive slices of programs from the C01 generator (closures, prototype chains, arguments objects, bound functions, with/eval scenarios) plus a fixed observation epilogue",
		"oracle: ES5Core evaluated by TLC; a copy is a value in the model, so the untouched sides must equal a runtime that only ran the history",
		"host functions are shared Go values by design; their logs are routed per runtime through FunctionCall.Otto",
		"the pure-JavaScript heap only; objects are observed by [[Class]] and through the programs' own reads",
	}, nil
}
