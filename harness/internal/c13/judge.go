package c13

// Direction code -> specification: the harness evaluates the Math functions
// and the URI functions on its own seeded inputs (grids and random values
// from much wider domains than the generator enumerates), records what the
// implementation answered and lets TLC (spec/C13Judge.tla) decide for every
// recorded event whether MathSpec / URISpec allow it.  Nothing is judged in Go.

import (
	"bytes"
	"encoding/json"
	"fmt"
	"math"
	"math/rand"
	"sort"
	"time"
	"unicode/utf16"

	"github.com/robertkrimen/otto"

	"verif/harness/internal/core"
	"verif/harness/internal/num"
	"verif/harness/internal/tlc"
)

const judgePrelude = `
function JUNITS(s){ var r=[]; for (var i=0;i<s.length;i++) r.push(s.charCodeAt(i)); return r; }
var JUF = {encodeURI:encodeURI, encodeURIComponent:encodeURIComponent, decodeURI:decodeURI,
           decodeURIComponent:decodeURIComponent, escape:escape, unescape:unescape};
function JUCALL(f, g, s){
  var thr = "", out = [];
  try { var r = JUF[f](s); if (g !== "") r = JUF[g](r); out = JUNITS(r); }
  catch (e) { thr = (e instanceof Error) ? e.name : "value"; }
  return JSON.stringify({thr:thr, out:out});
}
var JINV = {
  exp_log:  function(x){ return Math.exp(Math.log(x)); },
  log_exp:  function(x){ return Math.log(Math.exp(x)); },
  sqrt_sq:  function(x){ return Math.pow(Math.sqrt(x), 2); },
  sq_sqrt:  function(x){ return Math.sqrt(Math.pow(x, 2)); },
  tan_atan: function(x){ return Math.tan(Math.atan(x)); },
  atan_tan: function(x){ return Math.atan(Math.tan(x)); },
  sin_asin: function(x){ return Math.sin(Math.asin(x)); },
  cos_acos: function(x){ return Math.cos(Math.acos(x)); },
  asin_sin: function(x){ return Math.asin(Math.sin(x)); },
  acos_cos: function(x){ return Math.acos(Math.cos(x)); }
};
function JINVCALL(g, x){ return JINV[g](x); }
`

// jevent is one recorded evaluation; Line is what TLC reads.
type jevent struct {
	Line map[string]any
	// how to run it again
	kind  string
	f, g  string
	args  []float64
	args2 []float64 // mono: second evaluation
	s     string
}

type jvm struct{ vm *otto.Otto }

func newJVM() (*jvm, error) {
	vm := otto.New()
	if _, err := vm.Run(judgePrelude); err != nil {
		return nil, err
	}
	return &jvm{vm}, nil
}

func (j *jvm) math(f string, args []float64) (r float64, err error) {
	defer func() {
		if p := recover(); p != nil {
			err = fmt.Errorf("GO PANIC: %v", p)
		}
	}()
	in := make([]interface{}, len(args))
	for i, a := range args {
		in[i] = a
	}
	v, e := j.vm.Call("Math."+f, nil, in...)
	if e != nil {
		return 0, e
	}
	if !v.IsNumber() {
		return 0, fmt.Errorf("Math.%s returned a %s", f, v.Class())
	}
	return v.ToFloat()
}

func (j *jvm) inv(g string, x float64) (r float64, err error) {
	defer func() {
		if p := recover(); p != nil {
			err = fmt.Errorf("GO PANIC: %v", p)
		}
	}()
	v, e := j.vm.Call("JINVCALL", nil, g, x)
	if e != nil {
		return 0, e
	}
	return v.ToFloat()
}

type uriOut struct {
	Thr string `json:"thr"`
	Out []int  `json:"out"`
}

func (j *jvm) uri(f, g, s string) (o uriOut, err error) {
	defer func() {
		if p := recover(); p != nil {
			err = fmt.Errorf("GO PANIC: %v", p)
		}
	}()
	v, e := j.vm.Call("JUCALL", nil, f, g, s)
	if e != nil {
		return o, e
	}
	if e := json.Unmarshal([]byte(v.String()), &o); e != nil {
		return o, e
	}
	if o.Out == nil {
		o.Out = []int{}
	}
	return o, nil
}

func nums(xs []float64) []num.N {
	r := make([]num.N, len(xs))
	for i, x := range xs {
		r[i] = num.Of(x)
	}
	return r
}

func units(s string) []int {
	u := utf16.Encode([]rune(s))
	r := make([]int, len(u))
	for i, x := range u {
		r[i] = int(x)
	}
	return r
}

// ---- input generation (inputs only; no expectations are computed here) ----

var specials = []float64{math.NaN(), 0, math.Copysign(0, -1), math.Inf(1), math.Inf(-1), 1, -1, 0.5, -0.5, 2, -2, 10,
	math.SmallestNonzeroFloat64, -math.SmallestNonzeroFloat64, math.MaxFloat64, -math.MaxFloat64,
	math.Pi, -math.Pi, math.Pi / 2, -math.Pi / 2, math.Pi / 4, math.E, 1e-10, -1e-10, 0x1p-30, 0x1p-31, 0x1p-54, 0x1p-1022, 4, 9, 0.25, 1e300, 1e-300}

func randVal(rng *rand.Rand) float64 {
	switch rng.Intn(9) {
	case 0:
		return specials[rng.Intn(len(specials))]
	case 1:
		return math.Float64frombits(rng.Uint64())
	case 2:
		return (rng.Float64()*2 - 1) * 10
	case 3:
		return (rng.Float64()*2 - 1) * 1.25
	case 4: // log-uniform magnitude
		v := math.Ldexp(1+rng.Float64(), rng.Intn(2100)-1074)
		if rng.Intn(2) == 0 {
			v = -v
		}
		return v
	case 5: // half-integers and their neighbours
		k := float64(rng.Int63n(1<<uint(1+rng.Intn(52)))) + 0.5
		switch rng.Intn(3) {
		case 0:
			k = math.Nextafter(k, math.Inf(1))
		case 1:
			k = math.Nextafter(k, math.Inf(-1))
		}
		if rng.Intn(2) == 0 {
			k = -k
		}
		return k
	case 6: // integers up to 2^53, odd ones above 2^52
		k := float64(rng.Int63n(1<<53)) + 1
		if rng.Intn(2) == 0 {
			k = float64(uint64(1)<<52 + uint64(rng.Int63n(1<<52)) | 1)
		}
		if rng.Intn(2) == 0 {
			k = -k
		}
		return k
	case 7:
		return float64(rng.Intn(41) - 20)
	default:
		return (rng.Float64()*2 - 1) * 800
	}
}

func grid(lo, hi float64, n int) []float64 {
	r := make([]float64, n)
	for i := range r {
		r[i] = lo + (hi-lo)*float64(i)/float64(n-1)
	}
	return r
}

func logGrid(lo, hi int, n int) []float64 { // 2^lo .. 2^hi
	r := make([]float64, n)
	for i := range r {
		r[i] = math.Ldexp(1+float64(i%7)/7, lo+(hi-lo)*i/(n-1))
	}
	return r
}

func domainGrid(f string, n int) []float64 {
	switch f {
	case "sin", "cos", "tan":
		return append(grid(-7, 7, n), grid(-1.5707963267948966, 1.5707963267948966, n/2)...)
	case "asin", "acos":
		return append(grid(-1, 1, n), 1.0000000000000002, -1.0000000000000002, 0.9999999999999999)
	case "atan":
		return append(grid(-50, 50, n), logGrid(-1000, 1000, n/2)...)
	case "exp":
		return append(grid(-750, 715, n), grid(-2, 2, n/2)...)
	case "log", "sqrt":
		return append(logGrid(-1074, 1023, n), grid(0.5, 3, n/2)...)
	}
	return grid(-5, 5, n/2)
}

var fns1 = []string{"abs", "acos", "asin", "atan", "ceil", "cos", "exp", "floor", "log", "round", "sin", "sqrt", "tan"}

func randRune(rng *rand.Rand) rune {
	switch p := rng.Intn(100); {
	case p < 40:
		return rune(32 + rng.Intn(95))
	case p < 48:
		rs := []rune(";/?:@&=+$,#-_.!~*'()%")
		return rs[rng.Intn(len(rs))]
	case p < 53:
		return rune(rng.Intn(32))
	case p < 68:
		return rune(127 + rng.Intn(129))
	case p < 85:
		for {
			r := rune(256 + rng.Intn(65536-256))
			if r < 0xD800 || r > 0xDFFF {
				return r
			}
		}
	case p < 95:
		return rune(0x10000 + rng.Intn(0x100000))
	default:
		return []rune{0x7FF, 0x800, 0xFFFF, 0x10000, 0x10FFFF, 0xFFFD, 0xD7FF, 0xE000, 0x7F, 0x80}[rng.Intn(10)]
	}
}

func randStr(rng *rand.Rand, maxLen int) string {
	n := rng.Intn(maxLen + 1)
	r := make([]rune, n)
	for i := range r {
		r[i] = randRune(rng)
	}
	return string(r)
}

const hexU = "0123456789ABCDEF"

func pct(b byte) string { return string([]byte{'%', hexU[b>>4], hexU[b&15]}) }

// decodeInput: a percent-encoded rendering of a random string, randomly damaged.
func decodeInput(rng *rand.Rand) string {
	var sb bytes.Buffer
	if rng.Intn(3) == 0 { // raw octet soup with UTF-8-like structure
		n := 1 + rng.Intn(5)
		for i := 0; i < n; i++ {
			var b byte
			switch rng.Intn(5) {
			case 0:
				b = byte(0xC0 + rng.Intn(0x40))
			case 1, 2:
				b = byte(0x80 + rng.Intn(0x40))
			case 3:
				b = byte(rng.Intn(0x80))
			default:
				b = byte(rng.Intn(256))
			}
			sb.WriteString(pct(b))
		}
		return sb.String()
	}
	for _, r := range randStr(rng, 5) {
		if r < 128 && rng.Intn(3) == 0 {
			sb.WriteRune(r)
			continue
		}
		for _, b := range []byte(string(r)) {
			p := pct(b)
			if rng.Intn(4) == 0 {
				p = "%" + string([]byte{"0123456789abcdef"[b>>4], "0123456789abcdef"[b&15]})
			}
			sb.WriteString(p)
		}
	}
	s := []rune(sb.String())
	for k := rng.Intn(3); k > 0 && len(s) > 0; k-- {
		p := rng.Intn(len(s))
		switch rng.Intn(3) {
		case 0:
			s[p] = []rune("%0189aAbBcCeEfFgG")[rng.Intn(17)]
		case 1:
			s = append(s[:p], s[p+1:]...)
		default:
			s = append(s[:p], append([]rune{'%'}, s[p:]...)...)
		}
	}
	return string(s)
}

func unescapeInput(rng *rand.Rand) string {
	var sb bytes.Buffer
	n := rng.Intn(6)
	for i := 0; i < n; i++ {
		switch rng.Intn(8) {
		case 0, 1:
			sb.WriteString(pct(byte(rng.Intn(256))))
		case 2, 3:
			u := rng.Intn(65536)
			if u >= 0xD800 && u <= 0xDFFF && rng.Intn(4) != 0 {
				u -= 0x1000
			}
			h := fmt.Sprintf("%04X", u)
			if rng.Intn(3) == 0 {
				h = fmt.Sprintf("%04x", u)
			}
			sb.WriteString("%u" + h)
		case 4:
			sb.WriteString([]string{"%", "%u", "%u00", "%4", "%u12G4", "%G1", "%U0041", "%%"}[rng.Intn(8)])
		case 5:
			if rng.Intn(4) == 0 {
				sb.WriteRune(randRune(rng))
			} else {
				sb.WriteByte(byte(32 + rng.Intn(95)))
			}
		default:
			sb.WriteByte("abuU0123456789%"[rng.Intn(15)])
		}
	}
	return sb.String()
}

// ---- recording ----

func record(c *core.Ctx, rng *rand.Rand) ([]*jevent, error) {
	j, err := newJVM()
	if err != nil {
		return nil, err
	}
	nRand, nGrid, nStr := 60, 48, 150
	if c.Thorough() {
		nRand, nGrid, nStr = 900, 400, 3000
	}
	var evs []*jevent
	pt := func(f string, args []float64) (float64, error) {
		r, err := j.math(f, args)
		if err != nil {
			return 0, fmt.Errorf("Math.%s(%v): %v", f, args, err)
		}
		evs = append(evs, &jevent{kind: "pt", f: f, args: args,
			Line: map[string]any{"k": "pt", "f": f, "a": nums(args), "r": num.Of(r)}})
		return r, nil
	}
	mono := func(f string, pos int, a1, a2, o float64) error {
		mk := func(a float64) []float64 {
			if f != "pow" && f != "atan2" {
				return []float64{a}
			}
			if pos == 1 {
				return []float64{a, o}
			}
			return []float64{o, a}
		}
		r1, e1 := j.math(f, mk(a1))
		r2, e2 := j.math(f, mk(a2))
		if e1 != nil || e2 != nil {
			return fmt.Errorf("Math.%s: %v %v", f, e1, e2)
		}
		evs = append(evs, &jevent{kind: "mono", f: f, args: mk(a1), args2: mk(a2),
			Line: map[string]any{"k": "mono", "f": f, "pos": pos, "a1": num.Of(a1), "a2": num.Of(a2), "o": num.Of(o), "r1": num.Of(r1), "r2": num.Of(r2)}})
		return nil
	}
	monoChain := func(f string, pos int, xs []float64, o float64) error {
		ys := append([]float64(nil), xs...)
		sort.Float64s(ys)
		for i := 0; i+1 < len(ys); i++ {
			if math.IsNaN(ys[i]) || math.IsNaN(ys[i+1]) || !(ys[i] < ys[i+1]) {
				continue
			}
			if err := mono(f, pos, ys[i], ys[i+1], o); err != nil {
				return err
			}
		}
		return nil
	}
	for _, f := range fns1 {
		xs := append([]float64(nil), specials...)
		xs = append(xs, domainGrid(f, nGrid)...)
		for i := 0; i < nRand; i++ {
			xs = append(xs, randVal(rng))
		}
		for _, x := range xs {
			if _, err := pt(f, []float64{x}); err != nil {
				return nil, err
			}
		}
		if err := monoChain(f, 1, xs, 0); err != nil {
			return nil, err
		}
	}
	// two arguments: all pairs of the specials, then random pairs
	for _, f := range []string{"pow", "atan2"} {
		for i := 0; i < 2*nRand; i++ {
			a, b := randVal(rng), randVal(rng)
			switch rng.Intn(4) {
			case 0:
				b = float64(rng.Intn(129) - 64) // integer exponents / small integers
			case 1:
				a = float64(rng.Intn(41)-20) / 4
			}
			if _, err := pt(f, []float64{a, b}); err != nil {
				return nil, err
			}
		}
	}
	for _, o := range []float64{-2, -0.5, 0.5, 2, 3} {
		if err := monoChain("pow", 1, append(logGrid(-300, 300, nGrid/2), grid(0, 3, nGrid/4)...), o); err != nil {
			return nil, err
		}
	}
	for _, o := range []float64{0.1, 0.5, 2, 10, 1.0000000000000002} {
		if err := monoChain("pow", 2, grid(-40, 40, nGrid/2), o); err != nil {
			return nil, err
		}
	}
	for _, o := range []float64{-2, math.Copysign(0, -1), 0, 1, math.Inf(1), math.Inf(-1), -1e300, 1e-300} {
		ys := append(grid(-3, 3, nGrid/3), -1e-300, 1e-300, -5e-324, 5e-324, 0, math.Copysign(0, -1), math.Inf(1), math.Inf(-1), 1e300, -1e300)
		if err := monoChain("atan2", 1, ys, o); err != nil {
			return nil, err
		}
	}
	// max / min with 0..4 arguments
	for _, f := range []string{"max", "min"} {
		for i := 0; i < nRand; i++ {
			n := rng.Intn(5)
			args := make([]float64, n)
			for k := range args {
				args[k] = randVal(rng)
				if rng.Intn(3) == 0 {
					args[k] = specials[rng.Intn(7)]
				}
			}
			if _, err := pt(f, args); err != nil {
				return nil, err
			}
		}
	}
	// compositions
	invDomain := map[string]func() float64{
		"exp_log":  func() float64 { return math.Ldexp(1+rng.Float64(), rng.Intn(1990)-995) },
		"log_exp":  func() float64 { return (rng.Float64()*2 - 1) * 700 },
		"sqrt_sq":  func() float64 { return math.Ldexp(1+rng.Float64(), rng.Intn(990)-495) },
		"sq_sqrt":  func() float64 { return math.Ldexp(1+rng.Float64(), rng.Intn(490)-245) },
		"tan_atan": func() float64 { return (rng.Float64()*2 - 1) * math.Ldexp(1, rng.Intn(21)-10) },
		"atan_tan": func() float64 { return (rng.Float64()*2 - 1) * 1.5 },
		"sin_asin": func() float64 { return rng.Float64()*2 - 1 },
		"cos_acos": func() float64 { return rng.Float64()*2 - 1 },
		"asin_sin": func() float64 { return rng.Float64()*2 - 1 },
		"acos_cos": func() float64 { return 0.5 + rng.Float64()*2.5 },
	}
	names := make([]string, 0, len(invDomain))
	for g := range invDomain {
		names = append(names, g)
	}
	sort.Strings(names)
	for _, g := range names {
		for i := 0; i < nRand; i++ {
			x := invDomain[g]()
			r, err := j.inv(g, x)
			if err != nil {
				return nil, fmt.Errorf("%s(%v): %v", g, x, err)
			}
			evs = append(evs, &jevent{kind: "inv", g: g, args: []float64{x},
				Line: map[string]any{"k": "inv", "g": g, "x": num.Of(x), "r": num.Of(r)}})
		}
	}
	// URI functions
	uri := func(f, g, s string) error {
		o, err := j.uri(f, g, s)
		if err != nil {
			return fmt.Errorf("%s(%q): %v", f, s, err)
		}
		evs = append(evs, &jevent{kind: "uri", f: f, g: g, s: s,
			Line: map[string]any{"k": "uri", "f": f, "g": g, "s": units(s), "thr": o.Thr, "out": o.Out}})
		return nil
	}
	for i := 0; i < nStr; i++ {
		s := randStr(rng, 8)
		for _, fg := range [][2]string{{"encodeURI", ""}, {"encodeURIComponent", ""}, {"escape", ""},
			{"encodeURI", "decodeURI"}, {"encodeURIComponent", "decodeURIComponent"}, {"escape", "unescape"}} {
			if err := uri(fg[0], fg[1], s); err != nil {
				return nil, err
			}
		}
		d := decodeInput(rng)
		if err := uri("decodeURI", "", d); err != nil {
			return nil, err
		}
		if err := uri("decodeURIComponent", "", d); err != nil {
			return nil, err
		}
		if err := uri("unescape", "", unescapeInput(rng)); err != nil {
			return nil, err
		}
	}
	return evs, nil
}

// again re-evaluates an event on a fresh runtime and reports whether the
// implementation answers the same.
func again(ev *jevent) bool {
	j, err := newJVM()
	if err != nil {
		return false
	}
	var line map[string]any
	switch ev.kind {
	case "pt":
		r, e := j.math(ev.f, ev.args)
		if e != nil {
			return false
		}
		line = map[string]any{"r": num.Of(r)}
	case "mono":
		r1, e1 := j.math(ev.f, ev.args)
		r2, e2 := j.math(ev.f, ev.args2)
		if e1 != nil || e2 != nil {
			return false
		}
		line = map[string]any{"r1": num.Of(r1), "r2": num.Of(r2)}
	case "inv":
		r, e := j.inv(ev.g, ev.args[0])
		if e != nil {
			return false
		}
		line = map[string]any{"r": num.Of(r)}
	case "uri":
		o, e := j.uri(ev.f, ev.g, ev.s)
		if e != nil {
			return false
		}
		line = map[string]any{"thr": o.Thr, "out": o.Out}
	}
	for k, v := range line {
		a, _ := json.Marshal(v)
		b, _ := json.Marshal(ev.Line[k])
		if !bytes.Equal(a, b) {
			return false
		}
	}
	return true
}

func describe(ev *jevent) string {
	switch ev.kind {
	case "pt":
		return fmt.Sprintf("Math.%s(%v) = %v", ev.f, ev.args, ev.Line["r"])
	case "mono":
		return fmt.Sprintf("Math.%s(%v) = %v but Math.%s(%v) = %v", ev.f, ev.args, ev.Line["r1"], ev.f, ev.args2, ev.Line["r2"])
	case "inv":
		return fmt.Sprintf("%s(%v) = %v", ev.g, ev.args[0], ev.Line["r"])
	}
	name := ev.f
	if ev.g != "" {
		name = ev.g + " o " + ev.f
	}
	return fmt.Sprintf("%s(%q) = thr %q units %v", name, ev.s, ev.Line["thr"], ev.Line["out"])
}

// runJudge has TLC judge the lines; onReject receives (1-based index, tag, want).
func runJudge(c *core.Ctx, lines []map[string]any, onReject func(i int, tag string, want json.RawMessage)) (*tlc.Result, error) {
	var buf bytes.Buffer
	enc := json.NewEncoder(&buf)
	for _, l := range lines {
		if err := enc.Encode(l); err != nil {
			return nil, err
		}
	}
	cfg := fmt.Sprintf("CONSTANTS\n OpenDev = %s\nINIT Init\nNEXT Next\nINVARIANT Check\nCHECK_DEADLOCK FALSE\n", core.TLASet(c.Findings.OpenIDs()))
	var perr error
	res, err := tlc.Run(tlc.Opts{SpecDir: c.SpecDir, Module: "C13Judge", Cfg: cfg, Workers: c.Workers,
		Files: map[string][]byte{"trace.ndjson": buf.Bytes()}, Timeout: 30 * time.Minute}, func(p []byte) {
		var m struct {
			I    int             `json:"i"`
			Tag  string          `json:"tag"`
			Want json.RawMessage `json:"want"`
		}
		if json.Unmarshal(p, &m) != nil || m.I < 1 || m.I > len(lines) {
			perr = fmt.Errorf("undecodable judge line: %s", p)
			return
		}
		onReject(m.I, m.Tag, m.Want)
	})
	if err != nil {
		return nil, err
	}
	if perr != nil {
		return nil, perr
	}
	// every event must have been judged: one state per event (plus the blocks)
	if res.Distinct < int64(len(lines)) {
		return nil, fmt.Errorf("judge visited %d states for %d events", res.Distinct, len(lines))
	}
	return res, nil
}

// Judge records the events, has TLC judge them and reports.
func Judge(c *core.Ctx) (map[string]any, []*jevent, map[int]bool, error) {
	rng := rand.New(rand.NewSource(c.Seed*7919 + 13))
	evs, err := record(c, rng)
	if err != nil {
		return nil, nil, nil, err
	}
	kinds := map[string]int{}
	lines := make([]map[string]any, len(evs))
	for i, ev := range evs {
		kinds[ev.kind]++
		lines[i] = ev.Line
	}
	var dev, bad, flaky int
	rejected := map[int]bool{}
	res, err := runJudge(c, lines, func(i int, tag string, want json.RawMessage) {
		rejected[i-1] = true
		ev := evs[i-1]
		if tag == "dev" {
			dev++
			c.Hit("deviation(judge)")
			return
		}
		if !again(ev) {
			flaky++
			return
		}
		bad++
		c.Violate(fmt.Sprintf("%s  ; specification: %s", describe(ev), want), map[string]any{"event": ev.Line, "want": want})
	})
	if err != nil {
		return nil, nil, nil, err
	}
	return map[string]any{"events": len(evs), "by_kind": kinds, "accepted_strict": len(evs) - dev - bad - flaky,
		"accepted_under_known_deviation": dev, "rejected": bad, "not_reproducible": flaky,
		"tlc": map[string]any{"distinct": res.Distinct, "generated": res.Generated, "wall_s": res.Wall}}, evs, rejected, nil
}

// selfTestJudge corrupts the recorded result of accepted events (DESIGN.md 5.4)
// and demands that the judge rejects every corrupted event.
func selfTestJudge(c *core.Ctx, evs []*jevent, rejected map[int]bool) (map[string]any, error) {
	var lines []map[string]any
	exact := map[string]bool{"abs": true, "ceil": true, "floor": true, "round": true, "max": true, "min": true}
	perKind := map[string]int{}
	for i, ev := range evs {
		if rejected[i] || perKind[ev.kind+ev.f] >= 4 {
			continue
		}
		l := map[string]any{}
		for k, v := range ev.Line {
			l[k] = v
		}
		switch {
		case ev.kind == "pt" && exact[ev.f]:
			r, _ := ev.Line["r"].(num.N).Float()
			if math.IsNaN(r) || math.IsInf(r, 0) {
				l["r"] = num.Of(1)
			} else if r == 0 {
				l["r"] = num.Of(math.Copysign(0, -1) * math.Copysign(1, r)) // flip the sign of zero
				if math.Signbit(r) {
					l["r"] = num.Of(0)
				}
			} else {
				l["r"] = num.Of(math.Nextafter(r, math.Inf(1))) // one ulp
			}
		case ev.kind == "pt":
			l["r"] = num.Of(math.NaN())
			if r, _ := ev.Line["r"].(num.N).Float(); math.IsNaN(r) {
				l["r"] = num.Of(0.5)
			}
		case ev.kind == "uri":
			if ev.Line["thr"].(string) != "" {
				l["thr"] = ""
			} else {
				l["out"] = append(append([]int{}, ev.Line["out"].([]int)...), 33)
			}
		default:
			continue
		}
		perKind[ev.kind+ev.f]++
		lines = append(lines, l)
	}
	got := map[int]string{}
	if _, err := runJudge(c, lines, func(i int, tag string, want json.RawMessage) { got[i] = tag }); err != nil {
		return nil, err
	}
	missed := 0
	for i := range lines {
		if got[i+1] != "bad" {
			missed++
			b, _ := json.Marshal(lines[i])
			c.Note("self-test: corrupted event accepted by the judge: %s (tag %q)", b, got[i+1])
		}
	}
	if missed > 0 {
		return nil, fmt.Errorf("self-test failed: the judge accepted %d of %d corrupted events", missed, len(lines))
	}
	return map[string]any{"corrupted_events": len(lines), "rejected_by_judge": len(lines)}, nil
}
