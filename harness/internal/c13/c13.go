// Package c13: Math, isNaN/isFinite, URI coding, escape/unescape
// (spec/MathSpec.tla, spec/URISpec.tla, generator spec/C13.tla).
package c13

import (
	"fmt"
	"strings"

	"verif/harness/internal/core"
	"verif/harness/internal/gen"
)

// prelude: BETWEEN projects an approximated result onto the interval the
// specification demands (true, or the offending value); RANDOK samples
// Math.random against 15.8.2.14.
const prelude = `
function BETWEEN(r, lo, hi){ return (typeof r === "number" && r >= lo && r <= hi) ? true : r; }
function RANDOK(){ for (var i=0;i<200;i++){ var r = Math.random(); if (!(typeof r === "number" && r >= 0 && r < 1)) return r; } return true; }
`

func cfg(c *core.Ctx, fams []string, size, nsel int) string {
	q := make([]string, len(fams))
	for i, f := range fams {
		q[i] = fmt.Sprintf("%q", f)
	}
	return fmt.Sprintf("CONSTANTS\n OpenDev = %s\n Fams = {%s}\n Size = %d\n NSel = %d\nINIT Init\nNEXT Next\nINVARIANT Emit\nINVARIANT Law\nCHECK_DEADLOCK FALSE\n",
		core.TLASet(c.Findings.OpenIDs()), strings.Join(q, ", "), size, nsel)
}

var Spec = &gen.Spec{
	Module:  "C13",
	Prelude: prelude,
	Runs: func(c *core.Ctx) []gen.RunCfg {
		size := 0
		if c.Thorough() {
			size = 1
		}
		return []gen.RunCfg{
			{Name: "math(15.8.2 all functions, value properties, random, isNaN/isFinite)", Cfg: cfg(c, []string{"math", "gnum", "const", "random"}, size, 0)},
			{Name: "uri(encode, single units, lone surrogates, decode, unescape, non-string arguments, mutations)", Cfg: cfg(c, []string{"enc", "single", "lone", "dec", "unesc", "args", "mut"}, size, 0)},
		}
	},
	Assume: []string{},
}

func Check(c *core.Ctx) (map[string]any, []string, error) { return gen.Check(c, Spec) }
