// Package c13: Math, isNaN/isFinite, URI coding, escape/unescape
// (spec/MathSpec.tla, spec/URISpec.tla; generator spec/C13.tla, judge spec/C13Judge.tla).
package c13

import (
	"fmt"
	"os"
	"strings"

	"verif/harness/internal/core"
	"verif/harness/internal/gen"
)

// prelude: BETWEEN projects an approximated result onto the interval the
// specification demands (true, or the offending value); RANDOK samples
// Math.random against 15.8.2.14.
const prelude = `
function BETWEEN(r, lo, hi){ return (typeof r === "number" && r >= lo && r <= hi) ? true : r; }
function RANDOK(){ for (var i=0;i<200;i++){ var r = Math.random(); if (!(typeof r === "number" && r >= 0 && r < 1)) return r; } return true; }
`

func cfg(c *core.Ctx, fams []string, size, nsel int) string {
	q := make([]string, len(fams))
	for i, f := range fams {
		q[i] = fmt.Sprintf("%q", f)
	}
	return fmt.Sprintf("CONSTANTS\n OpenDev = %s\n Fams = {%s}\n Size = %d\n NSel = %d\nINIT Init\nNEXT Next\nINVARIANT Emit\nINVARIANT Law\nCHECK_DEADLOCK FALSE\n",
		core.TLASet(c.Findings.OpenIDs()), strings.Join(q, ", "), size, nsel)
}

var mathFams = []string{"math", "gnum", "const", "random", "rep"}
var uriFams = []string{"enc", "single", "lone", "dec", "unesc", "args", "mut"}

var Spec = &gen.Spec{
	Module:  "C13",
	Prelude: prelude,
	Runs: func(c *core.Ctx) []gen.RunCfg {
		size := 0
		if c.Thorough() {
			size = 1
		}
		return []gen.RunCfg{
			{Name: "math(15.8.2 all functions, value properties, random, isNaN/isFinite)", Cfg: cfg(c, mathFams, size, 0)},
			{Name: "uri(encode, single units, lone surrogates, decode, unescape, non-string arguments, mutations)", Cfg: cfg(c, uriFams, size, 0)},
		}
	},
	Assume: []string{
		"generator: 97 numbers (217 in the thorough tier) (IEEE specials, neighbours of 0.5 / 1 / 2^52 / 2^53, extremes), 39 strings, 4 other primitives, 9 scripted conversion objects for every unary function; all ordered pairs of the numbers for pow and atan2; 0-3 arguments over 15 values for max/min",
		"results ES5 calls an implementation-dependent approximation are judged by class (sign, range, anchors within 2^-46 relative), monotonicity on sampled pairs and inverse relations with stated tolerances; perfect squares and exactly representable integer powers are demanded exactly (property statement: exact anchors)",
		"URI: strings of at most 3 (quick) / 4 (thorough) symbols over the stated alphabets; decoding over sequences of boundary octets, every single code unit, every one-character mutation of valid encodings; random strings of up to 8 code points in the judge direction",
		"trusted: otto's relational operators inside BETWEEN (checked by C05), String.prototype.charCodeAt for the projection of strings",
	},
}

// swapped is the prelude of the adapter self-test: two pairs of built-ins are exchanged.
const swapped = prelude + `
(function(){ var a = Math.max; Math.max = Math.min; Math.min = a; var e = encodeURI; encodeURI = encodeURIComponent; encodeURIComponent = e; })();
`

func Check(c *core.Ctx) (map[string]any, []string, error) {
	sp := Spec
	if os.Getenv("VERIF_C13_ONLY") == "judge" { // development aid: a token generator run, then the judge
		sp = &gen.Spec{Module: "C13", Prelude: prelude, Assume: Spec.Assume, Runs: func(c *core.Ctx) []gen.RunCfg {
			return []gen.RunCfg{{Name: "const", Cfg: cfg(c, []string{"const"}, 0, 0)}}
		}}
	}
	cov, assume, err := gen.Check(c, sp)
	if err != nil {
		return nil, nil, err
	}
	jc, evs, rejected, err := Judge(c)
	if err != nil {
		return nil, nil, fmt.Errorf("judge: %v", err)
	}
	cov["judge"] = jc
	cov["traces_validated_against_impl"] = cov["traces_validated_against_impl"].(int64) + int64(len(evs))
	cov["evaluations"] = cov["evaluations"].(int64) + int64(len(evs))
	if t, ok := jc["tlc"].(map[string]any); ok {
		cov["states"] = cov["states"].(int64) + t["distinct"].(int64)
		cov["transitions"] = cov["transitions"].(int64) + t["generated"].(int64)
	}
	if ss, ok := cov["samples"].([]any); ok {
		for i := 0; i < len(evs) && len(ss) < 12; i += 1 + len(evs)/5 {
			ss = append(ss, map[string]any{"recorded_event_judged_by_tlc": evs[i].Line})
		}
		cov["samples"] = ss
	}
	cov["rule"] = "generator: one case per TLC state of spec/C13.tla (distinct = distinct expected outcomes); judge: one recorded evaluation per TLC state of spec/C13Judge.tla"
	if c.Thorough() || os.Getenv("VERIF_SELFTEST") != "" {
		st, err := selfTestJudge(c, evs, rejected)
		if err != nil {
			return nil, nil, err
		}
		// adapter mutation: the same generator against a runtime whose built-ins are swapped must be rejected
		c2, err := core.NewCtx("C13-selftest", "quick")
		if err != nil {
			return nil, nil, err
		}
		mut := &gen.Spec{Module: "C13", Prelude: swapped, Runs: func(*core.Ctx) []gen.RunCfg {
			return []gen.RunCfg{{Name: "selftest", Cfg: cfg(c, []string{"enc", "const"}, 0, 0)}}
		}}
		cov2, _, err := gen.Check(c2, mut)
		if err != nil {
			return nil, nil, fmt.Errorf("self-test: %v", err)
		}
		if len(c2.Violations()) == 0 {
			return nil, nil, fmt.Errorf("self-test failed: swapped built-ins were not rejected")
		}
		st["adapter_mutation_cases"] = cov2["evaluations"]
		st["adapter_mutation_rejected"] = len(c2.Violations())
		os.RemoveAll(core.Root + "/replays/C13-selftest")
		cov["selftest"] = st
	}
	return cov, assume, nil
}
