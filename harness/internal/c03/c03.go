package c03

import (
	"encoding/json"
	"fmt"
	"os"
	"reflect"
	"sort"
	"strings"
	"sync"
	"sync/atomic"
	"time"

	"github.com/robertkrimen/otto/ast"
	"github.com/robertkrimen/otto/file"
	"github.com/robertkrimen/otto/parser"

	"verif/harness/internal/core"
	"verif/harness/internal/tlc"
)

// Line is one rendering of one case, as printed by spec/C03.tla / spec/C04.tla.
type Line struct {
	Fam string            `json:"fam"`
	Tag string            `json:"tag"`
	Src []int             `json:"src"`
	Exp json.RawMessage   `json:"exp"`
	Dev []json.RawMessage `json:"dev"`
	Bug string            `json:"bug"`
	// Run: the text is to be RUN on a runtime: "ok" (must complete), "throw" (must throw, never panic), "skip" (only: no Go panic)
	Run string `json:"run,omitempty"`
	// Pos: where an error must be reported (family utf8 of spec/C04.tla), by the line/column rule of the specification
	Pos *struct {
		Line int `json:"line"`
		Col  int `json:"col"`
	} `json:"pos,omitempty"`
}

// Outcome is what the parser did with a source text.
type Outcome struct {
	C     string // accept | reject | panic | hang
	Prog  []any
	Msg   string
	Tree  *ast.Program
	Err   error
}

// Mutant, when set, deliberately breaks the projection (binding self-test).
var Mutant string

// Parse runs parser.ParseFile under recover and a watchdog.
func Parse(src string, mode parser.Mode) Outcome { return ParseFS(nil, src, mode) }

// ParseFS is Parse with a file set (nil: stand-alone, base 1).
func ParseFS(fs *file.FileSet, src string, mode parser.Mode) Outcome {
	ch := make(chan Outcome, 1)
	go func() {
		var out Outcome
		defer func() {
			if r := recover(); r != nil {
				out = Outcome{C: "panic", Msg: fmt.Sprint(r)}
			}
			ch <- out
		}()
		prog, err := parser.ParseFile(fs, "", src, mode)
		if err != nil {
			out = Outcome{C: "reject", Prog: []any{}, Msg: err.Error(), Err: err, Tree: prog}
			return
		}
		out = Outcome{C: "accept", Tree: prog}
		out.Prog = Program(prog)
	}()
	select {
	case o := <-ch:
		return o
	case <-time.After(20 * time.Second):
		return Outcome{C: "hang", Msg: "parser did not return within 20 s"}
	}
}

func (o Outcome) JSON() any { return o.jsonWith(Mutant) }

func (o Outcome) jsonWith(mutant string) any {
	p := o.Prog
	if p == nil {
		p = []any{}
	}
	if mutant == "swapbin" {
		p = swapBin(p).([]any)
	}
	return map[string]any{"c": o.C, "prog": p}
}

// swapBin exchanges the operands of every binary node (a seeded adapter fault).
func swapBin(x any) any {
	switch v := x.(type) {
	case []any:
		r := make([]any, len(v))
		for i, e := range v {
			r[i] = swapBin(e)
		}
		return r
	case map[string]any:
		r := map[string]any{}
		for k, e := range v {
			r[k] = swapBin(e)
		}
		if r["k"] == "bin" {
			r["l"], r["r"] = r["r"], r["l"]
		}
		return r
	}
	return x
}

func norm(x any) any {
	b, err := json.Marshal(x)
	if err != nil {
		return fmt.Sprintf("unmarshalable: %v", err)
	}
	var y any
	json.Unmarshal(b, &y)
	return y
}

// Same compares an observed outcome with an expected one (JSON).
func Same(got any, want json.RawMessage) bool {
	var w any
	if json.Unmarshal(want, &w) != nil {
		return false
	}
	return reflect.DeepEqual(norm(got), w)
}

func expClass(raw json.RawMessage) string {
	var e struct {
		C string `json:"c"`
	}
	json.Unmarshal(raw, &e)
	return e.C
}

// Stats accumulates per-family counters.
type Stats struct {
	Distinct  sync.Map // distinct source texts whose tree was compared
	NDistinct int64
	mu      sync.Mutex
	PerFam  map[string]*[6]int64 // lines, accept, reject, skip, dev, nontrivial
	Samples []any
}

func (s *Stats) add(fam string, idx int) {
	s.mu.Lock()
	if s.PerFam[fam] == nil {
		s.PerFam[fam] = &[6]int64{}
	}
	s.PerFam[fam][idx]++
	s.mu.Unlock()
}

// RunCfg is one TLC run of a generator module.
type RunCfg struct {
	Name   string
	Module string
	Cfg    string
	Seed   int64
}

// Handler processes one line; it returns a non-nil error for harness faults only.
type Handler func(c *core.Ctx, l *Line, src string, st *Stats) error

// Drive runs the TLC configurations and feeds every line to the handler on a worker pool.
func Drive(c *core.Ctx, runs []RunCfg, h Handler) (*Stats, []map[string]any, int64, error) {
	st := &Stats{PerFam: map[string]*[6]int64{}}
	ch := make(chan []byte, 8192)
	var wg sync.WaitGroup
	var firstErr atomic.Value
	var nLines int64
	for i := 0; i < c.Workers; i++ {
		wg.Add(1)
		go func() {
			defer wg.Done()
			for raw := range ch {
				var l Line
				if err := json.Unmarshal(raw, &l); err != nil {
					firstErr.CompareAndSwap(nil, fmt.Errorf("bad line: %v: %s", err, raw[:min(len(raw), 200)]))
					continue
				}
				atomic.AddInt64(&nLines, 1)
				if l.Bug != "" {
					firstErr.CompareAndSwap(nil, fmt.Errorf("SPECIFICATION SELF-CHECK FAILED (%s): fam=%s tag=%s src=%q", l.Bug, l.Fam, l.Tag, FromUnits(l.Src)))
					continue
				}
				if err := h(c, &l, FromUnits(l.Src), st); err != nil {
					firstErr.CompareAndSwap(nil, err)
				}
			}
		}()
	}
	var tlcStats []map[string]any
	var runErr error
	for _, rc := range runs {
		o := tlc.Opts{SpecDir: c.SpecDir, Module: rc.Module, Cfg: rc.Cfg, Workers: c.Workers, Seed: rc.Seed, Timeout: 40 * time.Minute}
		res, err := tlc.Run(o, func(p []byte) {
			b := make([]byte, len(p))
			copy(b, p)
			ch <- b
		})
		if res != nil {
			tlcStats = append(tlcStats, map[string]any{"config": rc.Name, "generated": res.Generated, "distinct": res.Distinct, "lines": res.Lines, "wall_s": res.Wall})
		}
		if err != nil {
			runErr = err
			break
		}
	}
	close(ch)
	wg.Wait()
	if runErr != nil {
		return nil, nil, 0, runErr
	}
	if e := firstErr.Load(); e != nil {
		return nil, nil, 0, e.(error)
	}
	return st, tlcStats, nLines, nil
}

// handle is the C03 comparison: the projected tree must equal the tree the
// specification assigns (or the parse must be rejected where it says so).
func handle(c *core.Ctx, l *Line, src string, st *Stats) error {
	st.add(l.Fam, 0)
	want := expClass(l.Exp)
	out := Parse(src, 0)
	if out.C == "panic" || out.C == "hang" {
		c.Violate(fmt.Sprintf("parser %s on %q: %s", out.C, src, out.Msg), map[string]any{"src": src, "units": l.Src, "outcome": out.C, "msg": out.Msg})
		return nil
	}
	if want == "skip" {
		st.add(l.Fam, 3)
		return nil
	}
	got := out.JSON()
	if Same(got, l.Exp) {
		if want == "accept" {
			if _, seen := st.Distinct.LoadOrStore(src, true); !seen {
				atomic.AddInt64(&st.NDistinct, 1)
			}
			st.add(l.Fam, 1)
		} else {
			st.add(l.Fam, 2)
		}
		st.mu.Lock()
		if len(st.Samples) < 8 && (st.PerFam[l.Fam][0]%997 == 1) {
			st.Samples = append(st.Samples, map[string]any{"fam": l.Fam, "src": src, "expected": l.Exp})
		}
		st.mu.Unlock()
		return nil
	}
	if len(l.Dev) > 0 && Same(got, l.Dev[0]) {
		st.add(l.Fam, 4)
		c.Hit("deviation")
		return nil
	}
	if len(l.Dev) > 0 && expClass(l.Dev[0]) == "skip" {
		// under the open deviations the text is tokenised differently: not decidable at the token level
		st.add(l.Fam, 3)
		return nil
	}
	g, _ := json.Marshal(got)
	detail := fmt.Sprintf("[%s/%s] %q  =>  parser %s ; specification %s", l.Fam, l.Tag, src, trunc(string(g), 400), trunc(string(l.Exp), 400))
	if out.C == "reject" {
		detail = fmt.Sprintf("[%s/%s] %q  =>  parser rejects (%s) ; specification %s", l.Fam, l.Tag, src, trunc(out.Msg, 120), trunc(string(l.Exp), 400))
	}
	c.Violate(detail, map[string]any{"src": src, "units": l.Src, "observed": got, "expected": l.Exp, "fam": l.Fam, "tag": l.Tag})
	return nil
}

func trunc(s string, n int) string {
	if len(s) > n {
		return s[:n] + "..."
	}
	return s
}

// Cfg renders a configuration of spec/C03.tla.
func Cfg(c *core.Ctx, fams []string, nsel, fullMod int) string {
	return fmt.Sprintf("CONSTANTS\n OpenDev = %s\n Fams = %s\n NSel = %d\n Salt = %d\n FullMod = %d\nINIT Init\nNEXT Next\nINVARIANT Emit\nCHECK_DEADLOCK FALSE\n",
		core.TLASet(c.Findings.OpenIDs()), core.TLASet(fams), nsel, c.Seed%1000, fullMod)
}

// MutCfg renders a configuration of spec/C04.tla (token-level mutants of the seed pool).
func MutCfg(c *core.Ctx, fams []string, nsel int) string {
	return fmt.Sprintf("CONSTANTS\n OpenDev = %s\n Fams = %s\n NSel = %d\n Salt = %d\n FullMod = 1\nINIT MInit\nNEXT MNext\nINVARIANT MEmit\nCHECK_DEADLOCK FALSE\n",
		core.TLASet(c.Findings.OpenIDs()), core.TLASet(fams), nsel, c.Seed%1000)
}

var allFams = []string{"e1", "e2", "e3", "prim", "stmt", "nest", "seq", "lit", "key", "long", "rw", "reasi", "divasi", "lc", "lex"}

// Check is the C03 property check.
func Check(c *core.Ctx) (map[string]any, []string, error) {
	Mutant = os.Getenv("C03_MUTANT")
	if s := os.Getenv("C03_DUMP"); s != "" { // development aid: print the projection of one source text
		o := Parse(s, 0)
		b, _ := json.Marshal(o.JSON())
		fmt.Printf("%s\n%s %s\n", s, b, o.Msg)
	}
	nsel, fullMod := 6, 3
	if c.Thorough() {
		nsel, fullMod = 200, 1
	}
	fams := allFams
	if f := os.Getenv("C03_FAMS"); f != "" {
		fams = strings.Split(f, ",")
	}
	runs := []RunCfg{{Name: "trees-and-token-sequences(" + strings.Join(fams, ",") + ")", Module: "C03", Cfg: Cfg(c, fams, nsel, fullMod), Seed: c.Seed}}
	if c.Thorough() && os.Getenv("C03_FAMS") == "" {
		// the accepted token-level mutants of spec/C04.tla are valid programs too: their trees are compared here
		runs = append(runs, RunCfg{Name: "token-mutants-of-the-seed-pool(tree comparison)", Module: "C04", Cfg: MutCfg(c, []string{"mut"}, 400), Seed: c.Seed})
	}
	st, tlcStats, nLines, err := Drive(c, runs, handle)
	if err != nil {
		return nil, nil, err
	}
	// judge direction: random deeper programs generated here, classified by TLC
	nJudge := 3000
	if c.Thorough() {
		nJudge = 12000
	}
	var judged map[string]any
	if os.Getenv("C03_FAMS") == "" || os.Getenv("C03_JUDGE") != "" {
		if judged, err = JudgeRandom(c, nJudge); err != nil {
			return nil, nil, err
		}
		nLines += int64(judged["random_programs_judged"].(int))
	}
	// binding self-test: the same comparison with a seeded fault in the adapter must fail
	self := selfTest()
	if self["rejected_with_swapped_operands"].(int) == 0 {
		return nil, nil, fmt.Errorf("binding self-test: a projection that swaps binary operands was not rejected")
	}
	var states, trans int64
	for _, s := range tlcStats {
		states += s["distinct"].(int64)
		trans += s["generated"].(int64)
	}
	per := map[string]any{}
	var nontrivial int64
	keys := []string{}
	for k := range st.PerFam {
		keys = append(keys, k)
	}
	sort.Strings(keys)
	for _, k := range keys {
		v := st.PerFam[k]
		per[k] = map[string]int64{"renderings": v[0], "accept_tree_equal": v[1], "reject_agreed": v[2], "outside_es5_skipped": v[3], "known_deviation": v[4]}
		nontrivial += v[1]
	}
	if len(st.Samples) == 0 {
		st.Samples = append(st.Samples, "no sample")
	}
	cov := map[string]any{
		"states": states, "transitions": trans, "traces_validated_against_impl": nLines, "samples": st.Samples,
		"tlc_runs": tlcStats, "families": per, "evaluations": nLines, "distinct_nontrivial": st.NDistinct, "trees_compared_node_by_node": nontrivial, "binding_selftest": self, "judge_direction": judged,
		"rule": "distinct_nontrivial = distinct source texts that the specification accepts and whose projected tree was compared node by node; a TLC state is one syntax tree or token sequence; a line is one rendering of it (separators, line terminators, redundant parentheses, dropped semicolons); expected tree/rejection computed by Grammar!Classify; every tree-derived rendering also passed ParseProgram(Toks(tree)) = tree inside TLC",
	}
	assume := []string{
		"trusted: projection of otto's ast into the record shape of spec/Grammar.tla (harness/internal/c03/project.go), UTF-16 -> UTF-8 conversion of the source text, TLC",
		"the character-level lexer is exercised through the renderings the specification chooses (separator alphabet of 7.2-7.4, literal pools, hand-tokenised texts of family lex); regular expression BODIES come from a pool of valid patterns (pattern grammar: C10)",
		"non-strict code only (otto has no strict mode); FunctionDeclarations in statement position, calls as assignment targets, \\8 \\9 and octal escapes followed by 8/9 are outside ES5 and not judged",
	}
	return cov, assume, nil
}

// selfTest: a handful of fixed programs, compared against their own projection with and without the seeded fault.
func selfTest() map[string]any {
	srcs := []string{"a - b;", "x = a < b;", "f(a / 2);", "for (;a % b;);"}
	rej := 0
	for _, s := range srcs {
		o := Parse(s, 0)
		b, _ := json.Marshal(o.jsonWith(""))
		if !Same(o.jsonWith("swapbin"), b) && Same(o.jsonWith(""), b) {
			rej++
		}
	}
	return map[string]any{"programs": len(srcs), "rejected_with_swapped_operands": rej}
}
