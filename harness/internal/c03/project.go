// Package c03: the parser builds the tree the ES5 grammar dictates
// (spec/Grammar.tla, spec/C03.tla).  This file is the trusted projection of
// otto's ast into the record shape of spec/Grammar.tla (a type switch over
// ast/node.go); it computes nothing about what the tree SHOULD be.
package c03

import (
	"fmt"
	"unicode/utf16"

	"github.com/robertkrimen/otto/ast"
	"github.com/robertkrimen/otto/token"

	"verif/harness/internal/num"
)

// M is a projected node.
type M = map[string]any

// Units converts a Go string to UTF-16 code units.
func Units(s string) []any {
	u := utf16.Encode([]rune(s))
	r := make([]any, len(u))
	for i, x := range u {
		r[i] = float64(x)
	}
	return r
}

// FromUnits converts UTF-16 code units to a Go (UTF-8) string.  A value of
// 65536 + b stands for the raw byte b (the specification's way to put an
// ill-formed UTF-8 sequence into a source text).
func FromUnits(us []int) string {
	var out []byte
	var run []uint16
	flush := func() {
		if len(run) > 0 {
			out = append(out, string(utf16.Decode(run))...)
			run = run[:0]
		}
	}
	for _, x := range us {
		if x >= 65536 {
			flush()
			out = append(out, byte(x-65536))
		} else {
			run = append(run, uint16(x))
		}
	}
	flush()
	return string(out)
}

// name renders an identifier name: plain ASCII as is, other units as \uXXXX
// (the specification names such identifiers by that spelling).
func name(s string) string {
	ascii := true
	for _, r := range s {
		if r >= 0x7f || r < 0x20 {
			ascii = false
		}
	}
	if ascii {
		return s
	}
	out := ""
	for _, u := range utf16.Encode([]rune(s)) {
		if u < 0x7f && u >= 0x20 {
			out += string(rune(u))
		} else {
			out += fmt.Sprintf("\\u%04X", u)
		}
	}
	return out
}

func numVal(v any) any {
	var f float64
	switch x := v.(type) {
	case int64:
		f = float64(x)
	case float64:
		f = x
	case int:
		f = float64(x)
	default:
		return M{"c": fmt.Sprintf("unknown %T", v)}
	}
	n := num.Of(f)
	m := M{"c": n.C}
	if n.V != nil {
		m["v"] = float64(*n.V)
	}
	if n.Neg != nil {
		m["neg"] = *n.Neg
	}
	if n.M != nil {
		l := make([]any, len(n.M))
		for i, x := range n.M {
			l[i] = float64(x)
		}
		m["m"] = l
	}
	if n.E != nil {
		m["e"] = float64(*n.E)
	}
	return m
}

func exprs(es []ast.Expression) []any {
	r := make([]any, 0, len(es))
	for _, e := range es {
		r = append(r, Expr(e))
	}
	return r
}

func stmts(ss []ast.Statement) []any {
	r := make([]any, 0, len(ss))
	for _, s := range ss {
		r = append(r, Stmt(s))
	}
	return r
}

func opt(e ast.Expression) []any {
	if e == nil {
		return []any{}
	}
	return []any{Expr(e)}
}

func fn(kind string, f *ast.FunctionLiteral) M {
	nm := ""
	if f.Name != nil {
		nm = name(f.Name.Name)
	}
	ps := []any{}
	if f.ParameterList != nil {
		for _, p := range f.ParameterList.List {
			ps = append(ps, name(p.Name))
		}
	}
	var body []any
	if b, ok := f.Body.(*ast.BlockStatement); ok && b != nil {
		body = stmts(b.List)
	} else {
		body = []any{M{"k": "bad"}}
	}
	return M{"k": kind, "name": nm, "params": ps, "body": body}
}

func varDecl(v *ast.VariableExpression) M {
	return M{"n": name(v.Name), "init": opt(v.Initializer)}
}

// Expr projects an expression.
func Expr(e ast.Expression) any {
	switch n := e.(type) {
	case *ast.Identifier:
		return M{"k": "id", "n": name(n.Name)}
	case *ast.NumberLiteral:
		return M{"k": "num", "v": numVal(n.Value)}
	case *ast.StringLiteral:
		return M{"k": "str", "s": Units(n.Value)}
	case *ast.BooleanLiteral:
		return M{"k": "bool", "b": n.Value}
	case *ast.NullLiteral:
		return M{"k": "null"}
	case *ast.ThisExpression:
		return M{"k": "this"}
	case *ast.RegExpLiteral:
		return M{"k": "re", "body": Units(n.Pattern), "flags": Units(n.Flags)}
	case *ast.EmptyExpression:
		return M{"k": "hole"}
	case *ast.ArrayLiteral:
		return M{"k": "arr", "el": exprs(n.Value)}
	case *ast.ObjectLiteral:
		pr := make([]any, 0, len(n.Value))
		for _, p := range n.Value {
			pr = append(pr, M{"kind": p.Kind, "key": Units(p.Key), "val": Expr(p.Value)})
		}
		return M{"k": "obj", "pr": pr}
	case *ast.FunctionLiteral:
		return fn("fn", n)
	case *ast.UnaryExpression:
		if n.Operator == token.INCREMENT || n.Operator == token.DECREMENT {
			return M{"k": "upd", "op": n.Operator.String(), "pre": !n.Postfix, "e": Expr(n.Operand)}
		}
		if n.Postfix {
			return M{"k": "bad", "why": "postfix " + n.Operator.String()}
		}
		return M{"k": "un", "op": n.Operator.String(), "e": Expr(n.Operand)}
	case *ast.BinaryExpression:
		return M{"k": "bin", "op": n.Operator.String(), "l": Expr(n.Left), "r": Expr(n.Right)}
	case *ast.SequenceExpression:
		// Expression : Expression , AssignmentExpression is left-associative
		if len(n.Sequence) == 0 {
			return M{"k": "bad", "why": "empty sequence"}
		}
		acc := Expr(n.Sequence[0])
		for _, x := range n.Sequence[1:] {
			acc = M{"k": "seq", "l": acc, "r": Expr(x)}
		}
		return acc
	case *ast.ConditionalExpression:
		return M{"k": "cond", "t": Expr(n.Test), "a": Expr(n.Consequent), "b": Expr(n.Alternate)}
	case *ast.AssignExpression:
		return M{"k": "asg", "op": n.Operator.String(), "l": Expr(n.Left), "r": Expr(n.Right)}
	case *ast.DotExpression:
		return M{"k": "dot", "o": Expr(n.Left), "n": name(n.Identifier.Name)}
	case *ast.BracketExpression:
		return M{"k": "idx", "o": Expr(n.Left), "p": Expr(n.Member)}
	case *ast.CallExpression:
		return M{"k": "call", "f": Expr(n.Callee), "args": exprs(n.ArgumentList)}
	case *ast.NewExpression:
		return M{"k": "new", "f": Expr(n.Callee), "args": exprs(n.ArgumentList), "pa": n.RightParenthesis > 0}
	case *ast.VariableExpression:
		return M{"k": "bad", "why": "variable expression outside a declaration"}
	case *ast.BadExpression:
		return M{"k": "bad"}
	case nil:
		return M{"k": "bad", "why": "nil expression"}
	}
	return M{"k": "bad", "why": fmt.Sprintf("%T", e)}
}

func block(s ast.Statement) []any {
	if b, ok := s.(*ast.BlockStatement); ok && b != nil {
		return stmts(b.List)
	}
	return []any{M{"k": "bad", "why": "not a block"}}
}

// forInit projects the initializer of a for statement: otto always wraps it
// in a SequenceExpression (the declarations of `var`, or the one expression).
func forInit(e ast.Expression) []any {
	if e == nil {
		return []any{}
	}
	sq, ok := e.(*ast.SequenceExpression)
	if !ok {
		return []any{Expr(e)}
	}
	if len(sq.Sequence) == 0 {
		return []any{}
	}
	if _, isVar := sq.Sequence[0].(*ast.VariableExpression); isVar {
		ds := []any{}
		for _, x := range sq.Sequence {
			v, ok := x.(*ast.VariableExpression)
			if !ok {
				return []any{M{"k": "bad", "why": "mixed for initializer"}}
			}
			ds = append(ds, varDecl(v))
		}
		return []any{M{"k": "var", "decls": ds}}
	}
	if len(sq.Sequence) == 1 {
		return []any{Expr(sq.Sequence[0])}
	}
	return []any{Expr(sq)}
}

// Stmt projects a statement.
func Stmt(s ast.Statement) any {
	switch n := s.(type) {
	case *ast.ExpressionStatement:
		return M{"k": "expr", "e": Expr(n.Expression)}
	case *ast.VariableStatement:
		ds := []any{}
		for _, x := range n.List {
			v, ok := x.(*ast.VariableExpression)
			if !ok {
				return M{"k": "bad", "why": "declaration list"}
			}
			ds = append(ds, varDecl(v))
		}
		return M{"k": "var", "decls": ds}
	case *ast.BlockStatement:
		return M{"k": "block", "body": stmts(n.List)}
	case *ast.IfStatement:
		b := []any{}
		if n.Alternate != nil {
			b = []any{Stmt(n.Alternate)}
		}
		return M{"k": "if", "t": Expr(n.Test), "a": Stmt(n.Consequent), "b": b}
	case *ast.ForStatement:
		return M{"k": "for", "init": forInit(n.Initializer), "test": opt(n.Test), "update": opt(n.Update), "body": Stmt(n.Body)}
	case *ast.ForInStatement:
		var left any
		if v, ok := n.Into.(*ast.VariableExpression); ok {
			left = M{"k": "var", "decls": []any{varDecl(v)}}
		} else {
			left = Expr(n.Into)
		}
		return M{"k": "forin", "left": left, "obj": Expr(n.Source), "body": Stmt(n.Body)}
	case *ast.WhileStatement:
		return M{"k": "while", "t": Expr(n.Test), "body": Stmt(n.Body)}
	case *ast.DoWhileStatement:
		return M{"k": "dowhile", "body": Stmt(n.Body), "t": Expr(n.Test)}
	case *ast.BranchStatement:
		l := ""
		if n.Label != nil {
			l = name(n.Label.Name)
		}
		return M{"k": n.Token.String(), "l": l}
	case *ast.ReturnStatement:
		return M{"k": "return", "e": opt(n.Argument)}
	case *ast.ThrowStatement:
		return M{"k": "throw", "e": Expr(n.Argument)}
	case *ast.TryStatement:
		r := M{"k": "try", "block": block(n.Body), "param": "", "handler": []any{}, "hasH": false, "fin": []any{}, "hasF": false}
		if n.Catch != nil {
			r["hasH"] = true
			if n.Catch.Parameter != nil {
				r["param"] = name(n.Catch.Parameter.Name)
			}
			r["handler"] = block(n.Catch.Body)
		}
		if n.Finally != nil {
			r["hasF"] = true
			r["fin"] = block(n.Finally)
		}
		return r
	case *ast.SwitchStatement:
		cs := []any{}
		for _, c := range n.Body {
			cs = append(cs, M{"test": opt(c.Test), "body": stmts(c.Consequent)})
		}
		return M{"k": "switch", "d": Expr(n.Discriminant), "cases": cs}
	case *ast.LabelledStatement:
		return M{"k": "label", "l": name(n.Label.Name), "body": Stmt(n.Statement)}
	case *ast.WithStatement:
		return M{"k": "with", "o": Expr(n.Object), "body": Stmt(n.Body)}
	case *ast.FunctionStatement:
		return fn("fdecl", n.Function)
	case *ast.EmptyStatement:
		return M{"k": "empty"}
	case *ast.DebuggerStatement:
		return M{"k": "debugger"}
	case *ast.BadStatement:
		return M{"k": "bad"}
	case nil:
		return M{"k": "bad", "why": "nil statement"}
	}
	return M{"k": "bad", "why": fmt.Sprintf("%T", s)}
}

// Program projects a whole program.
func Program(p *ast.Program) []any { return stmts(p.Body) }
