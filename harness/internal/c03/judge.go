package c03

// Judge direction (code -> specification): random token sequences drawn here
// are rendered, parsed by the implementation and recorded; TLC judges them
// with spec/C03Judge.tla (Grammar!Classify of the token sequence).  Go only
// generates inputs and projects outcomes.

import (
	"bytes"
	"encoding/json"
	"fmt"
	"math/rand"
	"strings"
	"time"

	"verif/harness/internal/core"
	"verif/harness/internal/tlc"
)

// Tok is a token in the shape of spec/Grammar.tla.
type Tok struct {
	T   string `json:"t"`
	V   string `json:"v"`
	NL  bool   `json:"nl"`
	Src []int  `json:"src,omitempty"`
}

func tp(v string) Tok { return Tok{T: "p", V: v} }
func tk(v string) Tok { return Tok{T: "k", V: v} }
func ti(v string) Tok { return Tok{T: "id", V: v} }
func tnum(s string) Tok {
	src := make([]int, len(s))
	for i := range s {
		src[i] = int(s[i])
	}
	return Tok{T: "num", V: "", Src: src}
}

func (t Tok) text() string {
	if t.T == "num" {
		b := make([]byte, len(t.Src))
		for i, u := range t.Src {
			b[i] = byte(u)
		}
		return string(b)
	}
	return t.V
}

type jgen struct{ rng *rand.Rand }

var jBin = []string{"||", "&&", "|", "^", "&", "==", "!=", "===", "!==", "<", ">", "<=", ">=", "<<", ">>", ">>>", "+", "-", "*", "%", ","}
var jAsg = []string{"=", "+=", "-=", "*=", "%=", "<<=", ">>=", ">>>=", "&=", "|=", "^="}
var jUn = []string{"+", "-", "!", "~"}
var jUnK = []string{"typeof", "void", "delete"}
var jIds = []string{"a", "b", "c", "d", "e"}

// maybeParen wraps a token list in parentheses with probability p.
func (g *jgen) maybeParen(ts []Tok, p float64) []Tok {
	if g.rng.Float64() < p {
		return append(append([]Tok{tp("(")}, ts...), tp(")"))
	}
	return ts
}

// expr: a random expression; parentheses around operands are present with
// probability keep (so the grouping is often left to precedence and
// associativity, sometimes to no valid parse at all: the specification decides).
func (g *jgen) expr(depth int, keep float64) []Tok {
	if depth <= 0 || g.rng.Intn(6) == 0 {
		switch g.rng.Intn(8) {
		case 0:
			return []Tok{tnum([]string{"1", "0", "2.5", "0x10", "010"}[g.rng.Intn(5)])}
		case 1:
			return []Tok{tk("this")}
		default:
			return []Tok{ti(jIds[g.rng.Intn(len(jIds))])}
		}
	}
	sub := func() []Tok { return g.maybeParen(g.expr(depth-1, keep), keep) }
	switch g.rng.Intn(16) {
	case 0, 1, 2, 3, 4, 5:
		op := jBin[g.rng.Intn(len(jBin))]
		return append(append(sub(), tp(op)), sub()...)
	case 6:
		op := []string{"in", "instanceof"}[g.rng.Intn(2)]
		return append(append(sub(), tk(op)), sub()...)
	case 7:
		return append(append(sub(), tp("/")), sub()...)
	case 8:
		lhs := []Tok{ti(jIds[g.rng.Intn(len(jIds))])}
		if g.rng.Intn(3) == 0 {
			lhs = append(lhs, tp("."), ti("m"))
		}
		return append(append(lhs, tp(jAsg[g.rng.Intn(len(jAsg))])), sub()...)
	case 9:
		r := append(sub(), tp("?"))
		r = append(r, sub()...)
		r = append(r, tp(":"))
		return append(r, sub()...)
	case 10:
		if g.rng.Intn(2) == 0 {
			return append([]Tok{tp(jUn[g.rng.Intn(len(jUn))])}, sub()...)
		}
		return append([]Tok{tk(jUnK[g.rng.Intn(len(jUnK))])}, sub()...)
	case 11:
		op := []string{"++", "--"}[g.rng.Intn(2)]
		t := []Tok{ti(jIds[g.rng.Intn(len(jIds))])}
		if g.rng.Intn(2) == 0 {
			return append([]Tok{tp(op)}, t...)
		}
		return append(t, tp(op))
	case 12:
		return append(sub(), tp("."), ti("m"))
	case 13:
		r := append(sub(), tp("["))
		r = append(r, sub()...)
		return append(r, tp("]"))
	case 14:
		r := append(sub(), tp("("))
		n := g.rng.Intn(3)
		for i := 0; i < n; i++ {
			if i > 0 {
				r = append(r, tp(","))
			}
			r = append(r, sub()...)
		}
		return append(r, tp(")"))
	default:
		r := append([]Tok{tk("new")}, sub()...)
		if g.rng.Intn(2) == 0 {
			r = append(r, tp("("), tp(")"))
		}
		return r
	}
}

func (g *jgen) stmt(depth int) []Tok {
	e := func() []Tok { return g.expr(2+g.rng.Intn(3), 0.35) }
	semi := func(ts []Tok) []Tok {
		if g.rng.Intn(4) == 0 {
			return ts // rely on automatic semicolon insertion (or not)
		}
		return append(ts, tp(";"))
	}
	if depth <= 0 {
		return semi(e())
	}
	par := func(ts []Tok) []Tok { return append(append([]Tok{tp("(")}, ts...), tp(")")) }
	switch g.rng.Intn(12) {
	case 0:
		r := append([]Tok{tk("if")}, par(e())...)
		r = append(r, g.stmt(depth-1)...)
		if g.rng.Intn(2) == 0 {
			r = append(append(r, tk("else")), g.stmt(depth-1)...)
		}
		return r
	case 1:
		return append(append([]Tok{tk("while")}, par(e())...), g.stmt(depth-1)...)
	case 2:
		r := append([]Tok{tk("do")}, g.stmt(depth-1)...)
		return semi(append(append(r, tk("while")), par(e())...))
	case 3:
		r := []Tok{tk("for"), tp("(")}
		if g.rng.Intn(2) == 0 {
			r = append(r, tk("var"), ti("i"), tp("="))
		}
		r = append(r, e()...)
		if g.rng.Intn(4) == 0 {
			r = append(append(r, tk("in")), e()...)
		} else {
			r = append(append(append(append(r, tp(";")), e()...), tp(";")), e()...)
		}
		return append(append(r, tp(")")), g.stmt(depth-1)...)
	case 4:
		r := []Tok{tp("{")}
		for i := g.rng.Intn(3); i > 0; i-- {
			r = append(r, g.stmt(depth-1)...)
		}
		return append(r, tp("}"))
	case 5:
		return semi(append([]Tok{tk("var"), ti("v"), tp("=")}, e()...))
	case 6:
		r := []Tok{tk("function"), ti("f"), tp("("), ti("p"), tp(")"), tp("{")}
		r = append(r, g.stmt(depth-1)...)
		r = append(r, semi(append([]Tok{tk("return")}, e()...))...)
		return append(r, tp("}"))
	case 7:
		return append([]Tok{ti("L"), tp(":")}, g.stmt(depth-1)...)
	case 8:
		return semi([]Tok{tk([]string{"break", "continue"}[g.rng.Intn(2)])})
	case 9:
		return semi(append([]Tok{tk("throw")}, e()...))
	case 10:
		r := append(append([]Tok{tk("switch")}, par(e())...), tp("{"))
		for i := g.rng.Intn(3); i > 0; i-- {
			r = append(append(append(r, tk("case")), e()...), tp(":"))
			r = append(r, g.stmt(depth-1)...)
		}
		return append(r, tp("}"))
	default:
		return semi(e())
	}
}

type jrec struct {
	ID   int `json:"id"`
	Toks []Tok `json:"toks"`
	Got  any `json:"got"`
	src  string
}

// JudgeRandom generates n random programs, records the parser's outcome and lets TLC judge them.
func JudgeRandom(c *core.Ctx, n int) (map[string]any, error) {
	rng := rand.New(rand.NewSource(c.Seed*7919 + 17))
	g := &jgen{rng: rng}
	recs := make([]jrec, 0, n)
	for i := 0; i < n; i++ {
		var ts []Tok
		if i%2 == 0 {
			ts = append(g.expr(3+rng.Intn(4), []float64{0, 0.2, 0.5}[rng.Intn(3)]), tp(";"))
		} else {
			for k := 1 + rng.Intn(3); k > 0; k-- {
				ts = append(ts, g.stmt(2)...)
			}
		}
		if len(ts) > 120 {
			continue
		}
		var sb strings.Builder
		for j := range ts {
			if j > 0 {
				if rng.Intn(12) == 0 {
					ts[j].NL = true
					sb.WriteByte('\n')
				} else {
					sb.WriteByte(' ')
				}
			}
			sb.WriteString(ts[j].text())
		}
		src := sb.String()
		out := Parse(src, 0)
		if out.C == "panic" || out.C == "hang" {
			c.Violate(fmt.Sprintf("parser %s on %q: %s", out.C, src, out.Msg), map[string]any{"src": src})
			continue
		}
		recs = append(recs, jrec{ID: len(recs) + 1, Toks: ts, Got: out.JSON(), src: src})
	}
	var buf bytes.Buffer
	enc := json.NewEncoder(&buf)
	for _, r := range recs {
		if err := enc.Encode(r); err != nil {
			return nil, err
		}
	}
	cfg := fmt.Sprintf("CONSTANTS\n OpenDev = %s\nINIT Init\nNEXT Next\nINVARIANT Judge\nCHECK_DEADLOCK FALSE\n", core.TLASet(c.Findings.OpenIDs()))
	var nDev, nBad, nSkip int
	t0 := time.Now()
	res, err := tlc.Run(tlc.Opts{SpecDir: c.SpecDir, Module: "C03Judge", Cfg: cfg, Workers: c.Workers, Files: map[string][]byte{"trace.ndjson": buf.Bytes()}, Timeout: 30 * time.Minute},
		func(p []byte) {
			var v struct {
				ID      int             `json:"id"`
				Verdict string          `json:"verdict"`
				Want    json.RawMessage `json:"want"`
			}
			if json.Unmarshal(p, &v) != nil || v.ID < 1 || v.ID > len(recs) {
				return
			}
			r := recs[v.ID-1]
			switch v.Verdict {
			case "dev":
				nDev++
				c.Hit("deviation")
			case "skip":
				nSkip++
			default:
				nBad++
				gj, _ := json.Marshal(r.Got)
				c.Violate(fmt.Sprintf("[judge] %q  =>  parser %s ; specification %s", r.src, trunc(string(gj), 400), trunc(string(v.Want), 400)),
					map[string]any{"src": r.src, "toks": r.Toks, "observed": r.Got, "expected": v.Want})
			}
		})
	if err != nil {
		return nil, err
	}
	nAcc := 0
	for _, r := range recs {
		if m, ok := r.Got.(map[string]any); ok && m["c"] == "accept" {
			nAcc++
		}
	}
	sample := ""
	if len(recs) > 0 {
		sample = recs[len(recs)/2].src
	}
	return map[string]any{"random_programs_judged": len(recs), "accepted_by_parser": nAcc, "known_deviation": nDev, "outside_es5_skipped": nSkip, "bad": nBad,
		"states": res.Distinct, "wall_s": time.Since(t0).Seconds(), "sample": sample}, nil
}
