// Package num is the trusted projection between float64 and the
// specification's exact number representation (spec/Num.tla).
package num

import (
	"encoding/json"
	"fmt"
	"math"
	"math/big"
)

// N is the JSON form of a Num.tla value.
type N struct {
	C   string `json:"c"`
	V   *int64 `json:"v,omitempty"`
	Neg *bool  `json:"neg,omitempty"`
	M   []int  `json:"m,omitempty"`
	E   *int   `json:"e,omitempty"`
}

func b(x bool) *bool { return &x }

// Of encodes a float64.
func Of(f float64) N {
	switch {
	case math.IsNaN(f):
		return N{C: "nan"}
	case math.IsInf(f, 0):
		return N{C: "inf", Neg: b(f < 0)}
	case f == 0:
		if math.Signbit(f) {
			return N{C: "nzero"}
		}
		z := int64(0)
		return N{C: "int", V: &z}
	}
	if f == math.Trunc(f) && math.Abs(f) <= 1<<30 {
		v := int64(f)
		return N{C: "int", V: &v}
	}
	bits := math.Float64bits(f)
	neg := bits>>63 != 0
	exp := int((bits >> 52) & 0x7ff)
	man := bits & (1<<52 - 1)
	var e int
	if exp == 0 {
		e = -1074
	} else {
		man |= 1 << 52
		e = exp - 1075
	}
	for man&1 == 0 {
		man >>= 1
		e++
	}
	var limbs []int
	for man != 0 {
		limbs = append(limbs, int(man&0x7fff))
		man >>= 15
	}
	return N{C: "big", Neg: b(neg), M: limbs, E: &e}
}

// Float decodes a Num (exactly; the spec only emits representable values).
func (n N) Float() (float64, error) {
	switch n.C {
	case "nan":
		return math.NaN(), nil
	case "inf":
		if n.Neg != nil && *n.Neg {
			return math.Inf(-1), nil
		}
		return math.Inf(1), nil
	case "nzero":
		return math.Copysign(0, -1), nil
	case "int":
		if n.V == nil {
			return 0, nil // v omitted means 0 only if encoder dropped it; we never drop
		}
		return float64(*n.V), nil
	case "big":
		m := new(big.Int)
		for i := len(n.M) - 1; i >= 0; i-- {
			m.Lsh(m, 15)
			m.Or(m, big.NewInt(int64(n.M[i])))
		}
		if m.BitLen() > 53 {
			return 0, fmt.Errorf("mantissa of %d bits", m.BitLen())
		}
		f := new(big.Float).SetInt(m)
		f.SetMantExp(f, *n.E)
		r, acc := f.Float64()
		if acc != big.Exact {
			return 0, fmt.Errorf("inexact big %v", n)
		}
		if n.Neg != nil && *n.Neg {
			r = -r
		}
		return r, nil
	}
	return 0, fmt.Errorf("bad num class %q", n.C)
}

// Same reports whether two floats are the same double (NaN = NaN, +0 != -0).
func Same(a, b float64) bool {
	if math.IsNaN(a) || math.IsNaN(b) {
		return math.IsNaN(a) && math.IsNaN(b)
	}
	return math.Float64bits(a) == math.Float64bits(b)
}

func (n N) String() string { s, _ := json.Marshal(n); return string(s) }

// UnmarshalJSON keeps "v":0 distinguishable.
func (n *N) UnmarshalJSON(data []byte) error {
	type raw struct {
		C   string `json:"c"`
		V   *int64 `json:"v"`
		Neg *bool  `json:"neg"`
		M   []int  `json:"m"`
		E   *int   `json:"e"`
	}
	var r raw
	if err := json.Unmarshal(data, &r); err != nil {
		return err
	}
	*n = N{C: r.C, V: r.V, Neg: r.Neg, M: r.M, E: r.E}
	return nil
}
