// Package c01: programs (property C01).  Programs are abstract syntax trees in
// the JSON shape spec/ES5Core.tla evaluates; this file has the constructors,
// the renderer to source text, and the seeded random generator.
package c01

import (
	"fmt"
	"math/rand"
	"strings"
	"unicode/utf16"
)

// N is an AST node (a JSON object).
type N = map[string]any

func units(s string) []int {
	u := utf16.Encode([]rune(s))
	r := make([]int, len(u))
	for i, x := range u {
		r[i] = int(x)
	}
	return r
}
func str(u any) string {
	us := u.([]int)
	r := make([]rune, len(us))
	for i, x := range us {
		r[i] = rune(x)
	}
	return string(r)
}

func list(ns ...N) []N {
	if ns == nil {
		return []N{}
	}
	return ns
}
func opt(n N) []N {
	if n == nil {
		return []N{}
	}
	return []N{n}
}

// expressions
func Num(i int) N                    { return N{"k": "num", "v": N{"c": "int", "v": i}} }
func Str(s string) N                 { return N{"k": "str", "s": units(s)} }
func Bool(b bool) N                  { return N{"k": "bool", "b": b} }
func Null() N                        { return N{"k": "null"} }
func This() N                        { return N{"k": "this"} }
func Id(n string) N                  { return N{"k": "id", "n": units(n)} }
func Un(op string, e N) N            { return N{"k": "un", "op": op, "e": e} }
func Undefined() N                   { return Un("void", Num(0)) }
func Upd(op string, pre bool, e N) N { return N{"k": "upd", "op": op, "pre": pre, "e": e} }
func Bin(op string, l, r N) N {
	if op == "&&" || op == "||" {
		return N{"k": "logic", "op": op, "l": l, "r": r}
	}
	if op == "," {
		return N{"k": "seq", "l": l, "r": r}
	}
	return N{"k": "bin", "op": op, "l": l, "r": r}
}
func Cond(t, a, b N) N        { return N{"k": "cond", "t": t, "a": a, "b": b} }
func Asg(op string, l, r N) N { return N{"k": "asg", "op": op, "l": l, "r": r} }
func Dot(o N, n string) N     { return N{"k": "dot", "o": o, "n": units(n)} }
func Idx(o, p N) N            { return N{"k": "idx", "o": o, "p": p} }
func Call(f N, args ...N) N   { return N{"k": "call", "f": f, "args": list(args...)} }
func New(f N, args ...N) N    { return N{"k": "new", "f": f, "args": list(args...)} }
func Arr(el ...N) N           { return N{"k": "arr", "el": list(el...)} }
func Obj(kv ...any) N { // key string, value N pairs
	pr := []N{}
	for i := 0; i+1 < len(kv); i += 2 {
		pr = append(pr, N{"key": units(kv[i].(string)), "val": kv[i+1].(N), "kind": "init"})
	}
	return N{"k": "obj", "pr": pr}
}

// WithAccessor adds a getter or setter (kind "get" / "set", fn a function expression) to an object literal.
func WithAccessor(obj N, kind, key string, fn N) N {
	obj["pr"] = append(asNodes(obj["pr"]), N{"key": units(key), "val": fn, "kind": kind})
	return obj
}
func Fn(name string, params []string, body ...N) N {
	ps := [][]int{}
	for _, p := range params {
		ps = append(ps, units(p))
	}
	return N{"k": "fn", "name": units(name), "params": ps, "body": list(body...)}
}
func EvalCall(direct bool, prog ...N) N {
	return N{"k": "eval", "direct": direct, "prog": list(prog...)}
}

// EvalVia is CALLEE("program text"): the callee is an arbitrary expression, so whether this is a
// direct eval, an indirect one or an ordinary call is decided at run time (15.1.2.1.1).
func EvalVia(callee N, prog ...N) N {
	return N{"k": "eval", "direct": false, "f": callee, "prog": list(prog...), "src": units(RenderProgram(prog))}
}

// statements
func Var(name string, init N) N {
	return N{"k": "var", "decls": []N{{"n": units(name), "init": opt(init)}}}
}
func Expr(e N) N        { return N{"k": "expr", "e": e} }
func Block(body ...N) N { return N{"k": "block", "body": list(body...)} }
func If(t, a, b N) N    { return N{"k": "if", "t": t, "a": a, "b": opt(b)} }
func For(init, test, update, body N) N {
	return N{"k": "for", "init": opt(init), "test": opt(test), "update": opt(update), "body": body}
}
func ForIn(decl bool, name string, obj, body N) N {
	return N{"k": "forin", "decl": decl, "n": units(name), "obj": obj, "body": body}
}
func While(t, body N) N   { return N{"k": "while", "t": t, "body": body} }
func DoWhile(body, t N) N { return N{"k": "dowhile", "body": body, "t": t} }
func Break(l string) N    { return N{"k": "break", "l": units(l)} }
func Continue(l string) N { return N{"k": "continue", "l": units(l)} }
func Return(e N) N        { return N{"k": "return", "e": opt(e)} }
func Throw(e N) N         { return N{"k": "throw", "e": e} }
func Try(block []N, param string, handler []N, hasH bool, fin []N, hasF bool) N {
	return N{"k": "try", "block": list(block...), "param": units(param), "handler": list(handler...), "hasH": hasH, "fin": list(fin...), "hasF": hasF}
}
func Case(test N, body ...N) N { return N{"test": opt(test), "body": list(body...)} }
func Switch(d N, cases ...N) N { return N{"k": "switch", "d": d, "cases": list(cases...)} }
func Label(l string, body N) N { return N{"k": "label", "l": units(l), "body": body} }
func With(o, body N) N         { return N{"k": "with", "o": o, "body": body} }
func FDecl(name string, params []string, body ...N) N {
	n := Fn(name, params, body...)
	n["k"] = "fdecl"
	return n
}
func Empty() N { return N{"k": "empty"} }

// ---------------------------------------------------------------------------
// renderer: every sub-expression is parenthesised (precedence is C03's business)

func jsStr(us []int) string {
	var b strings.Builder
	b.WriteByte('"')
	for _, u := range us {
		if u >= 0x20 && u < 0x7f && u != '"' && u != '\\' {
			b.WriteByte(byte(u))
		} else {
			fmt.Fprintf(&b, "\\u%04X", u)
		}
	}
	b.WriteByte('"')
	return b.String()
}

func asNodes(v any) []N {
	switch x := v.(type) {
	case []N:
		return x
	case []any:
		r := make([]N, len(x))
		for i, e := range x {
			r[i] = e.(N)
		}
		return r
	}
	return nil
}

func RenderExpr(n N) string {
	switch n["k"] {
	case "num":
		v := n["v"].(N)["v"].(int)
		if v < 0 {
			return fmt.Sprintf("(%d)", v)
		}
		return fmt.Sprintf("%d", v)
	case "str":
		return jsStr(n["s"].([]int))
	case "bool":
		if n["b"].(bool) {
			return "true"
		}
		return "false"
	case "null":
		return "null"
	case "this":
		return "this"
	case "id":
		return str(n["n"])
	case "un":
		return "(" + n["op"].(string) + " " + RenderExpr(n["e"].(N)) + ")"
	case "upd":
		if n["pre"].(bool) {
			return "(" + n["op"].(string) + RenderExpr(n["e"].(N)) + ")"
		}
		return "(" + RenderExpr(n["e"].(N)) + n["op"].(string) + ")"
	case "bin", "logic":
		return "(" + RenderExpr(n["l"].(N)) + " " + n["op"].(string) + " " + RenderExpr(n["r"].(N)) + ")"
	case "seq":
		return "(" + RenderExpr(n["l"].(N)) + ", " + RenderExpr(n["r"].(N)) + ")"
	case "cond":
		return "(" + RenderExpr(n["t"].(N)) + " ? " + RenderExpr(n["a"].(N)) + " : " + RenderExpr(n["b"].(N)) + ")"
	case "asg":
		op := n["op"].(string)
		if op != "=" {
			op += "="
		}
		return "(" + RenderExpr(n["l"].(N)) + " " + op + " " + RenderExpr(n["r"].(N)) + ")"
	case "dot":
		return RenderExpr(n["o"].(N)) + "." + str(n["n"])
	case "idx":
		return RenderExpr(n["o"].(N)) + "[" + RenderExpr(n["p"].(N)) + "]"
	case "call", "new":
		var as []string
		for _, a := range asNodes(n["args"]) {
			as = append(as, RenderExpr(a))
		}
		f := RenderExpr(n["f"].(N))
		if n["k"] == "new" {
			return "(new " + f + "(" + strings.Join(as, ", ") + "))"
		}
		return f + "(" + strings.Join(as, ", ") + ")"
	case "arr":
		var es []string
		for _, a := range asNodes(n["el"]) {
			es = append(es, RenderExpr(a))
		}
		return "[" + strings.Join(es, ", ") + "]"
	case "obj":
		var ps []string
		for _, p := range asNodes(n["pr"]) {
			if k := p["kind"].(string); k == "get" || k == "set" {
				fn := p["val"].(N)
				var params []string
				for _, q := range fn["params"].([][]int) {
					params = append(params, str(q))
				}
				ps = append(ps, k+" "+jsStr(p["key"].([]int))+"("+strings.Join(params, ", ")+") {\n"+RenderProgram(asNodes(fn["body"]))+"}")
				continue
			}
			ps = append(ps, jsStr(p["key"].([]int))+": "+RenderExpr(p["val"].(N)))
		}
		return "({" + strings.Join(ps, ", ") + "})"
	case "fn":
		return "(" + renderFn(n) + ")"
	case "eval":
		src := RenderProgram(asNodes(n["prog"]))
		lit := jsStr(units(src))
		if f, ok := n["f"].(N); ok {
			return RenderExpr(f) + "(" + lit + ")"
		}
		if n["direct"].(bool) {
			return "eval(" + lit + ")"
		}
		return "(0, eval)(" + lit + ")"
	}
	panic(fmt.Sprintf("render: unknown expression kind %v", n["k"]))
}

func renderFn(n N) string {
	var ps []string
	for _, p := range n["params"].([][]int) {
		ps = append(ps, str(p))
	}
	return "function " + str(n["name"]) + "(" + strings.Join(ps, ", ") + ") {\n" + RenderProgram(asNodes(n["body"])) + "}"
}

func RenderStmt(n N) string {
	switch n["k"] {
	case "empty":
		return ";"
	case "fdecl":
		return renderFn(n)
	case "expr":
		return RenderExpr(n["e"].(N)) + ";"
	case "var":
		var ds []string
		for _, d := range asNodes(n["decls"]) {
			s := str(d["n"])
			if in := asNodes(d["init"]); len(in) == 1 {
				s += " = " + RenderExpr(in[0])
			}
			ds = append(ds, s)
		}
		return "var " + strings.Join(ds, ", ") + ";"
	case "block":
		return "{\n" + RenderProgram(asNodes(n["body"])) + "}"
	case "if":
		s := "if (" + RenderExpr(n["t"].(N)) + ") " + RenderStmt(n["a"].(N))
		if b := asNodes(n["b"]); len(b) == 1 {
			s += " else " + RenderStmt(b[0])
		}
		return s
	case "for":
		part := func(k string) string {
			if x := asNodes(n[k]); len(x) == 1 {
				if x[0]["k"] == "var" {
					return strings.TrimSuffix(RenderStmt(x[0]), ";")
				}
				return RenderExpr(x[0])
			}
			return ""
		}
		return "for (" + part("init") + "; " + part("test") + "; " + part("update") + ") " + RenderStmt(n["body"].(N))
	case "forin":
		v := str(n["n"])
		if n["decl"].(bool) {
			v = "var " + v
		}
		return "for (" + v + " in " + RenderExpr(n["obj"].(N)) + ") " + RenderStmt(n["body"].(N))
	case "while":
		return "while (" + RenderExpr(n["t"].(N)) + ") " + RenderStmt(n["body"].(N))
	case "dowhile":
		return "do " + RenderStmt(n["body"].(N)) + " while (" + RenderExpr(n["t"].(N)) + ");"
	case "break", "continue":
		l := str(n["l"])
		if l != "" {
			l = " " + l
		}
		return n["k"].(string) + l + ";"
	case "return":
		if e := asNodes(n["e"]); len(e) == 1 {
			return "return " + RenderExpr(e[0]) + ";"
		}
		return "return;"
	case "throw":
		return "throw " + RenderExpr(n["e"].(N)) + ";"
	case "try":
		s := "try {\n" + RenderProgram(asNodes(n["block"])) + "}"
		if n["hasH"].(bool) {
			s += " catch (" + str(n["param"]) + ") {\n" + RenderProgram(asNodes(n["handler"])) + "}"
		}
		if n["hasF"].(bool) {
			s += " finally {\n" + RenderProgram(asNodes(n["fin"])) + "}"
		}
		return s
	case "switch":
		s := "switch (" + RenderExpr(n["d"].(N)) + ") {\n"
		for _, c := range asNodes(n["cases"]) {
			if t := asNodes(c["test"]); len(t) == 1 {
				s += "case " + RenderExpr(t[0]) + ":\n"
			} else {
				s += "default:\n"
			}
			s += RenderProgram(asNodes(c["body"]))
		}
		return s + "}"
	case "label":
		return str(n["l"]) + ": " + RenderStmt(n["body"].(N))
	case "with":
		return "with (" + RenderExpr(n["o"].(N)) + ") " + RenderStmt(n["body"].(N))
	}
	panic(fmt.Sprintf("render: unknown statement kind %v", n["k"]))
}

func RenderProgram(body []N) string {
	var b strings.Builder
	for _, s := range body {
		b.WriteString(RenderStmt(s))
		b.WriteByte('\n')
	}
	return b.String()
}

var _ = rand.Int
