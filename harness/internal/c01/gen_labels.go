package c01

// Family "label names on both sides of an activation boundary" (12.12, 12.7, 12.8, 12.14, 13.2.1, 10.4.2).
//
// A label belongs to the statement it labels and to nothing else: when that statement is left - by
// normal completion, by break / continue / return, or by an exception raised in its head expression,
// in its body or several calls further down - the name is free again, and the same name used by the
// code that called into it (a function, an accessor, a conversion, a callback, eval code) denotes the
// caller's own statement.  The random grammar and scenLabel only ever use fresh label names, so a
// name never occurs twice in one program and "whose label is this" cannot be got wrong observably.
//
// Here the names come from a pool of four, with one "hot" name preferred on both sides, and a
// fragment is the product of
//   callee:  label set (1-2 names) x kind of the labelled statement (simple statements, statements
//            with a head expression, every compound statement) x the way it is left (throw of a
//            primitive / an Error / TypeError / ReferenceError raised by the interpreter / thrown
//            by a deeper callee that has labels of its own / normal / return / break or continue
//            to its own label)
//   boundary: call, method, new, call, apply, bind, nested call, function expression, getter,
//            setter, valueOf and toString conversions, host call-back CB, direct eval, indirect eval
//   call site: expression statement, LABELLED expression statement (the caller's label is pending
//            while the callee runs), var initialiser, if / switch / for / while head, throw / return
//            argument, argument of a host call
//   caller:  labelled statement (every loop, block, switch, if, try, with; 1-2 names) around an inner
//            statement (nothing, every loop, block, switch, labelled block, labelled loop, with, try)
//            around try { call } with the jump (break L / continue L / break / continue / return /
//            none) in catch, in finally, in both, in a loop / switch / block nested in catch, or
//            after the try statement
//   context: global code, function code, direct and indirect eval code
// Every loop is driven by a counter incremented in its test or update, so every fragment terminates
// whatever the jumps do.  The expected outcome is computed by the specification (ES5Core) as for
// every other program of this property.

var lrPool = []string{"L", "M", "N", "P"}

type lrNames struct {
	g    *Gen
	hot  string
	used map[string]bool
}

func (g *Gen) lrNames(hot string) *lrNames { return &lrNames{g: g, hot: hot, used: map[string]bool{}} }

// take returns a pool name not yet used in this function body ("" when none is left).
func (n *lrNames) take() string {
	if !n.used[n.hot] && n.g.chance(60) {
		n.used[n.hot] = true
		return n.hot
	}
	var free []string
	for _, p := range lrPool {
		if !n.used[p] {
			free = append(free, p)
		}
	}
	if len(free) == 0 {
		return ""
	}
	p := free[n.g.pick(len(free))]
	n.used[p] = true
	return p
}

func lrLabel(labels []string, s N) N {
	for i := len(labels) - 1; i >= 0; i-- {
		s = Label(labels[i], s)
	}
	return s
}

// counted loops: kind 0 for, 1 while, 2 do-while, 3 for-in, 4 for with a simple (non-block) body.
// pre holds the statements that must precede the loop (counter initialisation).
func (g *Gen) lrLoop(kind int, body []N) (pre []N, loop N) {
	k := g.fresh("k")
	switch kind {
	case 0:
		return nil, For(Var(k, Num(0)), Bin("<", Id(k), Num(2)), Upd("++", false, Id(k)), Block(body...))
	case 1:
		return []N{Var(k, Num(0))}, While(Bin("<", Upd("++", false, Id(k)), Num(2)), Block(body...))
	case 2:
		return []N{Var(k, Num(0))}, DoWhile(Block(body...), Bin("<", Upd("++", true, Id(k)), Num(2)))
	case 3:
		return nil, ForIn(true, k, Obj("p", Num(1), "q", Num(2)), Block(body...))
	default:
		var b N = Block(body...)
		if len(body) == 1 {
			b = body[0]
		}
		return nil, For(Var(k, Num(0)), Bin("<", Id(k), Num(2)), Upd("++", false, Id(k)), b)
	}
}

// lrCallee builds the body of a callee: decls are function declarations it needs at global level.
// inFunc = false: the body is eval code (no return).  depth bounds the chain of deeper callees.
// noPrim: no primitive value is thrown (the host call-back CB hands an exception on as a Go error,
// which carries an Error instance faithfully and a thrown primitive only as text).
func (g *Gen) lrCallee(hot string, inFunc bool, depth int, noPrim bool) (decls, body []N) {
	names := g.lrNames(hot)
	labels := []string{names.take()}
	if g.chance(30) {
		labels = append(labels, names.take())
	}
	own := labels[g.pick(len(labels))]
	tag := g.fresh("callee")

	// the way the labelled statement is left: a statement, and (where there is one) the same as an expression
	var exit, exitE N
	throws := true
	isJump := 0 // 1 break own label, 2 continue own label
	x := g.pick(16)
	if noPrim && (x <= 1 || x == 15) {
		x = 2 + g.pick(5)
	}
	switch {
	case x <= 1:
		exit = Throw(Num(3))
	case x == 2:
		exit = Throw(New(Id([]string{"RangeError", "Error", "TypeError"}[g.pick(3)]), Str("m")))
	case x <= 4:
		exitE = Dot(Null(), "p")
	case x == 5:
		exitE = Call(Id("undefinedFn"))
	case x == 6:
		exitE = Call(Num(1))
	case x <= 8 && depth < 2:
		d, b := g.lrCallee(hot, true, depth+1, noPrim)
		f := g.fresh("deep")
		decls = append(append(decls, d...), FDecl(f, nil, b...))
		exitE = Call(Id(f))
		throws = false // it may
	case x <= 10:
		exitE = Call(Id("H"), Str(tag+" goes on"))
		throws = false
	case x == 11 && inFunc:
		exit = Return(Num(5))
		throws = false
	case x <= 13:
		exit = Break(own)
		isJump, throws = 1, false
	case x == 14:
		isJump, throws = 2, false // needs a loop: decided below
		exit = Continue(own)
	default:
		exit = Throw(Str("t"))
	}
	if exit == nil {
		exit = Expr(exitE)
	}

	var pre []N
	var st N
	kind := g.pick(30)
	if isJump == 2 && (kind < 16 || kind > 20) {
		kind = 16 + g.pick(5) // continue L needs L to label a loop
	}
	if exitE != nil && kind >= 5 && kind <= 7 && g.chance(70) {
		kind = 8 + g.pick(8)
	}
	switch kind {
	// simple statements: nothing takes the pending label set over
	case 0, 1, 2:
		st = exit
	case 3:
		st = If(Bool(true), exit, nil)
	case 4:
		st = If(Bool(false), Block(), exit)
	case 5:
		if z := names.take(); z != "" {
			st = Label(z, exit)
		} else {
			st = exit
		}
	case 6:
		st = With(Obj("w", Num(1)), exit)
	case 7:
		st = If(Bool(true), If(Bool(true), exit, nil), nil)
	// statements left from their head expression
	case 8, 9, 10, 11, 12, 13, 14, 15:
		if exitE == nil {
			st = exit
			break
		}
		switch kind {
		case 8:
			st = Var(g.fresh("v"), exitE)
		case 9:
			st = If(exitE, g.hcall(Str(tag+" truthy")), nil)
		case 10:
			if inFunc {
				st = Return(exitE)
			} else {
				st = Throw(exitE)
			}
		case 11:
			st = Switch(exitE, Case(Num(1), g.hcall(Str(tag+" case"))), Case(nil, g.hcall(Str(tag+" default"))))
		case 12:
			st = For(exitE, Bool(false), nil, Block(g.hcall(Str(tag+" never"))))
		case 13:
			st = While(Bin("&&", exitE, Bool(false)), Block(g.hcall(Str(tag+" never"))))
		case 14:
			st = ForIn(true, g.fresh("k"), Bin(",", exitE, Obj("p", Num(1))), Block(g.hcall(Str(tag+" in"))))
		default:
			st = With(Bin(",", exitE, Obj("w", Num(1))), Block(g.hcall(Str(tag+" with"), Id("w"))))
		}
	// compound statements: they take the label set over
	case 16, 17, 18, 19, 20:
		body := []N{g.hcall(Str(tag + " loop")), exit}
		if kind == 20 {
			body = []N{exit}
		}
		pre, st = g.lrLoop(kind-16, body)
	case 21:
		st = Block(g.hcall(Str(tag+" block")), exit, g.hcall(Str(tag+" block rest")))
	case 22:
		st = Switch(Num(1), Case(Num(1), g.hcall(Str(tag+" case")), exit), Case(Num(2), g.hcall(Str(tag+" fall"))))
	case 23:
		st = Try([]N{exit}, "e", nil, false, []N{g.hcall(Str(tag + " finally"))}, true)
	case 24:
		st = Try([]N{exit}, "e", []N{g.hcall(Str(tag+" catch"), Un("typeof", Id("e"))), Throw(Id("e"))}, true, nil, false)
	case 25:
		st = Try([]N{g.hcall(Str(tag + " try"))}, "e", nil, false, []N{exit}, true)
	case 26:
		st = Try([]N{Throw(Num(0))}, "e", []N{exit}, true, nil, false)
	case 27:
		st = If(Bool(true), Block(exit), nil)
	case 28:
		st = With(Obj("w", Num(1)), Block(exit))
	default:
		st = Block(Block(exit))
	}
	body = append(body, g.hcall(Str(tag+" in")))
	body = append(body, pre...)
	body = append(body, lrLabel(labels, st))
	if !throws || g.chance(30) {
		body = append(body, g.hcall(Str(tag+" out")))
	}
	if inFunc {
		body = append(body, Return(Num(7)))
	} else {
		body = append(body, Expr(Num(7)))
	}
	return decls, body
}

// lrInvoke: the callee behind one of the boundaries; setup are the statements the call needs first.
func (g *Gen) lrInvoke(hot string) (setup []N, call N) {
	b := g.pick(17)
	isEval := b >= 15
	decls, body := g.lrCallee(hot, !isEval, 0, b == 12)
	setup = decls
	f := g.fresh("f")
	o := g.fresh("o")
	switch b {
	case 0, 1:
		return append(setup, FDecl(f, nil, body...)), Call(Id(f))
	case 2:
		return append(setup, FDecl(f, nil, body...), Var(o, Obj("m", Id(f)))), Call(Dot(Id(o), "m"))
	case 3:
		return append(setup, FDecl(f, nil, body...)), New(Id(f))
	case 4:
		return append(setup, FDecl(f, nil, body...)), Call(Dot(Id(f), "call"), Null())
	case 5:
		return append(setup, FDecl(f, nil, body...)), Call(Dot(Id(f), "apply"), Null(), Arr())
	case 6:
		return append(setup, FDecl(f, nil, body...)), Call(Call(Dot(Id(f), "bind"), Null()))
	case 7:
		return append(setup, FDecl(f, nil, body...)), Call(Fn("", nil, Return(Call(Id(f)))))
	case 8:
		return setup, Call(Fn("", nil, body...))
	case 9:
		return append(setup, Var(o, WithAccessor(Obj("d", Num(1)), "get", "p", Fn("", nil, body...)))), Dot(Id(o), "p")
	case 10:
		return append(setup, Var(o, WithAccessor(Obj("d", Num(1)), "set", "p", Fn("", []string{"v"}, body...)))), Asg("=", Dot(Id(o), "p"), Num(7))
	case 11:
		return append(setup, FDecl(f, nil, body...)), Un("+", Obj("valueOf", Id(f)))
	case 12:
		return append(setup, FDecl(f, nil, body...)), Call(Id("CB"), Id(f))
	case 13:
		return append(setup, FDecl(f, nil, body...)), Bin("+", Str(""), Obj("toString", Id(f)))
	case 14:
		return append(setup, Var(f, Fn(g.fresh("nf"), nil, body...))), Call(Id(f))
	case 15:
		return setup, EvalCall(true, body...)
	default:
		return setup, EvalCall(false, body...)
	}
}

type lrTarget struct {
	name string
	loop bool
}

type lrScope struct {
	hot      string
	labelled []lrTarget
	brk, cnt bool // an unlabelled break / continue is valid here
	ret      bool // inside a function
}

func (g *Gen) lrJump(sc lrScope, tag string) N {
	var hotT []lrTarget
	var loops []lrTarget
	for _, t := range sc.labelled {
		if t.name == sc.hot {
			hotT = append(hotT, t)
		}
		if t.loop {
			loops = append(loops, t)
		}
	}
	x := g.pick(100)
	switch {
	case x < 25 && len(hotT) > 0:
		if hotT[0].loop && g.chance(35) {
			return Continue(hotT[0].name)
		}
		return Break(hotT[0].name)
	case x < 45 && len(sc.labelled) > 0:
		return Break(sc.labelled[g.pick(len(sc.labelled))].name)
	case x < 57 && len(loops) > 0:
		return Continue(loops[g.pick(len(loops))].name)
	case x < 65 && sc.brk:
		return Break("")
	case x < 73 && sc.cnt:
		return Continue("")
	case x < 80 && sc.ret:
		return Return(Str(tag + " returns"))
	}
	return g.hcall(Str(tag + " goes on"))
}

// scenLabelReuse: one fragment of the family; ctx 0 global code, 1 function code, 2 direct eval code,
// 3 indirect eval code.
func (g *Gen) scenLabelReuse() []N {
	hot := lrPool[g.pick(len(lrPool))]
	ctx := []int{0, 0, 1, 1, 1, 2, 3}[g.pick(7)]
	names := g.lrNames(hot)
	sc := lrScope{hot: hot, ret: ctx == 1}
	tag := g.fresh("caller")

	// the labelled statement of the caller and the statement nested in it
	outerLabels := []string{names.take()}
	if g.chance(25) {
		outerLabels = append(outerLabels, names.take())
	}
	outerKind := g.pick(9) // 0-3 loops, 4 block, 5 switch, 6 if, 7 try, 8 with
	for _, l := range outerLabels {
		sc.labelled = append(sc.labelled, lrTarget{l, outerKind <= 3})
	}
	sc.cnt = outerKind <= 3
	sc.brk = outerKind <= 3 || outerKind == 5
	innerKind := g.pick(13) // 0-1 nothing, 2-5 loops, 6 block, 7 switch, 8 labelled block, 9 labelled loop, 10 with, 11 try, 12 if
	innerLabel := ""
	switch innerKind {
	case 2, 3, 4, 5:
		sc.cnt, sc.brk = true, true
	case 7:
		sc.brk = true
	case 8:
		innerLabel = names.take()
		sc.labelled = append(sc.labelled, lrTarget{innerLabel, false})
	case 9:
		innerLabel = names.take()
		sc.labelled = append(sc.labelled, lrTarget{innerLabel, true})
		sc.cnt, sc.brk = true, true
	}

	// the call and its position
	setup, call := g.lrInvoke(hot)
	var inv N
	pos := g.pick(14)
	if pos == 9 && !sc.ret {
		pos = 0
	}
	switch pos {
	case 0, 1, 2:
		inv = Expr(call)
	case 3, 4:
		// the caller's own label is pending while the callee runs
		inv = Expr(call)
		if g.chance(40) {
			inv = Var(g.fresh("r"), call)
		}
		if p := names.take(); p != "" {
			inv = Label(p, inv)
		}
	case 5:
		inv = Var(g.fresh("r"), call)
	case 6:
		inv = If(call, g.hcall(Str(tag+" truthy")), nil)
	case 7:
		inv = Switch(call, Case(Num(7), g.hcall(Str(tag+" seven"))), Case(nil, g.hcall(Str(tag+" other"))))
	case 8:
		inv = Throw(call)
	case 9:
		inv = Return(call)
	case 10:
		inv = For(call, Bool(false), nil, Block(g.hcall(Str(tag+" never"))))
	case 11:
		inv = While(Bin("&&", call, Bool(false)), Block(g.hcall(Str(tag+" never"))))
	default:
		inv = g.hcall(Str(tag+" result"), call)
	}

	// try statement: where the jump sits
	errInfo := func(where string) N { return g.hcall(Str(tag+" "+where), Un("typeof", Id("e")), Id("e")) }
	nested := func(where string) []N {
		// the jump inside a statement nested in the handler
		switch g.pick(4) {
		case 0:
			in := sc
			in.brk, in.cnt = true, true
			pre, l := g.lrLoop(g.pick(4), []N{g.hcall(Str(tag + " " + where + " loop")), g.lrJump(in, tag)})
			return append(pre, l, g.hcall(Str(tag+" "+where+" rest")))
		case 1:
			in := sc
			in.brk = true
			return []N{Switch(Num(1), Case(Num(1), g.lrJump(in, tag)), Case(Num(2), g.hcall(Str(tag+" "+where+" fall")))), g.hcall(Str(tag + " " + where + " rest"))}
		case 2:
			return []N{Block(g.lrJump(sc, tag), g.hcall(Str(tag+" "+where+" block rest"))), g.hcall(Str(tag + " " + where + " rest"))}
		default:
			return []N{If(Bool(true), g.lrJump(sc, tag), nil), g.hcall(Str(tag + " " + where + " rest"))}
		}
	}
	plain := func(where string) []N { return []N{g.lrJump(sc, tag), g.hcall(Str(tag + " " + where + " rest"))} }
	blk := []N{g.hcall(Str(tag + " try")), inv, g.hcall(Str(tag + " returned"))}
	var try N
	switch g.pick(10) {
	case 0, 1, 2:
		try = Try(blk, "e", append([]N{errInfo("catch")}, plain("catch")...), true, nil, false)
	case 3, 4:
		try = Try(blk, "e", nil, false, append([]N{g.hcall(Str(tag + " finally"))}, plain("finally")...), true)
	case 5:
		try = Try(blk, "e", append([]N{errInfo("catch")}, plain("catch")...), true, append([]N{g.hcall(Str(tag + " finally"))}, plain("finally")...), true)
	case 6, 7:
		try = Try(blk, "e", append([]N{errInfo("catch")}, nested("catch")...), true, nil, false)
	case 8:
		try = Try(blk, "e", nil, false, append([]N{g.hcall(Str(tag + " finally"))}, nested("finally")...), true)
	default:
		try = Try(blk, "e", []N{errInfo("catch")}, true, []N{g.hcall(Str(tag + " finally"))}, g.chance(50))
	}
	core := []N{g.hcall(Str(tag + " inner")), try, g.hcall(Str(tag + " after try"))}
	if g.chance(35) {
		core = append(core, g.lrJump(sc, tag), g.hcall(Str(tag+" after jump")))
	}

	// inner statement
	var pre []N
	var inner []N
	switch innerKind {
	case 2, 3, 4, 5:
		p, l := g.lrLoop(innerKind-2, core)
		pre, inner = append(pre, p...), []N{l}
	case 6:
		inner = []N{Block(core...)}
	case 7:
		inner = []N{Switch(Num(1), Case(Num(1), core...), Case(Num(2), g.hcall(Str(tag+" fall"))))}
	case 8:
		inner = []N{Label(innerLabel, Block(core...))}
	case 9:
		p, l := g.lrLoop(g.pick(4), core)
		pre, inner = append(pre, p...), []N{Label(innerLabel, l)}
	case 10:
		inner = []N{With(Obj("w", Num(1)), Block(core...))}
	case 11:
		inner = []N{Try(core, "e", nil, false, []N{g.hcall(Str(tag + " inner finally"))}, true)}
	case 12:
		inner = []N{If(Bool(true), Block(core...), nil)}
	default:
		inner = core
	}
	obody := append(append([]N{g.hcall(Str(tag + " outer"))}, inner...), g.hcall(Str(tag+" after inner")))

	// outer labelled statement
	var outer N
	switch outerKind {
	case 0, 1, 2, 3:
		p, l := g.lrLoop(outerKind, obody)
		pre, outer = append(pre, p...), l
	case 4:
		outer = Block(obody...)
	case 5:
		outer = Switch(Num(1), Case(Num(0), g.hcall(Str(tag+" case 0"))), Case(Num(1), obody...), Case(Num(2), g.hcall(Str(tag+" fall"))))
	case 6:
		outer = If(Bool(true), Block(obody...), Block(g.hcall(Str(tag+" else"))))
	case 7:
		outer = Try(obody, "e", nil, false, []N{g.hcall(Str(tag + " outer finally"))}, true)
	default:
		outer = With(Obj("w", Num(2)), Block(obody...))
	}
	stmts := append(pre, lrLabel(outerLabels, outer), g.hcall(Str(tag+" after outer")))

	// caller context
	top := func(s ...N) []N {
		if g.chance(75) {
			return []N{Try(s, "e", []N{g.hcall(Str(tag+" top"), Un("typeof", Id("e")), Id("e"))}, true, nil, false)}
		}
		return s
	}
	switch ctx {
	case 1:
		c := g.fresh("caller")
		return append(setup, append([]N{FDecl(c, nil, append(stmts, Return(Str(tag+" end")))...)}, top(g.hcall(Call(Id(c))))...)...)
	case 2, 3:
		return append(setup, top(g.hcall(EvalCall(ctx == 2, stmts...)))...)
	}
	return append(setup, top(stmts...)...)
}

// FamilyProgram is a program made of n fragments of the dedicated families of property C01
// (scenLabelReuse here, scenConvOrder in gen_scen.go, scenCatchScope in gen_catchscope.go).  They are not part of scenario(): the
// generator is shared with other properties, whose programs of a given seed stay what they were.
func (g *Gen) FamilyProgram(n int) []N {
	g.inFunc, g.loops, g.breakOK, g.labels, g.funcs, g.vars, g.objs, g.params = false, 0, 0, nil, nil, nil, nil, nil
	body := []N{Var("a", Num(1)), Var("b", Str("s")), Var("c", nil), Var("n", Num(0))}
	for i := 0; i < n; i++ {
		switch r := g.pick(100); {
		case r < 40:
			body = append(body, g.scenLabelReuse()...)
		case r < 75:
			body = append(body, g.scenConvOrder()...)
		default:
			body = append(body, g.scenCatchScope()...)
		}
	}
	return body
}
