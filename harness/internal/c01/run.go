package c01

import (
	"encoding/json"
	"fmt"
	"regexp"
	"strings"
	"time"
	"unicode/utf16"

	"github.com/robertkrimen/otto"
	"github.com/robertkrimen/otto/parser"

	"verif/harness/internal/num"
)

// Obs is the observable outcome of one run (property C01): host calls with
// projected arguments, completion value, uncaught exception class.
type Obs struct {
	Log [][]any `json:"log"`
	Thr []int   `json:"thr"`
	V   any     `json:"v"`
}

// Proj projects a value the way the specification observes it.
func Proj(v otto.Value) any { return proj(v) }

func proj(v otto.Value) any {
	switch {
	case v.IsUndefined():
		return map[string]any{"t": "undef"}
	case v.IsNull():
		return map[string]any{"t": "null"}
	case v.IsBoolean():
		b, _ := v.ToBoolean()
		return map[string]any{"t": "bool", "b": b}
	case v.IsNumber():
		f, _ := v.ToFloat()
		return map[string]any{"t": "num", "n": num.Of(f)}
	case v.IsString():
		s, _ := v.ToString()
		return map[string]any{"t": "str", "s": toUnits(s)}
	}
	return map[string]any{"t": "obj", "cls": v.Class()}
}

func toUnits(s string) []int {
	u := utf16.Encode([]rune(s))
	r := make([]int, len(u))
	for i, x := range u {
		r[i] = int(x)
	}
	return r
}

var errClass = regexp.MustCompile(`^(Error|TypeError|ReferenceError|RangeError|SyntaxError|EvalError|URIError)(?::|$)`)

// Routes by which a program reaches the interpreter.
var Routes = []string{"source", "script", "program", "eval", "script-on-second-runtime"}

// NewVM returns a fresh runtime with the recording host function H.
func NewVM(log *[][]any) *otto.Otto { return newVMMode(log, 0) }

// NewVMMode: as NewVM; mode selects the API entry point the host function CB calls back through
// (0 Value.Call, 1 Otto.Call, 2 Otto.Eval) - the specification's hostcb is the same for all three.
func NewVMMode(log *[][]any, mode int) *otto.Otto { return newVMMode(log, mode) }

func newVM(log *[][]any) *otto.Otto { return newVMMode(log, 0) }

func newVMMode(log *[][]any, mode int) *otto.Otto {
	vm := otto.New()
	vm.Set("H", func(call otto.FunctionCall) otto.Value {
		args := make([]any, len(call.ArgumentList))
		for i, a := range call.ArgumentList {
			args[i] = proj(a)
		}
		*log = append(*log, args)
		return call.Argument(0)
	})
	// CB(f): Go code that makes an API call (Value.Call) while the script is running and hands an
	// error of that call back to the interpreter (the specification's host function of kind hostcb)
	var cbArg otto.Value
	vm.Set("CB", func(call otto.FunctionCall) otto.Value {
		var v otto.Value
		var err error
		switch mode % 3 {
		case 1:
			v, err = call.Otto.Call("(function(f){ return f() })", nil, call.Argument(0))
		case 2:
			cbArg = call.Argument(0)
			v, err = call.Otto.Eval("CBARG()()")
		default:
			v, err = call.Argument(0).Call(otto.UndefinedValue())
		}
		if err != nil {
			panic(err)
		}
		return v
	})
	vm.Set("CBARG", func(call otto.FunctionCall) otto.Value { return cbArg })
	// SL(n): Go code that configures the stack depth limit while a script is running (the
	// specification's host function of kind hostlimit)
	vm.Set("SL", func(call otto.FunctionCall) otto.Value {
		if n, err := call.Argument(0).ToInteger(); err == nil && n >= 0 {
			call.Otto.SetStackDepthLimit(int(n))
		}
		return otto.UndefinedValue()
	})
	return vm
}

// RunRoute executes src by the given route on a fresh runtime.
func RunRoute(route, src string) (obs Obs, err error) {
	type res struct {
		o Obs
		e error
	}
	ch := make(chan res, 1)
	go func() {
		var o Obs
		var e error
		defer func() {
			if r := recover(); r != nil {
				e = fmt.Errorf("GO PANIC: %v", r)
			}
			ch <- res{o, e}
		}()
		o, e = runRoute(route, src)
	}()
	select {
	case r := <-ch:
		return r.o, r.e
	case <-time.After(20 * time.Second):
		return Obs{}, fmt.Errorf("TIMEOUT: program did not finish in 20 s")
	}
}

func runRoute(route, src string) (Obs, error) {
	var log [][]any
	vm := newVM(&log)
	var v otto.Value
	var err error
	switch route {
	case "source":
		v, err = vm.Run(src)
	case "script":
		var sc *otto.Script
		sc, err = vm.Compile("", src)
		if err == nil {
			v, err = vm.Run(sc)
		}
	case "program":
		prog, perr := parser.ParseFile(nil, "", src, 0)
		if perr != nil {
			err = perr
		} else {
			v, err = vm.Run(prog)
		}
	case "eval":
		v, err = vm.Eval(src)
	case "script-on-second-runtime":
		var sc *otto.Script
		sc, err = vm.Compile("", src)
		if err == nil {
			vm.Run(sc) // first use on the compiling runtime
			log = nil
			vm2 := newVM(&log)
			v, err = vm2.Run(sc)
		}
	default:
		return Obs{}, fmt.Errorf("unknown route %q", route)
	}
	return MakeObs(log, v, err), nil
}

// MakeObs projects the result of a Run into an observation.
func MakeObs(log [][]any, v otto.Value, err error) Obs {
	o := Obs{Log: log, Thr: []int{}, V: map[string]any{"t": "undef"}}
	if o.Log == nil {
		o.Log = [][]any{}
	}
	if err != nil {
		msg := err.Error()
		if m := errClass.FindStringSubmatch(msg); m != nil {
			if _, isOtto := err.(*otto.Error); isOtto || strings.HasPrefix(msg, "SyntaxError") {
				o.Thr = toUnits(m[1])
				return o
			}
		}
		// a thrown non-error value: Run reports its string form
		o.Thr = toUnits("v")
		o.V = map[string]any{"t": "str", "s": toUnits(msg)}
		return o
	}
	o.V = proj(v)
	return o
}

func (o Obs) JSON() string { b, _ := json.Marshal(o); return string(b) }
