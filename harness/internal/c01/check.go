package c01

import (
	"bytes"
	"encoding/json"
	"fmt"
	"os"
	"reflect"
	"sync"
	"time"

	"verif/harness/internal/core"
	"verif/harness/internal/tlc"
)

type traceLine struct {
	ID     int  `json:"id"`
	Prog   []N  `json:"prog"`
	IsEval bool `json:"isEval"`
	Obs    Obs  `json:"obs"`
}

type verdict struct {
	ID     int               `json:"id"`
	Status string            `json:"status"`
	Want   json.RawMessage   `json:"want"`
	Dev    []json.RawMessage `json:"dev"`
}

type progRec struct {
	id   int
	src  string
	prog []N
	obs  map[string]Obs
}

func sameObs(a, b Obs) bool {
	x, _ := json.Marshal(a)
	y, _ := json.Marshal(b)
	var u, v any
	json.Unmarshal(x, &u)
	json.Unmarshal(y, &v)
	return reflect.DeepEqual(u, v)
}

// Check generates programs, runs each by the five routes, has TLC judge the
// observed outcome of the source route (and of every route that differs).
func Check(c *core.Ctx) (map[string]any, []string, error) {
	nProg := 4000
	if c.Thorough() {
		nProg = 20000
	}
	if s := os.Getenv("VERIF_C01_PROGRAMS"); s != "" {
		fmt.Sscan(s, &nProg)
	}
	// dedicated programs made of the families "label names on both sides of an activation boundary"
	// (gen_labels.go) and "objects with observable conversion methods under every operator"
	// (gen_scen.go scenConvOrder); a generator of their own, so the random programs of a seed stay what they were
	nLab := 500
	if c.Thorough() {
		nLab = 6000
	}
	if s := os.Getenv("VERIF_C01_FAMILYPROGS"); s != "" {
		fmt.Sscan(s, &nLab)
	}
	g := NewGen(c.Seed)
	recs := make([]*progRec, nProg, nProg+nLab)
	for i := range recs {
		p := g.Program()
		recs[i] = &progRec{id: i + 1, prog: p, src: RenderProgram(p), obs: map[string]Obs{}}
	}
	gl := NewGen(c.Seed ^ 0x1abe15)
	for i := 0; i < nLab; i++ {
		p := gl.FamilyProgram(1 + gl.pick(3))
		recs = append(recs, &progRec{id: len(recs) + 1, prog: p, src: RenderProgram(p), obs: map[string]Obs{}})
	}
	// run all routes in parallel
	var wg sync.WaitGroup
	jobs := make(chan *progRec, 256)
	var mu sync.Mutex
	var nRouteRuns, nRouteDiff int64
	for w := 0; w < c.Workers; w++ {
		wg.Add(1)
		go func() {
			defer wg.Done()
			for r := range jobs {
				for _, route := range Routes {
					o, err := RunRoute(route, r.src)
					if err != nil {
						// reproduce once before reporting a crash / hang
						if _, err2 := RunRoute(route, r.src); err2 != nil {
							c.Violate(fmt.Sprintf("route %s: %v on program:\n%s", route, err, r.src), map[string]any{"route": route, "source": r.src, "error": err.Error()})
						}
						continue
					}
					mu.Lock()
					r.obs[route] = o
					nRouteRuns++
					mu.Unlock()
				}
			}
		}()
	}
	for _, r := range recs {
		jobs <- r
	}
	close(jobs)
	wg.Wait()

	// trace: the source route of every program, plus any route that differs from it
	var buf bytes.Buffer
	enc := json.NewEncoder(&buf)
	type key struct {
		rec   *progRec
		route string
	}
	byID := map[int]key{}
	next := 0
	add := func(r *progRec, route string) {
		next++
		byID[next] = key{r, route}
		enc.Encode(traceLine{ID: next, Prog: r.prog, IsEval: route == "eval", Obs: r.obs[route]})
	}
	for _, r := range recs {
		base, ok := r.obs["source"]
		if !ok {
			continue
		}
		add(r, "source")
		for _, route := range Routes[1:] {
			o, ok := r.obs[route]
			if ok && !sameObs(o, base) {
				nRouteDiff++
				add(r, route)
			}
		}
	}
	var nUnd, nBad, nDev int64
	badByProg := map[*progRec]bool{}
	res, err := tlc.Run(tlc.Opts{SpecDir: c.SpecDir, Module: "C01",
		Cfg:     fmt.Sprintf("CONSTANTS\n OpenDev = %s\n Fuel = 300\nINIT Init\nNEXT Next\nINVARIANT Check\nCHECK_DEADLOCK FALSE\n", core.TLASet(c.Findings.OpenIDs())),
		Workers: c.Workers, Files: map[string][]byte{"trace.ndjson": buf.Bytes()}, Timeout: 180 * time.Minute, HeapMB: 12000},
		func(p []byte) {
			var v verdict
			if json.Unmarshal(p, &v) != nil {
				return
			}
			k := byID[v.ID]
			switch v.Status {
			case "und":
				nUnd++
				if os.Getenv("VERIF_C01_SHOW_UND") != "" { // development aid
					fmt.Printf("UNDECIDED route %s:\n%s----\n", k.route, k.rec.src)
				}
			case "dev":
				nDev++
				c.Hit("deviation")
			case "bad":
				nBad++
				if badByProg[k.rec] {
					return
				}
				badByProg[k.rec] = true
				// the observation is deterministic per route: re-run to confirm
				o2, err2 := RunRoute(k.route, k.rec.src)
				if err2 != nil || !sameObs(o2, k.rec.obs[k.route]) {
					c.Note("non-reproducible observation on route %s skipped", k.route)
					return
				}
				c.Violate(fmt.Sprintf("route %s: observed %s but ES5 requires %s for program:\n%s", k.route, k.rec.obs[k.route].JSON(), string(v.Want), k.rec.src),
					map[string]any{"route": k.route, "source": k.rec.src, "observed": k.rec.obs[k.route], "required": v.Want, "ast": k.rec.prog})
			}
		})
	if err != nil {
		return nil, nil, err
	}
	judged := int64(next)
	samples := []any{}
	for _, r := range recs[:min(3, len(recs))] {
		samples = append(samples, map[string]any{"source": r.src, "observed": r.obs["source"]})
	}
	cov := map[string]any{
		"states": res.Distinct, "transitions": res.Generated, "traces_validated_against_impl": judged,
		"samples": samples, "programs": nProg, "family_programs": nLab, "route_runs": nRouteRuns, "routes": Routes,
		"route_disagreements_judged_individually": nRouteDiff,
		"undecided_left_modelled_fragment":        nUnd, "rejected": nBad, "conforming_to_known_deviation": nDev,
		"conforming": judged - nUnd - nBad - nDev,
		"tlc_wall_s": res.Wall,
	}
	assumptions := []string{
		"programs come from the seeded generator harness/internal/c01/gen.go (valid, terminating, inside the modelled fragment); the renderer parenthesises every sub-expression (the parser is property C03)",
		"family_programs further programs consist of fragments of two dedicated families only: gen_labels.go (the same label names on both sides of a call / accessor / conversion / call-back / eval boundary, every way of leaving the labelled statement, the jump in catch / finally / after the try statement) and gen_scen.go scenConvOrder (objects whose valueOf / toString log, return objects, are missing or throw, under every operator position)",
		"oracle: spec/ES5Core.tla evaluated by TLC on the same abstract syntax tree; programs it classifies 'undecided' (unmodelled built-in reached, fuel exhausted) are skipped and counted",
		"observation: host-function call log with projected arguments (objects by [[Class]]), completion value, uncaught exception class; thrown primitives by their string form",
		"routes 2-5 are compared with route 1 and judged individually only when they differ",
	}
	return cov, assumptions, nil
}
