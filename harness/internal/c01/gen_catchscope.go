package c01

// Family "the catch parameter's environment" (12.14, 10.2.1.1): the Catch clause runs in a fresh
// declarative environment holding only the catch parameter; that environment is gone when the
// handler ends - the Finally block, the code after the statement and every function created there
// see the binding of that NAME that the surrounding code has (a var of the function or of global
// code, a formal parameter, the function's own name, or none -> ReferenceError / implicit global),
// while functions created INSIDE the handler keep the catch environment alive.  The product:
//   what the name denotes outside: function-level var / formal parameter / global var / name of the
//     enclosing function / nothing declared
//   x the try block throws (number, string, Error), calls a function that throws, or completes
//   x the handler reads, assigns, re-declares (`var name = ...` inside the handler initialises the
//     catch parameter but declares at function level), deletes the name, creates a closure over it,
//     or contains a nested try/catch on the same or another name, or ends abruptly (return, break)
//   x the finaliser reads (value and typeof), assigns, creates a closure, calls the handler's closure
//   x the code after the statement does the same, inside a loop or not, in function, global and
//     eval code.
// Expected host-call sequence and completion by ES5Core.
func (g *Gen) scenCatchScope() []N {
	name := []string{"e", "ex", "v"}[g.pick(3)]
	fn := g.fresh("cs")
	k1, k2 := g.fresh("k"), g.fresh("k")
	// observations of the name
	read := func(tag string) N {
		switch g.pick(4) {
		case 0:
			return g.hcall(Str(tag), Un("typeof", Id(name)))
		case 1:
			return Try([]N{g.hcall(Str(tag), Id(name))}, "zz", []N{g.hcall(Str(tag+"!"), Bin("instanceof", Id("zz"), Id("ReferenceError")))}, true, nil, false)
		case 2:
			return g.hcall(Str(tag), Un("typeof", Id(name)), Bin("===", Un("typeof", Id(name)), Str("undefined")))
		default:
			return Try([]N{g.hcall(Str(tag), Bin("+", Str(""), Id(name)))}, "zz", []N{g.hcall(Str(tag + "!"))}, true, nil, false)
		}
	}
	write := func(v N) N { return Expr(Asg("=", Id(name), v)) }
	closure := func(k string) N { return Expr(Asg("=", Id(k), Fn("", nil, Return(Un("typeof", Id(name)))))) }
	callK := func(tag, k string) N {
		return If(Bin("===", Un("typeof", Id(k)), Str("function")), Block(g.hcall(Str(tag), Call(Id(k)))), nil)
	}
	// the try block
	var block []N
	block = append(block, g.hcall(Str("t")))
	switch g.pick(5) {
	case 0:
		block = append(block, Throw(Num(7)))
	case 1:
		block = append(block, Throw(Str("s")))
	case 2:
		block = append(block, Throw(New(Id("TypeError"), Str("m"))))
	case 3:
		block = append(block, Expr(Call(Fn("", nil, Throw(Num(8))))))
	default: // completes normally: the handler does not run
	}
	// the handler
	handler := []N{read("c")}
	for i, n := 0, 1+g.pick(3); i < n; i++ {
		switch g.pick(8) {
		case 0:
			handler = append(handler, write(Str("cw")), read("c2"))
		case 1:
			handler = append(handler, Var(name, Str("cv")), read("c3"))
		case 2:
			handler = append(handler, g.hcall(Str("cd"), Un("delete", Id(name))), read("c4"))
		case 3:
			handler = append(handler, closure(k1))
		case 4:
			inner := name
			if g.chance(50) {
				inner = "q"
			}
			handler = append(handler, Try([]N{Throw(Num(9))}, inner, []N{g.hcall(Str("ci"), Id(inner)), Expr(Asg("=", Id(inner), Str("iw")))}, true, []N{read("cf")}, g.chance(50)), read("c5"))
		case 5:
			handler = append(handler, Expr(Call(Fn("", nil, write(Str("cfn"))))), read("c6"))
		case 6:
			if g.chance(40) {
				handler = append(handler, Return(Str("rc")))
			}
		default:
			handler = append(handler, read("c7"))
		}
	}
	// the finaliser
	fin := []N{read("f")}
	for i, n := 0, 1+g.pick(3); i < n; i++ {
		switch g.pick(5) {
		case 0:
			fin = append(fin, write(Str("fw")), read("f2"))
		case 1:
			fin = append(fin, closure(k2))
		case 2:
			fin = append(fin, callK("fk", k1))
		case 3:
			fin = append(fin, Expr(Call(Fn("", nil, read("ff")))))
		default:
			fin = append(fin, read("f3"))
		}
	}
	hasH := g.chance(85)
	hasF := !hasH || g.chance(80)
	if !hasH {
		handler = nil // (an unrendered handler would still hoist its var declarations in the specification's tree)
	}
	if !hasF {
		fin = nil
	}
	try := Try(block, name, handler, hasH, fin, hasF)
	after := []N{read("a"), callK("ak1", k1), callK("ak2", k2)}
	if g.chance(40) {
		after = append(after, write(Str("aw")), callK("ak3", k1), read("a2"))
	}
	stmts := []N{Var(k1, nil), Var(k2, nil)}
	if g.chance(35) {
		stmts = append(stmts, For(Var("i", Num(0)), Bin("<", Id("i"), Num(2)), Upd("++", false, Id("i")), Block(append([]N{try}, after...)...)))
	} else {
		stmts = append(stmts, try)
		stmts = append(stmts, after...)
	}
	stmts = append(stmts, Return(Str("end")))
	// what the name denotes outside the handler
	var pre []N
	params := []string{}
	fname := fn
	switch g.pick(5) {
	case 0: // function-level var
		stmts = append([]N{Var(name, Str("fv"))}, stmts...)
	case 1: // formal parameter
		params = []string{name}
	case 2: // global var
		pre = append(pre, Var(name, Str("gv")))
	case 3: // nothing declared: ReferenceError on read, implicit global on write
	default: // var declared AFTER the statement (hoisted, undefined until then)
		stmts = append(stmts[:len(stmts)-1], Var(name, Str("late")), stmts[len(stmts)-1])
	}
	call := Call(Id(fname), Str("arg"))
	out := append(pre, FDecl(fname, params, stmts...))
	out = append(out, Try([]N{g.hcall(Str("r"), call)}, "zz", []N{g.hcall(Str("o"), Bin("instanceof", Id("zz"), Id("ReferenceError")))}, true, nil, false))
	// the name may have become an implicit global: observe it (later fragments of the program see it too; the specification knows)
	out = append(out, g.hcall(Str("g"), Un("typeof", Id(name))))
	return out
}
