package c01

import (
	"fmt"
	"math/rand"
)

// Gen is the seeded random program generator.  Programs are valid, terminate
// by construction (every loop is guarded by a bounded counter, functions only
// call functions defined before them) and stay inside the fragment the
// specification models (spec/ES5Core.tla); whatever slips out is classified
// "undecided" by the specification and skipped.
type Gen struct {
	r       *rand.Rand
	inFunc  bool
	loops   int      // enclosing loops (for break/continue)
	breakOK int      // enclosing loops or switches (for break)
	labels  []lab    // enclosing labels
	funcs   []fnInfo // functions callable here
	vars    []string // declared variable names in scope
	objs    []string // variables known to hold objects
	uniq    int
	params  []string
	// rep > 0: the code being generated may run repeatedly (loop body, function body, and eval code
	// nested in them).  safe > 0: the right-hand side of an assignment in such code is being generated:
	// no string concatenation of variable contents and no calls there, so that no value can double
	// per iteration (a program that builds a 2^27-character string "terminates" but cannot be run or judged)
	rep, safe int
	// MaxDepth bounds statement nesting (default 3); MaxTop bounds the number of top-level statements (default 5)
	MaxDepth, MaxTop int
}

type lab struct {
	name string
	loop bool
}
type fnInfo struct {
	name  string
	arity int
}

func NewGen(seed int64) *Gen { return &Gen{r: rand.New(rand.NewSource(seed)), MaxDepth: 3, MaxTop: 5} }

func (g *Gen) pick(n int) int    { return g.r.Intn(n) }
func (g *Gen) chance(p int) bool { return g.r.Intn(100) < p }
func (g *Gen) fresh(p string) string {
	g.uniq++
	return fmt.Sprintf("%s%d", p, g.uniq)
}

var globalsPool = []string{"a", "b", "c"}

func (g *Gen) varName() string {
	if len(g.vars) > 0 && g.chance(85) {
		return g.vars[g.pick(len(g.vars))]
	}
	return globalsPool[g.pick(len(globalsPool))]
}

func (g *Gen) prim() N {
	switch g.pick(12) {
	case 0:
		return Num(0)
	case 1, 2:
		return Num(g.pick(6))
	case 3:
		return Num(-1 - g.pick(2))
	case 4:
		return Str("")
	case 5:
		return Str([]string{"a", "b", "1", "x"}[g.pick(4)])
	case 6:
		return Bool(g.chance(50))
	case 7:
		return Null()
	case 8:
		return Undefined()
	default:
		return Num(1 + g.pick(3))
	}
}

var binOps = []string{"+", "-", "*", "%", "<", ">", "<=", ">=", "==", "!=", "===", "!==", "&", "|", "^", "<<", ">>", ">>>", "&&", "||", ",", "/"}

func (g *Gen) expr(d int) N {
	if d <= 0 {
		if g.chance(45) {
			return Id(g.varName())
		}
		return g.prim()
	}
	switch g.pick(20) {
	case 0, 1, 2:
		return g.prim()
	case 3, 4:
		return Id(g.varName())
	case 5, 6:
		op := binOps[g.pick(len(binOps))]
		if op == "+" && g.safe > 0 {
			op = "-"
		}
		return Bin(op, g.expr(d-1), g.expr(d-1))
	case 7:
		return Un([]string{"!", "-", "+", "~", "typeof", "void"}[g.pick(6)], g.expr(d-1))
	case 8:
		return Cond(g.expr(d-1), g.expr(d-1), g.expr(d-1))
	case 9:
		return Asg("=", Id(g.varName()), g.rhs(d-1))
	case 10:
		op := []string{"+", "-", "*", "|", "&"}[g.pick(5)]
		if op == "+" && (g.rep > 0 || g.safe > 0) {
			return Asg(op, Id(g.varName()), g.prim()) // linear growth only
		}
		return Asg(op, Id(g.varName()), g.rhs(d-1))
	case 11:
		return Upd([]string{"++", "--"}[g.pick(2)], g.chance(50), Id(g.varName()))
	case 12:
		if g.safe > 0 {
			return g.prim()
		}
		return Call(Id("H"), g.expr(d-1))
	case 13:
		if g.safe > 0 {
			return g.prim()
		}
		return g.callExpr(d)
	case 14:
		return g.objExpr(d)
	case 15:
		if len(g.objs) > 0 {
			o := g.objs[g.pick(len(g.objs))]
			p := []string{"p", "q", "length", "0", "1"}[g.pick(5)]
			switch g.pick(4) {
			case 0:
				return Asg("=", Dot(Id(o), []string{"p", "q"}[g.pick(2)]), g.rhs(d-1))
			case 1:
				return Idx(Id(o), Str(p))
			case 2:
				return Bin("in", Str(p), Id(o))
			default:
				if p == "0" || p == "1" {
					return Idx(Id(o), Num(int(p[0]-'0')))
				}
				return Dot(Id(o), p)
			}
		}
		return g.prim()
	case 16:
		if g.inFunc {
			switch g.pick(4) {
			case 0:
				return Dot(Id("arguments"), "length")
			case 1:
				return Idx(Id("arguments"), Num(g.pick(2)))
			case 2:
				if len(g.params) > 0 {
					return Asg("=", Idx(Id("arguments"), Num(0)), g.rhs(d-1))
				}
			}
			return Un("typeof", This())
		}
		return Un("typeof", Id([]string{"zz", "a", "H", "undefined"}[g.pick(4)]))
	case 17:
		if len(g.funcs) > 0 && g.chance(50) {
			f := g.funcs[g.pick(len(g.funcs))]
			return Bin("instanceof", g.objExpr(d-1), Id(f.name))
		}
		return Un("delete", Dot(g.objExpr(d-1), "p"))
	default:
		return g.prim()
	}
}

// rhs: the right-hand side of an assignment (see Gen.rep / Gen.safe)
func (g *Gen) rhs(d int) N {
	if g.rep == 0 && g.safe == 0 {
		return g.expr(d)
	}
	g.safe++
	e := g.expr(d)
	g.safe--
	return e
}

func (g *Gen) objExpr(d int) N {
	if len(g.objs) > 0 && g.chance(50) {
		return Id(g.objs[g.pick(len(g.objs))])
	}
	switch g.pick(5) {
	case 0:
		return Arr(g.expr(d-1), g.expr(d-1))
	case 1:
		if len(g.funcs) > 0 {
			f := g.funcs[g.pick(len(g.funcs))]
			return New(Id(f.name), g.expr(d-1))
		}
		fallthrough
	case 2:
		return New(Id([]string{"Error", "TypeError", "RangeError"}[g.pick(3)]), Str("m"))
	default:
		return Obj("p", g.expr(d-1), "q", g.prim())
	}
}

func (g *Gen) args(n, d int) []N {
	k := n
	if g.chance(30) {
		k = g.pick(3)
	}
	as := []N{}
	for i := 0; i < k; i++ {
		as = append(as, g.expr(d-1))
	}
	return as
}

func (g *Gen) thisArg(d int) N {
	switch g.pick(4) {
	case 0:
		return Undefined()
	case 1:
		return Null()
	default:
		return g.objExpr(d - 1)
	}
}

func (g *Gen) callExpr(d int) N {
	if len(g.funcs) == 0 {
		return Call(Id("H"), g.expr(d-1))
	}
	f := g.funcs[g.pick(len(g.funcs))]
	switch g.pick(8) {
	case 0:
		return Call(Dot(Id(f.name), "call"), append([]N{g.thisArg(d)}, g.args(f.arity, d)...)...)
	case 1:
		return Call(Dot(Id(f.name), "apply"), g.thisArg(d), Arr(g.args(f.arity, d)...))
	case 2:
		return Call(Call(Dot(Id(f.name), "bind"), g.thisArg(d), g.expr(d-1)), g.args(f.arity, d)...)
	case 3:
		return New(Id(f.name), g.args(f.arity, d)...)
	case 4:
		return Call(Dot(Obj("m", Id(f.name), "p", g.prim()), "m"), g.args(f.arity, d)...)
	case 5:
		return Call(Idx(Obj("m", Id(f.name)), Str("m")), g.args(f.arity, d)...)
	default:
		return Call(Id(f.name), g.args(f.arity, d)...)
	}
}

func (g *Gen) block(d, n int) []N {
	out := []N{}
	for i := 0; i < n; i++ {
		out = append(out, g.stmt(d))
	}
	return out
}

func (g *Gen) loopBody(d int) N {
	g.loops++
	g.rep++
	g.breakOK++
	b := Block(g.block(d-1, 1+g.pick(2))...)
	g.loops--
	g.rep--
	g.breakOK--
	return b
}

func (g *Gen) jump() N {
	// a break/continue that is valid here, or a harmless statement
	var opts []N
	if g.breakOK > 0 {
		opts = append(opts, Break(""))
	}
	if g.loops > 0 {
		opts = append(opts, Continue(""))
	}
	for _, l := range g.labels {
		opts = append(opts, Break(l.name))
		if l.loop {
			opts = append(opts, Continue(l.name))
		}
	}
	if g.inFunc {
		opts = append(opts, Return(g.expr(1)), Return(nil))
	}
	if len(opts) == 0 {
		return Expr(g.expr(1))
	}
	return opts[g.pick(len(opts))]
}

// loop generates a loop; a non-empty label is attached to the iteration statement itself
// (continue L needs L to label an iteration statement, 12.7), not to a block around it.
func (g *Gen) loop(d int, label string) N {
	isLabeled := label != ""
	if isLabeled {
		g.labels = append(g.labels, lab{label, true})
		defer func() { g.labels = g.labels[:len(g.labels)-1] }()
	}
	lb := func(s N) N {
		if isLabeled {
			return Label(label, s)
		}
		return s
	}
	k := g.fresh("k")
	lim := Num(1 + g.pick(3))
	switch g.pick(5) {
	case 0:
		return lb(For(Var(k, Num(0)), Bin("<", Id(k), lim), Upd("++", false, Id(k)), g.loopBody(d)))
	case 1:
		body := g.loopBody(d)
		body["body"] = append([]N{Expr(Upd("++", false, Id(k)))}, asNodes(body["body"])...)
		return Block(Var(k, Num(0)), lb(While(Bin("<", Id(k), lim), body)))
	case 2:
		body := g.loopBody(d)
		body["body"] = append([]N{Expr(Upd("++", false, Id(k)))}, asNodes(body["body"])...)
		return Block(Var(k, Num(0)), lb(DoWhile(body, Bin("<", Id(k), lim))))
	case 3:
		var src N
		if len(g.objs) > 0 && g.chance(50) {
			src = Id(g.objs[g.pick(len(g.objs))])
		} else {
			src = Obj("p", g.prim(), "q", g.prim())
		}
		g.vars = append(g.vars, k)
		return lb(ForIn(true, k, src, g.loopBody(d)))
	default:
		return lb(For(nil, Bin("<", Upd("++", false, Id(g.globalCounter())), lim), nil, g.loopBody(d)))
	}
}

func (g *Gen) globalCounter() string {
	// a counter that is declared and zeroed right before the loop would change the
	// completion value; use a dedicated global that programs reset with a var statement
	return "n"
}

func (g *Gen) stmt(d int) N {
	if d <= 0 {
		switch g.pick(6) {
		case 0:
			return g.jump()
		case 1:
			return Expr(Call(Id("H"), g.expr(1)))
		case 2:
			return Empty()
		default:
			return Expr(g.expr(1))
		}
	}
	switch g.pick(24) {
	case 0, 1:
		return Expr(g.expr(2))
	case 2:
		return Expr(Call(Id("H"), g.expr(2)))
	case 3:
		n := globalsPool[g.pick(len(globalsPool))]
		return Var(n, g.rhs(2))
	case 4:
		n := g.fresh("o")
		s := Var(n, g.objExpr(2))
		g.objs = append(g.objs, n)
		g.vars = append(g.vars, n)
		return s
	case 5, 6:
		cons := g.stmt(d - 1)
		var els N
		if g.chance(50) {
			els = g.stmt(d - 1)
			cons = Block(cons) // no dangling else: the tree decides which if the else belongs to
		}
		return If(g.expr(2), cons, els)
	case 7, 8:
		return g.loop(d, "")
	case 9:
		l := g.fresh("L")
		return g.loop(d, l)
	case 10:
		l := g.fresh("L")
		g.labels = append(g.labels, lab{l, false})
		var body N
		if g.chance(60) {
			body = Block(g.block(d-1, 1+g.pick(3))...)
		} else {
			body = g.stmt(d - 1) // labelled non-block statement
		}
		g.labels = g.labels[:len(g.labels)-1]
		return Label(l, body)
	case 11, 12:
		hasH := g.chance(70)
		hasF := !hasH || g.chance(50)
		e := g.fresh("e")
		blk := g.block(d-1, 1+g.pick(2))
		if g.chance(50) {
			blk = append(blk, g.thrower())
		}
		var h, f []N
		if hasH {
			g.vars = append(g.vars, e)
			h = g.block(d-1, g.pick(3))
			g.vars = g.vars[:len(g.vars)-1]
		}
		if hasF {
			f = g.block(d-1, g.pick(3))
		}
		return Try(blk, e, h, hasH, f, hasF)
	case 13:
		g.breakOK++
		cs := []N{}
		n := 1 + g.pick(3)
		def := g.pick(n + 2)
		for i := 0; i < n; i++ {
			if i == def {
				cs = append(cs, Case(nil, g.block(d-1, g.pick(3))...))
			}
			cs = append(cs, Case(g.prim(), g.block(d-1, g.pick(3))...))
		}
		g.breakOK--
		return Switch(g.expr(1), cs...)
	case 14:
		return g.jump()
	case 15:
		return g.thrower()
	case 16:
		return Block(g.block(d-1, g.pick(3))...)
	case 17:
		if len(g.objs) > 0 {
			o := g.objs[g.pick(len(g.objs))]
			return With(Id(o), Block(Expr(Asg("=", Id([]string{"p", "q", "a"}[g.pick(3)]), g.expr(1))), Expr(Call(Id("H"), Id("p")))))
		}
		return Empty()
	case 18:
		// eval code is a program of its own: no return, no jumps to enclosing labels or loops
		saved := *g
		g.inFunc, g.loops, g.breakOK, g.labels = false, 0, 0, nil
		body := g.block(d-1, 1+g.pick(2))
		u, vars, objs, funcs := g.uniq, g.vars, g.objs, g.funcs
		*g = saved
		g.uniq, g.vars, g.objs, g.funcs = u, vars, objs, funcs
		return Expr(EvalCall(g.chance(60), body...))
	case 19:
		// function expression bound to a variable
		name := g.fresh("f")
		fn := g.function(d, "", g.chance(30))
		g.funcs = append(g.funcs, fnInfo{name, len(fn["params"].([][]int))})
		return Var(name, fn)
	case 20:
		return Empty()
	default:
		return Expr(g.expr(2))
	}
}

func (g *Gen) thrower() N {
	switch g.pick(4) {
	case 0:
		return Throw(Num(g.pick(4)))
	case 1:
		return Throw(Str("t"))
	case 2:
		return Throw(New(Id([]string{"Error", "TypeError", "RangeError", "ReferenceError"}[g.pick(4)]), Str("m")))
	default:
		// a runtime error raised by the interpreter itself
		switch g.pick(3) {
		case 0:
			return Expr(Call(Id("undefinedFunction")))
		case 1:
			return Expr(Dot(Null(), "p"))
		default:
			return Expr(Call(Num(1)))
		}
	}
}

// function builds a function expression (named when name != "").
func (g *Gen) function(d int, name string, named bool) N {
	saved := *g
	np := g.pick(3)
	params := []string{"x", "y"}[:np]
	if np == 2 && g.chance(10) {
		params = []string{"x", "x"}
	}
	g.inFunc, g.loops, g.breakOK, g.labels = true, 0, 0, nil
	g.rep++
	g.params = params
	g.vars = append(append([]string{}, saved.vars...), params...)
	body := g.block(d-1, 1+g.pick(3))
	if g.chance(70) {
		body = append(body, Return(g.expr(2)))
	}
	u := g.uniq
	funcs := g.funcs
	*g = saved
	g.uniq = u
	_ = funcs
	if named && name == "" {
		name = g.fresh("nf")
	}
	return Fn(name, params, body...)
}

// Program generates one program.
func (g *Gen) Program() []N {
	g.inFunc, g.loops, g.breakOK, g.labels, g.funcs, g.vars, g.objs, g.params = false, 0, 0, nil, nil, nil, nil, nil
	body := []N{Var("a", Num(1)), Var("b", Str("s")), Var("c", nil), Var("n", Num(0))}
	g.vars = []string{"a", "b", "c"}
	// hoisted function declarations
	for i, n := 0, g.pick(3); i < n; i++ {
		name := g.fresh("g")
		fn := g.function(g.MaxDepth, name, false)
		fn["k"] = "fdecl"
		body = append(body, fn)
		g.funcs = append(g.funcs, fnInfo{name, len(fn["params"].([][]int))})
	}
	body = append(body, g.block(g.MaxDepth, 2+g.pick(g.MaxTop-1))...)
	// one or two targeted scenarios, placed after the random part
	for i, n := 0, g.pick(3); i < n; i++ {
		body = append(body, g.scenario()...)
	}
	return body
}
