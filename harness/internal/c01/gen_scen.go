package c01

import "fmt"

// Scenario statements: small program fragments aimed at the interactions the
// property statement names (arguments aliasing, with/eval scoping, this
// binding, hoisting, closures, finally overriding jumps, switch selection).
// Every choice inside is random, so each scenario is a family, not one program.

func (g *Gen) hcall(args ...N) N { return Expr(Call(Id("H"), args...)) }

func (g *Gen) smallVal() N {
	switch g.pick(6) {
	case 0:
		return Num(g.pick(9))
	case 1:
		return Str([]string{"s", "t", ""}[g.pick(3)])
	case 2:
		return Undefined()
	case 3:
		return Bool(g.chance(50))
	case 4:
		return Null()
	default:
		return Num(10 + g.pick(5))
	}
}

// arguments object and parameter aliasing (10.6)
func (g *Gen) scenArguments() []N {
	name := g.fresh("fa")
	params := [][]string{{"x", "y"}, {"x"}, {"x", "x"}, {"x", "y", "x"}, {}}[g.pick(5)]
	body := []N{}
	ops := 2 + g.pick(6)
	for i := 0; i < ops; i++ {
		idx := g.pick(3)
		switch g.pick(12) {
		case 9: // 10.6 [[DefineOwnProperty]]: a value goes to the parameter, writable: false or an accessor ends the mapping
			var d N
			switch g.pick(5) {
			case 0:
				d = Obj("value", g.smallVal())
			case 1:
				d = Obj("writable", Bool(false))
			case 2:
				d = Obj("value", g.smallVal(), "writable", Bool(false))
			case 3:
				d = Obj("get", Fn("", nil, Return(Str("getter"))))
			default:
				d = Obj("enumerable", Bool(false))
			}
			body = append(body, Try([]N{Expr(Call(Dot(Id("Object"), "defineProperty"), Id("arguments"), Str([]string{"0", "1", "2"}[idx]), d))}, "e", []N{g.hcall(Str("define threw"))}, true, nil, false))
		case 10, 11:
			dn := g.fresh("dd")
			body = append(body, Var(dn, Call(Dot(Id("Object"), "getOwnPropertyDescriptor"), Id("arguments"), Str([]string{"0", "1", "2"}[idx]))),
				g.hcall(Un("typeof", Id(dn)), Cond(Id(dn), Dot(Id(dn), "value"), Num(0)), Cond(Id(dn), Dot(Id(dn), "writable"), Num(0)), Cond(Id(dn), Un("typeof", Dot(Id(dn), "get")), Num(0))))
		case 0:
			if len(params) > 0 {
				body = append(body, Expr(Asg("=", Id(params[g.pick(len(params))]), g.smallVal())))
			}
		case 1:
			body = append(body, Expr(Asg("=", Idx(Id("arguments"), Num(idx)), g.smallVal())))
		case 2:
			body = append(body, g.hcall(Un("delete", Idx(Id("arguments"), Num(idx)))))
		case 3:
			body = append(body, g.hcall(Idx(Id("arguments"), Num(0)), Idx(Id("arguments"), Num(1)), Dot(Id("arguments"), "length")))
		case 4:
			if len(params) > 0 {
				body = append(body, g.hcall(Id(params[0]), Id(params[len(params)-1])))
			}
		case 5:
			body = append(body, Expr(Asg("=", Dot(Id("arguments"), "length"), Num(g.pick(4)))))
		case 6:
			body = append(body, g.hcall(Bin("in", Str([]string{"0", "1", "2", "length", "callee"}[g.pick(5)]), Id("arguments"))))
		case 7:
			body = append(body, g.hcall(Bin("===", Dot(Id("arguments"), "callee"), Id(name)), Un("typeof", Id("arguments"))))
		default:
			body = append(body, Var("arguments", nil), g.hcall(Un("typeof", Id("arguments"))))
		}
	}
	body = append(body, g.hcall(Idx(Id("arguments"), Num(0)), Dot(Id("arguments"), "length")))
	if len(params) > 0 {
		body = append(body, Return(Id(params[0])))
	}
	nargs := g.pick(4)
	args := []N{}
	for i := 0; i < nargs; i++ {
		args = append(args, Num(1+i))
	}
	return []N{FDecl(name, params, body...), g.hcall(Call(Id(name), args...))}
}

// with: scope restoration on every kind of exit, assignment through the object
func (g *Gen) scenWith() []N {
	o := g.fresh("w")
	out := []N{Var("p", Str("gp")), Var("q", Str("gq")), Var(o, Obj("p", Str("wp"), "r", Num(1)))}
	var exit N
	switch g.pick(5) {
	case 0:
		exit = Throw(Num(7))
	case 1:
		exit = Expr(Call(Id("undefinedFn")))
	case 2:
		exit = Empty()
	case 3:
		exit = Expr(Asg("=", Id("q"), Str("set-in-with")))
	default:
		exit = Expr(Un("delete", Id("p")))
	}
	withStmt := With(Id(o), Block(g.hcall(Id("p"), Id("q")), Expr(Asg("=", Id("p"), Str("np"))), Var("r", Num(2)), exit, g.hcall(Id("p"))))
	inner := []N{withStmt, g.hcall(Id("p"))}
	if g.chance(50) {
		l := g.fresh("L")
		inner = []N{Label(l, For(Var("i", Num(0)), Bin("<", Id("i"), Num(2)), Upd("++", false, Id("i")),
			Block(With(Id(o), Block(g.hcall(Id("p")), If(Id("i"), Break(l), Block(Continue(l))))), g.hcall(Str("unreached"))))), g.hcall(Id("p"))}
	}
	stmt := Try(inner, "e", []N{g.hcall(Str("catch"), Id("p"), Id("q"), Un("typeof", Id("r")))}, true,
		[]N{g.hcall(Str("finally"), Id("p"))}, g.chance(60))
	out = append(out, stmt, g.hcall(Id("p"), Id("q"), Dot(Id(o), "p"), Dot(Id(o), "r"), Un("typeof", Id("r"))))
	if g.chance(50) { // the same inside a function: locals vs with object
		f := g.fresh("fw")
		out = append(out, FDecl(f, []string{"p"}, Try([]N{With(Id(o), Block(Expr(Asg("=", Id("p"), Str("fp"))), exit))}, "e", []N{g.hcall(Id("p"))}, true, nil, false), Return(Id("p"))),
			g.hcall(Call(Id(f), Str("arg"))))
	}
	return out
}

// eval code: var/function declarations land in the variable environment of the caller
func (g *Gen) scenEval() []N {
	v := g.fresh("ev")
	o := g.fresh("w")
	direct := g.chance(70)
	decl := EvalCall(direct, Var(v, Num(1)), FDecl(v+"f", nil, Return(Num(5))), Expr(Id(v)))
	var ctxStmt N
	switch g.pick(4) {
	case 0:
		ctxStmt = With(Id(o), Block(Expr(decl), g.hcall(Un("typeof", Id(v)), Bin("in", Str(v), Id(o)))))
	case 1:
		ctxStmt = Try([]N{Throw(Num(1))}, "e", []N{Expr(decl), g.hcall(Un("typeof", Id(v)))}, true, nil, false)
	case 2:
		ctxStmt = Expr(decl)
	default:
		ctxStmt = If(Bool(true), Block(Expr(decl)), nil)
	}
	body := []N{Var(o, Obj("z", Num(0))), ctxStmt, g.hcall(Un("typeof", Id(v)), Un("typeof", Id(v+"f"))),
		g.hcall(Un("delete", Id(v))), g.hcall(Un("typeof", Id(v)))}
	if g.chance(50) {
		f := g.fresh("fe")
		return []N{FDecl(f, nil, append(body, Return(Un("typeof", Id(v))))...), g.hcall(Call(Id(f))), g.hcall(Un("typeof", Id(v)))}
	}
	return body
}

// this binding for every call form (11.2.3, 10.4.3)
func (g *Gen) scenThis() []N {
	f := g.fresh("ft")
	o := g.fresh("ot")
	isG := func() N {
		return Cond(Bin("===", This(), Id(o)), Str("o"), Cond(Bin("===", This(), Id("GLOBAL")), Str("global"), Un("typeof", This())))
	}
	out := []N{Var("GLOBAL", This()), FDecl(f, []string{"x"}, Return(isG())),
		Var(o, Obj("m", Id(f), "n", Obj("m", Id(f)))), Var("m2", Dot(Id(o), "m"))}
	forms := []N{
		Call(Id(f)), Call(Dot(Id(o), "m")), Call(Idx(Id(o), Str("m"))), Call(Id("m2")),
		Call(Bin(",", Num(0), Dot(Id(o), "m"))), Call(Bin("||", Dot(Id(o), "m"), Num(0))), Call(Cond(Num(1), Dot(Id(o), "m"), Num(0))),
		Call(Dot(Dot(Id(o), "n"), "m")), Call(Dot(Id(f), "call"), Id(o)), Call(Dot(Id(f), "call"), Undefined()), Call(Dot(Id(f), "apply"), Null()),
		Call(Call(Dot(Id(f), "bind"), Id(o))), Call(Dot(Call(Dot(Id(f), "bind"), Id(o)), "call"), Id("GLOBAL")),
		Bin("instanceof", New(Id(f)), Id(f)), Call(Fn("", nil, Return(Call(Id(f))))),
		Call(Dot(Obj("g", Fn("", nil, Return(Call(Fn("", nil, Return(isG())))))), "g")),
		Call(Asg("=", Dot(Id(o), "k"), Dot(Id(o), "m"))),
	}
	n := 3 + g.pick(5)
	for i := 0; i < n; i++ {
		out = append(out, g.hcall(forms[g.pick(len(forms))]))
	}
	return out
}

// hoisting: same name as parameter / var / function declaration (10.5)
func (g *Gen) scenHoist() []N {
	f := g.fresh("fh")
	body := []N{g.hcall(Un("typeof", Id("x")), Un("typeof", Id("v")), Un("typeof", Id("h")))}
	if g.chance(60) {
		body = append(body, Var("x", g.smallVal()))
	}
	if g.chance(60) {
		body = append(body, FDecl("x", nil, Return(Num(1))))
	}
	if g.chance(50) {
		body = append(body, Var("h", Fn("", nil, Return(Num(2)))))
	}
	if g.chance(50) {
		body = append(body, FDecl("h", nil, Return(Num(3))), FDecl("h", nil, Return(Num(4))))
	}
	if g.chance(50) {
		body = append(body, If(Bool(false), Var("v", Num(9)), nil))
	}
	body = append(body, g.hcall(Un("typeof", Id("x")), Un("typeof", Id("v")), Cond(Bin("===", Un("typeof", Id("h")), Str("function")), Call(Id("h")), Id("h"))))
	nf := g.fresh("nfe")
	body = append(body, g.hcall(Call(Fn(nf, nil, Expr(Asg("=", Id(nf), Num(1))), Return(Un("typeof", Id(nf)))))))
	return []N{FDecl(f, []string{"x"}, body...), Expr(Call(Id(f), g.smallVal())), g.hcall(Un("typeof", Id(nf)))}
}

// closures: captured variables are shared and live on
func (g *Gen) scenClosure() []N {
	mk := g.fresh("mk")
	c1, c2 := g.fresh("c"), g.fresh("c")
	out := []N{
		FDecl(mk, []string{"s"}, Var("n", Id("s")), Return(Obj("inc", Fn("", nil, Return(Upd("++", true, Id("n")))), "get", Fn("", nil, Return(Id("n")))))),
		Var(c1, Call(Id(mk), Num(g.pick(3)))), Var(c2, Call(Id(mk), Num(10))),
	}
	for i, n := 0, 2+g.pick(4); i < n; i++ {
		c := []string{c1, c2}[g.pick(2)]
		out = append(out, g.hcall(Call(Dot(Id(c), []string{"inc", "get"}[g.pick(2)]))))
	}
	fs := g.fresh("fs")
	out = append(out, Var(fs, Arr()),
		For(Var("i", Num(0)), Bin("<", Id("i"), Num(3)), Upd("++", false, Id("i")),
			Block(Expr(Asg("=", Idx(Id(fs), Id("i")), Fn("", nil, Return(Id("i"))))))),
		g.hcall(Call(Idx(Id(fs), Num(0))), Call(Idx(Id(fs), Num(2))), Dot(Id(fs), "length")))
	return out
}

// finally overriding return / break / continue / throw (12.14)
func (g *Gen) scenFinally() []N {
	f := g.fresh("ff")
	jump := func(inLoop bool) N {
		switch g.pick(6) {
		case 0:
			return Return(g.smallVal())
		case 1:
			return Throw(g.smallVal())
		case 2:
			if inLoop {
				return Break("")
			}
		case 3:
			if inLoop {
				return Continue("")
			}
		case 4:
			return g.hcall(Str("plain"))
		}
		return Empty()
	}
	inLoop := g.chance(60)
	try := Try([]N{g.hcall(Str("t")), jump(inLoop)}, "e", []N{g.hcall(Str("c"), Id("e")), jump(inLoop)}, g.chance(70), []N{g.hcall(Str("f")), jump(inLoop)}, true)
	if !try["hasH"].(bool) {
		try["hasF"] = true
	}
	var body []N
	if inLoop {
		body = []N{For(Var("i", Num(0)), Bin("<", Id("i"), Num(2)), Upd("++", false, Id("i")), Block(g.hcall(Id("i")), try, g.hcall(Str("after")))), Return(Str("end"))}
	} else {
		body = []N{try, Return(Str("end"))}
	}
	return []N{FDecl(f, nil, body...), Try([]N{g.hcall(Call(Id(f)))}, "e", []N{g.hcall(Str("outer"), Id("e"))}, true, nil, false)}
}

// switch: selection order, side-effecting tests, duplicates, default in the middle (12.11)
func (g *Gen) scenSwitch() []N {
	n := 2 + g.pick(4)
	def := g.pick(n + 2)
	cs := []N{}
	for i := 0; i < n; i++ {
		if i == def {
			cs = append(cs, Case(nil, g.hcall(Str("default"))))
		}
		body := []N{g.hcall(Str("body"), Num(i))}
		if g.chance(35) {
			body = append(body, Break(""))
		}
		cs = append(cs, Case(Call(Id("H"), Num(g.pick(3))), body...))
	}
	return []N{Switch(Num(g.pick(4)), cs...), g.hcall(Str("after-switch"))}
}

// accessors, attributes and the Object constructor functions (8.12, 15.2.3)
func (g *Gen) scenObject() []N {
	o := g.fresh("oa")
	lit := Obj("d", g.smallVal())
	lit = WithAccessor(lit, "get", "g", Fn("", nil, g.hcall(Str("get-g")), Return(Bin("+", Dot(This(), "d"), Num(1)))))
	if g.chance(60) {
		lit = WithAccessor(lit, "set", "g", Fn("", []string{"v"}, g.hcall(Str("set-g"), Id("v")), Expr(Asg("=", Dot(This(), "d"), Id("v")))))
	}
	if g.chance(40) {
		lit = WithAccessor(lit, "set", "s", Fn("", []string{"v"}, g.hcall(Str("set-s"), Id("v"))))
	}
	out := []N{Var(o, lit)}
	od := func(name string, args ...N) N { return Call(Dot(Id("Object"), name), args...) }
	steps := []func() N{
		func() N { return g.hcall(Dot(Id(o), "g")) },
		func() N { return Expr(Asg("=", Dot(Id(o), "g"), g.smallVal())) },
		func() N { return Expr(Asg("=", Dot(Id(o), "s"), g.smallVal())) },
		func() N { return g.hcall(Dot(Id(o), "s"), Dot(Id(o), "d")) },
		func() N {
			return Expr(od("defineProperty", Id(o), Str([]string{"d", "n", "g"}[g.pick(3)]),
				Obj("value", g.smallVal(), "writable", Bool(g.chance(50)), "enumerable", Bool(g.chance(50)), "configurable", Bool(g.chance(50)))))
		},
		func() N {
			return Expr(od("defineProperty", Id(o), Str("a"+[]string{"1", "2"}[g.pick(2)]),
				Obj("get", Fn("", nil, Return(Num(7))), "enumerable", Bool(g.chance(50)), "configurable", Bool(g.chance(50)))))
		},
		func() N { return Expr(od("defineProperty", Id(o), Str("d"), Obj("enumerable", Bool(false)))) },
		func() N { return Expr(od([]string{"freeze", "seal", "preventExtensions"}[g.pick(3)], Id(o))) },
		func() N { return g.hcall(od("isFrozen", Id(o)), od("isSealed", Id(o)), od("isExtensible", Id(o))) },
		func() N {
			return g.hcall(Dot(od("keys", Id(o)), "length"), Dot(od("getOwnPropertyNames", Id(o)), "length"))
		},
		func() N { return Expr(Asg("=", Dot(Id(o), "fresh"), Num(1))) },
		func() N { return g.hcall(Un("delete", Dot(Id(o), []string{"d", "g", "n"}[g.pick(3)]))) },
		func() N {
			d := g.fresh("ds")
			return Block(Var(d, od("getOwnPropertyDescriptor", Id(o), Str([]string{"d", "g", "n", "zz"}[g.pick(4)]))),
				g.hcall(Un("typeof", Id(d)), Cond(Id(d), Dot(Id(d), "writable"), Num(0)), Cond(Id(d), Dot(Id(d), "enumerable"), Num(0)), Cond(Id(d), Un("typeof", Dot(Id(d), "get")), Num(0))))
		},
		func() N {
			k := g.fresh("k")
			return ForIn(true, k, Id(o), Block(g.hcall(Id(k))))
		},
		func() N {
			c := g.fresh("ch")
			return Block(Var(c, od("create", Id(o))), Expr(Asg("=", Dot(Id(c), "g"), Num(5))), g.hcall(Dot(Id(c), "g"), Dot(Id(c), "d"),
				Bin("===", od("getPrototypeOf", Id(c)), Id(o)), Call(Dot(Id(c), "hasOwnProperty"), Str("g"))))
		},
	}
	for i, n := 0, 3+g.pick(6); i < n; i++ {
		st := steps[g.pick(len(steps))]()
		if g.chance(40) {
			st = Try([]N{st}, "e", []N{g.hcall(Str("threw"), Bin("instanceof", Id("e"), Id("TypeError")))}, true, nil, false)
		}
		out = append(out, st)
	}
	out = append(out, g.hcall(Dot(Id(o), "d"), Dot(Id(o), "g")))
	return out
}

// labelled statements of every kind with a jump to the label from inside a nested
// statement (12.12: the label set of the labelled statement is not inherited by the
// statements nested in it; break L leaves the whole labelled statement)
func (g *Gen) scenLabel() []N {
	l := g.fresh("L")
	kind := g.pick(9)
	isLoop := kind >= 5
	jump := func() N {
		if isLoop && g.chance(40) {
			return Continue(l)
		}
		return Break(l)
	}
	nest := func() N {
		j := jump()
		if g.chance(30) {
			j = If(Bin("===", Id("n"), Num(g.pick(3))), j, nil)
		}
		switch g.pick(8) {
		case 0:
			return Block(g.hcall(Str("in-block")), j, g.hcall(Str("block-rest")))
		case 1:
			k := g.fresh("k")
			return For(Var(k, Num(0)), Bin("<", Id(k), Num(2)), Upd("++", false, Id(k)),
				Block(g.hcall(Str("in-loop"), Id(k)), If(Bin("===", Id(k), Num(g.pick(2))), j, nil)))
		case 2:
			return Try([]N{g.hcall(Str("in-try")), j}, "e", nil, false, []N{g.hcall(Str("fin"))}, true)
		case 3:
			return Try([]N{Throw(Num(1))}, "e", []N{g.hcall(Str("in-catch")), j}, true, nil, false)
		case 4:
			return Try([]N{g.hcall(Str("t"))}, "e", nil, false, []N{g.hcall(Str("in-finally")), j}, true)
		case 5:
			return Switch(Num(1), Case(Num(1), g.hcall(Str("in-switch")), j), Case(Num(2), g.hcall(Str("fall"))))
		case 6:
			return With(Obj("w", Num(1)), Block(g.hcall(Str("in-with"), Id("w")), j))
		default:
			return If(Bool(true), j, nil)
		}
	}
	body := func() []N {
		out := []N{g.hcall(Str("body"))}
		if g.chance(50) {
			out = append(out, Expr(Asg("=", Id("n"), Bin("+", Id("n"), Num(1)))))
		}
		out = append(out, nest(), g.hcall(Str("after-nested")))
		return out
	}
	var st N
	k := g.fresh("k")
	switch kind {
	case 0:
		st = Switch(Num(g.pick(3)), Case(Num(0), g.hcall(Str("c0"))), Case(Num(1), body()...), Case(Num(2), g.hcall(Str("c2"))), Case(nil, g.hcall(Str("default"))))
	case 1:
		st = Block(body()...)
	case 2:
		st = If(Bool(g.chance(80)), Block(body()...), Block(g.hcall(Str("else"))))
	case 3:
		st = Try(body(), "e", nil, false, []N{g.hcall(Str("outer-fin"))}, true)
	case 4:
		st = With(Obj("w", Num(2)), Block(body()...))
	case 5:
		st = For(Var(k, Num(0)), Bin("<", Id(k), Num(2)), Upd("++", false, Id(k)), Block(body()...))
	case 6:
		st = While(Bin("<", Upd("++", false, Id(k)), Num(2)), Block(body()...))
	case 7:
		st = DoWhile(Block(body()...), Bin("<", Upd("++", true, Id(k)), Num(2)))
	default:
		st = ForIn(true, k, Obj("p", Num(1), "q", Num(2)), Block(append([]N{g.hcall(Id(k))}, body()...)...))
	}
	out := []N{}
	if kind == 6 || kind == 7 {
		out = append(out, Var(k, Num(0)))
	}
	return append(out, Label(l, st), g.hcall(Str("after-label"), Id("n")))
}

// instanceof (11.8.6, 15.3.5.3): the walk starts at the PROTOTYPE of the left operand, uses the
// current value of F.prototype, follows bound functions to their target, and throws TypeError
// for a right operand that is not a function or whose prototype is not an object
func (g *Gen) scenInstanceof() []N {
	f, h := g.fresh("F"), g.fresh("G")
	o, q := g.fresh("o"), g.fresh("q")
	out := []N{
		FDecl(f, nil), FDecl(h, nil),
		Var(o, New(Id(f))),
	}
	lefts := []N{Id(o), Dot(Id(f), "prototype"), Dot(Id(h), "prototype"), Dot(Id("Object"), "prototype"), Dot(Id("Function"), "prototype"),
		Id(f), Num(1), Str("s"), Null(), Obj("a", Num(1)), Fn("", nil)}
	rights := []N{Id(f), Id(h), Id("Object"), Id("Function")}
	probe := func() N {
		return g.hcall(Bin("instanceof", lefts[g.pick(len(lefts))], rights[g.pick(len(rights))]),
			Bin("instanceof", lefts[g.pick(len(lefts))], rights[g.pick(len(rights))]))
	}
	out = append(out, g.hcall(Bin("instanceof", Id(o), Id(f)), Bin("instanceof", Dot(Id(f), "prototype"), Id(f)),
		Bin("instanceof", Dot(Id("Object"), "prototype"), Id("Object"))))
	steps := 2 + g.pick(4)
	for i := 0; i < steps; i++ {
		switch g.pick(7) {
		case 0:
			out = append(out, Expr(Asg("=", Dot(Id(h), "prototype"), Id(o))), Var(q, New(Id(h))))
			lefts = append(lefts, Id(q))
		case 1:
			out = append(out, Expr(Asg("=", Dot(Id(f), "prototype"), Obj("z", Num(1)))))
		case 2:
			out = append(out, Expr(Asg("=", Dot(Id(h), "prototype"), []N{Num(1), Null(), Undefined(), Str("p")}[g.pick(4)])),
				Try([]N{g.hcall(Bin("instanceof", Id(o), Id(h)))}, "e", []N{g.hcall(Str("caught"), Bin("instanceof", Id("e"), Id("TypeError")))}, true, nil, false),
				Try([]N{g.hcall(Bin("instanceof", Num(1), Id(h)))}, "e", []N{g.hcall(Str("caught-prim"), Bin("instanceof", Id("e"), Id("TypeError")))}, true, nil, false))
		case 3:
			b := g.fresh("B")
			out = append(out, Var(b, Call(Dot(Id([]string{f, h}[g.pick(2)]), "bind"), Null())))
			rights = append(rights, Id(b))
		case 4:
			out = append(out, Try([]N{g.hcall(Bin("instanceof", lefts[g.pick(len(lefts))], []N{Obj("a", Num(1)), Num(1), Str("f"), Dot(Id(f), "prototype")}[g.pick(4)]))},
				"e", []N{g.hcall(Str("not-callable"), Bin("instanceof", Id("e"), Id("TypeError")))}, true, nil, false))
		case 5:
			out = append(out, Expr(Asg("=", Dot(Id(h), "prototype"), Dot(Id(f), "prototype"))))
		default:
			out = append(out, probe())
		}
		out = append(out, probe())
	}
	return out
}

// eval as a value (15.1.2.1.1): a call is a direct eval exactly when the callee is a reference to
// an environment-record binding named "eval" that holds the built-in function: a formal
// parameter, a local variable, a catch parameter or a with-object property named eval qualify;
// the same function under another name, as a property, or another function named eval do not.
func (g *Gen) scenEvalValue() []N {
	x := g.fresh("xv")
	f := g.fresh("fv")
	probe := func(callee N) N {
		switch g.pick(3) {
		case 0:
			return EvalVia(callee, Expr(Id(x)))
		case 1:
			return EvalVia(callee, Var(x, Str("declared")), Expr(Id(x)))
		default:
			return EvalVia(callee, Expr(Asg("=", Id(x), Bin("+", Id(x), Str("!")))), Expr(Un("typeof", This())))
		}
	}
	fake := Fn("", []string{"s"}, g.hcall(Str("fake"), Id("s")), Return(Num(7)))
	var body []N
	arg := Id("eval")
	switch g.pick(8) {
	case 0: // formal parameter named eval
		if g.chance(25) {
			arg = fake
		}
		body = []N{FDecl(f, []string{"eval"}, Var(x, Str("local")), g.hcall(probe(Id("eval"))), Return(Id(x))), g.hcall(Call(Id(f), arg))}
	case 1: // local variable named eval
		init := []N{Dot(This(), "eval"), Id("eval"), fake}[g.pick(3)]
		_ = init
		body = []N{FDecl(f, []string{"ge"}, Var("eval", Id("ge")), Var(x, Str("local")), g.hcall(probe(Id("eval"))), Return(Id(x))),
			g.hcall(Call(Id(f), []N{Id("eval"), fake}[g.pick(2)]))}
	case 2: // catch parameter named eval
		body = []N{FDecl(f, nil, Var(x, Str("local")), Try([]N{Throw(Id("eval"))}, "eval", []N{g.hcall(probe(Id("eval")))}, true, nil, false), Return(Id(x))),
			g.hcall(Call(Id(f)))}
	case 3: // with-object property named eval
		body = []N{FDecl(f, nil, Var(x, Str("local")), With(Obj("eval", Id("eval"), x, Str("with")), Block(g.hcall(probe(Id("eval"))))), Return(Id(x))),
			g.hcall(Call(Id(f)))}
	case 4: // the built-in under another name: indirect
		e := g.fresh("ge")
		body = []N{FDecl(f, nil, Var(x, Str("local")), Var(e, Id("eval")), g.hcall(probe(Id(e))), Return(Id(x))), g.hcall(Call(Id(f)))}
	case 5: // as a property of an object: indirect
		o := g.fresh("oe")
		body = []N{FDecl(f, nil, Var(x, Str("local")), Var(o, Obj("eval", Id("eval"))), g.hcall(probe(Dot(Id(o), "eval"))), Return(Id(x))), g.hcall(Call(Id(f)))}
	case 6: // through the global object / this
		body = []N{FDecl(f, nil, Var(x, Str("local")), g.hcall(probe(Dot(This(), "eval"))), Return(Id(x))), g.hcall(Call(Id(f)))}
	default: // the plain global binding inside a function: direct
		body = []N{FDecl(f, nil, Var(x, Str("local")), g.hcall(probe(Id("eval"))), Return(Id(x))), g.hcall(Call(Id(f)))}
	}
	return append([]N{Var(x, Str("global"))}, append(body, g.hcall(Id(x), Un("typeof", Id("eval")), Dot(Id("eval"), "length")))...)
}

// for-in over an object whose properties are deleted by the loop body (12.6.4): every
// property is visited at most once, a property deleted before it is reached is not visited,
// deleting the property being visited or an earlier one disturbs nothing
func (g *Gen) scenForInMutate() []N {
	o, k := g.fresh("fo"), g.fresh("fk")
	names := []string{"a", "b", "c", "d", "e"}[:3+g.pick(3)]
	kv := []any{}
	for i, n := range names {
		kv = append(kv, n, Num(i))
	}
	out := []N{Var(o, Obj(kv...))}
	deletable := names
	if g.chance(40) { // inherited enumerable properties, one of them shadowed
		// (the shadowing own property is never deleted: where the inherited one then appears in the
		// enumeration is not specified by 12.6.4)
		deletable = append([]string{names[0]}, names[2:]...)
		pr := g.fresh("fp")
		out = []N{Var(pr, Obj("z", Num(9), names[1], Num(8))), Var(o, Call(Dot(Id("Object"), "create"), Id(pr)))}
		for i, n := range names {
			out = append(out, Expr(Asg("=", Dot(Id(o), n), Num(i))))
		}
		if g.chance(50) {
			out = append(out, g.hcall(Str("proto"), Id(pr)))
		}
	}
	at := names[g.pick(len(names))]
	dels := []N{}
	for i := 0; i < 1+g.pick(2); i++ {
		dels = append(dels, g.hcall(Un("delete", Dot(Id(o), deletable[g.pick(len(deletable))]))))
	}
	body := []N{g.hcall(Id(k)), If(Bin("===", Id(k), Str(at)), Block(dels...), nil)}
	out = append(out, ForIn(true, k, Id(o), Block(body...)))
	k2 := g.fresh("fk")
	out = append(out, g.hcall(Str("after")), ForIn(true, k2, Id(o), Block(g.hcall(Id(k2), Call(Dot(Id(o), "hasOwnProperty"), Id(k2))))))
	return out
}

// calling or constructing a value that is not callable (11.2.3 step 4-5, 11.2.2): a TypeError, and no
// conversion of the value takes place (its toString / valueOf must not run)
func (g *Gen) scenNonCallable() []N {
	o := g.fresh("nc")
	spy := func(tag string) N { return Fn("", nil, g.hcall(Str(tag+" called")), Return(Str("x"))) }
	out := []N{Var(o, Obj("toString", spy("toString"), "valueOf", spy("valueOf"), "m", Num(1), "inner", Obj("toString", spy("inner toString"))))}
	callees := []N{Id(o), Dot(Id(o), "m"), Dot(Id(o), "inner"), Dot(Id(o), "missing"), Num(1), Str("s"), Null(), Arr(Id(o)), Idx(Id(o), Str("m"))}
	for i := 0; i < 2+g.pick(3); i++ {
		c := callees[g.pick(len(callees))]
		var e N
		if g.chance(35) {
			e = New(c, g.smallVal())
		} else {
			e = Call(c, Call(Id("H"), Str("argument evaluated")))
		}
		out = append(out, Try([]N{Expr(e), g.hcall(Str("no error"))}, "e", []N{g.hcall(Str("caught"), Bin("instanceof", Id("e"), Id("TypeError")))}, true, nil, false))
	}
	return out
}

func (g *Gen) scenario() []N {
	switch g.pick(14) {
	case 13:
		return g.scenNonCallable()
	case 12:
		return g.scenForInMutate()
	case 11:
		return g.scenEvalValue()
	case 9:
		return g.scenLabel()
	case 10:
		return g.scenInstanceof()
	case 8:
		return g.scenObject()
	case 0:
		return g.scenArguments()
	case 1:
		return g.scenWith()
	case 2:
		return g.scenEval()
	case 3:
		return g.scenThis()
	case 4:
		return g.scenHoist()
	case 5:
		return g.scenClosure()
	case 6:
		return g.scenFinally()
	default:
		return g.scenSwitch()
	}
}

// ScenarioProgram is a program made of n targeted scenario fragments only
// (used where the interesting part is the shared compiled tree: C20).
func (g *Gen) ScenarioProgram(n int) []N {
	g.inFunc, g.loops, g.breakOK, g.labels, g.funcs, g.vars, g.objs, g.params = false, 0, 0, nil, nil, nil, nil, nil
	body := []N{Var("a", Num(1)), Var("b", Str("s")), Var("c", nil), Var("n", Num(0))}
	g.vars = []string{"a", "b", "c"}
	body = append(body, g.scenArguments()...)
	for i := 1; i < n; i++ {
		body = append(body, g.scenario()...)
	}
	return body
}

// ---------------------------------------------------------------------------
// Family "objects with observable conversion methods under every operator" (8.12.8, 9.1, clause 11):
// the operands are objects whose valueOf / toString log through the host function H, return a
// primitive or an object, are absent or not callable, or throw errors of different classes, so
// WHICH conversions run, in WHICH ORDER relative to each other and to the evaluation of the operand
// expressions, and WHICH exception wins are part of the observed host-call sequence.  The product:
//   operator position: every binary operator (arithmetic, shift, bitwise, relational, equality, strict
//     equality, in, comma, && ||), every compound assignment (to a variable and to a property), unary
//     + - ~ ! typeof void, ++ -- prefix and postfix (variable and property), the property key of a
//     read and of an assignment target, the contexts that take ToBoolean (no conversion must run)
//   x operand shape on each side: scripted object, the same object twice, a primitive, an operand
//     expression with a host call of its own
//   x behaviour of valueOf and of toString: returns a number / string / boolean / null / undefined,
//     returns an object (the other method is tried), absent, not callable, throws an Error of a
//     given class, throws a primitive.
// The expected log, result and exception are computed by ES5Core (ToPrim / BinaryOp / UnaryOp).

// convObj: an object literal with scripted conversions; tag names it in the log.
func (g *Gen) convObj(tag string) N {
	kv := []any{}
	method := func(name string, likely int) {
		ret := func() N {
			switch g.pick(8) {
			case 0:
				return Str([]string{"5", "a", "", "b", "10"}[g.pick(5)])
			case 1:
				return Bool(g.chance(50))
			case 2:
				return []N{Null(), Undefined()}[g.pick(2)]
			case 3:
				return Str([]string{"p", "q"}[g.pick(2)])
			default:
				return Num(g.pick(7))
			}
		}
		log := g.hcall(Str(tag + " " + name))
		x := g.pick(100)
		switch {
		case x < likely:
			kv = append(kv, name, Fn("", nil, log, Return(ret())))
		case x < likely+8:
			kv = append(kv, name, Fn("", nil, log, Return(Obj("inner", Num(1)))))
		case x < likely+16:
			kv = append(kv, name, Fn("", nil, log, Throw(New(Id([]string{"TypeError", "RangeError", "ReferenceError", "Error", "SyntaxError"}[g.pick(5)]), Str(tag)))))
		case x < likely+20:
			kv = append(kv, name, Fn("", nil, log, Throw(Str(tag+" "+name+" thrown"))))
		case x < likely+24:
			kv = append(kv, name, []N{Num(1), Null(), Str("not callable"), Obj("z", Num(1))}[g.pick(4)])
		case x < likely+27:
			kv = append(kv, name, Fn("", nil, log)) // returns undefined
		}
		// otherwise absent: inherited from Object.prototype
	}
	if g.chance(50) {
		method("valueOf", 60)
		method("toString", 50)
	} else {
		method("toString", 50)
		method("valueOf", 60)
	}
	return Obj(kv...)
}

var convBinOps = []string{"+", "-", "*", "/", "%", "<<", ">>", ">>>", "&", "|", "^", "<", ">", "<=", ">=", "==", "!=", "===", "!==", "&&", "||", ","}
var convAsgOps = []string{"+", "-", "*", "/", "%", "<<", ">>", ">>>", "&", "|", "^"}

func (g *Gen) scenConvOrder() []N {
	tag := g.fresh("cv")
	nObj := 2 + g.pick(2)
	objs := make([]string, nObj)
	out := []N{}
	for i := range objs {
		objs[i] = g.fresh("co")
		out = append(out, Var(objs[i], g.convObj(fmt.Sprintf("%s.%d", tag, i))))
	}
	tbl := g.fresh("tb")
	out = append(out, Var(tbl, Obj("5", Str("five"), "a", Str("A"), "p", Num(1), "0", Str("zero"), "true", Num(2), "undefined", Num(3), "null", Num(4))))
	obj := func() N { return Id(objs[g.pick(len(objs))]) }
	operand := func() N {
		switch g.pick(10) {
		case 0:
			return g.smallVal()
		case 1:
			return Bin(",", Call(Id("H"), Str(tag+" operand")), obj())
		case 2:
			return Call(Id("H"), obj()) // a host call that returns its argument
		default:
			return obj()
		}
	}
	thrown := func() []N {
		return []N{g.hcall(Str(tag+" threw"), Un("typeof", Id("e")), Bin("instanceof", Id("e"), Id("TypeError")), Bin("instanceof", Id("e"), Id("RangeError")),
			Bin("instanceof", Id("e"), Id("Error")), Cond(Bin("===", Un("typeof", Id("e")), Str("string")), Id("e"), Num(0)))}
	}
	guard := func(s ...N) N { return Try(s, "e", thrown(), true, nil, false) }
	probes := 3 + g.pick(4)
	for i := 0; i < probes; i++ {
		switch g.pick(20) {
		case 0, 1, 2, 3, 4, 5, 6:
			op := convBinOps[g.pick(len(convBinOps))]
			l := operand()
			r := operand()
			if g.chance(10) {
				r = l // the same object on both sides: converted twice
			}
			out = append(out, guard(g.hcall(Str(tag+" "+op), Bin(op, l, r))))
		case 7, 8:
			// relational operators in both directions on the same pair (11.8.1-11.8.4 all convert the LEFT operand first)
			l, r := obj(), obj()
			op := []string{"<", ">", "<=", ">="}[g.pick(4)]
			out = append(out, guard(g.hcall(Str(tag+" "+op), Bin(op, l, r))), guard(g.hcall(Str(tag+" "+op+" swapped"), Bin(op, r, l))))
		case 9, 10:
			op := convAsgOps[g.pick(len(convAsgOps))]
			t := g.fresh("ct")
			out = append(out, Var(t, obj()), guard(g.hcall(Str(tag+" "+op+"="), Asg(op, Id(t), operand()))), g.hcall(Un("typeof", Id(t))))
		case 11:
			op := convAsgOps[g.pick(len(convAsgOps))]
			h := g.fresh("ch")
			out = append(out, Var(h, Obj("p", obj())), guard(g.hcall(Str(tag+" ."+op+"="), Asg(op, Dot(Id(h), "p"), operand()))), g.hcall(Un("typeof", Dot(Id(h), "p"))))
		case 12, 13:
			op := []string{"+", "-", "~", "!", "typeof", "void"}[g.pick(6)]
			out = append(out, guard(g.hcall(Str(tag+" unary "+op), Un(op, operand()))))
		case 14:
			t := g.fresh("ct")
			op := []string{"++", "--"}[g.pick(2)]
			out = append(out, Var(t, obj()), guard(g.hcall(Str(tag+" "+op), Upd(op, g.chance(50), Id(t)))), g.hcall(Un("typeof", Id(t)), Cond(Bin("===", Un("typeof", Id(t)), Str("number")), Id(t), Num(0))))
		case 15:
			h := g.fresh("ch")
			op := []string{"++", "--"}[g.pick(2)]
			out = append(out, Var(h, Obj("p", obj())), guard(g.hcall(Str(tag+" ."+op), Upd(op, g.chance(50), Dot(Id(h), "p")))), g.hcall(Un("typeof", Dot(Id(h), "p"))))
		case 16:
			// property key: ToString of the key
			out = append(out, guard(g.hcall(Str(tag+" key"), Idx(Id(tbl), operand()))))
		case 17:
			// assignment target with a computed key, right-hand side with an effect of its own (11.13.1: the reference first)
			out = append(out, guard(g.hcall(Str(tag+" key ="), Asg("=", Idx(Id(tbl), operand()), Call(Id("H"), Str(tag+" rhs"))))))
		case 18:
			out = append(out, guard(g.hcall(Str(tag+" in"), Bin("in", operand(), Id(tbl)))))
		default:
			// ToBoolean never converts (9.2)
			o := obj()
			switch g.pick(4) {
			case 0:
				out = append(out, guard(g.hcall(Str(tag+" ?:"), Cond(o, Num(1), Num(2)))))
			case 1:
				out = append(out, guard(If(o, g.hcall(Str(tag+" if true")), g.hcall(Str(tag+" if false")))))
			case 2:
				out = append(out, guard(g.hcall(Str(tag+" == null"), Bin("==", o, Null()), Bin("!=", Undefined(), o))))
			default:
				k := g.fresh("k")
				out = append(out, Var(k, Num(0)), guard(While(Bin("&&", o, Bin("<", Upd("++", false, Id(k)), Num(1))), Block(g.hcall(Str(tag+" while"))))))
			}
		}
	}
	return out
}
