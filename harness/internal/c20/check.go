package c20

import (
	"bufio"
	"bytes"
	"encoding/json"
	"fmt"
	"os"
	"os/exec"
	"strings"
	"sync"
	"time"

	"github.com/robertkrimen/otto"

	"verif/harness/internal/api"
	"verif/harness/internal/core"
	"verif/harness/internal/tlc"
)

// gates: the step hook blocks an interpreter goroutine until the scheduler
// releases it, so that a TLC-generated schedule is replayed exactly.
type gate struct {
	ready chan struct{} // runtime -> scheduler: "I am at a polling point"
	go_   chan int      // scheduler -> runtime: run this many statement polls
	left  int
	off   bool
}

var gates sync.Map // *otto.Otto -> *gate

func init() {
	otto.VerifStep = func(o *otto.Otto, kind int) {
		if kind != 1 {
			return
		}
		v, ok := gates.Load(o)
		if !ok {
			return
		}
		g := v.(*gate)
		if g.off {
			return
		}
		if g.left > 0 {
			g.left--
			return
		}
		g.ready <- struct{}{}
		n := <-g.go_
		if n < 0 {
			g.off = true
			return
		}
		g.left = n - 1
	}
}

const burst = 3 // statement polls per schedule entry

// replay runs the workload's first len(schedule-runtimes) units under the schedule.
func replay(w *Workload, schedule []int, nRT int) error {
	type rt struct {
		u    *Unit
		vm   *otto.Otto
		g    *gate
		done chan error
		fin  bool
	}
	rts := make([]*rt, nRT)
	for i := 0; i < nRT; i++ {
		u := w.Units[i]
		vm := w.NewRuntime(u)
		vm.Interrupt = make(chan func(), 1)
		g := &gate{ready: make(chan struct{}), go_: make(chan int)}
		gates.Store(vm, g)
		r := &rt{u: u, vm: vm, g: g, done: make(chan error, 1)}
		rts[i] = r
		go func() { r.done <- w.RunUnit(u, vm) }()
	}
	defer func() {
		for _, r := range rts {
			gates.Delete(r.vm)
		}
	}()
	// wait until runtime r is at a gate or finished
	await := func(r *rt) error {
		if r.fin {
			return nil
		}
		select {
		case <-r.g.ready:
			return nil
		case err := <-r.done:
			r.fin = true
			return err
		case <-time.After(30 * time.Second):
			return fmt.Errorf("TIMEOUT waiting for runtime %d", r.u.ID)
		}
	}
	for _, r := range rts {
		if err := await(r); err != nil {
			return err
		}
	}
	for _, id := range schedule {
		r := rts[id-1]
		if r.fin {
			continue
		}
		r.g.go_ <- burst
		if err := await(r); err != nil {
			return err
		}
	}
	// schedule exhausted: everybody runs freely to the end
	for _, r := range rts {
		if !r.fin {
			r.g.go_ <- -1
		}
	}
	for _, r := range rts {
		if !r.fin {
			select {
			case err := <-r.done:
				r.fin = true
				if err != nil {
					return err
				}
			case <-time.After(30 * time.Second):
				return fmt.Errorf("TIMEOUT at the end of runtime %d", r.u.ID)
			}
		}
	}
	return nil
}

func Check(c *core.Ctx) (map[string]any, []string, error) {
	// (a) the model: every interleaving, invariants, schedules
	type modelRun struct{ n, steps int }
	models := []modelRun{{2, 3}, {3, 2}}
	if c.Thorough() {
		models = []modelRun{{2, 4}, {3, 3}, {4, 2}}
	}
	var schedules [][]int
	var schedN []int
	var states, trans int64
	var tlcRuns []map[string]any
	for _, m := range models {
		res, err := tlc.Run(tlc.Opts{SpecDir: c.SpecDir, Module: "C20",
			Cfg:     fmt.Sprintf("CONSTANTS\n N = %d\n Steps = %d\nINIT Init\nNEXT Next\nINVARIANTS Independent Emit\nPROPERTY ScriptImmutable\nCHECK_DEADLOCK FALSE\n", m.n, m.steps),
			Workers: c.Workers, Timeout: 20 * time.Minute},
			func(p []byte) {
				var v struct {
					Schedule []int `json:"schedule"`
				}
				if json.Unmarshal(p, &v) == nil {
					schedules = append(schedules, v.Schedule)
					schedN = append(schedN, m.n)
				}
			})
		if err != nil {
			return nil, nil, err
		}
		states += res.Distinct
		trans += res.Generated
		tlcRuns = append(tlcRuns, map[string]any{"N": m.n, "Steps": m.steps, "distinct": res.Distinct, "generated": res.Generated, "schedules": res.Lines})
	}
	// (b) gated replay of every schedule
	var buf bytes.Buffer
	nUnits := 0
	addUnits := func(us []*Unit) {
		for _, u := range us {
			nUnits++
			u.ID = nUnits
			buf.Write(u.Line())
			buf.WriteByte('\n')
		}
	}
	byID := map[int]string{}
	maxSched := 400
	if c.Thorough() {
		maxSched = 4000
	}
	replayed := 0
	for k, s := range schedules {
		if k >= maxSched {
			break
		}
		w := BuildWorkload(c.Seed*1000+int64(k%50), schedN[k], 1)
		if err := replay(w, s, schedN[k]); err != nil {
			c.Violate(fmt.Sprintf("gated replay of schedule %v: %v", s, err), map[string]any{"schedule": s, "seed": c.Seed*1000 + int64(k%50)})
			continue
		}
		replayed++
		tu := w.TemplateUnit()
		addUnits(append(append([]*Unit{}, w.Units[:schedN[k]]...), tu))
		byID[tu.ID] = fmt.Sprintf("gated schedule %v, unit kind %s:\n%s", s, tu.Kind, strings.Join(tu.srcs, "\n---- then ----\n"))
		for _, u := range w.Units[:schedN[k]] {
			byID[u.ID] = fmt.Sprintf("gated schedule %v, unit kind %s:\n%s", s, u.Kind, strings.Join(u.srcs, "\n---- then ----\n"))
		}
	}
	// (c) free-running under the race detector
	raceUnits, raceReports, err := raceRun(c)
	if err != nil {
		return nil, nil, err
	}
	for _, rep := range raceReports {
		c.Violate("DATA RACE reported by the Go race detector in concurrent use of separate runtimes:\n"+rep, map[string]any{"report": rep})
	}
	for _, u := range raceUnits {
		nUnits++
		u.ID = nUnits
		buf.Write(u.Line())
		buf.WriteByte('\n')
		byID[u.ID] = fmt.Sprintf("free-running under -race, unit kind %s (%d programs in sequence)", u.Kind, len(u.Progs))
	}
	// (d) judge every unit with the sequential semantics
	var nUnd, nBad int64
	res, err := tlc.Run(tlc.Opts{SpecDir: c.SpecDir, Module: "C20J",
		Cfg:     fmt.Sprintf("CONSTANTS\n OpenDev = %s\n Fuel = 300\nINIT Init\nNEXT Next\nINVARIANT Check\nCHECK_DEADLOCK FALSE\n", core.TLASet(c.Findings.OpenIDs())),
		Workers: c.Workers, Files: map[string][]byte{"trace.ndjson": buf.Bytes()}, Timeout: 60 * time.Minute, HeapMB: 12000},
		func(p []byte) {
			var v struct {
				ID     int             `json:"id"`
				Status string          `json:"status"`
				Want   json.RawMessage `json:"want"`
			}
			if json.Unmarshal(p, &v) != nil {
				return
			}
			if v.Status == "und" {
				nUnd++
				return
			}
			nBad++
			c.Violate(fmt.Sprintf("a runtime used concurrently with others gave results that differ from running its programs alone (%s); required %s", byID[v.ID], trunc(string(v.Want), 600)),
				map[string]any{"unit": byID[v.ID], "required": v.Want})
		})
	if err != nil {
		return nil, nil, err
	}
	// (d) the API-level state machine (spec/OttoAPI.tla): runtimes as values, New / Run by five
	// routes / host panic / Copy / Set / Get / Call; a step of one runtime leaves every other
	// unchanged (CopyIsValue), replayed transition by transition on real runtimes
	apiCov, err := api.Stage(c, !c.Thorough())
	if err != nil {
		return nil, nil, fmt.Errorf("API state machine stage: %v", err)
	}
	cov := map[string]any{
		"api_state_machine": apiCov,
		"states":            states + res.Distinct, "transitions": trans + res.Generated, "traces_validated_against_impl": nUnits,
		"samples":    []any{map[string]any{"schedule": firstOr(schedules), "note": "each entry releases the named runtime for 3 statement polling points"}},
		"model_runs": tlcRuns, "schedules_replayed_gated": replayed, "units_judged": nUnits, "units_under_race_detector": len(raceUnits),
		"race_reports": len(raceReports), "undecided_units": nUnd, "rejected_units": nBad,
	}
	return cov, []string{
		"the TLA+ model (spec/C20.tla) states what may be shared: the compiled script table, read-only; TLC checks Independent and ScriptImmutable on every interleaving and supplies the schedules",
		"gated replay: the build-tag-guarded polling hook blocks each interpreter goroutine until the scheduler releases it; channel synchronisation hides races from the detector, so data races are looked for in a separate free-running -race build (cmd/c20race)",
		"every runtime's outcomes (gated and free-running) are judged by the sequential specification (RunSeq of ES5Core)",
		"the API-level state machine (spec/OttoAPI.tla, design.d/API.md) is model-checked (CopyIsValue, TotalReplies) and every one of its transitions is replayed on real runtimes with its shortest path; quick: exhaustive to 3 calls on up to 3 runtimes",
		"the race detector observes only the executions that happen; it is the observation instrument for the memory-model clause, which a TLA+ model cannot see",
	}, nil
}

func firstOr(s [][]int) any {
	if len(s) > 0 {
		return s[0]
	}
	return "none"
}

func trunc(s string, n int) string {
	if len(s) > n {
		return s[:n] + "..."
	}
	return s
}

// raceRun builds cmd/c20race with -race against the same repository and runs it.
func raceRun(c *core.Ctx) ([]*Unit, []string, error) {
	bin := fmt.Sprintf("/verif/.build/c20race.%d", os.Getpid())
	args := []string{"build", "-race", "-tags", "verif"}
	if mf := os.Getenv("VERIF_MODFLAG"); mf != "" {
		args = append(args, mf)
	}
	args = append(args, "-o", bin, "./cmd/c20race")
	cmd := exec.Command("go", args...)
	cmd.Dir = "/verif/harness"
	if out, err := cmd.CombinedOutput(); err != nil {
		return nil, nil, fmt.Errorf("building the -race binary failed: %v\n%s", err, out)
	}
	defer os.Remove(bin)
	n, rounds := 16, 6
	if c.Thorough() {
		n, rounds = 32, 60
	}
	run := exec.Command(bin, fmt.Sprint(c.Seed*77), fmt.Sprint(n), fmt.Sprint(rounds))
	run.Env = append(os.Environ(), "GORACE=halt_on_error=0")
	var stdout, stderr bytes.Buffer
	run.Stdout, run.Stderr = &stdout, &stderr
	err := run.Run()
	var units []*Unit
	sc := bufio.NewScanner(&stdout)
	sc.Buffer(make([]byte, 1<<20), 1<<26)
	for sc.Scan() {
		var u Unit
		if json.Unmarshal(sc.Bytes(), &u) == nil {
			units = append(units, &u)
		}
	}
	var reports []string
	es := stderr.String()
	for _, part := range strings.Split(es, "==================") {
		if strings.Contains(part, "DATA RACE") {
			reports = append(reports, strings.TrimSpace(trunc(part, 3000)))
		}
	}
	if strings.Contains(es, "UNIT-ERROR") {
		reports = append(reports, "a unit panicked: "+trunc(es, 1500))
	}
	if err != nil && len(reports) == 0 {
		if _, ok := err.(*exec.ExitError); ok && len(units) > 0 {
			// the race detector exits 66 when it reported something; reports were parsed above
			return units, reports, nil
		}
		return nil, nil, fmt.Errorf("running the -race binary failed: %v\n%s", err, trunc(es, 2000))
	}
	return units, reports, nil
}
