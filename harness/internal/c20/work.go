// Package c20: independence of runtimes under concurrency.
package c20

import (
	"encoding/json"
	"fmt"
	"sync"

	"github.com/robertkrimen/otto"
	"github.com/robertkrimen/otto/parser"

	"verif/harness/internal/c01"
)

// Unit is the work of one runtime in a concurrent run: programs executed one
// after the other on it.
type Unit struct {
	ID    int       `json:"id"`
	Kind  string    `json:"kind"` // fresh | copy | shared-script | shared-program
	Progs [][]c01.N `json:"progs"`
	Obs   []c01.Obs `json:"obs"`
	srcs  []string
}

var logs sync.Map // *otto.Otto -> *[][]any

func hostH(call otto.FunctionCall) otto.Value {
	if l, ok := logs.Load(call.Otto); ok {
		args := make([]any, len(call.ArgumentList))
		for i, a := range call.ArgumentList {
			args[i] = c01.Proj(a)
		}
		p := l.(*[][]any)
		*p = append(*p, args)
	}
	return call.Argument(0)
}

// Workload is a set of units that run concurrently, with what they share.
type Workload struct {
	Units    []*Unit
	template *otto.Otto
	scripts  map[string]*otto.Script
	progs    map[string]any
}

// BuildWorkload generates n units.  Unit kinds rotate; units of kind
// shared-script / shared-program all execute the SAME compiled object.
func BuildWorkload(seed int64, n int, reuse int) *Workload {
	g := c01.NewGen(seed)
	g.MaxDepth, g.MaxTop = 2, 4
	w := &Workload{scripts: map[string]*otto.Script{}, progs: map[string]any{}}
	shared := g.Program()
	sharedSrc := c01.RenderProgram(shared)
	kinds := []string{"fresh", "copy", "shared-script", "shared-program"}
	for i := 0; i < n; i++ {
		u := &Unit{ID: i + 1, Kind: kinds[i%len(kinds)]}
		k := 1
		if reuse > 1 {
			k = 1 + i%reuse
		}
		for j := 0; j < k; j++ {
			var p []c01.N
			if u.Kind == "shared-script" || u.Kind == "shared-program" {
				p = shared
			} else if j == 0 {
				p = g.Program()
			} else {
				p = u.Progs[0] // the same source again on the same runtime
			}
			u.Progs = append(u.Progs, p)
			if u.Kind == "shared-script" || u.Kind == "shared-program" {
				u.srcs = append(u.srcs, sharedSrc)
			} else {
				u.srcs = append(u.srcs, c01.RenderProgram(p))
			}
		}
		w.Units = append(w.Units, u)
	}
	w.template = otto.New()
	w.template.Set("H", hostH)
	vm := otto.New()
	sc, err := vm.Compile("shared.js", sharedSrc)
	if err == nil {
		w.scripts[sharedSrc] = sc
	}
	if pr, err := parser.ParseFile(nil, "shared.js", sharedSrc, 0); err == nil {
		w.progs[sharedSrc] = pr
	}
	return w
}

// NewRuntime makes the runtime of a unit.  Copies are taken concurrently by
// the units themselves (Copy of one template from several goroutines).
func (w *Workload) NewRuntime(u *Unit) *otto.Otto {
	var vm *otto.Otto
	if u.Kind == "copy" {
		vm = w.template.Copy()
	} else {
		vm = otto.New()
		vm.Set("H", hostH)
	}
	return vm
}

// RunUnit executes the unit's programs on vm and records the outcomes.
func (w *Workload) RunUnit(u *Unit, vm *otto.Otto) (err error) {
	var log [][]any
	logs.Store(vm, &log)
	defer logs.Delete(vm)
	defer func() {
		if p := recover(); p != nil {
			err = fmt.Errorf("GO PANIC: %v", p)
		}
	}()
	u.Obs = nil
	for _, src := range u.srcs {
		log = nil
		var v otto.Value
		var e error
		switch u.Kind {
		case "shared-script":
			v, e = vm.Run(w.scripts[src])
		case "shared-program":
			v, e = vm.Run(w.progs[src])
		default:
			v, e = vm.Run(src)
		}
		u.Obs = append(u.Obs, c01.MakeObs(log, v, e))
	}
	return nil
}

func (u *Unit) Line() []byte {
	b, _ := json.Marshal(u)
	return b
}
