// Package c20: independence of runtimes under concurrency.
package c20

import (
	"encoding/json"
	"fmt"
	"sync"

	"github.com/robertkrimen/otto"
	"github.com/robertkrimen/otto/parser"

	"math/rand"

	"verif/harness/internal/c01"
	"verif/harness/internal/c17/scen"
)

// Unit is the work of one runtime in a concurrent run: programs executed one
// after the other on it.
type Unit struct {
	ID    int       `json:"id"`
	Kind  string    `json:"kind"` // fresh | copy | shared-script | shared-program
	Progs [][]c01.N `json:"progs"`
	Obs   []c01.Obs `json:"obs"`
	srcs  []string
}

var logs sync.Map // *otto.Otto -> *[][]any

func hostH(call otto.FunctionCall) otto.Value {
	if l, ok := logs.Load(call.Otto); ok {
		args := make([]any, len(call.ArgumentList))
		for i, a := range call.ArgumentList {
			args[i] = c01.Proj(a)
		}
		p := l.(*[][]any)
		*p = append(*p, args)
	}
	return call.Argument(0)
}

// Workload is a set of units that run concurrently, with what they share.
type Workload struct {
	Units    []*Unit
	template *otto.Otto
	tmplN    int // number of history programs already run on the template
	scripts  map[string]*otto.Script
	progs    map[string]any
	// the template's own history, its outcome and the family's observation program (TemplateUnit)
	tmplProg, tmplQ []c01.N
	tmplSrc         string
	tmplObs         c01.Obs
}

// TemplateUnit observes the TEMPLATE after all its copies have run their mutations: it must answer
// the observation program like a runtime that only ran the history (nothing a copy did is visible).
func (w *Workload) TemplateUnit() *Unit {
	u := &Unit{ID: len(w.Units) + 1, Kind: "template-after-copies"}
	u.Progs = [][]c01.N{w.tmplProg, w.tmplQ}
	u.srcs = []string{w.tmplSrc, c01.RenderProgram(w.tmplQ)}
	u.Obs = []c01.Obs{w.tmplObs}
	var log [][]any
	logs.Store(w.template, &log)
	defer logs.Delete(w.template)
	func() {
		defer func() {
			if p := recover(); p != nil {
				u.Obs = append(u.Obs, c01.Obs{Log: [][]any{}, Thr: []int{71, 79, 32, 80, 65, 78, 73, 67}, V: map[string]any{"t": "undef"}}) // "GO PANIC"
			}
		}()
		v, e := w.template.Run(u.srcs[1])
		u.Obs = append(u.Obs, c01.MakeObs(log, v, e))
	}()
	return u
}

// BuildWorkload generates n units.  Unit kinds rotate; units of kind
// shared-script / shared-program all execute the SAME compiled object.
func BuildWorkload(seed int64, n int, reuse int) *Workload {
	g := c01.NewGen(seed)
	g.MaxDepth, g.MaxTop = 2, 4
	rng := rand.New(rand.NewSource(seed))
	w := &Workload{scripts: map[string]*otto.Script{}, progs: map[string]any{}}
	// three shared compiled scripts (programs with the targeted scenario families: arguments
	// objects, closures, with/eval ...): every unit of a shared kind runs one of them
	var shared [][]c01.N
	var sharedSrc []string
	for i := 0; i < 3; i++ {
		p := g.ScenarioProgram(2 + i)
		shared = append(shared, p)
		sharedSrc = append(sharedSrc, c01.RenderProgram(p))
	}
	// the template of the copy units has a history that builds shared-looking structure
	// (bound functions with object arguments, closures, accessors, arguments objects ...)
	fam := int(uint64(seed) % uint64(scen.Families)) // consecutive seeds walk through all families
	h, _, tq := scen.ScenarioOf(fam, rng)
	tmplProg := h
	tmplSrc := c01.RenderProgram(tmplProg)
	w.template = otto.New()
	w.template.Set("H", hostH)
	var tlog [][]any
	logs.Store(w.template, &tlog)
	tv, terr := w.template.Run(tmplSrc)
	tmplObs := c01.MakeObs(tlog, tv, terr)
	logs.Delete(w.template)
	w.tmplN = 1
	w.tmplProg, w.tmplQ, w.tmplSrc, w.tmplObs = tmplProg, tq, tmplSrc, tmplObs
	kinds := []string{"fresh", "copy", "shared-script", "shared-program"}
	for i := 0; i < n; i++ {
		u := &Unit{ID: i + 1, Kind: kinds[i%len(kinds)]}
		k := 1
		if reuse > 1 {
			k = 1 + i%reuse
		}
		switch u.Kind {
		case "copy":
			// history (already run on the template) + a mutation and an observation of the same family
			// every copy makes its OWN selection of the family's mutations (some make none), so that an
			// effect leaking from one copy into another, or into the template, shows in the observation
			_, m, _ := scen.ScenarioOf(fam, rand.New(rand.NewSource(seed+int64(i))))
			q := tq
			if i%8 >= 4 {
				_, m2, _ := scen.ScenarioOf(fam, rand.New(rand.NewSource(seed+1000+int64(i))))
				m = append(m, m2...)
			}
			if i%16 == 5 {
				m = []c01.N{c01.Empty()}
			}
			u.Progs = [][]c01.N{tmplProg, m, q}
			u.srcs = []string{tmplSrc, c01.RenderProgram(m), c01.RenderProgram(q)}
			u.Obs = []c01.Obs{tmplObs}
		case "shared-script", "shared-program":
			j := (i / len(kinds)) % len(shared)
			for x := 0; x < k; x++ {
				u.Progs = append(u.Progs, shared[j])
				u.srcs = append(u.srcs, sharedSrc[j])
			}
		default:
			p := g.Program()
			for x := 0; x < k; x++ {
				u.Progs = append(u.Progs, p)
				u.srcs = append(u.srcs, c01.RenderProgram(p))
			}
		}
		w.Units = append(w.Units, u)
	}
	vm := otto.New()
	for _, src := range sharedSrc {
		if sc, err := vm.Compile("shared.js", src); err == nil {
			w.scripts[src] = sc
		}
		if pr, err := parser.ParseFile(nil, "shared.js", src, 0); err == nil {
			w.progs[src] = pr
		}
	}
	return w
}

// NewRuntime makes the runtime of a unit.  Copies are taken concurrently by
// the units themselves (Copy of one template from several goroutines).
func (w *Workload) NewRuntime(u *Unit) *otto.Otto {
	var vm *otto.Otto
	if u.Kind == "copy" {
		vm = w.template.Copy()
	} else {
		vm = otto.New()
		vm.Set("H", hostH)
	}
	return vm
}

// RunUnit executes the unit's programs on vm and records the outcomes.
func (w *Workload) RunUnit(u *Unit, vm *otto.Otto) (err error) {
	var log [][]any
	logs.Store(vm, &log)
	defer logs.Delete(vm)
	defer func() {
		if p := recover(); p != nil {
			err = fmt.Errorf("GO PANIC: %v", p)
		}
	}()
	start := 0
	if u.Kind == "copy" {
		start = w.tmplN // the history ran on the template before the copy was taken
		u.Obs = u.Obs[:start]
	} else {
		u.Obs = nil
	}
	for _, src := range u.srcs[start:] {
		log = nil
		var v otto.Value
		var e error
		switch u.Kind {
		case "shared-script":
			v, e = vm.Run(w.scripts[src])
		case "shared-program":
			v, e = vm.Run(w.progs[src])
		default:
			v, e = vm.Run(src)
		}
		u.Obs = append(u.Obs, c01.MakeObs(log, v, e))
	}
	return nil
}

func (u *Unit) Line() []byte {
	b, _ := json.Marshal(u)
	return b
}
