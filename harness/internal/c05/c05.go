// Package c05: conversions and operators (spec/Ops.tla, spec/C05.tla).
package c05

import (
	"fmt"

	"verif/harness/internal/core"
	"verif/harness/internal/gen"
)

func cfg(c *core.Ctx, fam string, nsel int) string {
	return fmt.Sprintf("CONSTANTS\n OpenDev = %s\n Fam = %q\n NSel = %d\nINIT Init\nNEXT Next\nINVARIANT Emit\nCHECK_DEADLOCK FALSE\n",
		core.TLASet(c.Findings.OpenIDs()), fam, nsel)
}

var Spec = &gen.Spec{
	Module: "C05",
	Runs: func(c *core.Ctx) []gen.RunCfg {
		return []gen.RunCfg{
			{Name: "small-families(unary,conversions,logical,conditional,compound,in/instanceof,extremes,representations,default-value-protocol,update-operators)", Cfg: cfg(c, "small", 0)},
			{Name: "binary-operators-all-pairs", Cfg: cfg(c, "bin", 0)},
		}
	},
	Assume: []string{
		"value set: 51 numbers, 39 strings, 4 other primitives, 8 scripted conversion objects; all ordered pairs under all 21 binary operators",
		"[[DefaultValue]] protocol family: valueOf/toString as own or inherited, data or accessor properties of an ordinary object or a Date, the first method reassigning/redefining/deleting its sibling while it runs; getters and methods have no other effects",
		"update operators (++ -- postfix and prefix): every value of the set as the old value of a variable, a named property, an array element and a property of the global object; result and stored value observed separately; the reference itself has no side effects",
		"function-valued operands only where the result does not depend on implementation-defined function source text",
	},
}

func Check(c *core.Ctx) (map[string]any, []string, error) { return gen.Check(c, Spec) }
