package c19

import (
	"fmt"

	"verif/harness/internal/core"
	gdrv "verif/harness/internal/gen"
)

// numorder.go: the family "which error comes first" (spec/C19Num.tla): the argument and this-value
// checks of Number.prototype.toString / toFixed / toExponential / toPrecision in the step order of
// ES5 15.7.4.2/.5/.6/.7, enumerated by TLC and replayed through the generic driver.
var numOrderSpec = &gdrv.Spec{
	Module: "C19Num",
	Runs: func(c *core.Ctx) []gdrv.RunCfg {
		return []gdrv.RunCfg{{Name: "number-format-error-order",
			Cfg: fmt.Sprintf("CONSTANTS\n OpenDev = %s\nINIT Init\nNEXT Next\nINVARIANT Emit\nCHECK_DEADLOCK FALSE\n", core.TLASet(c.Findings.OpenIDs()))}}
	},
	Assume: []string{
		"family 'which error comes first': 4 methods x 17 this values (Number primitives and objects, NaN, infinities, 9 non-Number kinds) x 40 arguments (absent, in range, below, above, fractional, NaN, infinities, strings, booleans, null, 7 scripted conversion objects that log / throw); outcome = error class + conversion log; for toString(radix), where 15.7.4.2 gives no step order, only cases in which the order cannot matter",
	},
}

func checkNumOrder(c *core.Ctx) (map[string]any, error) {
	cov, _, err := gdrv.Check(c, numOrderSpec)
	return cov, err
}
