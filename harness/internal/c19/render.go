// Package c19: errors surface with the right class, message and source
// position (spec/C19.tla + spec/ErrSpec.tla judge on top of spec/ES5Core.tla).
//
// render.go: a renderer for the abstract syntax trees of harness/internal/c01
// that KNOWS WHERE IT PUTS EVERY NODE.  It produces the same token sequence
// as c01.RenderProgram (every sub-expression parenthesised) but with a seeded
// random layout (blank lines, indentation, spaces, comments, all five line
// terminator forms, non-ASCII characters) and writes into every expression
// node the offset "pos" of its first token: 1-based, in UTF-16 code units,
// grouping parentheses skipped, for `new` the first token of the constructor
// expression.  The text of an eval node is rendered on its own (positions
// relative to that text), registered in the table of source texts and
// embedded as a string literal.
package c19

import (
	"fmt"
	"math/rand"
	"unicode/utf16"

	"verif/harness/internal/c01"
)

type N = c01.N

// Layout says how much freedom the renderer takes.
type Layout struct {
	Rand     *rand.Rand
	Terms    []string // line terminators to choose from
	NonASCII bool     // comments / padding with non-ASCII characters
	Dense    bool     // no random layout at all (one statement per line, LF)
}

type renderer struct {
	lay   Layout
	buf   []uint16
	files *[][]int // shared table of source texts (index 0 = file 1)
	// token table of this text: offsets (1-based) of statement starts, used by the syntax-error family
	stmtStarts []int
	stmtDepth  []int // brace nesting depth of each statement start
	callCloses []int // offset of the ")" closing the argument list of a call that is a whole expression statement
	depth      int
}

func units(s string) []uint16 { return utf16.Encode([]rune(s)) }

func (r *renderer) pos() int { return len(r.buf) + 1 }

func (r *renderer) emit(s string) int {
	// otto's lexer loses the character between a CR and an LF that are one character apart
	// (parser/lexer.go skipWhiteSpace: peek() looks two characters ahead) - a matter of the
	// parser properties, kept out of these programs: never write CR x LF
	if n := len(r.buf); n >= 2 && len(s) > 0 && s[0] == '\n' && r.buf[n-2] == '\r' && r.buf[n-1] != '\n' {
		r.buf = append(r.buf, ' ')
	}
	p := r.pos()
	r.buf = append(r.buf, units(s)...)
	return p
}

func (r *renderer) chance(p int) bool {
	return !r.lay.Dense && r.lay.Rand != nil && r.lay.Rand.Intn(100) < p
}

var padComments = []string{"/* é */", "/*€€*/", "/* \U0001F600 */", "/*x*/"}

// sp emits optional padding between two tokens of an expression or statement
// (never a line terminator: see nl).
func (r *renderer) sp() {
	if r.lay.Dense || r.lay.Rand == nil {
		return
	}
	switch x := r.lay.Rand.Intn(100); {
	case x < 55:
	case x < 80:
		r.emit(" ")
	case x < 90:
		r.emit("   ")
	case x < 94:
		r.emit("\t")
	default:
		if r.lay.NonASCII {
			r.emit(padComments[r.lay.Rand.Intn(len(padComments))])
		} else {
			r.emit("/*x*/")
		}
	}
}

// spnl emits padding at a place where a line terminator cannot change the
// parse (after an opening parenthesis, a comma, a binary operator).
func (r *renderer) spnl() {
	if r.chance(12) {
		r.term()
		r.indent()
		return
	}
	r.sp()
}

func (r *renderer) term() {
	t := "\n"
	if !r.lay.Dense && len(r.lay.Terms) > 0 && r.lay.Rand != nil {
		t = r.lay.Terms[r.lay.Rand.Intn(len(r.lay.Terms))]
	}
	r.emit(t)
}

func (r *renderer) indent() {
	if r.lay.Dense || r.lay.Rand == nil {
		return
	}
	n := r.lay.Rand.Intn(7)
	for i := 0; i < n; i++ {
		r.emit(" ")
	}
}

// nl ends a line (1-3 terminators) and indents the next one.
func (r *renderer) nl() {
	r.term()
	for r.chance(25) {
		r.term()
	}
	r.indent()
}

func (r *renderer) jsStr(us []int) {
	r.emit("\"")
	for _, u := range us {
		if u >= 0x20 && u < 0x7f && u != '"' && u != '\\' {
			r.buf = append(r.buf, uint16(u))
		} else {
			r.emit(fmt.Sprintf("\\u%04X", u))
		}
	}
	r.emit("\"")
}

// rawStr emits a string literal whose characters are written as they are
// (used to put non-ASCII characters in front of a construct on the same line).
func (r *renderer) rawStr(us []int) {
	r.emit("\"")
	for _, u := range us {
		r.buf = append(r.buf, uint16(u))
	}
	r.emit("\"")
}

func asNodes(v any) []N {
	switch x := v.(type) {
	case []N:
		return x
	case []any:
		out := make([]N, len(x))
		for i, e := range x {
			out[i] = e.(N)
		}
		return out
	}
	return nil
}

func ustr(v any) string {
	us := v.([]int)
	rs := make([]uint16, len(us))
	for i, u := range us {
		rs[i] = uint16(u)
	}
	return string(utf16.Decode(rs))
}

// expr renders an expression and returns the offset of its first token
// (grouping parentheses skipped).  It sets n["pos"].
func (r *renderer) expr(n N) int {
	start := r.expr1(n)
	if _, has := n["pos"]; !has {
		n["pos"] = start
	}
	return start
}

func (r *renderer) args(as []N) {
	r.emit("(")
	for i, a := range as {
		if i > 0 {
			r.emit(",")
		}
		r.spnl()
		r.expr(a)
		r.sp()
	}
	r.emit(")")
}

func (r *renderer) expr1(n N) int {
	switch n["k"] {
	case "num":
		v := n["v"].(N)["v"].(int)
		if v < 0 {
			r.emit("(")
			p := r.emit(fmt.Sprintf("%d", v))
			r.emit(")")
			return p
		}
		return r.emit(fmt.Sprintf("%d", v))
	case "str":
		p := r.pos()
		if raw, _ := n["raw"].(bool); raw {
			r.rawStr(n["s"].([]int))
		} else {
			r.jsStr(n["s"].([]int))
		}
		return p
	case "bool":
		if n["b"].(bool) {
			return r.emit("true")
		}
		return r.emit("false")
	case "null":
		return r.emit("null")
	case "this":
		return r.emit("this")
	case "id":
		return r.emit(ustr(n["n"]))
	case "un":
		r.emit("(")
		p := r.emit(n["op"].(string))
		r.emit(" ")
		r.expr(n["e"].(N))
		r.emit(")")
		return p
	case "upd":
		r.emit("(")
		var p int
		if n["pre"].(bool) {
			p = r.emit(n["op"].(string))
			r.expr(n["e"].(N))
		} else {
			p = r.expr(n["e"].(N))
			r.emit(n["op"].(string))
		}
		r.emit(")")
		return p
	case "bin", "logic":
		r.emit("(")
		r.sp()
		p := r.expr(n["l"].(N))
		r.emit(" ")
		r.sp()
		r.emit(n["op"].(string))
		r.emit(" ")
		r.spnl()
		r.expr(n["r"].(N))
		r.sp()
		r.emit(")")
		return p
	case "seq":
		r.emit("(")
		p := r.expr(n["l"].(N))
		r.emit(",")
		r.spnl()
		r.emit(" ")
		r.expr(n["r"].(N))
		r.emit(")")
		return p
	case "cond":
		r.emit("(")
		p := r.expr(n["t"].(N))
		r.emit(" ? ")
		r.spnl()
		r.expr(n["a"].(N))
		r.emit(" : ")
		r.spnl()
		r.expr(n["b"].(N))
		r.emit(")")
		return p
	case "asg":
		op := n["op"].(string)
		if op != "=" {
			op += "="
		}
		r.emit("(")
		r.sp()
		p := r.expr(n["l"].(N))
		r.emit(" ")
		r.sp()
		r.emit(op)
		r.emit(" ")
		r.spnl()
		r.expr(n["r"].(N))
		r.emit(")")
		return p
	case "dot":
		o := n["o"].(N)
		var p int
		if o["k"] == "num" {
			r.emit("(")
			p = r.expr(o)
			r.emit(")")
		} else {
			p = r.expr(o)
		}
		r.sp()
		r.emit(".")
		r.sp()
		r.emit(ustr(n["n"]))
		return p
	case "idx":
		o := n["o"].(N)
		var p int
		if o["k"] == "num" {
			r.emit("(")
			p = r.expr(o)
			r.emit(")")
		} else {
			p = r.expr(o)
		}
		r.sp()
		r.emit("[")
		r.sp()
		r.expr(n["p"].(N))
		r.sp()
		r.emit("]")
		return p
	case "call":
		p := r.expr(n["f"].(N))
		r.sp()
		r.args(asNodes(n["args"]))
		return p
	case "new":
		r.emit("(")
		r.sp()
		pn := r.emit("new")
		r.emit(" ")
		r.sp()
		p := r.expr(n["f"].(N))
		r.sp()
		r.args(asNodes(n["args"]))
		r.emit(")")
		n["pos"] = p // the call site of a construction is the constructor expression
		return pn
	case "arr":
		p := r.emit("[")
		for i, a := range asNodes(n["el"]) {
			if i > 0 {
				r.emit(",")
			}
			r.spnl()
			r.expr(a)
		}
		r.emit("]")
		return p
	case "obj":
		r.emit("(")
		p := r.emit("{")
		for i, pr := range asNodes(n["pr"]) {
			if i > 0 {
				r.emit(",")
			}
			r.spnl()
			if k := pr["kind"].(string); k == "get" || k == "set" {
				fn := pr["val"].(N)
				r.emit(k + " ")
				r.jsStr(pr["key"].([]int))
				r.params(fn)
				r.body(asNodes(fn["body"]))
				fn["pos"] = 0
				continue
			}
			r.jsStr(pr["key"].([]int))
			r.emit(":")
			r.sp()
			r.expr(pr["val"].(N))
		}
		r.sp()
		r.emit("}")
		r.emit(")")
		return p
	case "fn":
		r.emit("(")
		p := r.fn(n)
		r.emit(")")
		return p
	case "eval":
		var text []int
		if b, _ := n["bad"].(string); b != "" {
			text = n["text"].([]int)
			delete(n, "text")
			n["prog"] = []N{}
			n["file"] = 1
		} else {
			sub := &renderer{lay: r.lay, files: r.files}
			*r.files = append(*r.files, nil)
			id := len(*r.files)
			n["file"] = id
			sub.program(asNodes(n["prog"]))
			text = toInts(sub.buf)
			(*r.files)[id-1] = text
		}
		var p int
		if n["direct"].(bool) {
			p = r.emit("eval")
		} else {
			r.emit("(")
			p = r.emit("0")
			r.emit(", eval)")
		}
		r.sp()
		r.emit("(")
		r.sp()
		r.jsStr(text)
		r.emit(")")
		return p
	case "fnctor":
		text := n["text"].([]int)
		delete(n, "text")
		var p, pn int
		if n["isNew"].(bool) {
			r.emit("(")
			pn = r.emit("new")
			r.emit(" ")
			r.sp()
		}
		p = r.emit("Function")
		r.sp()
		r.emit("(\"a\",")
		r.sp()
		r.jsStr(text)
		r.emit(")")
		if n["isNew"].(bool) {
			r.emit(")")
			n["pos"] = p
			return pn
		}
		return p
	}
	panic(fmt.Sprintf("c19 render: unknown expression kind %v", n["k"]))
}

func toInts(u []uint16) []int {
	out := make([]int, len(u))
	for i, x := range u {
		out[i] = int(x)
	}
	return out
}

func (r *renderer) params(n N) {
	r.emit("(")
	for i, p := range n["params"].([][]int) {
		if i > 0 {
			r.emit(", ")
		}
		r.emit(ustr(p))
	}
	r.emit(")")
}

func (r *renderer) body(stmts []N) {
	r.sp()
	r.emit("{")
	r.depth++
	for _, s := range stmts {
		r.nl()
		r.stmt(s)
	}
	r.depth--
	r.nl()
	r.emit("}")
}

func (r *renderer) fn(n N) int {
	p := r.emit("function")
	r.emit(" ")
	r.emit(ustr(n["name"]))
	r.sp()
	r.params(n)
	r.body(asNodes(n["body"]))
	return p
}

func (r *renderer) stmt(n N) {
	r.stmtStarts = append(r.stmtStarts, r.pos())
	r.stmtDepth = append(r.stmtDepth, r.depth)
	switch n["k"] {
	case "empty":
		r.emit(";")
	case "fdecl":
		r.fn(n)
	case "expr":
		e := n["e"].(N)
		r.expr(e)
		if e["k"] == "call" {
			r.callCloses = append(r.callCloses, r.pos()-1)
		}
		r.emit(";")
	case "var":
		r.emit("var ")
		for i, d := range asNodes(n["decls"]) {
			if i > 0 {
				r.emit(", ")
			}
			r.emit(ustr(d["n"]))
			if in := asNodes(d["init"]); len(in) == 1 {
				r.emit(" =")
				r.spnl()
				r.emit(" ")
				r.expr(in[0])
			}
		}
		r.emit(";")
	case "block":
		r.body(asNodes(n["body"]))
	case "if":
		r.emit("if (")
		r.expr(n["t"].(N))
		r.emit(") ")
		r.stmt(n["a"].(N))
		if b := asNodes(n["b"]); len(b) == 1 {
			r.emit(" else ")
			r.stmt(b[0])
		}
	case "for":
		part := func(k string) {
			if x := asNodes(n[k]); len(x) == 1 {
				if x[0]["k"] == "var" {
					r.emit("var ")
					for i, d := range asNodes(x[0]["decls"]) {
						if i > 0 {
							r.emit(", ")
						}
						r.emit(ustr(d["n"]))
						if in := asNodes(d["init"]); len(in) == 1 {
							r.emit(" = ")
							r.expr(in[0])
						}
					}
					return
				}
				r.expr(x[0])
			}
		}
		r.emit("for (")
		part("init")
		r.emit("; ")
		part("test")
		r.emit("; ")
		part("update")
		r.emit(") ")
		r.stmt(n["body"].(N))
	case "forin":
		r.emit("for (")
		if n["decl"].(bool) {
			r.emit("var ")
		}
		r.emit(ustr(n["n"]))
		r.emit(" in ")
		r.expr(n["obj"].(N))
		r.emit(") ")
		r.stmt(n["body"].(N))
	case "while":
		r.emit("while (")
		r.expr(n["t"].(N))
		r.emit(") ")
		r.stmt(n["body"].(N))
	case "dowhile":
		r.emit("do ")
		r.stmt(n["body"].(N))
		r.emit(" while (")
		r.expr(n["t"].(N))
		r.emit(");")
	case "break", "continue":
		r.emit(n["k"].(string))
		if l := ustr(n["l"]); l != "" {
			r.emit(" " + l)
		}
		r.emit(";")
	case "return":
		if e := asNodes(n["e"]); len(e) == 1 {
			r.emit("return ")
			r.sp()
			r.expr(e[0])
			r.emit(";")
		} else {
			r.emit("return;")
		}
	case "throw":
		r.emit("throw ")
		r.sp()
		r.expr(n["e"].(N))
		r.emit(";")
	case "try":
		r.emit("try")
		r.body(asNodes(n["block"]))
		if n["hasH"].(bool) {
			r.emit(" catch (" + ustr(n["param"]) + ")")
			r.body(asNodes(n["handler"]))
		}
		if n["hasF"].(bool) {
			r.emit(" finally")
			r.body(asNodes(n["fin"]))
		}
	case "switch":
		r.emit("switch (")
		r.expr(n["d"].(N))
		r.emit(") {")
		for _, c := range asNodes(n["cases"]) {
			r.nl()
			if t := asNodes(c["test"]); len(t) == 1 {
				r.emit("case ")
				r.expr(t[0])
				r.emit(":")
			} else {
				r.emit("default:")
			}
			for _, s := range asNodes(c["body"]) {
				r.nl()
				r.stmt(s)
			}
		}
		r.nl()
		r.emit("}")
	case "label":
		r.emit(ustr(n["l"]) + ": ")
		r.stmt(n["body"].(N))
	case "with":
		r.emit("with (")
		r.expr(n["o"].(N))
		r.emit(") ")
		r.stmt(n["body"].(N))
	default:
		panic(fmt.Sprintf("c19 render: unknown statement kind %v", n["k"]))
	}
}

func (r *renderer) program(body []N) {
	if r.chance(40) {
		r.nl()
	}
	for _, s := range body {
		r.stmt(s)
		r.nl()
	}
}

// Rendered is a program text with the positions written into its tree.
type Rendered struct {
	Src        string  // the text as a Go string (UTF-8)
	Files      [][]int // source texts as code units: [0] the program, [k-1] the eval node with file k
	StmtStarts []int   // offsets of the first token of every statement of the program text
	StmtDepth  []int   // brace nesting depth at each of them
	CallCloses []int   // offsets of ")" closing a call that is an expression statement
}

// Render renders the program (modifying its nodes: pos, file) with the layout.
func Render(prog []N, lay Layout) Rendered {
	files := [][]int{nil}
	r := &renderer{lay: lay, files: &files}
	r.program(prog)
	files[0] = toInts(r.buf)
	return Rendered{Src: string(utf16.Decode(r.buf)), Files: files, StmtStarts: r.stmtStarts, StmtDepth: r.stmtDepth, CallCloses: r.callCloses}
}
