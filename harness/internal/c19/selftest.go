package c19

import (
	"bytes"
	"encoding/json"
	"fmt"
	"time"

	"verif/harness/internal/core"
	"verif/harness/internal/tlc"
)

// selfTest demonstrates the binding: observations the judge accepted are
// corrupted in one field each (a column, a line, a function name, the frame
// count, the error text, a probe result, a syntax position) and every corrupted
// line must be rejected ("bad" or "dev" never "accepted").
func selfTest(c *core.Ctx, recs []*rec, syns []*synCase) (map[string]any, error) {
	var buf bytes.Buffer
	enc := json.NewEncoder(&buf)
	kinds := map[int]string{}
	id := 0
	add := func(r *rec, o Obs, what string) {
		id++
		kinds[id] = what
		enc.Encode(runLine{ID: id, Kind: "run", Prog: r.sc.Prog, Files: r.rd.Files, TLimit: r.sc.TLimit, Named: true, Obs: o})
	}
	clone := func(o Obs) Obs {
		var x Obs
		b, _ := json.Marshal(o)
		json.Unmarshal(b, &x)
		if x.Log == nil {
			x.Log = [][]any{}
		}
		if x.Err == nil {
			x.Err = []ErrObs{}
		}
		for i := range x.Err {
			if x.Err[i].Frames == nil {
				x.Err[i].Frames = []Frame{}
			}
			for j := range x.Err[i].Frames {
				if x.Err[i].Frames[j].Fn == nil {
					x.Err[i].Frames[j].Fn = []int{}
				}
			}
			if x.Err[i].Text == nil {
				x.Err[i].Text = []int{}
			}
		}
		return x
	}
	n := 0
	for _, r := range recs {
		if !r.ok || n >= 40 || r.status != "" {
			continue
		}
		if len(r.named.Err) == 1 && r.named.Err[0].Traced && len(r.named.Err[0].Frames) >= 2 {
			n++
			fs := r.named.Err[0].Frames
			last := len(fs) - 1
			o := clone(r.named)
			o.Err[0].Frames[last].Col++
			add(r, o, "column+1")
			o = clone(r.named)
			o.Err[0].Frames[0].Line++
			add(r, o, "line+1")
			o = clone(r.named)
			o.Err[0].Frames[0].Fn = append(o.Err[0].Frames[0].Fn, 'x')
			add(r, o, "function name")
			o = clone(r.named)
			o.Err[0].Frames = o.Err[0].Frames[:last]
			add(r, o, "frame dropped")
			o = clone(r.named)
			o.Err[0].Frames[0], o.Err[0].Frames[last] = o.Err[0].Frames[last], o.Err[0].Frames[0]
			if !sameJSON(o, r.named) {
				add(r, o, "frames swapped")
			}
			o = clone(r.named)
			o.Err[0].Text = append([]int{'X'}, o.Err[0].Text...)
			add(r, o, "error text")
		}
		if len(r.named.Log) > 0 && len(r.named.Log[len(r.named.Log)-1]) > 0 {
			o := clone(r.named)
			o.Log[len(o.Log)-1][0] = map[string]any{"t": "str", "s": []int{'?'}}
			add(r, o, "probe result")
		}
	}
	ns := 0
	for _, s := range syns {
		if ns >= 20 {
			break
		}
		if s.status != "" || s.obs.Line == 0 {
			continue
		}
		ns++
		id++
		kinds[id] = "syntax column+1"
		enc.Encode(synLine{ID: id, Kind: "syntax", Text: s.text, Off: s.off, Obs: SyntaxObs{Line: s.obs.Line, Col: s.obs.Col + 1}})
		id++
		kinds[id] = "syntax line+1"
		enc.Encode(synLine{ID: id, Kind: "syntax", Text: s.text, Off: s.off, Obs: SyntaxObs{Line: s.obs.Line + 1, Col: s.obs.Col}})
	}
	if id == 0 {
		return map[string]any{"corrupted": 0}, nil
	}
	rejected := map[int]string{}
	_, err := tlc.Run(tlc.Opts{SpecDir: specDir(c), Module: "C19",
		Cfg:     tlcCfg(c),
		Workers: c.Workers, Files: map[string][]byte{"trace.ndjson": buf.Bytes()}, Timeout: 30 * time.Minute, HeapMB: 8000},
		func(p []byte) {
			var v verdict
			if json.Unmarshal(p, &v) == nil && v.Status != "strict" {
				rejected[v.ID] = v.Status
			}
		})
	if err != nil {
		return nil, err
	}
	byKind := map[string][2]int{}
	accepted, viaDev := 0, 0
	for i := 1; i <= id; i++ {
		k := byKind[kinds[i]]
		k[0]++
		switch rejected[i] {
		case "bad":
			k[1]++
		case "dev":
			// the corrupted observation happens to equal what a known deviation produces: still not accepted as conforming
			k[1]++
			viaDev++
		default:
			accepted++
			c.Violate(fmt.Sprintf("binding self-test: a corrupted observation (%s) was accepted by the judge (status %q)", kinds[i], rejected[i]), map[string]any{"corruption": kinds[i], "line": i})
		}
		byKind[kinds[i]] = k
	}
	out := map[string]any{"corrupted": id, "rejected": id - accepted, "of_which_equal_to_a_known_deviation": viaDev}
	for k, v := range byKind {
		out["kind "+k] = fmt.Sprintf("%d/%d rejected", v[1], v[0])
	}
	return out, nil
}
