package c19

import (
	"fmt"
	"regexp"
	"strconv"
	"strings"
	"time"
	"unicode/utf16"

	"github.com/robertkrimen/otto"
	"github.com/robertkrimen/otto/parser"

	"verif/harness/internal/c01"
	"verif/harness/internal/core"
)

// ScriptName is the file name the program is compiled under on the "script"
// route; frames of the program text must carry it, frames standing in eval
// code carry the name of an anonymous source.
const ScriptName = "c19prog.js"

// Frame is one line of Error.String(): the function name, whether it is a
// native frame, and the position (0:0 = the implementation printed none).
type Frame struct {
	Fn   []int `json:"fn"`
	Nat  bool  `json:"nat"`
	Src  int   `json:"src"` // 1 = the program text, 0 = any other source (eval code), or native
	Line int   `json:"line"`
	Col  int   `json:"col"`
}

// ErrObs is the error Run returned.
type ErrObs struct {
	Text   []int   `json:"text"`   // Error()
	Traced bool    `json:"traced"` // it is an *otto.Error
	Frames []Frame `json:"frames"`
}

// Obs is the observation of one run.
type Obs struct {
	Log [][]any  `json:"log"`
	V   any      `json:"v"`
	Err []ErrObs `json:"err"` // none or one
}

func toUnits(s string) []int {
	u := utf16.Encode([]rune(s))
	r := make([]int, len(u))
	for i, x := range u {
		r[i] = int(x)
	}
	return r
}

var reLoc = regexp.MustCompile(`^(.*):(\d+):(\d+)$`)

// parseFrames splits Error.String() into the first line(s) and the frames.
func parseFrames(s string, named bool) ([]Frame, error) {
	lines := strings.Split(strings.TrimSuffix(s, "\n"), "\n")
	// the frames are the trailing lines of the form "    at ..."
	k := len(lines)
	for k > 0 && strings.HasPrefix(lines[k-1], "    at ") {
		k--
	}
	frames := []Frame{}
	for _, l := range lines[k:] {
		l = strings.TrimPrefix(l, "    at ")
		name, loc := "", l
		if strings.HasSuffix(l, ")") {
			if i := strings.LastIndex(l, " ("); i >= 0 {
				name, loc = l[:i], l[i+2:len(l)-1]
			}
		}
		f := Frame{Fn: toUnits(name)}
		switch {
		case loc == "<unknown>":
		case loc == "<native code>":
			f.Nat, f.Fn = true, []int{}
		default:
			m := reLoc.FindStringSubmatch(loc)
			if m == nil || (m[1] != "<anonymous>" && m[1] != ScriptName) {
				// file:line of a Go function, or anything else that is no script position
				f.Nat, f.Fn = true, []int{}
				break
			}
			f.Line, _ = strconv.Atoi(m[2])
			f.Col, _ = strconv.Atoi(m[3])
			if named && m[1] == ScriptName {
				f.Src = 1
			}
		}
		frames = append(frames, f)
	}
	return frames, nil
}

// Routes by which a program reaches a runtime.  "named": compiled under ScriptName on a fresh
// runtime; "plain": Run(text) on a fresh runtime; the copy routes compile and run it, under
// ScriptName, on a runtime made by Otto.Copy(): of a fresh runtime, of a runtime that has already
// run a script (which raised, caught and constructed errors), and of such a copy again.
var Routes = []string{"named", "plain", "copy", "copy-used", "copy-copy"}

// RunProgram runs src with the given trace limit (named: route "named", else "plain").
func RunProgram(src string, tlimit int, named bool) (Obs, error) {
	if named {
		return RunRoute(src, tlimit, "named")
	}
	return RunRoute(src, tlimit, "plain")
}

// warmUp is what the "used" runtime ran before it was copied.
const warmUp = `(function () { try { null.x } catch (e) { } try { nope } catch (e) { } try { [].length = -1 } catch (e) { }
 try { eval("var = ;") } catch (e) { } return [new TypeError("t"), new RangeError("r"), new ReferenceError("f"), new SyntaxError("s")].length })()`

// RunRoute runs src by the given route.
func RunRoute(src string, tlimit int, route string) (obs Obs, err error) {
	type res struct {
		o Obs
		e error
	}
	ch := make(chan res, 1)
	go func() {
		var o Obs
		var e error
		defer func() {
			if r := recover(); r != nil {
				e = fmt.Errorf("GO PANIC: %v", r)
			}
			ch <- res{o, e}
		}()
		o, e = runProgram(src, tlimit, route)
	}()
	select {
	case r := <-ch:
		return r.o, r.e
	case <-time.After(20 * time.Second):
		return Obs{}, fmt.Errorf("TIMEOUT: program did not finish in 20 s")
	}
}

func newVM(log *[][]any, tlimit int) *otto.Otto {
	vm := c01.NewVM(log)
	// M(e): "e.message is a non-empty string" (the specification's host function of kind hostmsg)
	vm.Set("M", func(call otto.FunctionCall) otto.Value {
		a := call.Argument(0)
		if !a.IsObject() {
			return otto.FalseValue()
		}
		m, err := a.Object().Get("message")
		if err != nil || !m.IsString() {
			return otto.FalseValue()
		}
		s, _ := m.ToString()
		if s == "" {
			return otto.FalseValue()
		}
		return otto.TrueValue()
	})
	// CB(f): a host (Go) function that calls f and hands an error of the call back to the interpreter
	// (the specification's host function of kind hostcb)
	vm.Set("CB", func(call otto.FunctionCall) otto.Value {
		v, err := call.Argument(0).Call(otto.UndefinedValue())
		if err != nil {
			panic(err)
		}
		return v
	})
	vm.SetStackTraceLimit(tlimit)
	return vm
}

func runProgram(src string, tlimit int, route string) (Obs, error) {
	var log [][]any
	vm := newVM(&log, tlimit)
	named := route != "plain"
	switch route {
	case "copy":
		vm = vm.Copy()
	case "copy-used", "copy-copy":
		if _, werr := vm.Run(warmUp); werr != nil {
			return Obs{}, fmt.Errorf("warm-up script failed: %v", werr)
		}
		vm = vm.Copy()
		if route == "copy-copy" {
			vm = vm.Copy()
		}
		log = nil
	}
	var v otto.Value
	var err error
	if named {
		var sc *otto.Script
		sc, err = vm.Compile(ScriptName, src)
		if err != nil {
			return Obs{}, fmt.Errorf("the generated program does not compile: %v", err)
		}
		v, err = vm.Run(sc)
	} else {
		v, err = vm.Run(src)
	}
	o := Obs{Log: log, V: map[string]any{"t": "undef"}, Err: []ErrObs{}}
	if o.Log == nil {
		o.Log = [][]any{}
	}
	if err != nil {
		e := ErrObs{Text: toUnits(err.Error()), Frames: []Frame{}}
		if oe, ok := err.(*otto.Error); ok {
			e.Traced = true
			e.Frames, _ = parseFrames(oe.String(), named)
		} else if _, ok := err.(*parser.ErrorList); ok {
			return Obs{}, fmt.Errorf("the generated program does not parse: %v", err)
		}
		o.Err = []ErrObs{e}
		return o, nil
	}
	o.V = c01.Proj(v)
	return o, nil
}

// SyntaxObs is the position of the first error the parser reports.
type SyntaxObs struct {
	Line int `json:"line"`
	Col  int `json:"col"`
}

// ParsePosition parses src by the given route and returns the position of the first reported error.
func ParsePosition(route, src string) (pos SyntaxObs, msg string, err error) {
	defer func() {
		if r := recover(); r != nil {
			err = fmt.Errorf("GO PANIC: %v", r)
		}
	}()
	var perr error
	switch route {
	case "run":
		_, perr = otto.New().Run(src)
	case "compile":
		_, perr = otto.New().Compile("", src)
	case "parser":
		_, perr = parser.ParseFile(nil, "", src, 0)
	}
	if perr == nil {
		return pos, "", fmt.Errorf("accepted")
	}
	el, ok := perr.(*parser.ErrorList)
	if !ok || len(*el) == 0 {
		return pos, "", fmt.Errorf("not a parser error list: %T %v", perr, perr)
	}
	e := (*el)[0]
	return SyntaxObs{Line: e.Position.Line, Col: e.Position.Column}, e.Message, nil
}

func init() {
	// Go-side witness of D19_error_text_missing_name_static
	core.GoWitnesses["c19_missing_name_text"] = func() (string, error) {
		_, err := otto.New().Run(`delete TypeError.prototype.name; delete Error.prototype.name; throw new TypeError("abc");`)
		if err == nil {
			return "", fmt.Errorf("no error returned")
		}
		return err.Error(), nil
	}
	// Go-side witness of D19_internal_error_text_static_name
	core.GoWitnesses["c19_internal_error_text"] = func() (string, error) {
		_, err := otto.New().Run(`TypeError.prototype.name = "Zed"; var x = 1; x();`)
		if err == nil {
			return "", fmt.Errorf("no error returned")
		}
		return err.Error(), nil
	}
	// Go-side witness of D19_error_text_from_construction: the text of the error Run returns
	core.GoWitnesses["c19_error_text"] = func() (string, error) {
		_, err := otto.New().Run(`var e = new TypeError("abc"); e.name = "Foo"; e.message = "bar"; throw e;`)
		if err == nil {
			return "", fmt.Errorf("no error returned")
		}
		return err.Error(), nil
	}
}
