package c19

import (
	"bytes"
	"encoding/json"
	"fmt"
	"math/rand"
	"os"
	"reflect"
	"strings"
	"sync"
	"time"

	"verif/harness/internal/core"
	"verif/harness/internal/tlc"
)

type runLine struct {
	ID     int     `json:"id"`
	Kind   string  `json:"kind"` // "run"
	Prog   []N     `json:"prog"`
	Files  [][]int `json:"files"`
	TLimit int     `json:"tlimit"`
	Named  bool    `json:"named"`
	Obs    Obs     `json:"obs"`
}

type synLine struct {
	ID   int       `json:"id"`
	Kind string    `json:"kind"` // "syntax"
	Text []int     `json:"text"`
	Off  int       `json:"off"`
	Obs  SyntaxObs `json:"obs"`
}

type verdict struct {
	ID     int               `json:"id"`
	Status string            `json:"status"`
	Want   json.RawMessage   `json:"want"`
	Dev    []json.RawMessage `json:"dev"`
}

type rec struct {
	sc     Scenario
	rd     Rendered
	named  Obs
	plain  Obs
	copies map[string]Obs // the copy routes
	ok     bool
	status string // verdict of the named route: "" = conforms to the strict specification
}

func sameJSON(a, b any) bool {
	x, _ := json.Marshal(a)
	y, _ := json.Marshal(b)
	var u, v any
	json.Unmarshal(x, &u)
	json.Unmarshal(y, &v)
	return reflect.DeepEqual(u, v)
}

// withoutSrc: the plain route has no file name to tell the program from eval code
func withoutSrc(o Obs) Obs {
	out := o
	out.Err = nil
	for _, e := range o.Err {
		fs := make([]Frame, len(e.Frames))
		for i, f := range e.Frames {
			f.Src = 0
			fs[i] = f
		}
		e.Frames = fs
		out.Err = append(out.Err, e)
	}
	if out.Err == nil {
		out.Err = []ErrObs{}
	}
	return out
}

func jsonOf(v any) string { b, _ := json.Marshal(v); return string(b) }

var allTerms = []string{"\n", "\n", "\n", "\r\n", "\r", "\u2028", "\u2029"}

func layoutFor(r *rand.Rand, i int) Layout {
	switch i % 8 {
	case 0, 1, 2:
		return Layout{Rand: r, Terms: []string{"\n"}} // ASCII, LF only: positions as every implementation counts them
	case 3:
		return Layout{Rand: r, Terms: []string{"\n", "\r\n"}}
	case 4:
		return Layout{Rand: r, Terms: []string{"\n"}, NonASCII: true}
	case 5:
		return Layout{Rand: r, Terms: allTerms}
	default:
		return Layout{Rand: r, Terms: allTerms, NonASCII: true}
	}
}

func specDir(c *core.Ctx) string {
	if d := os.Getenv("VERIF_C19_SPECDIR"); d != "" {
		return d // development aid: a scratch copy of the specification
	}
	return c.SpecDir
}

func tlcCfg(c *core.Ctx) string {
	ids := c.Findings.OpenIDs()
	if closed := os.Getenv("VERIF_C19_CLOSED"); closed != "" {
		// development aid: judge a checkout that carries candidate repairs (VERIF_REPO) with the
		// repaired findings taken out of the deviation set
		keep := []string{}
		for _, id := range ids {
			if !strings.Contains(","+closed+",", ","+id+",") {
				keep = append(keep, id)
			}
		}
		ids = keep
	}
	return fmt.Sprintf("CONSTANTS\n OpenDev = %s\n Fuel = 300\nINIT Init\nNEXT Next\nCONSTRAINT Judge\nCHECK_DEADLOCK FALSE\n", core.TLASet(ids))
}

// totals over all batches of a run
type totals struct {
	states, transitions                  int64
	programs, runs, runLines, routeDiff  int64
	routeDiffNotJudged                   int64
	synCases, synRoutes                  int64
	und, bad, dev                        int64
	endErr, endNormal                    int64
	maxFrames                            int
	tlcWall                              float64
	tagUnd, devByTag, errCount, ctxCount map[string]int
	pairs                                map[string]int
	layouts                              map[string]int
	samples                              []any
	self                                 map[string]any
}

func newTotals() *totals {
	return &totals{tagUnd: map[string]int{}, devByTag: map[string]int{}, errCount: map[string]int{}, ctxCount: map[string]int{},
		pairs: map[string]int{}, layouts: map[string]int{}, samples: []any{}, self: map[string]any{}}
}

// Check generates positioned programs and broken sources, runs them, and has TLC judge the observations.
func Check(c *core.Ctx) (map[string]any, []string, error) {
	nProg, nSyn, batches := 4000, 2000, 1
	if c.Thorough() {
		nProg, nSyn, batches = 8000, 3000, 8
	}
	if s := os.Getenv("VERIF_C19_PROGRAMS"); s != "" {
		fmt.Sscan(s, &nProg)
		nSyn = nProg / 2
	}
	if s := os.Getenv("VERIF_C19_BATCHES"); s != "" {
		fmt.Sscan(s, &batches)
	}
	t := newTotals()
	for b := 0; b < batches; b++ {
		rng := rand.New(rand.NewSource(c.Seed*7919 + 19 + int64(b)*104729))
		selfTestNow := b == 0 && (c.Thorough() || os.Getenv("VERIF_C19_SELFTEST") != "")
		if err := runBatch(c, rng, nProg, nSyn, t, selfTestNow); err != nil {
			return nil, nil, err
		}
	}
	if len(t.samples) == 0 {
		t.samples = append(t.samples, "none")
	}
	numOrder, err := checkNumOrder(c)
	if err != nil {
		return nil, nil, err
	}
	judged := t.runLines + t.synCases
	cov := map[string]any{
		"states": t.states, "transitions": t.transitions, "traces_validated_against_impl": judged,
		"samples": t.samples, "batches": batches, "routes": Routes, "programs": t.programs, "program_runs": t.runs, "run_cases_judged": t.runLines,
		"routes_differing_from_named": t.routeDiff, "routes_differing_judged_individually": t.routeDiff - t.routeDiffNotJudged,
		"syntax_cases": t.synCases, "syntax_route_checks": t.synRoutes,
		"undecided_left_modelled_fragment": t.und, "undecided_by_tag": t.tagUnd,
		"rejected": t.bad, "conforming_to_known_deviation": t.dev, "deviation_hits_by_tag": t.devByTag,
		"conforming":  judged - t.und - t.bad - t.dev,
		"error_kinds": t.errCount, "contexts": t.ctxCount, "layouts": t.layouts, "context_error_pairs_covered": len(t.pairs),
		"context_error_pairs_possible": len(CtxKinds) * len(ErrKinds),
		"runs_ending_in_error":         t.endErr, "runs_ending_normally": t.endNormal, "max_frames_observed": t.maxFrames,
		"trace_limits": "0..12 and depth..depth+2", "nesting_depth": "0..4 contexts (plus built-in frames)",
		"binding_self_test": t.self, "tlc_wall_s": t.tlcWall, "number_format_error_order": numOrder,
	}
	assumptions := []string{
		"programs come from the seeded generator harness/internal/c19/gen.go; the renderer harness/internal/c19/render.go is trusted to report the offset at which it wrote each node (cross-checked only by the agreement of many thousand positions with the implementation)",
		"oracle: spec/ErrSpec.tla over spec/ES5Core.tla evaluated by TLC on the same tree: error class and prototype chain as seen by catch blocks, Error() text by 15.11.4.4, the call stack with the position of every call site, line/column by 7.3",
		"call-site convention (not fixed by ES5): the first token of the callee / member / binary / assignment expression, grouping parentheses skipped, for new the first token of the constructor expression; 1-based line and column in characters; trace limit <= 0 means no limit",
		"message text of interpreter-raised errors is not specified: only its non-emptiness (probe M) and the 'Name: ' prefix of Error() are judged; native frames are judged only as native",
		"syntax errors: the harness breaks a valid text by one token at a place where the result cannot be continued and names the offending token's offset; the specification contributes the offset -> line/column rule (7.3) only",
	}
	return cov, assumptions, nil
}

func runBatch(c *core.Ctx, rng *rand.Rand, nProg, nSyn int, t *totals, selfTestNow bool) error {
	g := &gen{r: rng}
	recs := make([]*rec, nProg)
	for i := range recs {
		sc := g.scenario(i)
		lay := layoutFor(rng, i)
		recs[i] = &rec{sc: sc, rd: Render(sc.Prog, lay)}
		t.layouts[fmt.Sprintf("terminators=%d nonascii=%v", len(lay.Terms), lay.NonASCII)]++
	}
	t.programs += int64(nProg)
	// run both routes in parallel
	var wg sync.WaitGroup
	jobs := make(chan *rec, 256)
	var mu sync.Mutex
	for w := 0; w < c.Workers; w++ {
		wg.Add(1)
		go func() {
			defer wg.Done()
			for r := range jobs {
				var err error
				r.copies = map[string]Obs{}
				for _, route := range Routes {
					named := route == "named"
					var o Obs
					o, err = RunRoute(r.rd.Src, r.sc.TLimit, route)
					if err != nil {
						if _, err2 := RunRoute(r.rd.Src, r.sc.TLimit, route); err2 != nil {
							if strings.Contains(err.Error(), "does not parse") || strings.Contains(err.Error(), "does not compile") {
								c.Note("generated program set aside (%v)", err)
								if d := os.Getenv("VERIF_C19_DUMPBAD"); d != "" {
									os.WriteFile(fmt.Sprintf("%s/bad-%d.js", d, r.sc.TLimit*1000+len(r.rd.Src)%1000), []byte(r.rd.Src), 0o644)
								}
							} else {
								c.Violate(fmt.Sprintf("%v on program:\n%s", err, r.rd.Src), map[string]any{"source": r.rd.Src, "tlimit": r.sc.TLimit, "error": err.Error()})
							}
						}
						break
					}
					switch {
					case named:
						r.named = o
					case route == "plain":
						r.plain = o
					default:
						r.copies[route] = o
					}
					mu.Lock()
					t.runs++
					mu.Unlock()
				}
				r.ok = err == nil
			}
		}()
	}
	for _, r := range recs {
		jobs <- r
	}
	close(jobs)
	wg.Wait()

	var buf bytes.Buffer
	enc := json.NewEncoder(&buf)
	type key struct {
		r     *rec
		named bool
		route string
		syn   *synCase
	}
	byID := map[int]key{}
	next := 0
	copyLines := 0
	for _, r := range recs {
		if !r.ok {
			continue
		}
		next++
		byID[next] = key{r: r, named: true, route: "named"}
		enc.Encode(runLine{ID: next, Kind: "run", Prog: r.sc.Prog, Files: r.rd.Files, TLimit: r.sc.TLimit, Named: true, Obs: r.named})
		for _, route := range Routes[2:] {
			if o := r.copies[route]; !sameJSON(r.named, o) {
				// a copied runtime behaves differently from a fresh one: judge it on its own
				// (at most 400 such lines per batch: enough to report, and TLC stays fast when every copy differs)
				t.routeDiff++
				if copyLines++; copyLines > 400 {
					t.routeDiffNotJudged++
					continue
				}
				next++
				byID[next] = key{r: r, route: route}
				enc.Encode(runLine{ID: next, Kind: "run", Prog: r.sc.Prog, Files: r.rd.Files, TLimit: r.sc.TLimit, Named: true, Obs: o})
			}
		}
		if !sameJSON(withoutSrc(r.named), r.plain) {
			// the two routes differ in more than the file name: judge the plain route on its own
			t.routeDiff++
			next++
			byID[next] = key{r: r, named: false, route: "plain"}
			enc.Encode(runLine{ID: next, Kind: "run", Prog: r.sc.Prog, Files: r.rd.Files, TLimit: r.sc.TLimit, Named: false, Obs: r.plain})
		}
	}
	t.runLines += int64(next)

	// syntax errors
	syns := genSyntax(rng, recs, nSyn)
	judgedSyn := []*synCase{}
	for _, s := range syns {
		pos, _, err := ParsePosition("parser", s.src)
		if err != nil {
			if err.Error() == "accepted" {
				c.Violate(fmt.Sprintf("the parser accepts a text made invalid by %s at offset %d:\n%s", s.mut, s.off, s.src), map[string]any{"source": s.src, "mutation": s.mut, "offset": s.off})
			} else {
				c.Violate(fmt.Sprintf("parsing a broken text: %v\n%s", err, s.src), map[string]any{"source": s.src})
			}
			continue
		}
		t.synRoutes++
		for _, route := range []string{"run", "compile"} {
			p2, _, err2 := ParsePosition(route, s.src)
			if err2 != nil || p2 != pos {
				c.Violate(fmt.Sprintf("route %s reports %v (%v), the parser %v for:\n%s", route, p2, err2, pos, s.src), map[string]any{"source": s.src, "route": route})
			}
			t.synRoutes++
		}
		s.obs = pos
		next++
		byID[next] = key{syn: s}
		judgedSyn = append(judgedSyn, s)
		enc.Encode(synLine{ID: next, Kind: "syntax", Text: s.text, Off: s.off, Obs: pos})
	}
	t.synCases += int64(len(judgedSyn))
	if p := os.Getenv("VERIF_C19_KEEPTRACE"); p != "" {
		os.WriteFile(p, buf.Bytes(), 0o644) // development aid: judge the same trace by hand with bin/tlcx
	}

	reported := map[*rec]bool{}
	wants := map[int]json.RawMessage{}
	res, err := tlc.Run(tlc.Opts{SpecDir: specDir(c), Module: "C19", Cfg: tlcCfg(c),
		Workers: c.Workers, Files: map[string][]byte{"trace.ndjson": buf.Bytes()}, Timeout: 90 * time.Minute, HeapMB: 12000},
		func(p []byte) {
			var v verdict
			if json.Unmarshal(p, &v) != nil {
				return
			}
			k := byID[v.ID]
			if v.Status == "strict" {
				// the strict specification rejects the observation: its requirement; the verdict follows
				wants[v.ID] = v.Want
				return
			}
			if v.Status == "dev" || v.Status == "bad" {
				v.Want = wants[v.ID]
			}
			if k.syn != nil {
				k.syn.status = v.Status
			} else if k.named {
				k.r.status = v.Status
			}
			switch v.Status {
			case "und":
				t.und++
				if d := os.Getenv("VERIF_C19_DUMPUND"); d != "" && k.r != nil {
					os.WriteFile(fmt.Sprintf("%s/und-%d.js", d, v.ID), []byte(k.r.rd.Src), 0o644)
				}
				for _, tg := range k.r.sc.Tags {
					if strings.HasPrefix(tg, "err:") || strings.HasPrefix(tg, "ctx:") {
						t.tagUnd[tg]++
					}
				}
			case "dev":
				t.dev++
				c.Hit("deviation")
				if k.syn != nil {
					t.devByTag["syntax"]++
				} else {
					for _, tg := range k.r.sc.Tags {
						t.devByTag[tg]++
					}
				}
			case "bad":
				t.bad++
				if k.syn != nil {
					s := k.syn
					p2, _, e2 := ParsePosition("parser", s.src)
					if e2 != nil || p2 != s.obs {
						c.Note("non-reproducible parser position skipped")
						return
					}
					c.Violate(fmt.Sprintf("syntax error position: the parser reports %d:%d, the offending token (%s at offset %d) is at %s in:\n%s", s.obs.Line, s.obs.Col, s.mut, s.off, string(v.Want), s.src),
						map[string]any{"source": s.src, "mutation": s.mut, "offset": s.off, "observed": s.obs, "required": v.Want})
					return
				}
				if reported[k.r] {
					return
				}
				reported[k.r] = true
				obs := k.r.named
				if k.route == "plain" {
					obs = k.r.plain
				} else if k.route != "named" {
					obs = k.r.copies[k.route]
				}
				o2, err2 := RunRoute(k.r.rd.Src, k.r.sc.TLimit, k.route)
				if err2 != nil || !sameJSON(o2, obs) {
					c.Note("non-reproducible observation skipped")
					return
				}
				c.Violate(fmt.Sprintf("route %s, trace limit %d: observed %s but the specification requires %s for program:\n%s", k.route, k.r.sc.TLimit, jsonOf(obs), string(v.Want), k.r.rd.Src),
					map[string]any{"source": k.r.rd.Src, "tlimit": k.r.sc.TLimit, "named": k.route != "plain", "route": k.route, "observed": obs, "required": v.Want, "under_deviations": v.Dev, "tags": k.r.sc.Tags})
			}
		})
	if err != nil {
		return err
	}
	t.states += res.Distinct
	t.transitions += res.Generated
	t.tlcWall += res.Wall

	// coverage: which (context, error kind) pairs were exercised
	for _, r := range recs {
		if !r.ok {
			continue
		}
		var ek string
		for _, tg := range r.sc.Tags {
			if strings.HasPrefix(tg, "err:") && ek == "" {
				ek = tg[4:]
				t.errCount[ek]++
			}
		}
		for _, tg := range r.sc.Tags {
			if strings.HasPrefix(tg, "ctx:") {
				t.ctxCount[tg[4:]]++
				t.pairs[tg[4:]+"/"+ek]++
			}
		}
		if len(r.named.Err) == 1 {
			t.endErr++
			if n := len(r.named.Err[0].Frames); n > t.maxFrames {
				t.maxFrames = n
			}
		} else {
			t.endNormal++
		}
	}
	if len(t.samples) == 0 {
		for _, r := range recs {
			if r.ok && r.status == "" && len(r.named.Err) == 1 && len(r.named.Err[0].Frames) >= 3 && len(t.samples) < 2 {
				t.samples = append(t.samples, map[string]any{"source": r.rd.Src, "tlimit": r.sc.TLimit, "observed": r.named})
			}
		}
		if len(judgedSyn) > 0 {
			s := judgedSyn[0]
			t.samples = append(t.samples, map[string]any{"broken_source": s.src, "mutation": s.mut, "offset": s.off, "observed": s.obs})
		}
	}
	if selfTestNow {
		self, err := selfTest(c, recs, judgedSyn)
		if err != nil {
			return err
		}
		t.self = self
	}
	return nil
}
