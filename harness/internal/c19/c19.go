package c19

import (
	"bytes"
	"encoding/json"
	"fmt"
	"math/rand"
	"os"
	"reflect"
	"sort"
	"strings"
	"sync"
	"time"

	"verif/harness/internal/core"
	"verif/harness/internal/tlc"
)

type runLine struct {
	ID     int     `json:"id"`
	Kind   string  `json:"kind"` // "run"
	Prog   []N     `json:"prog"`
	Files  [][]int `json:"files"`
	TLimit int     `json:"tlimit"`
	Named  bool    `json:"named"`
	Obs    Obs     `json:"obs"`
}

type synLine struct {
	ID   int       `json:"id"`
	Kind string    `json:"kind"` // "syntax"
	Text []int     `json:"text"`
	Off  int       `json:"off"`
	Obs  SyntaxObs `json:"obs"`
}

type verdict struct {
	ID     int               `json:"id"`
	Status string            `json:"status"`
	Want   json.RawMessage   `json:"want"`
	Dev    []json.RawMessage `json:"dev"`
}

type rec struct {
	sc     Scenario
	rd     Rendered
	named  Obs
	plain  Obs
	ok     bool
	status string // verdict of the named route: "" = conforms to the strict specification
}

func sameJSON(a, b any) bool {
	x, _ := json.Marshal(a)
	y, _ := json.Marshal(b)
	var u, v any
	json.Unmarshal(x, &u)
	json.Unmarshal(y, &v)
	return reflect.DeepEqual(u, v)
}

// withoutSrc: the plain route has no file name to tell the program from eval code
func withoutSrc(o Obs) Obs {
	out := o
	out.Err = nil
	for _, e := range o.Err {
		fs := make([]Frame, len(e.Frames))
		for i, f := range e.Frames {
			f.Src = 0
			fs[i] = f
		}
		e.Frames = fs
		out.Err = append(out.Err, e)
	}
	if out.Err == nil {
		out.Err = []ErrObs{}
	}
	return out
}

func jsonOf(v any) string { b, _ := json.Marshal(v); return string(b) }

var allTerms = []string{"\n", "\n", "\n", "\r\n", "\r", "\u2028", "\u2029"}

func layoutFor(r *rand.Rand, i int) Layout {
	switch i % 8 {
	case 0, 1, 2:
		return Layout{Rand: r, Terms: []string{"\n"}} // ASCII, LF only: positions as every implementation counts them
	case 3:
		return Layout{Rand: r, Terms: []string{"\n", "\r\n"}}
	case 4:
		return Layout{Rand: r, Terms: []string{"\n"}, NonASCII: true}
	case 5:
		return Layout{Rand: r, Terms: allTerms}
	default:
		return Layout{Rand: r, Terms: allTerms, NonASCII: true}
	}
}

func specDir(c *core.Ctx) string {
	if d := os.Getenv("VERIF_C19_SPECDIR"); d != "" {
		return d // development aid: a scratch copy of the specification
	}
	return c.SpecDir
}

// Check generates positioned programs and broken sources, runs them, and has TLC judge the observations.
func Check(c *core.Ctx) (map[string]any, []string, error) {
	nProg, nSyn := 2400, 1500
	if c.Thorough() {
		nProg, nSyn = 60000, 20000
	}
	if s := os.Getenv("VERIF_C19_PROGRAMS"); s != "" {
		fmt.Sscan(s, &nProg)
		nSyn = nProg / 2
	}
	rng := rand.New(rand.NewSource(c.Seed*7919 + 19))
	g := &gen{r: rng}
	recs := make([]*rec, nProg)
	for i := range recs {
		sc := g.scenario(i)
		recs[i] = &rec{sc: sc, rd: Render(sc.Prog, layoutFor(rng, i))}
	}
	// run both routes in parallel
	var wg sync.WaitGroup
	jobs := make(chan *rec, 256)
	var nRuns int64
	var mu sync.Mutex
	for w := 0; w < c.Workers; w++ {
		wg.Add(1)
		go func() {
			defer wg.Done()
			for r := range jobs {
				var err error
				for _, named := range []bool{true, false} {
					var o Obs
					o, err = RunProgram(r.rd.Src, r.sc.TLimit, named)
					if err != nil {
						if _, err2 := RunProgram(r.rd.Src, r.sc.TLimit, named); err2 != nil {
							if strings.Contains(err.Error(), "does not parse") || strings.Contains(err.Error(), "does not compile") {
								c.Note("generated program set aside (%v)", err)
								if d := os.Getenv("VERIF_C19_DUMPBAD"); d != "" {
									os.WriteFile(fmt.Sprintf("%s/bad-%d.js", d, r.sc.TLimit*1000+len(r.rd.Src)%1000), []byte(r.rd.Src), 0o644)
								}
							} else {
								c.Violate(fmt.Sprintf("%v on program:\n%s", err, r.rd.Src), map[string]any{"source": r.rd.Src, "tlimit": r.sc.TLimit, "error": err.Error()})
							}
						}
						break
					}
					if named {
						r.named = o
					} else {
						r.plain = o
					}
					mu.Lock()
					nRuns++
					mu.Unlock()
				}
				r.ok = err == nil
			}
		}()
	}
	for _, r := range recs {
		jobs <- r
	}
	close(jobs)
	wg.Wait()

	var buf bytes.Buffer
	enc := json.NewEncoder(&buf)
	type key struct {
		r     *rec
		named bool
		syn   *synCase
	}
	byID := map[int]key{}
	next := 0
	var nRouteDiff int64
	for _, r := range recs {
		if !r.ok {
			continue
		}
		next++
		byID[next] = key{r: r, named: true}
		enc.Encode(runLine{ID: next, Kind: "run", Prog: r.sc.Prog, Files: r.rd.Files, TLimit: r.sc.TLimit, Named: true, Obs: r.named})
		if !sameJSON(withoutSrc(r.named), r.plain) {
			// the two routes differ in more than the file name: judge the plain route on its own
			nRouteDiff++
			next++
			byID[next] = key{r: r, named: false}
			enc.Encode(runLine{ID: next, Kind: "run", Prog: r.sc.Prog, Files: r.rd.Files, TLimit: r.sc.TLimit, Named: false, Obs: r.plain})
		}
	}
	nRunLines := next

	// syntax errors
	syns := genSyntax(rng, recs, nSyn)
	var nSynRoutes int64
	for _, s := range syns {
		pos, _, err := ParsePosition("parser", s.src)
		if err != nil {
			if err.Error() == "accepted" {
				c.Violate(fmt.Sprintf("the parser accepts a text made invalid by %s at offset %d:\n%s", s.mut, s.off, s.src), map[string]any{"source": s.src, "mutation": s.mut, "offset": s.off})
			} else {
				c.Violate(fmt.Sprintf("parsing a broken text: %v\n%s", err, s.src), map[string]any{"source": s.src})
			}
			continue
		}
		nSynRoutes++
		for _, route := range []string{"run", "compile"} {
			p2, _, err2 := ParsePosition(route, s.src)
			if err2 != nil || p2 != pos {
				c.Violate(fmt.Sprintf("route %s reports %v (%v), the parser %v for:\n%s", route, p2, err2, pos, s.src), map[string]any{"source": s.src, "route": route})
			}
			nSynRoutes++
		}
		s.obs = pos
		next++
		byID[next] = key{syn: s}
		enc.Encode(synLine{ID: next, Kind: "syntax", Text: s.text, Off: s.off, Obs: pos})
	}

	if p := os.Getenv("VERIF_C19_KEEPTRACE"); p != "" {
		os.WriteFile(p, buf.Bytes(), 0o644) // development aid: judge the same trace by hand with bin/tlcx
	}
	var nUnd, nBad, nDev int64
	tagUnd := map[string]int{}
	devByTag := map[string]int{}
	reported := map[*rec]bool{}
	res, err := tlc.Run(tlc.Opts{SpecDir: specDir(c), Module: "C19",
		Cfg:     fmt.Sprintf("CONSTANTS\n OpenDev = %s\n Fuel = 300\nINIT Init\nNEXT Next\nINVARIANT Check\nCHECK_DEADLOCK FALSE\n", core.TLASet(c.Findings.OpenIDs())),
		Workers: c.Workers, Files: map[string][]byte{"trace.ndjson": buf.Bytes()}, Timeout: 90 * time.Minute, HeapMB: 12000},
		func(p []byte) {
			var v verdict
			if json.Unmarshal(p, &v) != nil {
				return
			}
			k := byID[v.ID]
			if k.syn != nil {
				k.syn.status = v.Status
			} else if k.named {
				k.r.status = v.Status
			}
			switch v.Status {
			case "und":
				nUnd++
				for _, t := range k.r.sc.Tags {
					if strings.HasPrefix(t, "err:") || strings.HasPrefix(t, "ctx:") {
						tagUnd[t]++
					}
				}
			case "dev":
				nDev++
				c.Hit("deviation")
				if k.syn != nil {
					devByTag["syntax"]++
				} else {
					for _, t := range k.r.sc.Tags {
						devByTag[t]++
					}
				}
			case "bad":
				nBad++
				if k.syn != nil {
					s := k.syn
					p2, _, e2 := ParsePosition("parser", s.src)
					if e2 != nil || p2 != s.obs {
						c.Note("non-reproducible parser position skipped")
						return
					}
					c.Violate(fmt.Sprintf("syntax error position: the parser reports %d:%d, the offending token (%s at offset %d) is at %s in:\n%s", s.obs.Line, s.obs.Col, s.mut, s.off, string(v.Want), s.src),
						map[string]any{"source": s.src, "mutation": s.mut, "offset": s.off, "observed": s.obs, "required": v.Want})
					return
				}
				if reported[k.r] {
					return
				}
				reported[k.r] = true
				obs := k.r.named
				if !k.named {
					obs = k.r.plain
				}
				o2, err2 := RunProgram(k.r.rd.Src, k.r.sc.TLimit, k.named)
				if err2 != nil || !sameJSON(o2, obs) {
					c.Note("non-reproducible observation skipped")
					return
				}
				c.Violate(fmt.Sprintf("trace limit %d, named=%v: observed %s but the specification requires %s for program:\n%s", k.r.sc.TLimit, k.named, jsonOf(obs), string(v.Want), k.r.rd.Src),
					map[string]any{"source": k.r.rd.Src, "tlimit": k.r.sc.TLimit, "named": k.named, "observed": obs, "required": v.Want, "under_deviations": v.Dev, "tags": k.r.sc.Tags})
			}
		})
	if err != nil {
		return nil, nil, err
	}

	// coverage: which (context, error kind) pairs and layouts were exercised
	pairs := map[string]int{}
	errCount := map[string]int{}
	ctxCount := map[string]int{}
	caught, uncaught, maxFrames := 0, 0, 0
	for _, r := range recs {
		if !r.ok {
			continue
		}
		var ek string
		for _, t := range r.sc.Tags {
			if strings.HasPrefix(t, "err:") && ek == "" {
				ek = t[4:]
				errCount[ek]++
			}
		}
		for _, t := range r.sc.Tags {
			if strings.HasPrefix(t, "ctx:") {
				ctxCount[t[4:]]++
				pairs[t[4:]+"/"+ek]++
			}
		}
		if len(r.named.Err) == 1 {
			uncaught++
			if n := len(r.named.Err[0].Frames); n > maxFrames {
				maxFrames = n
			}
		} else {
			caught++
		}
	}
	samples := []any{}
	for _, r := range recs {
		if r.ok && len(r.named.Err) == 1 && len(r.named.Err[0].Frames) >= 3 && len(samples) < 2 {
			samples = append(samples, map[string]any{"source": r.rd.Src, "tlimit": r.sc.TLimit, "observed": r.named})
		}
	}
	if len(syns) > 0 {
		samples = append(samples, map[string]any{"broken_source": syns[0].src, "mutation": syns[0].mut, "offset": syns[0].off, "observed": syns[0].obs})
	}
	if len(samples) == 0 {
		samples = append(samples, "none")
	}
	self := map[string]any{}
	if c.Thorough() || os.Getenv("VERIF_C19_SELFTEST") != "" {
		self, err = selfTest(c, recs, syns)
		if err != nil {
			return nil, nil, err
		}
	}
	judged := int64(next)
	cov := map[string]any{
		"states": res.Distinct, "transitions": res.Generated, "traces_validated_against_impl": judged,
		"samples": samples, "programs": nProg, "program_runs": nRuns, "run_cases_judged": nRunLines,
		"routes_differing_judged_individually": nRouteDiff,
		"syntax_cases":                         len(syns), "syntax_route_checks": nSynRoutes,
		"undecided_left_modelled_fragment": nUnd, "undecided_by_tag": tagUnd,
		"rejected": nBad, "conforming_to_known_deviation": nDev, "deviation_hits_by_tag": devByTag,
		"conforming":  judged - nUnd - nBad - nDev,
		"error_kinds": errCount, "contexts": ctxCount, "context_error_pairs_covered": len(pairs),
		"context_error_pairs_possible": len(CtxKinds) * len(ErrKinds),
		"runs_ending_in_error":         uncaught, "runs_ending_normally": caught, "max_frames_observed": maxFrames,
		"binding_self_test": self, "tlc_wall_s": res.Wall,
	}
	assumptions := []string{
		"programs come from the seeded generator harness/internal/c19/gen.go; the renderer harness/internal/c19/render.go is trusted to report the offset at which it wrote each node (it is cross-checked only by the agreement of thousands of positions with the implementation)",
		"oracle: spec/ErrSpec.tla over spec/ES5Core.tla evaluated by TLC on the same tree: error class and prototype chain as seen by catch blocks, Error() text by 15.11.4.4, the call stack with the position of every call site, line/column by 7.3",
		"call-site convention (not fixed by ES5): the first token of the callee / member / binary / assignment expression, grouping parentheses skipped, for new the first token of the constructor expression; 1-based line and column in characters; trace limit <= 0 means no limit",
		"message text of interpreter-raised errors is not specified: only its non-emptiness (probe M) and the 'Name: ' prefix of Error() are judged; native frames are judged only as native",
		"syntax errors: the harness breaks a valid text by one token at a place where the result cannot be continued and names the offending token's offset; the specification contributes the offset -> line/column rule only",
	}
	_ = sort.Strings
	return cov, assumptions, nil
}
