package c19

import (
	"math/rand"
	"unicode/utf16"
)

// syntax.go: sources that do not parse, made from the rendered valid programs
// by ONE token inserted, deleted, or by cutting the text off, at a place where
// the harness knows the result cannot be continued.  The offending token is
// then the inserted token / the token after the deleted one / the end of input.

type synCase struct {
	src    string
	text   []int
	off    int    // offset (1-based, code units) of the offending token in text
	mut    string // description of the mutation
	obs    SyntaxObs
	status string
}

// tokens that can neither start a statement nor continue a complete one
var strayTokens = []string{")", "]", "*", "=", ",", ":", "?", "%", "|", "^", "&&", "instanceof", "=="}

func textOf(u []int) string {
	r := make([]uint16, len(u))
	for i, x := range u {
		r[i] = uint16(x)
	}
	return string(utf16.Decode(r))
}

func genSyntax(rng *rand.Rand, recs []*rec, n int) []*synCase {
	out := []*synCase{}
	if len(recs) == 0 {
		return out
	}
	for tries := 0; len(out) < n && tries < 20*n; tries++ {
		r := recs[rng.Intn(len(recs))]
		if !r.ok || len(r.rd.StmtStarts) == 0 {
			continue
		}
		text := r.rd.Files[0]
		switch rng.Intn(4) {
		case 0, 1: // a stray token in front of a statement
			s := r.rd.StmtStarts[rng.Intn(len(r.rd.StmtStarts))]
			tok := strayTokens[rng.Intn(len(strayTokens))]
			nt := append(append(append([]int{}, text[:s-1]...), toUnits(tok+" ")...), text[s-1:]...)
			out = append(out, &synCase{text: nt, src: textOf(nt), off: s, mut: "stray token " + tok + " before a statement"})
		case 2: // the closing parenthesis of a call statement deleted: the ";" after it offends
			if len(r.rd.CallCloses) == 0 {
				continue
			}
			p := r.rd.CallCloses[rng.Intn(len(r.rd.CallCloses))]
			if text[p-1] != ')' || p >= len(text) || text[p] != ';' {
				continue
			}
			nt := append(append([]int{}, text[:p-1]...), text[p:]...)
			out = append(out, &synCase{text: nt, src: textOf(nt), off: p, mut: "closing parenthesis of a call deleted"})
		default: // the text cut off inside a block or function body: the end of input offends
			k := rng.Intn(len(r.rd.StmtStarts))
			if r.rd.StmtDepth[k] == 0 {
				continue
			}
			s := r.rd.StmtStarts[k]
			nt := append([]int{}, text[:s-1]...)
			out = append(out, &synCase{text: nt, src: textOf(nt), off: s, mut: "text cut off inside a block"})
		}
	}
	return out
}
