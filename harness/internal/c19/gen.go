package c19

import (
	"fmt"
	"math/rand"

	"verif/harness/internal/c01"
)

// gen.go: the seeded generator of C19 programs.  A program is a chain of up to
// four nesting contexts (named / anonymous function, method called by dot or
// bracket, constructor, bound function, Function.prototype.call / apply,
// forEach callback, direct and indirect eval code, getter, setter, valueOf
// conversion, immediately invoked function expression, function returned by a
// call) with an error-raising construct of one of the kinds of the property in
// the innermost one, filler statements that move the "current position" of
// the frames around, and optionally a try/catch at one level that probes the
// caught value and either rethrows it or goes on to a second error.

var id, num, str = c01.Id, c01.Num, c01.Str

type gen struct {
	r    *rand.Rand
	uniq int
	tags []string
	pre  []N // statements for the top of the program (an error object created there, thrown elsewhere)
	// noArgErr: the catch probes of this program read e.message (script-made errors only), so no
	// argument may raise an interpreter error (whose message text is not specified)
	noArgErr bool
}

func (g *gen) pick(n int) int    { return g.r.Intn(n) }
func (g *gen) chance(p int) bool { return g.r.Intn(100) < p }
func (g *gen) tag(s string)      { g.tags = append(g.tags, s) }
func (g *gen) fresh(p string) string {
	g.uniq++
	return fmt.Sprintf("%s%d", p, g.uniq)
}

func intsOf(s string) []int { return toUnits(s) }

func rawStr(s string) N {
	n := str(s)
	n["raw"] = true
	return n
}

func evalBad(direct bool, text, kind string) N {
	return N{"k": "eval", "direct": direct, "prog": []N{}, "bad": kind, "text": intsOf(text)}
}

func fnCtorBad(isNew bool, text, kind string) N {
	return N{"k": "fnctor", "isNew": isNew, "bad": kind, "text": intsOf(text)}
}

var errClasses = []string{"TypeError", "ReferenceError", "RangeError", "SyntaxError", "EvalError", "URIError", "Error"}

var badTexts = []string{"var = 2;", "f(1, 2;", "1 +;", "{", "if (", "a b", "var a = ;\n", "x = = 1", "var a = 1;\n  var = 2;", "for (;;", "a.;"}
var lhsTexts = []string{"1 = 2", "a + 1 = 2", "var q = 1;\n 5 = q"}

// ErrKinds lists the kinds of error-raising constructs (for coverage counts).
var ErrKinds = []string{"unres", "callnf", "propundef", "newnf", "instof", "arrlen", "numfmt", "evalsyn", "jsoncyc", "thrown", "throwprim", "misc"}

// CtxKinds lists the nesting contexts.
var CtxKinds = []string{"fdecl", "fexpr", "nfe", "mdot", "midx", "ctor", "bound", "call", "apply", "foreach", "deval", "ieval", "getter", "setter", "valueof", "iife", "callres", "hostcb"}

// argument expressions that each record a position of their own (member access, call, operator,
// assignment, nested construction): the call site of the enclosing call / new expression must
// still be the one recorded when the callee is entered.  The globals ao, ax, ay, AD are declared
// at the top of every program.
func (g *gen) argExpr() N {
	switch g.pick(11) {
	case 0:
		return c01.Dot(id("ao"), "p")
	case 1:
		return c01.Idx(id("ao"), str("p"))
	case 2:
		return c01.Call(id("z"))
	case 3:
		return c01.Bin("+", id("ax"), id("ay"))
	case 4:
		return c01.Asg("=", id("ax"), num(1+g.pick(4)))
	case 5:
		return c01.New(id("AD"))
	case 6:
		return c01.Dot(c01.Dot(id("ao"), "q"), "r")
	case 7:
		return c01.Call(c01.Dot(id("z"), "call"), c01.Null())
	case 8:
		return c01.Bin("<", num(1), c01.Dot(id("ao"), "p"))
	case 9:
		return c01.New(id("AD"), c01.Dot(id("ao"), "p"))
	default:
		return num(g.pick(5))
	}
}

func (g *gen) args() []N {
	if g.chance(45) {
		return nil
	}
	g.tag("args")
	out := []N{}
	for n := 1 + g.pick(2); n > 0; n-- {
		if g.chance(3) && !g.noArgErr {
			g.tag("argerr")
			out = append(out, id(g.fresh("nope"))) // the error is raised inside the argument
		} else {
			out = append(out, g.argExpr())
		}
	}
	return out
}

// Carriers lists the forms of carrier(): expressions that evaluate to the value of a given
// expression and on the way record a position of their own (a call, a member access, an operator,
// an assignment, a construction), later than and - as a right operand, a key, an assigned value -
// elsewhere than the first token of the expression they are an operand of.
var Carriers = []string{"call", "dotcall", "seq-call", "seq-dot", "seq-idx", "seq-bin", "seq-rel", "seq-asg", "asg",
	"arr-idx", "obj-dot", "cond", "and", "or", "seq-new", "nested"}

// carrier: the globals z, ID (the identity function), AD, ao, ax, ay, aw are declared at the top of
// every program.  None of the forms can raise.
func (g *gen) carrier(v N, depth int) N {
	k := g.pick(len(Carriers))
	g.tag("carrier:" + Carriers[k])
	seq := func(first N) N { return c01.Bin(",", first, v) }
	switch Carriers[k] {
	case "call":
		return c01.Call(id("ID"), v)
	case "dotcall":
		return c01.Call(c01.Dot(id("ID"), "call"), c01.Null(), v)
	case "seq-call":
		return seq(c01.Call(id("z")))
	case "seq-dot":
		return seq(c01.Dot(id("ao"), "p"))
	case "seq-idx":
		return seq(c01.Dot(c01.Idx(id("ao"), str("q")), "r"))
	case "seq-bin":
		return seq(c01.Bin("+", id("ax"), id("ay")))
	case "seq-rel":
		return seq(c01.Bin("<", id("ax"), c01.Dot(id("ao"), "p")))
	case "seq-asg":
		return seq(c01.Asg("=", id("ax"), num(1+g.pick(4))))
	case "asg":
		return c01.Asg("=", id("aw"), v)
	case "arr-idx":
		return c01.Idx(c01.Arr(v), num(0))
	case "obj-dot":
		return c01.Dot(c01.Obj("k", v), "k")
	case "cond":
		return c01.Cond(c01.Dot(id("ao"), "p"), v, num(0))
	case "and":
		return c01.Bin("&&", c01.Dot(id("ao"), "p"), v)
	case "or":
		return c01.Bin("||", c01.Dot(id("ao"), "nothing"), v)
	case "seq-new":
		return seq(c01.New(id("AD"), c01.Dot(id("ao"), "p")))
	default:
		if depth >= 2 {
			return c01.Call(id("ID"), v)
		}
		return c01.Call(id("ID"), g.carrier(v, depth+1))
	}
}

// operand: an operand (of a binary operator, of an assignment, the object or the key of a member
// expression) - as it is, or carried by an expression that records a position of its own.  The
// position the enclosing expression records (11.8.6-7 TypeError, calls of valueOf / toString,
// getters and setters, 15.4.5.1 RangeError) is applied after its operands are evaluated and must
// still be its own.
func (g *gen) operand(v N) N {
	if g.chance(40) {
		return v
	}
	g.tag("operand")
	return g.carrier(v, 0)
}

// member: the member expression o.name / o["name"] with the object and the key as operands
func (g *gen) member(o N, name string) N {
	switch g.pick(4) {
	case 0:
		return c01.Dot(o, name)
	case 1:
		return c01.Dot(g.operand(o), name)
	case 2:
		return c01.Idx(o, g.operand(str(name)))
	default:
		return c01.Idx(g.operand(o), g.operand(str(name)))
	}
}

// operators that convert an object operand with [[DefaultValue]] (11.5 - 11.10)
var convOps = []string{"+", "-", "*", "%", "<", ">", "<=", ">=", "==", "!=", "&", "|", "^", "<<", ">>", ">>>"}

// convExpr: o op n or n op o for an operator that converts the object operand o
func (g *gen) convExpr(o N) N {
	op := convOps[g.pick(len(convOps))]
	if g.chance(50) {
		return g.binOperands(op, o, num(1+g.pick(4)))
	}
	return g.binOperands(op, num(1+g.pick(4)), o)
}

// binOperands: l op r or r op l, each operand possibly carried
func (g *gen) binOperands(op string, l, r N) N {
	l, r = g.operand(l), g.operand(r)
	return c01.Bin(op, l, r)
}

// errValue: what name / message are overwritten with
func (g *gen) errValue() N {
	switch g.pick(9) {
	case 0, 1:
		return c01.Undefined()
	case 2:
		return c01.Null()
	case 3:
		return num([]int{0, 5, -1}[g.pick(3)])
	case 4:
		return str("")
	case 5:
		return c01.Bool(g.chance(50))
	default:
		return str([]string{"Foo", "bar", "MyError", "x: y"}[g.pick(4)])
	}
}

// modify returns a statement that changes what 15.11.4.4 reads from the error value e:
// its own name / message, or those of its prototype or of Error.prototype, overwritten with a
// value of every primitive type or deleted.
func (g *gen) modify(e N) N {
	ev := func() N { return id(ustr(e["n"])) }
	proto := func() N { return c01.Call(c01.Dot(id("Object"), "getPrototypeOf"), ev()) }
	errProto := func() N { return c01.Dot(id("Error"), "prototype") }
	prop := []string{"name", "message"}[g.pick(2)]
	switch g.pick(10) {
	case 0, 1, 2:
		return c01.Expr(c01.Asg("=", c01.Dot(ev(), prop), g.errValue()))
	case 3:
		return c01.Expr(c01.Un("delete", c01.Dot(ev(), prop)))
	case 4:
		return c01.Expr(c01.Asg("=", c01.Dot(proto(), prop), g.errValue()))
	case 5:
		return c01.Expr(c01.Un("delete", c01.Dot(proto(), prop)))
	case 6:
		return c01.Expr(c01.Asg("=", c01.Dot(errProto(), prop), g.errValue()))
	case 7:
		return c01.Expr(c01.Un("delete", c01.Dot(errProto(), prop)))
	case 8:
		return c01.Expr(c01.Asg("=", c01.Idx(ev(), str(prop)), c01.Undefined()))
	default:
		return c01.Expr(c01.Call(id("z")))
	}
}

// errorConstruct returns statements (to be placed in one body) the last of which raises.
func (g *gen) errorConstruct(kind string) []N {
	g.tag("err:" + kind)
	h := func(e N) N { return c01.Expr(c01.Call(id("H"), e)) }
	switch kind {
	case "unres":
		n := g.fresh("nope")
		switch g.pick(6) {
		case 0:
			return []N{c01.Expr(id(n))}
		case 1:
			return []N{c01.Expr(c01.Bin("+", g.operand(num(1)), id(n)))}
		case 2:
			return []N{c01.Var(g.fresh("t"), id(n))}
		case 3:
			return []N{h(id(n))}
		case 4:
			return []N{c01.Expr(c01.Asg("+", id(n), num(1)))}
		default:
			return []N{c01.Expr(c01.Upd("++", false, id(n)))}
		}
	case "callnf":
		o, x := g.fresh("o"), g.fresh("x")
		switch g.pick(6) {
		case 0:
			return []N{c01.Var(o, c01.Obj()), c01.Expr(c01.Call(g.member(id(o), "m"), g.args()...))}
		case 1:
			return []N{c01.Var(x, num(5)), c01.Expr(c01.Call(id(x), g.args()...))}
		case 2:
			return []N{c01.Var(o, c01.Obj()), c01.Expr(c01.Call(c01.Idx(id(o), g.operand(str("m"))), num(1)))}
		case 3:
			g.tag("nonref")
			return []N{c01.Expr(c01.Call(c01.Bin(",", num(0), num(5))))}
		case 4:
			g.tag("nonref")
			return []N{c01.Expr(c01.Call(c01.Call(id("z"))))}
		default:
			return []N{c01.Var(x, c01.Null()), h(c01.Call(id(x), num(2)))}
		}
	case "propundef":
		u, o := g.fresh("u"), g.fresh("o")
		var decl N
		if g.chance(50) {
			decl = c01.Var(u, nil)
		} else {
			decl = c01.Var(u, c01.Null())
		}
		switch g.pick(6) {
		case 0:
			return []N{decl, c01.Expr(g.member(id(u), "p"))}
		case 1:
			return []N{decl, c01.Expr(c01.Idx(id(u), g.operand(str("p"))))}
		case 2:
			return []N{c01.Var(o, c01.Obj()), c01.Expr(c01.Dot(c01.Dot(id(o), "a"), "b"))}
		case 3:
			return []N{decl, c01.Expr(c01.Asg("=", g.member(id(u), "p"), g.operand(num(1))))}
		case 4:
			return []N{decl, c01.Expr(c01.Call(c01.Dot(id(u), "p")))}
		default:
			return []N{decl, h(c01.Bin("+", num(1), c01.Idx(id(u), str("q"))))}
		}
	case "newnf":
		x, o := g.fresh("x"), g.fresh("o")
		switch g.pick(3) {
		case 0:
			return []N{c01.Var(x, num(5)), c01.Expr(c01.New(id(x), g.args()...))}
		case 1:
			return []N{c01.Var(o, c01.Obj()), c01.Expr(c01.New(c01.Dot(id(o), "m"), num(1)))}
		default:
			return []N{c01.Var(o, c01.Obj()), c01.Var(g.fresh("t"), c01.New(id(o)))}
		}
	case "instof":
		// 11.8.6 step 5-6 / 11.8.7 step 5: the right operand is not an object (instanceof: or has no
		// [[HasInstance]]) x both operands as they are or carried by a position-recording expression
		o := g.fresh("o")
		decl := c01.Var(o, c01.Obj())
		var e N
		if g.chance(50) {
			ls := []N{id(o), num(1), str("a"), c01.Null(), c01.Obj()}
			rs := []N{num(5), str("b"), c01.Bool(true), c01.Null(), c01.Undefined(), id(o), c01.Arr(), c01.Obj("a", num(1))}
			e = g.binOperands("instanceof", ls[g.pick(len(ls))], rs[g.pick(len(rs))])
		} else {
			ls := []N{str("a"), num(0), str("length"), id(o)}
			rs := []N{num(5), str("b"), c01.Bool(false), c01.Null(), c01.Undefined()}
			e = g.binOperands("in", ls[g.pick(len(ls))], rs[g.pick(len(rs))])
		}
		switch g.pick(4) {
		case 0:
			return []N{decl, h(e)}
		case 1:
			return []N{decl, c01.Var(g.fresh("t"), e)}
		default:
			return []N{decl, c01.Expr(e)}
		}
	case "arrlen":
		// 15.4.5.1 step 3.c: the RangeError is raised where the assignment is applied, after the
		// object, the key and the assigned value (each possibly carried) are evaluated
		a := g.fresh("a")
		bad := func() N { return g.operand(num([]int{-1, -2, -7}[g.pick(3)])) }
		switch g.pick(5) {
		case 0:
			return []N{c01.Var(a, c01.Arr(num(1))), c01.Expr(c01.Asg("=", c01.Dot(id(a), "length"), bad()))}
		case 1:
			return []N{c01.Var(a, c01.Arr()), c01.Expr(c01.Asg("=", c01.Idx(id(a), str("length")), bad()))}
		case 2:
			return []N{c01.Var(a, c01.Arr(num(1), num(2))), c01.Expr(c01.Asg("=", g.member(id(a), "length"), bad()))}
		case 3:
			// compound assignment: 2 - 5, 2 * -1 ... is not an array length
			op, v := "-", 5
			if g.chance(50) {
				op, v = "*", -1
			}
			return []N{c01.Var(a, c01.Arr(num(1), num(2))), c01.Expr(c01.Asg(op, g.member(id(a), "length"), g.operand(num(v))))}
		default:
			return []N{c01.Var(a, c01.Arr(num(1), num(2))),
				c01.Expr(c01.Call(c01.Dot(id("Object"), "defineProperty"), id(a), str("length"), c01.Obj("value", num(-1))))}
		}
	case "numfmt":
		type nf struct {
			m string
			a int
		}
		// only arguments for which the implementation does not extend the range (15.7.4.5-7 permit extensions)
		cases := []nf{{"toString", 1}, {"toString", 37}, {"toString", 0}, {"toString", -2}, {"toFixed", -1}, {"toFixed", 21}, {"toFixed", 101},
			{"toExponential", -1}, {"toPrecision", 0}, {"toPrecision", -1}}
		c := cases[g.pick(len(cases))]
		if g.chance(50) {
			return []N{c01.Expr(c01.Call(c01.Dot(num(5), c.m), num(c.a)))}
		}
		n := g.fresh("n")
		return []N{c01.Var(n, num(7)), c01.Var(g.fresh("t"), c01.Call(c01.Dot(id(n), c.m), num(c.a)))}
	case "evalsyn":
		switch g.pick(8) {
		case 0, 1, 2:
			return []N{c01.Expr(evalBad(true, badTexts[g.pick(len(badTexts))], "syntax"))}
		case 3:
			g.tag("nonref")
			return []N{c01.Expr(evalBad(false, badTexts[g.pick(len(badTexts))], "syntax"))}
		case 4:
			g.tag("lhs")
			return []N{c01.Expr(evalBad(true, lhsTexts[g.pick(len(lhsTexts))], "lhs"))}
		case 5:
			return []N{c01.Expr(fnCtorBad(true, badTexts[g.pick(len(badTexts)-2)], "syntax"))}
		case 6:
			return []N{c01.Var(g.fresh("t"), fnCtorBad(false, badTexts[g.pick(len(badTexts)-2)], "syntax"))}
		default:
			g.tag("lhs")
			return []N{c01.Expr(fnCtorBad(g.chance(50), lhsTexts[g.pick(2)], "lhs"))}
		}
	case "jsoncyc":
		c := g.fresh("c")
		stringify := func(v N) N { return c01.Expr(c01.Call(c01.Dot(id("JSON"), "stringify"), v)) }
		switch g.pick(3) {
		case 0:
			return []N{c01.Var(c, c01.Obj()), c01.Expr(c01.Asg("=", c01.Dot(id(c), "c"), id(c))), stringify(id(c))}
		case 1:
			return []N{c01.Var(c, c01.Arr(num(1))), c01.Expr(c01.Asg("=", c01.Idx(id(c), num(1)), id(c))), stringify(id(c))}
		default:
			return []N{c01.Var(c, c01.Obj("a", num(1))), c01.Expr(c01.Asg("=", c01.Dot(id(c), "b"), c01.Obj("x", c01.Arr(id(c))))), stringify(c01.Obj("k", id(c)))}
		}
	case "thrown":
		cls := errClasses[g.pick(len(errClasses))]
		msgs := []string{"abc", "", "x: y", "msg with spaces"}
		switch g.pick(12) {
		case 10:
			// the message is computed by a position-recording argument expression
			g.tag("args")
			return []N{c01.Throw(c01.New(id(cls), c01.Bin("+", str("bad value: "), c01.Dot(id("ao"), "p"))))}
		case 11:
			g.tag("args")
			return []N{c01.Throw(c01.New(id(cls), c01.Call(id("H"), str("m")), g.argExpr()))}
		case 0, 1:
			return []N{c01.Throw(c01.New(id(cls), str(msgs[g.pick(len(msgs))])))}
		case 2:
			return []N{c01.Throw(c01.New(id(cls)))}
		case 3:
			return []N{c01.Throw(c01.New(id(cls), num(42)))}
		case 4:
			// created at the top of the program, thrown here: the trace is the one of its creation
			g.tag("precreated")
			e := g.fresh("pe")
			g.pre = append(g.pre, c01.Var(e, c01.New(id(cls), str(msgs[g.pick(len(msgs))]))))
			return []N{c01.Throw(id(e))}
		default:
			// an error object created here, modified, then thrown
			e := g.fresh("e")
			out := []N{c01.Var(e, c01.New(id(cls), str(msgs[g.pick(len(msgs))])))}
			g.tag("modified")
			for k := 0; k < 1+g.pick(2); k++ {
				if g.chance(60) {
					out = append(out, g.modify(id(e)))
					continue
				}
				switch g.pick(7) {
				case 0:
					out = append(out, c01.Expr(c01.Asg("=", c01.Dot(id(e), "name"), str([]string{"Foo", "", "MyError"}[g.pick(3)]))))
				case 1:
					out = append(out, c01.Expr(c01.Asg("=", c01.Dot(id(e), "message"), str([]string{"bar", "", "changed"}[g.pick(3)]))))
				case 2:
					out = append(out, c01.Expr(c01.Un("delete", c01.Dot(id(e), "message"))))
				case 3:
					out = append(out, c01.Expr(c01.Asg("=", c01.Dot(id(e), "message"), num(5))))
				case 4:
					out = append(out, c01.Expr(c01.Asg("=", c01.Dot(c01.Dot(id(cls), "prototype"), "name"), str("Zed"))))
				case 5:
					out = append(out, c01.Expr(c01.Asg("=", c01.Dot(c01.Dot(id("Error"), "prototype"), "message"), str("inherited"))))
				default:
					out = append(out, c01.Expr(c01.Call(id("z"))))
				}
			}
			return append(out, c01.Throw(id(e)))
		}
	case "misc":
		// other TypeErrors the interpreter or a built-in raises itself (15.2.3, 15.3.4.3-5, 15.3.5.3, 8.12.8)
		o, f := g.fresh("o"), g.fresh("F")
		obj := func(m string, args ...N) N { return c01.Expr(c01.Call(c01.Dot(id("Object"), m), args...)) }
		switch g.pick(9) {
		case 0:
			return []N{obj("getPrototypeOf", num(1))}
		case 1:
			return []N{obj("create", num(1))}
		case 2:
			return []N{obj("defineProperty", num(1), str("a"), c01.Obj())}
		case 3:
			return []N{obj("defineProperty", c01.Obj(), str("a"), c01.Obj("get", num(1)))}
		case 4:
			return []N{obj("keys", c01.Null())}
		case 5:
			return []N{c01.Var(f, c01.Fn("", nil)), c01.Expr(c01.Call(c01.Dot(id(f), "apply"), c01.Null(), num(1)))}
		case 6:
			return []N{c01.Expr(c01.Call(c01.Dot(c01.Dot(id("z"), "call"), "call"), num(1)))}
		case 7:
			ret := func() N { return c01.Fn("", nil, c01.Return(c01.Obj())) }
			return []N{c01.Var(o, c01.Obj("toString", ret(), "valueOf", ret())), c01.Expr(g.convExpr(id(o)))}
		default:
			return []N{c01.Var(f, c01.Fn("", nil)), c01.Expr(c01.Asg("=", c01.Dot(id(f), "prototype"), num(1))),
				c01.Expr(g.binOperands("instanceof", c01.Obj(), id(f)))}
		}
	case "throwprim":
		vs := []N{num(5), str("s"), c01.Null(), c01.Bool(true), num(-1), str("")}
		return []N{c01.Throw(vs[g.pick(len(vs))])}
	}
	panic("unknown error kind " + kind)
}

// filler returns 0..2 statements that cannot raise but move positions around.
func (g *gen) filler(inEvalOK bool) []N {
	out := []N{}
	for g.chance(45) && len(out) < 3 {
		switch g.pick(8) {
		case 0, 1, 2:
			out = append(out, c01.Expr(c01.Call(id("z"))))
		case 3:
			out = append(out, c01.Var(g.fresh("t"), num(g.pick(5))))
		case 4:
			out = append(out, c01.Var(g.fresh("s"), rawStr([]string{"é", "€€", "\U0001F600", "ab"}[g.pick(4)])))
		case 5:
			q := g.fresh("q")
			out = append(out, c01.Try([]N{c01.Expr(id(g.fresh("nope")))}, q, []N{}, true, nil, false))
		case 6:
			if inEvalOK {
				g.tag("evalfiller")
				out = append(out, c01.Expr(c01.EvalCall(true, c01.Expr(num(1)), c01.Expr(num(2)))))
			}
		default:
			out = append(out, c01.Expr(c01.Call(id("H"), num(g.pick(3)))))
		}
	}
	return out
}

// context wraps body into a callable of the kind and returns the declarations
// to put before the invocation, and the invocation expression.
func (g *gen) context(kind string, body []N) (decls []N, inv N) {
	g.tag("ctx:" + kind)
	f := g.fresh("f")
	switch kind {
	case "fdecl":
		return []N{c01.FDecl(f, nil, body...)}, c01.Call(id(f), g.args()...)
	case "fexpr":
		return []N{c01.Var(f, c01.Fn("", nil, body...))}, c01.Call(id(f), g.args()...)
	case "nfe":
		return []N{c01.Var(f, c01.Fn(g.fresh("n"), nil, body...))}, c01.Call(id(f), g.args()...)
	case "mdot":
		return []N{c01.Var(f, c01.Obj("m", c01.Fn("", nil, body...)))}, c01.Call(g.member(id(f), "m"), g.args()...)
	case "midx":
		return []N{c01.Var(f, c01.Obj("m", c01.Fn(g.fresh("n"), nil, body...)))}, c01.Call(c01.Idx(id(f), g.operand(str("m"))), g.args()...)
	case "ctor":
		if g.chance(50) {
			// the constructor is reached through a member expression: new o.C(args)
			return []N{c01.Var(f, c01.Obj("C", c01.Fn(g.fresh("C"), nil, body...)))}, c01.New(c01.Dot(id(f), "C"), g.args()...)
		}
		return []N{c01.FDecl(f, nil, body...)}, c01.New(id(f), g.args()...)
	case "bound":
		b := g.fresh("b")
		return []N{c01.FDecl(f, nil, body...), c01.Var(b, c01.Call(c01.Dot(id(f), "bind"), c01.Null()))}, c01.Call(id(b), g.args()...)
	case "call":
		return []N{c01.FDecl(f, nil, body...)}, c01.Call(c01.Dot(id(f), "call"), append([]N{c01.Null()}, g.args()...)...)
	case "apply":
		return []N{c01.FDecl(f, nil, body...)}, c01.Call(c01.Dot(id(f), "apply"), c01.Null(), c01.Arr())
	case "foreach":
		return nil, c01.Call(c01.Dot(c01.Arr(num(0)), "forEach"), c01.Fn(g.fresh("cb"), nil, body...))
	case "hostcb":
		return nil, c01.Call(id("CB"), c01.Fn(g.fresh("cb"), nil, body...))
	case "deval":
		return nil, c01.EvalCall(true, body...)
	case "ieval":
		g.tag("nonref")
		return nil, c01.EvalCall(false, body...)
	case "getter":
		return []N{c01.Var(f, c01.WithAccessor(c01.Obj(), "get", "p", c01.Fn("", nil, body...)))}, g.member(id(f), "p")
	case "setter":
		return []N{c01.Var(f, c01.WithAccessor(c01.Obj(), "set", "p", c01.Fn("", []string{"v"}, body...)))},
			c01.Asg([]string{"=", "=", "+", "-"}[g.pick(4)], g.member(id(f), "p"), g.operand(num(1+g.pick(3))))
	case "valueof":
		b := append(append([]N{}, body...), c01.Return(num(1)))
		// the conversion is called by any operator of 11.5 - 11.10, from either side; with toString only,
		// [[DefaultValue]] (8.12.8) goes through the inherited valueOf first
		conv := "valueOf"
		if g.chance(30) {
			conv = "toString"
		}
		return []N{c01.Var(f, c01.Obj(conv, c01.Fn("", nil, b...)))}, g.convExpr(id(f))
	case "iife":
		g.tag("nonref")
		return nil, c01.Call(c01.Fn("", nil, body...))
	case "callres":
		g.tag("nonref")
		return []N{c01.FDecl(f, nil, c01.Return(c01.Fn(g.fresh("inner"), nil, body...)))}, c01.Call(c01.Call(id(f)))
	}
	panic("unknown context kind " + kind)
}

func isEvalCtx(kind string) bool { return kind == "deval" || kind == "ieval" }

// probes observes a caught value (catch parameter e).
func (g *gen) probes(prim bool, scripted bool) []N {
	h := func(e N) N { return c01.Expr(c01.Call(id("H"), e)) }
	if prim {
		return []N{h(id("e")), h(c01.Un("typeof", id("e")))}
	}
	out := []N{h(c01.Dot(id("e"), "name"))}
	for _, c := range []string{"TypeError", "ReferenceError", "RangeError", "SyntaxError", "Error"} {
		out = append(out, h(c01.Bin("instanceof", id("e"), id(c))))
		out = append(out, h(c01.Bin("===", c01.Call(c01.Dot(id("Object"), "getPrototypeOf"), id("e")), c01.Dot(id(c), "prototype"))))
	}
	out = append(out, h(c01.Call(id("M"), id("e"))))
	if scripted {
		out = append(out, h(c01.Dot(id("e"), "message")))
	}
	return out
}

// Scenario is one generated program.
type Scenario struct {
	Prog   []N
	TLimit int
	Tags   []string
}

func (g *gen) scenario(i int) Scenario {
	g.tags = nil
	g.pre = nil
	g.uniq = 0
	kind := ErrKinds[i%len(ErrKinds)]
	if g.chance(20) {
		kind = ErrKinds[g.pick(len(ErrKinds))]
	}
	depth := g.pick(5)
	prim, scripted := kind == "throwprim", kind == "thrown"
	g.noArgErr = scripted
	body := append(g.filler(true), g.errorConstruct(kind)...)
	catchLevel := -1
	if g.chance(55) {
		catchLevel = g.pick(depth + 1) // 0 = around the construct itself
	}
	wrapCatch := func(stmts []N, inFn bool) []N {
		g.tag("catch")
		handler := g.probes(prim, scripted)
		if !prim && g.chance(35) {
			// the caught value (constructor-made or raised by the interpreter) is changed, then thrown again
			g.tag("modify-rethrow")
			for k := 0; k < 1+g.pick(2); k++ {
				handler = append(handler, g.modify(id("e")))
			}
			handler = append(handler, c01.Throw(id("e")))
			return []N{c01.Try(stmts, "e", handler, true, nil, false)}
		}
		switch g.pick(4) {
		case 0:
			g.tag("rethrow")
			handler = append(handler, c01.Throw(id("e")))
		case 1:
			g.tag("second")
			k2 := []string{"instof", "unres", "arrlen", "propundef", "callnf"}[g.pick(5)]
			handler = append(handler, g.filler(false)...)
			handler = append(handler, g.errorConstruct(k2)...)
		case 2:
			g.tag("second-after")
			k2 := []string{"instof", "unres", "arrlen", "numfmt"}[g.pick(4)]
			out := []N{c01.Try(stmts, "e", handler, true, nil, false)}
			out = append(out, g.filler(false)...)
			return append(out, g.errorConstruct(k2)...)
		}
		return []N{c01.Try(stmts, "e", handler, true, nil, false)}
	}
	if catchLevel == 0 {
		// declarations of the construct stay outside the try block only when they are plain statements: keep all inside
		body = wrapCatch(body, depth > 0)
	}
	kinds := make([]string, depth)
	for l := range kinds {
		kinds[l] = CtxKinds[g.pick(len(CtxKinds))]
		// An error leaves the Go function CB as a Go panic carrying the *otto.Error; that is sound only when
		// Run returns it (a script catch block receives a converted value, and a thrown primitive has no
		// *otto.Error at all - both are matters of the Go bridge, property C16): CB is used only where the
		// exception is caught inside it or not at all, and never for thrown primitives.
		for kinds[l] == "hostcb" && (prim || (catchLevel > depth-l-1 && catchLevel >= 0)) {
			kinds[l] = CtxKinds[g.pick(len(CtxKinds))]
		}
	}
	// build from the innermost context (index depth-1) outwards
	for l := depth - 1; l >= 0; l-- {
		decls, inv := g.context(kinds[l], body)
		// the statement that holds the invocation lives in the body of context l-1 (or the program)
		inFn := l > 0 && !isEvalCtx(kinds[l-1])
		var st N
		switch x := g.pick(5); {
		case x == 0 && inFn:
			st = c01.Return(inv)
		case x == 1:
			st = c01.Var(g.fresh("r"), inv)
		case x == 2:
			st = c01.Expr(c01.Call(id("H"), inv))
		default:
			st = c01.Expr(inv)
		}
		stmts := []N{st}
		if catchLevel == depth-l {
			stmts = wrapCatch(stmts, inFn)
		}
		body = append(append(g.filler(true), decls...), stmts...)
		if g.chance(20) {
			body = append(body, c01.Expr(c01.Call(id("z"))))
		}
	}
	head := []N{c01.FDecl("z", nil), c01.FDecl("AD", nil), c01.FDecl("ID", []string{"v"}, c01.Return(id("v"))), c01.Var("aw", nil),
		c01.Var("ao", c01.Obj("p", num(1), "q", c01.Obj("r", num(2)))), c01.Var("ax", num(1)), c01.Var("ay", num(2))}
	prog := append(append(head, g.pre...), body...)
	limits := []int{10, 10, 10, 0, 1, 2, 3, 4, 5, 6, 7, 8, 9, 11, 12, depth + 1, depth + 2, depth, 2, 1}
	tl := limits[g.pick(len(limits))]
	if tl < 0 {
		tl = 0
	}
	return Scenario{Prog: prog, TLimit: tl, Tags: append([]string{}, g.tags...)}
}
