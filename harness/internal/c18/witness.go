package c18

import (
	"errors"
	"fmt"
	"strings"

	"github.com/robertkrimen/otto"

	"verif/harness/internal/core"
)

func init() {
	// D18_host_panic_go_error_skips_finally: a host function panics with a Go error value inside
	// try/catch/finally; the witness reports which blocks of the script ran.
	core.GoWitnesses["c18_host_panic_go_error"] = func() (res string, err error) {
		vm := otto.New()
		var log []string
		vm.Set("L", func(call otto.FunctionCall) otto.Value {
			log = append(log, call.Argument(0).String())
			return otto.UndefinedValue()
		})
		vm.Set("P", func(call otto.FunctionCall) otto.Value { panic(errors.New("boom")) })
		defer func() {
			if p := recover(); p != nil {
				res = fmt.Sprintf("%s; GO PANIC %v", strings.Join(log, ","), p)
			}
		}()
		_, e := vm.Run(`try { try { P() } catch (e) { L("inner catch") } finally { L("inner finally") } } catch (e2) { L("outer catch " + (e2 instanceof TypeError)) } finally { L("outer finally") }`)
		if e != nil {
			return fmt.Sprintf("%s; error %v", strings.Join(log, ","), e), nil
		}
		return strings.Join(log, ","), nil
	}
	// D18_interrupt_in_tostring_of_struct_field_store: global code stores an object into a string
	// field of a bridged struct; its toString arms the interrupt (a function that panics with the
	// Go string "halt") and loops.  The witness reports what the script logged and how Run ended.
	core.GoWitnesses["c18_interrupt_struct_string_field"] = func() (res string, err error) {
		vm := otto.New()
		vm.Interrupt = make(chan func(), 1)
		var log []string
		vm.Set("L", func(call otto.FunctionCall) otto.Value {
			log = append(log, call.Argument(0).String())
			return otto.UndefinedValue()
		})
		vm.Set("arm", func(call otto.FunctionCall) otto.Value {
			vm.Interrupt <- func() { panic("halt") }
			return otto.UndefinedValue()
		})
		vm.Set("gp", &bridgeSt{1, "s"})
		defer func() {
			if p := recover(); p != nil {
				res = fmt.Sprintf("%s; GO PANIC %v", strings.Join(log, ","), p)
			}
		}()
		_, e := vm.Run(`try { gp.S = {toString: function(){ arm(); for (var i = 0; i < 1000; i++) {} return "t" }}; L("after") } catch (e) { L("catch " + e) } finally { L("finally") }; L("end")`)
		if e != nil {
			return fmt.Sprintf("%s; error %v", strings.Join(log, ","), e), nil
		}
		return strings.Join(log, ",") + "; returned", nil
	}
}
