// Package c18: interrupts and abnormal exits (spec/C18.tla judges).
package c18

import (
	"bytes"
	"encoding/json"
	"errors"
	"fmt"
	"os"
	"strings"
	"sync"
	"time"

	"github.com/robertkrimen/otto"
	"github.com/robertkrimen/otto/ast"
	"github.com/robertkrimen/otto/parser"

	"verif/harness/internal/c01"
	"verif/harness/internal/core"
	"verif/harness/internal/tlc"
)

// per-runtime hook state (otto.VerifStep is a package-level hook)
type hookState struct {
	paused  bool // preparation (declaring main, compiling) is not part of the observed run
	count   int
	armAt   int
	fired   int // poll count at which the interrupt function ran (0 = never)
	payload any
}

var hooks sync.Map // *otto.Otto -> *hookState

func init() {
	otto.VerifStep = func(o *otto.Otto, kind int) {
		v, ok := hooks.Load(o)
		if !ok {
			return
		}
		h := v.(*hookState)
		if h.paused {
			return
		}
		h.count++
		if h.count == h.armAt {
			o.Interrupt <- func() {
				h.fired = h.count
				panic(h.payload)
			}
		}
	}
}

type payloadT struct{ tag string }

// payloadOf: the value the interrupt function panics with.  Whatever its kind - a Go pointer,
// string or error, an otto Value, the *otto.Error of an earlier API call - Run must unwind with
// exactly that value (it is not a JavaScript exception, even when it looks like one).
var sampleOttoError = func() error { _, err := otto.New().Run(`throw new TypeError("halt-error")`); return err }()

func samePayload(p, payload any) bool {
	if e, ok := payload.(error); ok && e != sampleOttoError {
		pe, ok := p.(error)
		return ok && pe.Error() == e.Error()
	}
	return p == payload
}

func payloadOf(k int) any {
	switch k % 5 {
	case 1:
		return fmt.Sprintf("halt-%d", k)
	case 2:
		return fmt.Errorf("halt-%d", k)
	case 3:
		v, _ := otto.ToValue(fmt.Sprintf("halt-value-%d", k))
		return v
	case 4:
		return sampleOttoError
	}
	return &payloadT{fmt.Sprintf("halt-%d", k)}
}

type injection struct {
	Route     string  `json:"route"`
	K         int     `json:"k"`
	Delivered bool    `json:"delivered"`
	Panicked  bool    `json:"panicked"`
	Log       [][]any `json:"log"`
	Depth     int     `json:"depth"`
	Labels    int     `json:"labels"`
	Fl        c01.Obs `json:"fl"`
}

// fullRun: P started through `route` and run to its end, then Q on the same runtime.
type fullRun struct {
	Route  string  `json:"route"`
	First  c01.Obs `json:"first"`
	Second c01.Obs `json:"second"`
	Depth  int     `json:"depth"`
	Labels int     `json:"labels"`
}

// hostPanic: P started through `route`, the host function H panics at its k-th call of the run.
type hostPanic struct {
	Route     string  `json:"route"`
	K         int     `json:"k"`
	Delivered bool    `json:"delivered"`
	GoPanic   bool    `json:"gopanic"` // the panic left the entry point (nothing in the script caught it)
	First     c01.Obs `json:"first"`
	Depth     int     `json:"depth"`
	Labels    int     `json:"labels"`
	Fl        c01.Obs `json:"fl"`
}

type traceLine struct {
	ID     int         `json:"id"`
	Prog   []c01.N     `json:"prog"` // the program equivalent to the entry (see spec/C18.tla)
	Follow []c01.N     `json:"follow"`
	Limit  int         `json:"limit"`  // stack depth limit of the equivalent program
	FLimit int         `json:"flimit"` // stack depth limit of the runtime while the follow-up runs
	Eval   bool        `json:"eval"`   // P is eval code (Otto.Eval on the runtime at rest)
	Fulls  []fullRun   `json:"fulls"`
	Ints   []injection `json:"ints"`
	HPs    []hostPanic `json:"hps"`
}

// the value a panicking host function panics with (ES5Core CallIn, kind host: "boom")
const hostPanicValue = "boom"

// probeLimit: the stack depth limit configured before the follow-up when the program ran without one
const probeLimit = 5

// follow-up program: observes the globals the programs use and exercises
// calls, try/catch/finally and a loop on the runtime that was just unwound.
func followUp() []c01.N {
	id := c01.Id
	return []c01.N{
		c01.Expr(c01.Call(id("H"), c01.Un("typeof", id("a")), id("a"), c01.Un("typeof", id("b")), id("b"), c01.Un("typeof", id("c")), id("c"), id("n"))),
		c01.Var("zq", c01.Num(0)),
		c01.Expr(c01.Call(c01.Fn("", nil,
			c01.Try([]c01.N{c01.Throw(c01.Num(1))}, "e", []c01.N{c01.Expr(c01.Call(id("H"), id("e")))}, true, []c01.N{c01.Expr(c01.Call(id("H"), c01.Num(2)))}, true),
			c01.For(c01.Var("i", c01.Num(0)), c01.Bin("<", id("i"), c01.Num(2)), c01.Upd("++", false, id("i")), c01.Block(c01.Expr(c01.Asg("+", id("zq"), id("i"))))),
			c01.Return(id("zq"))))),
		// the nesting the runtime admits now (a stack depth limit is always configured while the follow-up runs):
		// after any exit the limit admits exactly the configured nesting
		c01.Var("zn", c01.Num(0)),
		c01.FDecl("zp", nil, c01.Expr(c01.Upd("++", false, id("zn"))), c01.Expr(c01.Call(id("zp")))),
		c01.Try([]c01.N{c01.Expr(c01.Call(id("zp")))}, "e",
			[]c01.N{c01.Expr(c01.Call(id("H"), c01.Str("nest"), id("zn"), c01.Bin("instanceof", id("e"), id("RangeError"))))}, true, nil, false),
	}
}

// recursion builds statements that recurse to depths around the limit through
// different call forms, catch the RangeError and carry on.
func recursion(limit, variant int) []c01.N {
	id, num := c01.Id, c01.Num
	call := func(d int) c01.N {
		switch variant % 4 {
		case 0:
			return c01.Call(id("rec"), num(d))
		case 1:
			return c01.Call(c01.Dot(id("rec"), "call"), c01.Null(), num(d))
		case 2:
			return c01.Call(c01.Call(c01.Dot(id("rec"), "bind"), c01.Null()), num(d))
		default:
			return c01.Call(c01.Dot(c01.Obj("m", id("rec")), "m"), num(d))
		}
	}
	// the recursive step itself also takes every call form: each re-entry (eval code entering the
	// global context again, a built-in calling back, an accessor) must count towards the limit
	dm1 := c01.Bin("-", id("d"), num(1))
	var pre []c01.N
	var step c01.N
	switch (variant / 4) % 7 {
	case 0:
		step = c01.Call(id("rec"), dm1)
	case 1:
		step = c01.Call(c01.Dot(id("rec"), "call"), c01.Null(), dm1)
	case 2:
		step = c01.Call(c01.Dot(id("rec"), "apply"), c01.Null(), c01.Arr(dm1))
	case 3:
		step = c01.Call(c01.Call(c01.Dot(id("rec"), "bind"), c01.Null(), dm1))
	case 4: // direct eval: runs in the calling context
		step = c01.EvalCall(true, c01.Expr(c01.Call(id("rec"), dm1)))
	case 5: // indirect eval: enters the global context again
		pre = []c01.N{c01.Expr(c01.Asg("=", id("gd"), dm1))}
		step = c01.EvalCall(false, c01.Expr(c01.Call(id("rec"), id("gd"))))
	default: // through a getter
		pre = []c01.N{c01.Expr(c01.Asg("=", id("gd"), dm1))}
		step = c01.Dot(c01.WithAccessor(c01.Obj(), "get", "next", c01.Fn("", nil, c01.Return(c01.Call(id("rec"), id("gd"))))), "next")
	}
	body := []c01.N{c01.Expr(c01.Call(id("H"), id("d")))}
	body = append(body, c01.If(c01.Bin(">", id("d"), num(0)), c01.Block(append(pre, c01.Return(c01.Bin("+", num(1), step)))...), nil), c01.Return(num(0)))
	out := []c01.N{c01.Var("gd", num(0)), c01.FDecl("rec", []string{"d"}, body...)}
	for _, d := range []int{limit - 3, limit - 2, limit - 1, limit, limit + 2} {
		if d < 0 {
			continue
		}
		out = append(out, c01.Try([]c01.N{c01.Expr(c01.Call(id("H"), c01.Str("ok"), call(d)))}, "e",
			[]c01.N{c01.Expr(c01.Call(id("H"), c01.Str("caught"), c01.Bin("instanceof", id("e"), id("RangeError"))))}, true, nil, false))
	}
	out = append(out, c01.Expr(call(limit+1))) // uncaught: Run returns the RangeError; the follow-up must still work
	return out
}

// nested builds statements in which Go code (the host function CB) makes an API call while the
// script is running: an interrupt that arrives inside the inner call must unwind the OUTER Run
// too (the script's try statements do not see it); a JavaScript exception of the inner call is an
// ordinary exception of the script.
func nested(variant int) []c01.N {
	id, num, str := c01.Id, c01.Num, c01.Str
	h := func(args ...c01.N) c01.N { return c01.Expr(c01.Call(id("H"), args...)) }
	inner := []c01.N{c01.For(c01.Var("ck", num(0)), c01.Bin("<", id("ck"), num(2)), c01.Upd("++", false, id("ck")),
		c01.Block(h(str("in-cb"), id("ck")), c01.Expr(c01.Upd("++", false, id("cbn")))))}
	switch variant % 4 {
	case 1:
		inner = append(inner, c01.Throw(c01.New(id("TypeError"), str("from-cb"))))
	case 2:
		inner = append(inner, c01.Expr(c01.Call(id("CB"), c01.Fn("", nil, h(str("inner-cb")), c01.Return(num(5))))))
	case 3:
		inner = append(inner, c01.Try([]c01.N{c01.Expr(c01.Call(id("undefinedFunction")))}, "e2", []c01.N{h(str("cb-caught"))}, true, []c01.N{h(str("cb-finally"))}, true))
	}
	inner = append(inner, c01.Return(id("cbn")))
	return []c01.N{c01.Var("cbn", num(0)),
		c01.Try([]c01.N{h(str("r"), c01.Call(id("CB"), c01.Fn("", nil, inner...)))}, "e",
			[]c01.N{h(str("caught"), c01.Bin("instanceof", id("e"), id("TypeError")))}, true, []c01.N{h(str("fin"))}, true),
		h(str("after-cb"), id("cbn"))}
}

// apiCall: a call made from Go on an idle runtime with stack depth limit `limit`, and the program
// that is equivalent to it for the specification: Otto.Call("rec", nil, d) and Value.Call of the
// built-in Function.prototype.call enter a global context first, so they are `rec(d)` /
// `rec.call(null, d)` under the same limit; Value.Call of a script function enters no global
// context (its own context takes that place), which is `rec(d)` under limit + 1.
type apiCall struct {
	form    string
	limit   int // configured on the runtime
	eqLimit int // of the equivalent program
	d       int
	setup   string
	prog    []c01.N
}

func apiCalls() []*apiCall {
	id, num := c01.Id, c01.Num
	decl := c01.FDecl("rec", []string{"d"}, c01.Expr(c01.Call(id("H"), id("d"))),
		c01.If(c01.Bin(">", id("d"), num(0)), c01.Return(c01.Bin("+", num(1), c01.Call(id("rec"), c01.Bin("-", id("d"), num(1))))), nil), c01.Return(num(0)))
	setup := c01.RenderProgram([]c01.N{decl})
	var out []*apiCall
	for _, L := range []int{3, 4, 6} {
		for _, form := range []string{"otto.Call", "Value.Call(script function)", "Value.Call(built-in call)", "Object.Call(built-in call)"} {
			for d := L - 3; d <= L+1; d++ {
				if d < 0 {
					continue
				}
				a := &apiCall{form: form, limit: L, eqLimit: L, d: d, setup: setup}
				call := c01.Call(id("rec"), num(d))
				switch form {
				case "Value.Call(script function)":
					a.eqLimit = L + 1
				case "Value.Call(built-in call)", "Object.Call(built-in call)":
					call = c01.Call(c01.Dot(id("rec"), "call"), c01.Null(), num(d))
				}
				a.prog = []c01.N{decl, c01.Expr(call)}
				out = append(out, a)
			}
		}
	}
	return out
}

// rec is one trace line in the making: a program, the class of entry points it is started
// through (routes that have the same equivalent program for the specification share the line).
type rec struct {
	line   traceLine
	src    string   // what is submitted (run/eval classes), or the body of main (call class)
	setup  string   // run first, not part of the observed run
	routes []string // routes[0] takes every injection point, the others share them in turn (thorough tier: every one)
	api    *apiCall // non-nil: a call made through the API on the idle runtime
	inject bool
	cbMode int
}

var routesOf = map[string][]string{
	"run":  {"source", "script", "program"},
	"eval": {"eval-source", "eval-script"},
	// main is also the getter and the setter of the global accessor property mainA
	"call": {"otto.Call", "Value.Call", "Object.Call", "Otto.Get(getter)", "Otto.Set(setter)", "Object.Get(getter)", "Object.Set(setter)"},
}

// accessorSetup (call class) is part of the preparation only: the follow-up does not look at mainA
const accessorSetup = `Object.defineProperty(this, "mainA", {get: main, set: main, configurable: true, enumerable: false});`

// start submits the line's program through the entry point `route` while the runtime is idle.
func (r *runner) start(rc *rec, route string) (obs c01.Obs, panicked any) {
	// preparation: not part of the observed run (the hook does not count, H does not panic)
	r.hs.paused = true
	hpAt := r.hpAt
	r.hpAt = 0
	var sc *otto.Script
	var prog *ast.Program
	var fn otto.Value
	var obj *otto.Object
	var perr error
	if rc.setup != "" {
		if _, p := r.run(rc.setup); p != nil {
			return c01.Obs{}, p
		}
	}
	switch route {
	case "script", "eval-script":
		sc, perr = r.vm.Compile("", rc.src)
	case "program":
		prog, perr = parser.ParseFile(nil, "", rc.src, 0)
	case "Value.Call":
		fn, perr = r.vm.Get("main")
	case "Object.Call", "Object.Get(getter)", "Object.Set(setter)":
		obj, perr = r.vm.Object("this")
	case "Value.Call(script function)", "Value.Call(built-in call)", "Object.Call(built-in call)":
		fn, perr = r.vm.Get("rec")
	}
	r.hs.paused, r.hs.count, r.hpAt, r.log = false, 0, hpAt, nil
	defer func() {
		if p := recover(); p != nil {
			panicked = p
			obs = c01.Obs{Log: r.log, Thr: []int{}, V: map[string]any{"t": "undef"}}
			if obs.Log == nil {
				obs.Log = [][]any{}
			}
		}
	}()
	var v otto.Value
	err := perr
	if err == nil {
		switch route {
		case "source":
			v, err = r.vm.Run(rc.src)
		case "script":
			v, err = r.vm.Run(sc)
		case "program":
			v, err = r.vm.Run(prog)
		case "eval-source":
			v, err = r.vm.Eval(rc.src)
		case "eval-script":
			v, err = r.vm.Eval(sc)
		case "otto.Call":
			if rc.api != nil {
				v, err = r.vm.Call("rec", nil, rc.api.d)
			} else {
				v, err = r.vm.Call("main", nil)
			}
		case "Value.Call":
			v, err = fn.Call(otto.UndefinedValue())
		case "Object.Call":
			v, err = obj.Call("main")
		case "Otto.Get(getter)":
			v, err = r.vm.Get("mainA")
		case "Otto.Set(setter)":
			err = r.vm.Set("mainA", 1)
		case "Object.Get(getter)":
			v, err = obj.Get("mainA")
		case "Object.Set(setter)":
			err = obj.Set("mainA", 1)
		case "Value.Call(script function)":
			v, err = fn.Call(otto.UndefinedValue(), rc.api.d)
		case "Value.Call(built-in call)":
			callFn, _ := fn.Object().Get("call")
			v, err = callFn.Call(fn, nil, rc.api.d)
		case "Object.Call(built-in call)":
			v, err = fn.Object().Call("call", nil, rc.api.d)
		default:
			err = fmt.Errorf("unknown route %q", route)
		}
	}
	return c01.MakeObs(r.log, v, err), nil
}

// limitMidRun builds a recursion during which a host function configures the stack depth limit
// (no limit before): the limit counts all nesting from the bottom of the stack, so exactly as
// many further calls are admitted as if it had been configured before Run.
func limitMidRun(variant int) []c01.N {
	id, num := c01.Id, c01.Num
	at := 1 + variant%4    // the depth (counting down from the start value) at which SL is called
	lim := 4 + variant/4%5 // the limit it sets
	start := lim + 3
	body := []c01.N{c01.Expr(c01.Call(id("H"), id("d"))),
		c01.If(c01.Bin("===", id("d"), num(start-at)), c01.Expr(c01.Call(id("SL"), num(lim))), nil),
		c01.If(c01.Bin(">", id("d"), num(0)), c01.Return(c01.Bin("+", num(1), c01.Call(id("lrec"), c01.Bin("-", id("d"), num(1))))), nil), c01.Return(num(0))}
	return []c01.N{c01.FDecl("lrec", []string{"d"}, body...),
		c01.Try([]c01.N{c01.Expr(c01.Call(id("H"), c01.Str("ok"), c01.Call(id("lrec"), num(start))))}, "e",
			[]c01.N{c01.Expr(c01.Call(id("H"), c01.Str("caught"), c01.Bin("instanceof", id("e"), id("RangeError"))))}, true, nil, false),
		// the limit stays configured: a second recursion on the same runtime meets it at once
		c01.Try([]c01.N{c01.Expr(c01.Call(id("H"), c01.Str("again"), c01.Call(id("lrec"), num(lim-2))))}, "e",
			[]c01.N{c01.Expr(c01.Call(id("H"), c01.Str("caught again"), c01.Bin("instanceof", id("e"), id("RangeError"))))}, true, nil, false)}
}

type runner struct {
	vm      *otto.Otto
	log     [][]any
	hs      *hookState
	hpAt    int // H panics at this call of the observed run (0: never)
	hpFired bool
	cbMode  int
}

// armHostPanic replaces the host function H by one that does the same (records its projected
// arguments, returns the first) and panics with a plain Go value at its k-th call of the run, after
// recording it (ES5Core CallIn, kind host, st.hpanic).
func (r *runner) armHostPanic(k int) {
	r.hpAt = k
	r.vm.Set("H", func(call otto.FunctionCall) otto.Value {
		args := make([]any, len(call.ArgumentList))
		for i, a := range call.ArgumentList {
			args[i] = c01.Proj(a)
		}
		r.log = append(r.log, args)
		if r.hpAt > 0 && len(r.log) == r.hpAt {
			r.hpFired = true
			panic(hostPanicValue)
		}
		return call.Argument(0)
	})
	// CB (c01.NewVMMode) hands the error of its API call back by panicking with it.  Once a try/finally
	// inside the callback has seen the host function's panic, it is a thrown JavaScript string, and the
	// nested API call reports a thrown primitive as a plain Go error (the text of the value): handing
	// that on must throw the same string again (the specification's hostcb lets a thrown value pass
	// unchanged), not a Go error value.
	var cbArg otto.Value
	r.vm.Set("CBARG", func(call otto.FunctionCall) otto.Value { return cbArg })
	r.vm.Set("CB", func(call otto.FunctionCall) otto.Value {
		var v otto.Value
		var err error
		switch r.cbMode % 3 {
		case 1:
			v, err = call.Otto.Call("(function(f){ return f() })", nil, call.Argument(0))
		case 2:
			cbArg = call.Argument(0)
			v, err = call.Otto.Eval("CBARG()()")
		default:
			v, err = call.Argument(0).Call(otto.UndefinedValue())
		}
		if err != nil {
			if _, isOtto := err.(*otto.Error); !isOtto && r.hpFired {
				thrown, _ := otto.ToValue(err.Error())
				panic(thrown)
			}
			panic(err)
		}
		return v
	})
}

// cbMode: the API entry point the host function CB calls back through (see c01.NewVMMode)
func newRunner(armAt int, payload any, limit int, cbMode ...int) *runner {
	r := &runner{}
	mode := 0
	if len(cbMode) > 0 {
		mode = cbMode[0]
	}
	r.cbMode = mode
	r.vm = c01.NewVMMode(&r.log, mode)
	if limit > 0 {
		r.vm.SetStackDepthLimit(limit)
	}
	r.vm.Interrupt = make(chan func(), 1)
	r.hs = &hookState{armAt: armAt, payload: payload}
	hooks.Store(r.vm, r.hs)
	return r
}

func (r *runner) done() { hooks.Delete(r.vm) }

// run executes src; returns the observation, and the recovered panic value if any.
func (r *runner) run(src string) (obs c01.Obs, panicked any) {
	r.log = nil
	defer func() {
		if p := recover(); p != nil {
			panicked = p
			obs = c01.Obs{Log: r.log, Thr: []int{}, V: map[string]any{"t": "undef"}}
			if obs.Log == nil {
				obs.Log = [][]any{}
			}
		}
	}()
	v, err := r.vm.Run(src)
	return c01.MakeObs(r.log, v, err), nil
}

var baseDepth = -1
var baseOnce sync.Once

func restDepth() int {
	baseOnce.Do(func() {
		vm := otto.New()
		vm.Run("1")
		baseDepth = otto.VerifScopeDepth(vm)
	})
	return baseDepth
}

func watchdog(f func()) error {
	done := make(chan struct{})
	go func() { defer close(done); f() }()
	select {
	case <-done:
		return nil
	case <-time.After(30 * time.Second):
		return fmt.Errorf("TIMEOUT")
	}
}

// Check runs the property.
func Check(c *core.Ctx) (map[string]any, []string, error) {
	if os.Getenv("VERIF_C18_BUSY_ONLY") != "" { // development aid: the promptness family alone
		n, err := busyLoops(c)
		return map[string]any{"busy_loop_forms_interrupted": n}, nil, err
	}
	nProg, maxInj, maxHP := 72, 60, 8
	nEntry := 24 // programs started through each of the other classes of entry points (eval, call)
	if c.Thorough() {
		nProg, maxInj, maxHP, nEntry = 160, 120, 12, 40 // fitted: 400/400/40/100 did not finish in 50 min; 240/300/20/48 made a trace file TLC could not load (GC overhead limit)
	}
	if s := os.Getenv("VERIF_C18_PROGRAMS"); s != "" {
		fmt.Sscan(s, &nProg)
	}
	if s := os.Getenv("VERIF_C18_ENTRY"); s != "" {
		fmt.Sscan(s, &nEntry)
	}
	g := c01.NewGen(c.Seed + 1000)
	g.MaxDepth, g.MaxTop = 2, 4 // the judge evaluates every abort point of every program: keep programs small
	follow := followUp()
	followSrc := c01.RenderProgram(follow)
	flimitOf := func(limit int) int {
		if limit > 0 {
			return limit
		}
		return probeLimit
	}
	var recs []*rec
	add := func(r *rec, prog []c01.N, limit, flimit int, eval bool) {
		r.line.ID, r.line.Prog, r.line.Follow, r.line.Limit, r.line.FLimit, r.line.Eval = len(recs)+1, prog, follow, limit, flimit, eval
		recs = append(recs, r)
	}
	// family: the bodies appended to the generated statements
	family := func(p []c01.N, i int) ([]c01.N, int) {
		limit := 0
		if i%3 == 2 {
			// a stack depth limit and a recursion around it (the limit admits exactly limit-1 nested calls)
			limit = 2 + i%7
			p = append(p, recursion(limit, i)...)
		} else if i%3 == 0 && i%4 == 0 {
			// the stack depth limit configured by a host function in the middle of a recursion
			p = append(p, limitMidRun(i/12)...)
		} else if i%3 == 1 && i%2 == 0 {
			// an API call made by a host function while the script runs
			p = append(p, nested(i/6)...)
		}
		return p, limit
	}
	for i := 0; i < nProg; i++ {
		p, limit := family(g.Program(), i)
		r := &rec{src: c01.RenderProgram(p), routes: routesOf["run"], inject: true, cbMode: (i + 1) / 6}
		add(r, p, limit, flimitOf(limit), false)
	}
	// the stack depth limit seen from the API: a call made from Go while the runtime is idle admits
	// exactly the nesting the specification gives for the equivalent program (see apiCall); the
	// calls that go to the limit or beyond are also left abnormally at every point
	for _, a := range apiCalls() {
		r := &rec{src: c01.RenderProgram(a.prog), setup: a.setup, routes: []string{a.form}, api: a, inject: a.d >= a.limit-1}
		add(r, a.prog, a.eqLimit, a.limit, false)
	}
	// ENTRY POINTS x ABNORMAL EXITS.  The programs above reach the idle runtime through Run (source text,
	// compiled Script, parsed Program); the programs below through the other entry points that take a
	// whole program: Eval on the runtime at rest (eval code in the global context) and, wrapped in a
	// function main that a first script declares, the entry points that call a function from Go
	// (Otto.Call, Value.Call, Object.Call, and Get/Set of Otto and Object when main is the getter and
	// setter of a global accessor property).  Each is left at every polling point by an interrupt, at every call of the host
	// function by its panic, and by whatever exception it does not catch; the specification gives
	// the equivalent program (spec/C18.tla, ENTRY POINTS).
	g2 := c01.NewGen(c.Seed + 2000)
	g2.MaxDepth, g2.MaxTop = 2, 2
	for i := 0; i < 2*nEntry; i++ {
		body := g2.Program()
		if i%2 == 0 {
			p, limit := family(body, i/2)
			r := &rec{src: c01.RenderProgram(p), routes: routesOf["eval"], inject: true, cbMode: i / 2}
			add(r, p, limit, flimitOf(limit), true)
		} else {
			if (i/2)%3 == 1 {
				body = append(body, nested(i/2)...)
			}
			// the declarations of the globals a, b, c, n (the first four statements of every generated
			// program) stay global code, so that the follow-up observes what main did to them
			setup := append(append([]c01.N{}, body[:4]...), c01.FDecl("main", nil, body[4:]...))
			p := append(append([]c01.N{}, setup...), c01.Expr(c01.Call(c01.Id("main"))))
			r := &rec{src: c01.RenderProgram(body[4:]), setup: c01.RenderProgram(setup) + accessorSetup, routes: routesOf["call"], inject: true, cbMode: i / 2}
			add(r, p, 0, probeLimit, false)
		}
	}
	nProg = len(recs)
	var wg sync.WaitGroup
	jobs := make(chan *rec, 64)
	var mu sync.Mutex
	var nInj, nPolls, nHP, nHPOut, nFull int64
	perRoute := map[string]int64{}
	describe := func(r *rec, route string) string {
		switch {
		case r.api != nil:
			return fmt.Sprintf("%s of rec with argument %d under stack depth limit %d, after the script\n%s", route, r.api.d, r.api.limit, r.setup)
		case r.setup != "":
			return fmt.Sprintf("%s of main, after the script\n%s", route, r.setup)
		}
		return fmt.Sprintf("entry point %s, program:\n%s", route, r.src)
	}
	// after: the rest state, then the follow-up under its stack depth limit
	after := func(rn *runner, flimit int) (depth, labels int, fl c01.Obs, p any) {
		depth, labels = otto.VerifScopeDepth(rn.vm)-restDepth(), otto.VerifLabelCount(rn.vm)
		rn.vm.Interrupt = nil
		rn.hpAt = 0
		rn.hs.paused = true
		rn.vm.SetStackDepthLimit(flimit)
		fl, p = rn.run(followSrc)
		rn.done()
		return
	}
	for w := 0; w < c.Workers; w++ {
		wg.Add(1)
		go func() {
			defer wg.Done()
			for r := range jobs {
				err := watchdog(func() {
					limit := r.line.Limit
					if r.api != nil {
						limit = r.api.limit
					}
					counts := map[string]int64{}
					// uninterrupted run through every route (the hook counts polls), then the follow-up on the same runtime
					polls, nlog := 0, 0
					pollsOf := map[string]int{} // the routes of a line need not poll equally often (a call expression more or less)
					for ri, route := range r.routes {
						full := newRunner(0, nil, limit, r.cbMode)
						o1, p1 := full.start(r, route)
						if p1 != nil {
							c.Violate(fmt.Sprintf("Go panic %v escaped without any interrupt armed: %s", p1, describe(r, route)), map[string]any{"source": r.src, "route": route})
						}
						if ri == 0 {
							polls, nlog = full.hs.count, len(o1.Log)
						}
						pollsOf[route] = full.hs.count
						depth, labels, o2, _ := after(full, r.line.FLimit)
						r.line.Fulls = append(r.line.Fulls, fullRun{Route: route, First: o1, Second: o2, Depth: depth, Labels: labels})
						counts[route]++
					}
					if !r.inject {
						polls, nlog = 0, 0
					}
					ks := []int{}
					if polls <= maxInj {
						for k := 1; k <= polls; k++ {
							ks = append(ks, k)
						}
					} else {
						step := float64(polls) / float64(maxInj)
						for j := 0; j < maxInj; j++ {
							ks = append(ks, 1+int(float64(j)*step))
						}
						ks[len(ks)-1] = polls
					}
					nk := 0
					for ki, k := range ks {
						for ri, route := range r.routes {
							if ri > 0 && (!c.Thorough() && ki%(len(r.routes)-1) != ri-1 || k > pollsOf[route]) {
								continue
							}
							payload := payloadOf(k)
							rn := newRunner(k, payload, limit, r.cbMode)
							o, p := rn.start(r, route)
							inj := injection{Route: route, K: k, Delivered: rn.hs.fired == k, Panicked: samePayload(p, payload), Log: o.Log}
							var p2 any
							inj.Depth, inj.Labels, inj.Fl, p2 = after(rn, r.line.FLimit)
							if p2 != nil {
								inj.Panicked = false
							}
							r.line.Ints = append(r.line.Ints, inj)
							counts[route]++
							nk++
						}
					}
					// the host function panics at its h-th call of the run
					hs := []int{}
					if nlog <= maxHP {
						for h := 1; h <= nlog; h++ {
							hs = append(hs, h)
						}
					} else {
						step := float64(nlog) / float64(maxHP)
						for j := 0; j < maxHP; j++ {
							hs = append(hs, 1+int(float64(j)*step))
						}
						hs[len(hs)-1] = nlog
					}
					nout := 0
					for hi, h := range hs {
						route := r.routes[(hi+r.line.ID)%len(r.routes)]
						rn := newRunner(0, nil, limit, r.cbMode)
						rn.armHostPanic(h)
						o, p := rn.start(r, route)
						x := hostPanic{Route: route, K: h, Delivered: rn.hpFired, First: o}
						if p != nil {
							if s, ok := p.(string); ok && s == hostPanicValue && rn.hpFired {
								// abnormal exit = the observation of an uncaught thrown primitive "boom"
								x.GoPanic = true
								x.First = c01.MakeObs(o.Log, otto.UndefinedValue(), errors.New(s))
								nout++
							} else {
								c.Violate(fmt.Sprintf("Go panic %v escaped (the host function panics with %q at its call %d): %s", p, hostPanicValue, h, describe(r, route)),
									map[string]any{"source": r.src, "route": route, "h": h})
							}
						}
						var p2 any
						x.Depth, x.Labels, x.Fl, p2 = after(rn, r.line.FLimit)
						if p2 != nil {
							c.Violate(fmt.Sprintf("Go panic %v escaped the follow-up script after the host function panicked at its call %d: %s", p2, h, describe(r, route)),
								map[string]any{"source": r.src, "route": route, "h": h})
						}
						r.line.HPs = append(r.line.HPs, x)
						counts[route]++
					}
					mu.Lock()
					nInj += int64(nk)
					nPolls += int64(polls)
					nHP += int64(len(hs))
					nHPOut += int64(nout)
					nFull += int64(len(r.routes))
					for k, v := range counts {
						perRoute[k] += v
					}
					mu.Unlock()
				})
				if err != nil {
					c.Violate("program or follow-up did not finish within 30 s (interrupt not delivered or runtime wedged):\n"+r.src, map[string]any{"source": r.src})
				}
			}
		}()
	}
	for _, r := range recs {
		jobs <- r
	}
	close(jobs)
	wg.Wait()

	var buf bytes.Buffer
	enc := json.NewEncoder(&buf)
	for _, r := range recs {
		if r.line.Fulls == nil {
			r.line.Fulls = []fullRun{}
		}
		if r.line.Ints == nil {
			r.line.Ints = []injection{}
		}
		if r.line.HPs == nil {
			r.line.HPs = []hostPanic{}
		}
		enc.Encode(r.line)
	}
	if p := os.Getenv("VERIF_C18_TRACE"); p != "" { // development aid: keep the trace for TLC runs by hand
		os.WriteFile(p, buf.Bytes(), 0o644)
		if os.Getenv("VERIF_C18_TRACE_ONLY") != "" {
			return nil, nil, fmt.Errorf("trace written to %s (VERIF_C18_TRACE_ONLY)", p)
		}
	}
	var nUnd, nBad int64
	res, err := tlc.Run(tlc.Opts{SpecDir: c.SpecDir, Module: "C18",
		Cfg:     fmt.Sprintf("CONSTANTS\n OpenDev = %s\n Fuel = 300\nINIT Init\nNEXT Next\nINVARIANT Check\nCHECK_DEADLOCK FALSE\n", core.TLASet(c.Findings.OpenIDs())),
		Workers: c.Workers, Files: map[string][]byte{"trace.ndjson": buf.Bytes()}, Timeout: 90 * time.Minute, HeapMB: 12000},
		func(p []byte) {
			var v struct {
				ID     int             `json:"id"`
				Status string          `json:"status"`
				N      int             `json:"n"`
				NBad   int             `json:"nbad"`
				Want   json.RawMessage `json:"want"`
			}
			if json.Unmarshal(p, &v) != nil {
				return
			}
			if v.ID < 1 || v.ID > len(recs) {
				return
			}
			r := recs[v.ID-1]
			switch v.Status {
			case "und":
				nUnd++
			case "badfull":
				nBad++
				if v.N < 1 || v.N > len(r.line.Fulls) {
					v.N = 1
				}
				f := r.line.Fulls[v.N-1]
				c.Violate(fmt.Sprintf("run to the end followed by a second script on the same runtime: observed %s, then context depth %d and %d pending labels at rest, then %s; specification requires %s at rest (0, 0); %s\nfollow-up (under stack depth limit %d):\n%s",
					f.First.JSON(), f.Depth, f.Labels, f.Second.JSON(), string(v.Want), describe(r, f.Route), r.line.FLimit, followSrc),
					map[string]any{"source": r.src, "setup": r.setup, "route": f.Route, "follow": followSrc, "observed": f, "required": v.Want})
			case "badint":
				nBad++
				if v.N < 1 || v.N > len(r.line.Ints) {
					v.N = 1
				}
				inj := r.line.Ints[v.N-1]
				b, _ := json.Marshal(inj)
				c.Violate(fmt.Sprintf("interrupt armed at polling point %d (%d injections of this program not explained): observation %s is not explained by any abort point of the specification (delivered at the armed poll, unwound with the panic value, at rest, log and follow-up outcome as of some polling point); %s\nfollow-up (under stack depth limit %d):\n%s",
					inj.K, v.NBad, string(b), describe(r, inj.Route), r.line.FLimit, followSrc),
					map[string]any{"source": r.src, "setup": r.setup, "route": inj.Route, "follow": followSrc, "k": inj.K, "injection": inj})
			case "badhp":
				nBad++
				if v.N < 1 || v.N > len(r.line.HPs) {
					v.N = 1
				}
				x := r.line.HPs[v.N-1]
				b, _ := json.Marshal(x)
				c.Violate(fmt.Sprintf("host function panicking with the Go string %q at its call %d (%d such runs of this program rejected): observation %s; the specification requires (first = the run, second = the follow-up, the runtime at rest in between) %s; %s\nfollow-up (under stack depth limit %d):\n%s",
					hostPanicValue, x.K, v.NBad, string(b), string(v.Want), describe(r, x.Route), r.line.FLimit, followSrc),
					map[string]any{"source": r.src, "setup": r.setup, "route": x.Route, "follow": followSrc, "h": x.K, "observed": x, "required": v.Want})
			}
		})
	if err != nil {
		return nil, nil, err
	}
	samples := []any{}
	if len(recs) > 0 && len(recs[0].line.Ints) > 0 {
		samples = append(samples, map[string]any{"source": recs[0].src, "injection": recs[0].line.Ints[len(recs[0].line.Ints)/2]})
	}
	busy, err := busyLoops(c)
	if err != nil {
		return nil, nil, err
	}
	if len(samples) == 0 {
		samples = append(samples, "none")
	}
	cov := map[string]any{
		"states": res.Distinct, "transitions": res.Generated, "traces_validated_against_impl": nInj + nHP + nFull,
		"samples": samples, "programs": nProg, "injections": nInj, "polling_points_total": nPolls,
		"host_panics": nHP, "host_panics_that_left_the_entry_point": nHPOut, "full_runs": nFull, "runs_per_entry_point": perRoute,
		"undecided_programs": nUnd, "rejected_programs": nBad, "busy_loop_forms_interrupted": busy, "tlc_wall_s": res.Wall,
	}
	return cov, []string{
		"injection uses the build-tag-guarded hook VerifStep (called at every interrupt polling point just before the channel is polled) so that the real select delivers the function",
		"the abort point is matched existentially against the polling points of the specification: the effects (host-call log prefix, heap as observed by the follow-up program, rest state) are prescribed, the polling granularity is not",
		"promptness without the hook: busy loops of every loop form are interrupted from another goroutine and must unwind within 10 s",
		"entry points: a program started by Run (text, Script, Program), by Eval on the runtime at rest, or wrapped in a function called from Go (Otto.Call, Value.Call, Object.Call) is judged through the program that is equivalent to that entry for the specification",
		"a panicking host function panics with the Go string \"boom\" after recording its call; when nothing in the script catches it, the entry point must unwind with exactly that value (observed as the uncaught thrown primitive)",
	}, nil
}

// busyLoops: promptness without the hook.  Every infinite loop the grammar can write from
// loop kind x test expression x body x context must be left within 10 s of a function
// arriving on the interrupt channel (the specification polls at every statement and every
// expression evaluation, so no loop iteration is free of polling points).  The forms are
// the product of the four lists below; the quick tier runs a seeded quarter of it.
func busyLoops(c *core.Ctx) (int, error) {
	const pre = "var x=0, spin=true, done=false, o={p:1}; function f(){ return true }; "
	tests := []string{"true", "1", "spin", "o.p", "!done", "x < 1e15", "f()", "(x++, true)", "spin && spin", "typeof spin", "x >= 0", "o[\"p\"]", "spin ? 1 : 0", "this"}
	bodies := []string{"", ";", "x++;", "{}", "if (spin) {}", "try {} finally {}", "switch (x) {}", "L2: {}", "with (o) {}", "var y;", "continue;", "for(;false;){}", "spin;", "void 0;"}
	var loops []string
	for _, t := range tests {
		for _, b := range bodies {
			blk := "{" + b + "}"
			if b == ";" {
				blk = ";"
			}
			loops = append(loops, "while("+t+")"+blk, "for(;"+t+";)"+blk, "do "+strings.Replace(blk, "continue;", "x++;", 1)+" while("+t+");")
		}
	}
	loops = append(loops, "for(;;){}", "for(;;);", "for(;;x++){}", "L: for(;;){ continue L; }", "L: while(spin){ do { continue L; } while(false); }")
	wrap := []string{"%s", "(function(){ %s })()", "[1].forEach(function(){ %s })", "try { %s } catch(e) { x = -1; for(;;){} } finally { x = -2 }",
		"({valueOf:function(){ %s }}) + 1", "[2,1].sort(function(){ %s })", "new function(){ %s }", "({get g(){ %s }}).g",
		"\"a\".replace(/a/, function(){ %s })", "(function w(flag){ %s })(1)", "JSON.stringify({toJSON:function(){ %s }})", "[1].map(function(){ %s })"}
	type job struct{ src string }
	var jobs []job
	i := 0
	for _, l := range loops {
		for _, w := range wrap {
			i++
			if !c.Thorough() && (i+int(c.Seed))%4 != 0 {
				continue
			}
			jobs = append(jobs, job{pre + fmt.Sprintf(w, l)})
		}
	}
	var mu sync.Mutex
	n := 0
	sem := make(chan struct{}, 24)
	var wg sync.WaitGroup
	for _, j := range jobs {
		wg.Add(1)
		sem <- struct{}{}
		go func(src string) {
			defer wg.Done()
			defer func() { <-sem }()
			vm := otto.New()
			// the channel is unbuffered, of capacity 1 or larger: the function must be received in every case
			vm.Interrupt = make(chan func(), []int{1, 0, 3}[len(src)%3])
			payload := &payloadT{"busy"}
			doneCh := make(chan any, 1)
			var runErr error
			go func() {
				defer func() { doneCh <- recover() }()
				_, runErr = vm.Run(src)
			}()
			time.Sleep(20 * time.Millisecond)
			go func() { vm.Interrupt <- func() { panic(payload) } }()
			select {
			case p := <-doneCh:
				mu.Lock()
				defer mu.Unlock()
				if p != any(payload) {
					c.Violate(fmt.Sprintf("busy loop %q: Run ended with %v (error %v) instead of unwinding with the interrupt's panic", src, p, runErr), map[string]any{"source": src})
				}
				n++
			case <-time.After(10 * time.Second):
				mu.Lock()
				defer mu.Unlock()
				c.Violate(fmt.Sprintf("busy loop %q was not interrupted within 10 s", src), map[string]any{"source": src})
			}
		}(j.src)
	}
	wg.Wait()
	nb, err := bridgeBusy(c)
	return n + nb, err
}
