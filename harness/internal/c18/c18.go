// Package c18: interrupts and abnormal exits (spec/C18.tla judges).
package c18

import (
	"bytes"
	"encoding/json"
	"fmt"
	"os"
	"strings"
	"sync"
	"time"

	"github.com/robertkrimen/otto"

	"verif/harness/internal/c01"
	"verif/harness/internal/core"
	"verif/harness/internal/tlc"
)

// per-runtime hook state (otto.VerifStep is a package-level hook)
type hookState struct {
	count   int
	armAt   int
	fired   int // poll count at which the interrupt function ran (0 = never)
	payload any
}

var hooks sync.Map // *otto.Otto -> *hookState

func init() {
	otto.VerifStep = func(o *otto.Otto, kind int) {
		v, ok := hooks.Load(o)
		if !ok {
			return
		}
		h := v.(*hookState)
		h.count++
		if h.count == h.armAt {
			o.Interrupt <- func() {
				h.fired = h.count
				panic(h.payload)
			}
		}
	}
}

type payloadT struct{ tag string }

// payloadOf: the value the interrupt function panics with.  Whatever its kind - a Go pointer,
// string or error, an otto Value, the *otto.Error of an earlier API call - Run must unwind with
// exactly that value (it is not a JavaScript exception, even when it looks like one).
var sampleOttoError = func() error { _, err := otto.New().Run(`throw new TypeError("halt-error")`); return err }()

func samePayload(p, payload any) bool {
	if e, ok := payload.(error); ok && e != sampleOttoError {
		pe, ok := p.(error)
		return ok && pe.Error() == e.Error()
	}
	return p == payload
}

func payloadOf(k int) any {
	switch k % 5 {
	case 1:
		return fmt.Sprintf("halt-%d", k)
	case 2:
		return fmt.Errorf("halt-%d", k)
	case 3:
		v, _ := otto.ToValue(fmt.Sprintf("halt-value-%d", k))
		return v
	case 4:
		return sampleOttoError
	}
	return &payloadT{fmt.Sprintf("halt-%d", k)}
}

type injection struct {
	K         int     `json:"k"`
	Delivered bool    `json:"delivered"`
	Panicked  bool    `json:"panicked"`
	Log       [][]any `json:"log"`
	Depth     int     `json:"depth"`
	Labels    int     `json:"labels"`
	Fl        c01.Obs `json:"fl"`
}

type traceLine struct {
	ID     int     `json:"id"`
	Prog   []c01.N `json:"prog"`
	Follow []c01.N `json:"follow"`
	Limit  int     `json:"limit"`
	Full   struct {
		First  c01.Obs `json:"first"`
		Second c01.Obs `json:"second"`
	} `json:"full"`
	Ints []injection `json:"ints"`
}

// follow-up program: observes the globals the programs use and exercises
// calls, try/catch/finally and a loop on the runtime that was just unwound.
func followUp() []c01.N {
	id := c01.Id
	return []c01.N{
		c01.Expr(c01.Call(id("H"), c01.Un("typeof", id("a")), id("a"), c01.Un("typeof", id("b")), id("b"), c01.Un("typeof", id("c")), id("c"), id("n"))),
		c01.Var("zq", c01.Num(0)),
		c01.Expr(c01.Call(c01.Fn("", nil,
			c01.Try([]c01.N{c01.Throw(c01.Num(1))}, "e", []c01.N{c01.Expr(c01.Call(id("H"), id("e")))}, true, []c01.N{c01.Expr(c01.Call(id("H"), c01.Num(2)))}, true),
			c01.For(c01.Var("i", c01.Num(0)), c01.Bin("<", id("i"), c01.Num(2)), c01.Upd("++", false, id("i")), c01.Block(c01.Expr(c01.Asg("+", id("zq"), id("i"))))),
			c01.Return(id("zq"))))),
	}
}

// recursion builds statements that recurse to depths around the limit through
// different call forms, catch the RangeError and carry on.
func recursion(limit, variant int) []c01.N {
	id, num := c01.Id, c01.Num
	call := func(d int) c01.N {
		switch variant % 4 {
		case 0:
			return c01.Call(id("rec"), num(d))
		case 1:
			return c01.Call(c01.Dot(id("rec"), "call"), c01.Null(), num(d))
		case 2:
			return c01.Call(c01.Call(c01.Dot(id("rec"), "bind"), c01.Null()), num(d))
		default:
			return c01.Call(c01.Dot(c01.Obj("m", id("rec")), "m"), num(d))
		}
	}
	// the recursive step itself also takes every call form: each re-entry (eval code entering the
	// global context again, a built-in calling back, an accessor) must count towards the limit
	dm1 := c01.Bin("-", id("d"), num(1))
	var pre []c01.N
	var step c01.N
	switch (variant / 4) % 7 {
	case 0:
		step = c01.Call(id("rec"), dm1)
	case 1:
		step = c01.Call(c01.Dot(id("rec"), "call"), c01.Null(), dm1)
	case 2:
		step = c01.Call(c01.Dot(id("rec"), "apply"), c01.Null(), c01.Arr(dm1))
	case 3:
		step = c01.Call(c01.Call(c01.Dot(id("rec"), "bind"), c01.Null(), dm1))
	case 4: // direct eval: runs in the calling context
		step = c01.EvalCall(true, c01.Expr(c01.Call(id("rec"), dm1)))
	case 5: // indirect eval: enters the global context again
		pre = []c01.N{c01.Expr(c01.Asg("=", id("gd"), dm1))}
		step = c01.EvalCall(false, c01.Expr(c01.Call(id("rec"), id("gd"))))
	default: // through a getter
		pre = []c01.N{c01.Expr(c01.Asg("=", id("gd"), dm1))}
		step = c01.Dot(c01.WithAccessor(c01.Obj(), "get", "next", c01.Fn("", nil, c01.Return(c01.Call(id("rec"), id("gd"))))), "next")
	}
	body := []c01.N{c01.Expr(c01.Call(id("H"), id("d")))}
	body = append(body, c01.If(c01.Bin(">", id("d"), num(0)), c01.Block(append(pre, c01.Return(c01.Bin("+", num(1), step)))...), nil), c01.Return(num(0)))
	out := []c01.N{c01.Var("gd", num(0)), c01.FDecl("rec", []string{"d"}, body...)}
	for _, d := range []int{limit - 3, limit - 2, limit - 1, limit, limit + 2} {
		if d < 0 {
			continue
		}
		out = append(out, c01.Try([]c01.N{c01.Expr(c01.Call(id("H"), c01.Str("ok"), call(d)))}, "e",
			[]c01.N{c01.Expr(c01.Call(id("H"), c01.Str("caught"), c01.Bin("instanceof", id("e"), id("RangeError"))))}, true, nil, false))
	}
	out = append(out, c01.Expr(call(limit+1))) // uncaught: Run returns the RangeError; the follow-up must still work
	return out
}

// nested builds statements in which Go code (the host function CB) makes an API call while the
// script is running: an interrupt that arrives inside the inner call must unwind the OUTER Run
// too (the script's try statements do not see it); a JavaScript exception of the inner call is an
// ordinary exception of the script.
func nested(variant int) []c01.N {
	id, num, str := c01.Id, c01.Num, c01.Str
	h := func(args ...c01.N) c01.N { return c01.Expr(c01.Call(id("H"), args...)) }
	inner := []c01.N{c01.For(c01.Var("ck", num(0)), c01.Bin("<", id("ck"), num(2)), c01.Upd("++", false, id("ck")),
		c01.Block(h(str("in-cb"), id("ck")), c01.Expr(c01.Upd("++", false, id("cbn")))))}
	switch variant % 4 {
	case 1:
		inner = append(inner, c01.Throw(c01.New(id("TypeError"), str("from-cb"))))
	case 2:
		inner = append(inner, c01.Expr(c01.Call(id("CB"), c01.Fn("", nil, h(str("inner-cb")), c01.Return(num(5))))))
	case 3:
		inner = append(inner, c01.Try([]c01.N{c01.Expr(c01.Call(id("undefinedFunction")))}, "e2", []c01.N{h(str("cb-caught"))}, true, []c01.N{h(str("cb-finally"))}, true))
	}
	inner = append(inner, c01.Return(id("cbn")))
	return []c01.N{c01.Var("cbn", num(0)),
		c01.Try([]c01.N{h(str("r"), c01.Call(id("CB"), c01.Fn("", nil, inner...)))}, "e",
			[]c01.N{h(str("caught"), c01.Bin("instanceof", id("e"), id("TypeError")))}, true, []c01.N{h(str("fin"))}, true),
		h(str("after-cb"), id("cbn"))}
}

// apiCall: a call made from Go on an idle runtime with stack depth limit `limit`, and the program
// that is equivalent to it for the specification: Otto.Call("rec", nil, d) and Value.Call of the
// built-in Function.prototype.call enter a global context first, so they are `rec(d)` /
// `rec.call(null, d)` under the same limit; Value.Call of a script function enters no global
// context (its own context takes that place), which is `rec(d)` under limit + 1.
type apiCall struct {
	form    string
	limit   int // configured on the runtime
	eqLimit int // of the equivalent program
	d       int
	setup   string
	prog    []c01.N
}

func apiCalls() []*apiCall {
	id, num := c01.Id, c01.Num
	decl := c01.FDecl("rec", []string{"d"}, c01.Expr(c01.Call(id("H"), id("d"))),
		c01.If(c01.Bin(">", id("d"), num(0)), c01.Return(c01.Bin("+", num(1), c01.Call(id("rec"), c01.Bin("-", id("d"), num(1))))), nil), c01.Return(num(0)))
	setup := c01.RenderProgram([]c01.N{decl})
	var out []*apiCall
	for _, L := range []int{3, 4, 6} {
		for _, form := range []string{"otto.Call", "Value.Call(script function)", "Value.Call(built-in call)", "Object.Call(built-in call)"} {
			for d := L - 3; d <= L+1; d++ {
				if d < 0 {
					continue
				}
				a := &apiCall{form: form, limit: L, eqLimit: L, d: d, setup: setup}
				call := c01.Call(id("rec"), num(d))
				switch form {
				case "Value.Call(script function)":
					a.eqLimit = L + 1
				case "Value.Call(built-in call)", "Object.Call(built-in call)":
					call = c01.Call(c01.Dot(id("rec"), "call"), c01.Null(), num(d))
				}
				a.prog = []c01.N{decl, c01.Expr(call)}
				out = append(out, a)
			}
		}
	}
	return out
}

// runAPI declares rec by a script, then makes the call through the API while the runtime is idle.
func (r *runner) runAPI(a *apiCall) (obs c01.Obs, panicked any) {
	if _, p := r.run(a.setup); p != nil {
		return c01.Obs{}, p
	}
	r.log = nil
	defer func() {
		if p := recover(); p != nil {
			panicked = p
			obs = c01.Obs{Log: r.log, Thr: []int{}, V: map[string]any{"t": "undef"}}
			if obs.Log == nil {
				obs.Log = [][]any{}
			}
		}
	}()
	var v otto.Value
	var err error
	rec, _ := r.vm.Get("rec")
	switch a.form {
	case "otto.Call":
		v, err = r.vm.Call("rec", nil, a.d)
	case "Value.Call(script function)":
		v, err = rec.Call(otto.UndefinedValue(), a.d)
	case "Value.Call(built-in call)":
		callFn, _ := rec.Object().Get("call")
		v, err = callFn.Call(rec, nil, a.d)
	default:
		v, err = rec.Object().Call("call", nil, a.d)
	}
	return c01.MakeObs(r.log, v, err), nil
}

// limitMidRun builds a recursion during which a host function configures the stack depth limit
// (no limit before): the limit counts all nesting from the bottom of the stack, so exactly as
// many further calls are admitted as if it had been configured before Run.
func limitMidRun(variant int) []c01.N {
	id, num := c01.Id, c01.Num
	at := 1 + variant%4    // the depth (counting down from the start value) at which SL is called
	lim := 4 + variant/4%5 // the limit it sets
	start := lim + 3
	body := []c01.N{c01.Expr(c01.Call(id("H"), id("d"))),
		c01.If(c01.Bin("===", id("d"), num(start-at)), c01.Expr(c01.Call(id("SL"), num(lim))), nil),
		c01.If(c01.Bin(">", id("d"), num(0)), c01.Return(c01.Bin("+", num(1), c01.Call(id("lrec"), c01.Bin("-", id("d"), num(1))))), nil), c01.Return(num(0))}
	return []c01.N{c01.FDecl("lrec", []string{"d"}, body...),
		c01.Try([]c01.N{c01.Expr(c01.Call(id("H"), c01.Str("ok"), c01.Call(id("lrec"), num(start))))}, "e",
			[]c01.N{c01.Expr(c01.Call(id("H"), c01.Str("caught"), c01.Bin("instanceof", id("e"), id("RangeError"))))}, true, nil, false),
		// the limit stays configured: a second recursion on the same runtime meets it at once
		c01.Try([]c01.N{c01.Expr(c01.Call(id("H"), c01.Str("again"), c01.Call(id("lrec"), num(lim-2))))}, "e",
			[]c01.N{c01.Expr(c01.Call(id("H"), c01.Str("caught again"), c01.Bin("instanceof", id("e"), id("RangeError"))))}, true, nil, false)}
}

type runner struct {
	vm  *otto.Otto
	log [][]any
	hs  *hookState
}

// cbMode: the API entry point the host function CB calls back through (see c01.NewVMMode)
func newRunner(armAt int, payload any, limit int, cbMode ...int) *runner {
	r := &runner{}
	mode := 0
	if len(cbMode) > 0 {
		mode = cbMode[0]
	}
	r.vm = c01.NewVMMode(&r.log, mode)
	if limit > 0 {
		r.vm.SetStackDepthLimit(limit)
	}
	r.vm.Interrupt = make(chan func(), 1)
	r.hs = &hookState{armAt: armAt, payload: payload}
	hooks.Store(r.vm, r.hs)
	return r
}

func (r *runner) done() { hooks.Delete(r.vm) }

// run executes src; returns the observation, and the recovered panic value if any.
func (r *runner) run(src string) (obs c01.Obs, panicked any) {
	r.log = nil
	defer func() {
		if p := recover(); p != nil {
			panicked = p
			obs = c01.Obs{Log: r.log, Thr: []int{}, V: map[string]any{"t": "undef"}}
			if obs.Log == nil {
				obs.Log = [][]any{}
			}
		}
	}()
	v, err := r.vm.Run(src)
	return c01.MakeObs(r.log, v, err), nil
}

var baseDepth = -1
var baseOnce sync.Once

func restDepth() int {
	baseOnce.Do(func() {
		vm := otto.New()
		vm.Run("1")
		baseDepth = otto.VerifScopeDepth(vm)
	})
	return baseDepth
}

func watchdog(f func()) error {
	done := make(chan struct{})
	go func() { defer close(done); f() }()
	select {
	case <-done:
		return nil
	case <-time.After(30 * time.Second):
		return fmt.Errorf("TIMEOUT")
	}
}

// Check runs the property.
func Check(c *core.Ctx) (map[string]any, []string, error) {
	if os.Getenv("VERIF_C18_BUSY_ONLY") != "" { // development aid: the promptness family alone
		n, err := busyLoops(c)
		return map[string]any{"busy_loop_forms_interrupted": n}, nil, err
	}
	nProg, maxInj := 72, 60
	if c.Thorough() {
		nProg, maxInj = 400, 400
	}
	if s := os.Getenv("VERIF_C18_PROGRAMS"); s != "" {
		fmt.Sscan(s, &nProg)
	}
	g := c01.NewGen(c.Seed + 1000)
	g.MaxDepth, g.MaxTop = 2, 4 // the judge evaluates every abort point of every program: keep programs small
	follow := followUp()
	followSrc := c01.RenderProgram(follow)
	type rec struct {
		line traceLine
		src  string
		api  *apiCall // non-nil: the last statement is made through the API on the idle runtime instead
	}
	recs := make([]*rec, nProg)
	for i := range recs {
		p := g.Program()
		limit := 0
		if i%3 == 2 {
			// a stack depth limit and a recursion around it (the limit admits exactly limit-1 nested calls)
			limit = 2 + i%7
			p = append(p, recursion(limit, i)...)
		} else if i%3 == 0 && i%4 == 0 {
			// the stack depth limit configured by a host function in the middle of a recursion
			p = append(p, limitMidRun(i/12)...)
		} else if i%3 == 1 && i%2 == 0 {
			// an API call made by a host function while the script runs
			p = append(p, nested(i/6)...)
		}
		recs[i] = &rec{src: c01.RenderProgram(p)}
		recs[i].line.ID, recs[i].line.Prog, recs[i].line.Follow, recs[i].line.Limit = i+1, p, follow, limit
	}
	// the stack depth limit seen from the API: a call made from Go while the runtime is idle admits
	// exactly the nesting the specification gives for the equivalent program (see apiCall)
	for _, a := range apiCalls() {
		r := &rec{src: c01.RenderProgram(a.prog), api: a}
		r.line.ID, r.line.Prog, r.line.Follow, r.line.Limit = len(recs)+1, a.prog, follow, a.eqLimit
		recs = append(recs, r)
	}
	nProg = len(recs)
	var wg sync.WaitGroup
	jobs := make(chan *rec, 64)
	var mu sync.Mutex
	var nInj, nPolls int64
	for w := 0; w < c.Workers; w++ {
		wg.Add(1)
		go func() {
			defer wg.Done()
			for r := range jobs {
				err := watchdog(func() {
					// uninterrupted run (hook counts polls), then the follow-up on the same runtime
					limit := r.line.Limit
					if r.api != nil {
						limit = r.api.limit
					}
					full := newRunner(0, nil, limit, r.line.ID/6)
					var o1 c01.Obs
					var p1 any
					if r.api != nil {
						o1, p1 = full.runAPI(r.api)
						full.hs.count = 0 // no injections: the abort points of these programs are covered by the recursion family
					} else {
						o1, p1 = full.run(r.src)
					}
					if p1 != nil {
						c.Violate(fmt.Sprintf("Go panic %v escaped Run without any interrupt armed:\n%s", p1, r.src), map[string]any{"source": r.src})
					}
					polls := full.hs.count
					full.vm.Interrupt = nil
					o2, _ := full.run(followSrc)
					full.done()
					r.line.Full.First, r.line.Full.Second = o1, o2
					ks := []int{}
					if polls <= maxInj {
						for k := 1; k <= polls; k++ {
							ks = append(ks, k)
						}
					} else {
						step := float64(polls) / float64(maxInj)
						for j := 0; j < maxInj; j++ {
							ks = append(ks, 1+int(float64(j)*step))
						}
						ks[len(ks)-1] = polls
					}
					for _, k := range ks {
						payload := payloadOf(k)
						rn := newRunner(k, payload, r.line.Limit, r.line.ID/6)
						o, p := rn.run(r.src)
						inj := injection{K: k, Delivered: rn.hs.fired == k, Panicked: samePayload(p, payload), Log: o.Log,
							Depth: otto.VerifScopeDepth(rn.vm) - restDepth(), Labels: otto.VerifLabelCount(rn.vm)}
						rn.vm.Interrupt = nil
						fl, p2 := rn.run(followSrc)
						if p2 != nil {
							inj.Panicked = false
						}
						inj.Fl = fl
						rn.done()
						r.line.Ints = append(r.line.Ints, inj)
					}
					mu.Lock()
					nInj += int64(len(ks))
					nPolls += int64(polls)
					mu.Unlock()
				})
				if err != nil {
					c.Violate("program or follow-up did not finish within 30 s (interrupt not delivered or runtime wedged):\n"+r.src, map[string]any{"source": r.src})
				}
			}
		}()
	}
	for _, r := range recs {
		jobs <- r
	}
	close(jobs)
	wg.Wait()

	var buf bytes.Buffer
	enc := json.NewEncoder(&buf)
	for _, r := range recs {
		if r.line.Ints == nil {
			r.line.Ints = []injection{}
		}
		enc.Encode(r.line)
	}
	var nUnd, nBad int64
	res, err := tlc.Run(tlc.Opts{SpecDir: c.SpecDir, Module: "C18",
		Cfg:     fmt.Sprintf("CONSTANTS\n OpenDev = %s\n Fuel = 300\nINIT Init\nNEXT Next\nINVARIANT Check\nCHECK_DEADLOCK FALSE\n", core.TLASet(c.Findings.OpenIDs())),
		Workers: c.Workers, Files: map[string][]byte{"trace.ndjson": buf.Bytes()}, Timeout: 90 * time.Minute, HeapMB: 12000},
		func(p []byte) {
			var v struct {
				ID     int             `json:"id"`
				Status string          `json:"status"`
				K      int             `json:"k"`
				NBad   int             `json:"nbad"`
				Want   json.RawMessage `json:"want"`
			}
			if json.Unmarshal(p, &v) != nil {
				return
			}
			r := recs[v.ID-1]
			switch v.Status {
			case "und":
				nUnd++
			case "badfull":
				nBad++
				c.Violate(fmt.Sprintf("run followed by a second script on the same runtime: observed %s then %s, specification requires %s; program:\n%s\nfollow-up:\n%s",
					r.line.Full.First.JSON(), r.line.Full.Second.JSON(), string(v.Want), r.src, followSrc),
					map[string]any{"source": r.src, "follow": followSrc, "observed": r.line.Full, "required": v.Want})
			case "badint":
				nBad++
				var inj injection
				for _, x := range r.line.Ints {
					if x.K == v.K {
						inj = x
					}
				}
				b, _ := json.Marshal(inj)
				c.Violate(fmt.Sprintf("interrupt armed at polling point %d (%d injections of this program not explained): observation %s is not explained by any abort point of the specification; program:\n%s",
					v.K, v.NBad, string(b), r.src), map[string]any{"source": r.src, "follow": followSrc, "k": v.K, "injection": inj})
			}
		})
	if err != nil {
		return nil, nil, err
	}
	samples := []any{}
	if len(recs) > 0 && len(recs[0].line.Ints) > 0 {
		samples = append(samples, map[string]any{"source": recs[0].src, "injection": recs[0].line.Ints[len(recs[0].line.Ints)/2]})
	}
	busy, err := busyLoops(c)
	if err != nil {
		return nil, nil, err
	}
	if len(samples) == 0 {
		samples = append(samples, "none")
	}
	cov := map[string]any{
		"states": res.Distinct, "transitions": res.Generated, "traces_validated_against_impl": nInj + int64(nProg),
		"samples": samples, "programs": nProg, "injections": nInj, "polling_points_total": nPolls,
		"undecided_programs": nUnd, "rejected_programs": nBad, "busy_loop_forms_interrupted": busy, "tlc_wall_s": res.Wall,
	}
	return cov, []string{
		"injection uses the build-tag-guarded hook VerifStep (called at every interrupt polling point just before the channel is polled) so that the real select delivers the function",
		"the abort point is matched existentially against the polling points of the specification: the effects (host-call log prefix, heap as observed by the follow-up program, rest state) are prescribed, the polling granularity is not",
		"promptness without the hook: busy loops of every loop form are interrupted from another goroutine and must unwind within 10 s",
	}, nil
}

// busyLoops: promptness without the hook.  Every infinite loop the grammar can write from
// loop kind x test expression x body x context must be left within 10 s of a function
// arriving on the interrupt channel (the specification polls at every statement and every
// expression evaluation, so no loop iteration is free of polling points).  The forms are
// the product of the four lists below; the quick tier runs a seeded quarter of it.
func busyLoops(c *core.Ctx) (int, error) {
	const pre = "var x=0, spin=true, done=false, o={p:1}; function f(){ return true }; "
	tests := []string{"true", "1", "spin", "o.p", "!done", "x < 1e15", "f()", "(x++, true)", "spin && spin", "typeof spin", "x >= 0", "o[\"p\"]", "spin ? 1 : 0", "this"}
	bodies := []string{"", ";", "x++;", "{}", "if (spin) {}", "try {} finally {}", "switch (x) {}", "L2: {}", "with (o) {}", "var y;", "continue;", "for(;false;){}", "spin;", "void 0;"}
	var loops []string
	for _, t := range tests {
		for _, b := range bodies {
			blk := "{" + b + "}"
			if b == ";" {
				blk = ";"
			}
			loops = append(loops, "while("+t+")"+blk, "for(;"+t+";)"+blk, "do "+strings.Replace(blk, "continue;", "x++;", 1)+" while("+t+");")
		}
	}
	loops = append(loops, "for(;;){}", "for(;;);", "for(;;x++){}", "L: for(;;){ continue L; }", "L: while(spin){ do { continue L; } while(false); }")
	wrap := []string{"%s", "(function(){ %s })()", "[1].forEach(function(){ %s })", "try { %s } catch(e) { x = -1; for(;;){} } finally { x = -2 }",
		"({valueOf:function(){ %s }}) + 1", "[2,1].sort(function(){ %s })", "new function(){ %s }", "({get g(){ %s }}).g",
		"\"a\".replace(/a/, function(){ %s })", "(function w(flag){ %s })(1)", "JSON.stringify({toJSON:function(){ %s }})", "[1].map(function(){ %s })"}
	type job struct{ src string }
	var jobs []job
	i := 0
	for _, l := range loops {
		for _, w := range wrap {
			i++
			if !c.Thorough() && (i+int(c.Seed))%4 != 0 {
				continue
			}
			jobs = append(jobs, job{pre + fmt.Sprintf(w, l)})
		}
	}
	var mu sync.Mutex
	n := 0
	sem := make(chan struct{}, 24)
	var wg sync.WaitGroup
	for _, j := range jobs {
		wg.Add(1)
		sem <- struct{}{}
		go func(src string) {
			defer wg.Done()
			defer func() { <-sem }()
			vm := otto.New()
			// the channel is unbuffered, of capacity 1 or larger: the function must be received in every case
			vm.Interrupt = make(chan func(), []int{1, 0, 3}[len(src)%3])
			payload := &payloadT{"busy"}
			doneCh := make(chan any, 1)
			var runErr error
			go func() {
				defer func() { doneCh <- recover() }()
				_, runErr = vm.Run(src)
			}()
			time.Sleep(20 * time.Millisecond)
			go func() { vm.Interrupt <- func() { panic(payload) } }()
			select {
			case p := <-doneCh:
				mu.Lock()
				defer mu.Unlock()
				if p != any(payload) {
					c.Violate(fmt.Sprintf("busy loop %q: Run ended with %v (error %v) instead of unwinding with the interrupt's panic", src, p, runErr), map[string]any{"source": src})
				}
				n++
			case <-time.After(10 * time.Second):
				mu.Lock()
				defer mu.Unlock()
				c.Violate(fmt.Sprintf("busy loop %q was not interrupted within 10 s", src), map[string]any{"source": src})
			}
		}(j.src)
	}
	wg.Wait()
	return n, nil
}
