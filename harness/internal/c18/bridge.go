package c18

import (
	"fmt"
	"os"
	"strings"
	"sync"
	"time"

	"github.com/robertkrimen/otto"

	"verif/harness/internal/core"
)

// bridgeBusy: the promptness family over the dimension "script code invoked from Go code".
// A busy loop (bare, or after logging through H) sits in the valueOf / toString of a value
// that the bridge converts (a store into a bridged Go container, a parameter of a bridged Go
// function, the result of a JavaScript callback called from Go, a property key of a bridged
// map) or in an accessor / callback the bridge calls while it builds a Go value.  The
// statement is wrapped in try / catch / finally whose handlers log.  Oracle (the
// specification's rule that the interrupt completion is not catchable, ES5Core `intr`):
// Run unwinds with exactly the interrupt's panic value, nothing is logged after the loop was
// entered, the runtime is at rest and a follow-up script runs.  The same contexts are then
// run with a host function panicking with the Go string "boom" in place of the loop
// (ES5Core `hpanic`: a catchable thrown string): the handler must see exactly "boom".

type bridgeSt struct {
	N int
	S string
}

type bridgeVM struct {
	vm      *otto.Otto
	log     []string
	entered chan struct{}
}

func newBridgeVM() *bridgeVM {
	b := &bridgeVM{vm: otto.New(), entered: make(chan struct{}, 4)}
	vm := b.vm
	vm.Set("H", func(call otto.FunctionCall) otto.Value {
		parts := make([]string, len(call.ArgumentList))
		for i, a := range call.ArgumentList {
			parts[i] = a.String()
		}
		b.log = append(b.log, strings.Join(parts, " "))
		if len(parts) > 0 && parts[0] == "in" {
			select {
			case b.entered <- struct{}{}:
			default:
			}
		}
		return otto.UndefinedValue()
	})
	vm.Set("P", func(call otto.FunctionCall) otto.Value {
		b.log = append(b.log, "P")
		panic("boom")
	})
	vm.Set("gs", []int{1, 2, 3})
	vm.Set("ga", &[2]int{1, 2})
	vm.Set("gm", map[string]int{"k": 1})
	vm.Set("gmf", map[string]float64{"k": 1})
	vm.Set("gms", map[string]string{"k": "v"})
	vm.Set("gss", []string{"a", "b"})
	vm.Set("gp", &bridgeSt{1, "s"})
	vm.Set("fi", func(int) int { return 0 })
	vm.Set("ff", func(float64) int { return 0 })
	vm.Set("fu", func(uint8) int { return 0 })
	vm.Set("fs", func(string) int { return 0 })
	vm.Set("fsl", func([]int) int { return 0 })
	vm.Set("fss", func([]string) int { return 0 })
	vm.Set("fmap", func(map[string]int) int { return 0 })
	vm.Set("fst", func(bridgeSt) int { return 0 })
	vm.Set("fvar", func(...int) int { return 0 })
	vm.Set("fvars", func(...string) int { return 0 })
	vm.Set("fmaps", func(map[string]string) int { return 0 })
	vm.Set("fcb", func(f func(int) int) int { return f(1) })
	vm.Set("fcbs", func(f func() string) string { return f() })
	vm.Set("fcbv", func(f func(otto.Value) otto.Value) int { f(otto.NullValue()); return 0 })
	return b
}

// contexts taking the object under conversion (%s).  Only contexts in which otto's bridge
// does run script code are listed: an object for an int / float / uint parameter, element or
// struct field of a PARAMETER (fi(V), fsl([V]), fmap({k: V}), fst({N: V}), the int result of a
// callback, gp.N = V) is refused with a TypeError without calling valueOf (probed with
// VERIF_C18_BRIDGE_PROBE=1), so the numeric targets appear as stores and the parameters as
// strings.  A context that ends without entering the loop is reported, so the list cannot rot.
var bridgeValueCtx = []string{
	// (1) stores into bridged containers
	"gs[0] = %s", "gs[2] = %s", "ga[1] = %s", "gm.k = %s", "gm[\"fresh\"] = %s", "gmf.k = %s", "gms.k = %s", "gss[1] = %s", "gp.S = %s",
	// (2) parameters of bridged functions
	"fs(%s)", "fss([%s])", "fss([\"a\", %s])", "fmaps({k: %s})", "fst({S: %s})", "fst({N: 1, S: %s})", "fvars(\"a\", %s)", "fs.call(null, %s)", "fs.apply(null, [%s])",
	// (3) the result of a JavaScript callback called from Go
	"fcbs(function(){ return %s })",
	// (5) property keys of bridged containers
	"gm[%s]", "gm[%s] = 1", "%s in gm", "delete gm[%s]", "gs[%s]", "gp[%s]",
}

// contexts taking a function body (%s) that the bridge calls
var bridgeBodyCtx = []string{
	"fcb(function(){ %s })", "fcbs(function(){ %s })", "fcbv(function(){ %s })",
	// (4) accessors read while a Go value is built
	"fst({get N(){ %s }})", "fmap({get k(){ %s }})", "var a = [1]; Object.defineProperty(a, \"0\", {get: function(){ %s }}); fsl(a)",
}

var bridgeObjForms = []string{"{valueOf: function(){ %[1]s }, toString: function(){ %[1]s }}", "{toString: function(){ %[1]s }}"}

type bridgeStmt struct{ src, ctx string }

func bridgeStatements(body string) []bridgeStmt {
	var out []bridgeStmt
	for _, cx := range bridgeValueCtx {
		for _, of := range bridgeObjForms {
			out = append(out, bridgeStmt{fmt.Sprintf(cx, "("+fmt.Sprintf(of, body)+")"), cx})
		}
	}
	for _, cx := range bridgeBodyCtx {
		out = append(out, bridgeStmt{fmt.Sprintf(cx, body), cx})
	}
	return out
}

// D18_interrupt_in_tostring_of_struct_field_store (open finding): ONE call site - the store of an
// object into a string field of a bridged struct calls its toString through the API Value.Call -
// in ONE context - global code, where the API boundary takes the runtime to be at rest - hands
// the interrupt's value to the script as an ordinary host panic: the catch clause receives it.
const devStructStore = "D18_interrupt_in_tostring_of_struct_field_store"

func devStructStoreApplies(ctx string, wrap int) bool {
	return ctx == "gp.S = %s" && (wrap == 0 || wrap == 3)
}

const bridgePre = "var x=0, spin=true; function f(){ return true }; "
const bridgeTry = "try { %s; H(\"after\") } catch (e) { H(\"catch\", String(e)) } finally { H(\"finally\") }; H(\"end\")"

var bridgeWraps = []string{"%s", "(function(){ %s })()", "[1].forEach(function(){ %s })", "try { %s } catch (e2) { H(\"outer catch\") } finally { H(\"outer finally\") }"}

func bridgeBusy(c *core.Ctx) (int, error) {
	if os.Getenv("VERIF_C18_BRIDGE_PROBE") != "" {
		for _, body := range []string{"H(\"in\"); return 1", "P()"} {
			for _, st := range bridgeStatements(body) {
				b := newBridgeVM()
				var p any
				var err error
				func() {
					defer func() { p = recover() }()
					_, err = b.vm.Run(bridgePre + fmt.Sprintf(bridgeTry, st.src))
				}()
				fmt.Printf("PROBE %q -> %q panic=%v err=%v\n", st.src, b.log, p, err)
			}
		}
		return 0, nil
	}
	loops := []string{"for(;;){}", "while(spin){ x++ }", "do { f() } while(true);"}
	type job struct {
		src  string
		logs bool
		ctx  string
		wrap int
	}
	devOpen := false
	for _, id := range c.Findings.OpenIDs() {
		devOpen = devOpen || id == devStructStore
	}
	var jobs []job
	i := 0
	for _, l := range loops {
		for _, logs := range []bool{false, true} {
			body := l
			if logs {
				body = "H(\"in\"); " + l
			}
			for _, st := range bridgeStatements(body) {
				for wi, w := range bridgeWraps {
					i++
					if !c.Thorough() && (i+i/len(bridgeWraps)+int(c.Seed))%2 != 0 { // every context meets every wrap over its bodies
						continue
					}
					jobs = append(jobs, job{bridgePre + fmt.Sprintf(w, fmt.Sprintf(bridgeTry, st.src)), logs, st.ctx, wi})
				}
			}
		}
	}
	var mu sync.Mutex
	n := 0
	violate := func(msg, src string) {
		mu.Lock()
		defer mu.Unlock()
		c.Violate(msg, map[string]any{"source": src})
	}
	sem := make(chan struct{}, 24)
	var wg sync.WaitGroup
	for _, j := range jobs {
		wg.Add(1)
		sem <- struct{}{}
		go func(j job) {
			defer wg.Done()
			defer func() { <-sem }()
			src := j.src
			b := newBridgeVM()
			vm := b.vm
			vm.Interrupt = make(chan func(), []int{1, 0, 3}[len(src)%3])
			payload := &payloadT{"bridge"}
			doneCh := make(chan any, 1)
			var runErr error
			go func() {
				defer func() { doneCh <- recover() }()
				_, runErr = vm.Run(src)
			}()
			var early any
			ended := false
			if j.logs {
				select {
				case <-b.entered:
				case early = <-doneCh:
					ended = true
				case <-time.After(10 * time.Second):
				}
			} else {
				time.Sleep(20 * time.Millisecond)
			}
			if ended {
				violate(fmt.Sprintf("bridge loop %q: Run ended with %v (error %v, log %q) before any interrupt", src, early, runErr, b.log), src)
				return
			}
			go func() { vm.Interrupt <- func() { panic(payload) } }()
			select {
			case p := <-doneCh:
				want := []string{}
				if j.logs {
					want = []string{"in"}
				}
				if devOpen && devStructStoreApplies(j.ctx, j.wrap) && p == nil && runErr == nil {
					dev := append(append([]string{}, want...), "catch [object Object]", "finally", "end")
					if j.wrap == 3 {
						dev = append(dev, "outer finally")
					}
					if strings.Join(b.log, "|") == strings.Join(dev, "|") {
						c.Hit(devStructStore)
						mu.Lock()
						n++
						mu.Unlock()
						return
					}
				}
				if p != any(payload) {
					violate(fmt.Sprintf("bridge loop %q: Run ended with %v (error %v, log %q) instead of unwinding with the interrupt's panic", src, p, runErr, b.log), src)
					return
				}
				if strings.Join(b.log, "|") != strings.Join(want, "|") {
					violate(fmt.Sprintf("bridge loop %q: log %q after the interrupt, required %q (a handler of the script ran)", src, b.log, want), src)
					return
				}
				if d, l := otto.VerifScopeDepth(vm)-restDepth(), otto.VerifLabelCount(vm); d != 0 || l != 0 {
					violate(fmt.Sprintf("bridge loop %q: runtime not at rest after the interrupt (context depth +%d, labels %d)", src, d, l), src)
					return
				}
				vm.Interrupt = nil
				b.log = nil
				v, err := vm.Run("H(\"follow\", 1+1, typeof gs, typeof fi); 7")
				if err != nil || v.String() != "7" || strings.Join(b.log, "|") != "follow 2 object function" {
					violate(fmt.Sprintf("bridge loop %q: follow-up script gave %v, error %v, log %q", src, v, err, b.log), src)
					return
				}
				mu.Lock()
				n++
				mu.Unlock()
			case <-time.After(10 * time.Second):
				violate(fmt.Sprintf("bridge loop %q was not interrupted within 10 s", src), src)
			}
		}(j)
	}
	wg.Wait()

	// host panic with the Go string "boom" in the same contexts: a catchable thrown string
	for k, st := range bridgeStatements("P()") {
		w := bridgeWraps[k%len(bridgeWraps)]
		src := bridgePre + fmt.Sprintf(w, fmt.Sprintf(bridgeTry, st.src))
		b := newBridgeVM()
		var p any
		var err error
		func() {
			defer func() { p = recover() }()
			_, err = b.vm.Run(src)
		}()
		got := strings.Join(b.log, "|")
		want := "P|catch boom|finally|end"
		if strings.Contains(w, "outer finally") {
			want += "|outer finally"
		}
		if p != nil || err != nil || got != want {
			c.Violate(fmt.Sprintf("bridge host panic %q: panic %v, error %v, log %q; required the handler to see the thrown string: %q", src, p, err, got, want), map[string]any{"source": src})
			continue
		}
		n++
	}
	return n, nil
}
