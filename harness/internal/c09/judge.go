package c09

// Judge direction (code -> specification): seeded random cases from a wider
// domain than spec/C09.tla enumerates are rendered, evaluated on the
// implementation and recorded; spec/C09Judge.tla recomputes every outcome with
// spec/StrOps.tla and reports the lines it does not accept.  Nothing here
// computes an expected result: Go draws inputs, renders them as JavaScript
// text, projects the observed outcome and compares verdicts.

import (
	"bytes"
	"encoding/json"
	"fmt"
	"math"
	"math/rand"
	"sync"
	"time"

	"github.com/robertkrimen/otto"

	"verif/harness/internal/core"
	"verif/harness/internal/gen"
	"verif/harness/internal/jsx"
	"verif/harness/internal/num"
	"verif/harness/internal/tlc"
)

type val = map[string]any

func strV(u []int) val {
	if u == nil {
		u = []int{}
	}
	return val{"t": "str", "s": u}
}
func strObj(u []int) val {
	if u == nil {
		u = []int{}
	}
	return val{"t": "strobj", "s": u}
}
func numV(f float64) val { return val{"t": "num", "n": num.Of(f)} }
func boolV(b bool) val   { return val{"t": "bool", "b": b} }

var undefV = val{"t": "undef"}
var nullV = val{"t": "null"}

// the character pool: each entry is one character as UTF-16 code units.
// cased marks the letters whose simple case mapping StrOps.tla tabulates;
// every other entry has no case mapping at all.
var (
	poolASCII  = [][]int{{97}, {98}, {99}, {65}, {90}, {122}, {48}, {57}, {32}, {45}, {46}, {44}, {95}, {34}, {92}}
	poolCased  = [][]int{{233}, {241}, {197}, {255}, {181}, {937}, {969}, {962}, {1078}, {1071}, {1104}, {201}, {352}, {353}}
	poolOther  = [][]int{{215}, {20013}, {12354}, {65533}, {65535}, {57344}, {8232}, {160}, {65279}, {12288}, {133}, {8204}, {0}, {9}, {10}}
	poolAstral = [][]int{{55357, 56832}, {55296, 56320}, {56319, 57343}, {55349, 56476}, {55357, 56397}}
	wsUnits    = []int{9, 10, 11, 12, 13, 32, 160, 5760, 8192, 8195, 8202, 8232, 8233, 8239, 8287, 12288, 65279}
)

type jgen struct{ r *rand.Rand }

func (g *jgen) char() []int {
	switch k := g.r.Intn(10); {
	case k < 4:
		return poolASCII[g.r.Intn(len(poolASCII))]
	case k < 6:
		return poolCased[g.r.Intn(len(poolCased))]
	case k < 8:
		return poolAstral[g.r.Intn(len(poolAstral))]
	default:
		return poolOther[g.r.Intn(len(poolOther))]
	}
}

// word returns a random string as a list of characters.
func (g *jgen) word(maxChars int) [][]int {
	n := g.r.Intn(maxChars + 1)
	var w [][]int
	if n >= 2 && g.r.Intn(4) == 0 { // a repeated motif, for overlapping matches
		m := [][]int{g.char()}
		if g.r.Intn(2) == 0 {
			m = append(m, g.char())
		}
		for len(w) < n {
			w = append(w, m...)
		}
		return w
	}
	for i := 0; i < n; i++ {
		w = append(w, g.char())
	}
	return w
}

func flat(w [][]int) []int {
	u := []int{}
	for _, c := range w {
		u = append(u, c...)
	}
	return u
}

// position argument for a string of n code units
func (g *jgen) pos(n int) val {
	switch k := g.r.Intn(20); {
	case k < 9:
		return numV(float64(g.r.Intn(n+7) - 3))
	case k < 11:
		return numV(float64(g.r.Intn(2*n+7)-n-3) + 0.5)
	case k == 11:
		return numV(-float64(g.r.Intn(2*n + 4)))
	case k == 12:
		return numV(math.NaN())
	case k == 13:
		return numV(math.Inf(1 - 2*g.r.Intn(2)))
	case k == 14:
		return undefV
	case k == 15:
		return []val{numV(math.Copysign(0, -1)), numV(4294967296 + float64(g.r.Intn(4))), numV(-4294967295), numV(2147483648), numV(1e19), numV(9007199254740992)}[g.r.Intn(6)]
	case k == 16:
		return strV([]int{48 + g.r.Intn(10)})
	case k == 17:
		return []val{nullV, boolV(true), boolV(false), strV([]int{32, 50, 32}), strV([]int{120}), strV([]int{})}[g.r.Intn(6)]
	default:
		return numV(float64(g.r.Intn(n + 2)))
	}
}

// search string: a character-aligned piece of w, or random characters
func (g *jgen) search(w [][]int) []int {
	if len(w) > 0 && g.r.Intn(3) != 0 {
		i := g.r.Intn(len(w))
		j := i + g.r.Intn(3)
		if j > len(w) {
			j = len(w)
		}
		return flat(w[i:j])
	}
	return flat(g.word(2))
}

func (g *jgen) prim() val {
	switch g.r.Intn(8) {
	case 0:
		return undefV
	case 1:
		return nullV
	case 2:
		return boolV(g.r.Intn(2) == 0)
	case 3:
		return []val{numV(0), numV(math.Copysign(0, -1)), numV(math.NaN()), numV(math.Inf(-1)), numV(0.5), numV(1e21), numV(-12)}[g.r.Intn(7)]
	case 4:
		return numV(float64(g.r.Intn(2000) - 1000))
	default:
		return strV(flat(g.word(3)))
	}
}

type jcase map[string]any

func (g *jgen) next() jcase {
	w := g.word(10)
	s := flat(w)
	n := len(s)
	call := func(m string, th val, st string, a ...val) jcase {
		if a == nil {
			a = []val{}
		}
		return jcase{"f": "call", "m": m, "th": th, "st": st, "a": a}
	}
	args := func(k int) []val { // 0..k position arguments
		a := []val{}
		for i := g.r.Intn(k + 1); i > 0; i-- {
			a = append(a, g.pos(n))
		}
		return a
	}
	switch k := g.r.Intn(20); {
	case k < 2:
		m := []string{"charAt", "charCodeAt"}[g.r.Intn(2)]
		switch g.r.Intn(6) {
		case 0:
			return call(m, strObj(s), "member", args(1)...)
		case 1:
			return call(m, strV(s), "call", args(1)...)
		default:
			return call(m, strV(s), "member", args(1)...)
		}
	case k < 7:
		m := []string{"slice", "substring", "substr"}[g.r.Intn(3)]
		return call(m, strV(s), "member", args(2)...)
	case k < 11:
		m := []string{"indexOf", "lastIndexOf"}[g.r.Intn(2)]
		a := []val{strV(g.search(w))}
		if g.r.Intn(4) != 0 {
			a = append(a, g.pos(n))
		}
		return call(m, strV(s), "member", a...)
	case k < 13:
		a := []val{}
		if g.r.Intn(8) != 0 {
			a = append(a, strV(g.search(w)))
			if g.r.Intn(2) == 0 {
				a = append(a, []val{undefV, numV(0), numV(1), numV(2), numV(3), numV(5), numV(-1), numV(4294967297), numV(math.NaN()), numV(1.5)}[g.r.Intn(10)])
			}
		}
		return call("split", strV(s), "member", a...)
	case k == 13:
		a := []val{}
		for i := g.r.Intn(4); i > 0; i-- {
			a = append(a, g.prim())
		}
		return call("concat", strV(s), "member", a...)
	case k == 14:
		pad := func() []int {
			p := []int{}
			for i := g.r.Intn(4); i > 0; i-- {
				p = append(p, wsUnits[g.r.Intn(len(wsUnits))])
			}
			return p
		}
		t := append(append(pad(), s...), pad()...)
		return call("trim", strV(t), "member")
	case k == 15:
		// case mapping: characters with a tabulated mapping or none
		return call([]string{"toLowerCase", "toUpperCase"}[g.r.Intn(2)], strV(s), "member")
	case k == 16:
		a := []val{}
		for i := g.r.Intn(5); i > 0; i-- {
			switch g.r.Intn(5) {
			case 0:
				a = append(a, numV(float64(g.r.Intn(400000)-130000)))
			case 1:
				a = append(a, numV(float64(g.r.Intn(70000))+0.75))
			case 2:
				a = append(a, []val{numV(55296 + float64(g.r.Intn(2048))), numV(65536 * float64(g.r.Intn(70000))), numV(math.NaN()), numV(math.Inf(1))}[g.r.Intn(4)])
			default:
				a = append(a, numV(float64(32+g.r.Intn(96))))
			}
		}
		return jcase{"f": "fcc", "a": a}
	case k == 17:
		var key val
		switch g.r.Intn(4) {
		case 0:
			key = numV(float64(g.r.Intn(n+3) - 1))
		case 1:
			key = strV(jsxDigits(g.r.Intn(n + 2)))
		case 2:
			key = strV(append([]int{[]int{48, 43, 45, 32}[g.r.Intn(4)]}, jsxDigits(g.r.Intn(n+1))...))
		default:
			key = []val{strV([]int{108, 101, 110, 103, 116, 104}), numV(0.5), numV(math.NaN()), strV([]int{49, 46, 48})}[g.r.Intn(4)]
		}
		return jcase{"f": "acc", "form": []string{"get", "getobj", "desc", "in", "hasOwn", "put", "delete"}[g.r.Intn(7)], "s": s, "k": key}
	case k == 18:
		if g.r.Intn(2) == 0 {
			return jcase{"f": "len", "th": strV(s)}
		}
		return jcase{"f": "len", "th": strObj(s)}
	default:
		// generic receivers
		th := []val{numV(float64(g.r.Intn(100000) - 50000)), boolV(g.r.Intn(2) == 0), numV(1.5), numV(math.NaN()), strObj(s)}[g.r.Intn(5)]
		m := []string{"slice", "substring", "indexOf", "lastIndexOf", "concat", "trim", "split", "toUpperCase"}[g.r.Intn(8)]
		switch m {
		case "indexOf", "lastIndexOf", "split":
			return call(m, th, "call", strV([]int{48 + g.r.Intn(10)}), g.pos(5))
		case "slice", "substring":
			return call(m, th, "call", args(2)...)
		}
		return call(m, th, "call")
	}
}

func jsxDigits(n int) []int {
	var d []int
	for _, c := range fmt.Sprint(n) {
		d = append(d, int(c))
	}
	return d
}

// rendering (mirrors Js0/Js of spec/C09.tla): parts for gen.Render
type parts []json.RawMessage

func (p *parts) text(s string) { b, _ := json.Marshal(s); *p = append(*p, b) }
func (p *parts) lit(v val) {
	if v["t"] == "strobj" {
		p.text("new String(")
		p.lit(strV(v["s"].([]int)))
		p.text(")")
		return
	}
	b, _ := json.Marshal(map[string]any{"lit": v})
	*p = append(*p, b)
}
func (p *parts) list(vs []val) {
	for i, v := range vs {
		if i > 0 {
			p.text(",")
		}
		p.lit(v)
	}
}

func render(c jcase) (string, map[string]float64, error) {
	var p parts
	p.text("G(function(){return ")
	switch c["f"] {
	case "call":
		m, th, a := c["m"].(string), c["th"].(val), c["a"].([]val)
		if c["st"] == "member" {
			p.text("(")
			p.lit(th)
			p.text(")." + m + "(")
			p.list(a)
		} else {
			p.text("String.prototype." + m + ".call(")
			p.list(append([]val{th}, a...))
		}
		p.text(")")
	case "fcc":
		p.text("String.fromCharCode(")
		p.list(c["a"].([]val))
		p.text(")")
	case "len":
		p.text("(")
		p.lit(c["th"].(val))
		p.text(").length")
	case "acc":
		s, k := strV(c["s"].([]int)), c["k"].(val)
		switch c["form"] {
		case "get":
			p.text("(")
			p.lit(s)
			p.text(")[")
			p.lit(k)
			p.text("]")
		case "getobj":
			p.text("new String(")
			p.lit(s)
			p.text(")[")
			p.lit(k)
			p.text("]")
		case "in":
			p.text("(")
			p.lit(k)
			p.text(") in new String(")
			p.lit(s)
			p.text(")")
		case "hasOwn":
			p.text("new String(")
			p.lit(s)
			p.text(").hasOwnProperty(")
			p.lit(k)
			p.text(")")
		default: // desc, put, delete
			fn := map[string]string{"desc": "DESC", "put": "PUT", "delete": "DEL"}[c["form"].(string)]
			p.text(fn + "(new String(")
			p.lit(s)
			p.text("),")
			p.lit(k)
			p.text(")")
		}
	}
	p.text(";})")
	return gen.Render(p)
}

type jvm struct {
	vm   *otto.Otto
	used int
}

func (b *jvm) eval(src string, consts map[string]float64) (out string, err error) {
	defer func() {
		if r := recover(); r != nil {
			b.vm = nil
			out, err = "", fmt.Errorf("GO PANIC: %v", r)
		}
	}()
	if b.vm == nil || b.used >= 200 {
		vm := otto.New()
		if e := vm.Set("NUMENC", func(call otto.FunctionCall) otto.Value {
			f, _ := call.Argument(0).ToFloat()
			v, _ := otto.ToValue(jsx.NumEnc(f))
			return v
		}); e != nil {
			return "", e
		}
		if _, e := vm.Run(gen.Prelude + Prelude); e != nil {
			return "", fmt.Errorf("prelude: %v", e)
		}
		b.vm, b.used = vm, 0
	}
	b.used++
	for k, f := range consts {
		if e := b.vm.Set(k, f); e != nil {
			return "", e
		}
	}
	v, e := b.vm.Call("RUN", nil, src)
	if e != nil {
		b.vm = nil
		return "", fmt.Errorf("harness RUN failed: %v", e)
	}
	return v.String(), nil
}

// judge draws n cases, evaluates them and lets TLC judge the record.
func judge(c *core.Ctx, n int) (map[string]any, error) {
	g := &jgen{r: rand.New(rand.NewSource(c.Seed*7919 + 17))}
	cases := make([]jcase, n)
	srcs := make([]string, n)
	consts := make([]map[string]float64, n)
	for i := range cases {
		cases[i] = g.next()
		s, k, err := render(cases[i])
		if err != nil {
			return nil, fmt.Errorf("judge render: %v", err)
		}
		srcs[i], consts[i] = s, k
	}
	outs := make([]string, n)
	errs := make([]error, n)
	var wg sync.WaitGroup
	w := c.Workers
	for k := 0; k < w; k++ {
		wg.Add(1)
		go func(k int) {
			defer wg.Done()
			box := &jvm{}
			for i := k; i < n; i += w {
				outs[i], errs[i] = box.eval(srcs[i], consts[i])
			}
		}(k)
	}
	wg.Wait()
	var trace bytes.Buffer
	panics := 0
	for i := range cases {
		if errs[i] != nil {
			// a Go panic that escaped even the two try levels of the harness: no outcome to judge
			panics++
			c.Violate(fmt.Sprintf("%s  =>  %v", srcs[i], errs[i]), map[string]any{"js": srcs[i], "consts": consts[i], "case": cases[i]})
			continue
		}
		ev := map[string]any{"i": i + 1, "got": json.RawMessage(outs[i])}
		for k, v := range cases[i] {
			ev[k] = v
		}
		b, err := json.Marshal(ev)
		if err != nil {
			return nil, err
		}
		trace.Write(b)
		trace.WriteByte('\n')
	}
	// canary (binding self-test of the judge): a record whose observation is corrupted
	// ("abc".slice(1) recorded as "b") must be rejected.
	canary, _ := json.Marshal(map[string]any{"i": n + 1, "f": "call", "m": "slice", "th": strV([]int{97, 98, 99}), "st": "member",
		"a": []val{numV(1)}, "got": map[string]any{"thr": "", "v": strV([]int{98}), "log": []string{}}})
	trace.Write(canary)
	trace.WriteByte('\n')
	canaryRejected := false
	nb := 4 * c.Workers
	cfgText := fmt.Sprintf("CONSTANTS\n OpenDev = %s\n Tier = \"quick\"\n NSel = 0\n NB = %d\nINIT JInit\nNEXT JNext\nINVARIANT Judge\nCHECK_DEADLOCK FALSE\n",
		core.TLASet(c.Findings.OpenIDs()), nb)
	var mu sync.Mutex
	var rejected, known int64
	res, err := tlc.Run(tlc.Opts{SpecDir: c.SpecDir, Module: "C09Judge", Cfg: cfgText, Workers: c.Workers,
		Files: map[string][]byte{"trace.ndjson": trace.Bytes()}, Timeout: 30 * time.Minute}, func(p []byte) {
		var m struct {
			I     int             `json:"i"`
			Want  json.RawMessage `json:"want"`
			Dev   json.RawMessage `json:"dev"`
			Known bool            `json:"known"`
		}
		if json.Unmarshal(p, &m) == nil && m.I == n+1 {
			mu.Lock()
			canaryRejected = !m.Known
			mu.Unlock()
			return
		}
		if json.Unmarshal(p, &m) != nil || m.I < 1 || m.I > n {
			mu.Lock()
			rejected++
			mu.Unlock()
			c.Violate("judge: undecodable verdict "+string(p), nil)
			return
		}
		if m.Known {
			mu.Lock()
			known++
			mu.Unlock()
			c.Hit("deviation")
			return
		}
		i := m.I - 1
		// reproduce on a fresh runtime before reporting
		out2, err2 := (&jvm{}).eval(srcs[i], consts[i])
		if err2 != nil || out2 != outs[i] {
			c.Note("judge: case not reproducible on a fresh runtime: %s", srcs[i])
			return
		}
		mu.Lock()
		rejected++
		mu.Unlock()
		c.Violate(fmt.Sprintf("%s  =>  implementation %s ; specification %s", srcs[i], outs[i], m.Want),
			map[string]any{"js": srcs[i], "consts": consts[i], "case": cases[i], "observed": json.RawMessage(outs[i]), "expected": m.Want, "under_deviations": m.Dev})
	})
	if err != nil {
		return nil, fmt.Errorf("judge: %v", err)
	}
	if !canaryRejected {
		return nil, fmt.Errorf("judge self-test: the corrupted record was accepted")
	}
	sample := "none"
	if n > 0 {
		sample = srcs[0] + " => " + outs[0]
	}
	return map[string]any{"random_cases": n, "accepted_strictly": int64(n) - known - rejected - int64(panics), "accepted_as_known_deviation": known,
		"rejected": rejected, "go_panics": panics, "corrupted_canary_rejected": canaryRejected, "tlc_states": res.Distinct, "tlc_wall_s": res.Wall, "sample": sample,
		"domain": "strings of 0..10 characters over a 49-character pool (ASCII, Latin-1, Greek, Cyrillic, CJK, specials, 5 astral pairs); random positions, search strings, separators, limits, keys"}, nil
}
