// Package c09: String methods with UTF-16 code-unit indexing
// (spec/StrOps.tla, spec/C09.tla).  A thin client of the generic
// spec-to-code driver: TLC enumerates the cases and computes the outcome ES5
// prescribes; this package only adds the JavaScript-side projection helpers.
package c09

import (
	"fmt"
	"os"
	"path/filepath"

	"verif/harness/internal/core"
	"verif/harness/internal/gen"
	"verif/harness/internal/tlc"
)

// Prelude: projection helpers.  Strings are read back with charCodeAt loops
// (UNITS, in the shared prelude); arrays are projected element by element.
//
// G runs the case inside an inner try so that a Go run-time panic that is not
// convertible to a JavaScript value (a struct such as runtime.boundsError)
// surfaces as a catchable exception of the OUTER try in RUN instead of
// aborting the whole batch; conforming results pass through unchanged.
const Prelude = `
function ENCOBJ(v){
  if (Object.prototype.toString.call(v) === "[object Array]") {
    var a = [];
    for (var i = 0; i < v.length; i++) a.push(ENCV(v[i]));
    return {t:"arr", a:a};
  }
  return {t:"obj", cls:Object.prototype.toString.call(v)};
}
function G(f){ try { return f(); } finally { } }
// a String object with an own scripted toString (BEH, REG: shared prelude)
function SOX(id, s, ts){ var o = new String(s); BEH(o, "toString", "ts", ts, id); REG.push([o, {t:"strobjx", id:id}]); return o; }
function DESC(o, k){
  var d = Object.getOwnPropertyDescriptor(o, k);
  return d === undefined ? undefined : [d.value, d.writable, d.enumerable, d.configurable];
}
function PUT(o, k){ o[k] = "Z"; return o[k]; }
function DEL(o, k){ var r = delete o[k]; return [r, o[k]]; }
function SGN(x){ return typeof x !== "number" || x !== x ? NaN : (x < 0 ? -1 : (x > 0 ? 1 : 0)); }
// 15.4.4.11 consistency of an implementation-defined comparison: antisymmetry
function ANTI(x, y){ var a = SGN(x.localeCompare(y)), b = SGN(y.localeCompare(x)); return a === -b || (a === 0 && b === 0); }
// ... and transitivity of <=, >= and = on one triple
function LCT(x, y, z){
  var a = SGN(x.localeCompare(y)), b = SGN(y.localeCompare(z)), c = SGN(x.localeCompare(z));
  if (a !== a || b !== b || c !== c) return false;
  if (a <= 0 && b <= 0 && !(c <= 0)) return false;
  if (a >= 0 && b >= 0 && !(c >= 0)) return false;
  if (a === 0 && b === 0 && c !== 0) return false;
  if (a < 0 && b <= 0 && !(c < 0)) return false;
  if (a <= 0 && b < 0 && !(c < 0)) return false;
  return true;
}
`

func cfg(c *core.Ctx, nsel int) string {
	return fmt.Sprintf("CONSTANTS\n OpenDev = %s\n Tier = %q\n NSel = %d\nINIT Init\nNEXT Next\nINVARIANT Emit\nCHECK_DEADLOCK FALSE\n",
		core.TLASet(c.Findings.OpenIDs()), c.Tier, nsel)
}

var Spec = &gen.Spec{
	Module:  "C09",
	Prelude: Prelude,
	PerVM:   200,
	Runs: func(c *core.Ctx) []gen.RunCfg {
		return []gen.RunCfg{{Name: "all-families-" + c.Tier, Cfg: cfg(c, 0)}}
	},
	Assume: []string{
		"strings: every word of at most 3 characters over {a, U+00E9, U+4E2D, U+1F600 as a surrogate pair} (quick) plus {B, 0, U+03A9, U+0436} (thorough); only well-formed UTF-16 is generated as input",
		"localeCompare: only equality (+0) and the 15.4.4.11 consistency conditions are required (the order itself is implementation-defined)",
		"toLowerCase/toUpperCase: letters with a simple, context-free mapping only (no SpecialCasing.txt entries, no U+03A3, no astral letters)",
		"trim: U+180E and U+200B are not generated (their WhiteSpace status depends on the Unicode version)",
		"substr: undefined/null receivers are not generated (Annex B.2.3 converts them, the property statement rejects them)",
	},
}

// mutation is the seeded defect of the binding self-test: the harness-side
// adapter swaps two built-ins, so the implementation under test no longer
// does what the specification says and the check must reject it.
const mutation = `
(function(){ var a = String.prototype.slice; String.prototype.slice = String.prototype.substring; String.prototype.substring = a; })();
`

// selfTest replays a random sample of the generated cases (NSel per block)
// against the mutated adapter on a private context and returns the number of
// cases evaluated and rejected.
func selfTest(c *core.Ctx) (cases, rejected int64, err error) {
	mc, err := core.NewCtx(c.Property+"-selftest", "quick")
	if err != nil {
		return 0, 0, err
	}
	mc.Seed = c.Seed
	defer os.RemoveAll(filepath.Join(core.Root, "replays", mc.Property))
	dump := os.Getenv("VERIF_DEBUG_DUMP")
	os.Unsetenv("VERIF_DEBUG_DUMP")
	defer os.Setenv("VERIF_DEBUG_DUMP", dump)
	spec := *Spec
	spec.Prelude = Prelude + mutation
	spec.Runs = func(*core.Ctx) []gen.RunCfg {
		return []gen.RunCfg{{Name: "selftest-sample", Cfg: cfg(mc, 6), Opts: tlc.Opts{Seed: c.Seed}}}
	}
	cov, _, err := gen.Check(mc, &spec)
	if err != nil {
		return 0, 0, err
	}
	n, _ := cov["evaluations"].(int64)
	return n, int64(len(mc.Violations())), nil
}

func Check(c *core.Ctx) (map[string]any, []string, error) {
	cov, assume, err := gen.Check(c, Spec)
	if err != nil {
		return nil, nil, err
	}
	n, rej, err := selfTest(c)
	if err != nil {
		return nil, nil, fmt.Errorf("binding self-test: %v", err)
	}
	if rej == 0 {
		return nil, nil, fmt.Errorf("binding self-test: the mutated adapter (slice/substring swapped) was accepted on %d cases", n)
	}
	cov["binding_selftest"] = map[string]any{"mutation": "harness adapter swaps String.prototype.slice and substring",
		"cases_sampled": n, "cases_rejected": rej}
	nj := 20000
	if c.Thorough() {
		nj = 150000
	}
	jc, err := judge(c, nj)
	if err != nil {
		return nil, nil, err
	}
	cov["judge_direction"] = jc
	if v, ok := cov["traces_validated_against_impl"].(int64); ok {
		cov["traces_validated_against_impl"] = v + int64(nj)
	}
	return cov, assume, nil
}
