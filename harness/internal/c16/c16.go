// Package c16 binds spec/Bridge.tla + spec/C16.tla to otto's Go bridge: Go
// functions of every parameter type are registered by reflection and called
// from scripts with the generated arguments (what arrived inside the callee is
// the observation), and live slices, maps and structs are driven through the
// generated histories of script-side and Go-side steps, comparing after each
// history the thrown class, the value of the last step, the JavaScript view and
// the Go view with what the specification requires.
package c16

import (
	"bytes"
	"encoding/json"
	"fmt"
	"reflect"
	"sort"
	"strings"
	"sync"
	"sync/atomic"
	"time"

	"github.com/robertkrimen/otto"

	"verif/harness/internal/bridge"
	"verif/harness/internal/core"
	"verif/harness/internal/gen"
	"verif/harness/internal/jsx"
	"verif/harness/internal/tlc"
)

type M = map[string]any

const prelude = gen.Prelude + bridge.Prelude + `
var THR = "none", RET, SEEN;
function CLS(e){ return (e instanceof Error) ? e.name : "value"; }
`

type line struct {
	C    json.RawMessage   `json:"c"`
	Js   []json.RawMessage `json:"js"`
	Cont json.RawMessage   `json:"cont"`
	Path []M               `json:"path"`
	Step M                 `json:"step"`
	Exp  json.RawMessage   `json:"exp"`
	Dev  []json.RawMessage `json:"dev"`
}

var mutate atomic.Bool

func guard(f func()) (panicked any) {
	defer func() {
		if r := recover(); r != nil {
			panicked = r
		}
	}()
	f()
	return nil
}

// runStmt evaluates one script statement of the form "THR='none'; try { ...; THR='' } catch (e) { THR = CLS(e) }"
// and classifies the outcome: "" | error class caught by the script | "value" | "uncaught:<class>" | "gopanic".
func runStmt(vm *otto.Otto, src string) string {
	var err error
	if p := guard(func() { _, err = vm.Run(src) }); p != nil {
		return "gopanic"
	}
	if err != nil {
		return "uncaught:" + bridge.ErrClass(err)
	}
	v, e := vm.Get("THR")
	if e != nil {
		return "THR unreadable"
	}
	return v.String()
}

func wrap(body string) string {
	return "THR = 'none'; RET = undefined; try { " + body + "; THR = ''; } catch (e) { THR = CLS(e); }"
}

func setConsts(vm *otto.Otto, consts map[string]float64) error {
	for k, f := range consts {
		if err := vm.Set(k, f); err != nil {
			return err
		}
	}
	return nil
}

// ---- family cases ------------------------------------------------------------------

type caseT struct {
	Mode  string `json:"mode"`
	Name  []int  `json:"name"`
	Named bool   `json:"named"`
	Cont  string `json:"cont"`
	K     string `json:"k"`
	Where string `json:"where"`
	Sel   string `json:"sel"`
	D     any    `json:"d"`
	Fam   string `json:"fam"`
	Ty    any    `json:"ty"`
	Sig   M      `json:"sig"`
	Outs  []any  `json:"outs"`
	Body  M      `json:"body"`
	IsPtr bool   `json:"isptr"`
	Src   any    `json:"src"`
	Entry string `json:"entry"`
	Fns   []M    `json:"fns"`
}

var (
	typeFunc0 = reflect.TypeOf((func() interface{})(nil))
	typeFuncI = reflect.TypeOf((func(int) int)(nil))
)

// sigTypes gives the Go parameter types of a generated signature (the last one of a variadic
// signature as the slice type reflect.FuncOf wants); "func0" is func() interface{}, "func" func(int) int.
func sigTypes(sig M) ([]reflect.Type, bool, error) {
	variadic, _ := sig["variadic"].(bool)
	tys, _ := sig["ins"].([]any)
	var ins []reflect.Type
	for i, ty := range tys {
		var t reflect.Type
		var err error
		m, _ := ty.(map[string]any)
		switch m["k"] {
		case "func0":
			t = typeFunc0
		case "func":
			t = typeFuncI
		default:
			t, err = bridge.TypeOf(ty)
		}
		if err != nil {
			return nil, false, err
		}
		if variadic && i == len(tys)-1 {
			t = reflect.SliceOf(t)
		}
		ins = append(ins, t)
	}
	return ins, variadic, nil
}

// arrived projects what a Go callee received for a parameter of type t; a function is called
// (with 3 when it takes an argument) and stands for its result.
func arrived(a reflect.Value, t reflect.Type) any {
	if t.Kind() == reflect.Func {
		var in []reflect.Value
		if t.NumIn() == 1 {
			in = []reflect.Value{reflect.ValueOf(3)}
		}
		out := a.Call(in)
		return bridge.ProjectAs(out[0], t.Out(0))
	}
	return bridge.ProjectAs(a, t)
}

func observeJS(vm *otto.Otto, expr string) any {
	var jsv any
	r, e := vm.Run("JSON.stringify(OBS(" + expr + "))")
	if e != nil || json.Unmarshal([]byte(r.String()), &jsv) != nil {
		return M{"unobservable": fmt.Sprint(e)}
	}
	return jsv
}

func runCase(vm *otto.Otto, l *line) (any, string, error) {
	var c caseT
	if err := json.Unmarshal(l.C, &c); err != nil {
		return nil, "", err
	}
	src, consts, err := gen.Render(l.Js)
	if err != nil {
		return nil, "", err
	}
	if err := setConsts(vm, consts); err != nil {
		return nil, "", err
	}
	if _, err := vm.Run("LOG = []; REG = [];"); err != nil {
		return nil, "", err
	}
	switch c.Fam {
	case "param", "arity":
		var ins []reflect.Type
		variadic := false
		if c.Fam == "param" {
			t, err := bridge.TypeOf(c.Ty)
			if err != nil {
				return nil, src, err
			}
			ins = []reflect.Type{t}
		} else {
			variadic, _ = c.Sig["variadic"].(bool)
			tys, _ := c.Sig["ins"].([]any)
			for i, ty := range tys {
				t, err := bridge.TypeOf(ty)
				if err != nil {
					return nil, src, err
				}
				if variadic && i == len(tys)-1 {
					t = reflect.SliceOf(t)
				}
				ins = append(ins, t)
			}
		}
		var got []any
		called := 0
		fn := reflect.MakeFunc(reflect.FuncOf(ins, nil, variadic), func(args []reflect.Value) []reflect.Value {
			called++
			got = nil
			for i, a := range args {
				got = append(got, bridge.ProjectAs(a, ins[i]))
			}
			return nil
		})
		if err := vm.Set("P", fn.Interface()); err != nil {
			return nil, src, err
		}
		call := "P(" + src + ")"
		thr := runStmt(vm, wrap(call))
		if thr != "" {
			return M{"thr": thr}, call, nil
		}
		if called != 1 {
			return M{"thr": "", "called": called}, call, nil
		}
		if mutate.Load() {
			if len(got) > 0 {
				if m, ok := got[0].(M); ok && m["k"] == "int8" {
					got[0] = M{"k": "int8", "z": bridge.ZOfInt64(99)}
				}
			}
		}
		if c.Fam == "param" {
			return M{"thr": "", "g": got[0]}, call, nil
		}
		if got == nil {
			got = []any{}
		}
		return M{"thr": "", "g": got}, call, nil
	case "ret":
		var outs []reflect.Type
		var vals []reflect.Value
		for _, o := range c.Outs {
			v, err := bridge.Build(o)
			if err != nil {
				return nil, src, err
			}
			if v == nil {
				t, _ := bridge.ElemType("iface")
				outs = append(outs, t)
				vals = append(vals, reflect.Zero(t))
			} else {
				outs = append(outs, reflect.TypeOf(v))
				vals = append(vals, reflect.ValueOf(v))
			}
		}
		fn := reflect.MakeFunc(reflect.FuncOf(nil, outs, false), func([]reflect.Value) []reflect.Value { return vals })
		if err := vm.Set("R", fn.Interface()); err != nil {
			return nil, src, err
		}
		thr := runStmt(vm, wrap("RET = JSON.stringify(OBS(R()))"))
		if thr != "" {
			return M{"thr": thr}, "R()", nil
		}
		r, _ := vm.Get("RET")
		var j any
		if err := json.Unmarshal([]byte(r.String()), &j); err != nil {
			return M{"unparsable": r.String()}, "R()", nil
		}
		return M{"js": j}, "R()", nil
	case "func":
		var got *int
		if err := vm.Set("FN", func(f func(int) int) int { r := f(3); got = &r; return r }); err != nil {
			return nil, src, err
		}
		call := "FN(" + src + ")"
		thr := runStmt(vm, wrap(call))
		if thr != "" {
			return M{"thr": thr}, call, nil
		}
		if got == nil {
			return M{"thr": "", "called": 0}, call, nil
		}
		return M{"thr": "", "g": M{"k": "int", "z": bridge.ZOfInt64(int64(*got))}}, call, nil
	case "elemw":
		// one element write into a bridged []K, *[2]K or map[string]K whose element is 1
		et, err := bridge.ElemType(c.K)
		if err != nil {
			return nil, src, err
		}
		one := reflect.New(et).Elem()
		if one.CanInt() {
			one.SetInt(1)
		} else {
			one.SetUint(1)
		}
		var elem func() reflect.Value
		target := "c[0]"
		switch c.Cont {
		case "slice":
			sl := reflect.MakeSlice(reflect.SliceOf(et), 2, 2)
			sl.Index(0).Set(one)
			elem = func() reflect.Value { return sl.Index(0) }
			err = vm.Set("c", sl.Interface())
		case "array":
			ar := reflect.New(reflect.ArrayOf(2, et))
			ar.Elem().Index(0).Set(one)
			elem = func() reflect.Value { return ar.Elem().Index(0) }
			err = vm.Set("c", ar.Interface())
		case "map":
			mp := reflect.MakeMap(reflect.MapOf(reflect.TypeOf(""), et))
			mp.SetMapIndex(reflect.ValueOf("a"), one)
			elem = func() reflect.Value { return mp.MapIndex(reflect.ValueOf("a")) }
			target = `c["a"]`
			err = vm.Set("c", mp.Interface())
		default:
			err = fmt.Errorf("unknown container %q", c.Cont)
		}
		if err != nil {
			return nil, src, err
		}
		stmt := target + " = " + src
		thr := runStmt(vm, wrap(stmt))
		obs := M{"thr": thr}
		ev := elem()
		if !ev.IsValid() {
			obs["elem"] = M{"k": "missing"}
		} else {
			obs["elem"] = bridge.ProjectAs(ev, et)
		}
		var jsv any
		r, e := vm.Run("JSON.stringify(OBS(" + target + "))")
		if e != nil || json.Unmarshal([]byte(r.String()), &jsv) != nil {
			jsv = M{"unobservable": fmt.Sprint(e)}
		}
		obs["js"] = jsv
		return obs, stmt, nil
	case "tagfield":
		// a struct with every form of json tag, accessed by a property name: read, write + read back, parameter from an object literal
		t := &bridge.Tagged{Plain: 1, Named: 2, Omit: 3, Str: 4, KeepName: 5, Dash: 6, DashComma: 7}
		if err := vm.Set("t", t); err != nil {
			return nil, src, err
		}
		name := jsx.StrLit(c.Name)
		keys := func() any {
			var ks any
			r, e := vm.Run("JSON.stringify(Object.keys(t).sort(CMPU).map(UNITS))")
			if e != nil || json.Unmarshal([]byte(r.String()), &ks) != nil {
				return M{"unobservable": fmt.Sprint(e)}
			}
			return ks
		}
		ret := func() any {
			var rv any
			r, e := vm.Run("JSON.stringify(OBS(RET))")
			if e != nil || json.Unmarshal([]byte(r.String()), &rv) != nil {
				return M{"unobservable": fmt.Sprint(e)}
			}
			return rv
		}
		switch c.Mode {
		case "read", "write":
			stmt := "RET = t[" + name + "]"
			if c.Mode == "write" {
				stmt = "t[" + name + "] = 9; RET = t[" + name + "]"
			}
			thr := runStmt(vm, wrap(stmt))
			obs := M{"thr": thr, "go": bridge.TaggedForm(*t), "keys": keys()}
			if thr == "" {
				obs["ret"] = ret()
			} else {
				obs["ret"] = M{"t": "undef"}
			}
			return obs, stmt, nil
		case "param":
			var got *bridge.Tagged
			if err := vm.Set("P", func(x bridge.Tagged) { got = &x }); err != nil {
				return nil, src, err
			}
			stmt := "var o__ = {}; o__[" + name + "] = 9; P(o__)"
			thr := runStmt(vm, wrap(stmt))
			if thr != "" {
				return M{"thr": thr}, stmt, nil
			}
			if got == nil {
				return M{"thr": "", "called": 0}, stmt, nil
			}
			return M{"thr": "", "go": bridge.TaggedForm(*got)}, stmt, nil
		}
		return nil, src, fmt.Errorf("unknown mode %q", c.Mode)
	case "mapkey":
		// one operation by property name on a bridged map[K]int (K: every integer kind, plain and named type; string)
		kn := c.K
		if c.Named {
			kn = "named:" + kn
		}
		kt, err := bridge.ElemType(kn)
		if err != nil {
			return nil, src, err
		}
		intT := reflect.TypeOf(int(0))
		mp := reflect.MakeMap(reflect.MapOf(kt, intT))
		var init []reflect.Value
		switch {
		case c.K == "string":
			for _, k := range []string{"0", "1", "2"} {
				init = append(init, reflect.ValueOf(k).Convert(kt))
			}
		case kt.Kind() >= reflect.Int && kt.Kind() <= reflect.Int64:
			lo, hi := reflect.New(kt).Elem(), reflect.New(kt).Elem()
			lo.SetInt(int64(-1) << uint(kt.Bits()-1))
			hi.SetInt(int64(1)<<uint(kt.Bits()-1) - 1)
			init = append(init, lo, hi)
			for _, i := range []int64{-1, 0, 1, 2} {
				v := reflect.New(kt).Elem()
				v.SetInt(i)
				init = append(init, v)
			}
		default:
			hi := reflect.New(kt).Elem()
			hi.SetUint(uint64(1)<<uint(kt.Bits()) - 1)
			init = append(init, hi)
			for _, i := range []uint64{0, 1, 2} {
				v := reflect.New(kt).Elem()
				v.SetUint(i)
				init = append(init, v)
			}
		}
		keyText := func(k reflect.Value) string { return fmt.Sprint(k.Interface()) }
		sort.Slice(init, func(i, j int) bool { return keyText(init[i]) < keyText(init[j]) })
		for i, k := range init {
			mp.SetMapIndex(k, reflect.ValueOf(i+1))
		}
		if err := vm.Set("m", mp.Interface()); err != nil {
			return nil, src, err
		}
		name := jsx.StrLit(c.Name)
		var stmt string
		switch c.Mode {
		case "read":
			stmt = "RET = m[" + name + "]"
		case "write":
			stmt = "RET = (m[" + name + "] = 9)"
		case "delete":
			stmt = "RET = delete m[" + name + "]"
		case "in":
			stmt = "RET = (" + name + " in m)"
		case "hasown":
			stmt = "RET = Object.prototype.hasOwnProperty.call(m, " + name + ")"
		default:
			return nil, src, fmt.Errorf("unknown mode %q", c.Mode)
		}
		thr := runStmt(vm, wrap(stmt))
		obs := M{"thr": thr, "ret": M{"t": "undef"}}
		if thr == "" {
			var rv any
			r, e := vm.Run("JSON.stringify(OBS(RET))")
			if e != nil || json.Unmarshal([]byte(r.String()), &rv) != nil {
				rv = M{"unobservable": fmt.Sprint(e)}
			}
			obs["ret"] = rv
		}
		ks := mp.MapKeys()
		sort.Slice(ks, func(i, j int) bool { return keyText(ks[i]) < keyText(ks[j]) })
		keys, vals := []any{}, []any{}
		for _, k := range ks {
			keys = append(keys, bridge.Units(keyText(k)))
			vals = append(vals, mp.MapIndex(k).Interface())
		}
		obs["keys"], obs["vals"] = keys, vals
		var jk any
		r, e := vm.Run("JSON.stringify(Object.keys(m).sort(CMPU).map(UNITS))")
		if e != nil || json.Unmarshal([]byte(r.String()), &jk) != nil {
			jk = M{"unobservable": fmt.Sprint(e)}
		}
		obs["jskeys"] = jk
		return obs, stmt, nil
	case "pfield":
		// x.<sel> handed to a Go function taking a pointer: identity and visibility of the callee's write
		d, err := bridge.BuildDoc(c.D)
		if err != nil {
			return nil, src, err
		}
		X, err := bridge.PlaceDoc(vm, c.Where, d)
		if err != nil {
			return nil, src, err
		}
		P, err := bridge.DocPath(X, c.Sel)
		if err != nil {
			return nil, src, err
		}
		same, called := false, 0
		var ferr error
		if c.Sel == "Arr" {
			ferr = vm.Set("F", func(p *[2]int8) { called++; same = p == &d.Arr; p[0], p[1] = 9, 9 })
		} else {
			var orig *bridge.Inner
			switch c.Sel {
			case "In":
				orig = &d.In
			case "PIn":
				orig = d.PIn
			case "SIn0":
				orig = &d.SIn[0]
			case "AIn0":
				orig = &d.AIn[0]
			}
			ferr = vm.Set("F", func(p *bridge.Inner) { called++; same = p == orig; p.N += 10 })
		}
		if ferr != nil {
			return nil, src, ferr
		}
		stmt := "F(" + P + ")"
		thr := runStmt(vm, wrap(stmt))
		if thr == "" && called != 1 {
			return M{"thr": "", "called": called}, stmt, nil
		}
		var view any
		r, e := vm.Run("JSON.stringify(OBS(x))")
		if e != nil || json.Unmarshal([]byte(r.String()), &view) != nil {
			view = M{"unobservable": fmt.Sprint(e)}
		}
		return M{"thr": thr, "same": same, "js": view, "go": bridge.DocForm(d)}, stmt, nil
	case "graph":
		// a script value with shared / cyclic containers through one entry of the script -> Go conversion
		it, _ := bridge.ElemType("iface")
		var got []any
		called := 0
		var elem func() reflect.Value
		target := ""
		if strings.HasPrefix(c.Entry, "p_") {
			ins, variadic, err := sigTypes(c.Sig)
			if err != nil {
				return nil, src, err
			}
			fn := reflect.MakeFunc(reflect.FuncOf(ins, nil, variadic), func(args []reflect.Value) []reflect.Value {
				called++
				got = []any{}
				for i, a := range args {
					got = append(got, arrived(a, ins[i]))
				}
				return nil
			})
			if err := vm.Set("P", fn.Interface()); err != nil {
				return nil, src, err
			}
		} else {
			var err error
			switch c.Entry {
			case "w_slice":
				sl := []interface{}{1, 2}
				elem, target = func() reflect.Value { return reflect.ValueOf(sl).Index(0) }, "c[0]"
				err = vm.Set("c", sl)
			case "w_array":
				ar := &[2]interface{}{1, 2}
				elem, target = func() reflect.Value { return reflect.ValueOf(ar).Elem().Index(0) }, "c[0]"
				err = vm.Set("c", ar)
			case "w_map":
				mp := map[string]interface{}{"a": 1}
				elem, target = func() reflect.Value { return reflect.ValueOf(mp).MapIndex(reflect.ValueOf("a")) }, "c['a']"
				err = vm.Set("c", mp)
			case "w_struct":
				t := &bridge.T{}
				elem, target = func() reflect.Value { return reflect.ValueOf(t).Elem().FieldByName("Any") }, "c.Any"
				err = vm.Set("c", t)
			default:
				err = fmt.Errorf("unknown entry %q", c.Entry)
			}
			if err != nil {
				return nil, src, err
			}
		}
		thr := runStmt(vm, wrap(src))
		if elem != nil {
			obs := M{"thr": thr}
			if ev := elem(); ev.IsValid() {
				obs["elem"] = bridge.ProjectAs(ev, it)
			} else {
				obs["elem"] = M{"k": "missing"}
			}
			obs["js"] = observeJS(vm, target)
			return obs, src, nil
		}
		if thr != "" {
			return M{"thr": thr}, src, nil
		}
		if called != 1 {
			return M{"thr": "", "called": called}, src, nil
		}
		return M{"thr": "", "g": got}, src, nil
	case "reent":
		// script code run by the conversion of an argument calls bridged functions again: every
		// activation records what arrived (in the order of completion) and returns its serial number
		log := []any{}
		byGo := map[string]reflect.Value{}
		for _, f := range c.Fns {
			name, _ := f["name"].(string)
			goid, _ := f["go"].(string)
			fn, ok := byGo[goid]
			if !ok {
				sig, _ := f["sig"].(map[string]any)
				ins, variadic, err := sigTypes(sig)
				if err != nil {
					return nil, src, err
				}
				fn = reflect.MakeFunc(reflect.FuncOf(ins, []reflect.Type{reflect.TypeOf(0)}, variadic), func(args []reflect.Value) []reflect.Value {
					got := []any{}
					for i, a := range args {
						got = append(got, arrived(a, ins[i]))
					}
					log = append(log, M{"f": goid, "g": got})
					return []reflect.Value{reflect.ValueOf(len(log))}
				})
				byGo[goid] = fn
			}
			if err := vm.Set(name, fn.Interface()); err != nil {
				return nil, src, err
			}
		}
		if _, err := vm.Run("RES = [];"); err != nil {
			return nil, src, err
		}
		thr := runStmt(vm, wrap(src))
		var res any
		r, e := vm.Run("JSON.stringify(RES)")
		if e != nil || json.Unmarshal([]byte(r.String()), &res) != nil {
			res = M{"unobservable": fmt.Sprint(e)}
		}
		return M{"thr": thr, "log": log, "res": res}, src, nil
	case "back":
		st, err := bridge.StructOfForm(c.Src)
		if err != nil {
			return nil, src, err
		}
		held := &st
		if c.IsPtr {
			err = vm.Set("t", held)
		} else {
			err = vm.Set("t", *held)
		}
		if err != nil {
			return nil, src, err
		}
		var obs M
		var ferr error
		switch c.Ty {
		case "ptr":
			ferr = vm.Set("B", func(x *bridge.T) { obs = M{"thr": "", "same": x == held, "g": bridge.ProjectAs(reflect.ValueOf(x), reflect.TypeOf(x))} })
		case "struct":
			ferr = vm.Set("B", func(x bridge.T) { obs = M{"thr": "", "same": false, "g": bridge.StructForm(x)} })
		default:
			ferr = vm.Set("B", func(x interface{}) {
				p, isp := x.(*bridge.T)
				it, _ := bridge.ElemType("iface")
				rv := reflect.New(it).Elem()
				if x != nil {
					rv.Set(reflect.ValueOf(x))
				}
				obs = M{"thr": "", "same": isp && p == held, "g": bridge.ProjectAs(rv, it)}
			})
		}
		if ferr != nil {
			return nil, src, ferr
		}
		thr := runStmt(vm, wrap("B(t)"))
		if thr != "" {
			return M{"thr": thr}, "B(t)", nil
		}
		if obs == nil {
			return M{"thr": "", "called": 0}, "B(t)", nil
		}
		return obs, "B(t)", nil
	}
	return nil, src, fmt.Errorf("unknown family %q", c.Fam)
}

// ---- live containers ------------------------------------------------------------------

type container struct {
	mode  string // slice | array | map | mapint | struct
	arr   reflect.Value // pointer to a Go array
	k     string
	field bool
	expr  string // JavaScript expression denoting the container
	box   *bridge.Box
	sl    reflect.Value // by-value slice (the Go side's own header)
	mp    reflect.Value
	st    *bridge.T
	ptr   bool
	et    reflect.Type
}

func (c *container) goSlice() reflect.Value {
	if c.field {
		return reflect.ValueOf(c.box).Elem().FieldByName(bridge.BoxField(c.k))
	}
	return c.sl
}

func mkContainer(vm *otto.Otto, mode string, cont M) (*container, error) {
	c := &container{mode: mode}
	switch mode {
	case "slice":
		c.k, _ = cont["k"].(string)
		c.field = cont["mode"] == "field"
		et, err := bridge.ElemType(c.k)
		if err != nil {
			return nil, err
		}
		c.et = et
		items, _ := cont["go"].([]any)
		s := reflect.MakeSlice(reflect.SliceOf(et), len(items), len(items))
		for i, it := range items {
			v, err := bridge.BuildAs(it, et)
			if err != nil {
				return nil, err
			}
			s.Index(i).Set(v)
		}
		if c.field {
			c.box = &bridge.Box{}
			reflect.ValueOf(c.box).Elem().FieldByName(bridge.BoxField(c.k)).Set(s)
			c.expr = "b." + bridge.BoxField(c.k)
			return c, vm.Set("b", c.box)
		}
		c.sl = s
		c.expr = "s"
		return c, vm.Set("s", s.Interface())
	case "array":
		c.k, _ = cont["k"].(string)
		c.ptr, _ = cont["ptr"].(bool)
		et, err := bridge.ElemType(c.k)
		if err != nil {
			return nil, err
		}
		c.et = et
		items, _ := cont["go"].([]any)
		c.arr = reflect.New(reflect.ArrayOf(len(items), et))
		for i, it := range items {
			v, err := bridge.BuildAs(it, et)
			if err != nil {
				return nil, err
			}
			c.arr.Elem().Index(i).Set(v)
		}
		c.expr = "a"
		if c.ptr {
			return c, vm.Set("a", c.arr.Interface())
		}
		return c, vm.Set("a", c.arr.Elem().Interface())
	case "map", "mapint":
		c.k, _ = cont["k"].(string)
		et, err := bridge.ElemType(c.k)
		if err != nil {
			return nil, err
		}
		c.et = et
		kt := reflect.TypeOf("")
		if mode == "mapint" {
			kt = reflect.TypeOf(int(0))
		}
		mp := reflect.MakeMap(reflect.MapOf(kt, et))
		keys, _ := cont["keys"].([]any)
		vals, _ := cont["vals"].([]any)
		for i := range keys {
			v, err := bridge.BuildAs(vals[i], et)
			if err != nil {
				return nil, err
			}
			kv, err := c.keyOf(keys[i], kt)
			if err != nil {
				return nil, err
			}
			mp.SetMapIndex(kv, v)
		}
		c.mp = mp
		c.expr = "m"
		return c, vm.Set("m", mp.Interface())
	case "struct":
		st, err := bridge.StructOfForm(cont["go"])
		if err != nil {
			return nil, err
		}
		c.st = &st
		c.ptr, _ = cont["ptr"].(bool)
		c.expr = "t"
		if c.ptr {
			return c, vm.Set("t", c.st)
		}
		return c, vm.Set("t", *c.st)
	}
	return nil, fmt.Errorf("unknown container mode %q", mode)
}

func (c *container) keyOf(units any, kt reflect.Type) (reflect.Value, error) {
	s := bridge.StringOfUnits(units)
	if kt.Kind() == reflect.Int {
		var n int
		if _, err := fmt.Sscanf(s, "%d", &n); err != nil {
			return reflect.Value{}, err
		}
		return reflect.ValueOf(n), nil
	}
	return reflect.ValueOf(s), nil
}

// goView projects the Go side's view of the container.
func (c *container) goView() any {
	switch c.mode {
	case "slice":
		s := c.goSlice()
		items := []any{}
		for i := 0; i < s.Len(); i++ {
			items = append(items, bridge.ProjectAs(s.Index(i), c.et))
		}
		return items
	case "array":
		items := []any{}
		for i := 0; i < c.arr.Elem().Len(); i++ {
			items = append(items, bridge.ProjectAs(c.arr.Elem().Index(i), c.et))
		}
		return items
	case "map", "mapint":
		m := bridge.ProjectAs(c.mp, c.mp.Type()).(M)
		return M{"keys": m["keys"], "vals": m["vals"]}
	}
	return bridge.StructForm(*c.st)
}

func (c *container) goStep(op M) error {
	switch c.mode {
	case "slice":
		g, err := bridge.BuildAs(op["g"], c.et)
		if err != nil {
			return err
		}
		s := c.goSlice()
		switch op["op"] {
		case "gowrite":
			s.Index(int(op["i"].(float64))).Set(g)
		case "goappend":
			n := s.Len()
			ns := reflect.MakeSlice(s.Type(), n+1, n+1) // exact capacity: growth always reallocates
			reflect.Copy(ns, s)
			ns.Index(n).Set(g)
			s.Set(ns)
		}
	case "array":
		g, err := bridge.BuildAs(op["g"], c.et)
		if err != nil {
			return err
		}
		c.arr.Elem().Index(int(op["i"].(float64))).Set(g)
	case "map", "mapint":
		kv, err := c.keyOf(op["key"], c.mp.Type().Key())
		if err != nil {
			return err
		}
		if op["op"] == "godelete" {
			c.mp.SetMapIndex(kv, reflect.Value{})
			return nil
		}
		g, err := bridge.BuildAs(op["g"], c.et)
		if err != nil {
			return err
		}
		c.mp.SetMapIndex(kv, g)
	case "struct":
		switch op["f"] {
		case "A", "c":
			z, err := bridge.BigOfZ(op["g"].(map[string]any)["z"])
			if err != nil {
				return err
			}
			if op["f"] == "A" {
				c.st.A = int(z.Int64())
			} else {
				bridge.SetC(c.st, int(z.Int64()))
			}
		case "B":
			c.st.B = bridge.StringOfUnits(op["g"].(map[string]any)["s"])
		case "Any":
			it, _ := bridge.ElemType("iface")
			v, err := bridge.BuildAs(op["g"], it)
			if err != nil {
				return err
			}
			c.st.Any = v.Interface()
		default:
			return fmt.Errorf("gowrite of field %v", op["f"])
		}
	}
	return nil
}

func keyLit(units any) string {
	a, _ := units.([]any)
	us := make([]int, len(a))
	for i, x := range a {
		us[i] = int(x.(float64))
	}
	return jsx.StrLit(us)
}

const sep = "/*#SEP#*/"

// jsBody gives the script text of a script-side step as render parts (the operand value is embedded as parts).
func (c *container) jsBody(op M) ([]json.RawMessage, error) {
	str := func(s string) json.RawMessage { b, _ := json.Marshal(s); return b }
	var valParts []json.RawMessage
	if js, ok := op["js"].([]any); ok {
		for _, p := range js {
			b, _ := json.Marshal(p)
			valParts = append(valParts, b)
		}
	}
	X := c.expr
	idx := func() string {
		if k, ok := op["key"]; ok {
			return "[" + keyLit(k) + "]"
		}
		return fmt.Sprintf("[%d]", int(op["i"].(float64)))
	}
	switch op["op"] {
	case "jsread":
		return []json.RawMessage{str("RET = " + X + idx())}, nil
	case "jslen":
		return []json.RawMessage{str("RET = " + X + ".length")}, nil
	case "jshas":
		return []json.RawMessage{str("RET = (" + keyLit(op["key"]) + " in " + X + ")")}, nil
	case "jskeys":
		return []json.RawMessage{str("RET = Object.keys(" + X + ").sort(CMPU)")}, nil
	case "jswrite":
		return append(append([]json.RawMessage{str("RET = (" + X + idx() + " = ")}, valParts...), str(")")), nil
	case "jsdelete":
		return []json.RawMessage{str("RET = delete " + X + idx())}, nil
	case "jspush":
		return append(append([]json.RawMessage{str("RET = " + X + ".push(")}, valParts...), str(")")), nil
	case "jspop":
		return []json.RawMessage{str("RET = " + X + ".pop()")}, nil
	case "jssetlen":
		return []json.RawMessage{str(fmt.Sprintf("RET = (%s.length = %d)", X, int(op["n"].(float64))))}, nil
	case "jssetlenv":
		return append(append([]json.RawMessage{str("RET = (" + X + ".length = ")}, valParts...), str(")")), nil
	case "callget":
		return []json.RawMessage{str("RET = " + X + ".GetA()")}, nil
	case "callset":
		return append(append([]json.RawMessage{str("RET = " + X + ".SetA(")}, valParts...), str(")")), nil
	}
	return nil, fmt.Errorf("unknown step %v", op["op"])
}

func isGoOp(op M) bool {
	s, _ := op["op"].(string)
	return strings.HasPrefix(s, "go")
}

func runHistory(vm *otto.Otto, mode string, l *line) (any, string, error) {
	var cont M
	if err := json.Unmarshal(l.Cont, &cont); err != nil {
		return nil, "", err
	}
	c, err := mkContainer(vm, mode, cont)
	if err != nil {
		return nil, "", err
	}
	ops := append(append([]M{}, l.Path...), l.Step)
	// render all script-side steps in one pass (shared constant table)
	var parts []json.RawMessage
	for _, op := range ops {
		if isGoOp(op) {
			continue
		}
		p, err := c.jsBody(op)
		if err != nil {
			return nil, "", err
		}
		parts = append(parts, p...)
		b, _ := json.Marshal(sep)
		parts = append(parts, b)
	}
	all, consts, err := gen.Render(parts)
	if err != nil {
		return nil, "", err
	}
	if err := setConsts(vm, consts); err != nil {
		return nil, "", err
	}
	srcs := strings.Split(all, sep)
	var trace []string
	thr := ""
	j := 0
	for _, op := range ops {
		if isGoOp(op) {
			if err := c.goStep(op); err != nil {
				return nil, "", err
			}
			b, _ := json.Marshal(op)
			trace = append(trace, "go:"+string(b))
			thr = ""
			vm.Run("RET = undefined")
			continue
		}
		body := srcs[j]
		j++
		trace = append(trace, body)
		thr = runStmt(vm, wrap(body))
	}
	text := strings.Join(trace, " ; ")
	obs := M{"thr": thr}
	var ret any = M{"t": "undef"}
	if thr == "" {
		var r otto.Value
		var e error
		if p := guard(func() { r, e = vm.Run("JSON.stringify(OBS(RET))") }); p != nil || e != nil {
			ret = M{"unobservable": fmt.Sprint(p, e)}
		} else if json.Unmarshal([]byte(r.String()), &ret) != nil {
			ret = M{"unparsable": r.String()}
		}
	}
	obs["ret"] = ret
	var view any
	var r otto.Value
	var e error
	if p := guard(func() { r, e = vm.Run("JSON.stringify(OBS(" + c.expr + "))") }); p != nil || e != nil {
		view = M{"unobservable": fmt.Sprint(p, e)}
	} else if json.Unmarshal([]byte(r.String()), &view) != nil {
		view = M{"unparsable": r.String()}
	}
	obs["obs"] = M{"js": view, "go": c.goView()}
	return obs, text, nil
}

// ---- driver ------------------------------------------------------------------------------

func execute(mode string, l *line) (obs any, src string, err error) {
	vm, e := bridge.NewVM(prelude)
	if e != nil {
		return nil, "", e
	}
	p := guard(func() {
		if mode == "cases" {
			obs, src, err = runCase(vm, l)
		} else {
			obs, src, err = runHistory(vm, mode, l)
		}
	})
	if p != nil {
		return M{"thr": "gopanic", "panic": fmt.Sprint(p)}, src, nil
	}
	return obs, src, err
}

func norm(v any) any {
	b, _ := json.Marshal(v)
	var x any
	json.Unmarshal(b, &x)
	return x
}

func same(obs any, want json.RawMessage) bool {
	var y any
	if json.Unmarshal(want, &y) != nil {
		return false
	}
	return reflect.DeepEqual(norm(obs), y)
}

func trunc(s string, n int) string {
	if len(s) > n {
		return s[:n] + "..."
	}
	return s
}

func js(v any) string { b, _ := json.Marshal(v); return string(b) }

type stats struct {
	cases, conform, dev, skipped int64
}

var openDev = []string{}

func cfg(c *core.Ctx, mode string, maxLen int, wide bool) string {
	w := "FALSE"
	if wide {
		w = "TRUE"
	}
	s := fmt.Sprintf("CONSTANTS\n OpenDev = %s\n Tier = %q\n Mode = %q\n MaxLen = %d\n Wide = %s\n Seed = %d\nINIT Init\nNEXT Next\nVIEW View\nCHECK_DEADLOCK FALSE\n",
		core.TLASet(c.Findings.OpenIDs()), c.Tier, mode, maxLen, w, ((c.Seed%1000)+1000)%1000)
	if mode == "cases" {
		return s + "INVARIANT Emit\n"
	}
	return s + "INVARIANT SameContents\n"
}

func replay(c *core.Ctx, mode string, ch chan []byte, st *stats, samples *[]any, report bool) int64 {
	var rejected int64
	var smu sync.Mutex
	var wg sync.WaitGroup
	var firstErr atomic.Value
	for i := 0; i < c.Workers; i++ {
		wg.Add(1)
		go func() {
			defer wg.Done()
			for raw := range ch {
				var l line
				dec := json.NewDecoder(bytes.NewReader(raw))
				if err := dec.Decode(&l); err != nil {
					firstErr.CompareAndSwap(nil, fmt.Errorf("bad line: %v: %s", err, trunc(string(raw), 200)))
					continue
				}
				n := atomic.AddInt64(&st.cases, 1)
				obs, src, err := execute(mode, &l)
				if err != nil {
					firstErr.CompareAndSwap(nil, fmt.Errorf("case %s: %v", trunc(string(raw), 300), err))
					continue
				}
				if same(obs, l.Exp) {
					atomic.AddInt64(&st.conform, 1)
					if n%997 == 1 {
						smu.Lock()
						if len(*samples) < 8 {
							*samples = append(*samples, M{"mode": mode, "script": src, "expected": l.Exp})
						}
						smu.Unlock()
					}
					continue
				}
				if len(l.Dev) > 0 && same(obs, l.Dev[0]) {
					atomic.AddInt64(&st.dev, 1)
					c.Hit("deviation")
					continue
				}
				obs2, _, err2 := execute(mode, &l)
				if err2 != nil || !reflect.DeepEqual(norm(obs), norm(obs2)) {
					atomic.AddInt64(&st.skipped, 1)
					continue
				}
				atomic.AddInt64(&rejected, 1)
				if report {
					what := string(l.C)
					if mode != "cases" {
						what = "container " + string(l.Cont)
					}
					detail := fmt.Sprintf("%s: %s => observed %s ; required %s", trunc(what, 300), trunc(src, 400), trunc(js(norm(obs)), 500), trunc(string(l.Exp), 500))
					c.Violate(detail, M{"mode": mode, "line": json.RawMessage(raw), "script": src, "observed": obs, "expected": l.Exp})
				}
			}
		}()
	}
	wg.Wait()
	if e := firstErr.Load(); e != nil {
		c.Note("harness error: %v", e)
		return -1
	}
	return rejected
}

// Check runs the property.
func Check(c *core.Ctx) (map[string]any, []string, error) {
	st := &stats{}
	var samples []any
	var tlcStats []any
	var states, trans int64
	var keepCases, keepHist [][]byte
	type runT struct {
		mode string
		max  int
		wide bool
		sim  int // > 0: random histories (TLC -simulate), this many per TLC worker
	}
	// quick: every history of length <= 2 over the small operand sets, a few random longer ones;
	// thorough: length <= 2 over the wide operand sets, length <= 3 over the small ones (slices)
	// or the wide ones (maps, structs), and random histories of length 6
	runs := []runT{{"cases", 1, false, 0}, {"slice", 2, false, 0}, {"array", 2, false, 0}, {"map", 2, false, 0}, {"mapint", 2, false, 0}, {"struct", 2, false, 0},
		{"slice", 5, false, 6}, {"map", 5, false, 4}}
	depth := 2
	if c.Thorough() {
		depth = 3
		runs = []runT{{"cases", 1, true, 0}, {"slice", 2, true, 0}, {"slice", 3, false, 0}, {"array", 3, true, 0}, {"map", 3, true, 0}, {"mapint", 3, true, 0}, {"struct", 3, true, 0},
			{"slice", 6, true, 12}, {"map", 6, true, 12}, {"struct", 6, true, 12}}
	}
	byMode := M{}
	for _, r := range runs {
		ch := make(chan []byte, 4096)
		done := make(chan int64)
		before := atomic.LoadInt64(&st.cases)
		go func() { done <- replay(c, r.mode, ch, st, &samples, true) }()
		var kmu sync.Mutex
		o := tlc.Opts{SpecDir: c.SpecDir, Module: "C16", Cfg: cfg(c, r.mode, r.max, r.wide), Workers: c.Workers, Timeout: 40 * time.Minute, Seed: c.Seed}
		if r.sim > 0 {
			o.Simulate, o.Num, o.Depth, o.Workers = true, r.sim, r.max+1, 4
		}
		res, err := tlc.Run(o,
			func(p []byte) {
				b := make([]byte, len(p))
				copy(b, p)
				kmu.Lock()
				if r.mode == "cases" && len(keepCases) < 600 && (bytes.Contains(b, []byte(`"fam":"param"`)) || bytes.Contains(b, []byte(`"fam":"arity"`))) {
					keepCases = append(keepCases, b)
				}
				if r.mode == "slice" && len(keepHist) < 300 {
					keepHist = append(keepHist, b)
				}
				kmu.Unlock()
				ch <- b
			})
		close(ch)
		rej := <-done
		if res != nil {
			name := fmt.Sprintf("%s depth %d wide=%v", r.mode, r.max, r.wide)
			if r.sim > 0 {
				name = fmt.Sprintf("%s random histories of length %d (simulate, %d per worker)", r.mode, r.max, r.sim)
			}
			tlcStats = append(tlcStats, M{"config": name, "generated": res.Generated, "distinct": res.Distinct, "depth": res.Depth, "lines": res.Lines, "wall_s": res.Wall})
			states += res.Distinct
			trans += res.Generated
		}
		if err != nil {
			return nil, nil, err
		}
		if rej < 0 {
			return nil, nil, fmt.Errorf("harness errors in mode %s (see evidence notes)", r.mode)
		}
		prev, _ := byMode[r.mode].(int64)
		byMode[r.mode] = prev + atomic.LoadInt64(&st.cases) - before
	}
	selfOK := selfTest(c, keepCases, keepHist)
	if len(samples) == 0 {
		samples = append(samples, "no conforming case sampled")
	}
	cov := map[string]any{
		"states": states, "transitions": trans, "traces_validated_against_impl": st.cases,
		"samples": samples, "tlc_runs": tlcStats,
		"conforming": st.conform, "conforming_to_known_deviation": st.dev, "non_reproducible_skipped": st.skipped,
		"cases_by_mode": byMode, "history_depth": depth, "binding_self_test_rejected": selfOK,
		"model_properties_checked": []string{"SameContents"},
	}
	if !selfOK {
		return nil, nil, fmt.Errorf("binding self-test failed: a mutated adapter or corrupted expectation was accepted")
	}
	assumptions := []string{
		"trusted: reflection-based construction/projection of Go values and registration of Go functions (harness/internal/bridge, c16), the JavaScript observation OBS/ENC, Go float64 bit projection, TLC",
		"a string parameter is required to receive String(value), a bool parameter Boolean(value), an interface{} parameter the exported structure (Go number kinds of exported values are not judged); numeric parameters accept Numbers only",
		"a uint/uint64 parameter rejecting 2^63 <= x < 2^64 with a RangeError is accepted (loud failure, allowed by the statement)",
		"by-value slices: growth and shrink through the script change only the script's view (a Go slice header is a value); such a step ends the history",
		"slices are built with capacity = length on the Go side, so growth always reallocates",
	}
	return cov, assumptions, nil
}

func selfTest(c *core.Ctx, keepCases, keepHist [][]byte) bool {
	quiet := &core.Ctx{Property: c.Property, Tier: c.Tier, Seed: c.Seed, SpecDir: c.SpecDir, Workers: 2, Findings: c.Findings, Start: c.Start, KnownHits: map[string]int64{}}
	feed := func(lines [][]byte) chan []byte {
		ch := make(chan []byte, len(lines)+1)
		for _, b := range lines {
			ch <- b
		}
		close(ch)
		return ch
	}
	// (1) mutated adapter: an int8 that arrived is reported as 99
	mutate.Store(true)
	var s1 []any
	r1 := replay(quiet, "cases", feed(keepCases), &stats{}, &s1, false)
	mutate.Store(false)
	// (2) corrupted expectation of history lines: the required thrown class is changed
	var bad [][]byte
	for _, b := range keepHist {
		var l map[string]json.RawMessage
		if json.Unmarshal(b, &l) != nil {
			continue
		}
		s := string(l["exp"])
		var t string
		if strings.Contains(s, `"thr":""`) {
			t = strings.Replace(s, `"thr":""`, `"thr":"TypeError"`, 1)
		} else {
			continue
		}
		l["exp"] = json.RawMessage(t)
		l["dev"] = json.RawMessage("[]")
		nb, _ := json.Marshal(l)
		bad = append(bad, nb)
		if len(bad) >= 60 {
			break
		}
	}
	var s2 []any
	r2 := replay(quiet, "slice", feed(bad), &stats{}, &s2, false)
	c.Note("binding self-test: mutated adapter rejected on %d of %d case lines; corrupted expectation rejected on %d of %d history lines", r1, len(keepCases), r2, len(bad))
	return r1 > 0 && len(bad) > 0 && r2 == int64(len(bad))
}
