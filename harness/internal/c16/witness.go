package c16

import (
	"fmt"

	"github.com/robertkrimen/otto"

	"verif/harness/internal/bridge"
	"verif/harness/internal/core"
)

// script runs src on vm and renders the outcome the way the findings file quotes it.
func script(vm *otto.Otto, src string) (res string, err error) {
	defer func() {
		if r := recover(); r != nil {
			res, err = "GO PANIC", nil
		}
	}()
	v, e := vm.Run(src)
	if e != nil {
		return "uncaught " + bridge.ErrClass(e), nil
	}
	return v.String(), nil
}

func init() {
	w := core.GoWitnesses
	w["c16_float32_param"] = func() (string, error) {
		vm := otto.New()
		vm.Set("f", func(x float32) float32 { return x })
		return script(vm, `try { String(f(16777217)) } catch (e) { e.name }`)
	}
	w["c16_string_param"] = func() (string, error) {
		vm := otto.New()
		vm.Set("f", func(s string) string { return s })
		return script(vm, `f(1e-7)`)
	}
	w["c16_slice_param_hole"] = func() (string, error) {
		vm := otto.New()
		vm.Set("f", func(x []int) string { return fmt.Sprint(x) })
		return script(vm, `try { f([,1]) } catch (e) { e.name }`)
	}
	w["c16_slice_param_arraylike"] = func() (string, error) {
		vm := otto.New()
		vm.Set("f", func(x []int) string { return fmt.Sprint(x) })
		return script(vm, `try { f({length: 2, 0: 1, 1: 2}) } catch (e) { e.name }`)
	}
	w["c16_func_param_throw"] = func() (string, error) {
		vm := otto.New()
		vm.Set("f", func(cb func(int) int) int { return cb(3) })
		return script(vm, `try { f(function(){ throw new RangeError('z'); }) } catch (e) { 'caught ' + e.name }`)
	}
	w["c16_struct_param_bridged_pointer"] = func() (string, error) {
		vm := otto.New()
		vm.Set("t", &bridge.T{A: 7})
		vm.Set("f", func(x bridge.T) int { return x.A })
		return script(vm, `String(f(t))`)
	}
	w["c16_elem_write_unchecked"] = func() (string, error) {
		vm := otto.New()
		vm.Set("s", []int8{1, 2})
		return script(vm, `try { s[0] = NaN; String(s[0]) } catch (e) { e.name }`)
	}
	w["c16_elem_write_negative_fraction"] = func() (string, error) {
		vm := otto.New()
		vm.Set("s", []int{1, 2})
		return script(vm, `try { s[0] = -1.5; String(s[0]) } catch (e) { e.name }`)
	}
	w["c16_elem_write_pointer_kind"] = func() (string, error) {
		vm := otto.New()
		vm.Set("m", map[string]*bridge.Inner{"a": {N: 1}})
		return script(vm, `try { m.b = null; 'stored ' + ('b' in m) } catch (e) { 'caught ' + e.name }`)
	}
	w["c16_elem_write_pointer_value"] = func() (string, error) {
		m := map[string]*bridge.Inner{"a": {N: 1}}
		vm := otto.New()
		vm.Set("m", m)
		return script(vm, `try { m.x = {N: 2}; 'stored ' + m.x.N } catch (e) { 'caught ' + e.name }`)
	}
	w["c16_slice_length_invalid"] = func() (string, error) {
		vm := otto.New()
		vm.Set("s", []int{1, 2})
		return script(vm, `try { s.length = -1; 'ok' } catch (e) { 'caught ' + ((e instanceof Error) ? e.name : typeof e) }`)
	}
	w["c16_tag_dash_comma"] = func() (string, error) {
		vm := otto.New()
		vm.Set("t", &bridge.Tagged{DashComma: 7})
		return script(vm, `String(t["-"])`)
	}
	w["c16_element_copies"] = func() (string, error) {
		d := &bridge.Doc{Grid: [][]int8{{1}, {2, 3}}, SIn: []bridge.Inner{{N: 1}}}
		vm := otto.New()
		vm.Set("x", d)
		vm.Set("same", func(p *bridge.Inner) bool { return p == &d.SIn[0] })
		return script(vm, `x.Grid[1].length = 1; x.Grid[1].length + " " + same(x.SIn[0])`)
	}
	w["c16_elem_write_error"] = func() (string, error) {
		vm := otto.New()
		vm.Set("s", []int8{1, 2})
		return script(vm, `try { s[0] = 300; 'stored' } catch (e) { 'caught ' + e.name }`)
	}
	w["c16_slice_field_push"] = func() (string, error) {
		vm := otto.New()
		vm.Set("b", &bridge.Box{I8: []int8{1, 2}})
		return script(vm, `b.I8.push(3); String(b.I8.length)`)
	}
	w["c16_slice_value_pop"] = func() (string, error) {
		vm := otto.New()
		vm.Set("s", []int8{1, 2})
		return script(vm, `try { s.pop(); 'ok ' + s.length } catch (e) { 'caught ' + typeof e }`)
	}
	w["c16_map_key_go_syntax"] = func() (string, error) {
		vm := otto.New()
		vm.Set("m", map[int]string{8: "a"})
		return script(vm, `String(m["010"]) + " " + ("0x8" in m) + " " + (function(){ try { m["+8"] = "b"; return "stored" } catch (e) { return "caught " + e.name } })()`)
	}
	w["c16_map_int_key"] = func() (string, error) {
		vm := otto.New()
		vm.Set("m", map[int]string{1: "a"})
		return script(vm, `try { m.abc = 'x'; 'stored' } catch (e) { 'caught ' + e.name }`)
	}
	w["c16_struct_dash_tag"] = func() (string, error) {
		vm := otto.New()
		vm.Set("t", &bridge.T{})
		return script(vm, `t.Hid = 3; String(t.Hid)`)
	}
	w["c16_struct_value_write"] = func() (string, error) {
		vm := otto.New()
		vm.Set("tv", bridge.T{A: 1})
		return script(vm, `try { tv.A = 5; 'ok' } catch (e) { 'caught ' + ((e instanceof Error) ? e.name : typeof e) }`)
	}
	w["c16_slice_delete_missing"] = func() (string, error) {
		vm := otto.New()
		vm.Set("s", []int8{1, 2})
		return script(vm, `String(delete s[5])`)
	}
	w["c16_slice_field_regrow"] = func() (string, error) {
		vm := otto.New()
		vm.Set("b", &bridge.Box{I8: []int8{1, 2}})
		return script(vm, `b.I8.length = 0; b.I8.length = 1; String(b.I8[0])`)
	}
}
