// Package c11: JSON.parse / JSON.stringify (spec/JSONSpec.tla, spec/C11.tla,
// spec/C11Judge.tla).
//
// Direction specification -> code: TLC enumerates the cases of C11.tla; each
// line carries the JavaScript text of the case, the outcome ES5 prescribes
// (thrown class / value tree / text / call log) and the outcomes permitted
// under the open findings.  The text is evaluated on otto and the projected
// outcome compared by deep equality.
//
// Direction code -> specification (the judge): a JSON.stringify result that is
// not the very text 15.12.3 prescribes is not rejected outright, because the
// property demands "a valid JSON text denoting" the serialisation: the observed
// text is handed to TLC (C11Judge.tla), which re-reads it with the
// specification's own 15.12.1 recogniser, respells every string and number
// token canonically (Quote, ToString) and compares the result with the
// prescribed text.  Equal: the text denotes the same value with the same
// gap/indentation shape (counted as spelling_only).  Different: violation.
// The harness also draws random numbers and strings, serialises and re-parses
// them on otto and lets TLC judge the recorded results.
//
// Go-side marshalling (family "go", JSONSpec!GoMarshal): the case text is only
// the value; it is evaluated, the otto.Value is handed to Go and serialised
// there in the way the case names (Value.MarshalJSON, Object.MarshalJSON,
// encoding/json over the Value itself / a pointer / a map / a slice / a struct /
// a nested structure holding it, Export + json.Marshal).  The text (or the Go
// error) is projected to the same outcome shape as a JSON.stringify call and
// compared / judged in the same way; exported values are judged up to the
// order of members (kind "textmo").
package c11

import (
	"encoding/json"
	"errors"
	"fmt"
	"hash/fnv"
	"math"
	"math/rand"
	"reflect"
	"strings"
	"sync"
	"sync/atomic"
	"time"
	"unicode/utf16"
	"unicode/utf8"

	"github.com/robertkrimen/otto"

	"verif/harness/internal/core"
	"verif/harness/internal/gen"
	"verif/harness/internal/jsx"
	"verif/harness/internal/num"
	"verif/harness/internal/tlc"
)

// prelude: the projection of outcomes.  Nothing here goes through the
// implementation's own JSON object: SER is a minimal serialiser for the
// shapes the projection produces (booleans, small integers, printable ASCII
// strings, arrays, plain objects, pre-serialised number encodings).
const prelude = gen.Prelude + `
function RAWJ(s){ this.s = s; }
function SER(x){
  if (x === true) return "true";
  if (x === false) return "false";
  if (typeof x === "number") {
    if (x !== Math.floor(x) || x < -2147483648 || x > 2147483647) throw new Error("SER: number " + x);
    return String(x);
  }
  if (typeof x === "string") {
    for (var i = 0; i < x.length; i++) { var c = x.charCodeAt(i); if (c < 32 || c > 126 || c === 34 || c === 92) throw new Error("SER: string"); }
    return '"' + x + '"';
  }
  if (x instanceof RAWJ) return x.s;
  var parts = [];
  if (Object.prototype.toString.call(x) === "[object Array]") {
    for (var j = 0; j < x.length; j++) parts.push(SER(x[j]));
    return "[" + parts.join(",") + "]";
  }
  if (x === null || typeof x !== "object") throw new Error("SER: " + typeof x);
  for (var k in x) if (Object.prototype.hasOwnProperty.call(x, k)) parts.push(SER(k) + ":" + SER(x[k]));
  return "{" + parts.join(",") + "}";
}
function ENC(v){
  if (v === undefined) return {t:"undef"};
  if (v === null) return {t:"null"};
  if (typeof v === "boolean") return {t:"bool", b:v};
  if (typeof v === "number") return {t:"num", n:new RAWJ(NUMENC(v))};
  if (typeof v === "string") return {t:"str", s:UNITS(v)};
  return {t:"obj", id:-1};
}
// deep projection of a value tree: members IN ORDER (Object.keys), holes, attributes
function ENCOBJ(v){
  var cls = Object.prototype.toString.call(v);
  if (cls === "[object Array]") {
    var items = [], present = 0;
    for (var i = 0; i < v.length; i++) { if (i in v) { present++; items.push(ENCV(v[i])); } else items.push({t:"hole"}); }
    var r = {t:"arr", items:items};
    if (Object.getPrototypeOf(v) !== Array.prototype) r.proto = "other";
    if (Object.keys(v).length !== present) r.extra = Object.keys(v).length - present;
    return r;
  }
  if (cls === "[object Object]") {
    var ks = Object.keys(v), ms = [];
    for (var j = 0; j < ks.length; j++) {
      var m = {key:UNITS(ks[j]), val:ENCV(v[ks[j]])};
      var d = Object.getOwnPropertyDescriptor(v, ks[j]);
      if (!(d.writable && d.enumerable && d.configurable)) m.attr = "restricted";
      ms.push(m);
    }
    var o = {t:"obj", members:ms};
    if (Object.getPrototypeOf(v) !== Object.prototype) o.proto = "other";
    if (Object.getOwnPropertyNames(v).length !== ks.length) o.hidden = Object.getOwnPropertyNames(v).length - ks.length;
    return o;
  }
  return {t:"obj", cls:cls};
}
function SHAL(v){
  if (v !== null && (typeof v === "object" || typeof v === "function")) return {t:"obj", cls:Object.prototype.toString.call(v)};
  return ENC(v);
}
// a walk that does not end (a wrong loop bound in the implementation) is cut off: conforming runs of the generated cases stay far below 400 calls
function KEYCHK(k){ if (LOG.length > 400) throw "runaway walk"; if (typeof k !== "string") LOG.push("key is a " + typeof k); }
// scripted toJSON method
function FN(id, f){ return function(k){ KEYCHK(k); LOG.push({f:"tj", id:id, k:UNITS(String(k))}); return f.call(this, k); }; }
// scripted replacer function
function RPF(kind, key, thunk){
  return function(k, v){
    KEYCHK(k);
    LOG.push({f:"rp", k:UNITS(String(k)), v:SHAL(v), h:SHAL(this)});
    if (kind === "id") return v;
    if (kind === "undefkey") return k === key ? undefined : v;
    if (kind === "replkey") return k === key ? thunk() : v;
    if (kind === "num2str") return typeof v === "number" ? "n" : v;
    if (kind === "throwkey") { if (k === key) throw "RP"; return v; }
    throw new Error("RPF kind");
  };
}
// scripted reviver
function RVF(kind, key, sib, thunk){
  return function(k, v){
    KEYCHK(k);
    LOG.push({f:"rv", k:UNITS(String(k)), v:ENCV(v), h:ENCV(this)});
    if (kind === "id") return v;
    if (kind === "undefkey") return k === key ? undefined : v;
    if (kind === "undefall") return undefined;
    if (kind === "num2str") return typeof v === "number" ? "n" : v;
    if (kind === "wrapstr") return typeof v === "string" ? [v] : v;
    if (kind === "delsib") { if (k === key) delete this[sib]; return v; }
    if (kind === "addsib") { if (k === key) this[sib] = 9; return v; }
    if (kind === "throwkey") { if (k === key) throw "RV"; return v; }
    // revivers that restructure their holder during the walk; "gone" marks a vanished value
    var isArr = Object.prototype.toString.call(this) === "[object Array]";
    if (kind === "setlen") { if (k === key && isArr) this.length = sib; return v === undefined ? "gone" : v; }
    if (kind === "push") { if (k === key && isArr) this.push(thunk()); return v === undefined ? "gone" : v; }
    if (kind === "setel") { if (k === key) this[sib] = thunk(); return v === undefined ? "gone" : v; }
    throw new Error("RVF kind");
  };
}
// the Go-side family: the value itself is returned to Go; the call log is fetched after the marshalling
function GOVAL(src){ LOG = []; REG = []; return (0,eval)(src); }
function GOLOG(){ return SER(LOG); }
function RUN11(src){
  LOG = []; REG = [];
  var thr = "", v;
  try { v = (0,eval)(src); }
  catch (e) { if (e instanceof Error) { thr = e.name; v = undefined; } else { thr = "value"; v = e; } }
  return SER({thr:thr, v:ENCV(v), log:LOG});
}
`

// adapter mutants for the binding self-test: a deliberately wrong JSON object
var mutants = []struct{ Name, JS string }{
	{"parse accepts a trailing comma in arrays", `(function(){ var P = JSON.parse; JSON.parse = function(t, r){ if (typeof t === "string") t = t.replace(/,(\s*)\]/, "$1]"); return arguments.length > 1 ? P(t, r) : P(t); }; })();`},
	{"parse accepts a leading plus sign", `(function(){ var P = JSON.parse; JSON.parse = function(t, r){ if (typeof t === "string" && t.charAt(0) === "+") t = t.substring(1); return arguments.length > 1 ? P(t, r) : P(t); }; })();`},
	{"stringify does not limit the gap to 10", `(function(){ var S = JSON.stringify; JSON.stringify = function(v, r, s){ if (typeof s === "number" && s > 10) s = "           "; if (typeof s === "string" && s.length > 10) { var x = S(v, r, s.substring(0, 10)); return x === undefined ? x : x.split(s.substring(0, 10)).join(s); } return S(v, r, s); }; })();`},
	{"stringify keeps undefined members as null", `(function(){ var S = JSON.stringify; JSON.stringify = function(v, r, s){ if (v && typeof v === "object" && !(v instanceof Array) && r === undefined) { for (var k in v) if (v[k] === undefined) { var c = {}; for (var q in v) c[q] = v[q] === undefined ? null : v[q]; return S(c, r, s); } } return S(v, r, s); }; })();`},
}

// Line is one generated case.
type Line struct {
	Fam string            `json:"fam"`
	C   json.RawMessage   `json:"c"`
	Js  []json.RawMessage `json:"js"`
	Exp json.RawMessage   `json:"exp"`
	Dev []json.RawMessage `json:"dev"`
	Rep int               `json:"rep"`

	mode string // family "go": how the value reaches encoding/json
}

func (l *Line) setMode() {
	if l.Fam == "go" {
		var c struct {
			Mode string `json:"mode"`
		}
		json.Unmarshal(l.C, &c)
		l.mode = c.Mode
	}
}

// label is the case as shown in reports.
func (l *Line) label(src string) string {
	if l.Fam == "go" {
		return "Go-side marshalling [" + l.mode + "] of the value of " + src
	}
	return src
}

type outcome struct {
	Thr string `json:"thr"`
	V   struct {
		T string `json:"t"`
		S []int  `json:"s"`
	} `json:"v"`
	Log json.RawMessage `json:"log"`
}

type vmBox struct {
	vm    *otto.Otto
	used  int
	extra string // adapter mutant (self-test only)
	goMut string // Go-side adapter mutant (self-test only)
}

var (
	scriptOnce sync.Once
	script     *otto.Script
	scriptErr  error
)

func newVM(extra string) (*otto.Otto, error) {
	vm := otto.New()
	if err := vm.Set("NUMENC", func(call otto.FunctionCall) otto.Value {
		f, _ := call.Argument(0).ToFloat()
		v, _ := otto.ToValue(jsx.NumEnc(f))
		return v
	}); err != nil {
		return nil, err
	}
	scriptOnce.Do(func() { script, scriptErr = vm.Compile("prelude.js", prelude) })
	if scriptErr != nil {
		return nil, fmt.Errorf("prelude: %v", scriptErr)
	}
	if _, err := vm.Run(script); err != nil {
		return nil, fmt.Errorf("prelude run: %v", err)
	}
	if extra != "" {
		if _, err := vm.Run(extra); err != nil {
			return nil, fmt.Errorf("mutant: %v", err)
		}
	}
	return vm, nil
}

const perVM = 200

func (b *vmBox) eval(src string, consts map[string]float64) (out string, err error) {
	defer func() {
		if r := recover(); r != nil {
			b.vm = nil
			out, err = "", fmt.Errorf("GO PANIC: %v", r)
		}
	}()
	if b.vm == nil || b.used >= perVM {
		vm, e := newVM(b.extra)
		if e != nil {
			return "", e
		}
		b.vm, b.used = vm, 0
	}
	b.used++
	for k, f := range consts {
		if e := b.vm.Set(k, f); e != nil {
			return "", e
		}
	}
	v, e := b.vm.Call("RUN11", nil, src)
	if e != nil {
		b.vm = nil
		return "", fmt.Errorf("harness RUN11 failed: %v", e)
	}
	return v.String(), nil
}

// goMarshal serialises the value on the Go side (the modes of JSONSpec!GoMarshal).
func goMarshal(v otto.Value, mode string) ([]byte, error) {
	switch mode {
	case "value":
		return v.MarshalJSON()
	case "object":
		o := v.Object()
		if o == nil {
			return nil, fmt.Errorf("harness: mode object on a value that is not an object")
		}
		return o.MarshalJSON()
	case "marshal":
		return json.Marshal(v)
	case "pointer":
		return json.Marshal(&v)
	case "map":
		return json.Marshal(map[string]interface{}{"k": v})
	case "slice":
		return json.Marshal([]otto.Value{v})
	case "struct":
		return json.Marshal(struct {
			A otto.Value `json:"a"`
			B int        `json:"b"`
		}{v, 1})
	case "nested":
		return json.Marshal(map[string]interface{}{"m": []interface{}{struct{ V interface{} }{v}, nil}})
	case "export":
		x, err := v.Export()
		if err != nil {
			return nil, err
		}
		return json.Marshal(x)
	}
	return nil, fmt.Errorf("harness: unknown mode %q", mode)
}

func unitsJSON(s string) string {
	u := utf16.Encode([]rune(s))
	var sb strings.Builder
	sb.WriteByte('[')
	for i, x := range u {
		if i > 0 {
			sb.WriteByte(',')
		}
		fmt.Fprint(&sb, x)
	}
	sb.WriteByte(']')
	return sb.String()
}

// goOutcome projects the result of a Go-side marshalling to the outcome shape
// of RUN11: a text is a string value; an exception of the serialisation comes
// back as a Go error (an otto error: its class; another thrown value: its
// text); errors of encoding/json itself have classes of their own.
func goOutcome(text []byte, err error, log string) string {
	thr, v := "", `{"t":"undef"}`
	switch {
	case err != nil:
		var oe *otto.Error
		var uv *json.UnsupportedValueError
		var se *json.SyntaxError
		switch {
		case errors.As(err, &oe):
			thr = strings.SplitN(oe.Error(), ":", 2)[0]
		case errors.As(err, &uv):
			thr = "GoUnsupportedValue"
		case errors.As(err, &se):
			thr = "GoInvalidJSON"
		case strings.HasPrefix(err.Error(), "harness:"):
			thr = err.Error()
		default:
			in := err
			for e := errors.Unwrap(in); e != nil; e = errors.Unwrap(in) {
				in = e
			}
			thr, v = "value", `{"t":"str","s":`+unitsJSON(in.Error())+`}`
		}
	case !utf8.Valid(text):
		thr = "GoInvalidUTF8"
	default:
		v = `{"t":"str","s":` + unitsJSON(string(text)) + `}`
	}
	return fmt.Sprintf(`{"thr":%q,"v":%s,"log":%s}`, thr, v, log)
}

// evalGo evaluates src (the value of a "go" case) and marshals it on the Go side.
func (b *vmBox) evalGo(src string, consts map[string]float64, mode string) (out string, err error) {
	defer func() {
		if r := recover(); r != nil {
			b.vm = nil
			out, err = "", fmt.Errorf("GO PANIC: %v", r)
		}
	}()
	if b.vm == nil || b.used >= perVM {
		vm, e := newVM(b.extra)
		if e != nil {
			return "", e
		}
		b.vm, b.used = vm, 0
	}
	b.used++
	for k, f := range consts {
		if e := b.vm.Set(k, f); e != nil {
			return "", e
		}
	}
	v, e := b.vm.Call("GOVAL", nil, src)
	if e != nil {
		b.vm = nil
		return "", fmt.Errorf("harness GOVAL failed: %v: %s", e, src)
	}
	text, merr := goMarshal(v, mode)
	switch b.goMut {
	case "swallows errors":
		if merr != nil {
			text, merr = []byte("null"), nil
		}
	case "marshals twice":
		text, merr = goMarshal(v, mode)
	}
	lg, e := b.vm.Call("GOLOG", nil)
	if e != nil {
		b.vm = nil
		return "", fmt.Errorf("harness GOLOG failed: %v", e)
	}
	return goOutcome(text, merr, lg.String()), nil
}

// evalLine evaluates the text of a case the way its family asks for.
func (b *vmBox) evalLine(l *Line, src string, consts map[string]float64) (string, error) {
	if l.Fam == "go" {
		return b.evalGo(src, consts, l.mode)
	}
	return b.eval(src, consts)
}

func same(a string, b json.RawMessage) bool {
	var x, y any
	if json.Unmarshal([]byte(a), &x) != nil || json.Unmarshal(b, &y) != nil {
		return false
	}
	return reflect.DeepEqual(x, y)
}

// jrec is one line of the judge's input (trace.ndjson).
//
//	kind "text": got = observed text, want = prescribed text followed by the texts permitted under open findings
//	kind "textmo": likewise, judged up to the order of members (Go-side: Export + json.Marshal)
//	kind "num" : n = a double, got = observed JSON.stringify(n), back = projection of JSON.parse(got) observed
//	kind "str" : s = a string, got, back likewise
//	kind "tree": v = a JSON value tree, gap = the space argument, got = JSON.stringify(v, null, gap), back likewise
type jrec struct {
	ID   int             `json:"id"`
	Kind string          `json:"kind"`
	Got  []int           `json:"got"`
	Want [][]int         `json:"want,omitempty"`
	N    *num.N          `json:"n,omitempty"`
	S    *[]int          `json:"s,omitempty"`
	Back json.RawMessage `json:"back,omitempty"`
	V    any             `json:"v,omitempty"`
	Gap  *int            `json:"gap,omitempty"`

	src, out string
	cse, exp json.RawMessage
	control  int // expected verdict + 1 for control entries
	label    string
	consts   map[string]float64
	redo     func() (string, error) // evaluates the case again on a fresh runtime
}

// textCandidate: both outcomes are normal completions with a string value and
// the same call log; returns the observed and the prescribed text.
func textCandidate(out string, want json.RawMessage) (got, exp []int, ok bool) {
	var a, b outcome
	if json.Unmarshal([]byte(out), &a) != nil || json.Unmarshal(want, &b) != nil {
		return nil, nil, false
	}
	if a.Thr != "" || b.Thr != "" || a.V.T != "str" || b.V.T != "str" {
		return nil, nil, false
	}
	var la, lb any
	json.Unmarshal(a.Log, &la)
	json.Unmarshal(b.Log, &lb)
	if !reflect.DeepEqual(la, lb) {
		return nil, nil, false
	}
	if a.V.S == nil {
		a.V.S = []int{}
	}
	if b.V.S == nil {
		b.V.S = []int{}
	}
	return a.V.S, b.V.S, true
}

type counters struct {
	cases, evals, conform, dev, skipped, spelling, judged, rand int64
}

type checker struct {
	c       *core.Ctx
	n       counters
	mu      sync.Mutex
	samples []any
	queue   []*jrec
	qkeys   map[string]bool
	byFam   map[string]int64
	kept    [][]byte // generated lines kept for the binding self-test
	keptGo  [][]byte // likewise, Go-side family
	spellEx []any    // examples of texts accepted as respellings
}

func (p *jrec) name() string {
	if p.label != "" {
		return p.label
	}
	return p.src
}

func (k *checker) enqueue(p *jrec) {
	key := fmt.Sprint(p.Kind, p.Got, "|", p.Want)
	k.mu.Lock()
	defer k.mu.Unlock()
	if (p.Kind == "text" || p.Kind == "textmo") && p.control == 0 {
		if k.qkeys[key] {
			return
		}
		k.qkeys[key] = true
	}
	p.ID = len(k.queue) + 1
	k.queue = append(k.queue, p)
}

// classify evaluates src and classifies the outcome against the line:
// "conform", "dev", "text" (needs the judge), "panic", "mismatch".
func classify(box *vmBox, l *Line, src string, consts map[string]float64) (string, string, error) {
	out, err := box.evalLine(l, src, consts)
	if err != nil {
		if strings.HasPrefix(err.Error(), "GO PANIC") {
			return "panic", err.Error(), nil
		}
		return "", "", err
	}
	if same(out, l.Exp) {
		return "conform", out, nil
	}
	for _, d := range l.Dev {
		if same(out, d) {
			return "dev", out, nil
		}
	}
	if _, _, ok := textCandidate(out, l.Exp); ok {
		return "text", out, nil
	}
	return "mismatch", out, nil
}

// handle evaluates one generated case.
func (k *checker) handle(box *vmBox, raw []byte) error {
	var l Line
	if err := json.Unmarshal(raw, &l); err != nil {
		return fmt.Errorf("bad line: %v: %s", err, raw[:min(len(raw), 200)])
	}
	l.setMode()
	n := atomic.AddInt64(&k.n.cases, 1)
	k.mu.Lock()
	k.byFam[l.Fam]++
	// the explicit families (deterministic content); the large stringify families are thinned by a content hash
	if l.Fam == "go" {
		if contentHash(l.Js)%4 == 0 {
			k.keptGo = append(k.keptGo, raw)
		}
	} else if (l.Fam != "parse" || l.Rep > 1) && ((l.Fam != "str" && l.Fam != "rt1") || contentHash(l.Js)%4 == 0) {
		k.kept = append(k.kept, raw)
	}
	k.mu.Unlock()
	src, consts, err := gen.Render(l.Js)
	if err != nil {
		return fmt.Errorf("render: %v: %s", err, raw[:min(len(raw), 300)])
	}
	rep := l.Rep
	if rep < 1 {
		rep = 1
	}
	for r := 0; r < rep; r++ {
		atomic.AddInt64(&k.n.evals, 1)
		cls, out, err := classify(box, &l, src, consts)
		if err != nil {
			return err
		}
		switch cls {
		case "conform":
			atomic.AddInt64(&k.n.conform, 1)
			if n%499 == 1 && r == 0 {
				k.mu.Lock()
				if len(k.samples) < 8 {
					k.samples = append(k.samples, map[string]any{"js": l.label(src), "expected": l.Exp})
				}
				k.mu.Unlock()
			}
			continue
		case "dev":
			atomic.AddInt64(&k.n.dev, 1)
			k.c.Hit("deviation")
			continue
		case "text":
			// a text that differs from the prescribed one: let the specification read it
			got, exp, _ := textCandidate(out, l.Exp)
			p := &jrec{Kind: "text", Got: got, Want: [][]int{exp}, src: src, cse: l.C, out: out, exp: l.Exp, label: l.label(src), consts: consts}
			if l.Fam == "go" {
				if l.mode == "export" {
					p.Kind = "textmo" // a Go map has no member order
				}
				lc := l
				p.redo = func() (string, error) { return (&vmBox{}).evalGo(src, consts, lc.mode) }
			}
			for _, d := range l.Dev {
				if _, e2, ok2 := textCandidate(out, d); ok2 {
					p.Want = append(p.Want, e2)
				}
			}
			k.enqueue(p)
			continue
		}
		// reproduce on a fresh runtime before reporting
		cls2, out2, err := classify(&vmBox{}, &l, src, consts)
		if err != nil {
			return err
		}
		if cls2 != cls || out2 != out {
			if cls2 == "conform" || cls2 == "dev" {
				k.c.Note("case conforms on a fresh runtime but not on a reused one: %s", l.label(src))
			}
			atomic.AddInt64(&k.n.skipped, 1)
			continue
		}
		detail := fmt.Sprintf("%s  =>  implementation %s ; specification %s", l.label(src), trunc(out, 300), trunc(string(l.Exp), 300))
		k.c.Violate(detail, map[string]any{"js": l.label(src), "consts": consts, "case": l.C, "observed": out, "expected": l.Exp, "permitted_under_open_findings": l.Dev})
		break
	}
	return nil
}

func genCfg(c *core.Ctx, fam string, nsel int, deep bool) string {
	d := "FALSE"
	if deep {
		d = "TRUE"
	}
	return fmt.Sprintf("CONSTANTS\n OpenDev = %s\n Fam = %q\n NSel = %d\n Deep = %s\nINIT Init\nNEXT Next\nINVARIANT Emit\nCHECK_DEADLOCK FALSE\n",
		core.TLASet(c.Findings.OpenIDs()), fam, nsel, d)
}

type runCfg struct {
	Name string
	Cfg  string
	Seed int64
}

// Check is the property check.
func Check(c *core.Ctx) (map[string]any, []string, error) {
	k := &checker{c: c, qkeys: map[string]bool{}, byFam: map[string]int64{}}
	var runs []runCfg
	if c.Thorough() {
		runs = []runCfg{
			{Name: "explicit-families(deep domain)", Cfg: genCfg(c, "list", 0, true)},
			{Name: "single-mutations(all base texts)", Cfg: genCfg(c, "mut", 0, true)},
			{Name: "double-mutations(random 1000 per position)", Cfg: genCfg(c, "mut2", 1000, true), Seed: c.Seed},
		}
	} else {
		runs = []runCfg{
			{Name: "explicit-families", Cfg: genCfg(c, "list", 0, false)},
			{Name: "single-mutations", Cfg: genCfg(c, "mut", 0, false)},
			{Name: "double-mutations(random 10 per position)", Cfg: genCfg(c, "mut2", 10, false), Seed: c.Seed},
		}
	}
	ch := make(chan []byte, 8192)
	var wg sync.WaitGroup
	var firstErr atomic.Value
	for i := 0; i < c.Workers; i++ {
		wg.Add(1)
		go func() {
			defer wg.Done()
			box := &vmBox{}
			for raw := range ch {
				if err := k.handle(box, raw); err != nil {
					firstErr.CompareAndSwap(nil, err)
				}
			}
		}()
	}
	var tlcStats []map[string]any
	var runErr error
	for _, rc := range runs {
		o := tlc.Opts{SpecDir: c.SpecDir, Module: "C11", Cfg: rc.Cfg, Workers: c.Workers, Timeout: 40 * time.Minute, Seed: rc.Seed}
		res, err := tlc.Run(o, func(p []byte) {
			b := make([]byte, len(p))
			copy(b, p)
			ch <- b
		})
		if res != nil {
			tlcStats = append(tlcStats, map[string]any{"config": rc.Name, "generated": res.Generated, "distinct": res.Distinct, "lines": res.Lines, "wall_s": res.Wall})
		}
		if err != nil {
			runErr = err
			break
		}
	}
	close(ch)
	wg.Wait()
	if runErr != nil {
		return nil, nil, runErr
	}
	if e := firstErr.Load(); e != nil {
		return nil, nil, e.(error)
	}

	// judge direction: recorded implementation results judged by the specification
	if err := k.randomRecords(); err != nil {
		return nil, nil, err
	}
	if err := k.randomTrees(); err != nil {
		return nil, nil, err
	}
	k.controls()
	jstat, err := k.judge()
	if err != nil {
		return nil, nil, err
	}
	tlcStats = append(tlcStats, jstat)
	selftest, err := k.selfTest()
	if err != nil {
		return nil, nil, err
	}

	var states, trans int64
	for _, s := range tlcStats {
		states += s["distinct"].(int64)
		trans += s["generated"].(int64)
	}
	if len(k.samples) == 0 {
		k.samples = append(k.samples, "no conforming case sampled")
	}
	cov := map[string]any{
		"states": states, "transitions": trans, "traces_validated_against_impl": k.n.evals + k.n.rand,
		"samples": k.samples, "tlc_runs": tlcStats,
		"cases": k.n.cases, "cases_by_family": k.byFam, "evaluations": k.n.evals,
		"conforming": k.n.conform, "conforming_to_known_deviation": k.n.dev, "non_reproducible_skipped": k.n.skipped,
		"judged_by_specification": k.n.judged, "judged_spelling_only": k.n.spelling, "random_records_judged": k.n.rand,
		"binding_self_test": selftest, "spelling_only_examples": k.spellEx,
		"rule": "one case per TLC state of the generator module; parse cases of the explicit families are evaluated twice (member order must be stable); judged = observed texts / recorded round trips re-read by the specification",
	}
	assume := []string{
		"trusted: the JavaScript-side outcome projection (prelude of harness/internal/c11: ENC/ENCOBJ/SER, RUN11 via indirect eval; it does not use the implementation's JSON object), the evaluation of string literals with \\uXXXX escapes and of object construction by assignment on otto, Go float64 bit projection, TLC",
		"stringify results are judged as JSON texts: equal to the prescribed text after canonical respelling of string and number tokens by the specification's own recogniser (C11Judge.tla); the gap families contain no quote, digit or minus characters",
		"member order of a model object = insertion order = Object.keys order of otto (ES5 leaves for-in order to the implementation)",
		"lone surrogates only in a small dedicated family; object keys mix no astral character with a BMP character above U+DFFF (UTF-8 and UTF-16 orders differ there)",
	}
	return cov, assume, nil
}

// controls adds entries with a known verdict to every judge run (the judge
// itself is checked: it must accept a respelling and reject a different value).
func (k *checker) controls() {
	u := func(s string) []int {
		r := []int{}
		for _, c := range s {
			r = append(r, int(c))
		}
		return r
	}
	k.enqueue(&jrec{Kind: "text", Got: u(`{"a":"<","b":[1.0,2e0]}`), Want: [][]int{u(`{"a":"<","b":[1,2]}`)}, control: 2})
	k.enqueue(&jrec{Kind: "text", Got: u(`{"a":"<","b":[1,3]}`), Want: [][]int{u(`{"a":"<","b":[1,2]}`)}, control: 1})
	k.enqueue(&jrec{Kind: "text", Got: u(`{"b":[1,2],"a":"<"}`), Want: [][]int{u(`{"a":"<","b":[1,2]}`)}, control: 1})
	k.enqueue(&jrec{Kind: "text", Got: u("[\n 1\n]"), Want: [][]int{u("[\n  1\n]")}, control: 1})
	k.enqueue(&jrec{Kind: "text", Got: u(`[01]`), Want: [][]int{u(`[1]`)}, control: 1})
	k.enqueue(&jrec{Kind: "text", Got: u(`["\x"]`), Want: [][]int{u(`["x"]`)}, control: 1})
	// Go-side texts: not a JSON text at all; member order is free for exported values only, the values are not
	k.enqueue(&jrec{Kind: "text", Got: u(`undefined`), Want: [][]int{u(`null`)}, control: 1})
	k.enqueue(&jrec{Kind: "text", Got: u(`"\U000e0001"`), Want: [][]int{{34, 0xdb40, 0xdc01, 34}}, control: 1})
	k.enqueue(&jrec{Kind: "text", Got: u(`"\udb40\udc01\u007f"`), Want: [][]int{{34, 0xdb40, 0xdc01, 127, 34}}, control: 2})
	k.enqueue(&jrec{Kind: "textmo", Got: u(`{"a":[1.0,{"d":"\u003c","c":null}],"b":2}`), Want: [][]int{u(`{"b":2,"a":[1,{"c":null,"d":"<"}]}`)}, control: 2})
	k.enqueue(&jrec{Kind: "textmo", Got: u(`{"a":[{"d":"<","c":null},1],"b":2}`), Want: [][]int{u(`{"b":2,"a":[1,{"c":null,"d":"<"}]}`)}, control: 1})
	k.enqueue(&jrec{Kind: "textmo", Got: u(`{"a":1,"b":2,}`), Want: [][]int{u(`{"b":2,"a":1}`)}, control: 1})
	k.enqueue(&jrec{Kind: "textmo", Got: u(`{"a":1}`), Want: [][]int{u(`{"b":2,"a":1}`), u(`{"a":1}`)}, control: 3})
	one := num.Of(1)
	tree := func(n num.N) any {
		return map[string]any{"t": "obj", "members": []any{map[string]any{"key": []int{97}, "val": map[string]any{"t": "arr", "items": []any{
			map[string]any{"t": "num", "n": n}, map[string]any{"t": "str", "s": []int{120}}}}}}}
	}
	enc := func(v any) json.RawMessage { b, _ := json.Marshal(v); return b }
	zero := 0
	k.enqueue(&jrec{Kind: "tree", V: tree(one), Gap: &zero, Got: u(`{"a":[1,"x"]}`), Back: enc(tree(one)), control: 2})
	k.enqueue(&jrec{Kind: "tree", V: tree(one), Gap: &zero, Got: u(`{"a":[2,"x"]}`), Back: enc(tree(one)), control: 1})
	k.enqueue(&jrec{Kind: "tree", V: tree(one), Gap: &zero, Got: u(`{"a":[1,"x"]}`), Back: enc(tree(num.Of(2))), control: 1})
	k.enqueue(&jrec{Kind: "tree", V: tree(one), Gap: &zero, Got: u(`{"a": [1,"x"]}`), Back: enc(tree(one)), control: 1})
	k.enqueue(&jrec{Kind: "num", N: &one, Got: u(`1`), Back: enc(map[string]any{"t": "num", "n": one}), control: 2})
	k.enqueue(&jrec{Kind: "num", N: &one, Got: u(`1.5`), Back: enc(map[string]any{"t": "num", "n": one}), control: 1})
}

// judge runs C11Judge over the queued records.
func (k *checker) judge() (map[string]any, error) {
	var sb strings.Builder
	for _, p := range k.queue {
		if p.Got == nil {
			p.Got = []int{}
		}
		b, _ := json.Marshal(p)
		sb.Write(b)
		sb.WriteByte('\n')
	}
	verdict := map[int]int{}
	var mu sync.Mutex
	o := tlc.Opts{SpecDir: k.c.SpecDir, Module: "C11Judge", Cfg: "CONSTANTS\n OpenDev = " + core.TLASet(k.c.Findings.OpenIDs()) + "\nINIT Init\nNEXT Next\nINVARIANT Emit\nCHECK_DEADLOCK FALSE\n",
		Workers: k.c.Workers, Timeout: 30 * time.Minute, Files: map[string][]byte{"trace.ndjson": []byte(sb.String())}}
	res, err := tlc.Run(o, func(p []byte) {
		var v struct {
			ID int `json:"id"`
			M  int `json:"m"`
		}
		if json.Unmarshal(p, &v) == nil {
			mu.Lock()
			verdict[v.ID] = v.M
			mu.Unlock()
		}
	})
	if err != nil {
		return nil, err
	}
	for _, p := range k.queue {
		m, ok := verdict[p.ID]
		if !ok {
			return nil, fmt.Errorf("judge returned no verdict for entry %d", p.ID)
		}
		if p.control != 0 {
			if m != p.control-1 {
				return nil, fmt.Errorf("judge control entry %q: verdict %d, expected %d", jsx.UnitsString(p.Got), m, p.control-1)
			}
			continue
		}
		atomic.AddInt64(&k.n.judged, 1)
		switch {
		case m == 1 && p.Kind == "text":
			atomic.AddInt64(&k.n.spelling, 1)
			if len(k.spellEx) < 8 {
				k.spellEx = append(k.spellEx, map[string]any{"js": p.name(), "observed_text": jsx.UnitsString(p.Got), "prescribed_text": jsx.UnitsString(p.Want[0])})
			}
		case m == 1:
		case m > 1:
			atomic.AddInt64(&k.n.dev, 1)
			k.c.Hit("deviation")
		case p.Kind != "text" && p.Kind != "textmo":
			b, _ := json.Marshal(p)
			k.c.Violate(fmt.Sprintf("recorded round trip rejected by the specification: JSON.stringify gave %q; record %s", trunc(jsx.UnitsString(p.Got), 200), trunc(string(b), 400)),
				map[string]any{"record": p})
		default:
			var out2 string
			var err2 error
			if p.redo != nil {
				out2, err2 = p.redo()
			} else {
				out2, err2 = (&vmBox{}).eval(p.src, p.consts)
			}
			if err2 != nil || out2 != p.out {
				atomic.AddInt64(&k.n.skipped, 1)
				continue
			}
			how := "is not (a respelling of) the prescribed text"
			if p.Kind == "textmo" {
				how = "is not a JSON text denoting (up to member order) the value of the prescribed text"
			}
			k.c.Violate(fmt.Sprintf("%s  =>  implementation text %q %s %q", p.name(), trunc(jsx.UnitsString(p.Got), 200), how, trunc(jsx.UnitsString(p.Want[0]), 200)),
				map[string]any{"js": p.name(), "consts": p.consts, "case": p.cse, "observed": p.out, "expected": p.exp})
		}
	}
	return map[string]any{"config": "judge(C11Judge: observed texts and recorded round trips re-read by the specification)", "generated": res.Generated, "distinct": res.Distinct, "lines": res.Lines, "wall_s": res.Wall}, nil
}

// randomRecords: harness-generated doubles and strings are serialised and
// re-parsed on otto; TLC judges the records: the text must (re)spell to what
// 15.12.3 prescribes for the value, the specification's recogniser must read
// the value back from it, and so must the implementation (round trip).
func (k *checker) randomRecords() error {
	n := 400
	if k.c.Thorough() {
		n = 6000
	}
	rng := rand.New(rand.NewSource(k.c.Seed))
	vm, err := newVM("")
	if err != nil {
		return err
	}
	for i := 0; i < n; i++ {
		var lit string
		rec := &jrec{}
		if i%2 == 0 {
			var f float64
			switch rng.Intn(5) {
			case 0:
				f = math.Float64frombits(rng.Uint64())
			case 1:
				f = float64(rng.Int63n(1<<53)) * math.Pow(10, float64(rng.Intn(40)-20))
			case 2:
				f = math.Round(rng.NormFloat64()*1e6) / 1e3
			case 3:
				f = float64(rng.Int63n(1<<40)) - float64(int64(1)<<39)
			default:
				f = math.Float64frombits(0x3ff0000000000000 + uint64(rng.Int63n(1<<52))) // [1,2)
			}
			if math.IsNaN(f) || math.IsInf(f, 0) || (f != 0 && (math.Abs(f) > 1e120 || math.Abs(f) < 1e-120)) {
				f = float64(rng.Intn(100000)) / 64
			}
			if err := vm.Set("RX", f); err != nil {
				return err
			}
			lit = "RX"
			nn := num.Of(f)
			rec.Kind, rec.N = "num", &nn
		} else {
			units := make([]int, rng.Intn(7))
			if rng.Intn(3) == 0 { // escape look-alikes: backslashes, u, hex digits, quotes, HTML characters
				toks := []string{"\\", "\\", "u", "u003c", "u003e", "u0026", "u0022", "u005c", "u2028", "u000a", "003C", "\"", "<", ">", "&", "n", "/", "0", "c", "\n", "\u2028", "\u2029", "\b"}
				units = units[:0]
				for t := rng.Intn(6); t > 0; t-- {
					for _, r := range toks[rng.Intn(len(toks))] {
						units = append(units, int(r))
					}
				}
			} else {
				for j := range units {
					switch rng.Intn(6) {
					case 0:
						units[j] = rng.Intn(32)
					case 1:
						units[j] = []int{34, 92, 47, 60, 62, 38, 39, 127, 8232, 8233, 65279, 160}[rng.Intn(12)]
					case 2:
						units[j] = 0x80 + rng.Intn(0xd800-0x80)
					case 3:
						units[j] = 0xe000 + rng.Intn(0x1ffe)
					default:
						units[j] = 32 + rng.Intn(95)
					}
				}
			}
			lit = jsx.StrLit(units)
			rec.Kind, rec.S = "str", &units
		}
		v, err := vm.Call("RUN11", nil, "JSON.stringify("+lit+")")
		if err != nil {
			return err
		}
		var o outcome
		if err := json.Unmarshal([]byte(v.String()), &o); err != nil {
			return err
		}
		if o.Thr != "" || o.V.T != "str" {
			k.c.Violate("JSON.stringify("+lit+") did not return a string: "+v.String(), map[string]any{"js": "JSON.stringify(" + lit + ")"})
			continue
		}
		rec.Got = o.V.S
		v2, err := vm.Call("RUN11", nil, "JSON.parse(JSON.stringify("+lit+"))")
		if err != nil {
			return err
		}
		var back struct {
			Thr string          `json:"thr"`
			V   json.RawMessage `json:"v"`
		}
		if err := json.Unmarshal([]byte(v2.String()), &back); err != nil {
			return err
		}
		if back.Thr != "" {
			k.c.Violate("JSON.parse(JSON.stringify("+lit+")) throws "+back.Thr, map[string]any{"js": "JSON.parse(JSON.stringify(" + lit + "))"})
			continue
		}
		rec.Back = back.V
		k.enqueue(rec)
		atomic.AddInt64(&k.n.rand, 1)
	}
	return nil
}

// treeGen draws JSON-representable value trees (inputs only: the expected
// text and the expected parse result are computed by TLC in C11Judge).
type treeGen struct {
	rng    *rand.Rand
	consts map[string]float64
}

var keyPool = [][]int{{97}, {98}, {99}, {100}, {107, 49}, {233}, {}, {120, 32, 121}, {65}, {95}, {34}, {60}, {8232}, {122, 122}, {116, 111, 74, 83, 79, 78}, {116, 111, 74, 83, 79, 78}}

func (g *treeGen) str() []int {
	units := make([]int, g.rng.Intn(5))
	for j := range units {
		switch g.rng.Intn(8) {
		case 0:
			units[j] = g.rng.Intn(32)
		case 1:
			units[j] = []int{34, 92, 47, 60, 62, 38, 127, 8232, 8233, 233}[g.rng.Intn(10)]
		case 2:
			units[j] = 0x80 + g.rng.Intn(0xd800-0x80)
		default:
			units[j] = 32 + g.rng.Intn(95)
		}
	}
	return units
}

func (g *treeGen) gen(depth int) (string, any) {
	k := g.rng.Intn(10)
	if depth == 0 && k >= 6 {
		k = g.rng.Intn(6)
	}
	switch {
	case k == 0:
		return "null", map[string]any{"t": "null"}
	case k == 1:
		b := g.rng.Intn(2) == 0
		return fmt.Sprint(b), map[string]any{"t": "bool", "b": b}
	case k <= 3:
		var f float64
		switch g.rng.Intn(4) {
		case 0:
			f = float64(g.rng.Intn(2001) - 1000)
		case 1:
			f = float64(g.rng.Int63n(1<<40)-(1<<39)) / 8
		case 2:
			f = float64(g.rng.Int63n(1<<53)) * math.Pow(10, float64(g.rng.Intn(30)-15))
		default:
			f = math.Round(g.rng.NormFloat64()*1e5) / 1e4
		}
		if f == 0 {
			f = 0 // no -0: it is not JSON-representable
		}
		name := fmt.Sprintf("R%d", len(g.consts))
		g.consts[name] = f
		return name, map[string]any{"t": "num", "n": num.Of(f)}
	case k <= 5:
		u := g.str()
		return jsx.StrLit(u), map[string]any{"t": "str", "s": u}
	case k <= 7:
		n := g.rng.Intn(4)
		var sb strings.Builder
		items := []any{}
		sb.WriteByte('[')
		for i := 0; i < n; i++ {
			if i > 0 {
				sb.WriteByte(',')
			}
			js, enc := g.gen(depth - 1)
			sb.WriteString(js)
			items = append(items, enc)
		}
		sb.WriteByte(']')
		return sb.String(), map[string]any{"t": "arr", "items": items}
	default:
		n := g.rng.Intn(4)
		var sb strings.Builder
		members := []any{}
		used := map[string]bool{}
		sb.WriteByte('{')
		for i := 0; i < n; i++ {
			ki := g.rng.Intn(len(keyPool))
			if used[fmt.Sprint(keyPool[ki])] {
				continue
			}
			used[fmt.Sprint(keyPool[ki])] = true
			if len(members) > 0 {
				sb.WriteByte(',')
			}
			js, enc := g.gen(depth - 1)
			sb.WriteString(jsx.StrLit(keyPool[ki]) + ":" + js)
			members = append(members, map[string]any{"key": keyPool[ki], "val": enc})
		}
		sb.WriteByte('}')
		return "(" + sb.String() + ")", map[string]any{"t": "obj", "members": members}
	}
}

// randomTrees: nested values drawn by the harness, serialised (with a gap of
// 0..3) and re-parsed on otto; judged by TLC (C11Judge kind "tree").
func (k *checker) randomTrees() error {
	n := 300
	if k.c.Thorough() {
		n = 5000
	}
	rng := rand.New(rand.NewSource(k.c.Seed + 7919))
	vm, err := newVM("")
	if err != nil {
		return err
	}
	for i := 0; i < n; i++ {
		g := &treeGen{rng: rng, consts: map[string]float64{}}
		lit, enc := g.gen(3)
		for name, f := range g.consts {
			if err := vm.Set(name, f); err != nil {
				return err
			}
		}
		gap := rng.Intn(4)
		src := fmt.Sprintf("JSON.stringify(%s,null,%d)", lit, gap)
		v, err := vm.Call("RUN11", nil, src)
		if err != nil {
			return err
		}
		var o outcome
		if err := json.Unmarshal([]byte(v.String()), &o); err != nil {
			return err
		}
		if o.Thr != "" || o.V.T != "str" {
			k.c.Violate(src+" did not return a string: "+v.String(), map[string]any{"js": src, "consts": g.consts})
			continue
		}
		v2, err := vm.Call("RUN11", nil, "JSON.parse("+src+")")
		if err != nil {
			return err
		}
		var back struct {
			Thr string          `json:"thr"`
			V   json.RawMessage `json:"v"`
		}
		if err := json.Unmarshal([]byte(v2.String()), &back); err != nil {
			return err
		}
		if back.Thr != "" {
			k.c.Violate("JSON.parse("+src+") throws "+back.Thr, map[string]any{"js": "JSON.parse(" + src + ")", "consts": g.consts})
			continue
		}
		k.enqueue(&jrec{Kind: "tree", V: enc, Gap: &gap, Got: o.V.S, Back: back.V, src: src})
		atomic.AddInt64(&k.n.rand, 1)
	}
	return nil
}

// selfTest demonstrates the binding: the kept cases are replayed against
// deliberately wrong JSON adapters; every mutant must be rejected by at least
// one case (BUILDING.md, definition of done 3).
func (k *checker) selfTest() (map[string]any, error) {
	type kc struct {
		l      Line
		src    string
		consts map[string]float64
	}
	// only cases the unchanged runtime passes without the judge are replayed
	var cases []kc
	plain := &vmBox{}
	for _, raw := range k.kept {
		var l Line
		if json.Unmarshal(raw, &l) != nil {
			continue
		}
		src, consts, err := gen.Render(l.Js)
		if err != nil {
			continue
		}
		cls0, _, err := classify(plain, &l, src, consts)
		if err != nil {
			return nil, err
		}
		if cls0 == "conform" {
			cases = append(cases, kc{l, src, consts})
		}
	}
	res := map[string]any{}
	var mu sync.Mutex
	var wg sync.WaitGroup
	var firstErr error
	for _, m := range mutants {
		wg.Add(1)
		go func() {
			defer wg.Done()
			box := &vmBox{extra: m.JS}
			rejected := 0
			first := ""
			for i := range cases {
				cls, _, err := classify(box, &cases[i].l, cases[i].src, cases[i].consts)
				if err != nil {
					mu.Lock()
					firstErr = err
					mu.Unlock()
					return
				}
				if cls != "conform" && cls != "dev" { // dev: the member order of parse results varies from run to run
					rejected++
					if first == "" {
						first = cases[i].src
					}
				}
			}
			mu.Lock()
			res[m.Name] = map[string]any{"cases_replayed": len(cases), "rejected": rejected, "first_rejected": first}
			if rejected == 0 && firstErr == nil {
				firstErr = fmt.Errorf("binding self-test: the wrong adapter %q was not rejected by any of %d cases", m.Name, len(cases))
			}
			mu.Unlock()
		}()
	}
	wg.Wait()
	if firstErr != nil {
		return nil, firstErr
	}
	// the Go-side family against two deliberately wrong Go adapters
	var goCases []kc
	for _, raw := range k.keptGo {
		var l Line
		if json.Unmarshal(raw, &l) != nil {
			continue
		}
		l.setMode()
		src, consts, err := gen.Render(l.Js)
		if err != nil {
			continue
		}
		cls0, _, err := classify(plain, &l, src, consts)
		if err != nil {
			return nil, err
		}
		if cls0 == "conform" || cls0 == "dev" {
			goCases = append(goCases, kc{l, src, consts})
		}
	}
	for _, m := range []string{"swallows errors", "marshals twice"} {
		box := &vmBox{goMut: m}
		rejected, first := 0, ""
		for i := range goCases {
			cls, _, err := classify(box, &goCases[i].l, goCases[i].src, goCases[i].consts)
			if err != nil {
				return nil, err
			}
			if cls == "mismatch" || cls == "panic" {
				rejected++
				if first == "" {
					first = goCases[i].l.label(goCases[i].src)
				}
			}
		}
		name := "Go-side adapter " + m
		res[name] = map[string]any{"cases_replayed": len(goCases), "rejected": rejected, "first_rejected": first}
		if rejected == 0 {
			return nil, fmt.Errorf("binding self-test: the wrong adapter %q was not rejected by any of %d cases", name, len(goCases))
		}
	}
	return res, nil
}

func contentHash(parts []json.RawMessage) uint32 {
	h := fnv.New32a()
	for _, p := range parts {
		h.Write(p)
	}
	return h.Sum32()
}

func trunc(s string, n int) string {
	if len(s) > n {
		return s[:n] + "..."
	}
	return s
}
