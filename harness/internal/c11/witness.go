package c11

import (
	"encoding/json"
	"fmt"

	"github.com/robertkrimen/otto"

	"verif/harness/internal/core"
)

// Go-side witnesses of the open findings on Go-side marshalling (a script
// alone cannot show them): "<text of Value.MarshalJSON> <its error> / <error
// of json.Marshal over a slice holding the value, shortened>".
func init() {
	w := func(src string) func() (string, error) {
		return func() (string, error) {
			vm := otto.New()
			v, err := vm.Run(src)
			if err != nil {
				return "", err
			}
			b, e1 := v.MarshalJSON()
			_, e2 := json.Marshal([]otto.Value{v})
			in := "ok"
			if e2 != nil {
				in = "error"
			}
			return fmt.Sprintf("%s %v / in a slice: %s", b, e1, in), nil
		}
	}
	core.GoWitnesses["c11_gomarshal_function"] = w(`(function(){})`)
	core.GoWitnesses["c11_gomarshal_nan"] = w(`NaN`)
}
