package nj

import (
	"encoding/json"
	"math"
	"math/rand"
	"os"
	"testing"
	"time"

	"verif/harness/internal/num"
	"verif/harness/internal/tlc"
)

func toInt32(f float64) float64 {
	if math.IsNaN(f) || math.IsInf(f, 0) {
		return 0
	}
	f = math.Trunc(f)
	f = math.Mod(f, 4294967296)
	if f < 0 {
		f += 4294967296
	}
	if f >= 2147483648 {
		f -= 4294967296
	}
	if f == 0 {
		return 0
	}
	return f
}
func toUint32(f float64) float64 {
	r := toInt32(f)
	if r < 0 {
		r += 4294967296
	}
	return r
}

func TestNum(t *testing.T) {
	rng := rand.New(rand.NewSource(1))
	vals := []float64{0, math.Copysign(0, -1), 1, -1, 0.5, -0.5, 1.5, 2, 3, 10, 255, 65535, 65536, 1 << 30, 1<<30 + 1, -(1 << 30), 1<<31 - 1, 1 << 31, 1<<31 + 1, 1<<32 - 1, 1 << 32, 1<<32 + 1, 1<<53 - 1, 1 << 53, 1<<53 + 2, 1 << 63, -(1 << 63), 1 << 64, 1e21, 5e-324, math.MaxFloat64, -math.MaxFloat64, math.Inf(1), math.Inf(-1), math.NaN(), 0.1, 0.2, 0.3, 1e-7, 123456789.125, 2.2250738585072014e-308, 4294967295.5, -4294967296.5, 2147483648.5, -2147483649}
	for i := 0; i < 60; i++ {
		vals = append(vals, math.Float64frombits(rng.Uint64()))
		vals = append(vals, float64(rng.Int63n(1<<40))-float64(1<<39)+float64(rng.Intn(4))/4)
	}
	type ev struct {
		Op string `json:"op"`
		A  num.N  `json:"a"`
		B  num.N  `json:"b"`
		R  num.N  `json:"r"`
	}
	f, _ := os.Create("/tmp/t1/nj/trace.ndjson")
	enc := json.NewEncoder(f)
	n := 0
	bf := func(b bool) float64 { if b { return 1 }; return 0 }
	for _, a := range vals {
		un := map[string]float64{"toint32": toInt32(a), "touint32": toUint32(a), "touint16": math.Mod(toUint32(a), 65536) + 0, "floor": math.Floor(a), "ceil": math.Ceil(a), "not": float64(^int32(toInt32(a)))}
		ti := math.Trunc(a)
		if math.IsNaN(a) { ti = 0 }
		un["tointeger"] = ti
		for op, r := range un {
			enc.Encode(ev{op, num.Of(a), num.Of(0), num.Of(r)})
			n++
		}
		for _, b := range vals {
			if rng.Intn(6) != 0 { continue }
			ia, ib := int32(toInt32(a)), int32(toInt32(b))
			sh := uint32(toUint32(b)) & 31
			bin := map[string]float64{"add": a + b, "sub": a - b, "mul": a * b, "div": a / b, "mod": math.Mod(a, b),
				"and": float64(ia & ib), "or": float64(ia | ib), "xor": float64(ia ^ ib),
				"shl": float64(ia << sh), "shr": float64(ia >> sh), "shru": float64(uint32(toUint32(a)) >> sh),
				"lt": bf(a < b), "eq": bf(a == b)}
			for op, r := range bin {
				enc.Encode(ev{op, num.Of(a), num.Of(b), num.Of(r)})
				n++
			}
		}
	}
	f.Close()
	t.Logf("%d events", n)
	bad := 0
	res, err := tlc.Run(tlc.Opts{SpecDir: "/verif/spec", Module: "NumJudge", Cfg: "INIT Init\nNEXT Next\nINVARIANT Check\n", Workers: 16, Files: map[string][]byte{"trace.ndjson": mustRead("/tmp/t1/nj/trace.ndjson")}, Timeout: 10 * time.Minute}, func(p []byte) {
		bad++
		if bad < 15 {
			t.Logf("MISMATCH %s", p)
		}
	})
	if err != nil {
		t.Fatal(err)
	}
	t.Logf("states %d wall %.1fs bad %d", res.Distinct, res.Wall, bad)
	if bad > 0 { t.Fail() }
}

func mustRead(p string) []byte { b, _ := os.ReadFile(p); return b }
