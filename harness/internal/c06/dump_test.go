package c06

import (
	"os"
	"testing"

	"verif/harness/internal/core"
)

// TestDumpDomain writes the number->text domain to $C06_DUMP (manual TLC runs).
func TestDumpDomain(t *testing.T) {
	p := os.Getenv("C06_DUMP")
	if p == "" {
		t.Skip("C06_DUMP not set")
	}
	tier := os.Getenv("C06_TIER")
	if tier == "" {
		tier = "quick"
	}
	c, err := core.NewCtx("C06", tier)
	if err != nil {
		t.Fatal(err)
	}
	b, byOp, n := Domain(c)
	t.Logf("%d cases %v", n, byOp)
	if err := os.WriteFile(p, b, 0o644); err != nil {
		t.Fatal(err)
	}
}
