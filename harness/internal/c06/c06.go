// Package c06: numbers and their text forms convert exactly in both
// directions (spec/NumFmt.tla, spec/C06.tla).
//
// The driver is a thin client of internal/gen.  Text -> number cases are
// enumerated by TLC.  For number -> text the harness only supplies the DOMAIN
// (seeded random and boundary doubles with the argument of the operation) in
// dom.ndjson; TLC reads it, computes the text ES5 requires for every case and
// emits it like any other generated case.  No expected result is computed here.
package c06

import (
	"bytes"
	"encoding/json"
	"fmt"
	"math"
	"math/big"
	"math/rand"
	"os"
	"time"

	"verif/harness/internal/core"
	"verif/harness/internal/gen"
	"verif/harness/internal/num"
	"verif/harness/internal/tlc"
)

type val struct {
	T string `json:"t"`
	N *num.N `json:"n,omitempty"`
}

type dcase struct {
	Op string `json:"op"`
	X  num.N  `json:"x"`
	A  val    `json:"a"`
}

// scase is a text -> number case of the harness-supplied domain.
type scase struct {
	Op string `json:"op"`
	S  []int  `json:"s"`
	A  val    `json:"a"`
}

var undef = val{T: "undef"}

func nv(f float64) val { n := num.Of(f); return val{T: "num", N: &n} }

// budget of a tier: how many doubles of each kind enter the domain.
type budget struct {
	strCheap, strExtreme   int // String / round trip
	fmtCheap, fmtExtreme   int // doubles for toFixed / toExponential / toPrecision
	argsPerX               int // random digit arguments per double (besides the full sweep on a few)
	sweepX                 int // doubles that get every digit argument
	radixInts, radixPerInt int
	ties                   int
	txtCheap, txtExtreme   int // random literal strings
	txtTies                int
}

func budgetOf(c *core.Ctx) budget {
	if c.Thorough() {
		return budget{strCheap: 6000, strExtreme: 2500, fmtCheap: 3000, fmtExtreme: 700, argsPerX: 6, sweepX: 120, radixInts: 500, radixPerInt: 8, ties: 400, txtCheap: 12000, txtExtreme: 2500, txtTies: 600}
	}
	return budget{strCheap: 900, strExtreme: 260, fmtCheap: 420, fmtExtreme: 60, argsPerX: 3, sweepX: 14, radixInts: 90, radixPerInt: 4, ties: 60, txtCheap: 1000, txtExtreme: 150, txtTies: 60}
}

func ulps(f float64, k int) float64 {
	for ; k > 0; k-- {
		f = math.Nextafter(f, math.Inf(1))
	}
	for ; k < 0; k++ {
		f = math.Nextafter(f, math.Inf(-1))
	}
	return f
}

// cheap: the exact decimal expansion is short enough for TLC to handle in milliseconds.
func cheap(f float64) bool {
	if f == 0 || math.IsNaN(f) || math.IsInf(f, 0) {
		return true
	}
	_, e := math.Frexp(f)
	return e > -90 && e < 100
}

type dom struct {
	rng   *rand.Rand
	seen  map[string]bool
	lines bytes.Buffer
	n     int
	byOp  map[string]int
}

func (d *dom) add(op string, x float64, a val) {
	b, _ := json.Marshal(dcase{Op: op, X: num.Of(x), A: a})
	if d.seen[string(b)] {
		return
	}
	d.seen[string(b)] = true
	d.lines.Write(b)
	d.lines.WriteByte('\n')
	d.n++
	d.byOp[op]++
}

func (d *dom) addText(op, text string, a val) {
	u := make([]int, 0, len(text))
	for _, r := range text { // ASCII only
		u = append(u, int(r))
	}
	b, _ := json.Marshal(scase{Op: op, S: u, A: a})
	if d.seen[string(b)] {
		return
	}
	d.seen[string(b)] = true
	d.lines.Write(b)
	d.lines.WriteByte('\n')
	d.n++
	d.byOp[op]++
}

// allText hands one string to every text -> number operation it suits.
func (d *dom) allText(text string) {
	d.addText("Number", text, undef)
	d.addText("parseFloat", text, undef)
	d.addText("parseInt", text, undef)
	if d.rng.Intn(4) == 0 {
		d.addText("plus", text, undef)
		d.addText("parseInt", text, nv(float64([]int{10, 16, 8, 2, 36}[d.rng.Intn(5)])))
	}
	if len(text) > 0 && (text[0] == '.' || (text[0] >= '0' && text[0] <= '9')) {
		d.addText("lit", text, undef)
	}
}

func (d *dom) digits(n int) string {
	b := make([]byte, n)
	for i := range b {
		b[i] = byte('0' + d.rng.Intn(10))
	}
	return string(b)
}

// decimalLiteral: a random StrDecimalLiteral with at most 17 mantissa digits
// (ES5 fixes the rounding only up to 20 significant digits).
func (d *dom) decimalLiteral(extreme bool) string {
	sig := 1 + d.rng.Intn(17)
	ds := d.digits(sig)
	var m string
	switch d.rng.Intn(4) {
	case 0:
		m = ds
	case 1:
		k := d.rng.Intn(sig + 1)
		m = ds[:k] + "." + ds[k:]
	case 2:
		m = "." + ds
	default:
		m = ds + "."
	}
	if m == "." {
		m = "0."
	}
	if d.rng.Intn(3) > 0 {
		e := d.rng.Intn(41) - 20
		if extreme {
			e = d.rng.Intn(700) - 360
		}
		es := fmt.Sprintf("%d", e)
		if e >= 0 && d.rng.Intn(2) == 0 {
			es = "+" + es
		}
		m += string("eE"[d.rng.Intn(2)]) + es
	}
	switch d.rng.Intn(6) {
	case 0:
		m = "-" + m
	case 1:
		m = "+" + m
	}
	return m
}

func (d *dom) mutate(s string) string {
	const pool = "0123456789..eeEE++--xX_ aIfnity"
	c := string(pool[d.rng.Intn(len(pool))])
	if len(s) == 0 {
		return c
	}
	i := d.rng.Intn(len(s) + 1)
	switch d.rng.Intn(3) {
	case 0:
		return s[:i] + c + s[i:]
	case 1:
		if i == len(s) {
			i--
		}
		return s[:i] + s[i+1:]
	default:
		if i == len(s) {
			i--
		}
		return s[:i] + c + s[i+1:]
	}
}

// texts adds the random text -> number cases: literals from the grammar,
// exact decimal ties between adjacent doubles, and one-character mutations.
func (d *dom) texts(cheapN, extremeN, tieN int) {
	for i := 0; i < cheapN; i++ {
		s := d.decimalLiteral(false)
		d.allText(s)
		if i%2 == 0 {
			d.allText(d.mutate(s))
		}
		if i%5 == 0 {
			d.allText(" " + s + " ")
		}
	}
	for i := 0; i < extremeN; i++ {
		s := d.decimalLiteral(true)
		d.allText(s)
		if i%4 == 0 {
			d.allText(d.mutate(s))
		}
	}
	// integers m * 2^j with m an odd 54-bit number lie exactly half way between two doubles
	for i := 0; i < tieN; i++ {
		m := new(big.Int).SetUint64(1<<53 | uint64(d.rng.Int63n(1<<53)) | 1)
		m.Lsh(m, uint(d.rng.Intn(13)))
		for _, delta := range []int64{0, 1, -1} {
			v := new(big.Int).Add(m, big.NewInt(delta))
			if len(v.String()) > 20 {
				continue
			}
			d.allText(v.String())
			d.addText("parseInt", v.String(), nv(10))
			d.addText("pistr", v.String(), undef)
			d.addText("Number", "0x"+v.Text(16), undef)
			d.addText("lit", "0x"+v.Text(16), undef)
			d.addText("parseInt", v.Text(16), nv(16))
			d.addText("parseInt", v.Text(2), nv(2))
			d.addText("parseInt", "-"+v.Text(8), nv(8))
			d.addText("parseInt", v.Text(32), nv(32))
			d.addText("parseInt", v.Text(4), nv(4))
		}
	}
}

func (d *dom) sign(f float64) float64 {
	if d.rng.Intn(4) == 0 {
		return -f
	}
	return f
}

// moderate: a random double whose binary exponent lies in [lo, hi).
func (d *dom) moderate(lo, hi int) float64 {
	m := 1 + d.rng.Float64()
	if d.rng.Intn(3) == 0 { // few significant bits: short decimal expansions, exact ties
		bits := uint(1 + d.rng.Intn(20))
		m = 1 + float64(d.rng.Int63n(1<<bits))/float64(uint64(1)<<bits)
	}
	return d.sign(math.Ldexp(m, lo+d.rng.Intn(hi-lo)))
}

func (d *dom) anyBits() float64 {
	for {
		f := math.Float64frombits(d.rng.Uint64())
		if !math.IsNaN(f) && !math.IsInf(f, 0) {
			return f
		}
	}
}

func (d *dom) subnormal() float64 {
	return d.sign(math.Float64frombits(uint64(d.rng.Int63n(1 << 52))))
}

// boundary doubles every tier includes.
func fixedDoubles() []float64 {
	fs := []float64{math.NaN(), math.Inf(1), math.Inf(-1), 0, math.Copysign(0, -1),
		1, -1, 2, 5, 9, 10, 15, 25, 35, 45, 95, 99, 100, 123, 999, 1000, 1005, 12345, 123456, 1234567, 99999, 999999,
		0.5, 1.5, 2.5, 3.5, -0.5, -1.5, -2.5, 0.25, 0.75, 0.125, 0.375, 0.0625, 1.25, 1.0625, 0.05, 0.15, 0.45, 0.1, 0.2, 0.3, 0.7,
		1.005, 1.45, 8.345, 1.255, 10.235, 0.000001, 0.0000001, 0.00000123, 0.0000015, 123.456, -123.456, 1e21, -1e21, 1e-7, -1e-7,
		0.00001, 0.0001, 0.000015, 1e20, 1e22, 1.5e21, 1.5e-7, 4.35, 0.615, 2.345e-5, 5e-7, 9.5e-7, 9.95, 9.995, 99.5, 0.95, 0.995,
		5e-324, -5e-324, 1e-323, 2.2250738585072014e-308, 2.225073858507201e-308, 4.450147717014403e-308, math.MaxFloat64, -math.MaxFloat64,
		1 << 53, 1<<53 - 1, 1<<53 + 2, 1 << 62, 1 << 63, 1 << 64, -(1 << 63), 4294967295, 4294967296, 2147483648, 1073741824, 1073741825,
		1.7976931348623155e308, 8.98846567431158e307, 123456789012345680000, 0.000001234, 1234.5678, 255, -255, 65535, 3.14159, 2.718281828459045,
	}
	// the layout thresholds of 9.8.1 and their neighbours (the doubles just below 1e21 and 1e-6 matter)
	for _, t := range []float64{1e21, 1e-6, 1e-7, 1e20, 1e22, 1e-5} {
		for k := -40; k <= 6; k++ {
			fs = append(fs, ulps(t, k))
		}
	}
	return fs
}

// Domain builds dom.ndjson for a tier and seed.
func Domain(c *core.Ctx) ([]byte, map[string]int, int) {
	b := budgetOf(c)
	d := &dom{rng: rand.New(rand.NewSource(c.Seed*7919 + 17)), seen: map[string]bool{}, byOp: map[string]int{}}
	fixed := fixedDoubles()

	// ---- 9.8.1: String(x), '' + x, Number(String(x))
	strX := append([]float64{}, fixed...)
	for k := -30; k <= 30; k++ { // powers of ten and their neighbours
		p := math.Pow(10, float64(k))
		strX = append(strX, p, ulps(p, 1), ulps(p, -1), d.sign(ulps(p, d.rng.Intn(9)-4)))
	}
	for k := -80; k <= 90; k += 1 + d.rng.Intn(3) { // powers of two and their neighbours
		p := math.Ldexp(1, k)
		strX = append(strX, p, ulps(p, 1), ulps(p, -1))
	}
	for i := 0; i < b.strCheap; i++ {
		switch i % 3 {
		case 0:
			strX = append(strX, d.moderate(-80, 90))
		case 1:
			strX = append(strX, d.sign(float64(d.rng.Int63n(1<<53))/math.Pow(10, float64(d.rng.Intn(18))))) // short decimals
		default:
			strX = append(strX, d.moderate(-25, 75))
		}
	}
	for i := 0; i < b.strExtreme; i++ {
		switch i % 5 {
		case 0:
			strX = append(strX, d.subnormal())
		case 1:
			k := d.rng.Intn(617) - 308
			strX = append(strX, ulps(math.Pow(10, float64(k)), d.rng.Intn(5)-2))
		case 2:
			strX = append(strX, ulps(math.Ldexp(1, d.rng.Intn(2046)-1022), d.rng.Intn(3)-1))
		default:
			strX = append(strX, d.anyBits())
		}
	}
	for i, x := range strX {
		d.add("String", x, undef)
		if i%4 == 0 {
			d.add("rt", x, undef)
		}
		if i%8 == 0 { // ToString of the argument is step 1 of parseInt / parseFloat
			d.add("parseIntNum", x, undef)
			d.add("parseFloatNum", x, undef)
		}
		if i%16 == 0 {
			d.add("concat", x, undef)
			d.add("toString", x, undef)
			d.add("toString", x, nv(10))
			d.add("toPrecision", x, undef)
		}
	}

	// ---- 15.7.4.5-7: digits arguments
	fixArgs := []val{undef, nv(-1), nv(21), nv(-0.5), nv(20.9), nv(math.NaN()), nv(math.Inf(1)), nv(math.Inf(-1)), nv(1e21), nv(-1e-9), nv(math.Copysign(0, -1))}
	expArgs := []val{undef, nv(-1), nv(21), nv(25), nv(50), nv(100), nv(math.NaN()), nv(-0.5), nv(20.5), nv(math.Inf(-1)), nv(math.Copysign(0, -1))}
	precArgs := []val{undef, nv(0), nv(-1), nv(22), nv(25), nv(50), nv(100), nv(math.NaN()), nv(0.5), nv(21.5), nv(1.9), nv(math.Inf(-1))}
	fmtX := append([]float64{}, fixed...)
	for i := 0; i < b.fmtCheap; i++ {
		switch i % 4 {
		case 0:
			fmtX = append(fmtX, d.moderate(-70, 80))
		case 1:
			fmtX = append(fmtX, d.sign(float64(d.rng.Int63n(1<<uint(1+d.rng.Intn(52))))/math.Pow(10, float64(d.rng.Intn(12)))))
		case 2:
			fmtX = append(fmtX, d.moderate(-12, 40))
		default:
			k := d.rng.Intn(45) - 22
			fmtX = append(fmtX, d.sign(ulps(math.Pow(10, float64(k)), d.rng.Intn(5)-2)))
		}
	}
	for i := 0; i < b.fmtExtreme; i++ {
		if i%3 == 0 {
			fmtX = append(fmtX, d.subnormal())
		} else {
			fmtX = append(fmtX, d.anyBits())
		}
	}
	for i, x := range fmtX {
		sweep := i < len(fixed) && i%((len(fixed)/b.sweepX)+1) == 0
		if i < 5 || sweep { // NaN, +-Infinity, +-0 and a spread of boundary doubles: every argument
			for f := 0; f <= 20; f++ {
				d.add("toFixed", x, nv(float64(f)))
				d.add("toExponential", x, nv(float64(f)))
			}
			for p := 1; p <= 21; p++ {
				d.add("toPrecision", x, nv(float64(p)))
			}
			for _, a := range fixArgs {
				d.add("toFixed", x, a)
			}
			for _, a := range expArgs {
				d.add("toExponential", x, a)
			}
			for _, a := range precArgs {
				d.add("toPrecision", x, a)
			}
			continue
		}
		for j := 0; j < b.argsPerX; j++ {
			if math.Abs(x) < 1e22 || j == 0 {
				d.add("toFixed", x, nv(float64(d.rng.Intn(21))))
			}
			d.add("toExponential", x, nv(float64(d.rng.Intn(21))))
			d.add("toPrecision", x, nv(float64(1+d.rng.Intn(21))))
		}
		d.add("toExponential", x, undef)
		if d.rng.Intn(6) == 0 {
			d.add("toFixed", x, fixArgs[d.rng.Intn(len(fixArgs))])
			d.add("toExponential", x, expArgs[d.rng.Intn(len(expArgs))])
			d.add("toPrecision", x, precArgs[d.rng.Intn(len(precArgs))])
		}
	}
	// exact decimal ties: toFixed(f) ties are q / 2^(f+1) with q odd
	for i := 0; i < b.ties; i++ {
		f := d.rng.Intn(21)
		q := float64(2*d.rng.Int63n(1<<uint(2+d.rng.Intn(30))) + 1)
		x := d.sign(math.Ldexp(q, -(f + 1)))
		d.add("toFixed", x, nv(float64(f)))
		// toPrecision / toExponential ties: an integer d...d5 or d...d50..0 cut before the 5
		digits := 1 + d.rng.Intn(10)
		n := float64(d.rng.Int63n(int64(math.Pow(10, float64(digits)))-int64(math.Pow(10, float64(digits-1)))) + int64(math.Pow(10, float64(digits-1))))
		y := d.sign((n*10 + 5) * math.Pow(10, float64(d.rng.Intn(5)))) // exact: below 2^53
		d.add("toPrecision", y, nv(float64(digits)))
		d.add("toExponential", y, nv(float64(digits-1)))
		// dyadic fractions with a 5 as the last decimal digit
		fr := float64(2*d.rng.Int63n(1<<uint(1+d.rng.Intn(12)))+1) / float64(uint64(1)<<uint(1+d.rng.Intn(12)))
		for p := 1; p <= 6; p++ {
			d.add("toPrecision", fr, nv(float64(p)))
			d.add("toExponential", fr, nv(float64(p-1)))
		}
	}

	// ---- 15.7.4.2: toString(radix) on integers and non-finite values
	ints := []float64{0, math.Copysign(0, -1), 1, -1, 2, 35, 36, 37, 255, -255, 4294967295, 1 << 53, 1<<53 - 1, -(1<<53 - 1), 1<<53 + 2, 1 << 62, 1<<63 - 1024, 1 << 63, -(1 << 63),
		1<<63 + 2048, -(1<<63 + 2048), 1 << 64, 1e21, -1e21, 1e22, math.Ldexp(1, 100), math.MaxFloat64, math.NaN(), math.Inf(1), math.Inf(-1)}
	for i := 0; i < b.radixInts; i++ {
		switch i % 4 {
		case 0:
			ints = append(ints, d.sign(float64(d.rng.Int63n(1<<53))))
		case 1:
			ints = append(ints, d.sign(float64(d.rng.Int63n(1<<uint(1+d.rng.Intn(40))))))
		case 2:
			ints = append(ints, d.sign(math.Ldexp(float64(d.rng.Int63n(1<<53)|1<<52), d.rng.Intn(11)))) // 2^53 .. 2^63
		default:
			ints = append(ints, d.sign(math.Ldexp(float64(d.rng.Int63n(1<<53)|1<<52), 11+d.rng.Intn(60)))) // beyond 2^63
		}
	}
	radixArgs := []val{undef, nv(1), nv(37), nv(0), nv(-1), nv(math.NaN()), nv(2.9), nv(36.9), nv(1.9), nv(math.Inf(1)), nv(math.Inf(-1)), nv(4294967298)}
	for i, x := range ints {
		if i < 30 {
			for r := 2; r <= 36; r++ {
				d.add("toString", x, nv(float64(r)))
			}
			for _, a := range radixArgs {
				d.add("toString", x, a)
			}
			continue
		}
		for j := 0; j < b.radixPerInt; j++ {
			d.add("toString", x, nv(float64(2+d.rng.Intn(35))))
		}
	}

	// ---- text -> number on random strings longer than TLC enumerates
	d.texts(b.txtCheap, b.txtExtreme, b.txtTies)
	return d.lines.Bytes(), d.byOp, d.n
}

// selfDomain: String(x) cases on which TLC also evaluates the independent
// formulation NumText!ShortestDigits and asserts agreement with NumFmt!ShortDigits.
func selfDomain(c *core.Ctx) ([]byte, int) {
	n := 0 // the independent formulation costs 1-5 s per extreme double: thorough tier only
	if c.Thorough() {
		n = 320
	}
	d := &dom{rng: rand.New(rand.NewSource(c.Seed*104729 + 5)), seen: map[string]bool{}, byOp: map[string]int{}}
	for i := 0; i < n; i++ {
		switch i % 4 {
		case 0:
			d.add("String", d.anyBits(), undef)
		case 1:
			d.add("String", d.subnormal(), undef)
		case 2:
			d.add("String", ulps(math.Pow(10, float64(d.rng.Intn(617)-308)), d.rng.Intn(5)-2), undef)
		default:
			d.add("String", d.moderate(-80, 90), undef)
		}
	}
	return d.lines.Bytes(), d.n
}

func cfg(c *core.Ctx, fam string, maxLen, litLen int) string {
	return fmt.Sprintf("CONSTANTS\n OpenDev = %s\n Fam = %q\n MaxLen = %d\n LitLen = %d\nINIT Init\nNEXT Next\nINVARIANT Emit\nCHECK_DEADLOCK FALSE\n",
		core.TLASet(c.Findings.OpenIDs()), fam, maxLen, litLen)
}

var placeholder = []byte(`{"op":"String","x":{"c":"int","v":1},"a":{"t":"undef"}}` + "\n")

var Spec = &gen.Spec{
	Module: "C06",
	Runs: func(c *core.Ctx) []gen.RunCfg {
		maxLen, litLen := 4, 4
		if c.Thorough() {
			maxLen, litLen = 5, 6
		}
		domBytes, byOp, n := Domain(c)
		c.Note("harness-supplied domain: %d cases %v", n, byOp)
		selfBytes, selfN := selfDomain(c)
		runs := []gen.RunCfg{
			{Name: fmt.Sprintf("text->number: all strings of <= %d tokens, literal texts of <= %d characters, hand-chosen strings x radixes", maxLen, litLen),
				Cfg: cfg(c, "text", maxLen, litLen), Opts: tlc.Opts{Timeout: 2 * time.Hour, Files: map[string][]byte{"dom.ndjson": placeholder}}},
			{Name: fmt.Sprintf("harness-chosen domain: %d cases (number->text on seeded doubles with arguments; text->number on random literals, ties, mutations)", n),
				Cfg: cfg(c, "dom", maxLen, litLen), Opts: tlc.Opts{Timeout: 2 * time.Hour, Files: map[string][]byte{"dom.ndjson": domBytes}}},
		}
		if selfN > 0 {
			runs = append(runs, gen.RunCfg{Name: fmt.Sprintf("self-check: 9.8.1 digits of %d doubles by two formulations (NumFmt!ShortDigits = NumText!ShortestDigits)", selfN),
				Cfg: cfg(c, "self", maxLen, litLen), Opts: tlc.Opts{Timeout: 2 * time.Hour, Files: map[string][]byte{"dom.ndjson": selfBytes}}})
		}
		return runs
	},
	Assume: []string{
		"text->number: exhaustive over the 13-token alphabet {0 1 9 . e E + - x a f space Infinity} up to the length bound; literals over {0 1 7 8 9 . e E x a f}; plus the strings of spec/C06Str.tla",
		"number->text: a seeded sample of doubles (random bit patterns, subnormals, powers of ten and two with neighbours, exact decimal ties, the 1e21 / 1e-6 thresholds); exactness is decided on the sample, not on all 2^64 doubles",
		"results ES5 leaves to the implementation are not judged: more than 20 significant decimal digits, parseInt beyond 2^53 in radixes other than 2/4/8/10/16/32, toString(radix) of fractions; digit arguments +Infinity of toExponential/toPrecision (platform-dependent conversion in the implementation)",
		"7.8.3 is read with Annex B.1.1 (legacy octal literals); 15.7.4.7 step 10.c.ii with the p = 1 erratum",
	},
}

// mutants demonstrate the binding (BUILDING.md, definition of done 3): with
// C06_MUTATE set the JavaScript side of the adapter is perturbed and the check
// must report violations.
var mutants = map[string]string{
	// radix 16 is silently treated as radix 10
	"parseint-radix": "var __pi = parseInt; parseInt = function(s, r){ return __pi(s, r === 16 ? 10 : r); };",
	// one digit position of toFixed output is off by one for one argument
	"tofixed-digit": "var __tf = Number.prototype.toFixed; Number.prototype.toFixed = function(f){ var s = __tf.call(this, f); return f === 7 ? s.replace(/3$/, '4') : s; };",
	// String(x) of doubles with 17 significant digits loses the last digit
	"tostring-17": "var __S = String; String = function(x){ var s = __S(x); return (typeof x === 'number' && /^[0-9]\\.[0-9]{16}e/.test(s)) ? s.replace(/[0-9]e/, 'e') : s; };",
}

func Check(c *core.Ctx) (map[string]any, []string, error) {
	sp := *Spec
	if m := os.Getenv("C06_MUTATE"); m != "" {
		js, ok := mutants[m]
		if !ok {
			return nil, nil, fmt.Errorf("unknown C06_MUTATE %q", m)
		}
		sp.Prelude += js
		c.Note("MUTANT %s active: this run is a self-test of the binding and is expected to fail", m)
	}
	return gen.Check(c, &sp)
}
