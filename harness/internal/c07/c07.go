// Package c07 replays every transition of spec/C07.tla on the implementation.
package c07

import (
	"encoding/json"
	"fmt"
	"reflect"
	"strings"
	"sync"
	"sync/atomic"
	"time"

	"github.com/robertkrimen/otto"

	"verif/harness/internal/core"
	"verif/harness/internal/jsx"
	"verif/harness/internal/tlc"
)

type desc struct {
	HV bool    `json:"hv"`
	V  jsx.Val `json:"v"`
	HW bool    `json:"hw"`
	W  bool    `json:"w"`
	HE bool    `json:"he"`
	E  bool    `json:"e"`
	HC bool    `json:"hc"`
	C  bool    `json:"c"`
	HG bool    `json:"hg"`
	G  jsx.Val `json:"g"`
	HS bool    `json:"hs"`
	S  jsx.Val `json:"s"`
}

type step struct {
	Op string   `json:"op"`
	O  int      `json:"o"`
	N  []int    `json:"n"`
	D  *desc    `json:"d"`
	D2 *desc    `json:"d2"`
	V  *jsx.Val `json:"v"`
	// op "forin": the enumerated object and the operations the loop body performs at iteration K
	E     int     `json:"e"`
	Sched []sched `json:"sched"`
}

type sched struct {
	K int  `json:"k"`
	A step `json:"a"`
}

type prop struct {
	K string   `json:"k"`
	V *jsx.Val `json:"v"`
	W bool     `json:"w"`
	E bool     `json:"e"`
	C bool     `json:"c"`
	G *jsx.Val `json:"g"`
	S *jsx.Val `json:"s"`
}

type line struct {
	Init struct {
		P   prop `json:"p"`
		Ext bool `json:"ext"`
	} `json:"init"`
	Path []step            `json:"path"`
	Step step              `json:"step"`
	Exp  json.RawMessage   `json:"exp"`
	Dev  []json.RawMessage `json:"dev"`
}

var objNames = map[int]string{1: "PO", 2: "CO", 3: "g1", 4: "g2", 5: "s1", 6: "GO"}

const prelude = jsx.Prelude + `
var LOG = [];
function g1(){ return 101; }
function g2(){ return 102; }
function s1(v){ LOG.push({f:5, "this": this===PO?1:(this===CO?2:(this===GO?6:0)), v:ENC(v)}); }
var GO = {};
var PO = Object.create(GO);
var CO = Object.create(PO);
OBJIDS = [[PO,1],[CO,2],[g1,3],[g2,4],[s1,5],[GO,6]];
var NAMES = ["p","q"];
function OWN(o,n){
  var d = Object.getOwnPropertyDescriptor(o,n);
  if (d === undefined) return {k:"none"};
  // 8.10.4 FromPropertyDescriptor: exactly value/writable or get/set, plus enumerable and configurable
  var ks = Object.keys(d).sort().join();
  if (ks !== "configurable,enumerable,value,writable" && ks !== "configurable,enumerable,get,set") return {k:"descriptor fields " + ks};
  if ("value" in d || "writable" in d) return {k:"data", v:ENC(d.value), w:d.writable, e:d.enumerable, c:d.configurable};
  return {k:"acc", g:ENC(d.get), s:ENC(d.set), e:d.enumerable, c:d.configurable};
}
function OBSOBJ(o){
  var fi = []; for (var k in o) fi.push(UNITS(k));
  var pr = [];
  for (var i=0;i<NAMES.length;i++){ var n = NAMES[i];
    var own = OWN(o,n);
    if ((own.k !== "none") !== Object.prototype.hasOwnProperty.call(o,n)) own = {k:"hasOwnProperty disagrees"};
    if (own.k !== "none" && own.e !== Object.prototype.propertyIsEnumerable.call(o,n)) own = {k:"propertyIsEnumerable disagrees"};
    pr.push({own:own, isin:(n in o), get:ENC(o[n])});
  }
  return {ext:Object.isExtensible(o), sealed:Object.isSealed(o), frozen:Object.isFrozen(o),
          names:Object.getOwnPropertyNames(o).map(UNITS), keys:Object.keys(o).map(UNITS), forin:fi, pr:pr};
}
function OBS(){ return [OBSOBJ(PO), OBSOBJ(CO), OBSOBJ(GO)]; }
var THR = "", RET;
function RESULT(){ var r = JSON.stringify({thr:THR, ret:ENC(RET), log:LOG, obs:OBS()}); LOG = []; return r; }
function FRESULT(){ return JSON.stringify({visits:W, ops:OPS, obs:OBS()}); }
`

func descLit(d *desc) (string, error) {
	var parts []string
	add := func(k string, v jsx.Val) error {
		s, err := v.Expr(objNames)
		if err != nil {
			return err
		}
		parts = append(parts, k+":"+s)
		return nil
	}
	b := func(x bool) string {
		if x {
			return "true"
		}
		return "false"
	}
	if d.HV {
		if err := add("value", d.V); err != nil {
			return "", err
		}
	}
	if d.HW {
		parts = append(parts, "writable:"+b(d.W))
	}
	if d.HE {
		parts = append(parts, "enumerable:"+b(d.E))
	}
	if d.HC {
		parts = append(parts, "configurable:"+b(d.C))
	}
	if d.HG {
		if err := add("get", d.G); err != nil {
			return "", err
		}
	}
	if d.HS {
		if err := add("set", d.S); err != nil {
			return "", err
		}
	}
	return "{" + strings.Join(parts, ",") + "}", nil
}

func stepJS(s step) (string, error) {
	o := objNames[s.O]
	n := jsx.StrLit(s.N)
	var body string
	switch s.Op {
	case "define":
		d, err := descLit(s.D)
		if err != nil {
			return "", err
		}
		body = fmt.Sprintf("Object.defineProperty(%s,%s,%s); RET=undefined;", o, n, d)
	case "defprops":
		d1, err := descLit(s.D)
		if err != nil {
			return "", err
		}
		d2, err := descLit(s.D2)
		if err != nil {
			return "", err
		}
		body = fmt.Sprintf("Object.defineProperties(%s,{p:%s,q:%s}); RET=undefined;", o, d1, d2)
	case "assign":
		v, err := s.V.Expr(objNames)
		if err != nil {
			return "", err
		}
		body = fmt.Sprintf("RET = (%s[%s] = %s);", o, n, v)
	case "delete":
		body = fmt.Sprintf("RET = delete %s[%s];", o, n)
	case "seal":
		body = fmt.Sprintf("Object.seal(%s); RET=undefined;", o)
	case "freeze":
		body = fmt.Sprintf("Object.freeze(%s); RET=undefined;", o)
	case "prevent":
		body = fmt.Sprintf("Object.preventExtensions(%s); RET=undefined;", o)
	default:
		return "", fmt.Errorf("unknown op %q", s.Op)
	}
	return "THR=''; RET=undefined; try { " + body + " } catch (e) { THR = e.name; }", nil
}

// forInJS is the for-in statement of a "forin" step: every visited name is recorded, the body
// counts the iterations and performs the scheduled operations (each with its own result record)
// when the count reaches their iteration.  The loop is cut after 64 iterations (a changed
// implementation may visit names for ever) and an exception that escapes it is recorded.
func forInJS(s step) (string, error) {
	var sb strings.Builder
	sb.WriteString("var W=[], OPS=[], I=0;\ntry { for (var K in " + objNames[s.E] + ") { W.push(UNITS(K)); I++; if (I > 64) { W.push('RUNAWAY'); break; }\n")
	for _, x := range s.Sched {
		if x.A.Op == "forin" {
			return "", fmt.Errorf("nested forin step")
		}
		js, err := stepJS(x.A)
		if err != nil {
			return "", err
		}
		sb.WriteString(fmt.Sprintf("  if (I === %d) { LOG=[]; %s OPS.push({thr:THR, ret:ENC(RET), log:LOG}); LOG=[]; }\n", x.K, js))
	}
	sb.WriteString("} } catch (e) { W.push('THROW ' + e.name); }\n")
	return sb.String(), nil
}

func initJS(l *line) (string, error) {
	p := l.Init.P
	var sb strings.Builder
	if p.K != "none" {
		d := desc{HE: true, E: p.E, HC: true, C: p.C}
		if p.K == "data" {
			d.HV, d.V, d.HW, d.W = true, *p.V, true, p.W
		} else {
			d.HG, d.G, d.HS, d.S = true, *p.G, true, *p.S
		}
		s, err := descLit(&d)
		if err != nil {
			return "", err
		}
		sb.WriteString("Object.defineProperty(CO,\"p\"," + s + ");")
	}
	if !l.Init.Ext {
		sb.WriteString("Object.preventExtensions(CO);")
	}
	return sb.String(), nil
}

var preludeScript *otto.Script
var preludeOnce sync.Once

func newVM() (*otto.Otto, error) {
	vm := otto.New()
	if err := vm.Set("NUMENC", func(call otto.FunctionCall) otto.Value {
		f, _ := call.Argument(0).ToFloat()
		v, _ := otto.ToValue(jsx.NumEnc(f))
		return v
	}); err != nil {
		return nil, err
	}
	var perr error
	preludeOnce.Do(func() { preludeScript, perr = vm.Compile("prelude.js", prelude) })
	if perr != nil || preludeScript == nil {
		return nil, fmt.Errorf("prelude: %v", perr)
	}
	if _, err := vm.Run(preludeScript); err != nil {
		return nil, err
	}
	return vm, nil
}

// execute replays one line and returns the observed result JSON.
func execute(l *line) (out string, err error) {
	defer func() {
		if r := recover(); r != nil {
			err = fmt.Errorf("GO PANIC: %v", r)
		}
	}()
	vm, err := newVM()
	if err != nil {
		return "", err
	}
	ij, err := initJS(l)
	if err != nil {
		return "", err
	}
	var sb strings.Builder
	if l.Step.Op == "forin" {
		sb.WriteString("NAMES = [\"p\",\"q\",\"r\",\"s\"];\n")
	}
	sb.WriteString(ij)
	for _, s := range l.Path {
		js, err := stepJS(s)
		if err != nil {
			return "", err
		}
		sb.WriteString(js + "\n")
	}
	sb.WriteString("LOG=[];\n")
	if l.Step.Op == "forin" {
		js, err := forInJS(l.Step)
		if err != nil {
			return "", err
		}
		sb.WriteString(js + "FRESULT();")
	} else {
		js, err := stepJS(l.Step)
		if err != nil {
			return "", err
		}
		sb.WriteString(js + "\nRESULT();")
	}
	// watchdog: a changed implementation may not terminate inside Go code; the evaluation is then
	// abandoned (its goroutine keeps spinning) and reported like a Go panic
	type res struct {
		v otto.Value
		e error
		p any
	}
	done := make(chan res, 1)
	src := sb.String()
	go func() {
		var r res
		defer func() {
			if p := recover(); p != nil {
				r.p = p
			}
			done <- r
		}()
		r.v, r.e = vm.Run(src)
	}()
	select {
	case r := <-done:
		if r.p != nil {
			return "", fmt.Errorf("GO PANIC: %v", r.p)
		}
		if r.e != nil {
			return "", fmt.Errorf("script error: %v", r.e)
		}
		return r.v.String(), nil
	case <-time.After(hangTimeout):
		atomic.AddInt64(&hangs, 1)
		return "", fmt.Errorf("GO PANIC: (no panic, a hang) the evaluation did not return within %v", hangTimeout)
	}
}

var hangTimeout = 60 * time.Second
var hangs int64

// accepted reports whether the observation is the expected one; the expectation of a "forin"
// step is a set of admitted outcomes (exp.alts, computed by the specification), of which the
// observation must be a member.
func accepted(out string, exp json.RawMessage) bool {
	var x, y any
	if json.Unmarshal([]byte(out), &x) != nil || json.Unmarshal(exp, &y) != nil {
		return false
	}
	if m, ok := y.(map[string]any); ok {
		if alts, ok := m["alts"].([]any); ok {
			for _, a := range alts {
				if reflect.DeepEqual(x, a) {
					return true
				}
			}
			return false
		}
	}
	return reflect.DeepEqual(x, y)
}

// Check runs the property.
func Check(c *core.Ctx) (map[string]any, []string, error) {
	type job struct{ raw []byte }
	var nTrans, nConform, nDev, nSkipped int64
	var samples []any
	var smu sync.Mutex
	distinct := sync.Map{}
	var nDistinct int64
	ch := make(chan []byte, 4096)
	var wg sync.WaitGroup
	var firstErr atomic.Value
	for i := 0; i < c.Workers; i++ {
		wg.Add(1)
		go func() {
			defer wg.Done()
			for raw := range ch {
				if atomic.LoadInt64(&hangs) >= 4 {
					continue // several evaluations already hang (and keep their cores busy): the verdict is a violation
				}
				var l line
				if err := json.Unmarshal(raw, &l); err != nil {
					firstErr.CompareAndSwap(nil, fmt.Errorf("bad line: %v", err))
					continue
				}
				atomic.AddInt64(&nTrans, 1)
				key := string(l.Exp)
				if _, seen := distinct.LoadOrStore(key, true); !seen {
					atomic.AddInt64(&nDistinct, 1)
				}
				out, err := execute(&l)
				if err != nil && !strings.HasPrefix(err.Error(), "GO PANIC") {
					firstErr.CompareAndSwap(nil, err)
					continue
				}
				if err == nil && accepted(out, l.Exp) {
					n := atomic.AddInt64(&nConform, 1)
					if n%20011 == 1 {
						smu.Lock()
						if len(samples) < 5 {
							samples = append(samples, json.RawMessage(raw))
						}
						smu.Unlock()
					}
					continue
				}
				if err == nil && len(l.Dev) > 0 && accepted(out, l.Dev[0]) {
					atomic.AddInt64(&nDev, 1)
					c.Hit("deviation")
					continue
				}
				// reproduce once more on a fresh runtime before reporting
				out2, err2 := execute(&l)
				if (err == nil) != (err2 == nil) || out2 != out {
					atomic.AddInt64(&nSkipped, 1)
					c.Note("non-reproducible observation skipped: %s", string(raw[:min(len(raw), 300)]))
					continue
				}
				detail := fmt.Sprintf("object-model step %s: implementation observed %s, specification expects %s", mustJSON(l.Step), trunc(out, 600), trunc(string(l.Exp), 600))
				if err != nil {
					detail = fmt.Sprintf("object-model step %s: %v", mustJSON(l.Step), err)
				}
				c.Violate(detail, map[string]any{"line": json.RawMessage(raw), "observed": out})
			}
		}()
	}
	open := core.TLASet(c.Findings.OpenIDs())
	var tlcStats []map[string]any
	run := func(name, cfg string, o tlc.Opts) error {
		o.SpecDir, o.Module, o.Cfg = c.SpecDir, "C07", cfg
		res, err := tlc.Run(o, func(p []byte) {
			b := make([]byte, len(p))
			copy(b, p)
			ch <- b
		})
		if res != nil {
			tlcStats = append(tlcStats, map[string]any{"config": name, "generated": res.Generated, "distinct": res.Distinct, "depth": res.Depth, "lines": res.Lines, "wall_s": res.Wall})
		}
		return err
	}
	props := "INVARIANTS EnumOK TypeOK\nPROPERTIES NonWritableStable NonConfigurableFixed NonExtensibleNoGain FrozenIsStable InheritedAccessorGoverns ChainAccessorGoverns\n"
	base := "INIT Init\nNEXT Next\nVIEW View\nCHECK_DEADLOCK FALSE\n"
	nSample := 9000
	if c.Thorough() {
		nSample = 200000
	}
	seed := c.Seed % 10007
	if seed < 0 {
		seed = -seed
	}
	cfg := func(mode string, maxLen int, withProps bool) string {
		s := fmt.Sprintf("CONSTANTS\n Mode = %q\n OpenDev = %s\n MaxLen = %d\n Seed = %d\n NSample = %d\n", mode, open, maxLen, seed, nSample) + base
		if withProps {
			s += props
		}
		return s
	}
	var runErr error
	// (1) the complete 8.12.9 decision table
	runErr = run("table", cfg("table", 1, true), tlc.Opts{Workers: c.Workers, Timeout: 20 * time.Minute})
	// (1b) SameValue cases (+0/-0/NaN) and three-object prototype chains
	if runErr == nil {
		runErr = run("samevalue", cfg("sv", 1, true), tlc.Opts{Workers: c.Workers, Timeout: 10 * time.Minute})
	}
	if runErr == nil {
		d := 3
		if c.Thorough() {
			d = 4
		}
		runErr = run(fmt.Sprintf("chain-bfs-depth%d", d), cfg("chain", d, true), tlc.Opts{Workers: c.Workers, Timeout: 60 * time.Minute})
	}
	// (1c) creation order under deletion and re-creation: plain properties, long histories
	if runErr == nil {
		d := 5
		if c.Thorough() {
			d = 6
		}
		runErr = run(fmt.Sprintf("order-bfs-depth%d", d), cfg("order", d, true), tlc.Opts{Workers: c.Workers, Timeout: 60 * time.Minute})
	}
	// (1d) enumeration while mutating (12.6.4): a for-in statement whose body performs object-model
	// operations at chosen iterations; exhaustive core, then a sample of the wide product
	if runErr == nil {
		runErr = run(fmt.Sprintf("forin-core+sample%d", nSample), cfg("forin", 1, true), tlc.Opts{Workers: c.Workers, Timeout: 60 * time.Minute})
	}
	// (2) exhaustive histories to a depth bound
	if runErr == nil {
		depth := 2
		if c.Thorough() {
			depth = 3
		}
		runErr = run(fmt.Sprintf("hist-bfs-depth%d", depth), cfg("hist", depth, true), tlc.Opts{Workers: c.Workers, Timeout: 90 * time.Minute})
	}
	// (3) random longer histories
	if runErr == nil {
		n, d := 8, 8
		if c.Thorough() {
			n, d = 50, 12
		}
		runErr = run("hist-simulate", cfg("hist", d, false), tlc.Opts{Workers: 4, Simulate: true, Num: n, Depth: d + 1, Seed: c.Seed, Timeout: 90 * time.Minute})
	}
	close(ch)
	wg.Wait()
	if runErr != nil {
		return nil, nil, runErr
	}
	if e := firstErr.Load(); e != nil {
		return nil, nil, e.(error)
	}
	var states, trans int64
	for _, s := range tlcStats {
		states += s["distinct"].(int64)
		trans += s["generated"].(int64)
	}
	if len(samples) == 0 {
		samples = append(samples, "no conforming transition sampled")
	}
	cov := map[string]any{
		"states": states, "transitions": trans, "traces_validated_against_impl": nTrans,
		"samples": samples, "tlc_runs": tlcStats,
		"conforming": nConform, "conforming_to_known_deviation": nDev, "non_reproducible_skipped": nSkipped,
		"distinct_expected_observations": nDistinct,
		"exhaustive":                    true,
		"model_properties_checked":      []string{"NonWritableStable", "NonConfigurableFixed", "NonExtensibleNoGain", "FrozenIsStable", "InheritedAccessorGoverns", "ChainAccessorGoverns", "EnumOK", "TypeOK"},
	}
	assumptions := []string{
		"trusted: the JavaScript-side projection OBS()/ENC() in harness/internal/c07 and jsx (reflection through Object.getOwnPropertyDescriptor, getOwnPropertyNames, keys, for-in, in, isExtensible/isSealed/isFrozen) and Go float64 bit projection",
		"table mode enumerates all 49 property states x 2 extensibility x 1299 descriptors; history mode is exhaustive to the stated depth over the HistDescs family and random beyond",
		"for-in/keys order is required to be creation order (property statement), which ES5 12.6.4 itself leaves open",
		"enumeration while mutating: the operations of a for-in body are triggered by the iteration count; the specification emits the SET of outcomes 12.6.4 admits (names added, re-added, hidden, shadowed or uncovered during the loop may or may not be visited) and the observation must be a member; the core family (4 plain names over child and parent, one operation) is exhaustive, the wide product (three objects, attribute kinds, 1-3 operations) is sampled",
	}
	return cov, assumptions, nil
}

func mustJSON(v any) string { b, _ := json.Marshal(v); return string(b) }
func trunc(s string, n int) string {
	if len(s) > n {
		return s[:n] + "..."
	}
	return s
}
