package c08

// Judge direction (code -> spec): seeded random cases from wider domains than
// spec/C08.tla enumerates are run on the implementation, recorded, and judged
// by TLC with spec/C08Judge.tla (the same Arr.tla operators).  Nothing is
// decided here: this file only draws inputs and records observations.

import (
	"encoding/json"
	"fmt"
	"math"
	"math/rand"
	"strings"
	"time"

	"github.com/robertkrimen/otto"

	"verif/harness/internal/core"
	"verif/harness/internal/gen"
	"verif/harness/internal/jsx"
	"verif/harness/internal/num"
	"verif/harness/internal/tlc"
)

type obj = map[string]any

func vNum(f float64) obj { return obj{"t": "num", "n": num.Of(f)} }
func vStr(s string) obj {
	u := make([]int, 0, len(s))
	for _, r := range s {
		u = append(u, int(r))
	}
	return obj{"t": "str", "s": u}
}
func vBool(b bool) obj { return obj{"t": "bool", "b": b} }

var vUndef = obj{"t": "undef"}
var vNull = obj{"t": "null"}

type rgen struct{ r *rand.Rand }

func (g *rgen) pick(xs ...any) any    { return xs[g.r.Intn(len(xs))] }
func (g *rgen) chance(p float64) bool { return g.r.Float64() < p }

func (g *rgen) value() obj {
	switch g.r.Intn(16) {
	case 0:
		return vUndef
	case 1:
		return vNull
	case 2:
		return vBool(true)
	case 3:
		return vStr("a")
	case 4:
		return vStr("b")
	case 5:
		return vStr("10")
	case 6:
		return vStr("")
	case 7:
		return vStr("1")
	case 8:
		return vNum(math.NaN())
	case 9:
		return vNum(1.5)
	case 10:
		return vNum(math.Copysign(0, -1))
	default:
		return vNum(float64(g.r.Intn(13) - 2))
	}
}

func (g *rgen) number() obj { // a value for numeric comparators: no NaN, no strings
	if g.chance(0.15) {
		return vUndef
	}
	if g.chance(0.1) {
		return vNum(float64(g.r.Intn(9)) + 0.5)
	}
	return vNum(float64(g.r.Intn(15) - 4))
}

// an argument that is converted with ToInteger
func (g *rgen) position() obj {
	switch g.r.Intn(14) {
	case 0:
		return vUndef
	case 1:
		return vNum(math.NaN())
	case 2:
		return vNum(math.Inf(1))
	case 3:
		return vNum(math.Inf(-1))
	case 4:
		return vStr(fmt.Sprint(g.r.Intn(6) - 2))
	case 5:
		return vNum(math.Copysign(0, -1))
	case 6:
		return vNum(4294967296 + float64(g.r.Intn(3)))
	case 7:
		return vNull
	case 8:
		return vBool(true)
	case 9, 10:
		return vNum(math.Round((g.r.Float64()*24-12)*4) / 4) // quarters in [-12, 12]
	default:
		return vNum(float64(g.r.Intn(21) - 10))
	}
}

func elem(v obj, w, e, c bool) obj { return obj{"h": false, "v": v, "w": w, "e": e, "c": c} }

var hole = obj{"h": true}

// receiver draws an array or array-like recipe; plain = only default attributes etc. (sortable)
func (g *rgen) receiver(val func() obj, plain bool) obj {
	n := g.r.Intn(8)
	elems := make([]any, 0, n)
	for i := 0; i < n; i++ {
		if g.chance(0.25) {
			elems = append(elems, hole)
			continue
		}
		w, e, c := true, true, true
		if !plain && g.chance(0.08) {
			w = false
		}
		if !plain && g.chance(0.05) {
			e = false
		}
		if !plain && g.chance(0.08) {
			c = false
		}
		elems = append(elems, elem(val(), w, e, c))
	}
	o := obj{"cls": "Array", "elems": elems, "extra": []any{}, "len": obj{"k": "auto"}, "lw": true, "ext": "ext", "inh": []any{}}
	if g.chance(0.25) {
		o["cls"] = "Object"
		switch g.r.Intn(6) {
		case 0:
			if !plain {
				break // no length at all
			}
			fallthrough
		case 1:
			o["len"] = obj{"k": "set", "v": vNum(float64(g.r.Intn(9))), "w": true}
		case 2:
			if plain {
				o["len"] = obj{"k": "set", "v": vNum(float64(n)), "w": true}
			} else {
				o["len"] = obj{"k": "set", "v": g.pick(vStr("3"), vNum(2.7), vNum(4294967298), vUndef, vNum(-0.5), vBool(true)), "w": true}
			}
		default:
			o["len"] = obj{"k": "set", "v": vNum(float64(n)), "w": plain || !g.chance(0.1)}
		}
	} else if g.chance(0.15) {
		o["len"] = obj{"k": "set", "v": vNum(float64(n + g.r.Intn(3))), "w": true} // trailing holes
	}
	if plain {
		return o
	}
	if o["cls"] == "Array" && g.chance(0.06) {
		o["lw"] = false
	}
	if g.chance(0.12) {
		o["ext"] = g.pick("nonext", "sealed", "frozen")
	}
	if g.chance(0.12) {
		o["inh"] = []any{obj{"n": vStr(fmt.Sprint(g.r.Intn(8))), "v": vStr("P")}}
	}
	if g.chance(0.08) {
		o["extra"] = []any{obj{"n": g.pick(vStr("x"), vStr("01"), vStr("-0"), vStr("9"), vStr("+2")), "v": vNum(5)}}
	}
	return o
}

func ref(i int) obj { return obj{"t": "ref", "id": i} }

// desc builds a descriptor record; absent fields carry the defaults of ObjModel!EmptyDesc
func (g *rgen) desc(hv bool, v obj, pw, pe, pc float64) obj {
	d := obj{"hv": hv, "v": vUndef, "hw": g.chance(pw), "w": false, "he": g.chance(pe), "e": false, "hc": g.chance(pc), "c": false,
		"hg": false, "g": vUndef, "hs": false, "s": vUndef}
	if hv {
		d["v"] = v
	}
	if d["hw"].(bool) {
		d["w"] = g.chance(0.5)
	}
	if d["he"].(bool) {
		d["e"] = g.chance(0.5)
	}
	if d["hc"].(bool) {
		d["c"] = g.chance(0.5)
	}
	return d
}

func (g *rgen) mutation() obj {
	switch g.r.Intn(4) {
	case 0:
		return obj{"op": "push", "v": vNum(9)}
	case 1:
		return obj{"op": "del", "p": vStr(fmt.Sprint(g.r.Intn(7)))}
	case 2:
		return obj{"op": "setlen", "v": g.pick(vNum(0), vNum(1), vNum(3), vNum(9), vNum(-1), vStr("2"))}
	default:
		return obj{"op": "put", "p": vStr(fmt.Sprint(g.r.Intn(9))), "v": vNum(7)}
	}
}

func (g *rgen) callback(reduce bool) obj {
	ip := 2
	maxArg := 3
	if reduce {
		ip = 3
	}
	switch g.r.Intn(7) {
	case 0:
		return obj{"t": "cb", "k": "const", "v": g.pick(vBool(true), vBool(false), vUndef, vNum(0), vStr("x"), vNum(1))}
	case 1:
		return obj{"t": "cb", "k": "even", "ip": ip}
	case 2:
		return obj{"t": "cb", "k": "arg", "i": 1 + g.r.Intn(maxArg)}
	case 3:
		return obj{"t": "cb", "k": "sum"}
	case 4:
		return obj{"t": "cb", "k": "throwat", "at": 1 + g.r.Intn(4), "v": g.pick(vBool(true), vBool(false), vNum(1))}
	default:
		return obj{"t": "cb", "k": "mut", "at": 1 + g.r.Intn(3), "m": g.mutation(), "v": g.pick(vBool(true), vBool(false), vNum(1))}
	}
}

var aux = []any{
	obj{"cls": "Array", "elems": []any{elem(vNum(7), true, true, true), hole, elem(vStr("q"), true, true, true), hole}, "extra": []any{}, "len": obj{"k": "auto"}, "lw": true, "ext": "ext", "inh": []any{}},
	obj{"cls": "Object", "elems": []any{elem(vStr("x"), true, true, true)}, "extra": []any{}, "len": obj{"k": "set", "v": vNum(1), "w": true}, "lw": true, "ext": "ext", "inh": []any{}},
	obj{"cls": "Object", "elems": []any{}, "extra": []any{}, "len": obj{"k": "auto"}, "lw": true, "ext": "ext", "inh": []any{}},
}

// callCase draws a method call.
func (g *rgen) callCase() (string, obj) {
	methods := []string{"slice", "splice", "splice", "indexOf", "lastIndexOf", "push", "pop", "shift", "unshift", "reverse", "join", "toString",
		"concat", "every", "some", "forEach", "map", "filter", "reduce", "reduceRight", "sort", "sort", "sort", "sort"}
	m := methods[g.r.Intn(len(methods))]
	var args []any
	recv := g.receiver(g.value, false)
	kind := "call"
	switch m {
	case "slice":
		for i, n := 0, g.r.Intn(4); i < n; i++ {
			args = append(args, g.position())
		}
	case "splice":
		for i, n := 0, g.r.Intn(3); i < n; i++ {
			args = append(args, g.position())
		}
		if len(args) == 2 {
			for i, n := 0, g.r.Intn(4); i < n; i++ {
				args = append(args, g.value())
			}
		}
	case "indexOf", "lastIndexOf":
		if g.chance(0.95) {
			args = append(args, g.value())
			if g.chance(0.7) {
				args = append(args, g.position())
			}
		}
	case "push", "unshift":
		for i, n := 0, g.r.Intn(4); i < n; i++ {
			args = append(args, g.value())
		}
	case "join":
		if g.chance(0.7) {
			args = append(args, g.pick(vUndef, vStr("-"), vStr(""), vNull, vNum(1), vStr(", ")))
		}
	case "concat":
		for i, n := 0, g.r.Intn(4); i < n; i++ {
			if g.chance(0.5) {
				args = append(args, ref(3+g.r.Intn(4)))
			} else {
				args = append(args, g.value())
			}
		}
	case "every", "some", "forEach", "map", "filter":
		if g.chance(0.93) {
			args = append(args, g.callback(false))
			if g.chance(0.3) {
				args = append(args, ref(6))
			} else if g.chance(0.25) { // a primitive thisArg: the callback sees the global object or a fresh wrapper
				args = append(args, g.pick(vNum(5), vStr("t"), vBool(false), vNull, vUndef))
			}
		} else if g.chance(0.5) {
			args = append(args, g.pick(vUndef, vNum(1), ref(6)))
		}
	case "reduce", "reduceRight":
		if g.chance(0.93) {
			args = append(args, g.callback(true))
			if g.chance(0.5) {
				args = append(args, g.pick(vNum(100), vUndef, vStr("s")))
			}
		} else if g.chance(0.5) {
			args = append(args, g.pick(vUndef, vNum(1), ref(6)))
		}
	case "sort":
		kind = "sort"
		switch g.r.Intn(6) {
		case 0:
			recv = g.receiver(g.value, true)
		case 1:
			recv = g.receiver(g.value, true)
			args = append(args, vUndef)
		default:
			recv = g.receiver(g.number, true)
			args = append(args, obj{"t": "cmp", "k": g.pick("numasc", "numdesc", "parity", "zero")})
		}
	}
	if args == nil {
		args = []any{}
	}
	// a primitive receiver (generic call, O = ToObject(this) once) for the methods that only read it
	switch m {
	case "every", "some", "forEach", "map", "filter", "reduce", "reduceRight", "join", "slice", "indexOf", "lastIndexOf":
		mutating := false
		for _, a := range args {
			if o, ok := a.(obj); ok && o["k"] == "mut" {
				mutating = true // the scripted mutation addresses the receiver object
			}
		}
		if !mutating && g.chance(0.12) {
			var v obj
			switch g.r.Intn(4) {
			case 0:
				v = vNum(float64(g.r.Intn(9)))
			case 1:
				v = vBool(g.chance(0.5))
			default:
				str := ""
				for i, n := 0, g.r.Intn(5); i < n; i++ {
					str += string("ab1 "[g.r.Intn(4)])
				}
				v = vStr(str)
			}
			recv = obj{"cls": "prim", "v": v, "inh": []any{}}
		}
	}
	return kind, obj{"fam": "judge", "m": m, "args": args, "objs": append([]any{recv}, aux...)}
}

var histNames = []string{"0", "1", "2", "3", "01", "+1", "1.0", "1e0", "-0", "00", "+0", "-1", "007", " 1", "4294967294", "4294967295", "4294967296", "x"}

var nonCanonical = map[string]bool{"01": true, "+1": true, "-0": true, "00": true, "+0": true, "007": true}

func (g *rgen) histCase() obj {
	n := 1 + g.r.Intn(12)
	big := false
	step := func() obj {
		for {
			switch g.r.Intn(10) {
			case 0, 1, 2:
				name := histNames[g.r.Intn(len(histNames))]
				if name == "4294967294" {
					big = true
				}
				return obj{"op": "assign", "n": vStr(name), "v": vNum(float64(1 + g.r.Intn(3)))}
			case 3:
				if big {
					continue
				}
				v := g.pick(vNum(0), vNum(1), vNum(2), vNum(3), vNum(5), vNum(-1), vNum(1.5), vStr("2"), vStr("x"), vNum(4294967296), vUndef, vNull, vBool(true),
					obj{"t": "cobj", "id": 1 + g.r.Intn(4), "vo": obj{"k": "ret", "v": vNum(2)}, "ts": obj{"k": "ret", "v": vStr("x")}}).(obj)
				return obj{"op": "assign", "n": vStr("length"), "v": v}
			case 4, 5:
				name := histNames[g.r.Intn(len(histNames))]
				if name == "4294967294" {
					big = true
				}
				if nonCanonical[name] {
					// The implementation keeps "attribute absent" marks in a property created from a partial
					// descriptor; they are unobservable except when such a property is later used as the
					// descriptor of ANOTHER property, which only the open deviation D08_index_parseint does
					// (freeze/seal of "+1" redefines "1").  Arr.tla does not model the marks, so partial
					// descriptors are not drawn for non-canonical numeric names.
					return obj{"op": "define", "n": vStr(name), "d": g.desc(g.chance(0.7), vNum(float64(1+g.r.Intn(3))), 1, 1, 1)}
				}
				return obj{"op": "define", "n": vStr(name), "d": g.desc(g.chance(0.7), vNum(float64(1+g.r.Intn(3))), 0.5, 0.3, 0.5)}
			case 6:
				if big {
					continue
				}
				return obj{"op": "define", "n": vStr("length"), "d": g.desc(g.chance(0.7), g.pick(vNum(0), vNum(1), vNum(2), vNum(4), vNum(-1), vStr("1")).(obj), 0.4, 0.1, 0.1)}
			case 7:
				return obj{"op": "delete", "n": vStr(histNames[g.r.Intn(len(histNames))])}
			case 8:
				if g.chance(0.3) {
					return obj{"op": g.pick("freeze", "seal", "prevent")}
				}
				continue
			default:
				// looping methods only while no index near 2^32 can exist (they iterate up to length)
				switch k := g.r.Intn(7); {
				case k == 0 || (big && k%2 == 0):
					return obj{"op": "call", "m": "push", "args": []any{vNum(9)}}
				case k == 1 || big:
					return obj{"op": "call", "m": "pop", "args": []any{}}
				case k == 2:
					return obj{"op": "call", "m": "shift", "args": []any{}}
				case k == 3:
					return obj{"op": "call", "m": "unshift", "args": []any{vNum(8)}}
				case k == 4:
					return obj{"op": "call", "m": "reverse", "args": []any{}}
				default:
					return obj{"op": "call", "m": "splice", "args": []any{vNum(float64(g.r.Intn(4))), vNum(float64(g.r.Intn(3))), vNum(6)}}
				}
			}
		}
	}
	path := make([]any, 0, n)
	for i := 0; i < n-1; i++ {
		path = append(path, step())
	}
	return obj{"path": path, "step": step()}
}

type judged struct {
	I       int             `json:"i"`
	V       string          `json:"v"`
	Want    json.RawMessage `json:"want"`
	WantDev json.RawMessage `json:"wantdev"`
}

// runJudge generates n random events in batches (a TLC run holds the whole trace in memory),
// runs them and lets TLC judge them.
func runJudge(c *core.Ctx, n int) (map[string]any, error) {
	const batch = 2000
	total := map[string]any{}
	kinds := map[string]int{}
	var events, strict, dev, bad, runs int
	var states int64
	var wall float64
	for b := 0; events < n; b++ {
		k := batch
		if n-events < k {
			k = n - events
		}
		r, err := judgeBatch(c, k, int64(b))
		if err != nil {
			return nil, err
		}
		for kk, v := range r["by_kind"].(map[string]int) {
			kinds[kk] += v
		}
		got := r["events"].(int)
		if got == 0 {
			return nil, fmt.Errorf("judge: empty batch")
		}
		events += k
		strict += r["conform_to_es5"].(int)
		dev += r["conform_to_known_deviation"].(int)
		bad += r["rejected"].(int)
		states += r["tlc_states"].(int64)
		wall += r["tlc_wall_s"].(float64)
		runs++
	}
	total["events"], total["by_kind"], total["conform_to_es5"], total["conform_to_known_deviation"], total["rejected"] = strict+dev+bad, kinds, strict, dev, bad
	total["tlc_states"], total["tlc_wall_s"], total["tlc_runs"] = states, wall, runs
	return total, nil
}

func judgeBatch(c *core.Ctx, n int, batchNo int64) (map[string]any, error) {
	g := &rgen{r: rand.New(rand.NewSource(c.Seed*7919 + 17 + batchNo*104729))}
	prelude := gen.Prelude + Prelude
	newVM := func() (*otto.Otto, error) {
		vm := otto.New()
		if err := vm.Set("NUMENC", func(call otto.FunctionCall) otto.Value {
			f, _ := call.Argument(0).ToFloat()
			v, _ := otto.ToValue(jsx.NumEnc(f))
			return v
		}); err != nil {
			return nil, err
		}
		if _, err := vm.Run(prelude); err != nil {
			return nil, err
		}
		return vm, nil
	}
	eval := func(vm *otto.Otto, src string, consts map[string]float64) (out string, err error) {
		defer func() {
			if r := recover(); r != nil {
				out, err = "", fmt.Errorf("GO PANIC: %v", r)
			}
		}()
		for k, f := range consts {
			if e := vm.Set(k, f); e != nil {
				return "", e
			}
		}
		v, e := vm.Call("RUN", nil, src)
		if e != nil {
			return "", e
		}
		return v.String(), nil
	}
	type rec struct {
		src    string
		consts map[string]float64
		out    string
	}
	var recs []rec
	var trace strings.Builder
	vm, err := newVM()
	if err != nil {
		return nil, err
	}
	kinds := map[string]int{}
	for i := 0; i < n; i++ {
		var kind, fn string
		var cs obj
		if g.chance(0.3) {
			kind, fn, cs = "hist", "RH(", g.histCase()
		} else {
			kind, cs = g.callCase()
			fn = "RC("
		}
		craw, _ := json.Marshal(cs)
		lit, _ := json.Marshal(obj{"lit": json.RawMessage(craw)})
		f1, _ := json.Marshal(fn)
		f2, _ := json.Marshal(")")
		src, consts, err := gen.Render([]json.RawMessage{f1, lit, f2})
		if err != nil {
			return nil, fmt.Errorf("judge render: %v", err)
		}
		if i%200 == 199 {
			if vm, err = newVM(); err != nil {
				return nil, err
			}
		}
		out, err := eval(vm, src, consts)
		if err != nil {
			c.Violate(fmt.Sprintf("random case: %s  =>  %v", src, err), map[string]any{"js": src, "consts": consts})
			vm, _ = newVM()
			continue
		}
		kinds[kind]++
		recs = append(recs, rec{src, consts, out})
		line, _ := json.Marshal(obj{"k": kind, "c": json.RawMessage(craw), "res": json.RawMessage(out)})
		trace.Write(line)
		trace.WriteByte('\n')
	}
	nb := 64
	cfg := fmt.Sprintf("CONSTANTS\n OpenDev = %s\n NBlocks = %d\nINIT Init\nNEXT Next\nINVARIANT Judge\nCHECK_DEADLOCK FALSE\n", core.TLASet(c.Findings.OpenIDs()), nb)
	var strict, dev, bad, lines int
	res, err := tlc.Run(tlc.Opts{SpecDir: c.SpecDir, Module: "C08Judge", Cfg: cfg, Workers: c.Workers, Timeout: 40 * time.Minute,
		Files: map[string][]byte{"trace.ndjson": []byte(trace.String())}}, func(p []byte) {
		var j judged
		if json.Unmarshal(p, &j) != nil || j.I < 1 || j.I > len(recs) {
			return
		}
		lines++
		switch j.V {
		case "s":
			strict++
		case "d":
			dev++
			c.Hit("deviation")
		default:
			r := recs[j.I-1]
			// reproduce on a fresh runtime before reporting
			if vm2, e := newVM(); e == nil {
				if out2, e2 := eval(vm2, r.src, r.consts); e2 != nil || out2 != r.out {
					return
				}
			}
			bad++
			c.Violate(fmt.Sprintf("random case rejected by the TLC judge: %s  =>  implementation %s ; specification %s", r.src, trunc(r.out, 300), trunc(string(j.Want), 300)),
				map[string]any{"js": r.src, "consts": r.consts, "observed": r.out, "expected": j.Want, "expected_under_deviations": j.WantDev})
		}
	})
	if err != nil {
		return nil, fmt.Errorf("judge: %v", err)
	}
	if lines != len(recs) {
		return nil, fmt.Errorf("judge: %d of %d events were judged", lines, len(recs))
	}
	return map[string]any{"events": len(recs), "by_kind": kinds, "conform_to_es5": strict, "conform_to_known_deviation": dev, "rejected": bad,
		"tlc_states": res.Distinct, "tlc_wall_s": res.Wall}, nil
}

func trunc(s string, n int) string {
	if len(s) > n {
		return s[:n] + "..."
	}
	return s
}
