// Package c08: arrays (spec/Arr.tla, spec/ArrCase.tla, spec/C08.tla).
//
// TLC evaluates the ES5 15.4 algorithms of Arr.tla on the abstract heap and
// prints, per case, a recipe (objects to build, method, arguments) or a
// history of object-model steps together with the expected outcome.  The
// JavaScript below builds the same objects on the implementation, performs
// the call and projects the outcome (thrown class, returned value, complete
// own-property state of every object of the case, callback/conversion log).
// No expected value is computed here.
package c08

import (
	"encoding/json"
	"fmt"
	"os"
	"reflect"
	"strings"
	"time"

	"github.com/robertkrimen/otto"

	"verif/harness/internal/core"
	"verif/harness/internal/gen"
	"verif/harness/internal/jsx"
	"verif/harness/internal/tlc"
)

// Prelude is appended to the generic driver's prelude (ENC, UNITS, RUN, MK, LOG, REG, OBJIDS).
const Prelude = `
var GLOBALOBJ = this;
var APNAMES0 = Object.getOwnPropertyNames(Array.prototype);
var OBJ = {};
function ISIN(list, x){ for (var i=0;i<list.length;i++) if (list[i]===x) return true; return false; }
function CMPU(a,b){
  var n = a.length<b.length?a.length:b.length;
  for (var i=0;i<n;i++){ var x=a.charCodeAt(i), y=b.charCodeAt(i); if (x<y) return -1; if (x>y) return 1; }
  return a.length<b.length?-1:(a.length>b.length?1:0);
}
function SORTNAMES(a){
  var r = [];
  for (var i=0;i<a.length;i++) r[i] = a[i];
  for (i=1;i<r.length;i++){ var x=r[i], j=i-1; while (j>=0 && CMPU(r[j],x)>0){ r[j+1]=r[j]; j--; } r[j+1]=x; }
  return r;
}
function ENCOBJ(v){ if (v && v.__enc) return v.__enc; return {t:"obj", cls:Object.prototype.toString.call(v)}; }
function ENCX(v){
  if (v !== null && (typeof v === "object" || typeof v === "function")) {
    for (var i=0;i<OBJIDS.length;i++) if (OBJIDS[i][0]===v) return {t:"obj", id:OBJIDS[i][1]};
    for (i=0;i<REG.length;i++) if (REG[i][0]===v) return REG[i][1];
    if (v === GLOBALOBJ) return {t:"global"};
    var cls = Object.prototype.toString.call(v).slice(8,-1);
    if (cls === "Array") return {t:"new", o:SHOW(v)};
    if (cls === "String" || cls === "Number" || cls === "Boolean") {
      // a wrapper object (ToObject of a primitive receiver): class, primitive value and identity
      // (k = position among the distinct wrappers seen in this case; 1 for all calls iff it is one object)
      var k = 0;
      for (i=0;i<WRAPS.length;i++) if (WRAPS[i]===v) k = i+1;
      if (k === 0) { WRAPS[WRAPS.length] = v; k = WRAPS.length; }
      return {t:"wrap", cls:cls, k:k, pv:ENC(PRIMOF(cls, v))};
    }
    return {t:"obj", id:-1};
  }
  return ENC(v);
}
var WRAPS = [], PROTOCLEAN = [];
function PRIMOF(cls, v){
  return cls === "String" ? String.prototype.valueOf.call(v) : cls === "Number" ? Number.prototype.valueOf.call(v) : Boolean.prototype.valueOf.call(v);
}
// the this value of a callback: a wrapper made for a primitive thisArg is a fresh object per call (no identity)
function ENCTHIS(v){
  if (v !== null && typeof v === "object" && v !== GLOBALOBJ && !ISIN(WRAPS, v)) {
    var known = false;
    for (var i=0;i<OBJIDS.length;i++) if (OBJIDS[i][0]===v) known = true;
    var cls = Object.prototype.toString.call(v).slice(8,-1);
    if (!known && (cls === "String" || cls === "Number" || cls === "Boolean")) return {t:"wrap", cls:cls, k:0, pv:ENC(PRIMOF(cls, v))};
  }
  return ENCX(v);
}
function OWNX(o,n){
  var d = Object.getOwnPropertyDescriptor(o,n);
  if (d === undefined) return {k:"none"};
  if ("value" in d || "writable" in d) return {k:"data", v:ENCX(d.value), w:d.writable, e:d.enumerable, c:d.configurable};
  return {k:"acc", e:d.enumerable, c:d.configurable};
}
function SHOW(o){
  var names = SORTNAMES(Object.getOwnPropertyNames(o)), props = [];
  for (var i=0;i<names.length;i++) props[i] = {n:UNITS(names[i]), p:OWNX(o,names[i])};
  return {cls:Object.prototype.toString.call(o).slice(8,-1), ext:Object.isExtensible(o), props:props};
}
function APROTO(){
  var all = Object.getOwnPropertyNames(Array.prototype), sel = [], props = [];
  if (all.length === APNAMES0.length) sel = ["length"];
  else for (var i=0;i<all.length;i++){ var n = all[i]; if (n === "length" || !ISIN(APNAMES0, n)) sel[sel.length] = n; }
  sel = SORTNAMES(sel);
  for (i=0;i<sel.length;i++) props[i] = {n:UNITS(sel[i]), p:OWNX(Array.prototype,sel[i])};
  return props;
}
function CLEANUP(){
  for (var j=0;j<PROTOCLEAN.length;j++) delete PROTOCLEAN[j][0][PROTOCLEAN[j][1]];
  PROTOCLEAN = [];
  var names = Object.getOwnPropertyNames(Array.prototype);
  if (names.length !== APNAMES0.length)
    for (var i=0;i<names.length;i++){ var n = names[i]; if (n !== "length" && !ISIN(APNAMES0, n)) delete Array.prototype[n]; }
  if (Array.prototype.length !== 0) Array.prototype.length = 0;
}
function BUILD(ob){
  var o, P = null, i;
  if (ob.cls === "prim") {   // a primitive receiver; inherited properties go on the prototype of its wrapper
    P = typeof ob.v === "string" ? String.prototype : typeof ob.v === "number" ? Number.prototype : Boolean.prototype;
    for (i=0;i<ob.inh.length;i++) { P[ob.inh[i].n] = ob.inh[i].v; PROTOCLEAN[PROTOCLEAN.length] = [P, ob.inh[i].n]; }
    return ob.v;
  }
  if (ob.cls === "Array") o = [];
  else if (ob.inh.length > 0) { P = {}; o = Object.create(P); }
  else o = {};
  for (i=0;i<ob.elems.length;i++){ var e = ob.elems[i];
    if (!e.h) Object.defineProperty(o, String(i), {value:e.v, writable:e.w, enumerable:e.e, configurable:e.c});
  }
  if (ob.len.k === "auto") { if (ob.cls === "Array") o.length = ob.elems.length; }
  else if (ob.cls === "Array") o.length = ob.len.v;
  else Object.defineProperty(o, "length", {value:ob.len.v, writable:ob.len.w, enumerable:true, configurable:true});
  for (i=0;i<ob.extra.length;i++) o[ob.extra[i].n] = ob.extra[i].v;
  if (ob.cls === "Array" && !ob.lw) Object.defineProperty(o, "length", {writable:false});
  if (ob.ext === "nonext") Object.preventExtensions(o);
  else if (ob.ext === "sealed") Object.seal(o);
  else if (ob.ext === "frozen") Object.freeze(o);
  var target = ob.cls === "Array" ? Array.prototype : P;
  for (i=0;i<ob.inh.length;i++) target[ob.inh[i].n] = ob.inh[i].v;
  return o;
}
function MUTATE(m){
  var R = OBJ[3];
  switch (m.op) {
    case "push": Array.prototype.push.call(R, m.v); break;
    case "del": delete R[m.p]; break;
    case "setlen": R.length = m.v; break;
    case "put": R[m.p] = m.v; break;
  }
}
function MKCB(cb){
  var n = 0;
  return function(){
    n++;
    var a = [];
    for (var i=0;i<arguments.length;i++) a[i] = ENCX(arguments[i]);
    LOG[LOG.length] = {cb:a, "this":ENCTHIS(this)};
    switch (cb.k) {
      case "const": return cb.v;
      case "even": return arguments[cb.ip-1] % 2 === 0;
      case "arg": return arguments[cb.i-1];
      case "sum": return arguments[0] + arguments[1];
      case "throwat": if (n === cb.at) throw "X"; return cb.v;
      case "mut": if (n === cb.at) MUTATE(cb.m); return cb.v;
    }
  };
}
function RESOLVE(x){
  if (x !== null && typeof x === "object") {
    if (x.t === "ref") return OBJ[x.id];
    if (x.t === "cb") return MKCB(x);
    if (x.t === "cmp") switch (x.k) {
      case "numasc": return function(a,b){ return a-b; };
      case "numdesc": return function(a,b){ return b-a; };
      case "parity": return function(a,b){ return (a%2)-(b%2); };
      case "zero": return function(a,b){ return 0; };
    }
  }
  return x;
}
function RESOLVEALL(xs){ var a = []; for (var i=0;i<xs.length;i++) a[i] = RESOLVE(xs[i]); return a; }
function INVOKE(m, recv, a){
  if (m === "newArray") switch (a.length) {
    case 0: return new Array();
    case 1: return new Array(a[0]);
    case 2: return new Array(a[0],a[1]);
    case 3: return new Array(a[0],a[1],a[2]);
    default: throw new Error("INVOKE: too many arguments");
  }
  var f = m === "isArray" ? Array.isArray : (m === "Array" ? Array : Array.prototype[m]);
  if (m === "Array" || m === "isArray") recv = undefined;
  switch (a.length) {
    case 0: return f.call(recv);
    case 1: return f.call(recv,a[0]);
    case 2: return f.call(recv,a[0],a[1]);
    case 3: return f.call(recv,a[0],a[1],a[2]);
    case 4: return f.call(recv,a[0],a[1],a[2],a[3]);
    case 5: return f.call(recv,a[0],a[1],a[2],a[3],a[4]);
    case 6: return f.call(recv,a[0],a[1],a[2],a[3],a[4],a[5]);
  }
  throw new Error("INVOKE: too many arguments");
}
// one method case
function RC(c){
  OBJIDS = []; OBJ = {}; WRAPS = [];
  var res;
  try {
    for (var i=0;i<c.objs.length;i++){ var o = BUILD(c.objs[i]); OBJ[i+3] = o; if (c.objs[i].cls !== "prim") OBJIDS[OBJIDS.length] = [o, i+3]; }
    var args = RESOLVEALL(c.args), thr = "", ret;
    try { ret = INVOKE(c.m, OBJ[3], args); }
    catch (e) { if (e instanceof Error) { thr = e.name; ret = undefined; } else { thr = "value"; ret = e; } }
    var objs = [];
    for (i=0;i<c.objs.length;i++) objs[i] = c.objs[i].cls === "prim" ? {prim:ENC(OBJ[i+3])} : SHOW(OBJ[i+3]);
    res = {thr:thr, ret:ENCX(ret), objs:objs, aproto:APROTO()};
  } finally { CLEANUP(); }
  return {__enc:res};
}
// one history of object-model steps on a fresh array
function DESC(d){
  var r = {};
  if (d.hv) r.value = d.v;
  if (d.hw) r.writable = d.w;
  if (d.he) r.enumerable = d.e;
  if (d.hc) r.configurable = d.c;
  return r;
}
function DOSTEP(A, s){
  switch (s.op) {
    case "assign": return (A[s.n] = s.v);
    case "define": Object.defineProperty(A, s.n, DESC(s.d)); return undefined;
    case "delete": return delete A[s.n];
    case "freeze": Object.freeze(A); return undefined;
    case "seal": Object.seal(A); return undefined;
    case "prevent": Object.preventExtensions(A); return undefined;
    case "call": return INVOKE(s.m, A, RESOLVEALL(s.args));
  }
  throw new Error("bad step");
}
function RH(h){
  OBJIDS = []; OBJ = {}; WRAPS = [];
  var A = []; OBJ[3] = A; OBJIDS[0] = [A,3];
  for (var i=0;i<h.path.length;i++){ try { DOSTEP(A, h.path[i]); } catch (e) {} }
  var thr = "", ret;
  LOG = [];
  try { ret = DOSTEP(A, h.step); }
  catch (e) { if (e instanceof Error) { thr = e.name; ret = undefined; } else { thr = "value"; ret = e; } }
  return {__enc:{thr:thr, ret:ENCX(ret), objs:[SHOW(A)], aproto:APROTO()}};
}
`

var methodFams = []string{"slice", "splice", "index", "range2", "simple", "sortnum", "sortstr", "iter", "conv", "big", "ctor", "prim"}

const modelProps = "INVARIANTS LengthAboveIndices LengthIsUint32\nPROPERTIES NonWritableLengthStable ShrinkDeletesTail GrowKeepsElements\n"

func cfg(c *core.Ctx, fams []string, nsel, maxLen int, deep bool, hist bool, props bool) string {
	s := fmt.Sprintf("CONSTANTS\n OpenDev = %s\n Fams = %s\n NSel = %d\n MaxLen = %d\n Deep = %v\nINIT Init\nNEXT Next\nCHECK_DEADLOCK FALSE\n",
		core.TLASet(c.Findings.OpenIDs()), core.TLASet(fams), nsel, maxLen, map[bool]string{true: "TRUE", false: "FALSE"}[deep])
	if hist {
		s += "VIEW View\n"
		if props {
			s += modelProps
		}
	} else {
		s += "INVARIANT Emit\n"
	}
	return s
}

// Spec is the C08 instance of the generic driver.
var Spec = &gen.Spec{
	Module:  "C08",
	Prelude: Prelude,
	PerVM:   200,
	Runs: func(c *core.Ctx) []gen.RunCfg {
		if f := os.Getenv("VERIF_C08_FAMS"); f != "" { // debugging aid: run selected families only
			if f == "judge" {
				f = "ctor"
			}
			fams := strings.Split(f, ",")
			if fams[0] == "hist" {
				return []gen.RunCfg{{Name: "debug-hist", Cfg: cfg(c, fams, 0, 2, false, true, true)}}
			}
			return []gen.RunCfg{{Name: "debug-" + f, Cfg: cfg(c, fams, 0, 0, c.Thorough(), false, false), Opts: tlc.Opts{Seed: c.Seed}}}
		}
		if c.Thorough() {
			return []gen.RunCfg{
				{Name: "methods(all families, arrays to length 4, every argument list)", Cfg: cfg(c, methodFams, 0, 0, true, false, false),
					Opts: tlc.Opts{Timeout: 60 * time.Minute, Seed: c.Seed}},
				{Name: "array-object state machine, all histories to depth 3", Cfg: cfg(c, []string{"hist"}, 0, 3, false, true, true),
					Opts: tlc.Opts{Timeout: 60 * time.Minute}},
				{Name: "array-object state machine, every step from random histories of length <= 10", Cfg: cfg(c, []string{"hist"}, 0, 10, false, true, false),
					Opts: tlc.Opts{Workers: 4, Simulate: true, Num: 20, Depth: 11, Seed: c.Seed, Timeout: 20 * time.Minute}},
			}
		}
		return []gen.RunCfg{
			{Name: "methods(all families, arrays to length 3, 40 sampled argument lists per receiver and family)", Cfg: cfg(c, methodFams, 40, 0, false, false, false),
				Opts: tlc.Opts{Timeout: 20 * time.Minute, Seed: c.Seed}},
			{Name: "array-object state machine, all histories to depth 2", Cfg: cfg(c, []string{"hist"}, 0, 2, false, true, true),
				Opts: tlc.Opts{Timeout: 20 * time.Minute}},
		}
	},
	Assume: []string{
		"trusted: the JavaScript recipe interpreter and projection in harness/internal/c08 (BUILD, SHOW via Object.getOwnPropertyNames/getOwnPropertyDescriptor/isExtensible, own insertion sort of names; it uses no Array.prototype method)",
		"only data properties are generated (no accessor elements); callbacks are scripted behaviours executed identically by the JavaScript prelude and by Arr.tla!CbBehave",
		"the result length of slice/splice/concat follows the ES2015 correction of the ES5.1 text (final Put of length)",
		"sort is judged only where 15.4.4.11 determines the result (plain data elements, comparison without ties between distinguishable values)",
		"lengths >= 2^30 only for push/pop (looping methods would need 2^32 iterations on the implementation)",
	},
}

// Check runs the property.
func Check(c *core.Ctx) (map[string]any, []string, error) {
	cov, as, err := gen.Check(c, Spec)
	if err != nil || cov == nil {
		return cov, as, err
	}
	cov["model_properties_checked"] = []string{"LengthAboveIndices", "LengthIsUint32", "NonWritableLengthStable", "ShrinkDeletesTail", "GrowKeepsElements"}
	st, err := selfTest(cov)
	if err != nil {
		return nil, nil, err
	}
	cov["binding_selftest"] = st
	if os.Getenv("VERIF_C08_FAMS") == "" || os.Getenv("VERIF_C08_FAMS") == "judge" {
		n := 1500
		if c.Thorough() {
			n = 10000
		}
		j, err := runJudge(c, n)
		if err != nil {
			return nil, nil, err
		}
		cov["judge"] = j
		cov["traces_validated_against_impl"] = cov["traces_validated_against_impl"].(int64) + int64(j["events"].(int))
	}
	return cov, as, nil
}

// selfTest demonstrates that the comparison is not vacuous (DESIGN.md 5.4): the conforming cases
// sampled by the driver are evaluated again (a) unchanged - they must conform, (b) with a mutated
// projection (the writable attribute reported flipped), (c) with a mutated adapter (pairs of
// builtins swapped) and (d) against a corrupted expected outcome; (b) and (d) must reject every
// usable sample.
func selfTest(cov map[string]any) (map[string]any, error) {
	eval := func(prelude, src string) (string, error) {
		vm := otto.New()
		if err := vm.Set("NUMENC", func(call otto.FunctionCall) otto.Value {
			f, _ := call.Argument(0).ToFloat()
			v, _ := otto.ToValue(jsx.NumEnc(f))
			return v
		}); err != nil {
			return "", err
		}
		if _, err := vm.Run(prelude); err != nil {
			return "", err
		}
		v, err := vm.Call("RUN", nil, src)
		if err != nil {
			return "", err
		}
		return v.String(), nil
	}
	same := func(a string, b []byte) bool {
		var x, y any
		if json.Unmarshal([]byte(a), &x) != nil || json.Unmarshal(b, &y) != nil {
			return false
		}
		return reflect.DeepEqual(x, y)
	}
	base := gen.Prelude + Prelude
	flipped := strings.Replace(base, "w:d.writable", "w:!d.writable", 1)
	swapped := strings.Replace(base, "Array.prototype[m]);", "Array.prototype[({pop:'shift',shift:'pop',slice:'splice',splice:'slice',indexOf:'lastIndexOf',lastIndexOf:'indexOf',every:'some',some:'every',push:'unshift',unshift:'push',reduce:'reduceRight',reduceRight:'reduce',map:'filter',filter:'map'})[m] || m]);", 1)
	if flipped == base || swapped == base {
		return nil, fmt.Errorf("self-test: mutation points not found in the prelude")
	}
	var usable, rejFlip, rejSwap, rejExp int
	samples, _ := cov["samples"].([]any)
	for _, sm := range samples {
		m, ok := sm.(map[string]any)
		if !ok {
			continue
		}
		src, _ := m["js"].(string)
		exp, _ := m["expected"].(json.RawMessage)
		out, err := eval(base, src)
		if err != nil || !same(out, exp) {
			continue // sample needs injected constants: not usable here
		}
		usable++
		if o, err := eval(flipped, src); err != nil || !same(o, exp) {
			rejFlip++
		}
		if o, err := eval(swapped, src); err != nil || !same(o, exp) {
			rejSwap++
		}
		var e map[string]any
		if json.Unmarshal(exp, &e) == nil {
			if v, ok := e["v"].(map[string]any); ok {
				v["thr"] = "Mutated"
			}
			b, _ := json.Marshal(e)
			if !same(out, b) {
				rejExp++
			}
		}
	}
	res := map[string]any{"samples_usable": usable, "rejected_with_flipped_projection": rejFlip,
		"rejected_with_swapped_builtins": rejSwap, "rejected_with_corrupted_expectation": rejExp}
	if usable == 0 {
		return nil, fmt.Errorf("self-test: no usable sample")
	}
	if rejFlip != usable || rejExp != usable {
		return nil, fmt.Errorf("self-test: a mutated projection/expectation was accepted: %v", res)
	}
	return res, nil
}
