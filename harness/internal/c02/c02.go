// Package c02: no script can crash or wedge the embedding Go program
// (spec/Totality.tla, spec/C02.tla, spec/C02Fns.tla).
//
// TLC enumerates calls of the public API (built-in function x receiver kind x
// argument kinds x entry route; token sequences as source text; recursion
// forms x depth x stack limit; Value/Object accessors x value kind; host
// interrupts) and prints, for each, the set of replies the specification
// admits.  The harness renders the call, performs it in a worker subprocess
// under recover with a watchdog, projects the reply and tests membership.
package c02

import (
	"bufio"
	"encoding/json"
	"fmt"
	"os"
	"sort"
	"strings"
	"sync"
	"sync/atomic"
	"time"

	"verif/harness/internal/core"
	"verif/harness/internal/tlc"
)

// Expect is Totality's expectation record.
type Expect struct {
	Value    bool       `json:"value"`
	Errors   []string   `json:"errors"`
	Panics   []string   `json:"panics"`
	Diverge  bool       `json:"diverge"`
	Resource bool       `json:"resource"`
	Post     [][]string `json:"post"`
}

type ExpVal struct {
	Reply Expect `json:"reply"`
	Val   string `json:"val"`
}

type Line struct {
	C   Case     `json:"c"`
	Exp ExpVal   `json:"exp"`
	Dev []ExpVal `json:"dev"`
}

type Block struct {
	Blk   []any  `json:"blk"`
	Cases []Line `json:"cases"`
}

func has(xs []string, x string) bool {
	for _, y := range xs {
		if y == x {
			return true
		}
	}
	return false
}

// Admits: is the observed reply a member of the expectation?  (Membership
// only; which replies are admissible is decided by the specification.)
func Admits(e *ExpVal, o *Obs) (bool, string) {
	r := &e.Reply
	switch o.Kind {
	case "value":
		if !r.Value {
			return false, "a value was returned"
		}
		if e.Val != "" && o.Val != e.Val {
			return false, fmt.Sprintf("value %q, specification %q", o.Val, e.Val)
		}
	case "error":
		if !(has(r.Errors, "*") || has(r.Errors, o.Class)) {
			return false, "error of class " + o.Class
		}
	case "gopanic":
		if !has(r.Panics, o.Class) {
			return false, "Go panic " + o.Class + ": " + o.Msg
		}
	case "interrupted":
		if !(r.Diverge || r.Resource) {
			return false, "the call had to be interrupted"
		}
	case "wedged", "killed", "crash":
		if !r.Resource {
			return false, o.Kind + ": " + o.Msg
		}
	default:
		return false, "harness: " + o.Kind + " " + o.Msg
	}
	for _, p := range o.Post {
		// "<accessor>: <Go type>: <message>"
		parts := strings.SplitN(p, ": ", 3)
		ok := false
		for _, adm := range r.Post {
			if len(adm) == 2 && len(parts) >= 2 && adm[0] == parts[0] && adm[1] == parts[1] {
				ok = true
			}
		}
		if !ok {
			return false, "accessor on the result panicked: " + p
		}
	}
	if o.After != "" {
		return false, "runtime unusable afterwards: " + o.After
	}
	return true, ""
}

type tally struct {
	cases, conform, devHits, skippedFlaky int64
	byFam                                 sync.Map
	kinds                                 sync.Map
	exact                                 int64 // cases whose strict expectation is narrower than totality
}

func (t *tally) count(m *sync.Map, k string) {
	v, _ := m.LoadOrStore(k, new(int64))
	atomic.AddInt64(v.(*int64), 1)
}

func dump(m *sync.Map) map[string]int64 {
	out := map[string]int64{}
	m.Range(func(k, v any) bool { out[k.(string)] = atomic.LoadInt64(v.(*int64)); return true })
	return out
}

func cfgText(c *core.Ctx, fam string, nsel, deep int) string {
	return fmt.Sprintf("CONSTANTS\n OpenDev = %s\n Fam = %q\n NSel = %d\n Deep = %d\nINIT Init\nNEXT Next\nINVARIANT NoGoPanic\nINVARIANT Emit\nCHECK_DEADLOCK FALSE\n",
		core.TLASet(c.Findings.OpenIDs()), fam, nsel, deep)
}

type runCfg struct {
	name string
	fam  string
	nsel int
	deep int
}

// judge compares one reply with the line's expectations; a mismatch is
// reproduced on a fresh worker before it is reported.
func judge(c *core.Ctx, t *tally, l *Line, o Obs, fresh func(*Case) Obs, samples *[]any, smu *sync.Mutex) {
	n := atomic.AddInt64(&t.cases, 1)
	t.count(&t.byFam, l.C.Fam)
	t.count(&t.kinds, o.Kind)
	r := &l.Exp.Reply
	if !(r.Value && has(r.Errors, "*")) {
		atomic.AddInt64(&t.exact, 1)
	}
	if ok, _ := Admits(&l.Exp, &o); ok {
		atomic.AddInt64(&t.conform, 1)
		if n%4099 == 1 {
			smu.Lock()
			if len(*samples) < 8 {
				*samples = append(*samples, map[string]any{"call": Render(&l.C), "admitted": l.Exp, "reply": o})
			}
			smu.Unlock()
		}
		return
	}
	if len(l.Dev) > 0 {
		if ok, _ := Admits(&l.Dev[0], &o); ok {
			atomic.AddInt64(&t.devHits, 1)
			c.Hit("deviation")
			return
		}
	}
	// reproduce on a fresh worker (with a long watchdog when the reply was a timeout: tells slow from wedged)
	rc := l.C
	if o.Kind == "wedged" || o.Kind == "interrupted" || o.Kind == "killed" {
		rc.Patient = true
	}
	o2 := fresh(&rc)
	same := o2.Kind == o.Kind && o2.Class == o.Class
	if !same {
		if ok, _ := Admits(&l.Exp, &o2); ok {
			atomic.AddInt64(&t.skippedFlaky, 1)
			c.Note("reply not reproduced on a fresh worker (first %s/%s, then %s/%s): %s", o.Kind, o.Class, o2.Kind, o2.Class, Render(&l.C))
			return
		}
		if len(l.Dev) > 0 {
			if ok, _ := Admits(&l.Dev[0], &o2); ok {
				atomic.AddInt64(&t.skippedFlaky, 1)
				return
			}
		}
		o = o2
	}
	_, why := Admits(&l.Exp, &o)
	admitted := l.Exp
	if len(l.Dev) > 0 {
		admitted = l.Dev[0]
		_, why = Admits(&l.Dev[0], &o)
	}
	eb, _ := json.Marshal(admitted)
	ob, _ := json.Marshal(o)
	c.Violate(fmt.Sprintf("%s  =>  %s ; reply %s ; specification admits %s", Render(&l.C), why, trunc(string(ob), 400), trunc(string(eb), 300)),
		map[string]any{"case": l.C, "call": Render(&l.C), "reply": o, "admitted": admitted, "strict": l.Exp})
}

func Check(c *core.Ctx) (map[string]any, []string, error) {
	if p := os.Getenv("C02_PROBE"); p != "" {
		return nil, nil, probe(p)
	}
	var runs []runCfg
	if c.Thorough() {
		runs = []runCfg{
			{"all-families,thorough(fn1: all routes x all single arguments; fn2: all core pairs on core receivers; src: length 4)", "all", 0, 1},
		}
	} else {
		runs = []runCfg{{"all-families,quick(sampled argument tuples)", "all", 3, 0}}
	}
	if f := os.Getenv("C02_FAM"); f != "" {
		runs[0].fam = f
	}
	nw := c.Workers
	if nw > 16 {
		nw = 16
	}
	pool := NewPool(nw)
	freshW := make(chan *Worker, 4)
	for i := 0; i < 4; i++ {
		freshW <- &Worker{}
	}
	fresh := func(cs *Case) Obs {
		w := <-freshW
		w.stop() // a brand new process for every reproduction
		o, err := w.Do(cs)
		if err != nil {
			o = Obs{Kind: "harness", Msg: err.Error()}
		}
		freshW <- w
		return o
	}
	t := &tally{}
	var samples []any
	var smu sync.Mutex
	var firstErr atomic.Value
	var tlcStats []map[string]any
	var states, trans int64
	var runErr error
	for _, rc := range runs {
		o := tlc.Opts{SpecDir: c.SpecDir, Module: "C02", Cfg: cfgText(c, rc.fam, rc.nsel, rc.deep), Workers: c.Workers, Seed: c.Seed, Timeout: 45 * time.Minute}
		res, err := tlc.Run(o, func(p []byte) {
			var b Block
			if e := json.Unmarshal(p, &b); e != nil {
				firstErr.CompareAndSwap(nil, fmt.Errorf("bad line: %v: %s", e, trunc(string(p), 200)))
				return
			}
			lines := b.Cases
			pool.SubmitBatch(lines, func(l *Line, ob Obs) { judge(c, t, l, ob, fresh, &samples, &smu) })
		})
		if res != nil {
			tlcStats = append(tlcStats, map[string]any{"config": rc.name, "generated": res.Generated, "distinct": res.Distinct, "lines": res.Lines, "wall_s": res.Wall})
			states += res.Distinct
			trans += res.Generated
		}
		if err != nil {
			runErr = err
			break
		}
	}
	perr := pool.Wait()
	for i := 0; i < 4; i++ {
		(<-freshW).Close()
	}
	if runErr != nil {
		return nil, nil, runErr
	}
	if e := firstErr.Load(); e != nil {
		return nil, nil, e.(error)
	}
	if perr != nil {
		return nil, nil, perr
	}
	if t.cases == 0 {
		return nil, nil, fmt.Errorf("no case was generated")
	}
	// the function table against the live runtime
	live, err := Walk()
	if err != nil {
		return nil, nil, err
	}
	missing, gone := compareTable(c.SpecDir, live)
	for _, m := range missing {
		c.Note("function reachable on the live runtime but missing from spec/C02Fns.tla (rerun spec/gen_c02fns.py): %s", m)
	}
	for _, m := range gone {
		c.Note("function of spec/C02Fns.tla not reachable on the live runtime: %s", m)
	}
	nText := 3000
	if c.Thorough() {
		nText = 60000
	}
	var judgeCov map[string]any
	if os.Getenv("C02_FAM") == "" { // C02_FAM=<family> is a development aid: one family only, no judge run
		jc, err := JudgeTexts(c, nText)
		if err != nil {
			return nil, nil, err
		}
		judgeCov = jc
		if n, ok := jc["texts"].(int); ok {
			t.cases += int64(n)
		}
	}
	bind := selfTest()
	if len(samples) == 0 {
		samples = append(samples, "no conforming case sampled")
	}
	cov := map[string]any{
		"states": states, "transitions": trans, "traces_validated_against_impl": t.cases, "samples": samples,
		"tlc_runs": tlcStats, "cases": t.cases, "conforming": t.conform, "conforming_to_known_deviation": t.devHits,
		"not_reproduced_skipped": t.skippedFlaky, "cases_by_family": dump(&t.byFam), "replies_by_kind": dump(&t.kinds),
		"cases_with_expectation_narrower_than_totality": t.exact,
		"functions_in_table":                            len(live) - len(missing) + len(gone), "functions_live": len(live), "functions_missing_from_table": len(missing),
		"worker_restarts": pool.Restarts, "binding_self_test": bind, "judge_mutated_programs": judgeCov,
		"rule": "one TLC state per block of cases (the cases of a block are evaluated inside the state's invariants); every case is one call on a fresh runtime in a worker subprocess",
	}
	assume := []string{
		"trusted: the rendering of value kinds / routes / recursion forms to JavaScript and Go API calls (harness/internal/c02/exec.go, rec.go), the reply projection (error class from the error text, Go panic type), TLC",
		"resource exhaustion is outside the statement: calls that ES5 itself makes visit 2^32-1 indexes are not generated (Totality!Heavy); results longer than 100000 elements are not exported",
		"a script still running after 1.5 s is interrupted through Otto.Interrupt and counted as divergence where the specification admits divergence; no reply 2.5 s after that is a wedge",
		"unbounded recursion without a configured stack depth limit is outside the statement and not generated",
	}
	return cov, assume, nil
}

// compareTable reads the paths of spec/C02Fns.tla and compares with the live walk.
func compareTable(specDir string, live []string) (missing, gone []string) {
	b, err := os.ReadFile(specDir + "/C02Fns.tla")
	if err != nil {
		return []string{"cannot read C02Fns.tla: " + err.Error()}, nil
	}
	tab := map[string]bool{}
	for _, ln := range strings.Split(string(b), "\n") {
		if i := strings.Index(ln, `[p |-> "`); i >= 0 {
			rest := ln[i+8:]
			if j := strings.Index(rest, `"`); j >= 0 {
				tab[rest[:j]] = true
			}
		}
	}
	lv := map[string]bool{}
	for _, p := range live {
		lv[p] = true
		if !tab[p] {
			missing = append(missing, p)
		}
	}
	for p := range tab {
		if !lv[p] {
			gone = append(gone, p)
		}
	}
	sort.Strings(gone)
	return
}

// selfTest demonstrates the binding: replies that must be rejected are rejected,
// and the executor observes a panic when one is provoked.
func selfTest() map[string]any {
	out := map[string]any{}
	onlyTE := ExpVal{Reply: Expect{Errors: []string{"TypeError"}}}
	anyR := ExpVal{Reply: Expect{Value: true, Errors: []string{"*"}}}
	ok1, _ := Admits(&onlyTE, &Obs{Kind: "value"})
	ok2, _ := Admits(&anyR, &Obs{Kind: "gopanic", Class: "runtime.errorString"})
	ok3, _ := Admits(&anyR, &Obs{Kind: "wedged"})
	ok4, _ := Admits(&anyR, &Obs{Kind: "value", Post: []string{"Export: *otto.exception: x"}})
	ok5, _ := Admits(&onlyTE, &Obs{Kind: "error", Class: "TypeError"})
	out["mutated_replies_rejected"] = !ok1 && !ok2 && !ok3 && !ok4 && ok5
	// a host function that panics with a foreign value: the executor must see the Go panic
	w := &Worker{}
	defer w.Close()
	o, err := w.Do(&Case{Fam: "text", API: "selftest-panic"})
	out["executor_observes_go_panic"] = err == nil && o.Kind == "gopanic"
	o2, err2 := w.Do(&Case{Fam: "text", API: "selftest-wedge"})
	out["executor_observes_wedge"] = err2 == nil && o2.Kind == "wedged"
	o3, err3 := w.Do(&Case{Fam: "text", API: "selftest-fatal"})
	out["executor_observes_fatal_crash"] = err3 == nil && o3.Kind == "crash"
	return out
}

func probe(path string) error {
	f, err := os.Open(path)
	if err != nil {
		return err
	}
	defer f.Close()
	pool := NewPool(16)
	var mu sync.Mutex
	groups := map[string]int{}
	first := map[string]string{}
	sc := bufio.NewScanner(f)
	sc.Buffer(make([]byte, 1<<20), 1<<26)
	var batch []Line
	flush := func() {
		if len(batch) == 0 {
			return
		}
		pool.SubmitBatch(batch, func(l *Line, o Obs) {
			c := &l.C
			if os.Getenv("C02_PROBE_ALL") != "" {
				b, _ := json.Marshal(o)
				fmt.Printf("%s\n    => %s\n", Render(c), b)
				return
			}
			key := ""
			switch {
			case o.Kind == "gopanic" || o.Kind == "crash" || o.Kind == "wedged" || o.Kind == "killed" || o.Kind == "harness" || o.Kind == "interrupted":
				key = o.Kind + " | " + c.Fn + c.Acc + " | " + o.Class + " | " + trunc(o.Msg, 80)
			case len(o.Post) > 0:
				key = "post | " + strings.Join(o.Post, " ;; ")
			case o.After != "":
				key = "after | " + c.Fn + " | " + o.After
			case o.Kind == "error" && (o.Class == "other" || strings.HasPrefix(o.Class, "go:")):
				key = "errclass | " + c.Fn + " | " + o.Class + " | " + trunc(o.Msg, 80)
			default:
				key = "ok " + o.Kind
			}
			mu.Lock()
			groups[key]++
			if _, ok := first[key]; !ok {
				first[key] = Render(c)
			}
			mu.Unlock()
		})
		batch = nil
	}
	for sc.Scan() {
		if len(sc.Bytes()) == 0 {
			continue
		}
		var c Case
		if err := json.Unmarshal(sc.Bytes(), &c); err != nil {
			return err
		}
		batch = append(batch, Line{C: c})
		if len(batch) >= 32 {
			flush()
		}
	}
	flush()
	if err := pool.Wait(); err != nil {
		return err
	}
	var keys []string
	for k := range groups {
		keys = append(keys, k)
	}
	sort.Strings(keys)
	for _, k := range keys {
		fmt.Printf("%7d  %s\n           e.g. %s\n", groups[k], k, trunc(first[k], 260))
	}
	return nil
}
