package c02

import (
	"bufio"
	"encoding/json"
	"fmt"
	"os"
	"sort"
	"strings"
	"sync"

	"verif/harness/internal/core"
)

// Check is filled in below; for now: probe mode (C02_PROBE=<file of case lines>).
func Check(c *core.Ctx) (map[string]any, []string, error) {
	if p := os.Getenv("C02_PROBE"); p != "" {
		return nil, nil, probe(p)
	}
	return nil, nil, fmt.Errorf("not implemented")
}

func probe(path string) error {
	f, err := os.Open(path)
	if err != nil {
		return err
	}
	defer f.Close()
	pool := NewPool(16)
	var mu sync.Mutex
	groups := map[string]int{}
	first := map[string]string{}
	sc := bufio.NewScanner(f)
	sc.Buffer(make([]byte, 1<<20), 1<<26)
	for sc.Scan() {
		if len(sc.Bytes()) == 0 {
			continue
		}
		var c Case
		if err := json.Unmarshal(sc.Bytes(), &c); err != nil {
			return err
		}
		cc := c
		pool.Submit(&cc, func(c *Case, o Obs) {
			if os.Getenv("C02_PROBE_ALL") != "" {
				b, _ := json.Marshal(o)
				fmt.Printf("%s\n    => %s\n", Render(c), b)
				return
			}
			key := ""
			switch {
			case o.Kind == "gopanic" || o.Kind == "crash" || o.Kind == "wedged" || o.Kind == "killed" || o.Kind == "harness" || o.Kind == "interrupted":
				key = o.Kind + " | " + c.Fn + c.Acc + " | " + o.Class + " | " + trunc(o.Msg, 80)
			case len(o.Post) > 0:
				key = "post | " + strings.Join(o.Post, " ;; ")
			case o.After != "":
				key = "after | " + c.Fn + " | " + o.After
			case o.Kind == "error" && (o.Class == "other" || strings.HasPrefix(o.Class, "go:")):
				key = "errclass | " + c.Fn + " | " + o.Class + " | " + trunc(o.Msg, 80)
			default:
				key = "ok " + o.Kind
			}
			mu.Lock()
			groups[key]++
			if _, ok := first[key]; !ok {
				first[key] = Render(c)
			}
			mu.Unlock()
		})
	}
	if err := pool.Wait(); err != nil {
		return err
	}
	var keys []string
	for k := range groups {
		keys = append(keys, k)
	}
	sort.Strings(keys)
	for _, k := range keys {
		fmt.Printf("%7d  %s\n           e.g. %s\n", groups[k], k, trunc(first[k], 260))
	}
	return nil
}
