package c02

import (
	"fmt"

	"github.com/robertkrimen/otto"
)

// recProgram renders the recursion form: a program whose evaluation nests d
// activations of the user function through the mechanism named by form.
// (Rendering only: what the reply must be is computed by Totality!Recurse.)
func recParts(form string, d int) (string, string) {
	switch form {
	case "direct":
		return "function f(n){ if (n > 1) f(n - 1); return 7 }", fmt.Sprintf("f(%d)", d)
	case "mutual":
		return "function f(n){ if (n > 1) g(n - 1); return 7 } function g(n){ if (n > 1) f(n - 1); return 7 }", fmt.Sprintf("f(%d)", d)
	case "call":
		return "function f(n){ if (n > 1) f.call(null, n - 1); return 7 }", fmt.Sprintf("f(%d)", d)
	case "apply":
		return "function f(n){ if (n > 1) f.apply(null, [n - 1]); return 7 }", fmt.Sprintf("f(%d)", d)
	case "bind":
		return "var b = null; function f(n){ if (n > 1) b(n - 1); return 7 }", fmt.Sprintf("(b = f.bind(null), f(%d))", d)
	case "forEach":
		return "function f(n){ if (n > 1) [n - 1].forEach(f); return 7 }", fmt.Sprintf("f(%d)", d)
	case "getter":
		return fmt.Sprintf("var n = %d; var o = { get p(){ if (n > 1) { n--; o.p } return 7 } };", d), "o.p"
	case "toString":
		return fmt.Sprintf("var n = %d; var o = { toString: function(){ if (n > 1) { n--; '' + o } return '7' } };", d), "+('' + o)"
	case "valueOf":
		return fmt.Sprintf("var n = %d; var o = { valueOf: function(){ if (n > 1) { n--; o * 1 } return 7 } };", d), "o * 1"
	case "constructor":
		return "function F(n){ if (n > 1) new F(n - 1) }", fmt.Sprintf("(new F(%d), 7)", d)
	case "evalDirect":
		return "function f(n){ if (n > 1) eval('f(n - 1)'); return 7 }", fmt.Sprintf("f(%d)", d)
	case "evalIndirect":
		return "function f(n){ if (n > 1) (0, eval)('f(' + (n - 1) + ')'); return 7 }", fmt.Sprintf("f(%d)", d)
	case "sortCompare":
		return "function f(n){ if (n > 1) [2, 1].sort(function(a, b){ f(n - 1); return a - b }); return 7 }", fmt.Sprintf("f(%d)", d)
	case "replaceFn":
		return "function f(n){ if (n > 1) 'a'.replace('a', function(){ f(n - 1); return 'b' }); return 7 }", fmt.Sprintf("f(%d)", d)
	case "jsonToJSON":
		return fmt.Sprintf("var n = %d; var o = { toJSON: function(){ if (n > 1) { n--; JSON.stringify(o) } return 7 } };", d), "+JSON.stringify(o)"
	}
	return "", "(function(){ throw new Error('unknown recursion form') })()"
}

func recProgram(form string, d int) string {
	if d == 0 {
		return recUnbounded(form)
	}
	a, b := recParts(form, d)
	return a + " " + b
}

// unbounded recursion (d = 0 in the case): no base case at all
func recUnbounded(form string) string {
	switch form {
	case "direct":
		return "function f(){ return f() } f()"
	case "mutual":
		return "function f(){ return g() } function g(){ return f() } f()"
	case "call":
		return "function f(){ return f.call(this) } f()"
	case "apply":
		return "function f(){ return f.apply(this, arguments) } f()"
	case "bind":
		return "var b; function f(){ return b() } b = f.bind(null); f()"
	case "forEach":
		return "function f(){ [1].forEach(f) } f()"
	case "getter":
		return "var o = { get p(){ return o.p } }; o.p"
	case "toString":
		return "var o = { toString: function(){ return '' + o } }; '' + o"
	case "valueOf":
		return "var o = { valueOf: function(){ return o * 1 } }; o * 1"
	case "constructor":
		return "function F(){ new F() } new F()"
	case "evalDirect":
		return "function f(){ return eval('f()') } f()"
	case "evalIndirect":
		return "function f(){ return (0, eval)('f()') } f()"
	case "sortCompare":
		return "function f(){ [2, 1].sort(function(a, b){ f(); return 0 }) } f()"
	case "replaceFn":
		return "function f(){ 'a'.replace('a', f) } f()"
	case "jsonToJSON":
		return "var o = { toJSON: function(){ return JSON.stringify(o) } }; JSON.stringify(o)"
	case "jsonToJSONFresh":
		return "var a = { toJSON: function(){ return { x: a } } }; JSON.stringify(a)"
	case "jsonToJSONFreshArray":
		return "var a = { toJSON: function(){ return [a] } }; JSON.stringify(a)"
	case "jsonReplacerFresh":
		return "JSON.stringify({ a: 1 }, function(k, v){ return { n: 1 } })"
	case "cyclicJoin":
		return "var a = []; a[0] = a; a.join()"
	case "cyclicToString":
		return "var a = [1]; a[1] = [a]; String(a)"
	case "protoGetter":
		return "var p = {}; Object.defineProperty(p, 'x', { get: function(){ return this.x } }); Object.create(p).x"
	case "setter":
		return "var o = { set p(v){ o.p = v } }; o.p = 1"
	case "callcall":
		return "function f(){ return Function.prototype.call.call(f) } f()"
	case "newBound":
		return "var B; function F(){ new B() } B = F.bind(null); new B()"
	case "instanceofGetter":
		return "function F(){} var o = {}; Object.defineProperty(F, 'prototype', { value: {} }); function f(){ return (o instanceof F), f() } f()"
	}
	return "throw new Error('unknown recursion form')"
}

func execRec(vm *otto.Otto, c *Case) Obs {
	vm.SetStackDepthLimit(c.L)
	// the same recursion on a Copy() (of a copy) made after the limit was configured
	for i := 0; i < c.Copies; i++ {
		var cp *otto.Otto
		if o := guard(func() error { cp = vm.Copy(); return nil }); o.Kind != "value" {
			o.Msg = "Copy(): " + o.Msg
			return o
		}
		cp.Interrupt = vm.Interrupt // the watchdog interrupts through the channel of the original
		vm = cp
	}
	prog := recProgram(c.Form, c.D)
	var obs Obs
	switch c.Mode {
	case "raw":
		var res otto.Value
		obs = guard(func() error { v, err := vm.Run(prog); res = v; return err })
		if obs.Kind == "value" {
			obs.Val = res.String()
		}
	case "catch":
		// the script itself catches the error, classifies it and continues
		var src string
		if c.D == 0 {
			// unbounded forms: the whole program inside the try block (function declarations are hoisted)
			src = "var C02_r; try { " + prog + "; C02_r = 'done' } catch (e) { C02_r = (e instanceof RangeError) ? 'RangeError' : 'other:' + e }; C02_r + '|' + (1 + 1)"
		} else {
			decl, ex := recParts(c.Form, c.D)
			src = decl + " var C02_r; try { C02_r = 'done:' + (" + ex + ") } catch (e) { C02_r = (e instanceof RangeError) ? 'RangeError' : 'other:' + e }; C02_r + '|' + (1 + 1)"
		}
		var res otto.Value
		obs = guard(func() error { v, err := vm.Run(src); res = v; return err })
		if obs.Kind == "value" {
			obs.Val = res.String()
		}
	case "valuecall":
		// the recursion entered from Go through Value.Call on the function f of the direct form
		var res otto.Value
		obs = guard(func() error {
			if _, err := vm.Run("function f(n){ if (n > 1) f(n - 1); return 7 }"); err != nil {
				return fmt.Errorf("harness: %v", err)
			}
			f, err := vm.Get("f")
			if err != nil {
				return fmt.Errorf("harness: %v", err)
			}
			v, err := f.Call(otto.UndefinedValue(), c.D)
			res = v
			return err
		})
		if obs.Kind == "value" {
			obs.Val = res.String()
		}
	default:
		return Obs{Kind: "harness", Msg: "unknown rec mode " + c.Mode}
	}
	return obs
}

func jsString(s string) string {
	out := []byte{'"'}
	for i := 0; i < len(s); i++ {
		ch := s[i]
		switch {
		case ch == '"' || ch == '\\':
			out = append(out, '\\', ch)
		case ch == '\n':
			out = append(out, '\\', 'n')
		default:
			out = append(out, ch)
		}
	}
	return string(append(out, '"'))
}

func execIrq(vm *otto.Otto, c *Case) Obs {
	var prog string
	switch c.Form {
	case "loop":
		prog = "var i = 0; while (i < 1000) { i++ } i"
	case "try":
		prog = "var i = 0; try { while (i < 1000) { i++ } } catch (e) { i = -1 } i"
	case "finally":
		prog = "var i = 0; try { while (i < 1000) { i++ } } finally { i = -2 } i"
	case "fncall":
		prog = "function f(){ var i = 0; while (i < 1000) { i++ } return i } [1].map(f)[0]"
	default:
		return Obs{Kind: "harness", Msg: "unknown irq form " + c.Form}
	}
	switch c.Arm {
	case "panic":
		vm.Interrupt <- func() { panic(armedPayload{"c02-armed"}) }
	case "return":
		vm.Interrupt <- func() {}
	case "none":
	default:
		return Obs{Kind: "harness", Msg: "unknown arm " + c.Arm}
	}
	var res otto.Value
	obs := guard(func() error { v, err := vm.Run(prog); res = v; return err })
	if obs.Kind == "value" {
		obs.Val = res.String()
	}
	return obs
}
