package c02

import (
	"fmt"
	"strings"

	"github.com/robertkrimen/otto"
)

// Rendering of the second-wave families: histories of array-shape operations
// ("hist"), uncaught throws ("thr"), Otto.Copy ("copy").  As everywhere in this
// package: names -> JavaScript text / Go API calls; what reply is admissible is
// in the generated line.

// histJS: the script steps; the go* steps are Go API calls on the array value.
var histJS = map[string]string{
	"defNC1": `Object.defineProperty(a, "1", {configurable: false})`, "defNC3": `Object.defineProperty(a, "3", {configurable: false})`,
	"defNW1":  `Object.defineProperty(a, "1", {writable: false})`,
	"defAcc0": `Object.defineProperty(a, "0", {get: function(){ return 1 }, configurable: true})`,
	"seal":    `Object.seal(a)`, "freeze": `Object.freeze(a)`, "preventExt": `Object.preventExtensions(a)`,
	"lenNW": `Object.defineProperty(a, "length", {writable: false})`,
	"len0":  `a.length = 0`, "len2": `a.length = 2`, "len10": `a.length = 10`, "lenDef0": `Object.defineProperty(a, "length", {value: 0})`,
	"lenBad": `a.length = -1`, "lenStr": `a.length = "2"`,
	"push": `a.push(9)`, "pop": `a.pop()`, "shift": `a.shift()`, "unshift": `a.unshift(0)`, "splice1": `a.splice(1, 1)`,
	"spliceIns": `a.splice(0, 0, 7)`, "reverse": `a.reverse()`, "sort": `a.sort()`, "set1": `a[1] = 8`, "set5": `a[5] = 7`,
	"del1": `delete a[1]`, "concat": `a.concat([5], 6).length`, "slice": `a.slice(1).length`, "join": `a.join()`,
	"jsonStringify": `JSON.stringify(a)`, "forIn": `var k, s = ""; for (k in a) s += k; s`,
}

func execHist(vm *otto.Otto, c *Case) Obs {
	var arr otto.Value
	pre := guard(func() error {
		if _, err := vm.Run("var a = [1, 2, 3, 4];"); err != nil {
			return err
		}
		v, err := vm.Get("a")
		arr = v
		return err
	})
	if pre.Kind != "value" {
		return Obs{Kind: "harness", Msg: "history setup: " + pre.Msg}
	}
	var kinds []string
	for i, op := range c.Ops {
		var o Obs
		if js, ok := histJS[op]; ok {
			o = guard(func() error { _, err := vm.Run(js); return err })
		} else {
			ob := arr.Object()
			o = guard(func() error {
				switch op {
				case "goExport":
					_, err := arr.Export()
					return err
				case "goString":
					_ = arr.String()
				case "goJSON":
					_, err := arr.MarshalJSON()
					return err
				case "goSetLen":
					return ob.Set("length", 1)
				case "goSet7":
					return ob.Set("7", 1)
				case "goKeys":
					_ = ob.Keys()
				default:
					return fmt.Errorf("harness: unknown history step %q", op)
				}
				return nil
			})
		}
		switch o.Kind {
		case "value":
			kinds = append(kinds, "v")
		case "error":
			if strings.HasPrefix(o.Msg, "harness:") {
				return Obs{Kind: "harness", Msg: o.Msg}
			}
			kinds = append(kinds, "e:"+o.Class)
		default:
			o.Msg = fmt.Sprintf("step %d (%s): %s", i+1, op, o.Msg)
			return o
		}
	}
	return Obs{Kind: "value", Val: strings.Join(kinds, ",")}
}

const selfThrower = "(function(){ var o = { toString: function(){ throw o }, valueOf: function(){ throw o } }; return o })()"

func valExpr(name string) string {
	if name == "selfThrower" {
		return selfThrower
	}
	if s, ok := kindJS[name]; ok {
		return s
	}
	return "(" + name + ")"
}

func execThrow(vm *otto.Otto, c *Case) Obs {
	v := valExpr(c.Val)
	thr := "throw " + v
	run := func(src string) Obs { return guard(func() error { _, err := vm.Run(src); return err }) }
	setup := func(src string) *Obs {
		o := guard(func() error { _, err := vm.Run(src); return err })
		if o.Kind != "value" {
			o.Msg = "while setting up: " + o.Msg
			if o.Kind == "error" {
				o = Obs{Kind: "harness", Msg: "throw setup failed: " + o.Msg}
			}
			return &o
		}
		return nil
	}
	get := func(name string) (otto.Value, *Obs) {
		var val otto.Value
		o := guard(func() error { x, err := vm.Get(name); val = x; return err })
		if o.Kind != "value" {
			o = Obs{Kind: "harness", Msg: "cannot read " + name + ": " + o.Msg}
			return val, &o
		}
		return val, nil
	}
	switch c.Entry {
	case "Run":
		return run(thr)
	case "Eval":
		return guard(func() error { _, err := vm.Eval(thr); return err })
	case "CompileRun":
		return guard(func() error {
			s, err := vm.Compile("", thr)
			if err != nil {
				return fmt.Errorf("harness: %v", err)
			}
			_, err = vm.Run(s)
			return err
		})
	case "evalfn":
		vm.Set("C02_src", thr)
		return run("eval(C02_src)")
	case "Function":
		vm.Set("C02_src", thr)
		return run("new Function(C02_src)()")
	case "ValueCall", "OttoCall", "OttoCallThis":
		if o := setup("function thrower(){ " + thr + " }"); o != nil {
			return *o
		}
		switch c.Entry {
		case "ValueCall":
			f, o := get("thrower")
			if o != nil {
				return *o
			}
			return guard(func() error { _, err := f.Call(otto.UndefinedValue()); return err })
		case "OttoCall":
			return guard(func() error { _, err := vm.Call("thrower", nil); return err })
		default:
			return guard(func() error { _, err := vm.Call("thrower", 1); return err })
		}
	case "ObjectCall", "ObjectGet", "ObjectSet", "toStringConv", "valueOfConv", "ValueString":
		if o := setup("var C02_o = { m: function(){ " + thr + " }, get p(){ " + thr + " }, set q(x){ " + thr + " }, toString: function(){ " + thr + " }, valueOf: function(){ " + thr + " } };"); o != nil {
			return *o
		}
		ov, o := get("C02_o")
		if o != nil {
			return *o
		}
		ob := ov.Object()
		switch c.Entry {
		case "ObjectCall":
			return guard(func() error { _, err := ob.Call("m"); return err })
		case "ObjectGet":
			return guard(func() error { _, err := ob.Get("p"); return err })
		case "ObjectSet":
			return guard(func() error { return ob.Set("q", 1) })
		case "toStringConv":
			return guard(func() error { _, err := ov.ToString(); return err })
		case "valueOfConv":
			return guard(func() error { _, err := ov.ToFloat(); return err })
		default:
			return guard(func() error { _ = ov.String(); return nil })
		}
	case "forEach":
		return run("[1].forEach(function(){ " + thr + " })")
	case "sort":
		return run("[2, 1].sort(function(){ " + thr + " })")
	case "replace":
		return run("'a'.replace('a', function(){ " + thr + " })")
	case "finally":
		return run("try { " + thr + " } finally { 1 }")
	case "rethrow":
		return run("try { " + thr + " } catch (e) { throw e }")
	case "getterInJSON":
		return run("JSON.stringify({ get p(){ " + thr + " } })")
	case "ctor":
		return run("new (function(){ " + thr + " })()")
	case "nested":
		return run("(function(){ (function(){ " + thr + " })() })()")
	}
	return Obs{Kind: "harness", Msg: "unknown throw entry " + c.Entry}
}

var copySetups = map[string]string{
	"fresh":                    ``,
	"argumentsParam":           `function f(arguments){ return function(){} }; g = f(1)`,
	"argumentsObject":          `var g = (function(){ return arguments })(1, 2); function f(a){ return function(){ return arguments.length + a } }; h = f(1)`,
	"deleteEval":               `delete eval`,
	"evalAssigned":             `eval = 1`,
	"evalVar":                  `var e2 = eval; var o = { e: eval }`,
	"evalAccessor":             `Object.defineProperty(this, "eval", { get: function(){ return 1 }, configurable: true })`,
	"boundFunction":            `var b = (function(){ return this }).bind({ x: 1 }, 2); var bb = b.bind(null)`,
	"accessors":                `var o = { get x(){ return 1 }, set x(v){} }`,
	"builtinObjects":           `var d = new Date(0), r = /a/g, e = new Error("m"), s = new String("s"), n = new Number(1), bo = new Boolean(true), ar = [1,,3]`,
	"bridged":                  `var g = C02_func, m = C02_mapsi, st = C02_struct, sl = C02_slice`,
	"frozen":                   `var o = Object.freeze({ a: 1 }); var s = Object.seal([1]); var p = Object.preventExtensions({})`,
	"cyclic":                   `var o = {}; o.self = o; var a = []; a[0] = a`,
	"deleteBuiltins":           `delete Array; delete Math; delete JSON; delete Object.prototype.toString`,
	"builtinsAssigned":         `Array = 1; Object = function(){}; Function.prototype.call = 1; undefined = 5; NaN = 1`,
	"closure":                  `function mk(){ var x = 1; return function(){ return x++ } } var c = mk(); c()`,
	"withScope":                `var w; with ({ p: 1 }) { w = function(){ return p } }`,
	"thrownStored":             `var t; try { null.x } catch (e) { t = e }`,
	"stackLimit":               ``,
	"regexpLastIndex":          `var r = /a/g; r.exec("aa")`,
	"dateNaN":                  `var d = new Date(NaN)`,
	"errorObjects":             `var e = new TypeError("x"); var st = e.stack; var e2 = Object.create(RangeError.prototype)`,
	"nullProto":                `var o = Object.create(null)`,
	"getterOnGlobal":           `Object.defineProperty(this, "gg", { get: function(){ return 7 }, configurable: true })`,
	"functionCtor":             `var F = new Function("a", "return a + 1")`,
	"deepProto":                `var p = {}; for (var i = 0; i < 50; i++) p = Object.create(p)`,
	"deleteObjectProtoMembers": `delete Object.prototype.hasOwnProperty; delete Function.prototype.bind`,
	"arrayHoles":               `var a = [,1,,2]; a.length = 10`,
	"catchClosure":             `var t2; try { throw { a: 1 } } catch (e) { t2 = function(){ return e } }`,
	"namedFunctionExpr":        `var f = function fact(n){ return n ? n * fact(n - 1) : 1 }; f(3)`,
}

func execCopy(vm *otto.Otto, c *Case) Obs {
	src, ok := copySetups[c.Setup]
	if !ok {
		return Obs{Kind: "harness", Msg: "unknown copy setup " + c.Setup}
	}
	if c.Setup == "stackLimit" {
		vm.SetStackDepthLimit(10)
	}
	if o := guard(func() error { _, err := vm.Run(src); return err }); o.Kind != "value" {
		return Obs{Kind: "harness", Msg: "copy setup failed: " + o.Kind + " " + o.Msg}
	}
	var cp *otto.Otto
	if o := guard(func() error { cp = vm.Copy(); return nil }); o.Kind != "value" {
		o.Msg = "Copy(): " + o.Msg
		return o
	}
	return guard(func() error {
		v, err := cp.Run("1+1")
		if err != nil {
			return err
		}
		if v.String() != "2" {
			return fmt.Errorf("1+1 gives %s on the copy", v.String())
		}
		_, err = cp.Run("typeof f + typeof g + typeof o")
		return err
	})
}
