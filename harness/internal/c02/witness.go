package c02

import (
	"verif/harness/internal/core"
)

// Go-side witnesses of open findings that a script evaluated in-process cannot
// show (Go API calls; replies that kill or wedge the process).  Each is one
// Case performed in a worker subprocess; the result is "<kind> <class>".
var goWitnessCases = map[string]Case{
	"c02_isnan_throwing_conversion": {Fam: "acc", Acc: "IsNaN", Kind: "thrower"},
	"c02_export_throwing_getter":    {Fam: "acc", Acc: "Export", Kind: "thrower"},
	"c02_tostring_cyclic_limit50":   {Fam: "acc", Acc: "ToString", Kind: "cyclicArr", L: 50},
	"c02_export_cyclic":             {Fam: "acc", Acc: "Export", Kind: "cyclicObj", L: 50},
	"c02_gomap_int_key_set":         {Fam: "acc", Acc: "Object.Set", Kind: "goMapIS"},
	"c02_gomap_value_set":           {Fam: "acc", Acc: "Object.Set", Kind: "goMapSI"},
	"c02_goslice_pop":               {Fam: "fn", Route: "call", Fn: "Array.prototype.pop", Recv: "goSlice"},
	"c02_goslice_define_accessor":   {Fam: "fn", Route: "call", Fn: "Object.assign", Recv: "undefined", Args: []string{"goSlice", "thrower"}},
	"c02_ottocall_comment":          {Fam: "src", API: "Call", Bytes: []int{47, 47}},
	"c02_duplicate_labels_4000":     {Fam: "src", API: "Compile", Open: []int{97, 58}, Bytes: []int{59}, Rep: 4000},
	"c02_gomap_define_no_value":     {Fam: "defp", Route: "defineProperty", Target: "goMapSIKey", Desc: &Desc{W: "true", E: "true", C: "true", V: "absent", G: "absent", S: "absent"}},
	"c02_gomap_pointer_value_put":   {Fam: "bw", Route: "put", Target: "mapSPNew", Val: "obj"},
	"c02_goslice_length_negative":   {Fam: "bw", Route: "put", Target: "sliceLength", Val: "neg1"},
	"c02_goslice_length_1e18":       {Fam: "bw", Route: "putLengthBig", Target: "sliceLength", Val: "true"},
	"c02_goslice_delete_named":      {Fam: "bw", Route: "delete", Target: "sliceNamed", Val: "zero"},
	"c02_gostruct_string_utf16":     {Fam: "bw", Route: "put", Target: "structString", Val: "loneSurr"},
	"c02_json_tojson_fresh":         {Fam: "rec", Form: "jsonToJSONFresh", D: 0, L: 50, Mode: "raw"},
	"c02_throw_self_throwing":       {Fam: "thr", Entry: "Run", Val: "selfThrower"},
	"c02_copy_arguments_param":      {Fam: "copy", Setup: "argumentsParam"},
	"c02_copy_delete_eval":          {Fam: "copy", Setup: "deleteEval"},
}

func init() {
	for name, cs := range goWitnessCases {
		cs := cs
		core.GoWitnesses[name] = func() (string, error) {
			w := &Worker{}
			defer w.Close()
			o, err := w.Do(&cs)
			if err != nil {
				return "", err
			}
			s := o.Kind
			if s == "crash" || s == "wedged" || s == "killed" || s == "interrupted" {
				return "no-return", nil // the process died (fatal error) or the call never came back
			}
			if o.Class != "" {
				s += " " + o.Class
			}
			return s, nil
		}
	}
}
