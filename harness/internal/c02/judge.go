package c02

import (
	"bytes"
	"encoding/json"
	"fmt"
	"math/rand"
	"sync"
	"time"

	"verif/harness/internal/c01"
	"verif/harness/internal/core"
	"verif/harness/internal/tlc"
)

// The judge direction: harness-generated source texts (mutations of the
// programs of the C01 generator) are submitted to the program APIs; the
// replies are recorded and judged by spec/C02Judge.tla.

var junk = []string{"\x00", "\xff", "\xc0\x80", "\xe2\x80\xa8", "`", "#", "@", "\\", "\\u", "\"", "'", "/*", "//", "/", "(", "[", "{", ")", "]", "}",
	"function", "=>", "...", "0x", "1e", ".", "..", "++", "--", "?", ":", "=", "==", "===", "\n", "\r", "var ", "return ", "break ", "continue ", "new ", "delete ", "typeof ",
	"in ", "instanceof ", "try{", "}catch(e){", "}finally{", "switch(", "case ", "default:", "with(", "get ", "set ", "${", "<!--", "-->", "\ufeff", "\U0001F600", "\xed\xa0\x80"}

func mutate(r *rand.Rand, src string) string {
	b := []byte(src)
	n := 1 + r.Intn(3)
	for k := 0; k < n && len(b) > 0; k++ {
		switch r.Intn(7) {
		case 0: // truncate
			b = b[:r.Intn(len(b))]
		case 1: // flip a byte
			i := r.Intn(len(b))
			b[i] ^= byte(1 << uint(r.Intn(8)))
		case 2: // delete a span
			i := r.Intn(len(b))
			j := i + r.Intn(8)
			if j > len(b) {
				j = len(b)
			}
			b = append(b[:i:i], b[j:]...)
		case 3: // duplicate a span
			i := r.Intn(len(b))
			j := i + r.Intn(16)
			if j > len(b) {
				j = len(b)
			}
			b = append(b[:j:j], append(append([]byte{}, b[i:j]...), b[j:]...)...)
		case 4: // insert junk
			i := r.Intn(len(b) + 1)
			b = append(b[:i:i], append([]byte(junk[r.Intn(len(junk))]), b[i:]...)...)
		case 5: // replace a byte by a random one
			b[r.Intn(len(b))] = byte(r.Intn(256))
		case 6: // swap two spans
			i, j := r.Intn(len(b)), r.Intn(len(b))
			b[i], b[j] = b[j], b[i]
		}
	}
	return string(b)
}

type judgeEvent struct {
	I     int    `json:"i"`
	API   string `json:"api"`
	Kind  string `json:"kind"`
	Class string `json:"class"`
	Post  int    `json:"post"`
	After string `json:"after"`
}

var textAPIs = []string{"Run", "Compile", "evalfn", "Function", "Eval", "CompileRun"}

// JudgeTexts runs n mutated programs and lets TLC judge the replies.
func JudgeTexts(c *core.Ctx, n int) (map[string]any, error) {
	r := rand.New(rand.NewSource(c.Seed*7919 + 13))
	g := c01.NewGen(c.Seed)
	var lines []Line
	for i := 0; i < n; i++ {
		src := c01.RenderProgram(g.Program())
		if i%5 != 0 {
			src = mutate(r, src)
		}
		lines = append(lines, Line{C: Case{Fam: "text", API: textAPIs[r.Intn(len(textAPIs))], Text: src}})
	}
	pool := NewPool(min(c.Workers, 16))
	events := make([]judgeEvent, len(lines))
	obs := make([]Obs, len(lines))
	idx := map[*Line]int{}
	for i := range lines {
		idx[&lines[i]] = i
	}
	var mu sync.Mutex
	kinds := map[string]int{}
	pool.SubmitBatch(lines, func(l *Line, o Obs) {
		mu.Lock()
		i := idx[l]
		obs[i] = o
		events[i] = judgeEvent{I: i + 1, API: l.C.API, Kind: o.Kind, Class: o.Class, Post: len(o.Post), After: o.After}
		kinds[o.Kind+" "+o.Class]++
		mu.Unlock()
	})
	if err := pool.Wait(); err != nil {
		return nil, err
	}
	var buf bytes.Buffer
	enc := json.NewEncoder(&buf)
	for _, e := range events {
		enc.Encode(e)
	}
	// binding self-test: a seeded event that the judge must reject
	seeded := len(events) + 1
	enc.Encode(judgeEvent{I: seeded, API: "Run", Kind: "gopanic", Class: "runtime.errorString"})
	seededRejected := false
	var bad []int
	cfg := fmt.Sprintf("CONSTANTS\n OpenDev = %s\n BlockSize = 200\nINIT Init\nNEXT Next\nINVARIANT Judge\nCHECK_DEADLOCK FALSE\n", core.TLASet(c.Findings.OpenIDs()))
	res, err := tlc.Run(tlc.Opts{SpecDir: c.SpecDir, Module: "C02Judge", Cfg: cfg, Workers: c.Workers, Files: map[string][]byte{"trace.ndjson": buf.Bytes()}, Timeout: 20 * time.Minute},
		func(p []byte) {
			var m struct {
				Bad []int `json:"bad"`
			}
			if json.Unmarshal(p, &m) == nil {
				bad = append(bad, m.Bad...)
			}
		})
	if err != nil {
		return nil, err
	}
	rejected := 0
	for _, i := range bad {
		if i == seeded {
			seededRejected = true
			continue
		}
		l := &lines[i-1]
		o := obs[i-1]
		// reproduce on a fresh worker before reporting
		rc := l.C
		rc.Patient = true
		w := &Worker{}
		o2, e2 := w.Do(&rc)
		w.Close()
		if e2 != nil || o2.Kind != o.Kind {
			c.Note("judge: reply not reproduced (first %s, then %s): %s", o.Kind, o2.Kind, Render(&l.C))
			continue
		}
		rejected++
		ob, _ := json.Marshal(o)
		c.Violate(fmt.Sprintf("%s  =>  rejected by C02Judge ; reply %s", Render(&l.C), trunc(string(ob), 400)),
			map[string]any{"case": l.C, "reply": o})
	}
	if !seededRejected {
		return nil, fmt.Errorf("C02Judge accepted the seeded gopanic event: the judge is not binding")
	}
	return map[string]any{"texts": len(lines), "seeded_gopanic_event_rejected": seededRejected, "replies": kinds, "rejected_by_judge": rejected, "judge_states": res.Distinct, "judge_wall_s": res.Wall}, nil
}
