package c02

import (
	"bufio"
	"encoding/json"
	"fmt"
	"io"
	"os"
	"os/exec"
	"strconv"
	"strings"
	"sync"
	"time"

	"github.com/robertkrimen/otto"
)

// Every call runs in a WORKER SUBPROCESS (this same binary re-executed with
// C02_WORKER=1): a Go fatal error (stack exhaustion, out of memory) cannot be
// recovered in-process, and a native loop cannot be interrupted; both must be
// observable as replies ("crash", "wedged") without taking the check down.
//
// Protocol: one JSON case per line on stdin, one JSON reply per line on fd 3
// (stdout is discarded: console.log writes there).

const (
	softMs = 1500 // the watchdog arms Otto.Interrupt (a script still running is "interrupted", which ES5 allows)
	hardMs = 4000 // no reply after the interrupt: the call is wedged in native code
	memMB  = 3000 // resident set guard
)

func init() {
	if os.Getenv("C02_WORKER") == "1" {
		workerMain()
		os.Exit(0)
	}
}

func hardFor(c *Case) time.Duration {
	if c.Patient {
		return 60000
	}
	return hardMs - softMs
}

// softFor: tiny token-sequence programs that still run after 400 ms are loops
func softFor(c *Case) time.Duration {
	if c.Patient {
		if c.Fam == "src" && c.Rep > 0 {
			return 60000 // deep shapes are polynomial work: slow on a loaded machine, not divergent
		}
		return 10000
	}
	if (c.Fam == "src" && c.Rep == 0) || c.Fam == "text" {
		return 400
	}
	if c.Fam == "src" && c.Rep > 0 {
		return 8000
	}
	if c.Fam == "rec" && c.D > 1000 {
		return 8000
	}
	return softMs
}

func rssMB() int {
	b, err := os.ReadFile("/proc/self/statm")
	if err != nil {
		return 0
	}
	f := strings.Fields(string(b))
	if len(f) < 2 {
		return 0
	}
	n, _ := strconv.Atoi(f[1])
	return n * os.Getpagesize() / (1 << 20)
}

func workerMain() {
	out := os.NewFile(3, "replies")
	w := bufio.NewWriter(out)
	reply := func(o Obs) {
		b, _ := json.Marshal(o)
		w.Write(b)
		w.WriteByte('\n')
		w.Flush()
	}
	var mu sync.Mutex
	busy := false
	go func() {
		for {
			time.Sleep(50 * time.Millisecond)
			if rssMB() > memMB {
				mu.Lock()
				if busy {
					reply(Obs{Kind: "killed", Class: "memory", Msg: fmt.Sprintf("resident set above %d MB", memMB)})
				}
				os.Exit(4)
			}
		}
	}()
	rd := bufio.NewReaderSize(os.Stdin, 1<<20)
	for {
		line, err := rd.ReadBytes('\n')
		if len(line) > 1 {
			var c Case
			if e := json.Unmarshal(line, &c); e != nil {
				reply(Obs{Kind: "harness", Msg: "bad case: " + e.Error()})
			} else {
				mu.Lock()
				busy = true
				mu.Unlock()
				var vmRef *otto.Otto
				var vmMu sync.Mutex
				done := make(chan Obs, 1)
				go func() {
					done <- Exec(&c, func(vm *otto.Otto) { vmMu.Lock(); vmRef = vm; vmMu.Unlock() })
				}()
				var o Obs
				select {
				case o = <-done:
				case <-time.After(softFor(&c) * time.Millisecond):
					vmMu.Lock()
					vm := vmRef
					vmMu.Unlock()
					if vm != nil && vm.Interrupt != nil {
						select {
						case vm.Interrupt <- func() { panic(watchdogHalt{}) }:
						default:
						}
					}
					select {
					case o = <-done:
					case <-time.After(hardFor(&c) * time.Millisecond):
						mu.Lock()
						reply(Obs{Kind: "wedged", Msg: fmt.Sprintf("no reply %d ms after the interrupt was armed", hardMs-softMs)})
						os.Exit(3)
					}
				}
				mu.Lock()
				busy = false
				reply(o)
				mu.Unlock()
			}
		}
		if err != nil {
			return
		}
	}
}

// Worker is the parent's handle of one subprocess.
type Worker struct {
	cmd    *exec.Cmd
	in     io.WriteCloser
	out    *bufio.Reader
	outF   *os.File
	errBuf *tailBuf
	Starts int
}

type tailBuf struct {
	mu sync.Mutex
	b  []byte
}

func (t *tailBuf) Write(p []byte) (int, error) {
	t.mu.Lock()
	if len(t.b) < 4096 {
		t.b = append(t.b, p...)
		if len(t.b) > 4096 {
			t.b = t.b[:4096]
		}
	}
	t.mu.Unlock()
	return len(p), nil
}

func (t *tailBuf) String() string { t.mu.Lock(); defer t.mu.Unlock(); return string(t.b) }

func (w *Worker) start() error {
	exe, err := os.Executable()
	if err != nil {
		return err
	}
	pr, pw, err := os.Pipe()
	if err != nil {
		return err
	}
	cmd := exec.Command(exe)
	cmd.Env = append(os.Environ(), "C02_WORKER=1", "GOMAXPROCS=2", "GOTRACEBACK=single")
	cmd.ExtraFiles = []*os.File{pw}
	cmd.Stdout = nil
	w.errBuf = &tailBuf{}
	cmd.Stderr = w.errBuf
	in, err := cmd.StdinPipe()
	if err != nil {
		return err
	}
	if err := cmd.Start(); err != nil {
		return err
	}
	pw.Close()
	w.cmd, w.in, w.out, w.outF = cmd, in, bufio.NewReaderSize(pr, 1<<20), pr
	w.Starts++
	return nil
}

func (w *Worker) stop() {
	if w.cmd == nil {
		return
	}
	w.cmd.Process.Kill()
	w.in.Close()
	w.cmd.Wait()
	w.outF.Close()
	w.cmd = nil
}

// Close ends the subprocess.
func (w *Worker) Close() { w.stop() }

// Do performs one case in the subprocess and returns its reply.
func (w *Worker) Do(c *Case) (Obs, error) {
	r, err := w.DoBatch([]*Case{c})
	if err != nil {
		return Obs{}, err
	}
	return r[0], nil
}

// DoBatch performs the cases in order (pipelined: all are written, then the
// replies are read) and returns their replies.  A reply of kind "crash" means
// the subprocess died (Go fatal error); "wedged" that the call neither
// returned nor reacted to the interrupt; "killed" that the resource guard
// fired.  After such a reply the rest of the batch runs on a new subprocess.
func (w *Worker) DoBatch(cs []*Case) ([]Obs, error) {
	out := make([]Obs, 0, len(cs))
	for len(out) < len(cs) {
		rest := cs[len(out):]
		if w.cmd == nil {
			if err := w.start(); err != nil {
				return nil, err
			}
		}
		var buf []byte
		for _, c := range rest {
			b, _ := json.Marshal(c)
			buf = append(buf, b...)
			buf = append(buf, '\n')
		}
		werr := make(chan error, 1)
		go func(in io.Writer) { _, e := in.Write(buf); werr <- e }(w.in)
		failed := false
		for range rest {
			o, alive, err := w.readReply()
			if err != nil {
				w.stop()
				return nil, err
			}
			out = append(out, o)
			if !alive {
				failed = true
				break
			}
		}
		if failed {
			w.stop()
			continue
		}
		if e := <-werr; e != nil {
			w.stop()
			return nil, fmt.Errorf("worker pipe: %v", e)
		}
	}
	return out, nil
}

type replyLine struct {
	line []byte
	err  error
}

// readReply reads one reply; alive = false when the subprocess is gone or must be replaced.
func (w *Worker) readReply() (Obs, bool, error) {
	ch := make(chan replyLine, 1)
	rd := w.out
	go func() { l, e := rd.ReadBytes('\n'); ch <- replyLine{l, e} }()
	select {
	case r := <-ch:
		if r.err != nil {
			// the subprocess died without a reply
			w.in.Close()
			w.cmd.Wait()
			msg := w.errBuf.String()
			code := w.cmd.ProcessState.ExitCode()
			w.outF.Close()
			w.cmd = nil
			return Obs{Kind: "crash", Class: firstLine(msg), Msg: fmt.Sprintf("worker exit %d: %s", code, trunc(msg, 600))}, false, nil
		}
		var o Obs
		if err := json.Unmarshal(r.line, &o); err != nil {
			return Obs{}, false, fmt.Errorf("worker reply: %v", err)
		}
		if o.Kind == "wedged" || o.Kind == "killed" {
			return o, false, nil
		}
		return o, true, nil
	case <-time.After((hardMs + 130000) * time.Millisecond):
		return Obs{Kind: "wedged", Msg: "worker silent; killed by the parent"}, false, nil
	}
}

func firstLine(s string) string {
	for _, l := range strings.Split(s, "\n") {
		l = strings.TrimSpace(l)
		if l != "" {
			return trunc(l, 200)
		}
	}
	return ""
}
