package c02

import (
	"sync"
)

// Pool runs cases on n worker subprocesses.
type Pool struct {
	n        int
	jobs     chan poolJob
	wg       sync.WaitGroup
	mu       sync.Mutex
	Restarts int
	err      error
}

type poolJob struct {
	lines []Line
	done  func(*Line, Obs)
}

func NewPool(n int) *Pool {
	p := &Pool{n: n, jobs: make(chan poolJob, 256)}
	for i := 0; i < n; i++ {
		p.wg.Add(1)
		go func() {
			defer p.wg.Done()
			w := &Worker{}
			defer func() {
				p.mu.Lock()
				if w.Starts > 1 {
					p.Restarts += w.Starts - 1
				}
				p.mu.Unlock()
				w.Close()
			}()
			for j := range p.jobs {
				cs := make([]*Case, len(j.lines))
				for i := range j.lines {
					cs[i] = &j.lines[i].C
				}
				obs, err := w.DoBatch(cs)
				if err != nil {
					p.mu.Lock()
					if p.err == nil {
						p.err = err
					}
					p.mu.Unlock()
					obs = make([]Obs, len(cs))
					for i := range obs {
						obs[i] = Obs{Kind: "harness", Msg: err.Error()}
					}
				}
				for i := range j.lines {
					j.done(&j.lines[i], obs[i])
				}
			}
		}()
	}
	return p
}

// SubmitBatch queues cases (in chunks of at most 48); done is called from a pool goroutine.
func (p *Pool) SubmitBatch(lines []Line, done func(*Line, Obs)) {
	for len(lines) > 0 {
		n := len(lines)
		if n > 48 {
			n = 48
		}
		p.jobs <- poolJob{lines[:n], done}
		lines = lines[n:]
	}
}

// Wait closes the queue and waits for all replies.
func (p *Pool) Wait() error {
	close(p.jobs)
	p.wg.Wait()
	return p.err
}
