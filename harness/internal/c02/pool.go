package c02

import (
	"sync"
)

// Pool runs cases on n worker subprocesses.
type Pool struct {
	n    int
	jobs chan poolJob
	wg   sync.WaitGroup
	mu   sync.Mutex
	Restarts int
	err  error
}

type poolJob struct {
	c    *Case
	done func(*Case, Obs)
}

func NewPool(n int) *Pool {
	p := &Pool{n: n, jobs: make(chan poolJob, 4096)}
	for i := 0; i < n; i++ {
		p.wg.Add(1)
		go func() {
			defer p.wg.Done()
			w := &Worker{}
			defer func() {
				p.mu.Lock()
				if w.Starts > 1 {
					p.Restarts += w.Starts - 1
				}
				p.mu.Unlock()
				w.Close()
			}()
			for j := range p.jobs {
				o, err := w.Do(j.c)
				if err != nil {
					p.mu.Lock()
					if p.err == nil {
						p.err = err
					}
					p.mu.Unlock()
					o = Obs{Kind: "harness", Msg: err.Error()}
				}
				j.done(j.c, o)
			}
		}()
	}
	return p
}

// Submit queues a case; done is called from a pool goroutine.
func (p *Pool) Submit(c *Case, done func(*Case, Obs)) { p.jobs <- poolJob{c, done} }

// Wait closes the queue and waits for all replies.
func (p *Pool) Wait() error {
	close(p.jobs)
	p.wg.Wait()
	return p.err
}
