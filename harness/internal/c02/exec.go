package c02

import (
	"errors"
	"fmt"
	"reflect"
	"regexp"
	"strings"
	"time"

	"github.com/robertkrimen/otto"
)

// Case is one call of the public API, as enumerated by spec/C02.tla.  The
// harness only RENDERS it (kind names -> JavaScript expressions / Go values)
// and PROJECTS the reply; what reply is acceptable is in the line's `exp`.
type Case struct {
	Fam string `json:"fam"`
	// fam "fn": built-in function x receiver kind x argument kinds through an entry route
	Route string   `json:"route,omitempty"`
	Fn    string   `json:"fn,omitempty"`
	Recv  string   `json:"recv,omitempty"`
	Args  []string `json:"args,omitempty"`
	// fam "src": source text (bytes) through Run / Eval / Compile;
	// Rep > 0: the bytes of Open repeated Rep times, then Bytes, then Close repeated Rep times
	API   string `json:"api,omitempty"`
	Bytes []int  `json:"bytes,omitempty"`
	Open  []int  `json:"open,omitempty"`
	Close []int  `json:"close,omitempty"`
	Rep   int    `json:"rep,omitempty"`
	// fam "rec": recursion form, depth d, configured limit L, observation mode
	Form   string `json:"form,omitempty"`
	D      int    `json:"d,omitempty"`
	L      int    `json:"l,omitempty"`
	Mode   string `json:"mode,omitempty"`   // "raw" | "catch"
	Copies int    `json:"copies,omitempty"` // the recursion runs on the n-th Copy() made after SetStackDepthLimit
	// fam "acc": accessor of Value / Object applied to a value of a kind
	Acc  string `json:"acc,omitempty"`
	Kind string `json:"kind,omitempty"`
	// fam "irq": host interrupt function; Arm = "panic" | "return" | "none"
	Arm string `json:"arm,omitempty"`
	// fam "text": a verbatim program (harness-generated mutations of real programs)
	Text string `json:"text,omitempty"`
	// fam "hist": steps of a history; fam "thr": entry point and thrown value; fam "copy": runtime state
	Ops   []string `json:"ops,omitempty"`
	Entry string   `json:"entry,omitempty"`
	Val   string   `json:"val,omitempty"`
	Setup string   `json:"setup,omitempty"`
	// fam "expo": shape and leaf kinds of a nested value; fam "defp": target and partial descriptor
	Shape  string `json:"shape,omitempty"`
	X      string `json:"x,omitempty"`
	Y      string `json:"y,omitempty"`
	Target string `json:"target,omitempty"`
	Desc   *Desc  `json:"desc,omitempty"`
	// Patient: reproduction run with a long watchdog (tells slow from wedged on a loaded machine)
	Patient bool `json:"patient,omitempty"`
}

// Obs is the projected reply of the API.
type Obs struct {
	Kind  string   `json:"kind"`            // value | error | gopanic | interrupted | wedged | killed
	Class string   `json:"class,omitempty"` // error: class name ("value": a non-Error value was thrown, "go": a plain Go error)
	Msg   string   `json:"msg,omitempty"`
	Val   string   `json:"val,omitempty"`  // fam rec/irq: the projected value
	Post  []string `json:"post,omitempty"` // accessors of the post phase that panicked, "<accessor>: <Go type>: <message>"
	After string   `json:"after,omitempty"`
	Ms    int64    `json:"ms,omitempty"`
}

var reAddr = regexp.MustCompile(`0x[0-9a-f]+`)

// Sentinel payloads of the panics the harness itself arms.
type watchdogHalt struct{}
type armedPayload struct{ tag string }

// kindJS: the JavaScript expression of every value kind (rendering only).
var kindJS = map[string]string{
	"undefined": "undefined", "null": "null", "true": "true",
	"zero": "0", "nzero": "-0", "nan": "NaN", "inf": "Infinity", "p53": "9007199254740992",
	"neg1": "-1", "frac": "1.5", "u32max": "4294967295",
	"empty": `""`, "abc": `"abc"`, "nonascii": `"é😀z"`,
	"obj": "({})", "arr0": "[]", "arr2": "[1,2]", "sparse": "[,1]",
	"fn": "(function(a,b){return a})", "bound": "(function(){return this}).bind(null,1)",
	"regexp": "/a(b)?/g", "date0": "new Date(0)", "dateNaN": "new Date(NaN)", "err": `new Error("m")`,
	"strObj": `new String("s")`, "numObj": "new Number(1)", "boolObj": "new Boolean(false)",
	"args":   `(function(){return arguments})(1,"a")`,
	"frozen": "Object.freeze({a:1})",
	"thrower": `({valueOf:function(){throw new Error("vo")}, toString:function(){throw new Error("ts")},` +
		` get x(){throw new Error("gx")}, get length(){throw new Error("gl")}, get 0(){throw new Error("g0")}})`,
	"objobj":    "({valueOf:function(){return {}}, toString:function(){return {}}})",
	"nullproto": "Object.create(null)",
	"cyclicArr": "(function(){var a=[1]; a[1]=a; return a})()",
	"cyclicObj": "(function(){var o={a:1}; o.self=o; return o})()",
	"loneSurr":  "String.fromCharCode(55296)",
	"deepArr":   "(function(){var a=[]; for (var i=0;i<3000;i++) a=[a]; return a})()",
	"hugeLen":   "({length:4294967295})", "negLen": "({length:-1})",
	"goStruct": "C02_struct", "goMapSI": "C02_mapsi", "goMapIS": "C02_mapis", "goSlice": "C02_slice", "goFunc": "C02_func",
}

// GoStruct is the bridged struct kind.
type GoStruct struct {
	A int
	B string
	C []int
	D map[string]int
	e int
}

func (g *GoStruct) Inc(n int) int { g.A += n; return g.A }

func newVM() *otto.Otto {
	vm := otto.New()
	vm.Set("C02_struct", &GoStruct{A: 1, B: "b", C: []int{1, 2}, D: map[string]int{"k": 1}})
	vm.Set("C02_mapsi", map[string]int{"a": 1, "b": 2})
	vm.Set("C02_mapis", map[int]string{1: "a", 2: "b"})
	vm.Set("C02_slice", []int{1, 2, 3})
	vm.Set("C02_func", func(a int) int { return a + 1 })
	vm.Set("C02_mapsp", map[string]*GoStruct{"k": {A: 1}})
	vm.Set("C02_arr", [2]int{1, 2})
	vm.Set("C02_nested", &GoStruct{C: []int{1, 2, 3}})
	return vm
}

func expr(kind string) (string, error) {
	s, ok := kindJS[kind]
	if !ok {
		return "", fmt.Errorf("unknown value kind %q", kind)
	}
	return s, nil
}

func exprs(kinds []string) (string, error) {
	var parts []string
	for _, k := range kinds {
		s, err := expr(k)
		if err != nil {
			return "", err
		}
		parts = append(parts, s)
	}
	return strings.Join(parts, ", "), nil
}

// errClass projects an error returned by the API to its class.
func errClass(err error) (string, string) {
	var oe *otto.Error
	if errors.As(err, &oe) {
		msg := oe.Error()
		name := msg
		if i := strings.Index(msg, ":"); i >= 0 {
			name = msg[:i]
		}
		switch name {
		case "Error", "EvalError", "RangeError", "ReferenceError", "SyntaxError", "TypeError", "URIError":
			return name, msg
		}
		return "other", msg
	}
	// parser error lists and plain Go errors
	t := reflect.TypeOf(err).String()
	if strings.Contains(t, "parser.ErrorList") || strings.Contains(t, "parser.Error") {
		return "SyntaxError", err.Error()
	}
	return "go:" + t, err.Error()
}

func trunc(s string, n int) string {
	if len(s) > n {
		return s[:n] + "..."
	}
	return s
}

// guard runs f and classifies a panic.
func guard(f func() error) (obs Obs) {
	defer func() {
		if r := recover(); r != nil {
			switch p := r.(type) {
			case watchdogHalt:
				obs = Obs{Kind: "interrupted"}
			case armedPayload:
				obs = Obs{Kind: "gopanic", Class: "armed", Msg: p.tag}
			default:
				obs = Obs{Kind: "gopanic", Class: fmt.Sprintf("%T", r), Msg: trunc(reAddr.ReplaceAllString(fmt.Sprint(r), "0x?"), 300)}
			}
		}
	}()
	if err := f(); err != nil {
		c, m := errClass(err)
		return Obs{Kind: "error", Class: c, Msg: trunc(m, 300)}
	}
	return Obs{Kind: "value"}
}

// bigResult: a result whose enumeration is a resource matter (not generated on purpose).
func bigResult(v otto.Value) bool {
	if !v.IsObject() {
		return false
	}
	o := v.Object()
	if o == nil {
		return false
	}
	big := false
	guard(func() error {
		l, err := o.Get("length")
		if err != nil {
			return nil
		}
		if l.IsNumber() {
			f, _ := l.ToFloat()
			big = f > 100000
		}
		return nil
	})
	return big
}

// accessors applies every Value / Object accessor to v; the name of the first
// one that panics is returned together with the panic.
var accNames = []string{"String", "ToString", "ToFloat", "ToInteger", "ToBoolean", "IsNaN", "IsFunction", "Class", "IsPrimitive",
	"Export", "MarshalJSON", "Object.Keys", "Object.KeysByParent", "Object.Get", "Object.Set", "Object.Class", "Object.Value",
	"Object.MarshalJSON", "Object.Call"}

func applyAcc(vm *otto.Otto, name string, v otto.Value) Obs {
	return guard(func() error {
		switch name {
		case "String":
			_ = v.String()
		case "ToString":
			_, err := v.ToString()
			return err
		case "ToFloat":
			_, err := v.ToFloat()
			return err
		case "ToInteger":
			_, err := v.ToInteger()
			return err
		case "ToBoolean":
			_, err := v.ToBoolean()
			return err
		case "IsNaN":
			_ = v.IsNaN()
		case "IsFunction":
			_ = v.IsFunction()
		case "Class":
			_ = v.Class()
		case "IsPrimitive":
			_ = v.IsPrimitive()
			_ = v.IsDefined()
			_ = v.IsNull()
			_ = v.IsBoolean()
			_ = v.IsNumber()
			_ = v.IsString()
			_ = v.IsObject()
			_ = v.IsUndefined()
		case "Export":
			_, err := v.Export()
			return err
		case "MarshalJSON":
			_, err := v.MarshalJSON()
			return err
		default:
			o := v.Object()
			if o == nil {
				return nil
			}
			switch name {
			case "Object.Keys":
				_ = o.Keys()
			case "Object.KeysByParent":
				_ = o.KeysByParent()
			case "Object.Get":
				var first error
				for i, k := range append(o.Keys(), "length", "x", "0", "constructor", "c02none") {
					if i > 12 {
						break
					}
					if _, err := o.Get(k); err != nil && first == nil {
						first = err
					}
				}
				return first
			case "Object.Set":
				e1 := o.Set("c02x", 1)
				e2 := o.Set("abc", "s")
				e3 := o.Set("0", 2.5)
				e4 := o.Set("length", 1)
				for _, e := range []error{e1, e2, e3, e4} {
					if e != nil {
						return e
					}
				}
			case "Object.Class":
				_ = o.Class()
			case "Object.Value":
				_ = o.Value()
			case "Object.MarshalJSON":
				_, err := o.MarshalJSON()
				return err
			case "Object.Call":
				_, err := o.Call("toString")
				return err
			default:
				return fmt.Errorf("unknown accessor %q", name)
			}
		}
		return nil
	})
}

func postPhase(vm *otto.Otto, v otto.Value) []string {
	if bigResult(v) {
		return nil
	}
	var out []string
	for _, a := range accNames {
		if a == "Object.Set" {
			continue // mutating; exercised by the acc family
		}
		if o := applyAcc(vm, a, v); o.Kind == "gopanic" {
			out = append(out, a+": "+o.Class+": "+o.Msg)
		}
	}
	return out
}

func bytesOf(c *Case) string {
	conv := func(xs []int) []byte {
		b := make([]byte, len(xs))
		for i, x := range xs {
			b[i] = byte(x)
		}
		return b
	}
	var sb strings.Builder
	o, m, cl := conv(c.Open), conv(c.Bytes), conv(c.Close)
	for i := 0; i < c.Rep; i++ {
		sb.Write(o)
	}
	sb.Write(m)
	for i := 0; i < c.Rep; i++ {
		sb.Write(cl)
	}
	return sb.String()
}

// Render gives a human readable form of the case (the replay text).
func Render(c *Case) string {
	switch c.Fam {
	case "fn":
		r, _ := expr(c.Recv)
		a, _ := exprs(c.Args)
		return fmt.Sprintf("[%s] %s  this=%s  args=(%s)", c.Route, c.Fn, r, a)
	case "src":
		if c.Rep > 0 {
			cc := *c
			cc.Rep = 1
			cc.Bytes = nil
			cc.Close = nil
			o := bytesOf(&cc)
			cc.Open, cc.Close = nil, c.Close
			cl := bytesOf(&cc)
			cc.Close, cc.Rep, cc.Bytes = nil, 0, c.Bytes
			return fmt.Sprintf("[%s] %q x %d + %q + %q x %d", c.API, o, c.Rep, bytesOf(&cc), cl, c.Rep)
		}
		s := bytesOf(c)
		return fmt.Sprintf("[%s] %q", c.API, trunc(s, 200))
	case "rec":
		return fmt.Sprintf("[rec %s] form=%s d=%d L=%d copies=%d :: %s", c.Mode, c.Form, c.D, c.L, c.Copies, trunc(recProgram(c.Form, c.D), 300))
	case "acc":
		k, _ := expr(c.Kind)
		return fmt.Sprintf("[acc] %s on %s", c.Acc, k)
	case "irq":
		return fmt.Sprintf("[irq] arm=%s", c.Arm)
	case "hist":
		var steps []string
		for _, op := range c.Ops {
			if js, ok := histJS[op]; ok {
				steps = append(steps, js)
			} else {
				steps = append(steps, "<Go: "+op+" on a>")
			}
		}
		return "[hist] var a = [1,2,3,4]; " + strings.Join(steps, "; ")
	case "thr":
		return fmt.Sprintf("[throw via %s] throw %s", c.Entry, valExpr(c.Val))
	case "expo":
		x, _ := nestExpr(c.Shape, c.X, c.Y)
		return fmt.Sprintf("[expo] %s on %s", c.Acc, x)
	case "bw":
		return "[bw] " + bwText(c)
	case "defp":
		s, d, _, _ := defScript(c)
		return fmt.Sprintf("[defp] %s; %s; <probes>", s, d)
	case "copy":
		return fmt.Sprintf("[copy] %s ; vm.Copy() ; copy.Run(\"1+1\")", copySetups[c.Setup])
	case "text":
		return fmt.Sprintf("[%s] %q", c.API, trunc(c.Text, 300))
	}
	return fmt.Sprintf("%+v", *c)
}

// fnScript: the script text of the script-level routes.
func fnScript(c *Case) (string, error) {
	r, err := expr(c.Recv)
	if err != nil {
		return "", err
	}
	a, err := exprs(c.Args)
	if err != nil {
		return "", err
	}
	ra := r
	if a != "" {
		ra = r + ", " + a
	}
	switch c.Route {
	case "call", "evalcall":
		return fmt.Sprintf("(%s).call(%s)", c.Fn, ra), nil
	case "apply":
		return fmt.Sprintf("(%s).apply(%s, [%s])", c.Fn, r, a), nil
	case "bind":
		return fmt.Sprintf("(%s).bind(%s)()", c.Fn, ra), nil
	case "direct":
		return fmt.Sprintf("(0, %s)(%s)", c.Fn, a), nil
	case "new":
		return fmt.Sprintf("new (%s)(%s)", c.Fn, a), nil
	case "newbind":
		return fmt.Sprintf("new ((%s).bind(%s))()", c.Fn, ra), nil
	case "method":
		return fmt.Sprintf("var C02_r = %s; C02_r.c02m = %s; C02_r.c02m(%s)", r, c.Fn, a), nil
	}
	return "", fmt.Errorf("no script for route %q", c.Route)
}

// Exec performs the case on a fresh runtime.  interrupt is armed by the
// worker's watchdog through vm.Interrupt (see worker.go).
func Exec(c *Case, onVM func(*otto.Otto)) Obs {
	t0 := time.Now()
	o := exec1(c, onVM)
	o.Ms = time.Since(t0).Milliseconds()
	return o
}

func exec1(c *Case, onVM func(*otto.Otto)) Obs {
	vm := newVM()
	vm.Interrupt = make(chan func(), 1)
	if onVM != nil {
		onVM(vm)
	}
	var res otto.Value
	evalKinds := func(kinds []string) ([]interface{}, error) {
		var out []interface{}
		for _, k := range kinds {
			e, err := expr(k)
			if err != nil {
				return nil, err
			}
			v, err := vm.Run("(" + e + ")")
			if err != nil {
				return nil, fmt.Errorf("harness: kind %s does not evaluate: %v", k, err)
			}
			out = append(out, v)
		}
		return out, nil
	}
	var harnessErr error
	var obs Obs
	switch c.Fam {
	case "fn":
		switch c.Route {
		case "call", "apply", "bind", "direct", "new", "newbind", "method":
			src, err := fnScript(c)
			if err != nil {
				return Obs{Kind: "harness", Msg: err.Error()}
			}
			obs = guard(func() error { v, err := vm.Run(src); res = v; return err })
		case "evalcall":
			src, err := fnScript(c)
			if err != nil {
				return Obs{Kind: "harness", Msg: err.Error()}
			}
			obs = guard(func() error { v, err := vm.Eval(src); res = v; return err })
		case "ottocall", "ottocall0", "valuecall", "objectcall":
			var this otto.Value
			var args []interface{}
			var fnv otto.Value
			pre := guard(func() error {
				rv, err := evalKinds([]string{c.Recv})
				if err != nil {
					harnessErr = err
					return nil
				}
				this = rv[0].(otto.Value)
				if args, err = evalKinds(c.Args); err != nil {
					harnessErr = err
					return nil
				}
				if fnv, err = vm.Run("(" + c.Fn + ")"); err != nil {
					harnessErr = err
				}
				return nil
			})
			if pre.Kind != "value" {
				// the panic happened while the harness built the operands: still a reply of Run
				pre.Msg = "while evaluating operands: " + pre.Msg
				return pre
			}
			if harnessErr != nil {
				return Obs{Kind: "harness", Msg: harnessErr.Error()}
			}
			switch c.Route {
			case "ottocall":
				obs = guard(func() error { v, err := vm.Call(c.Fn, this, args...); res = v; return err })
			case "ottocall0":
				obs = guard(func() error { v, err := vm.Call(c.Fn, nil, args...); res = v; return err })
			case "valuecall":
				obs = guard(func() error { v, err := fnv.Call(this, args...); res = v; return err })
			case "objectcall":
				ob := this.Object()
				if ob == nil {
					return Obs{Kind: "harness", Msg: "objectcall on a non-object receiver"}
				}
				obs = guard(func() error {
					if err := ob.Set("c02m", fnv); err != nil {
						return err
					}
					v, err := ob.Call("c02m", args...)
					res = v
					return err
				})
			}
		default:
			return Obs{Kind: "harness", Msg: "unknown route " + c.Route}
		}
		if obs.Kind == "value" {
			obs.Post = postPhase(vm, res)
		}
	case "src", "text":
		if strings.HasPrefix(c.API, "selftest-") {
			return selfTestCase(vm, c.API)
		}
		src := c.Text
		if c.Fam == "src" {
			src = bytesOf(c)
		}
		switch c.API {
		case "Run":
			obs = guard(func() error { v, err := vm.Run(src); res = v; return err })
		case "Eval":
			obs = guard(func() error { v, err := vm.Eval(src); res = v; return err })
		case "Compile":
			obs = guard(func() error { _, err := vm.Compile("c02.js", src); return err })
		case "CompileRun":
			obs = guard(func() error {
				s, err := vm.Compile("", src)
				if err != nil {
					return err
				}
				v, err := vm.Run(s)
				res = v
				return err
			})
		case "evalfn":
			// the text as the argument of the built-in eval and of the Function constructor
			vm.Set("C02_src", src)
			obs = guard(func() error { v, err := vm.Run("eval(C02_src)"); res = v; return err })
		case "Function":
			vm.Set("C02_src", src)
			obs = guard(func() error { v, err := vm.Run("new Function(C02_src)"); res = v; return err })
		case "RegExp":
			vm.Set("C02_src", src)
			obs = guard(func() error { v, err := vm.Run("new RegExp(C02_src).exec(C02_src)"); res = v; return err })
		case "JSON":
			vm.Set("C02_src", src)
			obs = guard(func() error { v, err := vm.Run("JSON.parse(C02_src)"); res = v; return err })
		case "Call":
			obs = guard(func() error { v, err := vm.Call(src, nil); res = v; return err })
		case "Object":
			obs = guard(func() error { _, err := vm.Object(src); return err })
		case "Get":
			obs = guard(func() error { v, err := vm.Get(src); res = v; return err })
		case "Set":
			obs = guard(func() error { return vm.Set(src, 1) })
		default:
			return Obs{Kind: "harness", Msg: "unknown api " + c.API}
		}
		if obs.Kind == "value" && c.API != "Compile" && c.API != "Set" && c.API != "Object" {
			obs.Post = postPhase(vm, res)
		}
	case "acc":
		var v otto.Value
		pre := guard(func() error {
			rv, err := evalKinds([]string{c.Kind})
			if err != nil {
				harnessErr = err
				return nil
			}
			v = rv[0].(otto.Value)
			return nil
		})
		if pre.Kind != "value" {
			pre.Msg = "while evaluating the operand: " + pre.Msg
			return pre
		}
		if harnessErr != nil {
			return Obs{Kind: "harness", Msg: harnessErr.Error()}
		}
		vm.SetStackDepthLimit(c.L)
		obs = applyAcc(vm, c.Acc, v)
		vm.SetStackDepthLimit(0)
	case "bw":
		obs = execBw(vm, c)
	case "expo":
		obs = execExpo(vm, c)
	case "defp":
		obs = execDef(vm, c)
	case "hist":
		obs = execHist(vm, c)
	case "thr":
		obs = execThrow(vm, c)
	case "copy":
		obs = execCopy(vm, c)
	case "rec":
		obs = execRec(vm, c)
	case "irq":
		obs = execIrq(vm, c)
	default:
		return Obs{Kind: "harness", Msg: "unknown family " + c.Fam}
	}
	// the runtime must remain usable after any reply (no wedge, no leaked context)
	if obs.Kind == "value" || obs.Kind == "error" {
		select { // an interrupt armed by the watchdog that the call did not need
		case <-vm.Interrupt:
		default:
		}
		var after Obs
		for try := 0; try < 3; try++ {
			after = guard(func() error {
				v, err := vm.Run("1+1")
				if err != nil {
					return err
				}
				if s := v.String(); s != "2" {
					return fmt.Errorf("1+1 gives %s afterwards", s)
				}
				if d := otto.VerifScopeDepth(vm); d != 0 {
					return fmt.Errorf("%d execution contexts left on the stack at rest", d)
				}
				return nil
			})
			if after.Kind != "interrupted" { // the watchdog's interrupt may arrive late; it is not the runtime's doing
				break
			}
		}
		if after.Kind != "value" {
			obs.After = after.Kind + ": " + after.Class + ": " + after.Msg
		}
	}
	return obs
}

// selfTestCase provokes, on purpose, what the executor must be able to observe.
func selfTestCase(vm *otto.Otto, api string) Obs {
	switch api {
	case "selftest-panic":
		vm.Set("boom", func(call otto.FunctionCall) otto.Value { panic(fmt.Errorf("foreign Go error")) })
		return guard(func() error { _, err := vm.Run("boom()"); return err })
	case "selftest-wedge":
		vm.Set("spin", func(call otto.FunctionCall) otto.Value {
			for {
				time.Sleep(time.Second)
			}
		})
		return guard(func() error { _, err := vm.Run("spin()"); return err })
	case "selftest-fatal":
		var f func(int) int
		f = func(n int) int { return f(n+1) + 1 }
		return guard(func() error { f(0); return nil })
	}
	return Obs{Kind: "harness", Msg: "unknown self test"}
}
