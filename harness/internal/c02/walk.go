package c02

import (
	"sort"

	"github.com/robertkrimen/otto"
)

// walkJS enumerates every function reachable from the global object through
// own properties (data properties, getters and setters), breadth first, and
// returns the shortest path of each distinct function object.
const walkJS = `(function(){
  var seen = [], paths = [], queue = [[this, ""]];
  function known(o){ for (var i = 0; i < seen.length; i++) if (seen[i] === o) return true; return false; }
  seen.push(this);
  while (queue.length) {
    var cur = queue.shift(), o = cur[0], p = cur[1];
    var names = Object.getOwnPropertyNames(o).sort();
    for (var i = 0; i < names.length; i++) {
      var n = names[i], d;
      if (p === "" && /^(C02_|WALK)/.test(n)) continue;
      try { d = Object.getOwnPropertyDescriptor(o, n); } catch (e) { continue; }
      if (!d) continue;
      var q = p === "" ? n : (/^[A-Za-z_$][A-Za-z0-9_$]*$/.test(n) ? p + "." + n : p + "[" + JSON.stringify(n) + "]");
      var vals = [];
      if ("value" in d) vals.push([d.value, q]);
      if (d.get) vals.push([d.get, "Object.getOwnPropertyDescriptor(" + (p === "" ? "this" : p) + "," + JSON.stringify(n) + ").get"]);
      if (d.set) vals.push([d.set, "Object.getOwnPropertyDescriptor(" + (p === "" ? "this" : p) + "," + JSON.stringify(n) + ").set"]);
      for (var j = 0; j < vals.length; j++) {
        var v = vals[j][0], vp = vals[j][1];
        if (v === null || (typeof v !== "object" && typeof v !== "function")) continue;
        if (known(v)) continue;
        seen.push(v);
        if (typeof v === "function") paths.push(vp);
        queue.push([v, vp]);
      }
    }
  }
  return paths.join("\n");
}).call(this)`

// Walk returns the paths of all functions reachable on a fresh runtime.
func Walk() ([]string, error) {
	vm := otto.New()
	v, err := vm.Run(walkJS)
	if err != nil {
		return nil, err
	}
	var out []string
	cur := ""
	for _, r := range v.String() {
		if r == '\n' {
			out = append(out, cur)
			cur = ""
		} else {
			cur += string(r)
		}
	}
	if cur != "" {
		out = append(out, cur)
	}
	sort.Strings(out)
	return out, nil
}
