package c02

import (
	"fmt"
	"strings"

	"github.com/robertkrimen/otto"
)

// Third-wave families: Go-side accessors on nested arrays ("expo") and
// [[DefineOwnProperty]] with partial descriptors on exotic objects ("defp").
// Rendering only.

var leafJS = map[string]string{
	"int": "1", "float": "1.5", "string": `"a"`, "bool": "true", "null": "null", "undefined": "undefined", "object": "({})", "emptyArr": "[]",
}

func nestExpr(shape, x, y string) (string, error) {
	a, ok1 := leafJS[x]
	b, ok2 := leafJS[y]
	if !ok1 || !ok2 {
		return "", fmt.Errorf("unknown leaf kind %q / %q", x, y)
	}
	f := func(format string, args ...any) (string, error) { return fmt.Sprintf(format, args...), nil }
	switch shape {
	case "flat":
		return f("[%s, %s]", a, b)
	case "d2":
		return f("[[%s], [%s]]", a, b)
	case "d3":
		return f("[[[%s]], [[%s]]]", a, b)
	case "d4":
		return f("[[[[%s]]], [[[%s]]]]", a, b)
	case "d3d2":
		return f("[[[%s]], [%s]]", a, b)
	case "d2pair":
		return f("[[%s, %s], [%s, %s]]", a, b, b, a)
	case "d2x3":
		return f("[[%s], [%s], [%s]]", a, b, a)
	case "d3x3":
		return f("[[[%s]], [[%s]], [[%s]]]", a, b, a)
	case "hole":
		return f("[[[%s]], , [[%s]]]", a, b)
	case "innerHole":
		return f("[[[, %s]], [[%s]]]", a, b)
	case "objOuter":
		return f("({a: [[%s]], b: [[%s]]})", a, b)
	case "objInner":
		return f("[[{a: [%s]}], [{a: [%s]}]]", a, b)
	case "objLeafArr":
		return f("[{a: [[%s]], b: [[%s]]}, {a: [[%s]]}]", a, b, b)
	}
	return "", fmt.Errorf("unknown shape %q", shape)
}

func execExpo(vm *otto.Otto, c *Case) Obs {
	e, err := nestExpr(c.Shape, c.X, c.Y)
	if err != nil {
		return Obs{Kind: "harness", Msg: err.Error()}
	}
	var v otto.Value
	if o := guard(func() error { x, err := vm.Run("(" + e + ")"); v = x; return err }); o.Kind != "value" {
		return Obs{Kind: "harness", Msg: "nested value does not evaluate: " + o.Msg}
	}
	switch c.Acc {
	case "GoFuncAny", "GoFuncSlice", "GoFuncNested":
		// a host function whose parameter conversion goes through export
		vm.Set("C02_any", func(x interface{}) int { return 1 })
		vm.Set("C02_sl", func(x []interface{}) int { return len(x) })
		vm.Set("C02_nested", func(x [][]interface{}) int { return len(x) })
		name := map[string]string{"GoFuncAny": "C02_any", "GoFuncSlice": "C02_sl", "GoFuncNested": "C02_nested"}[c.Acc]
		return guard(func() error { _, err := vm.Run(name + "(" + e + ")"); return err })
	}
	return applyAcc(vm, c.Acc, v)
}

// defTargets: setup (defines t) and the property name.
var defTargets = map[string][2]string{
	"argsMapped0":             {`var t = (function(a, b){ return arguments })(1, 2)`, "0"},
	"argsMapped1":             {`var t = (function(a, b){ return arguments })(1, 2)`, "1"},
	"argsUnmapped2":           {`var t = (function(a, b){ return arguments })(1, 2, 3)`, "2"},
	"argsLength":              {`var t = (function(a, b){ return arguments })(1, 2)`, "length"},
	"argsCallee":              {`var t = (function(a, b){ return arguments })(1, 2)`, "callee"},
	"argsDeleted0":            {`var t = (function(a, b){ delete arguments[0]; return arguments })(1, 2)`, "0"},
	"argsNoFormals0":          {`var t = (function(){ return arguments })(1, 2)`, "0"},
	"arrayIndex1":             {`var t = [1, 2, 3]`, "1"},
	"arrayLength":             {`var t = [1, 2, 3]`, "length"},
	"arrayNew9":               {`var t = [1, 2, 3]`, "9"},
	"strObjIndex0":            {`var t = new String("abc")`, "0"},
	"strObjLength":            {`var t = new String("abc")`, "length"},
	"strObjNew5":              {`var t = new String("abc")`, "5"},
	"fnLength":                {`var t = function(a, b){}`, "length"},
	"fnPrototype":             {`var t = function(a, b){}`, "prototype"},
	"fnName":                  {`var t = function nm(a, b){}`, "name"},
	"fnCaller":                {`var t = function(a, b){}`, "caller"},
	"boundLength":             {`var t = (function(a, b){}).bind(null, 1)`, "length"},
	"regexpLastIndex":         {`var t = /a/g`, "lastIndex"},
	"regexpSource":            {`var t = /a/g`, "source"},
	"errMessage":              {`var t = new Error("m")`, "message"},
	"errNew":                  {`var t = new TypeError("m")`, "x"},
	"dateNew":                 {`var t = new Date(0)`, "x"},
	"objExisting":             {`var t = {a: 1}`, "a"},
	"objNew":                  {`var t = {a: 1}`, "b"},
	"frozenExisting":          {`var t = Object.freeze({a: 1})`, "a"},
	"sealedExisting":          {`var t = Object.seal({a: 1})`, "a"},
	"nonExtNew":               {`var t = Object.preventExtensions({a: 1})`, "b"},
	"accessorExisting":        {`var t = {get a(){ return 1 }, set a(v){}}`, "a"},
	"nonConfigurableExisting": {`var t = {}; Object.defineProperty(t, "a", {value: 1, writable: true})`, "a"},
	"globalUndefined":         {`var t = this`, "undefined"},
	"mathPI":                  {`var t = Math`, "PI"},
	"goMapSIKey":              {`var t = C02_mapsi`, "a"},
	"goMapISKey":              {`var t = C02_mapis`, "1"},
	"goSliceIndex":            {`var t = C02_slice`, "0"},
	"goSliceLength":           {`var t = C02_slice`, "length"},
	"goStructField":           {`var t = C02_struct`, "A"},
	"goFuncLength":            {`var t = C02_func`, "length"},
}

// Desc is a partial property descriptor as enumerated by Totality!Descs.
type Desc struct {
	W string `json:"w"`
	E string `json:"e"`
	C string `json:"c"`
	V string `json:"v"`
	G string `json:"g"`
	S string `json:"s"`
}

func (d *Desc) js() string {
	var f []string
	tri := func(name, v string) {
		if v == "true" || v == "false" {
			f = append(f, name+": "+v)
		}
	}
	tri("writable", d.W)
	tri("enumerable", d.E)
	tri("configurable", d.C)
	if d.V == "present" {
		f = append(f, "value: 7")
	}
	switch d.G {
	case "fn":
		f = append(f, "get: function(){ return 5 }")
	case "undef":
		f = append(f, "get: undefined")
	}
	if d.S == "fn" {
		f = append(f, "set: function(v){}")
	}
	return "{" + strings.Join(f, ", ") + "}"
}

func defScript(c *Case) (setup, define string, probes []string, err error) {
	t, ok := defTargets[c.Target]
	if !ok || c.Desc == nil {
		return "", "", nil, fmt.Errorf("unknown target %q", c.Target)
	}
	d := c.Desc.js()
	name := fmt.Sprintf("%q", t[1])
	switch c.Route {
	case "defineProperty":
		define = fmt.Sprintf("Object.defineProperty(t, %s, %s)", name, d)
	case "defineProperties":
		define = fmt.Sprintf("Object.defineProperties(t, {%s: %s})", name, d)
	case "twice":
		define = fmt.Sprintf("try { Object.defineProperty(t, %s, %s) } catch (e) {} Object.defineProperty(t, %s, %s)", name, d, name, d)
	case "afterData":
		define = fmt.Sprintf("try { Object.defineProperty(t, %s, {value: 1, writable: true, enumerable: true, configurable: true}) } catch (e) {} Object.defineProperty(t, %s, %s)", name, name, d)
	case "afterAccessor":
		define = fmt.Sprintf("try { Object.defineProperty(t, %s, {get: function(){ return 2 }, set: undefined, enumerable: true, configurable: true}) } catch (e) {} Object.defineProperty(t, %s, %s)", name, name, d)
	case "afterAccessorUndef":
		define = fmt.Sprintf("try { Object.defineProperty(t, %s, {get: undefined, configurable: true}) } catch (e) {} Object.defineProperty(t, %s, %s)", name, name, d)
	default:
		return "", "", nil, fmt.Errorf("unknown route %q", c.Route)
	}
	probes = []string{
		fmt.Sprintf("var C02_d = Object.getOwnPropertyDescriptor(t, %s); C02_d", name),
		"JSON.stringify(C02_d)", "Object.keys(C02_d || {}).join()", "String(C02_d)",
		fmt.Sprintf("t[%s]", name),
		fmt.Sprintf("t[%s] = 3", name),
		fmt.Sprintf("Object.keys(t).length + Object.getOwnPropertyNames(t).length"),
		fmt.Sprintf("delete t[%s]", name),
		fmt.Sprintf("t[%s]", name),
		"String(t)",
	}
	// every field of the descriptor read back is an ordinary value: use it as one
	for _, fld := range []string{"value", "get", "set"} {
		x := "(C02_d || {})." + fld
		probes = append(probes, "String("+x+")", "typeof "+x, x+" && "+x+".foo", x+" && Object.keys(Object("+x+")).length",
			"typeof "+x+" === 'function' ? "+x+".call(t, 1) : 0", x+" instanceof Object", "JSON.stringify(["+x+"])", x+" === undefined || "+x+" == null || "+x+".constructor")
	}
	return t[0], define, probes, nil
}

func execDef(vm *otto.Otto, c *Case) Obs {
	setup, define, probes, err := defScript(c)
	if err != nil {
		return Obs{Kind: "harness", Msg: err.Error()}
	}
	if o := guard(func() error { _, err := vm.Run(setup); return err }); o.Kind != "value" {
		return Obs{Kind: "harness", Msg: "target setup failed: " + o.Msg}
	}
	res := guard(func() error { _, err := vm.Run(define); return err })
	if res.Kind != "value" && res.Kind != "error" {
		return res
	}
	for i, p := range probes {
		o := guard(func() error { _, err := vm.Run(p); return err })
		if o.Kind != "value" && o.Kind != "error" {
			o.Msg = fmt.Sprintf("probe %d (%s) after the definition: %s", i+1, p, o.Msg)
			return o
		}
	}
	// the Go accessors on the descriptor read back and on its fields
	for _, ex := range []string{"C02_d", "(C02_d || {}).value", "(C02_d || {}).get", "(C02_d || {}).set"} {
		var dv otto.Value
		if o := guard(func() error { x, err := vm.Run(ex); dv = x; return err }); o.Kind != "value" {
			if o.Kind != "error" {
				o.Msg = "reading " + ex + ": " + o.Msg
				return o
			}
			continue
		}
		for _, a := range []string{"String", "Export", "MarshalJSON", "Class", "IsFunction", "Object.Keys", "Object.Call"} {
			if o := applyAcc(vm, a, dv); o.Kind != "value" && o.Kind != "error" {
				o.Msg = a + " on " + ex + " of the descriptor read back: " + o.Msg
				return o
			}
		}
	}
	// the Go accessors on the target as well
	var tv otto.Value
	if o := guard(func() error { x, err := vm.Get("t"); tv = x; return err }); o.Kind == "value" {
		for _, a := range []string{"Export", "Object.Keys", "Object.Get", "MarshalJSON"} {
			if o := applyAcc(vm, a, tv); o.Kind != "value" && o.Kind != "error" {
				o.Msg = a + " on the target after the definition: " + o.Msg
				return o
			}
		}
	}
	return res
}

// bwTargets: the bridged object and the property written.
var bwTargets = map[string][2]string{
	"structInt": {"C02_struct", "A"}, "structString": {"C02_struct", "B"}, "structSlice": {"C02_struct", "C"}, "structMap": {"C02_struct", "D"},
	"structUnknown": {"C02_struct", "zz"}, "structMethod": {"C02_struct", "Inc"},
	"mapSIKey": {"C02_mapsi", "a"}, "mapSINew": {"C02_mapsi", "zz"}, "mapISKey": {"C02_mapis", "1"}, "mapISBad": {"C02_mapis", "zz"},
	"mapSPKey": {"C02_mapsp", "k"}, "mapSPNew": {"C02_mapsp", "x"},
	"sliceIndex0": {"C02_slice", "0"}, "sliceIndex9": {"C02_slice", "9"}, "sliceLength": {"C02_slice", "length"}, "sliceNeg": {"C02_slice", "-1"},
	"arrayIndex0": {"C02_arr", "0"}, "arrayIndex9": {"C02_arr", "9"}, "arrayLength": {"C02_arr", "length"},
	"sliceNamed": {"C02_slice", "foo"}, "arrayNamed": {"C02_arr", "foo"}, "nestedSliceLength": {"C02_nested.C", "length"}, "funcProp": {"C02_func", "length"},
}

func bwText(c *Case) string {
	t, ok := bwTargets[c.Target]
	if !ok {
		return "unknown target " + c.Target
	}
	v := valExpr(c.Val)
	name := fmt.Sprintf("%q", t[1])
	switch c.Route {
	case "put":
		return fmt.Sprintf("%s[%s] = %s", t[0], name, v)
	case "defineValue":
		return fmt.Sprintf("Object.defineProperty(%s, %s, {value: %s, writable: true, enumerable: true, configurable: true})", t[0], name, v)
	case "delete":
		return fmt.Sprintf("%s[%s] = %s; delete %s[%s]", t[0], name, v, t[0], name)
	case "putLengthBig":
		// the value scaled up: lengths and indexes far beyond what can be allocated
		return fmt.Sprintf("%s[%s] = (%s) * 1e18", t[0], name, v)
	case "goSet":
		return fmt.Sprintf("<Go> Object(%s).Set(%s, %s)", t[0], name, v)
	}
	return "unknown route " + c.Route
}

func execBw(vm *otto.Otto, c *Case) Obs {
	t, ok := bwTargets[c.Target]
	if !ok {
		return Obs{Kind: "harness", Msg: "unknown target " + c.Target}
	}
	var res Obs
	if c.Route == "goSet" {
		var tv, vv otto.Value
		if o := guard(func() error {
			x, err := vm.Run(t[0])
			if err != nil {
				return err
			}
			tv = x
			vv, err = vm.Run(valExpr(c.Val))
			return err
		}); o.Kind != "value" {
			return Obs{Kind: "harness", Msg: "operands: " + o.Msg}
		}
		ob := tv.Object()
		if ob == nil {
			return Obs{Kind: "harness", Msg: "target is not an object"}
		}
		res = guard(func() error { return ob.Set(t[1], vv) })
	} else {
		src := bwText(c)
		res = guard(func() error { _, err := vm.Run(src); return err })
	}
	if res.Kind != "value" && res.Kind != "error" {
		return res
	}
	// the value must remain usable
	for _, p := range []string{t[0] + "[" + fmt.Sprintf("%q", t[1]) + "]", "String(" + t[0] + ")", "JSON.stringify(" + t[0] + ")", "Object.keys(" + t[0] + ").length"} {
		if o := guard(func() error { _, err := vm.Run(p); return err }); o.Kind != "value" && o.Kind != "error" {
			o.Msg = "probe " + p + " after the write: " + o.Msg
			return o
		}
	}
	return res
}
