// Package tlc runs the TLC model checker on a module of /verif/spec and
// streams the JSON lines the specification prints ("VJSON <json>").
package tlc

import (
	"bufio"
	"context"
	"encoding/json"
	"fmt"
	"io"
	"os"
	"os/exec"
	"path/filepath"
	"regexp"
	"strconv"
	"strings"
	"time"
)

const Jar = "/opt/veriftools/tla/tla2tools.jar:/opt/veriftools/tla/CommunityModules-deps.jar"

// Opts describes one TLC run.
type Opts struct {
	SpecDir  string            // directory holding *.tla
	Module   string            // root module name (without .tla)
	Cfg      string            // configuration file *content*
	Workers  int               // 0 = 1
	Simulate bool              // -simulate
	Num      int               // behaviours per worker in simulation mode
	Depth    int               // -depth
	Seed     int64             // -seed
	Env      map[string]string // extra environment (read with IOEnv)
	Files    map[string][]byte // extra files placed next to the module (traces)
	Timeout  time.Duration
	HeapMB   int
	Deque    bool // depth-first queue for trace validation
	Coverage bool
	NoDeadlock bool
}

// Result summarises a run.
type Result struct {
	Generated int64
	Distinct  int64
	Depth     int
	Lines     int64
	Wall      float64
	ExitCode  int
	Tail      []string // last non-VJSON output lines
	Coverage  map[string]int64
	Cmd       string
}

var reStates = regexp.MustCompile(`^(\d+) states generated, (\d+) distinct states found`)
var reDepth = regexp.MustCompile(`depth of the complete state graph search is (\d+)`)
var reCover = regexp.MustCompile(`^<(\w+) line \d+, col \d+ to line \d+, col \d+ of module (\w+)>: (\d+):(\d+)`)

// Run executes TLC; onLine receives the JSON payload of each VJSON line.
// A non-nil error means the run itself failed (never a property verdict).
func Run(o Opts, onLine func(payload []byte)) (*Result, error) {
	dir, err := os.MkdirTemp("", "vtlc-")
	if err != nil {
		return nil, err
	}
	defer os.RemoveAll(dir)
	specs, _ := filepath.Glob(filepath.Join(o.SpecDir, "*.tla"))
	for _, s := range specs {
		b, err := os.ReadFile(s)
		if err != nil {
			return nil, err
		}
		if err := os.WriteFile(filepath.Join(dir, filepath.Base(s)), b, 0o644); err != nil {
			return nil, err
		}
	}
	for name, b := range o.Files {
		if err := os.WriteFile(filepath.Join(dir, name), b, 0o644); err != nil {
			return nil, err
		}
	}
	if err := os.WriteFile(filepath.Join(dir, "MC.cfg"), []byte(o.Cfg), 0o644); err != nil {
		return nil, err
	}
	if o.Workers <= 0 {
		o.Workers = 1
	}
	if o.Timeout == 0 {
		o.Timeout = 20 * time.Minute
	}
	if o.HeapMB == 0 {
		o.HeapMB = 6000
	}
	args := []string{"-XX:+UseParallelGC", "-Xss512m", fmt.Sprintf("-Xmx%dm", o.HeapMB)}
	if o.Deque {
		args = append(args, "-Dtlc2.tool.queue.IStateQueue=StateDeque")
	}
	args = append(args, "-cp", Jar, "tlc2.TLC", "-workers", strconv.Itoa(o.Workers),
		"-metadir", filepath.Join(dir, "meta"), "-config", "MC.cfg")
	if o.NoDeadlock {
		args = append(args, "-deadlock")
	}
	if o.Coverage {
		args = append(args, "-coverage", "1")
	}
	if o.Simulate {
		args = append(args, "-simulate", fmt.Sprintf("num=%d", o.Num), "-depth", strconv.Itoa(o.Depth))
	}
	if o.Seed != 0 || o.Simulate {
		args = append(args, "-seed", strconv.FormatInt(o.Seed, 10))
	}
	args = append(args, o.Module+".tla")
	ctx, cancel := context.WithTimeout(context.Background(), o.Timeout)
	defer cancel()
	cmd := exec.CommandContext(ctx, "java", args...)
	cmd.Dir = dir
	cmd.Env = os.Environ()
	for k, v := range o.Env {
		cmd.Env = append(cmd.Env, k+"="+v)
	}
	stdout, err := cmd.StdoutPipe()
	if err != nil {
		return nil, err
	}
	cmd.Stderr = cmd.Stdout
	res := &Result{Cmd: "java " + strings.Join(args, " "), Coverage: map[string]int64{}}
	t0 := time.Now()
	if err := cmd.Start(); err != nil {
		return nil, err
	}
	rd := bufio.NewReaderSize(stdout, 1<<20)
	var tlcErr []string
	inErr := false
	for {
		line, err := rd.ReadBytes('\n')
		if len(line) > 0 {
			l := strings.TrimRight(string(line), "\r\n")
			if strings.HasPrefix(l, `"VJSON `) {
				var s string
				if e := json.Unmarshal([]byte(l), &s); e != nil {
					tlcErr = append(tlcErr, "undecodable VJSON line: "+l[:min(len(l), 200)])
				} else {
					res.Lines++
					onLine([]byte(s[6:]))
				}
			} else {
				if m := reStates.FindStringSubmatch(l); m != nil {
					res.Generated, _ = strconv.ParseInt(m[1], 10, 64)
					res.Distinct, _ = strconv.ParseInt(m[2], 10, 64)
				} else if m := reDepth.FindStringSubmatch(l); m != nil {
					res.Depth, _ = strconv.Atoi(m[1])
				} else if m := reCover.FindStringSubmatch(l); m != nil {
					n, _ := strconv.ParseInt(m[4], 10, 64)
					res.Coverage[m[2]+"!"+m[1]] += n
				}
				if strings.HasPrefix(l, "Error:") || strings.Contains(l, "Exception") {
					inErr = true
				}
				if inErr && len(tlcErr) < 60 {
					tlcErr = append(tlcErr, l)
				}
				if !strings.HasPrefix(l, "Semantic processing") && !strings.HasPrefix(l, "Parsing file") && !strings.HasPrefix(l, "Linting of") {
					res.Tail = append(res.Tail, l)
					if len(res.Tail) > 40 {
						res.Tail = res.Tail[1:]
					}
				}
			}
		}
		if err != nil {
			if err != io.EOF {
				tlcErr = append(tlcErr, "read: "+err.Error())
			}
			break
		}
	}
	werr := cmd.Wait()
	res.Wall = time.Since(t0).Seconds()
	if ctx.Err() != nil {
		return res, fmt.Errorf("tlc timed out after %v", o.Timeout)
	}
	if werr != nil {
		if ee, ok := werr.(*exec.ExitError); ok {
			res.ExitCode = ee.ExitCode()
		}
		return res, fmt.Errorf("tlc failed (%v):\n%s", werr, strings.Join(append(tlcErr, res.Tail...), "\n"))
	}
	if len(tlcErr) > 0 {
		return res, fmt.Errorf("tlc reported errors:\n%s", strings.Join(tlcErr, "\n"))
	}
	return res, nil
}
