package valtest

import (
	"bytes"
	"encoding/json"
	"fmt"
	"math"
	"math/rand"
	"strconv"
	"strings"
	"testing"
	"time"
	"unicode/utf16"

	"verif/harness/internal/num"
	"verif/harness/internal/tlc"
)

func units(s string) []int {
	u := utf16.Encode([]rune(s))
	r := make([]int, len(u))
	for i, x := range u {
		r[i] = int(x)
	}
	return r
}

func TestVal(t *testing.T) {
	rng := rand.New(rand.NewSource(2))
	var buf bytes.Buffer
	enc := json.NewEncoder(&buf)
	n := 0
	add := func(s string) {
		f, err := strconv.ParseFloat(s, 64)
		if err != nil && !math.IsInf(f, 0) {
			t.Fatalf("%q %v", s, err)
		}
		enc.Encode(map[string]any{"op": "strtonum", "s": units(s), "r": num.Of(f)})
		n++
	}
	for _, s := range []string{"0", "-0", "1", "1.5", "1e21", "1e-7", "123456789012345678901234567890", "0.1", "0.30000000000000004", "5e-324", "2.5e-324", "2.4703282292062327e-324", "2.4703282292062328e-324", "1.7976931348623157e308", "1.7976931348623159e308", "1e309", "1e-400", "9007199254740993", "9007199254740992.5", "4.35", "0.000001", "1e400", ".5", "5.", "00012", "1E3", "1e+3", "1e-3", "-1.25e2"} {
		add(s)
	}
	for i := 0; i < 300; i++ {
		f := math.Float64frombits(rng.Uint64())
		if math.IsNaN(f) || math.IsInf(f, 0) {
			continue
		}
		add(strconv.FormatFloat(f, 'e', -1, 64))
		add(strconv.FormatFloat(f, 'e', 20, 64))
		add(fmt.Sprintf("%d.%de%d", rng.Intn(100000), rng.Intn(1000000), rng.Intn(60)-30))
	}
	for i := 0; i < 2000; i++ {
		v := float64(rng.Int63n(1 << uint(rng.Intn(53)+1)))
		if rng.Intn(2) == 0 {
			v = -v
		}
		if v == 0 {
			v = 0
		}
		enc.Encode(map[string]any{"op": "inttostr", "n": num.Of(v), "r": map[string]any{"s": units(strconv.FormatFloat(v, 'f', -1, 64))}})
		n++
	}
	for i := 0; i < 400; i++ {
		f := math.Float64frombits(rng.Uint64())
		if i%4 == 1 {
			f = float64(rng.Intn(100000)) / float64(int(1)<<uint(rng.Intn(20)))
		}
		if i%4 == 2 {
			f = math.Pow(10, float64(rng.Intn(60)-30)) * float64(1+rng.Intn(99))
		}
		if i < 80 {
			f, _ = strconv.ParseFloat(fmt.Sprintf("1e%d", i-40), 64)
		}
		if i >= 80 && i < 120 {
			f, _ = strconv.ParseFloat(fmt.Sprintf("1e%d", i-100), 64)
			f = math.Nextafter(f, 0)
		}
		if math.IsNaN(f) || math.IsInf(f, 0) {
			continue
		}
		enc.Encode(map[string]any{"op": "numtostr", "n": num.Of(f), "r": map[string]any{"s": units(jsNumStr(f))}})
		n++
	}
	for _, s := range []string{"0", "1", "01", "+1", "1.0", "1e0", "-0", "4294967294", "4294967295", "4294967296", " 1", "", "12345678901", "999999999", "a", "10"} {
		u, err := strconv.ParseUint(s, 10, 64)
		is := err == nil && strconv.FormatUint(u, 10) == s && u < 4294967295
		enc.Encode(map[string]any{"op": "isindex", "s": units(s), "r": is})
		n++
	}
	bad := 0
	res, err := tlc.Run(tlc.Opts{SpecDir: "/verif/spec", Module: "ValTest", Cfg: "INIT Init\nNEXT Next\nINVARIANT Check\n", Workers: 16, NoDeadlock: true, Files: map[string][]byte{"trace.ndjson": buf.Bytes()}, Timeout: 10 * time.Minute}, func(p []byte) {
		bad++
		if bad < 15 {
			t.Logf("MISMATCH %s", p)
		}
	})
	if err != nil {
		t.Fatal(err)
	}
	t.Logf("events %d states %d wall %.1fs bad %d", n, res.Distinct, res.Wall, bad)
	if bad > 0 {
		t.Fail()
	}
}

// jsNumStr is a Go reference of ES5 9.8.1 built on strconv's shortest digits.
func jsNumStr(f float64) string {
	if f == 0 {
		return "0"
	}
	neg := ""
	if f < 0 {
		neg, f = "-", -f
	}
	e := strconv.FormatFloat(f, 'e', -1, 64) // d.ddde±xx
	mant, exps, _ := strings.Cut(e, "e")
	digits := strings.Replace(mant, ".", "", 1)
	ex, _ := strconv.Atoi(exps)
	n := ex + 1
	k := len(digits)
	switch {
	case k <= n && n <= 21:
		return neg + digits + strings.Repeat("0", n-k)
	case 0 < n && n <= 21:
		return neg + digits[:n] + "." + digits[n:]
	case -6 < n && n <= 0:
		return neg + "0." + strings.Repeat("0", -n) + digits
	}
	sign := "+"
	if n-1 < 0 {
		sign = "-"
	}
	abs := n - 1
	if abs < 0 {
		abs = -abs
	}
	if k == 1 {
		return neg + digits + "e" + sign + strconv.Itoa(abs)
	}
	return neg + digits[:1] + "." + digits[1:] + "e" + sign + strconv.Itoa(abs)
}
