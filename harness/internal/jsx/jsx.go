// Package jsx renders specification values as JavaScript source text and
// holds the JavaScript-side encoder that projects live values back into the
// specification's JSON shape.
package jsx

import (
	"encoding/json"
	"fmt"
	"math"
	"strconv"
	"strings"

	"verif/harness/internal/num"
)

// Val is the JSON form of a Val.tla value.
type Val struct {
	T  string `json:"t"`
	B  *bool  `json:"b,omitempty"`
	N  *num.N `json:"n,omitempty"`
	S  []int  `json:"s,omitempty"`
	ID *int   `json:"id,omitempty"`
}

// StrLit renders code units as a JavaScript string literal (all \uXXXX so
// that the harness never depends on source encoding).
func StrLit(units []int) string {
	var b strings.Builder
	b.WriteByte('"')
	for _, u := range units {
		if u >= 0x20 && u < 0x7f && u != '"' && u != '\\' {
			b.WriteByte(byte(u))
		} else {
			fmt.Fprintf(&b, "\\u%04X", u)
		}
	}
	b.WriteByte('"')
	return b.String()
}

func UnitsString(units []int) string {
	r := make([]rune, len(units))
	for i, u := range units {
		r[i] = rune(u)
	}
	return string(r)
}

// NumLit renders a double as a JavaScript expression that denotes exactly it,
// without relying on the implementation's decimal literal parser beyond
// integers below 2^53: m * Math.pow(2, e) is exact for a 53-bit m... instead
// the harness injects such values through Otto.Set; NumLit is used for the
// plain cases only.
func NumLit(f float64) (string, bool) {
	switch {
	case math.IsNaN(f):
		return "NaN", true
	case math.IsInf(f, 1):
		return "Infinity", true
	case math.IsInf(f, -1):
		return "-Infinity", true
	case f == 0 && math.Signbit(f):
		return "-0", true
	case f == math.Trunc(f) && math.Abs(f) < 1<<53:
		return strconv.FormatFloat(f, 'f', 0, 64), true
	}
	return "", false
}

// Expr renders a value as source text; objs maps object ids to identifiers.
func (v Val) Expr(objs map[int]string) (string, error) {
	switch v.T {
	case "undef":
		return "undefined", nil
	case "null":
		return "null", nil
	case "bool":
		if *v.B {
			return "true", nil
		}
		return "false", nil
	case "num":
		f, err := v.N.Float()
		if err != nil {
			return "", err
		}
		if s, ok := NumLit(f); ok {
			if strings.HasPrefix(s, "-") {
				return "(" + s + ")", nil
			}
			return s, nil
		}
		return "", fmt.Errorf("no literal for %v", f)
	case "str":
		return StrLit(v.S), nil
	case "obj":
		if n, ok := objs[*v.ID]; ok {
			return n, nil
		}
		return "", fmt.Errorf("unknown object id %d", *v.ID)
	}
	return "", fmt.Errorf("bad value tag %q", v.T)
}

// Prelude is the JavaScript-side projection: ENC(v) gives the JSON shape of
// Val.tla; numbers are encoded by their exact bits via NUMENC which the
// harness installs as a host function (the trusted float64 projection).
const Prelude = `
var OBJIDS = [];
function UNITS(s){ var r=[]; for (var i=0;i<s.length;i++) r.push(s.charCodeAt(i)); return r; }
function ENC(v){
  if (v === undefined) return {t:"undef"};
  if (v === null) return {t:"null"};
  if (typeof v === "boolean") return {t:"bool", b:v};
  if (typeof v === "number") return {t:"num", n:JSON.parse(NUMENC(v))};
  if (typeof v === "string") return {t:"str", s:UNITS(v)};
  for (var i=0;i<OBJIDS.length;i++) if (OBJIDS[i][0]===v) return {t:"obj", id:OBJIDS[i][1]};
  return {t:"obj", id:-1};
}
`

// NumEnc is the host function behind NUMENC.
func NumEnc(f float64) string {
	b, _ := json.Marshal(num.Of(f))
	return string(b)
}
