package c12

// Judge direction (code -> specification): random inputs drawn here, from
// wider domains than spec/C12.tla enumerates, are run on the implementation;
// the recorded events are judged by TLC with spec/C12Judge.tla.  Go only
// renders inputs and records projected outcomes; every expected value is
// computed by the specification.

import (
	"bytes"
	"encoding/json"
	"fmt"
	"math"
	"math/rand"
	"strings"
	"sync"
	"time"

	"github.com/robertkrimen/otto"

	"verif/harness/internal/core"
	"verif/harness/internal/gen"
	"verif/harness/internal/jsx"
	"verif/harness/internal/num"
	"verif/harness/internal/tlc"
)

type jop struct {
	M string  `json:"m"`
	A []num.N `json:"a"`
}

type jevent struct {
	K   string          `json:"k"`
	T   *num.N          `json:"t,omitempty"`
	A   []num.N         `json:"a,omitempty"`
	Ops []jop           `json:"ops,omitempty"`
	S   []int           `json:"s,omitempty"`
	Res json.RawMessage `json:"res"`

	src    string
	consts []float64
}

type jvm struct {
	vm   *otto.Otto
	used int
}

func (b *jvm) run(src string, consts []float64) (out string, err error) {
	defer func() {
		if r := recover(); r != nil {
			b.vm = nil
			out, err = "", fmt.Errorf("GO PANIC: %v", r)
		}
	}()
	if b.vm == nil || b.used >= 200 {
		vm := otto.New()
		if e := vm.Set("NUMENC", func(call otto.FunctionCall) otto.Value {
			f, _ := call.Argument(0).ToFloat()
			v, _ := otto.ToValue(jsx.NumEnc(f))
			return v
		}); e != nil {
			return "", e
		}
		if _, e := vm.Run(gen.Prelude + prelude); e != nil {
			return "", fmt.Errorf("prelude: %v", e)
		}
		b.vm, b.used = vm, 0
	}
	b.used++
	for i, f := range consts {
		if e := b.vm.Set(fmt.Sprintf("K%d", i), f); e != nil {
			return "", e
		}
	}
	v, e := b.vm.Call("RUN", nil, src)
	if e != nil {
		b.vm = nil
		return "", fmt.Errorf("harness RUN failed: %v", e)
	}
	return v.String(), nil
}

const msPerDay = 86400000

func randInstant(rng *rand.Rand) float64 {
	switch rng.Intn(7) {
	case 0: // uniform over the whole range
		return float64(rng.Int63n(2*8640000000000000+1)) - 8.64e15
	case 1: // around a day boundary
		day := rng.Int63n(200000001) - 100000000
		return float64(day*msPerDay + int64(rng.Intn(3)-1))
	case 2: // not an integer
		return float64(rng.Int63n(1<<44)-(1<<43)) + rng.Float64()
	case 3: // small magnitudes
		return rng.NormFloat64() * math.Pow(10, float64(rng.Intn(9)-3))
	case 4: // beyond the range (up to 1e17: the deviating instance follows otto there)
		f := 8.64e15 + rng.Float64()*(1e17-8.64e15)
		if rng.Intn(2) == 0 {
			f = -f
		}
		return f
	case 5: // around the start of a year
		y := rng.Intn(275760+271821+1) - 271821
		return float64(time.Date(y, 1, 1, 0, 0, 0, 0, time.UTC).UnixMilli() + int64(rng.Intn(3)-1))
	default: // the last / first day of a month in a random year
		y := rng.Intn(20000) - 5000
		t := time.Date(y, time.Month(1+rng.Intn(12)), 1, 0, 0, 0, 0, time.UTC).UnixMilli()
		return float64(t + int64(rng.Intn(2))*int64(-1-rng.Intn(msPerDay)))
	}
}

func randField(rng *rand.Rand) float64 {
	switch rng.Intn(8) {
	case 0:
		return float64(rng.Intn(2000001) - 1000000)
	case 1, 2:
		return float64(rng.Intn(201) - 100)
	case 3:
		return float64(rng.Intn(401)-200) / 4
	case 4:
		return rng.Float64()*2e6 - 1e6
	case 5:
		return float64(rng.Intn(70))
	case 6:
		return float64(rng.Intn(4000) - 2000)
	default:
		return []float64{math.NaN(), math.Inf(1), math.Inf(-1), math.Copysign(0, -1), 0.5, -0.5, 99.5, 1e6, -1e6}[rng.Intn(9)]
	}
}

func randYear(rng *rand.Rand) float64 {
	switch rng.Intn(5) {
	case 0:
		return rng.Float64()*102 - 1 // around the two-digit rule, with fraction
	case 1:
		return float64(rng.Intn(120) - 10)
	case 2, 3:
		return float64(rng.Intn(275760+271821+1) - 271821)
	default:
		return randField(rng)
	}
}

var setterNames = []struct {
	n   string
	max int
}{{"Milliseconds", 1}, {"Seconds", 2}, {"Minutes", 3}, {"Hours", 4}, {"Date", 1}, {"Month", 2}, {"FullYear", 3}}

func constList(fs []float64, base int) string {
	parts := make([]string, len(fs))
	for i := range fs {
		parts[i] = fmt.Sprintf("K%d", base+i)
	}
	return strings.Join(parts, ",")
}

func nums(fs []float64) []num.N {
	r := make([]num.N, len(fs))
	for i, f := range fs {
		r[i] = num.Of(f)
	}
	return r
}

func randISOText(rng *rand.Rand) string {
	pick := func(usual, lo, hi int) int { // mostly legal values, sometimes the neighbours
		if rng.Intn(12) == 0 {
			return []int{lo, hi}[rng.Intn(2)]
		}
		return rng.Intn(usual)
	}
	var sb strings.Builder
	y := rng.Intn(12000) - 1000
	if rng.Intn(4) == 0 {
		y = rng.Intn(275760+271821+1) - 271821
	}
	if y >= 0 && y <= 9999 && rng.Intn(3) != 0 {
		fmt.Fprintf(&sb, "%04d", y)
	} else if y < 0 {
		fmt.Fprintf(&sb, "-%06d", -y)
	} else {
		fmt.Fprintf(&sb, "+%06d", y)
	}
	prec := rng.Intn(4)
	if prec >= 1 {
		fmt.Fprintf(&sb, "-%02d", 1+pick(12, -1, 12))
	}
	if prec >= 2 {
		fmt.Fprintf(&sb, "-%02d", 1+pick(28, -1, 31)) // days 29..31 of shorter months are not generated
	}
	tp := rng.Intn(4)
	if tp >= 1 {
		h := pick(24, 24, 25)
		mi, s, ms := pick(60, 60, 60), pick(60, 60, 60), rng.Intn(1000)
		if h == 24 && rng.Intn(2) == 0 {
			mi, s, ms = 0, 0, 0
		}
		fmt.Fprintf(&sb, "T%02d:%02d", h, mi)
		if tp >= 2 {
			fmt.Fprintf(&sb, ":%02d", s)
		}
		if tp >= 3 {
			fmt.Fprintf(&sb, ".%03d", ms)
		}
		switch rng.Intn(4) {
		case 1:
			sb.WriteString("Z")
		case 2:
			fmt.Fprintf(&sb, "+%02d:%02d", rng.Intn(24), rng.Intn(60))
		case 3:
			fmt.Fprintf(&sb, "-%02d:%02d", rng.Intn(24), rng.Intn(60))
		}
	}
	return sb.String()
}

func randEvent(rng *rand.Rand) *jevent {
	switch rng.Intn(10) {
	case 0, 1, 2:
		t := randInstant(rng)
		n := num.Of(t)
		return &jevent{K: "inst", T: &n, src: "var d = new Date(K0); [OBS(d), OBSL(d)]", consts: []float64{t}}
	case 3, 4, 5:
		fs := []float64{randYear(rng)}
		for n := 1 + rng.Intn(6); n > 0; n-- {
			fs = append(fs, randField(rng))
		}
		a := constList(fs, 0)
		return &jevent{K: "utc", A: nums(fs), src: "[TV(Date.UTC(" + a + ")), OBS(new Date(" + a + "))]", consts: fs}
	case 6, 7, 8:
		t := randInstant(rng)
		if rng.Intn(10) == 0 {
			t = math.NaN()
		}
		n := num.Of(t)
		ev := &jevent{K: "set", T: &n, consts: []float64{t}}
		var sb strings.Builder
		sb.WriteString("var d = new Date(K0); [")
		for k := 1 + rng.Intn(3); k > 0; k-- {
			var m string
			var fs []float64
			if rng.Intn(12) == 0 {
				m, fs = "setTime", []float64{randInstant(rng)}
			} else {
				s := setterNames[rng.Intn(len(setterNames))]
				m = []string{"setUTC", "set"}[rng.Intn(2)] + s.n
				cnt := 1 + rng.Intn(s.max)
				if rng.Intn(15) == 0 {
					cnt = rng.Intn(s.max + 2)
				}
				for i := 0; i < cnt; i++ {
					if i == 0 && s.n == "FullYear" {
						fs = append(fs, randYear(rng))
					} else {
						fs = append(fs, randField(rng))
					}
				}
			}
			ev.Ops = append(ev.Ops, jop{M: m, A: nums(fs)})
			fmt.Fprintf(&sb, "TV(d.%s(%s)),", m, constList(fs, len(ev.consts)))
			ev.consts = append(ev.consts, fs...)
		}
		sb.WriteString("OBS(d)]")
		ev.src = sb.String()
		return ev
	default:
		s := randISOText(rng)
		units := make([]int, len(s))
		for i := range s {
			units[i] = int(s[i])
		}
		return &jevent{K: "parse", S: units, src: "TV(Date.parse(" + jsx.StrLit(units) + "))"}
	}
}

// judgeBatchSize bounds one trace file: TLC holds the whole deserialised trace in memory.
const judgeBatchSize = 25000

// judge draws n random events in batches, records them and lets TLC judge them.
func judge(c *core.Ctx, n int) (map[string]any, error) {
	total := map[string]any{}
	kinds := map[string]int{}
	sum := map[string]int{}
	var wall float64
	var distinct int64
	for b, done := 0, 0; done < n; b++ {
		k := n - done
		if k > judgeBatchSize {
			k = judgeBatchSize
		}
		r, err := judgeBatch(c, k, int64(b))
		if err != nil {
			return nil, err
		}
		for kind, v := range r["by_kind"].(map[string]int) {
			kinds[kind] += v
		}
		for _, key := range []string{"conforming", "conforming_to_known_deviation", "outside_format_not_judged", "rejected"} {
			sum[key] += r[key].(int)
		}
		t := r["tlc"].(map[string]any)
		wall += t["wall_s"].(float64)
		distinct += t["distinct"].(int64)
		done += k
		total["batches"] = b + 1
	}
	total["events"] = n
	total["by_kind"] = kinds
	for k, v := range sum {
		total[k] = v
	}
	total["corrupted_event_rejected"] = true
	total["tlc"] = map[string]any{"distinct": distinct, "wall_s": wall}
	return total, nil
}

// judgeBatch draws n random events (generator streams of batch number batch), runs them and has TLC judge them;
// a corrupted copy of one event is appended and must be rejected.
func judgeBatch(c *core.Ctx, n int, batch int64) (map[string]any, error) {
	// events are drawn and run by c.Workers goroutines, each with its own seeded generator and runtime
	workers := c.Workers
	if workers < 1 {
		workers = 1
	}
	parts := make([][]*jevent, workers)
	errs := make([]error, workers)
	var wg sync.WaitGroup
	for w := 0; w < workers; w++ {
		wg.Add(1)
		go func(w int) {
			defer wg.Done()
			rng := rand.New(rand.NewSource(c.Seed*7919 + 12 + int64(w)*104729 + batch*1299709))
			box := &jvm{}
			quota := n / workers
			if w < n%workers {
				quota++
			}
			for len(parts[w]) < quota {
				ev := randEvent(rng)
				out, err := box.run(ev.src, ev.consts)
				if err != nil {
					if strings.HasPrefix(err.Error(), "GO PANIC") {
						c.Violate(fmt.Sprintf("%s  =>  %v", ev.src, err), map[string]any{"js": ev.src, "consts": ev.consts})
						continue
					}
					errs[w] = err
					return
				}
				ev.Res = json.RawMessage(out)
				parts[w] = append(parts[w], ev)
			}
		}(w)
	}
	wg.Wait()
	events := make([]*jevent, 0, n+1)
	var buf bytes.Buffer
	for w := range parts {
		if errs[w] != nil {
			return nil, errs[w]
		}
		events = append(events, parts[w]...)
	}
	// demonstration of the binding (DESIGN 5.4): a recorded observation with one corrupted field must be rejected
	corrupt := *events[0]
	for _, e := range events {
		if e.K == "inst" && bytes.Contains(e.Res, []byte(`"thr":""`)) {
			corrupt = *e
			break
		}
	}
	corrupt.Res = json.RawMessage(strings.Replace(string(corrupt.Res), `"log":[]`, `"log":["corrupted"]`, 1))
	events = append(events, &corrupt)
	for _, ev := range events {
		b, err := json.Marshal(ev)
		if err != nil {
			return nil, err
		}
		buf.Write(b)
		buf.WriteByte('\n')
	}
	type verdict struct {
		I       int             `json:"i"`
		Verdict string          `json:"verdict"`
		Want    json.RawMessage `json:"want"`
	}
	var nDev, nBad, nSkip int
	corruptRejected := false
	cfg := fmt.Sprintf("CONSTANTS\n OpenDev = %s\nINIT Init\nNEXT Next\nINVARIANT Judge\nCHECK_DEADLOCK FALSE\n", core.TLASet(c.Findings.OpenIDs()))
	res, err := tlc.Run(tlc.Opts{SpecDir: c.SpecDir, Module: "C12Judge", Cfg: cfg, Workers: c.Workers, Timeout: 25 * time.Minute,
		Files: map[string][]byte{"trace.ndjson": buf.Bytes()}}, func(p []byte) {
		var v verdict
		if json.Unmarshal(p, &v) != nil || v.I < 1 || v.I > len(events) {
			c.Note("undecodable judge line: %s", p)
			return
		}
		ev := events[v.I-1]
		switch v.Verdict {
		case "skip":
			nSkip++
		case "dev":
			nDev++
			c.Hit("deviation")
		case "bad":
			if v.I == len(events) {
				corruptRejected = true
				return
			}
			fresh := &jvm{}
			out2, err2 := fresh.run(ev.src, ev.consts)
			if err2 != nil || out2 != string(ev.Res) {
				c.Note("judge: event not reproducible on a fresh runtime: %s", ev.src)
				return
			}
			nBad++
			c.Violate(fmt.Sprintf("%s  (constants %v)  =>  implementation %s ; specification %s", ev.src, ev.consts, trunc(out2, 300), trunc(string(v.Want), 300)),
				map[string]any{"js": ev.src, "consts": ev.consts, "observed": ev.Res, "expected": v.Want, "direction": "judge"})
		}
	})
	if err != nil {
		return nil, err
	}
	if !corruptRejected {
		return nil, fmt.Errorf("judge self-test: the corrupted event was not rejected (the judge is vacuous)")
	}
	kinds := map[string]int{}
	for _, e := range events[:n] {
		kinds[e.K]++
	}
	return map[string]any{"events": n, "by_kind": kinds, "conforming": n - nDev - nBad - nSkip, "conforming_to_known_deviation": nDev,
		"outside_format_not_judged": nSkip, "rejected": nBad, "corrupted_event_rejected": corruptRejected,
		"tlc": map[string]any{"distinct": res.Distinct, "wall_s": res.Wall}}, nil
}

func trunc(s string, n int) string {
	if len(s) > n {
		return s[:n] + "..."
	}
	return s
}
