// Package c12: Date arithmetic (spec/DateSpec.tla, spec/C12.tla).
//
// The process runs with TZ=UTC: LocalTZA = 0 and no daylight saving time, so
// the local-time methods (multi-argument constructor, set*/get*) are specified
// by LocalTime(t) = t.
package c12

import (
	"fmt"
	"os"
	"path/filepath"
	"strings"
	"time"

	"verif/harness/internal/core"
	"verif/harness/internal/gen"
	"verif/harness/internal/tlc"
)

func init() {
	os.Setenv("TZ", "UTC")
	time.Local = time.UTC
}

// Prelude: the observation of a Date object.  Arrays are encoded
// element-wise; a caught exception is {t:"thr", name} (TRYV: plus the thrown non-Error value v).  TV() maps a -0 time
// value to +0: 15.9.1.14 step 3 leaves that choice to the implementation.
// MKJ builds a scripted object for the generic toJSON.
const prelude = `
function THR(n){ this.name = n; }
function ENCOBJ(v){
  if (Object.prototype.toString.call(v) === "[object Array]") {
    var a = []; for (var i = 0; i < v.length; i++) a.push(ENCV(v[i]));
    return {t:"arr", a:a};
  }
  if (v instanceof THR) return ("v" in v) ? {t:"thr", name:v.name, v:ENCV(v.v)} : {t:"thr", name:v.name};
  return {t:"obj", cls:Object.prototype.toString.call(v)};
}
function TRY(f){ try { return f(); } catch (e) { return new THR(e instanceof Error ? e.name : "value"); } }
function TRYV(f){
  try { return f(); }
  catch (e) { if (e instanceof Error) return new THR(e.name); var t = new THR("value"); t.v = e; return t; }
}
function TV(x){ return x === 0 ? 0 : x; }
function OBS(d){
  return [TV(d.getTime()), TV(d.valueOf()), d.getUTCFullYear(), d.getUTCMonth(), d.getUTCDate(), d.getUTCDay(),
          d.getUTCHours(), d.getUTCMinutes(), d.getUTCSeconds(), d.getUTCMilliseconds(),
          TRY(function(){ return d.toISOString(); }), TRY(function(){ return d.toJSON(); })];
}
function OBSL(d){
  return [d.getFullYear(), d.getMonth(), d.getDate(), d.getDay(), d.getHours(), d.getMinutes(), d.getSeconds(),
          d.getMilliseconds(), d.getTimezoneOffset()];
}
function MKJ(id, vo, ts, iso){
  var o = {}; BEH(o, "valueOf", "vo", vo, id); BEH(o, "toString", "ts", ts, id);
  if (iso.k === "noncallable") o.toISOString = 1;
  else if (iso.k !== "absent") o.toISOString = function(){ LOG.push("iso" + id); if (iso.k === "ret") return iso.v; throw "Ti" + id; };
  return o;
}
`

// mutatedPrelude is the adapter with a seeded fault (getUTCMonth and
// getUTCDate swapped in the observation): the self-test demands that the
// check rejects it.
var mutatedPrelude = strings.Replace(prelude, "d.getUTCMonth(), d.getUTCDate()", "d.getUTCDate(), d.getUTCMonth()", 1)

type bounds struct {
	nRand, nRandBlk, nSeq2, nSeq3, seqEvery, fmtEvery, nBase int
}

func cfg(c *core.Ctx, fams string, b bounds) string {
	return fmt.Sprintf("CONSTANTS\n OpenDev = %s\n Fams = %s\n NRand = %d\n NRandBlk = %d\n NSeq2 = %d\n NSeq3 = %d\n SeqEvery = %d\n Seed = %d\n FmtEvery = %d\n NBase = %d\nINIT Init\nNEXT Next\nINVARIANT Emit\nCHECK_DEADLOCK FALSE\n",
		core.TLASet(c.Findings.OpenIDs()), fams, b.nRand, b.nRandBlk, b.nSeq2, b.nSeq3, b.seqEvery, c.Seed%1000, b.fmtEvery, b.nBase)
}

var assume = []string{
	"the check process runs with TZ=UTC (LocalTZA = 0, no DST): local-time methods are judged through LocalTime(t) = t",
	"a -0 time value is identified with +0 (15.9.1.14 step 3 leaves the choice to the implementation)",
	"Date.parse is judged only on texts of the 15.9.1.15 format (anything else is implementation-defined, 15.9.4.2)",
	"time values beyond the range are generated up to |t| <= 1e17 only (the deviating instance follows otto's unclipped values on TLC integers)",
}

var Spec = &gen.Spec{
	Module:  "C12",
	Prelude: prelude,
	PerVM:   200,
	Runs: func(c *core.Ctx) []gen.RunCfg {
		b := bounds{nRand: 150, nRandBlk: 16, nSeq2: 1, nSeq3: 2, seqEvery: 6, fmtEvery: 2, nBase: 1}
		if c.Thorough() {
			b = bounds{nRand: 2500, nRandBlk: 32, nSeq2: 4, nSeq3: 8, seqEvery: 1, fmtEvery: 1, nBase: 2}
		}
		o := tlc.Opts{Seed: c.Seed, Timeout: 60 * time.Minute}
		return []gen.RunCfg{
			{Name: "instants(accessors,toISOString,toJSON)+Date.UTC/constructor+Date.parse+argument-conversion+this-checks", Cfg: cfg(c, `{"inst", "utc", "parse", "conv", "this"}`, b), Opts: o},
			{Name: "setter-sequences", Cfg: cfg(c, `{"set"}`, b), Opts: o},
		}
	},
	Assume: assume,
}

// selfTest replays a small family through the mutated adapter on a scratch
// context and returns the number of cases it rejected (must be > 0).
func selfTest(c *core.Ctx) (int, int64, error) {
	sc := &core.Ctx{Property: c.Property + "-selftest", Tier: c.Tier, Seed: c.Seed, SpecDir: c.SpecDir, Workers: c.Workers,
		Findings: c.Findings, Start: time.Now(), KnownHits: map[string]int64{}}
	defer os.RemoveAll(filepath.Join(core.Root, "replays", sc.Property))
	sp := &gen.Spec{Module: "C12", Prelude: mutatedPrelude, PerVM: 200,
		Runs: func(c *core.Ctx) []gen.RunCfg {
			return []gen.RunCfg{{Name: "selftest", Cfg: cfg(c, `{"self"}`, bounds{1, 1, 1, 1, 1, 1, 1}), Opts: tlc.Opts{Seed: c.Seed}}}
		}}
	cov, _, err := gen.Check(sc, sp)
	if err != nil {
		return 0, 0, err
	}
	n, _ := cov["evaluations"].(int64)
	return len(sc.Violations()), n, nil
}

func Check(c *core.Ctx) (map[string]any, []string, error) {
	cov, as, err := gen.Check(c, Spec)
	if err != nil {
		return nil, nil, err
	}
	rej, n, err := selfTest(c)
	if err != nil {
		return nil, nil, fmt.Errorf("self-test: %v", err)
	}
	cov["selftest_mutated_adapter"] = map[string]any{"mutation": "getUTCMonth/getUTCDate swapped in the observation", "cases": n, "rejected": rej}
	if rej == 0 {
		return nil, nil, fmt.Errorf("self-test: the mutated adapter was not rejected on %d cases (the binding is vacuous)", n)
	}
	nj := 6000
	if c.Thorough() {
		nj = 100000
	}
	jc, err := judge(c, nj)
	if err != nil {
		return nil, nil, fmt.Errorf("judge: %v", err)
	}
	cov["judge_random_inputs"] = jc
	cov["traces_validated_against_impl"] = cov["traces_validated_against_impl"].(int64) + int64(nj)
	return cov, as, nil
}
