// Package c12: Date arithmetic (spec/DateSpec.tla, spec/C12.tla).
//
// The process runs with TZ=UTC: LocalTZA = 0 and no daylight saving time, so
// the local-time methods (multi-argument constructor, set*/get*) are specified
// by LocalTime(t) = t.
package c12

import (
	"fmt"
	"os"
	"time"

	"verif/harness/internal/core"
	"verif/harness/internal/gen"
	"verif/harness/internal/tlc"
)

func init() {
	os.Setenv("TZ", "UTC")
	time.Local = time.UTC
}

// Prelude: the observation of a Date object.  Arrays are encoded
// element-wise; a caught exception is {t:"thr", name}.  TV() maps a -0 time
// value to +0: 15.9.1.14 step 3 leaves that choice to the implementation.
const prelude = `
function THR(n){ this.name = n; }
function ENCOBJ(v){
  if (Object.prototype.toString.call(v) === "[object Array]") {
    var a = []; for (var i = 0; i < v.length; i++) a.push(ENCV(v[i]));
    return {t:"arr", a:a};
  }
  if (v instanceof THR) return {t:"thr", name:v.name};
  return {t:"obj", cls:Object.prototype.toString.call(v)};
}
function TRY(f){ try { return f(); } catch (e) { return new THR(e instanceof Error ? e.name : "value"); } }
function TV(x){ return x === 0 ? 0 : x; }
function OBS(d){
  return [TV(d.getTime()), TV(d.valueOf()), d.getUTCFullYear(), d.getUTCMonth(), d.getUTCDate(), d.getUTCDay(),
          d.getUTCHours(), d.getUTCMinutes(), d.getUTCSeconds(), d.getUTCMilliseconds(),
          TRY(function(){ return d.toISOString(); }), TRY(function(){ return d.toJSON(); })];
}
function OBSL(d){
  return [d.getFullYear(), d.getMonth(), d.getDate(), d.getDay(), d.getHours(), d.getMinutes(), d.getSeconds(),
          d.getMilliseconds(), d.getTimezoneOffset()];
}
`

type bounds struct {
	nRand, nRandBlk, nSeq2, nSeq3, nBase int
}

func cfg(c *core.Ctx, fams string, b bounds) string {
	return fmt.Sprintf("CONSTANTS\n OpenDev = %s\n Fams = %s\n NRand = %d\n NRandBlk = %d\n NSeq2 = %d\n NSeq3 = %d\n NBase = %d\nINIT Init\nNEXT Next\nINVARIANT Emit\nCHECK_DEADLOCK FALSE\n",
		core.TLASet(c.Findings.OpenIDs()), fams, b.nRand, b.nRandBlk, b.nSeq2, b.nSeq3, b.nBase)
}

var Spec = &gen.Spec{
	Module:  "C12",
	Prelude: prelude,
	PerVM:   200,
	Runs: func(c *core.Ctx) []gen.RunCfg {
		b := bounds{nRand: 250, nRandBlk: 16, nSeq2: 1, nSeq3: 1, nBase: 1}
		if c.Thorough() {
			b = bounds{nRand: 4000, nRandBlk: 32, nSeq2: 6, nSeq3: 10, nBase: 2}
		}
		o := tlc.Opts{Seed: c.Seed}
		return []gen.RunCfg{
			{Name: "instants(accessors,toISOString,toJSON)+Date.UTC/constructor+Date.parse", Cfg: cfg(c, `{"inst", "utc", "parse"}`, b), Opts: o},
			{Name: "setter-sequences", Cfg: cfg(c, `{"set"}`, b), Opts: o},
		}
	},
	Assume: []string{
		"the check process runs with TZ=UTC (LocalTZA = 0, no DST): local-time methods are judged through LocalTime(t) = t",
		"a -0 time value is identified with +0 (15.9.1.14 step 3 leaves the choice to the implementation)",
		"Date.parse is judged only on texts of the 15.9.1.15 format (anything else is implementation-defined, 15.9.4.2)",
	},
}

func Check(c *core.Ctx) (map[string]any, []string, error) { return gen.Check(c, Spec) }
