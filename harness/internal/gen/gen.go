// Package gen is the generic spec-to-code conformance driver: TLC enumerates
// cases of a generator module (spec/Cxx.tla), each printed as
//   {"c": case, "js": [parts], "exp": outcome, "dev": [outcome under known deviations]}
// the JavaScript text is assembled from the parts, evaluated on the
// implementation and the projected outcome compared with the expected one.
package gen

import (
	"encoding/json"
	"fmt"
	"reflect"
	"sort"
	"strings"
	"sync"
	"sync/atomic"
	"time"

	"github.com/robertkrimen/otto"

	"verif/harness/internal/core"
	"verif/harness/internal/jsx"
	"verif/harness/internal/num"
	"verif/harness/internal/tlc"
)

// Prelude: projection of outcomes.  REG holds [object, encoding] pairs.
const Prelude = jsx.Prelude + `
var LOG = [], REG = [];
function H(k){ LOG.push("H"+k); return k; }
function ENCV(v){
  if (v !== null && (typeof v === "object" || typeof v === "function")) {
    for (var i=0;i<REG.length;i++) if (REG[i][0]===v) return REG[i][1];
    return ENCOBJ(v);
  }
  return ENC(v);
}
function ENCOBJ(v){ return {t:"obj", cls:Object.prototype.toString.call(v)}; }
function BEH(o, name, which, b, id){
  if (b.k === "inherit") return;
  if (b.k === "noncallable") { o[name] = 1; return; }
  o[name] = function(){
    LOG.push(which+id);
    if (b.k === "ret") return b.v;
    if (b.k === "retobj") return {};
    throw "T"+(which==="vo"?"v":"s")+id;
  };
}
function MK(id, vo, ts){
  for (var i=0;i<REG.length;i++) if (REG[i][1].t==="cobj" && REG[i][1].id===id) return REG[i][0];
  var o = id >= 50 ? new Date(0) : {}; BEH(o,"valueOf","vo",vo,id); BEH(o,"toString","ts",ts,id);
  REG.push([o,{t:"cobj", id:id}]); return o;
}
function FNP(){} FNP.prototype = 1; var FBP = FNP.bind(null);   // functions whose prototype property is a primitive
function RUN(src){
  LOG = []; REG = [];
  var thr = "", v;
  try { v = (0,eval)(src); }
  catch (e) { if (e instanceof Error) { thr = e.name; v = undefined; } else { thr = "value"; v = e; } }
  return JSON.stringify({thr:thr, v:ENCV(v), log:LOG});
}
`

// Line is one generated case.
type Line struct {
	C   json.RawMessage   `json:"c"`
	Js  []json.RawMessage `json:"js"`
	Exp json.RawMessage   `json:"exp"`
	Dev []json.RawMessage `json:"dev"`
}

// Spec describes a property check built on this driver.
type Spec struct {
	Module   string
	Prelude  string // extra JavaScript appended to the prelude
	Runs     func(c *core.Ctx) []RunCfg
	PerVM    int                                         // cases evaluated per fresh runtime (default 100)
	Compare  func(got, want any) bool                    // optional override of deep equality
	Assume   []string
	NonTrivial func(l *Line) bool
}

type RunCfg struct {
	Name string
	Cfg  string
	Opts tlc.Opts
}

type renderer struct {
	consts map[string]any
	sb     strings.Builder
}

// goNum converts an exactly representable number to the Go value of the named kind.
func goNum(kind string, f float64) (any, error) {
	var v any
	var back float64
	switch kind {
	case "int":
		x := int(f)
		v, back = x, float64(x)
	case "int8":
		x := int8(f)
		v, back = x, float64(x)
	case "int16":
		x := int16(f)
		v, back = x, float64(x)
	case "int32":
		x := int32(f)
		v, back = x, float64(x)
	case "int64":
		x := int64(f)
		v, back = x, float64(x)
	case "uint":
		x := uint(f)
		v, back = x, float64(x)
	case "uint8":
		x := uint8(f)
		v, back = x, float64(x)
	case "uint16":
		x := uint16(f)
		v, back = x, float64(x)
	case "uint32":
		x := uint32(f)
		v, back = x, float64(x)
	case "uint64":
		x := uint64(f)
		v, back = x, float64(x)
	case "float32":
		x := float32(f)
		v, back = x, float64(x)
	case "float64":
		v, back = f, f
	default:
		return nil, fmt.Errorf("gonum: unknown kind %q", kind)
	}
	if back != f {
		return nil, fmt.Errorf("gonum: %v is not a value of kind %s", f, kind)
	}
	return v, nil
}

func (r *renderer) lit(raw json.RawMessage) error {
	var probe map[string]json.RawMessage
	if err := json.Unmarshal(raw, &probe); err != nil {
		// arrays: render as array literal
		var arr []json.RawMessage
		if e2 := json.Unmarshal(raw, &arr); e2 == nil {
			r.sb.WriteByte('[')
			for i, x := range arr {
				if i > 0 {
					r.sb.WriteByte(',')
				}
				if err := r.lit(x); err != nil {
					return err
				}
			}
			r.sb.WriteByte(']')
			return nil
		}
		// plain JSON scalar
		r.sb.Write(raw)
		return nil
	}
	var tag string
	if t, ok := probe["t"]; ok {
		json.Unmarshal(t, &tag)
	}
	switch tag {
	case "undef", "null", "bool", "str":
		var v jsx.Val
		if err := json.Unmarshal(raw, &v); err != nil {
			return err
		}
		s, err := v.Expr(nil)
		if err != nil {
			return err
		}
		r.sb.WriteString(s)
		return nil
	case "num":
		var v jsx.Val
		if err := json.Unmarshal(raw, &v); err != nil {
			return err
		}
		f, err := v.N.Float()
		if err != nil {
			return err
		}
		if s, ok := jsx.NumLit(f); ok {
			if strings.HasPrefix(s, "-") {
				s = "(" + s + ")"
			}
			r.sb.WriteString(s)
			return nil
		}
		name := fmt.Sprintf("K%d", len(r.consts))
		r.consts[name] = f
		r.sb.WriteString(name)
		return nil
	case "gonum":
		// a Number handed over by the embedding program as a Go value of the given kind (Otto.Set)
		var g struct {
			Kind string  `json:"kind"`
			N    *num.N `json:"n"`
		}
		if err := json.Unmarshal(raw, &g); err != nil {
			return err
		}
		f, err := g.N.Float()
		if err != nil {
			return err
		}
		gv, err := goNum(g.Kind, f)
		if err != nil {
			return err
		}
		name := fmt.Sprintf("K%d", len(r.consts))
		r.consts[name] = gv
		r.sb.WriteString(name)
		return nil
	case "cobj":
		var o struct {
			ID int             `json:"id"`
			Vo json.RawMessage `json:"vo"`
			Ts json.RawMessage `json:"ts"`
		}
		if err := json.Unmarshal(raw, &o); err != nil {
			return err
		}
		fmt.Fprintf(&r.sb, "MK(%d,", o.ID)
		if err := r.lit(o.Vo); err != nil {
			return err
		}
		r.sb.WriteByte(',')
		if err := r.lit(o.Ts); err != nil {
			return err
		}
		r.sb.WriteByte(')')
		return nil
	case "fn":
		var o struct {
			Name string `json:"name"`
		}
		json.Unmarshal(raw, &o)
		r.sb.WriteString(o.Name)
		return nil
	}
	// generic record -> object literal with Val-aware members
	keys := make([]string, 0, len(probe))
	for k := range probe {
		keys = append(keys, k)
	}
	sort.Strings(keys)
	r.sb.WriteByte('{')
	for i, k := range keys {
		if i > 0 {
			r.sb.WriteByte(',')
		}
		fmt.Fprintf(&r.sb, "%q:", k)
		if err := r.lit(probe[k]); err != nil {
			return err
		}
	}
	r.sb.WriteByte('}')
	return nil
}

// Render assembles the JavaScript text of a case (constants are float64; a case with Go-typed
// constants needs RenderAny).
func Render(parts []json.RawMessage) (string, map[string]float64, error) {
	src, consts, err := RenderAny(parts)
	if err != nil {
		return "", nil, err
	}
	out := make(map[string]float64, len(consts))
	for k, v := range consts {
		f, ok := v.(float64)
		if !ok {
			return "", nil, fmt.Errorf("Render: constant %s is a Go value of type %T (use RenderAny)", k, v)
		}
		out[k] = f
	}
	return src, out, nil
}

// RenderAny assembles the JavaScript text of a case; constants are set into the runtime as the Go values given.
func RenderAny(parts []json.RawMessage) (string, map[string]any, error) {
	r := &renderer{consts: map[string]any{}}
	for _, p := range parts {
		var s string
		if json.Unmarshal(p, &s) == nil {
			r.sb.WriteString(s)
			continue
		}
		var o struct {
			Lit   json.RawMessage `json:"lit"`
			Units []int           `json:"units"`
		}
		if err := json.Unmarshal(p, &o); err != nil {
			return "", nil, err
		}
		if o.Lit != nil {
			if err := r.lit(o.Lit); err != nil {
				return "", nil, err
			}
		} else {
			r.sb.WriteString(jsx.UnitsString(o.Units))
		}
	}
	return r.sb.String(), r.consts, nil
}

type vmBox struct {
	vm   *otto.Otto
	used int
}

var scriptCache sync.Map

func newVM(prelude string) (*otto.Otto, error) {
	vm := otto.New()
	if err := vm.Set("NUMENC", func(call otto.FunctionCall) otto.Value {
		f, _ := call.Argument(0).ToFloat()
		v, _ := otto.ToValue(jsx.NumEnc(f))
		return v
	}); err != nil {
		return nil, err
	}
	sc, ok := scriptCache.Load(prelude)
	if !ok {
		s, err := vm.Compile("prelude.js", prelude)
		if err != nil {
			return nil, fmt.Errorf("prelude: %v", err)
		}
		scriptCache.Store(prelude, s)
		sc = s
	}
	if _, err := vm.Run(sc.(*otto.Script)); err != nil {
		return nil, fmt.Errorf("prelude run: %v", err)
	}
	return vm, nil
}

// Eval runs src on the box's runtime and returns the outcome JSON.
func (b *vmBox) eval(prelude string, perVM int, src string, consts map[string]any) (out string, err error) {
	defer func() {
		if r := recover(); r != nil {
			b.vm = nil
			out, err = "", fmt.Errorf("GO PANIC: %v", r)
		}
	}()
	if b.vm == nil || b.used >= perVM {
		vm, e := newVM(prelude)
		if e != nil {
			return "", e
		}
		b.vm, b.used = vm, 0
	}
	b.used++
	for k, f := range consts {
		if e := b.vm.Set(k, f); e != nil {
			return "", e
		}
	}
	// watchdog: a built-in that loops forever in Go code never reaches a polling point, so the
	// evaluation is abandoned (its goroutine keeps spinning) and reported as a hang
	type res struct {
		v otto.Value
		e error
		p any
	}
	done := make(chan res, 1)
	vm := b.vm
	go func() {
		var r res
		defer func() {
			if p := recover(); p != nil {
				r.p = p
			}
			done <- r
		}()
		r.v, r.e = vm.Call("RUN", nil, src)
	}()
	select {
	case r := <-done:
		if r.p != nil {
			b.vm = nil
			return "", fmt.Errorf("GO PANIC: %v", r.p)
		}
		if r.e != nil {
			b.vm = nil
			return "", fmt.Errorf("harness RUN failed: %v", r.e)
		}
		return r.v.String(), nil
	case <-time.After(HangTimeout):
		b.vm = nil
		atomic.AddInt64(&Hangs, 1)
		return "", fmt.Errorf("GO PANIC: (no panic, a hang) the evaluation did not return within %v", HangTimeout)
	}
}

// HangTimeout bounds one evaluation; Hangs counts abandoned evaluations (each leaves a spinning goroutine).
var HangTimeout = 60 * time.Second
var Hangs int64

func same(spec *Spec, a string, b json.RawMessage) bool {
	var x, y any
	if json.Unmarshal([]byte(a), &x) != nil || json.Unmarshal(b, &y) != nil {
		return false
	}
	if spec.Compare != nil {
		return spec.Compare(x, y)
	}
	return reflect.DeepEqual(x, y)
}

// Check runs every configured TLC run and replays all cases.
func Check(c *core.Ctx, spec *Spec) (map[string]any, []string, error) {
	prelude := Prelude + spec.Prelude
	perVM := spec.PerVM
	if perVM == 0 {
		perVM = 100
	}
	var nCases, nConform, nDev, nSkipped, nNontrivial int64
	var samples []any
	var smu sync.Mutex
	distinct := sync.Map{}
	var nDistinct int64
	ch := make(chan []byte, 8192)
	var wg sync.WaitGroup
	var firstErr atomic.Value
	for i := 0; i < c.Workers; i++ {
		wg.Add(1)
		go func() {
			defer wg.Done()
			box := &vmBox{}
			for raw := range ch {
				var l Line
				if err := json.Unmarshal(raw, &l); err != nil {
					firstErr.CompareAndSwap(nil, fmt.Errorf("bad line: %v: %s", err, raw[:min(len(raw), 200)]))
					continue
				}
				n := atomic.AddInt64(&nCases, 1)
				if _, seen := distinct.LoadOrStore(string(l.Exp), true); !seen {
					atomic.AddInt64(&nDistinct, 1)
				}
				if spec.NonTrivial == nil || spec.NonTrivial(&l) {
					atomic.AddInt64(&nNontrivial, 1)
				}
				if atomic.LoadInt64(&Hangs) >= 6 {
					// several evaluations already hang (and keep their cores busy): the verdict is a violation, stop here
					atomic.AddInt64(&nSkipped, 1)
					continue
				}
				src, consts, err := RenderAny(l.Js)
				if err != nil {
					firstErr.CompareAndSwap(nil, fmt.Errorf("render: %v: %s", err, raw[:min(len(raw), 300)]))
					continue
				}
				out, err := box.eval(prelude, perVM, src, consts)
				if err != nil && !strings.HasPrefix(err.Error(), "GO PANIC") {
					firstErr.CompareAndSwap(nil, err)
					continue
				}
				if err == nil && same(spec, out, l.Exp) {
					atomic.AddInt64(&nConform, 1)
					if n%9973 == 1 {
						smu.Lock()
						if len(samples) < 6 {
							samples = append(samples, map[string]any{"js": src, "expected": l.Exp})
						}
						smu.Unlock()
					}
					continue
				}
				if err == nil && len(l.Dev) > 0 && same(spec, out, l.Dev[0]) {
					atomic.AddInt64(&nDev, 1)
					c.Hit("deviation")
					continue
				}
				// reproduce on a fresh runtime before reporting
				fresh := &vmBox{}
				out2, err2 := fresh.eval(prelude, perVM, src, consts)
				if (err == nil) != (err2 == nil) || out2 != out {
					if err2 == nil && same(spec, out2, l.Exp) {
						// only the shared runtime misbehaved: an earlier case leaked state
						c.Note("case conforms on a fresh runtime but not on a reused one: %s", src)
					}
					atomic.AddInt64(&nSkipped, 1)
					continue
				}
				detail := fmt.Sprintf("%s  =>  implementation %s ; specification %s", src, trunc(out, 300), trunc(string(l.Exp), 300))
				if err != nil {
					detail = fmt.Sprintf("%s  =>  %v ; specification %s", src, err, trunc(string(l.Exp), 300))
				}
				c.Violate(detail, map[string]any{"js": src, "consts": consts, "case": l.C, "observed": out, "expected": l.Exp})
			}
		}()
	}
	var tlcStats []map[string]any
	var runErr error
	for _, rc := range spec.Runs(c) {
		o := rc.Opts
		o.SpecDir, o.Module, o.Cfg = c.SpecDir, spec.Module, rc.Cfg
		if o.Workers == 0 {
			o.Workers = c.Workers
		}
		if o.Timeout == 0 {
			o.Timeout = 30 * time.Minute
		}
		res, err := tlc.Run(o, func(p []byte) {
			b := make([]byte, len(p))
			copy(b, p)
			ch <- b
		})
		if res != nil {
			tlcStats = append(tlcStats, map[string]any{"config": rc.Name, "generated": res.Generated, "distinct": res.Distinct, "lines": res.Lines, "wall_s": res.Wall})
		}
		if err != nil {
			runErr = err
			break
		}
	}
	close(ch)
	wg.Wait()
	if runErr != nil {
		return nil, nil, runErr
	}
	if e := firstErr.Load(); e != nil {
		return nil, nil, e.(error)
	}
	var states, trans int64
	for _, s := range tlcStats {
		states += s["distinct"].(int64)
		trans += s["generated"].(int64)
	}
	if len(samples) == 0 {
		samples = append(samples, "no conforming case sampled")
	}
	cov := map[string]any{
		"states": states, "transitions": trans, "traces_validated_against_impl": nCases,
		"samples": samples, "tlc_runs": tlcStats,
		"conforming": nConform, "conforming_to_known_deviation": nDev, "non_reproducible_skipped": nSkipped,
		"distinct_expected_outcomes": nDistinct, "evaluations": nCases, "distinct_nontrivial": nDistinct,
		"rule": "one case per TLC state of the generator module; distinct = distinct expected outcomes",
	}
	return cov, append([]string{"trusted: the JavaScript-side outcome projection (harness/internal/gen prelude: ENC, RUN via indirect eval), Go float64 bit projection, TLC"}, spec.Assume...), nil
}

func trunc(s string, n int) string {
	if len(s) > n {
		return s[:n] + "..."
	}
	return s
}

var _ = num.Of
