package c15

import (
	"encoding/json"
	"math"
	"math/big"
	"math/rand"

	"verif/harness/internal/bridge"
)

// randomCases produces n seeded random abstract Go values (family g2j) for the
// specification to evaluate: the harness chooses inputs, TLC computes the
// required observations.
func randomCases(seed int64, n int, fullRange bool) []byte {
	r := rand.New(rand.NewSource(seed))
	// the exact shortest-digits decision costs seconds for exponents in the hundreds:
	// the quick tier keeps binary exponents within +-90, the thorough tier draws a tenth from the full range
	bits64 := func() uint64 {
		u := r.Uint64()
		if fullRange && r.Intn(10) == 0 {
			return u
		}
		e := uint64(1023 - 90 + r.Intn(181))
		return u&^(uint64(0x7ff)<<52) | e<<52
	}
	bits32 := func() uint32 {
		u := r.Uint32()
		if fullRange && r.Intn(10) == 0 {
			return u
		}
		e := uint32(127 - 60 + r.Intn(121))
		return u&^(uint32(0xff)<<23) | e<<23
	}
	var out []byte
	emit := func(g M) {
		b, _ := json.Marshal(M{"fam": "g2j", "g": g})
		out = append(out, b...)
		out = append(out, '\n')
	}
	intKinds := []struct {
		k    string
		bits uint
		sgn  bool
	}{{"int", 64, true}, {"int8", 8, true}, {"int16", 16, true}, {"int32", 32, true}, {"int64", 64, true},
		{"uint", 64, false}, {"uint8", 8, false}, {"uint16", 16, false}, {"uint32", 32, false}, {"uint64", 64, false}}
	pool := []rune{'a', 'Z', '0', '1', '5', '9', ' ', '.', '-', '+', 'e', 'E', 'x', 0xe9, 0x4e2d, 0x1F600, 0x3a9, '\t', 0xfeff, 'I', 'n', 'f'}
	for i := 0; i < n; i++ {
		if r.Intn(5) == 0 {
			// the other direction: a random JavaScript number or string, judged through the Value conversions
			if r.Intn(2) == 0 {
				f := math.Float64frombits(bits64())
				if r.Intn(3) == 0 {
					f = math.Trunc(f)
				}
				if a := math.Abs(f); math.IsNaN(f) || (a >= 9.99e20 && a < 1e21) || (a >= 9.99e-7 && a < 1e-6) {
					f = -2.5
				}
				b, _ := json.Marshal(M{"fam": "j2g", "conv": true, "v": M{"t": "num", "n": bridge.NumJSON(f)}})
				out = append(append(out, b...), '\n')
			} else {
				l := r.Intn(7)
				rs := make([]rune, l)
				for j := range rs {
					rs[j] = pool[r.Intn(len(pool))]
				}
				b, _ := json.Marshal(M{"fam": "j2g", "conv": true, "v": M{"t": "str", "s": bridge.Units(string(rs))}})
				out = append(append(out, b...), '\n')
			}
			continue
		}
		switch r.Intn(4) {
		case 0: // integers: random bit patterns, often with only the top or bottom bits set
			ik := intKinds[r.Intn(len(intKinds))]
			u := r.Uint64()
			switch r.Intn(4) {
			case 0:
				u >>= uint(r.Intn(64))
			case 1:
				u = ^uint64(0) - u>>uint(r.Intn(64))
			case 2:
				u = uint64(1)<<uint(r.Intn(64)) + uint64(r.Intn(5)) - 2
			}
			z := new(big.Int)
			if ik.sgn {
				v := int64(u)
				if ik.bits < 64 {
					v = v << (64 - ik.bits) >> (64 - ik.bits)
				}
				z.SetInt64(v)
			} else {
				if ik.bits < 64 {
					u &= uint64(1)<<ik.bits - 1
				}
				z.SetUint64(u)
			}
			emit(M{"k": ik.k, "z": bridge.ZOfBig(z)})
		case 1: // float64: random bit patterns, decimal-like values, integers between 2^53 and 2^64
			var f float64
			switch r.Intn(4) {
			case 0:
				f = math.Float64frombits(bits64())
			case 1:
				f = float64(r.Int63n(1e9)) * math.Pow(10, float64(r.Intn(30)-18))
			case 2:
				f = float64(r.Uint64())
			default:
				f = float64(r.Intn(2000001)-1000000) / 8
			}
			if math.IsNaN(f) {
				f = math.NaN()
			}
			// the doubles just below 1e21 and 1e-6 are C06's finding D50 (ToString layout): not this property's business
			if a := math.Abs(f); (a >= 9.99e20 && a < 1e21) || (a >= 9.99e-7 && a < 1e-6) {
				f = 1
			}
			emit(M{"k": "float64", "n": bridge.NumJSON(f)})
		case 2: // float32
			f := math.Float32frombits(bits32())
			if f != f {
				f = float32(math.NaN())
			}
			if a := math.Abs(float64(f)); (a >= 9.99e20 && a < 1e21) || (a >= 9.99e-7 && a < 1e-6) {
				f = 1
			}
			emit(M{"k": "float32", "n": bridge.NumJSON(float64(f))})
		default: // strings over a pool that forms numeric-looking texts as well as 1-4 byte characters
			l := r.Intn(7)
			rs := make([]rune, l)
			for j := range rs {
				rs[j] = pool[r.Intn(len(pool))]
			}
			emit(M{"k": "string", "s": bridge.Units(string(rs))})
		}
	}
	return out
}
