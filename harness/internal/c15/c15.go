// Package c15 binds spec/Bridge.tla + spec/C15.tla to otto's Go API: every
// case TLC prints (an abstract Go value, a JavaScript value or an API call with
// the outcome the specification requires) is built by reflection, run through
// Set/Get/Export/ToInteger/ToFloat/ToString/ToBoolean/MarshalJSON, the Value
// predicates or Value.Call/Object.Call/Otto.Call, and the projected
// observation is compared with the expectation.
package c15

import (
	"encoding/json"
	"fmt"
	"math/big"
	"reflect"
	"strings"
	"sync"
	"sync/atomic"
	"time"

	"github.com/robertkrimen/otto"

	"verif/harness/internal/bridge"
	"verif/harness/internal/core"
	"verif/harness/internal/gen"
	"verif/harness/internal/jsx"
	"verif/harness/internal/tlc"
)

type M = map[string]any

const prelude = gen.Prelude + bridge.Prelude + `
var G = this;
function THISOBS(t){
  if (t === G) return {k:"global"};
  if (t === O) return {k:"O"};
  var cls = Object.prototype.toString.call(t);
  if (cls === "[object Number]" || cls === "[object String]" || cls === "[object Boolean]") return {k:"boxed", v:ENC(t.valueOf())};
  return {k:"other", cls:cls};
}
function CF(){
  var a = [];
  for (var i=0;i<arguments.length;i++) a.push(OBS(arguments[i]));
  return JSON.stringify({th:THISOBS(this), a:a});
}
var O = {m:CF};
var LASTCALL = null;
function MKF(name){
  var f = function(){
    var a = [];
    for (var i=0;i<arguments.length;i++) a.push(OBS(arguments[i]));
    var made = this instanceof f;
    LASTCALL = {callee:name, construct:made,
                th: made ? "newobj" : (this === G ? "global" : (this === O ? "O" : ((this === news || this === ns) ? "owner" : "other"))), a:a};
    if (made) this.tag = name;
    return "R:" + name;
  };
  return f;
}
var Point = MKF("Point"), newPoint = MKF("newPoint"), newest = MKF("newest"), renew = MKF("renew");
var news = {count: MKF("count")};
var ns = {newB: MKF("newB"), renew: MKF("renew"), C: MKF("C")};
ns["new"] = MKF("new");
function TF(){ throw new RangeError("q"); }
var N = 5;
var OE = {t:TF, n:5};
`

type line struct {
	C   json.RawMessage   `json:"c"`
	Js  []json.RawMessage `json:"js"`
	Exp json.RawMessage   `json:"exp"`
	Dev []json.RawMessage `json:"dev"`
}

type caseT struct {
	K     string `json:"k"`
	Key   []int  `json:"key"`
	Steps []M    `json:"steps"`
	CSrc  M      `json:"csrc"`
	Where string `json:"where"`
	D     any    `json:"d"`
	Sel   string `json:"sel"`
	Op    M      `json:"op"`
	What  string `json:"what"`
	Fam   string `json:"fam"`
	G     any    `json:"g"`
	Conv  bool   `json:"conv"`
	Route string `json:"route"`
	Src   string `json:"src"`
	Th    M      `json:"th"`
	Args  []any  `json:"args"`
}

func isScalar(g any) bool {
	m, _ := g.(map[string]any)
	switch m["k"] {
	case "ptr":
		return isScalar(m["to"])
	case "named":
		return isScalar(m["base"])
	case "slice", "map", "struct", "imap", "nstruct":
		return false
	}
	return true
}

// Mutate, when set (self-test), corrupts the adapter: see SelfTest.
var mutate atomic.Bool

// lastPanic keeps the text of the most recent Go panic for violation reports (the text is not compared).
var lastPanic atomic.Value

func parseObj(s string) (any, error) {
	var v any
	if err := json.Unmarshal([]byte(s), &v); err != nil {
		return nil, fmt.Errorf("%v in %q", err, s)
	}
	return v, nil
}

func runG2J(vm *otto.Otto, c *caseT) (M, error) {
	gv, err := bridge.Build(c.G)
	if err != nil {
		return nil, err
	}
	scalar := isScalar(c.G)
	obs := M{}
	if err := vm.Set("x", gv); err != nil {
		return M{"set": "error: " + err.Error()}, nil
	}
	sc := "false"
	if scalar {
		sc = "true"
	}
	r, err := vm.Run("OBSTOP(x, " + sc + ")")
	if err != nil {
		return M{"script": "error: " + err.Error()}, nil
	}
	jsObs, err := parseObj(r.String())
	if err != nil {
		return nil, err
	}
	for k, v := range jsObs.(map[string]any) {
		obs[k] = v
	}
	v, err := vm.Get("x")
	if err != nil {
		return M{"get": "error: " + err.Error()}, nil
	}
	e, err := v.Export()
	if err != nil {
		return M{"export": "error: " + err.Error()}, nil
	}
	obs["exp"] = bridge.Project(e)
	if scalar {
		i, err := v.ToInteger()
		if err != nil {
			obs["toInt"] = "error: " + err.Error()
		} else {
			if mutate.Load() {
				i++ // seeded adapter fault: every ToInteger reading is off by one
			}
			obs["toInt"] = bridge.ZOfInt64(i)
		}
		f, err := v.ToFloat()
		if err != nil {
			obs["toFloat"] = "error: " + err.Error()
		} else {
			obs["toFloat"] = bridge.NumJSON(f)
		}
		s, err := v.ToString()
		if err != nil {
			obs["toStr"] = "error: " + err.Error()
		} else {
			obs["toStr"] = bridge.Units(s)
		}
		b, err := v.ToBoolean()
		if err != nil {
			obs["toBool"] = "error: " + err.Error()
		} else {
			obs["toBool"] = b
		}
	}
	jb, err := v.MarshalJSON()
	if err != nil {
		obs["json"] = M{"j": "error"}
	} else {
		t, err := bridge.JSONTree(jb)
		if err != nil {
			obs["json"] = M{"j": "unparsable", "text": string(jb)}
		} else {
			obs["json"] = t
		}
	}
	return obs, nil
}

func readLog(vm *otto.Otto) []any {
	r, err := vm.Run("var L__ = JSON.stringify(LOG); LOG = []; L__")
	if err != nil {
		return []any{"log unreadable: " + err.Error()}
	}
	var l []any
	json.Unmarshal([]byte(r.String()), &l)
	if l == nil {
		l = []any{}
	}
	return l
}

func convResult(vm *otto.Otto, val any, err error) M {
	log := readLog(vm)
	if err != nil {
		cls := bridge.ErrClass(err)
		if cls == "value" {
			return M{"thr": "value", "v": M{"t": "str", "s": bridge.Units(err.Error())}, "log": log}
		}
		return M{"thr": cls, "v": M{"t": "undef"}, "log": log}
	}
	return M{"thr": "", "v": val, "log": log}
}

func guard(f func()) (panicked any) {
	defer func() {
		if r := recover(); r != nil {
			panicked = r
		}
	}()
	f()
	return nil
}

func runJ2G(vm *otto.Otto, c *caseT, src string, consts map[string]float64) (M, error) {
	for k, f := range consts {
		if err := vm.Set(k, f); err != nil {
			return nil, err
		}
	}
	if _, err := vm.Run("LOG = []; REG = [];"); err != nil {
		return nil, err
	}
	v, err := vm.Run(src)
	if err != nil {
		return nil, fmt.Errorf("case text %q failed: %v", src, err)
	}
	readLog(vm)
	base := M{"undef": v.IsUndefined(), "null": v.IsNull(), "bool": v.IsBoolean(), "num": v.IsNumber(), "str": v.IsString(),
		"obj": v.IsObject(), "fn": v.IsFunction(), "cls": bridge.Units(v.Class())}
	if v.IsPrimitive() == v.IsObject() || v.IsDefined() == v.IsUndefined() {
		base["inconsistent"] = true
	}
	var e interface{}
	if p := guard(func() { e, _ = v.Export() }); p != nil {
		base["exp"] = M{"x": "gopanic"}
	} else {
		base["exp"] = bridge.ProjectX(e)
	}
	obs := M{"base": base}
	if !c.Conv {
		return obs, nil
	}
	var isnan bool
	if p := guard(func() { isnan = v.IsNaN() }); p != nil {
		obs["isnan"] = "gopanic"
	} else if isnan {
		obs["isnan"] = "true"
	} else {
		obs["isnan"] = "false"
	}
	readLog(vm)
	i, err := v.ToInteger()
	obs["toInt"] = convResult(vm, M{"t": "num", "n": bridge.ZOfInt64(i)}, err)
	f, err := v.ToFloat()
	obs["toFloat"] = convResult(vm, M{"t": "num", "n": bridge.NumJSON(f)}, err)
	s, err := v.ToString()
	obs["toStr"] = convResult(vm, M{"t": "str", "s": bridge.Units(s)}, err)
	b, err := v.ToBoolean()
	if err != nil {
		obs["toBool"] = "error: " + err.Error()
	} else {
		obs["toBool"] = b
	}
	return obs, nil
}

// runMut: a length-changing script step on a container nested in a *Doc; afterwards the script's view of x,
// the Go variable and what Export returns are projected.
func runMut(vm *otto.Otto, c *caseT) (M, error) {
	d, err := bridge.BuildDoc(c.D)
	if err != nil {
		return nil, err
	}
	X, err := bridge.PlaceDoc(vm, c.Where, d)
	if err != nil {
		return nil, err
	}
	P, err := bridge.DocPath(X, c.Sel)
	if err != nil {
		return nil, err
	}
	var parts []json.RawMessage
	str := func(t string) { b, _ := json.Marshal(t); parts = append(parts, b) }
	val := func() {
		if js, ok := c.Op["js"].([]any); ok {
			for _, p := range js {
				b, _ := json.Marshal(p)
				parts = append(parts, b)
			}
		}
	}
	switch c.Op["op"] {
	case "jspush":
		str("RET = " + P + ".push(")
		val()
		str(")")
	case "jsunshift":
		str("RET = " + P + ".unshift(")
		val()
		str(")")
	case "jswrite":
		str(fmt.Sprintf("RET = (%s[%d] = ", P, int(c.Op["i"].(float64))))
		val()
		str(")")
	case "jspop":
		str("RET = " + P + ".pop()")
	case "jsshift":
		str("RET = " + P + ".shift()")
	case "jssplice":
		str("RET = " + P + ".splice(0, 1)")
	case "jssetlen":
		str(fmt.Sprintf("RET = (%s.length = %d)", P, int(c.Op["n"].(float64))))
	default:
		return nil, fmt.Errorf("unknown step %v", c.Op["op"])
	}
	body, consts, err := gen.Render(parts)
	if err != nil {
		return nil, err
	}
	for k, f := range consts {
		if err := vm.Set(k, f); err != nil {
			return nil, err
		}
	}
	stmt := "var THR = 'none', RET; try { " + body + "; THR = ''; } catch (e) { THR = (e instanceof Error) ? e.name : 'value'; }"
	thr := ""
	if _, err := vm.Run(stmt); err != nil {
		thr = "uncaught:" + bridge.ErrClass(err)
	} else if t, e := vm.Get("THR"); e == nil {
		thr = t.String()
	}
	obs := M{"thr": thr}
	var ret any = M{"t": "undef"}
	if thr == "" {
		r, e := vm.Run("JSON.stringify(OBS(RET))")
		if e != nil || json.Unmarshal([]byte(r.String()), &ret) != nil {
			ret = M{"unobservable": fmt.Sprint(e)}
		}
	}
	obs["ret"] = ret
	var view any
	r, e := vm.Run("JSON.stringify(OBS(x))")
	if e != nil || json.Unmarshal([]byte(r.String()), &view) != nil {
		view = M{"unobservable": fmt.Sprint(e)}
	}
	obs["js"] = view
	obs["go"] = bridge.DocForm(d)
	xv, err := vm.Get("x")
	if err != nil {
		return nil, err
	}
	ex, _ := xv.Export()
	ed := bridge.ExportedDoc(c.Where, ex)
	obs["export"] = bridge.DocForm(ed)
	obs["same"] = ed == d
	return obs, nil
}

// runDag: Export of a value with shared and cyclic containers.
func runDag(vm *otto.Otto, src string, consts map[string]float64) (M, error) {
	for k, f := range consts {
		if err := vm.Set(k, f); err != nil {
			return nil, err
		}
	}
	v, err := vm.Run(src)
	if err != nil {
		return nil, fmt.Errorf("case text %q failed: %v", src, err)
	}
	var e interface{}
	if p := guard(func() { e, _ = v.Export() }); p != nil {
		return M{"exp": M{"x": "gopanic"}}, nil
	}
	return M{"exp": bridge.ProjectX(e)}, nil
}

// runCallSrc: Otto.Call with a callee source / Object.Call with a method name; the callee records how it was invoked.
func runCallSrc(vm *otto.Otto, c *caseT) (M, error) {
	args := make([]interface{}, len(c.Args))
	for i, a := range c.Args {
		g, err := bridge.Build(a)
		if err != nil {
			return nil, err
		}
		args[i] = g
	}
	if _, err := vm.Run("LASTCALL = null"); err != nil {
		return nil, err
	}
	var path []string
	for _, p := range c.CSrc["path"].([]any) {
		path = append(path, p.(string))
	}
	var r otto.Value
	var err error
	if c.Route == "object" {
		o, e := vm.Object(path[0])
		if e != nil {
			return nil, e
		}
		r, err = o.Call(path[1], args...)
	} else {
		source := strings.Join(path, ".")
		if isNew, _ := c.CSrc["new"].(bool); isNew {
			source = "new" + strings.Repeat(" ", int(c.CSrc["sp"].(float64))) + source
		}
		var this interface{}
		if c.Th["k"] == "objO" {
			ov, e := vm.Get("O")
			if e != nil {
				return nil, e
			}
			this = ov
		}
		r, err = vm.Call(source, this, args...)
	}
	if err != nil {
		return M{"error": bridge.ErrClass(err)}, nil
	}
	lc, e := vm.Run("JSON.stringify(LASTCALL)")
	if e != nil {
		return nil, e
	}
	obs, perr := parseObj(lc.String())
	m, ok := obs.(map[string]any)
	if perr != nil || !ok {
		return M{"lastcall": lc.String()}, nil
	}
	if r.IsObject() {
		tag, _ := r.Object().Get("tag")
		m["ret"] = "obj:" + tag.String()
	} else {
		m["ret"] = r.String()
	}
	return m, nil
}

// runMapW: undefined / null (and a value, then null) written by a script into a bridged map; afterwards one key is
// observed through `in`, Object.keys, m[key], the Go map (presence and value), MarshalJSON and Export.
func runMapW(vm *otto.Otto, c *caseT) (M, error) {
	var mp reflect.Value
	var et reflect.Type
	switch c.K {
	case "iface":
		mp = reflect.ValueOf(map[string]interface{}{"a": 1})
	case "int8":
		mp = reflect.ValueOf(map[string]int8{"a": 1})
	case "string":
		mp = reflect.ValueOf(map[string]string{"a": "v"})
	case "bool":
		mp = reflect.ValueOf(map[string]bool{"a": true})
	case "ptr:inner":
		mp = reflect.ValueOf(map[string]*bridge.Inner{"a": {N: 1}})
	case "slice:int8":
		mp = reflect.ValueOf(map[string][]int8{"a": {1}})
	case "map:int8":
		mp = reflect.ValueOf(map[string]map[string]int8{"a": {"x": 1}})
	default:
		return nil, fmt.Errorf("unknown element kind %q", c.K)
	}
	et = mp.Type().Elem()
	if err := vm.Set("m", mp.Interface()); err != nil {
		return nil, err
	}
	thr := ""
	for _, st := range c.Steps {
		var parts []json.RawMessage
		b, _ := json.Marshal("m[" + jsx.StrLit(intsOf(st["key"])) + "] = ")
		parts = append(parts, b)
		if js, ok := st["js"].([]any); ok {
			for _, p := range js {
				pb, _ := json.Marshal(p)
				parts = append(parts, pb)
			}
		}
		body, consts, err := gen.Render(parts)
		if err != nil {
			return nil, err
		}
		for k, f := range consts {
			if err := vm.Set(k, f); err != nil {
				return nil, err
			}
		}
		stmt := "var THR = 'none'; try { " + body + "; THR = ''; } catch (e) { THR = (e instanceof Error) ? e.name : 'value'; }"
		if _, err := vm.Run(stmt); err != nil {
			thr = "uncaught:" + bridge.ErrClass(err)
		} else if t, e := vm.Get("THR"); e == nil {
			thr = t.String()
		}
	}
	key := jsx.StrLit(c.Key)
	obs := M{"thr": thr}
	r, err := vm.Run("JSON.stringify({has: (" + key + " in m), keys: Object.keys(m).sort(CMPU).map(UNITS), val: OBS(m[" + key + "])})")
	if err != nil {
		return M{"thr": thr, "unobservable": err.Error()}, nil
	}
	js, err := parseObj(r.String())
	if err != nil {
		return nil, err
	}
	for k, v := range js.(map[string]any) {
		obs[k] = v
	}
	goKey := reflect.ValueOf(jsx.UnitsString(c.Key))
	form := func(ev reflect.Value) any {
		if !ev.IsValid() {
			return M{"k": "absent"}
		}
		switch et.Kind() {
		case reflect.Ptr, reflect.Slice, reflect.Map:
			if ev.IsNil() {
				return M{"k": "nilval", "of": c.K}
			}
			if in, ok := ev.Interface().(*bridge.Inner); ok && in.Tags == nil && in.Sizes == nil {
				return M{"k": "innerval", "N": bridge.ZOfInt64(int64(in.N))}
			}
			return M{"k": "nonnil"}
		}
		return bridge.ProjectAs(ev, et)
	}
	obs["go"] = form(mp.MapIndex(goKey))
	mv, err := vm.Get("m")
	if err != nil {
		return nil, err
	}
	ex, _ := mv.Export()
	exv := reflect.ValueOf(ex)
	obs["same"] = exv.IsValid() && exv.Kind() == reflect.Map && exv.Pointer() == mp.Pointer()
	obs["json"] = M{"j": "absent"}
	if jb, err := mv.MarshalJSON(); err != nil {
		obs["json"] = M{"j": "error"}
	} else if tree, err := bridge.JSONTree(jb); err != nil {
		obs["json"] = M{"j": "unparsable"}
	} else if tm, ok := tree.(bridge.M); ok && tm["j"] == "obj" {
		ks, _ := tm["keys"].([]any)
		vs, _ := tm["vals"].([]any)
		for i, k := range ks {
			if reflect.DeepEqual(norm(k), norm(bridge.Units(jsx.UnitsString(c.Key)))) {
				obs["json"] = vs[i]
			}
		}
	}
	return obs, nil
}

func intsOf(v any) []int {
	a, _ := v.([]any)
	out := make([]int, len(a))
	for i, x := range a {
		out[i] = int(x.(float64))
	}
	return out
}

// runCallErr: calls that must fail: the callee throws, the value is not callable, the name does not resolve.
func runCallErr(vm *otto.Otto, c *caseT) (M, error) {
	var err error
	switch c.Route {
	case "value":
		name := "TF"
		if c.What == "notcallable" {
			name = "N"
		}
		f, e := vm.Get(name)
		if e != nil {
			return nil, e
		}
		_, err = f.Call(otto.UndefinedValue(), 1)
	case "object":
		o, e := vm.Object("OE")
		if e != nil {
			return nil, e
		}
		name := "t"
		if c.What == "notcallable" {
			name = "n"
		}
		_, err = o.Call(name, 1)
	case "otto":
		src := map[string]string{"throws": "TF", "notcallable": "OE.n", "unresolvable": "nosuchfunction"}[c.What]
		_, err = vm.Call(src, nil, 1)
	default:
		return nil, fmt.Errorf("bad route %q", c.Route)
	}
	if err == nil {
		return M{"err": ""}, nil
	}
	return M{"err": bridge.ErrClass(err)}, nil
}

func runCall(vm *otto.Otto, c *caseT) (M, error) {
	args := make([]interface{}, len(c.Args))
	for i, a := range c.Args {
		g, err := bridge.Build(a)
		if err != nil {
			return nil, err
		}
		args[i] = g
	}
	oVal, err := vm.Get("O")
	if err != nil {
		return nil, err
	}
	var thisV otto.Value
	var thisI interface{}
	switch c.Th["k"] {
	case "undef":
		thisV = otto.UndefinedValue()
		thisI = thisV
	case "null":
		thisV = otto.NullValue()
		thisI = thisV
	case "objO":
		thisV = oVal
		thisI = oVal
	case "gonil":
		thisI = nil
	case "prim":
		g, err := bridge.Build(c.Th["g"])
		if err != nil {
			return nil, err
		}
		thisI = g
		if thisV, err = vm.ToValue(g); err != nil {
			return nil, err
		}
	default:
		return nil, fmt.Errorf("bad this %v", c.Th)
	}
	var r otto.Value
	switch c.Route {
	case "value":
		f, err := vm.Get("CF")
		if err != nil {
			return nil, err
		}
		r, err = f.Call(thisV, args...)
		if err != nil {
			return M{"error": err.Error()}, nil
		}
	case "object":
		r, err = oVal.Object().Call("m", args...)
		if err != nil {
			return M{"error": err.Error()}, nil
		}
	case "otto":
		r, err = vm.Call(c.Src, thisI, args...)
		if err != nil {
			return M{"error": err.Error()}, nil
		}
	default:
		return nil, fmt.Errorf("bad route %q", c.Route)
	}
	o, err := parseObj(r.String())
	if err != nil {
		return M{"result": r.String()}, nil
	}
	return o.(map[string]any), nil
}

type vmBox struct {
	vm   *otto.Otto
	used int
}

// execute runs one case; a Go panic escaping an API call is reported as such.
func (b *vmBox) execute(l *line, fresh bool) (obs any, src string, err error) {
	var c caseT
	if e := json.Unmarshal(l.C, &c); e != nil {
		return nil, "", e
	}
	if fresh || b.vm == nil || b.used >= 50 {
		vm, e := bridge.NewVM(prelude)
		if e != nil {
			return nil, "", e
		}
		b.vm, b.used = vm, 0
	}
	b.used++
	var consts map[string]float64
	if c.Fam == "j2g" || c.Fam == "dag" {
		src, consts, err = gen.Render(l.Js)
		if err != nil {
			return nil, "", err
		}
	}
	var m M
	p := guard(func() {
		switch c.Fam {
		case "g2j":
			m, err = runG2J(b.vm, &c)
		case "j2g":
			m, err = runJ2G(b.vm, &c, src, consts)
		case "call":
			m, err = runCall(b.vm, &c)
		case "callerr":
			m, err = runCallErr(b.vm, &c)
		case "mut":
			m, err = runMut(b.vm, &c)
		case "mapw":
			m, err = runMapW(b.vm, &c)
		case "dag":
			m, err = runDag(b.vm, src, consts)
		case "callsrc":
			m, err = runCallSrc(b.vm, &c)
		default:
			err = fmt.Errorf("unknown family %q", c.Fam)
		}
	})
	if p != nil {
		b.vm = nil
		lastPanic.Store(fmt.Sprint(p))
		return M{"gopanic": true}, src, nil
	}
	return m, src, err
}

func norm(v any) any {
	b, _ := json.Marshal(v)
	var x any
	json.Unmarshal(b, &x)
	return x
}

func same(obs any, want json.RawMessage) bool {
	var y any
	if json.Unmarshal(want, &y) != nil {
		return false
	}
	return reflect.DeepEqual(norm(obs), y)
}

func trunc(s string, n int) string {
	if len(s) > n {
		return s[:n] + "..."
	}
	return s
}

func js(v any) string { b, _ := json.Marshal(v); return string(b) }

// diff names the first top-level fields in which observation and expectation differ.
func diff(obs any, want json.RawMessage) string {
	var y any
	json.Unmarshal(want, &y)
	x := norm(obs)
	xm, ok1 := x.(map[string]any)
	ym, ok2 := y.(map[string]any)
	if !ok1 || !ok2 {
		return fmt.Sprintf("observed %s ; required %s", trunc(js(x), 300), trunc(js(y), 300))
	}
	var parts []string
	for k, yv := range ym {
		if xv, ok := xm[k]; !ok || !reflect.DeepEqual(xv, yv) {
			if xs, ok := xv.(map[string]any); ok {
				if ys, ok := yv.(map[string]any); ok {
					for kk, yy := range ys {
						if !reflect.DeepEqual(xs[kk], yy) {
							parts = append(parts, fmt.Sprintf("%s.%s: observed %s ; required %s", k, kk, trunc(js(xs[kk]), 200), trunc(js(yy), 200)))
						}
					}
					continue
				}
			}
			parts = append(parts, fmt.Sprintf("%s: observed %s ; required %s", k, trunc(js(xv), 200), trunc(js(yv), 200)))
		}
	}
	for k, xv := range xm {
		if _, ok := ym[k]; !ok {
			parts = append(parts, fmt.Sprintf("%s: observed %s ; not expected", k, trunc(js(xv), 200)))
		}
	}
	return strings.Join(parts, " | ")
}

type stats struct {
	cases, conform, dev, skipped int64
	byFam                         sync.Map
}

func cfg(c *core.Ctx, src string) string {
	return fmt.Sprintf("CONSTANTS\n OpenDev = %s\n Tier = %q\n Src = %q\nINIT Init\nNEXT Next\nINVARIANT Emit\nCHECK_DEADLOCK FALSE\n",
		core.TLASet(c.Findings.OpenIDs()), c.Tier, src)
}

// replay consumes lines, compares and reports; returns the number of rejected lines.
func replay(c *core.Ctx, ch chan []byte, st *stats, samples *[]any, report bool) int64 {
	var rejected int64
	var smu sync.Mutex
	var wg sync.WaitGroup
	var firstErr atomic.Value
	for i := 0; i < c.Workers; i++ {
		wg.Add(1)
		go func() {
			defer wg.Done()
			box := &vmBox{}
			for raw := range ch {
				var l line
				if err := json.Unmarshal(raw, &l); err != nil {
					firstErr.CompareAndSwap(nil, fmt.Errorf("bad line: %v: %s", err, trunc(string(raw), 200)))
					continue
				}
				n := atomic.AddInt64(&st.cases, 1)
				var cc struct {
					Fam string `json:"fam"`
				}
				json.Unmarshal(l.C, &cc)
				cnt, _ := st.byFam.LoadOrStore(cc.Fam, new(int64))
				atomic.AddInt64(cnt.(*int64), 1)
				obs, src, err := box.execute(&l, false)
				if err != nil {
					firstErr.CompareAndSwap(nil, fmt.Errorf("case %s: %v", trunc(string(l.C), 300), err))
					continue
				}
				if same(obs, l.Exp) {
					atomic.AddInt64(&st.conform, 1)
					if n%397 == 1 {
						smu.Lock()
						if len(*samples) < 6 {
							*samples = append(*samples, M{"case": l.C, "js": src, "expected": l.Exp})
						}
						smu.Unlock()
					}
					continue
				}
				if len(l.Dev) > 0 && same(obs, l.Dev[0]) {
					atomic.AddInt64(&st.dev, 1)
					c.Hit("deviation")
					continue
				}
				fresh := &vmBox{}
				obs2, _, err2 := fresh.execute(&l, true)
				if err2 != nil || !reflect.DeepEqual(norm(obs), norm(obs2)) {
					if err2 == nil && same(obs2, l.Exp) {
						c.Note("case conforms on a fresh runtime but not on a reused one: %s", trunc(string(l.C), 200))
					}
					atomic.AddInt64(&st.skipped, 1)
					continue
				}
				atomic.AddInt64(&rejected, 1)
				if report {
					detail := fmt.Sprintf("case %s %s => %s", trunc(string(l.C), 400), src, diff(obs, l.Exp))
					if m, ok := obs.(M); ok && m["gopanic"] == true {
						detail += fmt.Sprintf(" (a Go panic escaped; most recent panic text: %v)", lastPanic.Load())
					}
					c.Violate(detail, M{"case": l.C, "js": src, "observed": obs, "expected": l.Exp})
				}
			}
		}()
	}
	wg.Wait()
	if e := firstErr.Load(); e != nil {
		c.Note("harness error: %v", e)
		atomic.AddInt64(&rejected, -1<<40)
	}
	return rejected
}

// Check runs the property.
func Check(c *core.Ctx) (map[string]any, []string, error) {
	st := &stats{}
	var samples []any
	ch := make(chan []byte, 4096)
	var keep [][]byte
	var kmu sync.Mutex
	nseen := 0
	done := make(chan int64)
	go func() { done <- replay(c, ch, st, &samples, true) }()
	nRandom := 500
	if c.Thorough() {
		nRandom = 20000
	}
	var res2 *tlc.Result
	res, err := tlc.Run(tlc.Opts{SpecDir: c.SpecDir, Module: "C15", Cfg: cfg(c, "enum"), Workers: c.Workers, Timeout: 30 * time.Minute, Seed: c.Seed},
		func(p []byte) {
			b := make([]byte, len(p))
			copy(b, p)
			kmu.Lock()
			nseen++
			if nseen%5 == 0 && len(keep) < 400 {
				keep = append(keep, b)
			}
			kmu.Unlock()
			ch <- b
		})
	if err == nil {
		// harness-chosen random Go values, expectations still computed by the specification
		res2, err = tlc.Run(tlc.Opts{SpecDir: c.SpecDir, Module: "C15", Cfg: cfg(c, "file"), Workers: c.Workers, Timeout: 30 * time.Minute, Seed: c.Seed,
			Files: map[string][]byte{"c15cases.ndjson": randomCases(c.Seed, nRandom, c.Thorough())}},
			func(p []byte) {
				b := make([]byte, len(p))
				copy(b, p)
				ch <- b
			})
	}
	close(ch)
	rej := <-done
	if err != nil {
		return nil, nil, err
	}
	if rej < 0 {
		return nil, nil, fmt.Errorf("harness errors (see notes): %v", c.Violations())
	}
	// self-test of the binding: (1) a mutated adapter (ToInteger 7 reported as 8) and (2) a corrupted
	// expectation (one field of an emitted line changed) must both be rejected
	selfOK := selfTest(c, keep)
	byFam := M{}
	st.byFam.Range(func(k, v any) bool { byFam[k.(string)] = atomic.LoadInt64(v.(*int64)); return true })
	if len(samples) == 0 {
		samples = append(samples, "no conforming case sampled")
	}
	cov := map[string]any{
		"states": res.Distinct + res2.Distinct, "transitions": res.Generated + res2.Generated, "traces_validated_against_impl": st.cases,
		"samples": samples, "tlc_runs": []any{M{"config": "C15 enumerated families", "generated": res.Generated, "distinct": res.Distinct, "lines": res.Lines, "wall_s": res.Wall},
			M{"config": fmt.Sprintf("C15 %d seeded random values (harness-generated: Go values of every kind, JavaScript numbers and strings)", nRandom), "generated": res2.Generated, "distinct": res2.Distinct, "lines": res2.Lines, "wall_s": res2.Wall}},
		"random_go_values": nRandom,
		"conforming": st.conform, "conforming_to_known_deviation": st.dev, "non_reproducible_skipped": st.skipped,
		"cases_by_family": byFam, "binding_self_test_rejected": selfOK,
	}
	if !selfOK {
		return nil, nil, fmt.Errorf("binding self-test failed: a mutated adapter or corrupted expectation was accepted")
	}
	assumptions := []string{
		"trusted: the reflection-based construction and projection of Go values (harness/internal/bridge), the JavaScript observation OBS/ENC, Go float64 bit projection, TLC",
		"Go strings are valid UTF-8 (lone surrogates have no Go string); int and uint are 64-bit",
		"nil and nil pointers are required to appear as undefined (value.go documents undefined <-> nil); float32 reads back widened to float64",
		"the Go type of exported JavaScript numbers and the element typing of exported arrays are not judged (Export documents only 'a number type'); structure and values are",
	}
	return cov, assumptions, nil
}

func selfTest(c *core.Ctx, keep [][]byte) bool {
	if len(keep) == 0 {
		return false
	}
	quiet := &core.Ctx{Property: c.Property, Tier: c.Tier, Seed: c.Seed, SpecDir: c.SpecDir, Workers: 2, Findings: c.Findings, Start: c.Start, KnownHits: map[string]int64{}}
	// (1) mutated adapter
	mutate.Store(true)
	ch := make(chan []byte, len(keep))
	for _, b := range keep {
		ch <- b
	}
	close(ch)
	var s1 []any
	r1 := replay(quiet, ch, &stats{}, &s1, false)
	mutate.Store(false)
	// (2) corrupted expectation: flip the first boolean / bump the first small integer found in exp
	ch2 := make(chan []byte, len(keep))
	n2 := 0
	for _, b := range keep {
		var l map[string]json.RawMessage
		if json.Unmarshal(b, &l) != nil {
			continue
		}
		s := string(l["exp"])
		var t string
		switch {
		case strings.Contains(s, "true"):
			t = strings.Replace(s, "true", "false", 1)
		case strings.Contains(s, `"t":"undef"`):
			t = strings.Replace(s, `"t":"undef"`, `"t":"null"`, 1)
		default:
			continue
		}
		l["exp"] = json.RawMessage(t)
		l["dev"] = json.RawMessage("[]")
		nb, _ := json.Marshal(l)
		ch2 <- nb
		n2++
		if n2 >= 60 {
			break
		}
	}
	close(ch2)
	var s2 []any
	r2 := replay(quiet, ch2, &stats{}, &s2, false)
	c.Note("binding self-test: mutated adapter rejected on %d of %d lines; corrupted expectation rejected on %d of %d lines", r1, len(keep), r2, n2)
	if !(r1 > 0 && n2 > 0 && r2 == int64(n2)) {
		fmt.Printf("binding self-test: mutated adapter rejected on %d of %d lines; corrupted expectation rejected on %d of %d lines\n", r1, len(keep), r2, n2)
	}
	return r1 > 0 && n2 > 0 && r2 == int64(n2)
}

var _ = big.NewInt
