package c15

import (
	"fmt"

	"github.com/robertkrimen/otto"

	"verif/harness/internal/bridge"
	"verif/harness/internal/core"
)

// Go-side witnesses of the open findings (a script alone cannot show them).
func init() {
	core.GoWitnesses["c15_int64_script_string"] = func() (string, error) {
		vm := otto.New()
		if err := vm.Set("x", int64(9007199254740993)); err != nil {
			return "", err
		}
		v, err := vm.Run(`String(x) + " " + (x === 9007199254740992)`)
		if err != nil {
			return "", err
		}
		return v.String(), nil
	}
	core.GoWitnesses["c15_uint64_tointeger"] = func() (string, error) {
		vm := otto.New()
		if err := vm.Set("x", uint64(9007199254740993)); err != nil {
			return "", err
		}
		v, err := vm.Get("x")
		if err != nil {
			return "", err
		}
		i, err := v.ToInteger()
		return fmt.Sprint(i), err
	}
	core.GoWitnesses["c15_isnan_throwing_valueof"] = func() (res string, err error) {
		defer func() {
			if r := recover(); r != nil {
				res, err = "GO PANIC", nil
			}
		}()
		vm := otto.New()
		v, err := vm.Run(`({valueOf: function(){ throw 1; }})`)
		if err != nil {
			return "", err
		}
		return fmt.Sprint(v.IsNaN()), nil
	}
	core.GoWitnesses["c15_export_nested_arrays"] = func() (res string, err error) {
		defer func() {
			if r := recover(); r != nil {
				res, err = "GO PANIC", nil
			}
		}()
		vm := otto.New()
		v, err := vm.Run(`[[[1]],[['a']]]`)
		if err != nil {
			return "", err
		}
		e, _ := v.Export()
		return fmt.Sprint(e), nil
	}
	core.GoWitnesses["c15_named_float32"] = func() (res string, err error) {
		defer func() {
			if r := recover(); r != nil {
				res, err = "GO PANIC", nil
			}
		}()
		vm := otto.New()
		if err := vm.Set("x", bridge.NFloat32(1.5)); err != nil {
			return "", err
		}
		v, err := vm.Get("x")
		if err != nil {
			return "", err
		}
		f, err := v.ToFloat()
		return fmt.Sprint(f), err
	}
	core.GoWitnesses["c15_map_named_key"] = func() (res string, err error) {
		defer func() {
			if r := recover(); r != nil {
				res, err = "GO PANIC", nil
			}
		}()
		vm := otto.New()
		if err := vm.Set("m", map[bridge.NUint16]string{300: "a"}); err != nil {
			return "", err
		}
		v, err := vm.Run(`m[300]`)
		if err != nil {
			return "", err
		}
		return v.String(), nil
	}
	core.GoWitnesses["c15_export_holes"] = func() (string, error) {
		vm := otto.New()
		v, err := vm.Run(`[,1]`)
		if err != nil {
			return "", err
		}
		e, _ := v.Export()
		if s, ok := e.([]int64); ok {
			return fmt.Sprint(len(s)), nil
		}
		if s, ok := e.([]interface{}); ok {
			return fmt.Sprint(len(s)), nil
		}
		return fmt.Sprintf("%T", e), nil
	}
}
