// Package api: the API-level state machine spec/OttoAPI.tla replayed on the implementation.
package api

import (
	. "verif/harness/internal/c01"
)

func hc(args ...N) N              { return Expr(Call(Id("H"), args...)) }
func od(name string, args ...N) N { return Call(Dot(Id("Object"), name), args...) }

// numOr0(x) = (typeof x === "number") ? x : 0 : safe on an undeclared name
func numOr0(n string) N { return Cond(Bin("===", Un("typeof", Id(n)), Str("number")), Id(n), Num(0)) }

// Pool is the program pool of the API state machine (serialised into
// spec/OttoAPIProgs.tla by cmd/genprogs and rendered to source text by the
// replay driver).  Every program's outcome depends on what earlier API calls
// did to the runtime.  Only constructs spec/ES5Core.tla models are used.
func Pool() [][]N {
	orZero := func(n string) N { return Bin("||", Id(n), Num(0)) }
	return [][]N{
		// 1 counter in a global variable
		{Var("n", nil), Expr(Asg("=", Id("n"), Bin("+", orZero("n"), Num(1)))), hc(Id("n")), Expr(Id("n"))},
		// 2 closure state created once, advanced by every run
		{Var("f", nil), If(Bin("!==", Un("typeof", Id("f")), Str("function")),
			Block(Expr(Asg("=", Id("f"), Call(Fn("", nil, Var("c", Num(0)), Return(Fn("", nil, Expr(Asg("=", Id("c"), Bin("+", Id("c"), Num(1)))), Return(Id("c"))))))))), nil),
			hc(Call(Id("f"))), Expr(Call(Id("f")))},
		// 3 object attributes: frozen at the end of the first run
		{Var("o", nil), If(Bin("!==", Un("typeof", Id("o")), Str("object")), Block(Expr(Asg("=", Id("o"), Obj("a", Num(1))))), nil),
			Expr(Asg("=", Dot(Id("o"), "a"), Bin("+", Dot(Id("o"), "a"), Num(1)))), hc(Dot(Id("o"), "a"), od("isFrozen", Id("o"))),
			Expr(od("freeze", Id("o"))), Expr(Dot(Id("o"), "a"))},
		// 4 an effect, then an uncaught exception
		{Var("n", nil), Expr(Asg("=", Id("n"), Bin("+", orZero("n"), Num(10)))), hc(Str("before")), Throw(New(Id("TypeError"), Str("t")))},
		// 5 host calls inside try / catch / finally: a host panic at call k lands in the block, the handler or the finaliser
		{Var("n", nil), Try([]N{hc(Num(1)), Expr(Asg("=", Id("n"), Bin("+", orZero("n"), Num(100)))), hc(Num(2))}, "e",
			[]N{hc(Str("caught"), Id("e"))}, true, []N{hc(Num(3))}, true), Expr(Id("n"))},
		// 6 prototype chain: the prototype object is mutated by every run
		{FDecl("P", nil), If(Bin("===", Un("typeof", Id("q")), Str("undefined")),
			Block(Expr(Asg("=", Id("q"), New(Id("P")))), Expr(Asg("=", Id("qp"), Dot(Id("P"), "prototype")))), nil),
			Expr(Asg("=", Dot(Id("qp"), "v"), Bin("+", Bin("||", Dot(Id("qp"), "v"), Num(0)), Num(1)))), hc(Dot(Id("q"), "v"), Bin("instanceof", Id("q"), Id("P")))},
		// 7 a function declared by this run (and called through the host function) ...
		{FDecl("bump", []string{"d"}, Expr(Asg("=", Id("n"), Bin("+", numOr0("n"), Id("d")))), Return(Id("n"))), hc(Str("decl"), Call(Id("bump"), Num(1)))},
		// 8 ... and called by another: a ReferenceError after an effect when no earlier run declared it
		{hc(Un("typeof", Id("bump")), Un("typeof", Id("n"))), Expr(Call(Id("bump"), Num(3)))},
		// 9 delete of a global: var bindings of global code stay, bindings made by eval code, assignment or vm.Set go
		{hc(Un("typeof", Id("n")), Un("delete", Id("n")), Un("typeof", Id("n"))), Expr(Un("typeof", Id("n")))},
		// 10 an accessor on the global object defined by this run ...
		{Expr(od("defineProperty", This(), Str("g"), Obj("get", Fn("", nil, hc(Str("g"), Un("typeof", Id("n"))), Return(numOr0("n"))), "configurable", Bool(true)))), hc(Str("def"))},
		// 11 ... and read by another (inside try: the host function called by the getter may panic)
		{Try([]N{hc(Bin("+", Dot(This(), "g"), Num(1)))}, "e", []N{hc(Str("c"), Id("e"))}, true, nil, false), Expr(Dot(This(), "g"))},
		// 12 observes what an interrupted run (SpinPool) left behind: globals, the object that was the binding object of a
		// `with`, and that neither the with-object's property nor the function's locals are visible from global code
		{hc(numOr0("s1"), Cond(Bin("===", Un("typeof", Id("o2")), Str("object")), Dot(Id("o2"), "x"), Str("none")), Un("typeof", Id("x")), Un("typeof", Id("a"))),
			Label("L", For(nil, nil, nil, Block(Break("L")))), Expr(Un("typeof", Id("spin")))},
		// 13 recursion around a stack depth limit configured from Go (vm.SetStackDepthLimit): how deep it got is logged,
		// the RangeError is caught by the script, a second, shallow recursion follows
		{FDecl("rec", []string{"d"}, hc(Id("d")), Return(Cond(Bin(">", Id("d"), Num(0)), Bin("+", Call(Id("rec"), Bin("-", Id("d"), Num(1))), Num(1)), Num(0)))),
			Try([]N{hc(Str("r"), Call(Id("rec"), Num(3)))}, "e", []N{hc(Str("c"), Bin("instanceof", Id("e"), Id("RangeError")))}, true, nil, false),
			Expr(Call(Id("rec"), Num(1)))},
	}
}

// wait is the effect-free delay placed behind every host call of a SpinPool program: a call of w() runs a few loop
// iterations on locals that die with the call, so WHERE inside it a pending interrupt is delivered cannot be observed.
func wait() N { return Expr(Call(Id("w"))) }

func declW() N {
	return FDecl("w", nil, For(Var("i", Num(0)), Bin("<", Id("i"), Num(3)), Upd("++", false, Id("i")), Block()))
}

// SpinPool holds the programs run by the action `interrupt`: an interrupt function is SENT on the runtime's Interrupt
// channel by the host function H during its k-th call and delivered at the interpreter's next polling point.  Every
// call of H is followed by wait(), so the state the unwound run leaves behind does not depend on the exact placement
// of the polling points (only on there being one before the script makes further progress).  SpinCalls[i] is the
// number of H calls of program i in an undisturbed run (k ranges over 1..SpinCalls[i]).
func SpinPool() [][]N {
	inc := func(n string, d int) N { return Expr(Asg("=", Id(n), Bin("+", numOr0(n), Num(d)))) }
	xinc := func(d int) N { return Expr(Asg("=", Id("x"), Bin("+", Id("x"), Num(d)))) }
	return [][]N{
		// 1 global code: two phases, each an effect, a host call and the delay
		{declW(), Var("s1", nil), inc("s1", 1), hc(Id("s1")), wait(), inc("s1", 10), hc(Id("s1")), wait(), inc("s1", 100)},
		// 2 nested contexts: a function run by a built-in (Function.prototype.apply) calls a function whose body is with { label: for { try { .. getter .. } finally } }
		{declW(),
			Var("o2", WithAccessor(Obj("x", Num(1)), "get", "g", Fn("", nil, Expr(Asg("=", Dot(This(), "x"), Bin("+", Dot(This(), "x"), Num(1)))), hc(Str("g"), Dot(This(), "x")), wait(), Return(Num(5))))),
			FDecl("spin", []string{"a"},
				With(Id("o2"), Label("L", For(nil, nil, nil, Block(
					Try([]N{xinc(10), hc(Str("t"), Id("x")), wait(), Expr(Id("g")), Break("L")}, "", nil, false,
						[]N{xinc(100), hc(Str("f"), Id("x")), wait()}, true))))),
				Return(Num(7))),
			Expr(Call(Dot(Fn("", []string{"e"}, Expr(Call(Id("spin"), Id("e")))), "apply"), Null(), Arr(Num(1)))),
			Expr(Asg("=", Dot(Id("o2"), "x"), Bin("+", Dot(Id("o2"), "x"), Num(1000))))},
	}
}

// SpinCalls: host calls of each SpinPool program in an undisturbed run.
var SpinCalls = []int{2, 3}

