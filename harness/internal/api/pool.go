// Package api: the API-level state machine spec/OttoAPI.tla replayed on the implementation.
package api

import (
	. "verif/harness/internal/c01"
)

func hc(args ...N) N { return Expr(Call(Id("H"), args...)) }

// Pool is the program pool (also used by the replay driver through package api).
func Pool() [][]N {
	orZero := func(n string) N { return Bin("||", Id(n), Num(0)) }
	return [][]N{
		// 1 counter in a global variable
		{Var("n", nil), Expr(Asg("=", Id("n"), Bin("+", orZero("n"), Num(1)))), hc(Id("n")), Expr(Id("n"))},
		// 2 closure state created once, advanced by every run
		{Var("f", nil), If(Bin("!==", Un("typeof", Id("f")), Str("function")),
			Block(Expr(Asg("=", Id("f"), Call(Fn("", nil, Var("c", Num(0)), Return(Fn("", nil, Expr(Asg("=", Id("c"), Bin("+", Id("c"), Num(1)))), Return(Id("c"))))))))), nil),
			hc(Call(Id("f"))), Expr(Call(Id("f")))},
		// 3 object attributes: frozen at the end of the first run
		{Var("o", nil), If(Un("!", Id("o")), Block(Expr(Asg("=", Id("o"), Obj("a", Num(1))))), nil),
			Expr(Asg("=", Dot(Id("o"), "a"), Bin("+", Dot(Id("o"), "a"), Num(1)))), hc(Dot(Id("o"), "a"), Call(Dot(Id("Object"), "isFrozen"), Id("o"))),
			Expr(Call(Dot(Id("Object"), "freeze"), Id("o"))), Expr(Dot(Id("o"), "a"))},
		// 4 an effect, then an uncaught exception
		{Var("n", nil), Expr(Asg("=", Id("n"), Bin("+", orZero("n"), Num(10)))), hc(Str("before")), Throw(New(Id("TypeError"), Str("t")))},
		// 5 host calls inside try / catch / finally
		{Var("n", nil), Try([]N{hc(Num(1)), Expr(Asg("=", Id("n"), Bin("+", orZero("n"), Num(100)))), hc(Num(2))}, "e",
			[]N{hc(Str("caught"), Id("e"))}, true, []N{hc(Num(3))}, true), Expr(Id("n"))},
		// 6 prototype chain and accessor
		{FDecl("P", nil), If(Bin("===", Un("typeof", Id("q")), Str("undefined")),
			Block(Expr(Asg("=", Id("q"), New(Id("P")))), Expr(Asg("=", Id("qp"), Dot(Id("P"), "prototype")))), nil),
			Expr(Asg("=", Dot(Id("qp"), "v"), Bin("+", Bin("||", Dot(Id("qp"), "v"), Num(0)), Num(1)))), hc(Dot(Id("q"), "v"), Bin("instanceof", Id("q"), Id("P")))},
	}
}

