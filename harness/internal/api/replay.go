package api

import (
	"encoding/json"
	"errors"
	"fmt"
	"os"
	"reflect"
	"sort"
	"strconv"
	"strings"
	"sync"
	"sync/atomic"
	"time"

	"github.com/robertkrimen/otto"
	"github.com/robertkrimen/otto/parser"

	"verif/harness/internal/c01"
	"verif/harness/internal/core"
	"verif/harness/internal/tlc"
)

// ---------------------------------------------------------------------------
// One printed transition of spec/OttoAPI.tla.

// Action is an action record of the specification (fields by op, see OttoAPI.tla).
type Action struct {
	Op    string           `json:"op"`
	R     int              `json:"r,omitempty"`
	N     int              `json:"n,omitempty"`
	P     int              `json:"p,omitempty"`
	K     int              `json:"k,omitempty"`
	Route string           `json:"route,omitempty"`
	Nm    []int            `json:"nm,omitempty"`
	Val   map[string]any   `json:"val,omitempty"`
	Args  []map[string]any `json:"args,omitempty"`
	Lim   int              `json:"lim,omitempty"`
}

// Line is one VJSON line: the path to the source state, the step, the required observation.
type Line struct {
	Path []Action       `json:"path"`
	Step Action         `json:"step"`
	Exp  map[string]any `json:"exp"`
}

// ---------------------------------------------------------------------------
// Runtimes of a replay.  The host function H is ONE Go function value: a copy of
// a runtime shares it, so the log and the armed panic are found through call.Otto.

type rtm struct {
	vm        *otto.Otto
	log       [][]any
	armed     int  // H panics at its armed-th call of the current run (0: never)
	delivered bool // the armed panic was raised
	intAt     int  // H sends an interrupt function on vm.Interrupt during its intAt-th call of the current run (0: never)
	intSent   bool
	intRan    bool // the interpreter invoked the interrupt function
	intQuiet  bool // the function sent returns instead of panicking (action nudge)
}

// interruptPayload is what the interrupt function panics with (compared by identity).
var interruptPayload = &struct{ s string }{"api-interrupt"}

var registry sync.Map // *otto.Otto -> *rtm

// PanicValue is what the armed host function panics with.
const PanicValue = "boom"

func hostH(call otto.FunctionCall) otto.Value {
	if x, ok := registry.Load(call.Otto); ok {
		r := x.(*rtm)
		args := make([]any, len(call.ArgumentList))
		for i, a := range call.ArgumentList {
			args[i] = c01.Proj(a)
		}
		r.log = append(r.log, args)
		if r.armed > 0 && len(r.log) == r.armed {
			r.delivered = true
			panic(PanicValue)
		}
		if r.intAt > 0 && len(r.log) == r.intAt && !r.intSent {
			// the usual use of the Interrupt channel, except that the sender is the host function itself, so
			// that the point of the run at which the function is sent is a point of the specification too
			r.intSent = true
			quiet := r.intQuiet
			call.Otto.Interrupt <- func() {
				r.intRan = true
				if !quiet {
					panic(interruptPayload)
				}
			}
		}
	}
	return call.Argument(0)
}

func hostCB(call otto.FunctionCall) otto.Value {
	v, err := call.Argument(0).Call(otto.UndefinedValue())
	if err != nil {
		panic(err)
	}
	return v
}

// world is the set of runtimes of one replay.
type world struct {
	rts map[int]*rtm
	// Scripts are immutable values: one compiled Script per (compiling runtime, program) is kept for the
	// whole replay and submitted again by later "script" steps of that runtime and by "foreign-script"
	// steps of the other runtimes.
	scripts map[[2]int]*otto.Script
	mode    string // "" | "copy-as-new" (self-test: a driver that does not copy)
	st      *stats
}

func (w *world) adopt(id int, vm *otto.Otto) {
	vm.Interrupt = make(chan func(), 1)
	r := &rtm{vm: vm}
	registry.Store(vm, r)
	w.rts[id] = r
}

func (w *world) fresh(id int) {
	vm := otto.New()
	vm.Set("H", hostH)
	vm.Set("CB", hostCB)
	w.adopt(id, vm)
}

func (w *world) close() {
	for _, r := range w.rts {
		registry.Delete(r.vm)
	}
}

type stats struct {
	perOp, perRoute                               sync.Map // string -> *int64
	copies, news                                  int64
	panicsArmed, panicsDelivered, panicsOut       int64
	panicsCaughtByScript, stepsAfterPanicExit     int64
	interruptsSent, interruptsDelivered           int64
	stepsAfterInterrupt, limitsSet                int64
	runtimeSteps, scriptsReused, sharedScriptRuns int64
}

func bump(m *sync.Map, k string) {
	v, _ := m.LoadOrStore(k, new(int64))
	atomic.AddInt64(v.(*int64), 1)
}

func dump(m *sync.Map) map[string]int64 {
	out := map[string]int64{}
	m.Range(func(k, v any) bool { out[k.(string)] = atomic.LoadInt64(v.(*int64)); return true })
	return out
}

func unitsToString(u []int) string {
	r := make([]rune, len(u))
	for i, x := range u {
		r[i] = rune(x)
	}
	return string(r)
}

// goValue turns a primitive of the specification (Val record as JSON) into the Go value handed to the API.
func goValue(v map[string]any) (any, error) {
	switch v["t"] {
	case "undef":
		return otto.UndefinedValue(), nil
	case "null":
		return otto.NullValue(), nil
	case "bool":
		return v["b"].(bool), nil
	case "str":
		us := v["s"].([]any)
		u := make([]int, len(us))
		for i, x := range us {
			u[i] = int(x.(float64))
		}
		return unitsToString(u), nil
	case "num":
		n := v["n"].(map[string]any)
		if n["c"] == "int" {
			return int(n["v"].(float64)), nil
		}
	}
	return nil, fmt.Errorf("unsupported primitive %v", v)
}

var shared struct {
	sync.Mutex
	sc map[int]*otto.Script
}

func sharedScript(p int) (*otto.Script, error) {
	shared.Lock()
	defer shared.Unlock()
	if sc := shared.sc[p]; sc != nil {
		return sc, nil
	}
	other := otto.New()
	other.Set("H", hostH) // not registered: logs nothing, never panics
	other.Set("CB", hostCB)
	sc, err := other.Compile("", Sources[p-1])
	if err != nil {
		return nil, err
	}
	func() {
		defer func() { recover() }()
		other.Run(sc) // first use on the compiling runtime
	}()
	if shared.sc == nil {
		shared.sc = map[int]*otto.Script{}
	}
	shared.sc[p] = sc
	return sc, nil
}

// Sources holds the source text of the pool (index p-1).
var Sources = func() []string {
	pool := Pool()
	s := make([]string, len(pool))
	for i, p := range pool {
		s[i] = c01.RenderProgram(p)
	}
	return s
}()

// PanicInHandler lists the pool programs in which a call of H stands inside a catch handler (or a try block that
// has only a finaliser).  otto runs such blocks under tryCatchEvaluate, which turns a host function's panic into
// a JavaScript exception value (issue 383: a host panic is catchable); when nothing catches it, it is thrown
// again as that exception and Run returns it as an error.  Outside such blocks the raw panic reaches catchPanic,
// which re-panics.  The model does not distinguish the two forms (both are the observation thr = "v", v = "boom"),
// so for these programs the driver accepts both; for all others the panic must leave Run as a panic.
// (Programs 5 and 11 have such calls too; their handlers run when the try block throws, which under a small stack
// depth limit it can do before the host function's k-th call - seen in the thorough tier's random behaviours.)
var PanicInHandler = map[int]bool{5: true, 11: true, 13: true}

// SpinSources holds the source text of the spin pool (index p-1).
var SpinSources = func() []string {
	pool := SpinPool()
	s := make([]string, len(pool))
	for i, p := range pool {
		s[i] = c01.RenderProgram(p)
	}
	return s
}()

// apply performs one action on the runtimes of w and returns what the implementation showed.
// final: the step under comparison (counted), as opposed to a step of the path.
func (w *world) apply(a Action, final bool) (obs c01.Obs, abnormal bool, err error) {
	switch a.Op {
	case "new":
		w.fresh(a.N)
		if final {
			atomic.AddInt64(&w.st.news, 1)
		}
		return c01.MakeObs(nil, otto.UndefinedValue(), nil), false, nil
	case "copy":
		src := w.rts[a.R]
		if src == nil {
			return obs, false, fmt.Errorf("copy of unknown runtime %d", a.R)
		}
		if w.mode == "copy-as-new" {
			w.fresh(a.N)
		} else {
			w.adopt(a.N, src.vm.Copy())
		}
		if final {
			atomic.AddInt64(&w.st.copies, 1)
		}
		return c01.MakeObs(nil, otto.UndefinedValue(), nil), false, nil
	}
	r := w.rts[a.R]
	if r == nil {
		return obs, false, fmt.Errorf("step on unknown runtime %d", a.R)
	}
	r.log, r.armed, r.delivered = nil, 0, false
	r.intAt, r.intSent, r.intRan, r.intQuiet = 0, false, false, false
	if a.Op == "hostpanic" {
		r.armed = a.K
	}
	if a.Op == "interrupt" || a.Op == "nudge" {
		r.intAt = a.K
		r.intQuiet = a.Op == "nudge"
	}
	if a.Op == "limit" {
		r.vm.SetStackDepthLimit(a.Lim)
		if final {
			atomic.AddInt64(&w.st.limitsSet, 1)
			bump(&w.st.perOp, a.Op)
		}
		return c01.MakeObs(nil, otto.UndefinedValue(), nil), false, nil
	}
	var v otto.Value
	var e error
	var escaped any
	func() {
		defer func() { escaped = recover() }()
		switch a.Op {
		case "run", "hostpanic":
			if a.P < 1 || a.P > len(Sources) {
				e = fmt.Errorf("no program %d", a.P)
				return
			}
			src := Sources[a.P-1]
			switch a.Route {
			case "source":
				v, e = r.vm.Run(src)
			case "script":
				sc := w.scripts[[2]int{a.R, a.P}]
				if sc == nil {
					if sc, e = r.vm.Compile("", src); e == nil {
						w.scripts[[2]int{a.R, a.P}] = sc
					}
				} else if final {
					atomic.AddInt64(&w.st.scriptsReused, 1)
				}
				if e == nil {
					v, e = r.vm.Run(sc)
				}
			case "program":
				prog, perr := parser.ParseFile(nil, "", src, 0)
				if perr != nil {
					e = perr
				} else {
					v, e = r.vm.Run(prog)
				}
			case "foreign-script":
				// a Script another runtime of this replay compiled and ran, if there is one ...
				var sc *otto.Script
				for id := 1; id <= len(w.rts) && sc == nil; id++ {
					if id != a.R {
						sc = w.scripts[[2]int{id, a.P}]
					}
				}
				if sc != nil {
					if final {
						atomic.AddInt64(&w.st.scriptsReused, 1)
					}
					v, e = r.vm.Run(sc)
					break
				}
				// ... else the process-wide Script of this program: compiled once, on a runtime outside
				// all replays, used there, and since then submitted by every replay worker (concurrently)
				if sc, e = sharedScript(a.P); e == nil {
					if final {
						atomic.AddInt64(&w.st.sharedScriptRuns, 1)
					}
					v, e = r.vm.Run(sc)
				}
			case "eval":
				v, e = r.vm.Eval(src)
			default:
				e = fmt.Errorf("unknown route %q", a.Route)
			}
		case "interrupt", "nudge":
			if a.P < 1 || a.P > len(SpinSources) {
				e = fmt.Errorf("no spin program %d", a.P)
				return
			}
			if a.Route == "eval" {
				v, e = r.vm.Eval(SpinSources[a.P-1])
			} else {
				v, e = r.vm.Run(SpinSources[a.P-1])
			}
		case "set":
			gv, ge := goValue(a.Val)
			if ge != nil {
				e = ge
				return
			}
			e = r.vm.Set(unitsToString(a.Nm), gv)
			v = otto.UndefinedValue()
		case "get":
			v, e = r.vm.Get(unitsToString(a.Nm))
		case "call":
			args := make([]any, len(a.Args))
			for i, x := range a.Args {
				gv, ge := goValue(x)
				if ge != nil {
					e = ge
					return
				}
				args[i] = gv
			}
			v, e = r.vm.Call(unitsToString(a.Nm), nil, args...)
		default:
			e = fmt.Errorf("unknown op %q", a.Op)
		}
	}()
	armed, delivered := r.armed, r.delivered
	r.armed = 0
	if a.Op == "interrupt" || a.Op == "nudge" {
		r.intAt = 0
		select { // a function that was sent and never taken must not leak into the next step
		case <-r.vm.Interrupt:
		default:
		}
		if final {
			if r.intSent {
				atomic.AddInt64(&w.st.interruptsSent, 1)
			}
			if r.intRan {
				atomic.AddInt64(&w.st.interruptsDelivered, 1)
			}
		}
		switch {
		case a.Op == "nudge":
			// the function returns: it must have been invoked before the run ended, and the run goes on to its
			// end with the outcome of an undisturbed run (compared below like any run)
			if r.intSent && !r.intRan {
				return obs, false, fmt.Errorf("a (returning) function sent on the Interrupt channel during call %d of the host function was never invoked before the run ended", a.K)
			}
		case r.intRan && escaped == any(interruptPayload):
			if final {
				atomic.AddInt64(&w.st.runtimeSteps, 1)
				bump(&w.st.perOp, a.Op)
			}
			return c01.Obs{Log: r.log, Thr: []int{'i'}, V: map[string]any{"t": "undef"}}, true, nil
		case r.intRan:
			return obs, true, fmt.Errorf("the interrupt function ran and panicked, but Run did not unwind with its panic value: escaped=%v, error=%v", escaped, e)
		case r.intSent && escaped == nil:
			return obs, false, fmt.Errorf("an interrupt function sent during call %d of the host function was never invoked: the run went on to its end (value %v, error %v)", a.K, v, e)
		}
	}
	if final {
		atomic.AddInt64(&w.st.runtimeSteps, 1)
		bump(&w.st.perOp, a.Op)
		if a.Route != "" {
			bump(&w.st.perRoute, a.Route)
		}
		if armed > 0 {
			atomic.AddInt64(&w.st.panicsArmed, 1)
			if delivered {
				atomic.AddInt64(&w.st.panicsDelivered, 1)
				if escaped == nil {
					atomic.AddInt64(&w.st.panicsCaughtByScript, 1)
				}
			}
		}
	}
	if escaped != nil {
		// The only panic that may leave the API is the one the host function raised, with its value.
		if s, ok := escaped.(string); ok && delivered && s == PanicValue {
			if final {
				atomic.AddInt64(&w.st.panicsOut, 1)
			}
			// abnormal exit = the observation of an uncaught thrown primitive "boom"
			return c01.MakeObs(r.log, otto.UndefinedValue(), errors.New(s)), true, nil
		}
		return obs, true, fmt.Errorf("GO PANIC out of the API: %v", escaped)
	}
	o := c01.MakeObs(r.log, v, e)
	if delivered && len(o.Thr) == 1 && o.Thr[0] == 'v' && !PanicInHandler[a.P] {
		// No program of the pool throws a primitive itself or throws a caught value again, so an
		// uncaught primitive in a run whose host function panicked IS that panic: it has to leave
		// Run as the Go panic it was (catchPanic re-panics what is not a script value), not be
		// turned into an error return.
		return o, false, fmt.Errorf("the host function's panic came back as the error %q of the API call instead of a Go panic", fmt.Sprint(e))
	}
	return o, false, nil
}

// expected strips the `und` flag from the specification's outcome.
func expected(exp map[string]any) (und bool, want any) {
	if u, _ := exp["und"].(bool); u {
		return true, nil
	}
	m := map[string]any{}
	for k, v := range exp {
		if k != "und" {
			m[k] = v
		}
	}
	return false, m
}

func normal(o c01.Obs) any {
	var x any
	json.Unmarshal([]byte(o.JSON()), &x)
	return x
}

// Replay puts fresh runtimes into the source state of the line (path), applies the step and
// compares.  It returns "" when the implementation conforms, else what differs.
func replay(l *Line, mode string, st *stats) (diff string, observed string, und bool) {
	w := &world{rts: map[int]*rtm{}, scripts: map[[2]int]*otto.Script{}, mode: mode, st: st}
	defer w.close()
	w.fresh(1)
	exitedAbnormally, interrupted := false, false
	for i, a := range l.Path {
		_, abn, err := w.apply(a, false)
		if err != nil {
			return fmt.Sprintf("path step %d %s: %v", i+1, mustJSON(a), err), "", false
		}
		if abn {
			exitedAbnormally = true
			if a.Op == "interrupt" {
				interrupted = true
			}
		}
	}
	o, _, err := w.apply(l.Step, true)
	if exitedAbnormally && l.Step.Op != "new" && l.Step.Op != "copy" {
		atomic.AddInt64(&st.stepsAfterPanicExit, 1)
		if interrupted {
			atomic.AddInt64(&st.stepsAfterInterrupt, 1)
		}
	}
	if err != nil {
		return err.Error(), "", false
	}
	und, want := expected(l.Exp)
	if und {
		return "", o.JSON(), true
	}
	got := normal(o)
	if !reflect.DeepEqual(got, want) {
		return "observation differs", o.JSON(), false
	}
	return "", o.JSON(), false
}

func mustJSON(v any) string { b, _ := json.Marshal(v); return string(b) }

func trunc(s string, n int) string {
	if len(s) > n {
		return s[:n] + "..."
	}
	return s
}

// describe renders an action sequence as the API calls it stands for.
func describe(as []Action) []string {
	out := make([]string, len(as))
	for i, a := range as {
		switch a.Op {
		case "new":
			out[i] = fmt.Sprintf("vm%d := otto.New()", a.N)
		case "copy":
			out[i] = fmt.Sprintf("vm%d := vm%d.Copy()", a.N, a.R)
		case "run":
			out[i] = fmt.Sprintf("vm%d.Run[%s](%s)", a.R, a.Route, strconv.Quote(Sources[a.P-1]))
		case "hostpanic":
			out[i] = fmt.Sprintf("vm%d.Run[%s](%s) with H panicking at its call %d", a.R, a.Route, strconv.Quote(Sources[a.P-1]), a.K)
		case "set":
			out[i] = fmt.Sprintf("vm%d.Set(%q, %s)", a.R, unitsToString(a.Nm), mustJSON(a.Val))
		case "get":
			out[i] = fmt.Sprintf("vm%d.Get(%q)", a.R, unitsToString(a.Nm))
		case "call":
			out[i] = fmt.Sprintf("vm%d.Call(%q, nil, %s)", a.R, unitsToString(a.Nm), mustJSON(a.Args))
		case "interrupt":
			out[i] = fmt.Sprintf("vm%d.Run[%s](%s) with an interrupt function (panicking) sent on vm%d.Interrupt during call %d of H", a.R, a.Route, strconv.Quote(SpinSources[a.P-1]), a.R, a.K)
		case "nudge":
			out[i] = fmt.Sprintf("vm%d.Run(%s) with a function that RETURNS sent on vm%d.Interrupt during call %d of H", a.R, strconv.Quote(SpinSources[a.P-1]), a.R, a.K)
		case "limit":
			out[i] = fmt.Sprintf("vm%d.SetStackDepthLimit(%d)", a.R, a.Lim)
		}
	}
	return out
}

// ---------------------------------------------------------------------------

// Bounds of one TLC configuration.
type Bounds struct {
	Name                         string
	MaxRT, MaxLen                int
	RouteFrom, PanicFrom, GoFrom int
	MaxK                         int
	IntFrom                      int   // interrupts from this step on (MaxLen: never)
	Limits                       []int // stack depth limits configured from Go
	ProgSet                      []int // nil: all
	Simulate                     bool
	Num, Depth                   int
}

func (b Bounds) cfg() string {
	ps := "{}"
	if len(b.ProgSet) > 0 {
		s := make([]string, len(b.ProgSet))
		for i, p := range b.ProgSet {
			s[i] = strconv.Itoa(p)
		}
		ps = "{" + strings.Join(s, ", ") + "}"
	}
	lims := make([]string, len(b.Limits))
	for i, l := range b.Limits {
		lims[i] = strconv.Itoa(l)
	}
	return fmt.Sprintf("CONSTANTS\n MaxRT = %d\n MaxLen = %d\n Fuel = 3000\n RouteFrom = %d\n MaxK = %d\n PanicFrom = %d\n GoFrom = %d\n ProgSet = %s\n IntFrom = %d\n Limits = {%s}\n"+
		"INIT Init\nNEXT Next\nVIEW View\nCHECK_DEADLOCK FALSE\nINVARIANTS TotalReplies RestAfterEveryAction\nPROPERTIES CopyIsValue TotalRepliesStep InterruptDelivered LimitIsPerRuntime\n",
		b.MaxRT, b.MaxLen, b.RouteFrom, b.MaxK, b.PanicFrom, b.GoFrom, ps, b.IntFrom, strings.Join(lims, ", "))
}

// QuickBounds / ThoroughBounds: fitted to measured counts (design.d/API.md).
func QuickBounds() []Bounds {
	return []Bounds{{Name: "quick-exhaustive", MaxRT: 3, MaxLen: 3, RouteFrom: 1, PanicFrom: 1, GoFrom: 1, MaxK: 3, IntFrom: 0, Limits: []int{0, 4}}}
}

func ThoroughBounds() []Bounds {
	return []Bounds{
		{Name: "thorough-exhaustive", MaxRT: 3, MaxLen: 4, RouteFrom: 2, PanicFrom: 2, GoFrom: 2, MaxK: 3, IntFrom: 2, Limits: []int{0, 4}},
		// (limits below 4 are left to C18's idle-runtime family: vm.Get / Set / Call enter the runtime WITHOUT the global
		// context that the equivalent one-statement program has, so right at a small limit they are one level apart)
		// random behaviours of length 8 with every action enabled at every step; TLC prints ALL successors
		// of every state a behaviour visits, so each behaviour contributes about 8 x 150 transitions
		{Name: "thorough-simulation", MaxRT: 3, MaxLen: 8, RouteFrom: 0, PanicFrom: 0, GoFrom: 0, MaxK: 3, IntFrom: 0, Limits: []int{0, 4}, Simulate: true, Num: 8, Depth: 8},
	}
}

// Stage model-checks spec/OttoAPI.tla (CopyIsValue, TotalReplies) and replays every printed
// transition on the implementation.  Disagreements are reported with c.Violate.
func Stage(c *core.Ctx, quick bool) (cov map[string]any, err error) {
	bounds := QuickBounds()
	if !quick {
		bounds = ThoroughBounds()
	}
	if s := os.Getenv("VERIF_API_BOUNDS"); s != "" {
		// development aid: name,MaxRT,MaxLen,RouteFrom,PanicFrom,GoFrom,MaxK[,simNum,simDepth]
		var b Bounds
		f := strings.Split(s, ",")
		if len(f) == 9 {
			b.Simulate = true
			b.Num, _ = strconv.Atoi(f[7])
			b.Depth, _ = strconv.Atoi(f[8])
			f = f[:7]
		}
		if len(f) == 7 {
			b.Name = f[0]
			for i, p := range []*int{&b.MaxRT, &b.MaxLen, &b.RouteFrom, &b.PanicFrom, &b.GoFrom, &b.MaxK} {
				*p, _ = strconv.Atoi(f[i+1])
			}
			b.IntFrom, b.Limits = 0, []int{0, 4}
			bounds = []Bounds{b}
		}
	}
	st := &stats{}
	var replayed, undecided, mismatches int64
	var mu sync.Mutex
	var samples []any
	var keepRun, keepCopy []*Line // lines kept for the binding self-test
	ch := make(chan []byte, 4096)
	var wg sync.WaitGroup
	workers := c.Workers
	if workers < 2 {
		workers = 2
	}
	for i := 0; i < workers; i++ {
		wg.Add(1)
		go func() {
			defer wg.Done()
			for raw := range ch {
				var l Line
				if e := json.Unmarshal(raw, &l); e != nil {
					c.Violate("undecodable transition: "+e.Error(), map[string]any{"line": string(raw)})
					continue
				}
				diff, got, und := replay(&l, "", st)
				atomic.AddInt64(&replayed, 1)
				if und {
					atomic.AddInt64(&undecided, 1)
					continue
				}
				if diff != "" {
					// reproduce on fresh runtimes before reporting
					diff2, got2, _ := replay(&l, "", &stats{})
					if diff2 == "" {
						c.Note("a disagreement did not reproduce: %s", trunc(string(raw), 300))
						continue
					}
					atomic.AddInt64(&mismatches, 1)
					_, want := expected(l.Exp)
					detail := fmt.Sprintf("API step %s after %d earlier calls: %s: implementation observed %s, specification requires %s",
						strings.Join(describe([]Action{l.Step}), ""), len(l.Path), diff2, trunc(got2, 500), trunc(mustJSON(want), 500))
					c.Violate(detail, map[string]any{"calls": describe(append(append([]Action{}, l.Path...), l.Step)), "line": json.RawMessage(raw), "observed": got})
					continue
				}
				mu.Lock()
				if len(samples) < 3 && l.Step.Op == "run" && len(l.Path) >= 2 {
					samples = append(samples, map[string]any{"calls": describe(append(append([]Action{}, l.Path...), l.Step)), "observed": json.RawMessage(got)})
				}
				if len(keepRun) < 50 && (l.Step.Op == "run" || l.Step.Op == "hostpanic") {
					keepRun = append(keepRun, &l)
				}
				if len(keepCopy) < 400 && l.Step.Op == "run" && l.Step.R > 1 {
					for _, a := range l.Path {
						if a.Op == "copy" && a.N == l.Step.R {
							keepCopy = append(keepCopy, &l)
							break
						}
					}
				}
				mu.Unlock()
			}
		}()
	}
	var tlcStats []map[string]any
	var states, generated int64
	var runErr error
	for _, b := range bounds {
		o := tlc.Opts{SpecDir: c.SpecDir, Module: "OttoAPI", Cfg: b.cfg(), Workers: c.Workers, Timeout: 40 * time.Minute, HeapMB: 8000,
			Simulate: b.Simulate, Num: b.Num, Depth: b.Depth, Seed: c.Seed}
		if !b.Simulate {
			o.Seed = 0
		}
		res, e := tlc.Run(o, func(p []byte) {
			q := make([]byte, len(p))
			copy(q, p)
			ch <- q
		})
		if res != nil {
			tlcStats = append(tlcStats, map[string]any{"config": b.Name, "bounds": b, "generated": res.Generated, "distinct": res.Distinct, "depth": res.Depth,
				"lines": res.Lines, "wall_s": res.Wall})
			if b.Simulate {
				// simulation mode reports no distinct-state count: every printed transition is one generated state
				states += res.Lines
				generated += res.Lines
			} else {
				states += res.Distinct
				generated += res.Generated
			}
		}
		if e != nil {
			runErr = e
			break
		}
	}
	close(ch)
	wg.Wait()
	if runErr != nil {
		return nil, runErr
	}

	// binding self-test: (1) one required observation corrupted, (2) a driver that does not copy
	selfCorrupt, selfCopy := false, false
	var selfNote []string
	if mismatches == 0 {
		for _, l := range keepRun {
			und, _ := expected(l.Exp)
			if und {
				continue
			}
			b, _ := json.Marshal(l)
			var m Line
			json.Unmarshal(b, &m)
			// corrupt the completion value (or the exception class when there is one)
			if thr, _ := m.Exp["thr"].([]any); len(thr) == 0 {
				m.Exp["v"] = map[string]any{"t": "str", "s": []any{float64('x')}}
			} else {
				m.Exp["thr"] = []any{}
			}
			if d, _, _ := replay(&m, "", &stats{}); d != "" {
				selfCorrupt = true
				selfNote = append(selfNote, "corrupted expected outcome of "+strings.Join(describe([]Action{l.Step}), "")+" rejected: "+d)
				break
			}
		}
		rej := 0
		for _, l := range keepCopy {
			if d, _, _ := replay(l, "copy-as-new", &stats{}); d != "" {
				rej++
			}
		}
		if rej > 0 {
			selfCopy = true
			selfNote = append(selfNote, fmt.Sprintf("a driver that replaces Copy by New is rejected on %d of %d kept transitions that run on a copy", rej, len(keepCopy)))
		}
	}
	sort.Slice(samples, func(i, j int) bool { return mustJSON(samples[i]) < mustJSON(samples[j]) })
	cov = map[string]any{
		"states":                            states,
		"transitions":                       generated,
		"traces_validated_against_impl":     replayed,
		"transitions_replayed":              replayed,
		"undecided_skipped":                 undecided,
		"mismatches":                        mismatches,
		"per_action":                        dump(&st.perOp),
		"per_route":                         dump(&st.perRoute),
		"copies_made":                       st.copies,
		"new_runtimes":                      st.news,
		"host_panics_armed":                 st.panicsArmed,
		"host_panics_delivered":             st.panicsDelivered,
		"host_panics_caught_by_script":      st.panicsCaughtByScript,
		"host_panics_uncaught_out_of_run":   st.panicsOut,
		"steps_on_runtime_after_panic_exit": st.stepsAfterPanicExit,
		"interrupts_sent_by_host":           st.interruptsSent,
		"interrupts_delivered":              st.interruptsDelivered,
		"steps_on_runtime_after_interrupt":  st.stepsAfterInterrupt,
		"stack_depth_limits_configured":     st.limitsSet,
		"compiled_scripts_submitted_again":  st.scriptsReused,
		"runs_of_the_process_wide_script":   st.sharedScriptRuns,
		"tlc":                               tlcStats,
		"model_checked":                     []string{"CopyIsValue", "TotalReplies", "TotalRepliesStep", "RestAfterEveryAction", "InterruptDelivered", "LimitIsPerRuntime"},
		"binding_self_test_rejected":        selfCorrupt && selfCopy,
		"binding_self_test":                 selfNote,
		"samples":                           samples,
		"programs":                          len(Sources),
		"spin_programs":                     len(SpinSources),
	}
	if mismatches == 0 && !(selfCorrupt && selfCopy) {
		return cov, fmt.Errorf("binding self-test failed: corrupted outcome rejected=%v, copy-less driver rejected=%v", selfCorrupt, selfCopy)
	}
	return cov, nil
}
