package c10

// Judge direction (code -> specification): seeded random pattern texts,
// flags, subjects, lastIndex values and method calls from a wider domain than
// spec/C10.tla enumerates are evaluated on the implementation; TLC
// (spec/C10Judge.tla) classifies each pattern text with the specification's
// grammar and recomputes every outcome.  Go only generates text, runs it and
// records what it sees.

import (
	"bytes"
	"encoding/json"
	"fmt"
	"math/rand"
	"strings"
	"sync"
	"time"

	"github.com/robertkrimen/otto"

	"verif/harness/internal/core"
	"verif/harness/internal/gen"
	"verif/harness/internal/jsx"
	"verif/harness/internal/tlc"
)

type jgen struct{ r *rand.Rand }

func (g *jgen) pick(xs ...string) string { return xs[g.r.Intn(len(xs))] }

var litChars = []string{"a", "b", "c", "A", "B", "1", "_", " ", "-", ",", "é", "=", ":", "!", "<"}

func (g *jgen) classAtom() string {
	switch g.r.Intn(12) {
	case 0:
		return g.pick(`\d`, `\D`, `\w`, `\W`, `\s`, `\S`)
	case 1:
		return g.pick(`\n`, `\t`, `\b`, `\0`, `\x61`, `b`, `\cJ`, `\-`, `\]`, `\\`, `\^`, `\/`)
	case 2:
		return g.pick(".", "*", "$", "(", ")", "|", "+", "?", "[", "^", "{", "}")
	default:
		return litChars[g.r.Intn(len(litChars))]
	}
}

func (g *jgen) class() string {
	var sb strings.Builder
	sb.WriteString("[")
	if g.r.Intn(4) == 0 {
		sb.WriteString("^")
	}
	n := 1 + g.r.Intn(3) // the empty classes [] and [^] are exercised by the generator module only
	for i := 0; i < n; i++ {
		if g.r.Intn(4) == 0 {
			sb.WriteString(g.pick("a-c", "A-B", "0-9", "a-a", "_-a", " -1", `\x61-\x63`, "a-c"))
		} else {
			sb.WriteString(g.classAtom())
		}
	}
	if g.r.Intn(10) == 0 {
		sb.WriteString("-")
	}
	sb.WriteString("]")
	return sb.String()
}

func (g *jgen) quant() string {
	q := g.pick("", "", "", "*", "+", "?", "*", "+", "?", "{2}", "{0}", "{1,}", "{0,2}", "{1,3}", "{2,}", "{0,1}", "{3}")
	if q != "" && g.r.Intn(3) == 0 {
		q += "?"
	}
	return q
}

func (g *jgen) atom(depth int) string {
	k := g.r.Intn(20)
	switch {
	case k < 7:
		return litChars[g.r.Intn(len(litChars))]
	case k < 9:
		return "."
	case k < 11:
		return g.class()
	case k < 13:
		return g.pick(`\d`, `\D`, `\w`, `\W`, `\s`, `\S`)
	case k < 14:
		return g.pick(`\n`, `\t`, `\r`, `\v`, `\f`, `\0`, `\x61`, `\x41`, `b`, `é`, `\cJ`, `\ca`, `\.`, `\*`, `\(`, `\)`, `\[`, `\|`, `\\`, `\/`, `\$`, `\^`, `\?`, `\+`, `\-`)
	default:
		if depth <= 0 {
			return litChars[g.r.Intn(len(litChars))]
		}
		if g.r.Intn(3) == 0 {
			return "(?:" + g.disj(depth-1) + ")"
		}
		return "(" + g.disj(depth-1) + ")"
	}
}

func (g *jgen) term(depth int) string {
	if g.r.Intn(9) == 0 {
		return g.pick("^", "$", `\b`, `\B`)
	}
	return g.atom(depth) + g.quant()
}

func (g *jgen) alt(depth int) string {
	n := g.r.Intn(3)
	if depth >= 2 {
		n = 1 + g.r.Intn(3)
	}
	var sb strings.Builder
	for i := 0; i < n; i++ {
		sb.WriteString(g.term(depth))
	}
	return sb.String()
}

func (g *jgen) disj(depth int) string {
	s := g.alt(depth)
	for k := 0; k < 2 && g.r.Intn(4) == 0; k++ {
		s += "|" + g.alt(depth)
	}
	return s
}

// mutate turns a pattern into a (probably) malformed or unsupported one.
func (g *jgen) mutate(p string) string {
	r := []rune(p)
	pos := 0
	if len(r) > 0 {
		pos = g.r.Intn(len(r) + 1)
	}
	ins := func(s string) string { return string(r[:pos]) + s + string(r[pos:]) }
	switch g.r.Intn(8) {
	case 0:
		return ins(g.pick("(", ")", "[", "*", "+", "?", "\\"))
	case 1:
		return ins(g.pick("(?=a)", "(?!b)", "(?=", `\1`, `\2`, `(a)\1`))
	case 2:
		return ins(g.pick("(?i)", "(?s)", "(?i:a)", "(?P<n>a)", "(?#x)", "(?<n>b)", "(?m)", "(?U)"))
	case 3:
		return ins(g.pick("^*", "$+", `\b?`, `\B*`, "a**", "a{2,1}", "a{1}{2}", "[b-a]", "a+*", "^{2}"))
	case 4:
		if len(r) > 0 {
			k := g.r.Intn(len(r))
			return string(r[:k]) + string(r[k+1:])
		}
		return "("
	default:
		return ins(g.pick("{", "}", "]", `\a`, `\z`, `\x`, `\u12`, `\c1`, `\8`, "{,2}", "{a}", `[\d-a]`, `\01`))
	}
}

func units(s string) []int {
	r := []rune(s)
	u := make([]int, 0, len(r))
	for _, c := range r {
		u = append(u, int(c))
	}
	return u
}

type jcase map[string]any

func strV(s string) map[string]any { return map[string]any{"t": "str", "s": units(s)} }
func intV(i int) map[string]any {
	return map[string]any{"t": "num", "n": map[string]any{"c": "int", "v": i}}
}

var subjChars = []string{"a", "b", "c", "A", "B", "1", "_", " ", "\n", "\r", "-", "é", ",", "="}

func (g *jgen) subject() string {
	n := g.r.Intn(7)
	var sb strings.Builder
	for i := 0; i < n; i++ {
		if g.r.Intn(3) == 0 {
			sb.WriteString(subjChars[g.r.Intn(len(subjChars))])
		} else {
			sb.WriteString(subjChars[g.r.Intn(4)]) // mostly a b c A: matches are frequent
		}
	}
	return sb.String()
}

// next draws one case; src/flags/s are kept as Go strings for rendering.
func (g *jgen) next() (jcase, string) {
	src := g.disj(2)
	ctorOnly := false
	if g.r.Intn(6) == 0 {
		src = g.mutate(src)
		// the engine's own group syntax is accepted (named deviation) with a meaning the
		// specification does not model: such texts are only judged on accept / reject
		ctorOnly = strings.Contains(src, "(?") && !strings.Contains(src, "(?=") && !strings.Contains(src, "(?!")
	}
	flags := g.pick("", "", "g", "g", "i", "m", "gi", "gm", "im", "gim", "mg")
	if g.r.Intn(40) == 0 {
		flags = g.pick("x", "gg", "y", "ii", "gx", "G")
	}
	s := g.subject()
	li := 0
	if g.r.Intn(2) == 0 {
		li = g.r.Intn(len(s) + 2) // up to one past the UTF-8 length: byte and code unit offsets both get out of range
	}
	form := "ctor"
	if src != "" && !strings.ContainsAny(src, "/\n\r\u2028\u2029") && !strings.HasSuffix(src, `\`) && !strings.Contains(flags, " ") && g.r.Intn(3) == 0 {
		form = "lit"
	}
	c := jcase{"fam": "strm", "form": form, "src": units(src), "flags": units(flags), "s": units(s), "li": intV(li)}
	var call string
	k := g.r.Intn(8)
	if ctorOnly {
		k = -1
	}
	switch k {
	case -1:
		c["m"], call = "ctor", `"constructed"`
	case 0, 1, 2:
		c["m"], call = "exec", "r.exec(s)"
	case 3:
		c["m"], call = "test", "r.test(s)"
	case 4:
		c["m"], call = "match", "s.match(r)"
	case 5:
		c["m"], call = "search", "s.search(r)"
	case 6:
		c["m"] = "split"
		if g.r.Intn(2) == 0 {
			c["lim"], c["omit"] = map[string]any{"t": "undef"}, true
			call = "s.split(r)"
		} else {
			l := g.r.Intn(5)
			c["lim"], c["omit"] = intV(l), false
			call = fmt.Sprintf("s.split(r, %d)", l)
		}
	default:
		if g.r.Intn(3) == 0 {
			c["m"] = "replacefn"
			call = "[s.replace(r, function(){ L.push(Array.prototype.slice.call(arguments)); return '[' + arguments[0] + ']'; }), L]"
		} else {
			rep := g.pick("x", "", "$&", "[$&]", "$`", "$'", "$$", "<$&$&>", "-$`-", "$", "$x", "$0",
				"$1", "$2", "$01", "$10", "$11", "$20", "$99", "$00", "$1$2", "a$1b$10c", "$$1", "$&0", "[$1|$2|$3]", "$02$1")
			c["m"], c["rep"] = "replace", units(rep)
			call = "[s.replace(r, " + jsx.StrLit(units(rep)) + "), L]"
		}
	}
	ctor := "new RegExp(" + jsx.StrLit(units(src)) + "," + jsx.StrLit(units(flags)) + ")"
	if form == "lit" {
		ctor = "/" + src + "/" + flags
	}
	js := "G(function(){ var r = " + ctor + ", L = [], s = " + jsx.StrLit(units(s)) + "; r.lastIndex = " + fmt.Sprint(li) + "; var x = " + call + "; return [x, r.lastIndex]; })"
	return c, js
}

type jvm struct {
	vm   *otto.Otto
	used int
}

func (b *jvm) eval(src string) (out string, err error) {
	defer func() {
		if r := recover(); r != nil {
			b.vm = nil
			out, err = "", fmt.Errorf("GO PANIC: %v", r)
		}
	}()
	if b.vm == nil || b.used >= 100 {
		vm := otto.New()
		if e := vm.Set("NUMENC", func(call otto.FunctionCall) otto.Value {
			f, _ := call.Argument(0).ToFloat()
			v, _ := otto.ToValue(jsx.NumEnc(f))
			return v
		}); e != nil {
			return "", e
		}
		if _, e := vm.Run(gen.Prelude + Prelude); e != nil {
			return "", fmt.Errorf("prelude: %v", e)
		}
		b.vm, b.used = vm, 0
	}
	b.used++
	v, e := b.vm.Call("RUN", nil, src)
	if e != nil {
		b.vm = nil
		return "", fmt.Errorf("harness RUN failed: %v", e)
	}
	return v.String(), nil
}

// judge draws n cases, evaluates them and lets TLC judge the record.
func judge(c *core.Ctx, n int) (map[string]any, error) {
	g := &jgen{r: rand.New(rand.NewSource(c.Seed*104729 + 31))}
	cases := make([]jcase, n)
	srcs := make([]string, n)
	for i := range cases {
		cases[i], srcs[i] = g.next()
	}
	outs := make([]string, n)
	errs := make([]error, n)
	t0 := time.Now()
	var wg sync.WaitGroup
	w := c.Workers
	for k := 0; k < w; k++ {
		wg.Add(1)
		go func(k int) {
			defer wg.Done()
			box := &jvm{}
			for i := k; i < n; i += w {
				outs[i], errs[i] = box.eval(srcs[i])
			}
		}(k)
	}
	wg.Wait()
	evalWall := time.Since(t0).Seconds()
	var trace bytes.Buffer
	panics := 0
	for i := range cases {
		if errs[i] != nil {
			panics++
			c.Violate(fmt.Sprintf("%s  =>  %v", srcs[i], errs[i]), map[string]any{"js": srcs[i], "case": cases[i]})
			continue
		}
		ev := map[string]any{"i": i + 1, "got": json.RawMessage(outs[i])}
		for k, v := range cases[i] {
			ev[k] = v
		}
		b, err := json.Marshal(ev)
		if err != nil {
			return nil, err
		}
		trace.Write(b)
		trace.WriteByte('\n')
	}
	// canary (binding self-test of the judge): /(a)|b/.exec("ab") recorded with capture 1 = "b" must be rejected
	canary, _ := json.Marshal(map[string]any{"i": n + 1, "fam": "strm", "form": "ctor", "m": "exec", "src": units("(a)|b"), "flags": units(""), "s": units("ab"),
		"li": intV(0), "got": map[string]any{"thr": "", "log": []string{}, "v": map[string]any{"t": "arr", "a": []any{
			map[string]any{"t": "match", "index": intV(0), "input": strV("ab"), "caps": []any{strV("a"), strV("b")}, "attr": []bool{true, true, true, true, true, true}}, intV(0)}}}})
	trace.Write(canary)
	trace.WriteByte('\n')
	canaryRejected := false
	nb := 4 * c.Workers
	nsel, nstrm, npat := bounds(c)
	cfgText := strings.Replace(cfg(c, []string{"judge"}, nsel, nstrm, npat), "INIT Init\nNEXT Next\nINVARIANT Emit", fmt.Sprintf(" NB = %d\n C10Dev = %s\nINIT JInit\nNEXT JNext\nINVARIANT Judge", nb, core.TLASet(ownOpen(c))), 1)
	var mu sync.Mutex
	var rejected, known, skipped int64
	res, err := tlc.Run(tlc.Opts{SpecDir: c.SpecDir, Module: "C10Judge", Cfg: cfgText, Workers: c.Workers,
		Files: map[string][]byte{"trace.ndjson": trace.Bytes()}, Timeout: 30 * time.Minute}, func(p []byte) {
		var m struct {
			I     int             `json:"i"`
			Skip  bool            `json:"skip"`
			Want  json.RawMessage `json:"want"`
			Dev   json.RawMessage `json:"dev"`
			Known bool            `json:"known"`
		}
		if json.Unmarshal(p, &m) == nil && m.I == n+1 {
			mu.Lock()
			canaryRejected = !m.Known && !m.Skip
			mu.Unlock()
			return
		}
		if json.Unmarshal(p, &m) != nil || m.I < 1 || m.I > n {
			mu.Lock()
			rejected++
			mu.Unlock()
			c.Violate("judge: undecodable verdict "+string(p), nil)
			return
		}
		if m.Skip {
			mu.Lock()
			skipped++
			mu.Unlock()
			return
		}
		if m.Known {
			mu.Lock()
			known++
			mu.Unlock()
			c.Hit("deviation")
			return
		}
		i := m.I - 1
		out2, err2 := (&jvm{}).eval(srcs[i]) // reproduce on a fresh runtime before reporting
		if err2 != nil || out2 != outs[i] {
			c.Note("judge: case not reproducible on a fresh runtime: %s", srcs[i])
			return
		}
		mu.Lock()
		rejected++
		mu.Unlock()
		c.Violate(fmt.Sprintf("%s  =>  implementation %s ; specification %s", srcs[i], outs[i], m.Want),
			map[string]any{"js": srcs[i], "case": cases[i], "observed": outs[i], "expected": m.Want, "under_deviations": m.Dev})
	})
	if err != nil {
		return nil, fmt.Errorf("judge: %v", err)
	}
	if !canaryRejected {
		return nil, fmt.Errorf("judge self-test: the corrupted record was accepted")
	}
	sample := "none"
	if n > 0 {
		sample = srcs[0] + " => " + outs[0]
	}
	return map[string]any{"random_cases": n, "accepted_strictly": int64(n) - known - rejected - skipped - int64(panics), "accepted_as_known_deviation": known,
		"skipped_es5_reject_web_accept": skipped, "rejected": rejected, "go_panics": panics, "corrupted_canary_rejected": canaryRejected,
		"tlc_states": res.Distinct, "tlc_wall_s": res.Wall, "eval_wall_s": evalWall, "sample": sample,
		"domain": "random pattern texts of nesting depth <= 3 (literals, classes with ranges/escapes/negation, class and character escapes, greedy and lazy quantifiers with bounds <= 3, groups, alternation, anchors), 1 in 6 mutated into malformed / unsupported / engine-specific syntax; random flags (1 in 40 invalid); subjects of 0..6 units over {a b c A B 1 _ space LF CR - e-acute , =}; lastIndex 0..len+1; exec, test, match, search, split, replace"}, nil
}
