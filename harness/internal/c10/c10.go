// Package c10: regular expressions - sound translation and the ES5 matching
// protocol (spec/RegExpSpec.tla, spec/C10.tla, spec/C10H.tla, spec/C10Judge.tla).  TLC enumerates
// the cases and computes the outcome ES5 prescribes; this package renders the
// cases, projects the observations and compares.
package c10

import (
	"encoding/json"
	"fmt"
	"os"
	"path/filepath"
	"reflect"
	"regexp"
	"sync/atomic"
	"time"

	"github.com/robertkrimen/otto/parser"

	"verif/harness/internal/core"
	"verif/harness/internal/gen"
	"verif/harness/internal/tlc"
)

// Prelude: projection helpers.  A result array of exec/match (an array that
// owns "index" or "input") is projected with index, input and every element;
// strings are read back as code-unit arrays (UNITS in the shared prelude).
const Prelude = `
function ENCOBJ(v){
  if (Object.prototype.toString.call(v) === "[object Array]") {
    var a = [];
    for (var i = 0; i < v.length; i++) a.push(ENCV(v[i]));
    if (Object.prototype.hasOwnProperty.call(v, "index") || Object.prototype.hasOwnProperty.call(v, "input"))
      return {t:"match", index:ENCV(v.index), input:ENCV(v.input), caps:a, attr:WEC(v, "index").concat(WEC(v, "input"))};
    return {t:"arr", a:a};
  }
  return {t:"obj", cls:Object.prototype.toString.call(v)};
}
// [writable, enumerable, configurable] of an own data property (all false when it is missing)
function WEC(o, k){
  var d = Object.getOwnPropertyDescriptor(o, k);
  return d === undefined ? [false, false, false] : [d.writable === true, d.enumerable === true, d.configurable === true];
}
// 15.10.7: values and attributes of the instance properties
function PROPS(r){
  return [r.global, r.ignoreCase, r.multiline, r.lastIndex].concat(WEC(r, "source"), WEC(r, "global"), WEC(r, "ignoreCase"), WEC(r, "multiline"), WEC(r, "lastIndex"));
}
// G runs a case inside an inner try so that a Go run-time panic that is not
// convertible to a JavaScript value (a struct such as runtime.boundsError)
// surfaces as a catchable exception of the OUTER try in RUN - an outcome that
// is compared with the expectation - instead of aborting the batch as a
// harness error; conforming results pass through unchanged.
function G(f){ try { return f(); } finally { } }
// exec on each subject from lastIndex 0: [[result, lastIndex after], ...]
function EXECALL(r, ss){
  var out = [];
  try {
    for (var i = 0; i < ss.length; i++) { r.lastIndex = 0; var x = r.exec(ss[i]); out.push([x, r.lastIndex]); }
  } finally { }
  return out;
}
// "ok" or the class name of the error the construction raises
function CLASSIFY(f){
  try { f(); } catch (e) { if (e instanceof Error) return e.name; return "non-Error thrown"; }
  return "ok";
}
// "Error" if the construction raises any Error, else "ok"
function REJECTED(f){
  try { f(); } catch (e) { if (e instanceof Error) return "Error"; return "non-Error thrown"; }
  return "ok";
}
`

// cfg renders the TLC configuration of one generator run: the families, the
// number of subjects per exec case (NSel; twice that for f1), of subjects per
// pattern of the string-method family (NStrm) and of patterns per block (NPat);
// 0 = all.
func cfg(c *core.Ctx, fams []string, nsel, nstrm, npat int) string {
	return fmt.Sprintf("CONSTANTS\n OpenDev = %s\n Fams = %s\n Tier = %q\n NSel = %d\n NStrm = %d\n NPat = %d\nINIT Init\nNEXT Next\nINVARIANT Emit\nCHECK_DEADLOCK FALSE\n",
		core.TLASet(c.Findings.OpenIDs()), core.TLASet(fams), c.Tier, nsel, nstrm, npat)
}

func bounds(c *core.Ctx) (nsel, nstrm, npat int) {
	if c.Thorough() {
		return 48, 8, 0
	}
	return 8, 1, 25
}

func families() []string {
	if f := os.Getenv("VERIF_C10_FAMS"); f != "" { // development aid: run a subset of the families
		var r []string
		json.Unmarshal([]byte(f), &r)
		return r
	}
	return []string{"syntax", "esc", "f1", "f2", "f3", "f4", "f5", "f6", "strm", "repl", "replfn", "bytes", "hist", "xlate", "judge"}
}

func genFamilies() []string {
	var r []string
	for _, f := range families() {
		if f != "xlate" && f != "hist" && f != "judge" {
			r = append(r, f)
		}
	}
	return r
}

// sameOutcome is deep equality of the observed and the expected outcome with one
// extension: where the specification expects {t:"frame", pre, suf} (a string some
// part of which ES5 leaves implementation-defined, 15.5.4.11 Table 22) any
// observed string that starts with pre and ends with suf, without overlap, agrees.
func sameOutcome(got, want any) bool {
	switch w := want.(type) {
	case map[string]any:
		g, ok := got.(map[string]any)
		if !ok {
			return false
		}
		if w["t"] == "anyof" { // the outcomes under several sets of open deviations (spec/C10H.tla)
			alts, _ := w["alts"].([]any)
			for _, a := range alts {
				if sameOutcome(got, a) {
					return true
				}
			}
			return false
		}
		if w["t"] == "frame" {
			if g["t"] != "str" {
				return false
			}
			s, _ := g["s"].([]any)
			pre, _ := w["pre"].([]any)
			suf, _ := w["suf"].([]any)
			if len(s) < len(pre)+len(suf) {
				return false
			}
			return reflect.DeepEqual(s[:len(pre)], pre) && reflect.DeepEqual(s[len(s)-len(suf):], suf)
		}
		if len(g) != len(w) {
			return false
		}
		for k, wv := range w {
			gv, ok := g[k]
			if !ok || !sameOutcome(gv, wv) {
				return false
			}
		}
		return true
	case []any:
		g, ok := got.([]any)
		if !ok || len(g) != len(w) {
			return false
		}
		for i := range w {
			if !sameOutcome(g[i], w[i]) {
				return false
			}
		}
		return true
	}
	return reflect.DeepEqual(got, want)
}

var Spec = &gen.Spec{
	Module:  "C10",
	Prelude: Prelude,
	PerVM:   50,
	Compare: sameOutcome,
	Runs: func(c *core.Ctx) []gen.RunCfg {
		fams := genFamilies()
		if len(fams) == 0 {
			return nil
		}
		nsel, nstrm, npat := bounds(c)
		return []gen.RunCfg{{Name: fmt.Sprintf("generator-%v-%s", fams, c.Tier), Cfg: cfg(c, fams, nsel, nstrm, npat), Opts: tlc.Opts{Seed: c.Seed}}}
	},
	Assume: []string{
		"patterns: the families of spec/C10.tla (atoms x quantifiers, two-term sequences and alternations, quantified groups, nested groups, nullable loop bodies, escape atoms) over the atoms of spec/C10Str.tla",
		"subjects: every word of at most 3 (quick) / 4 (thorough) units over {a, b, A, LF} (thorough: plus space and 1), sampled per pattern in the quick tier; single-atom patterns also meet CR, LS, VT, NBSP, BOM, e-acute, KELVIN SIGN, LONG S",
		"replacement strings whose $n / $nn exceed the number of captures are not generated (implementation-defined, 15.5.4.11)",
		"pattern texts that the ES5 grammar rejects but the web-compatibility grammar (ES2015 B.1.4) accepts are not used as must-reject cases",
	},
}

// translate feeds every generated pattern text to parser.TransformRegExp and
// regexp.Compile directly: a pattern the specification's grammar accepts (and
// that is in the portable subset) must translate and compile; look-ahead,
// back-references and malformed texts must be refused by one of the two.
func translate(c *core.Ctx) (map[string]any, error) {
	var n, nOK, nRej, nLax, nDev int64
	o := tlc.Opts{SpecDir: c.SpecDir, Module: "C10", Cfg: cfg(c, []string{"xlate"}, 0, 0, 0), Workers: c.Workers, Timeout: 20 * time.Minute}
	res, err := tlc.Run(o, func(p []byte) {
		var l struct {
			Src []int  `json:"src"`
			Cls string `json:"cls"`
			Dev string `json:"dev"`
		}
		if json.Unmarshal(p, &l) != nil {
			return
		}
		atomic.AddInt64(&n, 1)
		src := string(unitsToRunes(l.Src))
		got := "ok"
		func() {
			defer func() {
				if r := recover(); r != nil {
					got = fmt.Sprintf("GO PANIC: %v", r)
				}
			}()
			pat, err := parser.TransformRegExp(src)
			if err != nil {
				got = "rejected"
				return
			}
			if _, err := regexp.Compile(pat); err != nil {
				got = "rejected"
			}
		}()
		want := "rejected"
		switch l.Cls {
		case "ok":
			want = "ok"
		case "lax":
			atomic.AddInt64(&nLax, 1)
			return
		}
		if got == want {
			if want == "ok" {
				atomic.AddInt64(&nOK, 1)
			} else {
				atomic.AddInt64(&nRej, 1)
			}
			return
		}
		wantDev := ""
		switch l.Dev {
		case "ok":
			wantDev = "ok"
		case "syntax", "unsupported":
			wantDev = "rejected"
		}
		if wantDev != "" && got == wantDev {
			atomic.AddInt64(&nDev, 1)
			c.Hit("deviation")
			return
		}
		c.Violate(fmt.Sprintf("translation of pattern %q: parser.TransformRegExp + regexp.Compile %s; the pattern grammar (15.10.1) classifies it %q, so it must be %s", src, got, l.Cls, want),
			map[string]any{"pattern": src, "observed": got, "class": l.Cls})
	})
	if err != nil {
		return nil, err
	}
	return map[string]any{"patterns": n, "accepted_and_compiled": nOK, "rejected_as_required": nRej, "conforming_to_known_deviation": nDev,
		"skipped_es5_reject_web_accept": nLax, "tlc_states": res.Distinct, "wall_s": res.Wall}, nil
}

func unitsToRunes(u []int) []rune {
	r := make([]rune, len(u))
	for i, x := range u {
		r[i] = rune(x)
	}
	return r
}

// SpecH: part (b), the lastIndex protocol as a state machine (spec/C10H.tla).
var SpecH = &gen.Spec{
	Module:  "C10H",
	Prelude: Prelude,
	Compare: sameOutcome,
	PerVM:   1, // every transition is replayed on a fresh runtime
	Runs: func(c *core.Ctx) []gen.RunCfg {
		depth := 3
		hcfg := func(maxLen int, props bool) string {
			s := fmt.Sprintf("CONSTANTS\n OpenDev = %s\n C10Dev = %s\n Tier = %q\n MaxLen = %d\nINIT Init\nNEXT Next\nVIEW View\nCHECK_DEADLOCK FALSE\n",
				core.TLASet(c.Findings.OpenIDs()), core.TLASet(ownOpen(c)), c.Tier, maxLen)
			if props {
				s += "INVARIANT LastIndexShape\nPROPERTIES NonGlobalNeverAdvances SearchSplitLeaveState\n"
			}
			return s
		}
		// (1) every (object state, call) pair reachable within `depth` calls, each once (VIEW hides the history);
		// (2) random longer call sequences (no state is merged in simulation mode)
		n, d := 12, 6
		if c.Thorough() {
			n, d = 60, 8
		}
		return []gen.RunCfg{
			{Name: fmt.Sprintf("lastIndex-histories-bfs-depth%d-%s", depth, c.Tier), Cfg: hcfg(depth, true)},
			{Name: fmt.Sprintf("lastIndex-histories-simulate-%dx%d", 4*n, d), Cfg: hcfg(d, false),
				Opts: tlc.Opts{Workers: 4, Simulate: true, Num: n, Depth: d + 1, Seed: c.Seed}},
		}
	},
}

// ownOpen lists the open findings of this property (the deviations RegExpSpec.tla knows).
func ownOpen(c *core.Ctx) []string {
	var r []string
	for _, f := range c.Findings.OpenFor(c.Property) {
		r = append(r, f.ID)
	}
	if len(r) == 0 {
		for _, f := range c.Findings.OpenFor("C10") { // private contexts (self-test) carry another property name
			r = append(r, f.ID)
		}
	}
	return r
}

func has(fams []string, f string) bool {
	for _, x := range fams {
		if x == f {
			return true
		}
	}
	return false
}

func addInt(dst map[string]any, src map[string]any, keys ...string) {
	for _, k := range keys {
		a, _ := dst[k].(int64)
		b, _ := src[k].(int64)
		dst[k] = a + b
	}
}

// mutation is the seeded defect of the binding self-test: the harness-side
// adapter makes exec forget the last capture, so the implementation under test
// no longer does what the specification says and the check must reject it.
const mutation = `
(function(){ var e = RegExp.prototype.exec;
  RegExp.prototype.exec = function(s){ var x = e.call(this, s); if (x !== null && x.length > 1) x[x.length - 1] = undefined; return x; }; })();
`

// selfTest replays a random sample of the generated cases against the mutated
// adapter on a private context and returns the cases evaluated and rejected.
func selfTest(c *core.Ctx) (cases, rejected int64, err error) {
	mc, err := core.NewCtx(c.Property+"-selftest", "quick")
	if err != nil {
		return 0, 0, err
	}
	mc.Seed = c.Seed
	defer os.RemoveAll(filepath.Join(core.Root, "replays", mc.Property))
	dump := os.Getenv("VERIF_DEBUG_DUMP")
	os.Unsetenv("VERIF_DEBUG_DUMP")
	defer os.Setenv("VERIF_DEBUG_DUMP", dump)
	spec := *Spec
	spec.Prelude = Prelude + mutation
	spec.Runs = func(*core.Ctx) []gen.RunCfg {
		return []gen.RunCfg{{Name: "selftest-sample", Cfg: cfg(mc, []string{"f4"}, 4, 0, 2), Opts: tlc.Opts{Seed: c.Seed}}}
	}
	cov, _, err := gen.Check(mc, &spec)
	if err != nil {
		return 0, 0, err
	}
	n, _ := cov["evaluations"].(int64)
	return n, int64(len(mc.Violations())), nil
}

func Check(c *core.Ctx) (map[string]any, []string, error) {
	fams := families()
	cov, assume, err := gen.Check(c, Spec)
	if err != nil {
		return nil, nil, err
	}
	cov["rule"] = "one case per TLC state of the generator module (an exec case evaluates one pattern on a list of subjects), one case per transition of the lastIndex state machine"
	if has(fams, "hist") {
		hc, _, err := gen.Check(c, SpecH)
		if err != nil {
			return nil, nil, fmt.Errorf("lastIndex state machine: %v", err)
		}
		addInt(cov, hc, "states", "transitions", "traces_validated_against_impl", "conforming", "conforming_to_known_deviation",
			"non_reproducible_skipped", "evaluations")
		cov["tlc_runs"] = append(cov["tlc_runs"].([]map[string]any), hc["tlc_runs"].([]map[string]any)...)
		cov["lastindex_state_machine"] = map[string]any{"transitions_replayed": hc["evaluations"], "distinct_expected_outcomes": hc["distinct_expected_outcomes"],
			"model_properties_checked": []string{"LastIndexShape", "NonGlobalNeverAdvances", "SearchSplitLeaveState"}}
	}
	if os.Getenv("VERIF_C10_FAMS") == "" {
		n, rej, err := selfTest(c)
		if err != nil {
			return nil, nil, fmt.Errorf("binding self-test: %v", err)
		}
		if rej == 0 {
			return nil, nil, fmt.Errorf("binding self-test: the mutated adapter (exec forgets the last capture) was accepted on %d cases", n)
		}
		cov["binding_selftest"] = map[string]any{"mutation": "harness adapter: RegExp.prototype.exec forgets the last capture",
			"cases_sampled": n, "cases_rejected": rej}
	}
	if has(fams, "judge") {
		nj := 4000
		if c.Thorough() {
			nj = 60000
		}
		jc, err := judge(c, nj)
		if err != nil {
			return nil, nil, err
		}
		cov["judge_direction"] = jc
		if v, ok := cov["traces_validated_against_impl"].(int64); ok {
			cov["traces_validated_against_impl"] = v + int64(nj)
		}
	}
	if has(fams, "xlate") {
		tr, err := translate(c)
		if err != nil {
			return nil, nil, fmt.Errorf("translation pass: %v", err)
		}
		cov["translation_direct"] = tr
	}
	return cov, assume, nil
}
