-------------------------------- MODULE Arr ---------------------------------
(* ES5.1 15.4: the Array exotic object (15.4.5.1, 15.4.5.2), the constructor *)
(* (15.4.2) and every function of Array.prototype (15.4.4.2 - 15.4.4.22),    *)
(* transcribed as operators over the abstract heap of ObjModel.tla.  The     *)
(* methods use only the internal methods [[Get]], [[Put]], [[Delete]],       *)
(* [[HasProperty]] and [[DefineOwnProperty]], so they are generic over       *)
(* array-likes exactly as ES5 is.                                            *)
(*                                                                           *)
(* Heap layout:  1 = Object.prototype, 2 = Array.prototype (an Array),       *)
(* 3 = the receiver, 4.. = further objects; arrays created by a method are   *)
(* appended.  Only data properties occur (no accessors are generated), so    *)
(* [[Get]]/[[Put]] never have to run script code; the only script code a     *)
(* method runs is the callback, which is a scripted behaviour record (see    *)
(* CbBehave) and whose every call is appended to the log together with the   *)
(* conversions (valueOf/toString of scripted conversion objects, Ops.tla).   *)
(*                                                                           *)
(* An evaluation state is  [H, log, thr, v, n] : heap, log, "" or the class  *)
(* of the exception thrown ("value": a non-Error value v was thrown), the    *)
(* value produced by the last step, and the number of callback calls so far. *)
(*                                                                           *)
(* Known deviations of the implementation are the branches D("D08_...").     *)
EXTENDS ObjModel, TLC

O == INSTANCE Ops          \* clause 9 conversions with scripted conversion objects (Dev <- Dev)

-----------------------------------------------------------------------------
(* evaluation states                                                         *)
Mk(H, log) == [H |-> H, log |-> log, thr |-> "", v |-> Undef, n |-> 0]
Failed(st) == st.thr # ""
Throw(st, cls) == [st EXCEPT !.thr = cls, !.v = Undef]
Ret(st, v) == [st EXCEPT !.v = v]
WithH(st, H) == [st EXCEPT !.H = H]
(* result r of an Ops conversion started with an empty log: its entries (TLC strings naming the *)
(* scripted valueOf/toString calls) are appended as [k |-> "s", s |-> entry]                  *)
Conv(st, r) == [st EXCEPT !.thr = r.thr, !.v = r.v,
                          !.log = @ \o [i \in 1..Len(r.log) |-> [k |-> "s", s |-> r.log[i]]]]

ToNum(st, v) == IF Failed(st) THEN st ELSE Conv(st, O!ToNumber(v, <<>>))        \* 9.3, v becomes NumV
ToStr(st, v) == IF Failed(st) THEN st ELSE Conv(st, O!ToStringV(v, <<>>))       \* 9.8, v becomes StrV
ToInt(st, v) == LET s == ToNum(st, v) IN IF Failed(s) THEN s ELSE Ret(s, NumV(ToIntegerN(s.v.n)))   \* 9.4

Arg(args, i) == IF i <= Len(args) THEN args[i] ELSE Undef
IdxS(k) == DigitsNat(k)                    \* ToString(k) for a small natural k
NumS(n) == IntNumToStr(n)                  \* ToString(n) for an integer Num below 2^53
IsSmall(n) == n.c = "int"                  \* an integer Num that is also a TLC integer
NumToInt(n) == IF n.c = "int" THEN n.v ELSE 0

-----------------------------------------------------------------------------
(* 15.4 "array index" as the implementation recognises it:                   *)
(* stringToArrayIndex uses strconv.ParseInt, so an optional sign and leading *)
(* zeros are accepted ("01", "+1", "-0", "00") and mapped to the canonical   *)
(* index.                                                                    *)
RECURSIVE StripZ(_)
StripZ(s) == IF Len(s) > 1 /\ s[1] = 48 THEN StripZ(Tail(s)) ELSE s
ParseIntIdx(p) ==
    IF p = <<>> THEN [ok |-> FALSE]
    ELSE LET body == IF p[1] \in {43, 45} THEN Tail(p) ELSE p
         IN  IF body = <<>> \/ ~AllDigits(body, 1) THEN [ok |-> FALSE]
             ELSE LET z == StripZ(body)
                  IN  IF ~IsArrayIndex(z) THEN [ok |-> FALSE]
                      ELSE IF p[1] = 45 /\ z # <<48>> THEN [ok |-> FALSE]
                      ELSE [ok |-> TRUE, canon |-> z]

(* 15.4.5.1 [[DefineOwnProperty]] of Array objects: [H, ok, thr].            *)
(* thr = "RangeError" for an invalid length, otherwise ok = FALSE is Reject. *)
ADefineOwnArr(H, o, p, d) ==
    LET oldLenP == OwnProp(H, o, S_length)
        oldLen  == oldLenP.v.n
    IN
    IF p = S_length THEN                                                              \* step 3
        IF ~d.hv THEN OrdDefineOwn(H, o, p, d)                                          \* 3.a
        ELSE LET numV   == ToNumberPrim(d.v)          \* (length values are primitives here)
                 newLen == ToUint32N(numV)                                              \* 3.c
             IN  IF ~NumEq(newLen, numV) THEN [H |-> H, ok |-> FALSE, thr |-> "RangeError"]   \* 3.d ("not equal": -0 equals +0)
                 ELSE LET nd == [d EXCEPT !.v = NumV(newLen)]                           \* 3.e
                      IN  IF NumCmp(newLen, oldLen) > 0 THEN OrdDefineOwn(H, o, p, nd)  \* 3.f (newLen > oldLen)
                          ELSE IF NumCmp(newLen, oldLen) = 0 /\ ~D("D08_deflen_equal_nonwritable")
                               THEN OrdDefineOwn(H, o, p, nd)                           \* 3.f (newLen = oldLen)
                               \* deviation: type_array.go tests "newLength > length", so an equal
                               \* length takes the shrinking path and is rejected when length is read-only
                          ELSE IF ~oldLenP.w THEN [H |-> H, ok |-> FALSE, thr |-> ""]    \* 3.g
                          ELSE LET newWritable == ~nd.hw \/ nd.w                        \* 3.h, 3.i
                                   nd2 == IF newWritable THEN nd ELSE [nd EXCEPT !.w = TRUE]
                                   r1  == OrdDefineOwn(H, o, p, nd2)                    \* 3.j
                               IN  IF ~r1.ok THEN r1                                    \* 3.k
                                   ELSE LET doomed == SortDesc({x \in OwnIndexNames(r1.H, o) :
                                                                   NumCmp(IndexNum(x), newLen) >= 0})
                                            t == TruncLoop(r1.H, o, doomed, newLen)     \* 3.l
                                            lenP == OwnProp(t.H, o, S_length)
                                            H2 == SetProp(t.H, o, S_length,
                                                    [lenP EXCEPT !.v = NumV(t.len),
                                                                 !.w = IF newWritable THEN lenP.w ELSE FALSE])  \* 3.l.iii, 3.m
                                        IN  IF t.stopped THEN [H |-> H2, ok |-> FALSE, thr |-> ""]
                                            ELSE [H |-> H2, ok |-> TRUE, thr |-> ""]
    ELSE IF D("D08_index_parseint") /\ ParseIntIdx(p).ok THEN
        \* deviation (otto_.go stringToArrayIndex): a non-canonical numeric name is an index;
        \* the element is defined under the canonical name, and when it lies below length
        \* type_array.go falls through and defines the property under the given name as well
        LET canon == ParseIntIdx(p).canon
            idx   == IndexNum(canon)
        IN  IF NumCmp(idx, oldLen) >= 0 /\ ~oldLenP.w THEN [H |-> H, ok |-> FALSE, thr |-> ""]
            ELSE LET r == OrdDefineOwn(H, o, canon, d)
                 IN  IF ~r.ok THEN r
                     ELSE IF NumCmp(idx, oldLen) >= 0
                          THEN [H |-> SetProp(r.H, o, S_length, [oldLenP EXCEPT !.v = NumV(NumAdd(idx, I(1)))]),
                                ok |-> TRUE, thr |-> ""]
                          ELSE IF canon = p THEN r ELSE OrdDefineOwn(r.H, o, p, d)
    ELSE IF IsArrayIndex(p) THEN                                                      \* step 4
        LET idx == IndexNum(p)
        IN  IF NumCmp(idx, oldLen) >= 0 /\ ~oldLenP.w THEN [H |-> H, ok |-> FALSE, thr |-> ""]    \* 4.b
            ELSE LET r == OrdDefineOwn(H, o, p, d)                                     \* 4.c
                 IN  IF ~r.ok THEN r                                                   \* 4.d
                     ELSE IF NumCmp(idx, oldLen) >= 0                                  \* 4.e
                          THEN [H |-> SetProp(r.H, o, S_length, [oldLenP EXCEPT !.v = NumV(NumAdd(idx, I(1)))]),
                                ok |-> TRUE, thr |-> ""]
                          ELSE r
    ELSE OrdDefineOwn(H, o, p, d)                                                     \* step 5

ADefOwn(H, o, p, d) ==
    IF H[o].cls = "Array" THEN ADefineOwnArr(H, o, p, d) ELSE OrdDefineOwn(H, o, p, d)

(* 8.12.3 [[Get]] (data properties only) *)
AGet(H, o, p) == LET r == GetProp(H, o, p) IN IF r.has THEN r.d.v ELSE Undef

(* 8.12.5 [[Put]] (data properties only): [H, ok, thr] *)
APut(H, o, p, v) ==
    IF ~CanPut(H, o, p) THEN [H |-> H, ok |-> FALSE, thr |-> ""]                       \* step 1
    ELSE IF HasOwn(H, o, p) THEN                                                        \* step 3: {[[Value]]: V}
        \* (objectPut passes the whole current property with the new value; for the property itself that
        \* is the same change, but the index deviation applies the descriptor to the canonical name too)
        (LET cur == OwnProp(H, o, p)
         IN  ADefOwn(H, o, p, IF D("D08_index_parseint") THEN FullDataDesc(v, cur.w, cur.e, cur.c) ELSE ValueDesc(v)))
    ELSE ADefOwn(H, o, p, FullDataDesc(v, TRUE, TRUE, TRUE))                            \* step 6

(* the internal methods on evaluation states, Throw = true *)
PutT(st, o, p, v) ==
    IF Failed(st) THEN st
    ELSE LET r == APut(st.H, o, p, v)
         IN  IF r.thr # "" THEN Throw(WithH(st, r.H), r.thr)
             ELSE IF ~r.ok THEN Throw(WithH(st, r.H), "TypeError")
             ELSE WithH(st, r.H)
DelT(st, o, p) ==
    IF Failed(st) THEN st
    ELSE LET r == DeleteOwn(st.H, o, p)
         IN  IF ~r.ok THEN Throw(st, "TypeError") ELSE WithH(st, r.H)
(* [[DefineOwnProperty]](P, {V, true, true, true}, false) on a fresh array *)
DefElem(st, a, p, v) ==
    IF Failed(st) THEN st ELSE WithH(st, ADefOwn(st.H, a, p, FullDataDesc(v, TRUE, TRUE, TRUE)).H)
(* Throw = false (assignment in non-strict code, the delete operator) *)
PutQ(st, o, p, v) ==
    IF Failed(st) THEN st
    ELSE LET r == APut(st.H, o, p, v)
         IN  IF r.thr # "" THEN Throw(WithH(st, r.H), r.thr) ELSE WithH(st, r.H)

(* ToUint32(O.[[Get]]("length")): v becomes NumV *)
LenSt(st, o) ==
    LET s == ToNum(st, AGet(st.H, o, S_length))
    IN  IF Failed(s) THEN s ELSE Ret(s, NumV(ToUint32N(s.v.n)))

(* "new Array()" (15.4.2.1 with no items): [H, id] *)
NewArrayObj == [NewObj("Array", 2) EXCEPT !.props = (S_length :> DataP(IntV(0), TRUE, FALSE, FALSE)),
                                          !.order = <<S_length>>]
Alloc(st) == [st |-> WithH(st, Append(st.H, NewArrayObj)), id |-> Len(st.H) + 1]

(* relative index clamping of slice/splice (steps "If relativeStart is negative, let k be *)
(* max((len + relativeStart),0); else let k be min(relativeStart, len)"): rel is an       *)
(* integer-valued Num or an infinity, len a small natural; the result is in 0..len        *)
RelClamp(rel, len) ==
    IF NumCmp(rel, I(0)) < 0
    THEN LET t == NumAdd(I(len), rel) IN IF NumCmp(t, I(0)) < 0 THEN 0 ELSE NumToInt(t)
    ELSE IF NumCmp(rel, I(len)) > 0 THEN len ELSE NumToInt(rel)

Unsupported(st) == Throw(st, "UNSUPPORTED: length too large for a looping method")

(* The final [[Put]] of "length" on the result of slice, splice and concat is *)
(* missing from the ES5.1 text (the result is built with                      *)
(* [[DefineOwnProperty]] only, so trailing holes would not count); ES2015     *)
(* (22.1.3.1, 22.1.3.22, 22.1.3.25) corrected the omission and every          *)
(* implementation always behaved that way.  The specification follows the     *)
(* corrected text.                                                            *)
FixResultLength(st, a, n) == PutT(st, a, S_length, IntV(n))

-----------------------------------------------------------------------------
(* Scripted callbacks.  cb is a behaviour record; every call appends         *)
(* [k |-> "cb", cb |-> arguments, this |-> this value] to the log.           *)
(*   [k |-> "const", v]            return v                                  *)
(*   [k |-> "even", ip]            return (argument ip) % 2 === 0            *)
(*   [k |-> "arg", i]              return argument i                         *)
(*   [k |-> "sum"]                 return argument 1 + argument 2  (11.6.1)  *)
(*   [k |-> "throwat", at, v]      throw "X" at call number at, else v       *)
(*   [k |-> "mut", at, m, v]       at call number at first mutate the        *)
(*                                 receiver (object 3) with m, then return v *)
(* mutations m: [op "push", v] | [op "del", p] | [op "setlen", v] |          *)
(*              [op "put", p, v]                                             *)
GlobalThis == [t |-> "global"]
S_X == <<88>>

M_push(st0, o, args) ==                                                       \* 15.4.4.7
    LET s1 == LenSt(st0, o)                                                     \* steps 1-3
    IN  IF Failed(s1) THEN s1
        ELSE LET n0 == s1.v.n
                 RECURSIVE Loop(_, _, _)
                 Loop(st, i, n) ==                                              \* step 5
                    IF Failed(st) \/ i > Len(args) THEN [st |-> st, n |-> n]
                    ELSE Loop(PutT(st, o, NumS(n), args[i]), i + 1, NumAdd(n, I(1)))
                 r == Loop(s1, 1, n0)
                 s2 == PutT(r.st, o, S_length, NumV(r.n))                        \* step 6
             IN  IF Failed(s2) THEN s2 ELSE Ret(s2, NumV(r.n))                   \* step 7

Mutate(st, m) ==
    CASE m.op = "push" -> M_push(st, 3, <<m.v>>)
      [] m.op = "del" -> WithH(st, DeleteOwn(st.H, 3, m.p.s).H)
      [] m.op = "setlen" -> PutQ(st, 3, S_length, m.v)
      [] m.op = "put" -> PutQ(st, 3, m.p.s, m.v)

CbBehave(st, cb, args, n) ==
    CASE cb.k = "const" -> Ret(st, cb.v)
      [] cb.k = "even" -> LET x == args[cb.ip]
                              num == ToNumberPrim(x)
                          IN  Ret(st, BoolV(IsZero(NumMod(num, I(2)))))
      [] cb.k = "arg" -> Ret(st, Arg(args, cb.i))
      [] cb.k = "sum" -> Conv(st, O!Plus(args[1], args[2], <<>>))
      [] cb.k = "throwat" -> IF n = cb.at THEN [st EXCEPT !.thr = "value", !.v = StrV(S_X)] ELSE Ret(st, cb.v)
      [] cb.k = "mut" -> IF n = cb.at
                         THEN (LET s == Mutate(st, cb.m) IN IF Failed(s) THEN s ELSE Ret(s, cb.v))
                         ELSE Ret(st, cb.v)

IsCallableV(v) == v.t = "cb"            \* callback values are [t |-> "cb", ...behaviour]

CallCb(st, cb, T, args) ==
    IF Failed(st) THEN st
    ELSE LET n1 == st.n + 1
             s1 == [st EXCEPT !.log = Append(@, [k |-> "cb", cb |-> args, this |-> T]), !.n = n1]
         IN  CbBehave(s1, cb, args, n1)

(* 10.4.3: the this value a non-strict callback sees *)
(* (10.4.3 steps 1-3): undefined and null give the global object, any other primitive ToObject(thisArg), *)
(* a fresh wrapper object at every call (projected as [t |-> "wrap", cls, k |-> 0, pv]: class and       *)
(* primitive value, no identity)                                                                        *)
PrimClassOf(v) == CASE v.t = "str" -> "String" [] v.t = "num" -> "Number" [] v.t = "bool" -> "Boolean"
ThisFor(T) == IF T = Undef \/ T = Null THEN GlobalThis
              ELSE IF T.t \in {"str", "num", "bool"} THEN [t |-> "wrap", cls |-> PrimClassOf(T), k |-> 0, pv |-> T]
              ELSE T

-----------------------------------------------------------------------------
(* 15.4.4.5 join; 15.4.4.2 toString                                          *)
ElemStr(st, e) ==      \* "If element is undefined or null, let next be the empty String; otherwise ToString(element)"
    IF Failed(st) THEN st
    ELSE IF e = Undef \/ e = Null THEN Ret(st, StrV(<<>>)) ELSE ToStr(st, e)

M_join(st0, o, args) ==
    LET sepV == Arg(args, 1)
        SepOf(st) == IF sepV = Undef THEN Ret(st, StrV(S_comma)) ELSE ToStr(st, sepV)      \* steps 4-5
        \* deviation: builtinArrayJoin converts the separator before it reads length
        dv == D("D08_join_separator_before_length")
        sA == IF dv THEN SepOf(st0) ELSE LenSt(st0, o)                              \* steps 1-3
        sB == IF Failed(sA) THEN sA ELSE IF dv THEN LenSt(sA, o) ELSE SepOf(sA)
    IN  IF Failed(sB) THEN sB
        ELSE LET len == IF dv THEN sB.v.n ELSE sA.v.n
                 sep == IF dv THEN sA.v.s ELSE sB.v.s
             IN  IF IsZero(len) THEN Ret(sB, StrV(<<>>))                            \* step 6
                 ELSE IF ~IsSmall(len) THEN Unsupported(sB)
                 ELSE LET RECURSIVE Loop(_, _, _)
                          Loop(st, k, R) ==                                         \* steps 7-10
                             IF Failed(st) \/ k >= len.v THEN [st |-> st, R |-> R]
                             ELSE LET e == ElemStr(st, AGet(st.H, o, IdxS(k)))
                                  IN  IF Failed(e) THEN [st |-> e, R |-> R]
                                      ELSE Loop(e, k + 1, (IF k = 0 THEN <<>> ELSE R \o sep) \o e.v.s)
                          r == Loop(sB, 0, <<>>)
                      IN  IF Failed(r.st) THEN r.st ELSE Ret(r.st, StrV(r.R))       \* step 11

S_objObject == <<91, 111, 98, 106, 101, 99, 116, 32, 79, 98, 106, 101, 99, 116, 93>>
(* the receiver finds "join" iff Array.prototype (object 2) is on its prototype chain *)
RECURSIVE OnChain(_, _, _)
OnChain(H, o, x) == o # 0 /\ (o = x \/ OnChain(H, H[o].proto, x))
M_toString(st, o, args) ==                                                    \* 15.4.4.2
    \* steps 2, 4: join is called with an EMPTY argument list.  Deviation (recorded by property C14):
    \* builtinArrayToString forwards its own arguments, so toString("-") joins with "-"
    IF OnChain(st.H, o, 2)
    THEN M_join(st, o, IF D("D14_array_toString_forwards_arguments") THEN args ELSE <<>>)
    ELSE Ret(st, StrV(S_objObject))                                             \* step 3 (15.2.4.2 on an Object)

-----------------------------------------------------------------------------
(* 15.4.4.6 pop                                                              *)
M_pop(st0, o, args) ==
    LET s1 == LenSt(st0, o)                                                     \* steps 1-3
    IN  IF Failed(s1) THEN s1
        ELSE LET len == s1.v.n
             IN  IF IsZero(len) THEN Ret(PutT(s1, o, S_length, IntV(0)), Undef)  \* step 4
                 ELSE LET i == NumSub(len, I(1))                                \* step 5
                          indx == NumS(i)
                          e == AGet(s1.H, o, indx)
                          s2 == DelT(s1, o, indx)
                          s3 == PutT(s2, o, S_length, NumV(i))
                      IN  IF Failed(s3) THEN s3 ELSE Ret(s3, e)

-----------------------------------------------------------------------------
(* 15.4.4.8 reverse                                                          *)
M_reverse(st0, o, args) ==
    LET s1 == LenSt(st0, o)
    IN  IF Failed(s1) THEN s1
        ELSE IF ~IsSmall(s1.v.n) THEN Unsupported(s1)
        ELSE LET len == s1.v.n.v
                 middle == len \div 2                                           \* step 4
                 RECURSIVE Loop(_, _)
                 Loop(st, lower) ==                                             \* step 6
                    IF Failed(st) \/ lower = middle THEN st
                    ELSE LET upper == len - lower - 1
                             upperP == IdxS(upper)
                             lowerP == IdxS(lower)
                             lowerValue == AGet(st.H, o, lowerP)
                             upperValue == AGet(st.H, o, upperP)
                             lowerExists == HasProperty(st.H, o, lowerP)
                             upperExists == HasProperty(st.H, o, upperP)
                             s == IF lowerExists /\ upperExists
                                  THEN PutT(PutT(st, o, lowerP, upperValue), o, upperP, lowerValue)      \* 6.h
                                  ELSE IF ~lowerExists /\ upperExists
                                  THEN (IF D("D08_reverse_delete_before_put")
                                        THEN PutT(DelT(st, o, upperP), o, lowerP, upperValue)
                                        ELSE DelT(PutT(st, o, lowerP, upperValue), o, upperP))            \* 6.i
                                  ELSE IF lowerExists /\ ~upperExists
                                  THEN PutT(DelT(st, o, lowerP), o, upperP, lowerValue)                   \* 6.j
                                  ELSE st                                                                 \* 6.k
                         IN  Loop(s, lower + 1)
                 s2 == Loop(s1, 0)
             IN  IF Failed(s2) THEN s2 ELSE Ret(s2, ObjV(o))                    \* step 7

-----------------------------------------------------------------------------
(* 15.4.4.9 shift                                                            *)
M_shift(st0, o, args) ==
    LET s1 == LenSt(st0, o)
    IN  IF Failed(s1) THEN s1
        ELSE IF IsZero(s1.v.n) THEN Ret(PutT(s1, o, S_length, IntV(0)), Undef)   \* step 4
        ELSE IF ~IsSmall(s1.v.n) THEN Unsupported(s1)
        ELSE LET len == s1.v.n.v
                 first == AGet(s1.H, o, IdxS(0))                                \* step 5
                 RECURSIVE Loop(_, _)
                 Loop(st, k) ==                                                 \* step 7
                    IF Failed(st) \/ k >= len THEN st
                    ELSE LET from == IdxS(k)
                             to == IdxS(k - 1)
                         IN  IF HasProperty(st.H, o, from)
                             THEN Loop(PutT(st, o, to, AGet(st.H, o, from)), k + 1)
                             ELSE Loop(DelT(st, o, to), k + 1)
                 s2 == Loop(s1, 1)
                 s3 == DelT(s2, o, IdxS(len - 1))                               \* step 8
                 s4 == PutT(s3, o, S_length, IntV(len - 1))                     \* step 9
             IN  IF Failed(s4) THEN s4 ELSE Ret(s4, first)                      \* step 10

-----------------------------------------------------------------------------
(* 15.4.4.13 unshift                                                         *)
M_unshift(st0, o, args) ==
    LET s1 == LenSt(st0, o)
    IN  IF Failed(s1) THEN s1
        ELSE IF ~IsSmall(s1.v.n) THEN Unsupported(s1)
        ELSE LET len == s1.v.n.v
                 argCount == Len(args)
                 RECURSIVE Move(_, _)
                 Move(st, k) ==                                                 \* step 6
                    IF Failed(st) \/ k <= 0 THEN st
                    ELSE LET from == IdxS(k - 1)
                             to == IdxS(k + argCount - 1)
                         IN  IF HasProperty(st.H, o, from)
                             THEN Move(PutT(st, o, to, AGet(st.H, o, from)), k - 1)
                             ELSE Move(DelT(st, o, to), k - 1)
                 RECURSIVE Ins(_, _)
                 Ins(st, j) ==                                                  \* step 9
                    IF Failed(st) \/ j >= argCount THEN st
                    ELSE Ins(PutT(st, o, IdxS(j), args[j + 1]), j + 1)
                 s2 == Ins(Move(s1, len), 0)
                 s3 == PutT(s2, o, S_length, IntV(len + argCount))              \* step 10
             IN  IF Failed(s3) THEN s3 ELSE Ret(s3, IntV(len + argCount))       \* step 11

-----------------------------------------------------------------------------
(* 15.4.4.4 concat                                                           *)
M_concat(st0, o, args) ==
    LET a == Alloc(st0)                                                         \* step 2
        A == a.id
        items == <<ObjV(o)>> \o args                                            \* step 4
        RECURSIVE Spread(_, _, _, _, _)
        Spread(st, e, k, len, n) ==                                             \* step 5.b.iii
            IF k >= len THEN [st |-> st, n |-> n]
            ELSE LET P == IdxS(k)
                 IN  IF HasProperty(st.H, e, P)
                     THEN Spread(DefElem(st, A, IdxS(n), AGet(st.H, e, P)), e, k + 1, len, n + 1)
                     ELSE IF D("D08_concat_fills_holes")       \* deviation: a hole of a spread array becomes undefined
                     THEN Spread(DefElem(st, A, IdxS(n), Undef), e, k + 1, len, n + 1)
                     ELSE Spread(st, e, k + 1, len, n + 1)
        RECURSIVE Items(_, _, _)
        Items(st, i, n) ==                                                      \* step 5
            IF i > Len(items) THEN [st |-> st, n |-> n]
            ELSE LET E == items[i]
                 IN  IF E.t = "obj" /\ st.H[E.id].cls = "Array"                 \* 5.b: [[Class]] is "Array"
                     THEN LET lenN == AGet(st.H, E.id, S_length).n
                              r == Spread(st, E.id, 0, NumToInt(lenN), n)
                          IN  Items(r.st, i + 1, r.n)
                     ELSE Items(DefElem(st, A, IdxS(n), E), i + 1, n + 1)       \* 5.c
        r == Items(a.st, 1, 0)
        s2 == FixResultLength(r.st, A, r.n)
    IN  Ret(s2, ObjV(A))                                                        \* step 6

-----------------------------------------------------------------------------
(* 15.4.4.10 slice                                                           *)
M_slice(st0, o, args) ==
    LET a == Alloc(st0)                                                         \* step 2
        A == a.id
        s1 == LenSt(a.st, o)                                                    \* steps 3-4
    IN  IF Failed(s1) THEN s1
        ELSE IF ~IsSmall(s1.v.n) THEN Unsupported(s1)
        ELSE LET len == s1.v.n.v
                 s2 == ToInt(s1, Arg(args, 1))                                  \* step 5
             IN  IF Failed(s2) THEN s2
                 ELSE LET k0 == RelClamp(s2.v.n, len)                           \* step 6
                          endV == Arg(args, 2)
                          s3 == IF endV = Undef THEN Ret(s2, IntV(len)) ELSE ToInt(s2, endV)   \* step 7
                      IN  IF Failed(s3) THEN s3
                          ELSE LET final == RelClamp(s3.v.n, len)               \* step 8
                                   RECURSIVE Loop(_, _, _)
                                   Loop(st, k, n) ==                            \* step 10
                                      IF k >= final THEN [st |-> st, n |-> n]
                                      ELSE LET Pk == IdxS(k)
                                           IN  IF HasProperty(st.H, o, Pk)
                                               THEN Loop(DefElem(st, A, IdxS(n), AGet(st.H, o, Pk)), k + 1, n + 1)
                                               ELSE IF D("D08_slice_fills_holes")
                                               THEN Loop(DefElem(st, A, IdxS(n), Undef), k + 1, n + 1)
                                               ELSE Loop(st, k + 1, n + 1)
                                   r == Loop(s3, k0, 0)
                               IN  Ret(FixResultLength(r.st, A, r.n), ObjV(A))  \* step 11

-----------------------------------------------------------------------------
(* 15.4.4.12 splice                                                          *)
M_splice(st0, o, args) ==
    LET a == Alloc(st0)                                                         \* step 2
        A == a.id
        s1 == LenSt(a.st, o)                                                    \* steps 3-4
    IN  IF Failed(s1) THEN s1
        ELSE IF ~IsSmall(s1.v.n) THEN Unsupported(s1)
        ELSE LET len == s1.v.n.v
                 s2 == ToInt(s1, Arg(args, 1))                                  \* step 5
             IN  IF Failed(s2) THEN s2
                 ELSE LET actualStart == RelClamp(s2.v.n, len)                  \* step 6
                          \* step 7: min(max(ToInteger(deleteCount),0), len - actualStart)
                          \* deviations: the implementation deletes up to the end when deleteCount is
                          \* not passed (with one argument that is also what ES2015 specifies;
                          \* with no argument at all neither edition deletes anything)
                          omitted == Len(args) < 2
                          devAll == omitted /\ ((Len(args) = 1 /\ D("D08_splice_one_arg_deletes_rest"))
                                                \/ (Len(args) = 0 /\ D("D08_splice_no_arg_deletes_all")))
                          s3 == IF devAll THEN Ret(s2, IntV(len - actualStart)) ELSE ToInt(s2, Arg(args, 2))
                      IN  IF Failed(s3) THEN s3
                          ELSE LET dc == s3.v.n
                                   actualDeleteCount ==
                                       IF NumCmp(dc, I(0)) < 0 THEN 0
                                       ELSE IF NumCmp(dc, I(len - actualStart)) > 0 THEN len - actualStart
                                       ELSE NumToInt(dc)
                                   RECURSIVE Copy(_, _)
                                   Copy(st, k) ==                               \* step 9
                                      IF k >= actualDeleteCount THEN st
                                      ELSE LET from == IdxS(actualStart + k)
                                           IN  IF HasProperty(st.H, o, from)
                                               THEN Copy(DefElem(st, A, IdxS(k), AGet(st.H, o, from)), k + 1)
                                               ELSE IF D("D08_splice_result_fills_holes")
                                               THEN Copy(DefElem(st, A, IdxS(k), Undef), k + 1)
                                               ELSE Copy(st, k + 1)
                                   s4 == FixResultLength(Copy(s3, 0), A, actualDeleteCount)
                                   items == IF Len(args) > 2 THEN SubSeq(args, 3, Len(args)) ELSE <<>>   \* step 10
                                   itemCount == Len(items)                      \* step 11
                                   RECURSIVE Down(_, _)
                                   Down(st, k) ==                               \* step 12.b
                                      IF Failed(st) \/ k >= len - actualDeleteCount THEN st
                                      ELSE LET from == IdxS(k + actualDeleteCount)
                                               to == IdxS(k + itemCount)
                                           IN  IF HasProperty(st.H, o, from)
                                               THEN Down(PutT(st, o, to, AGet(st.H, o, from)), k + 1)
                                               ELSE Down(DelT(st, o, to), k + 1)
                                   RECURSIVE TrimTail(_, _)
                                   TrimTail(st, k) ==                               \* step 12.d
                                      IF Failed(st) \/ k <= len - actualDeleteCount + itemCount THEN st
                                      ELSE TrimTail(DelT(st, o, IdxS(k - 1)), k - 1)
                                   RECURSIVE Up(_, _)
                                   Up(st, k) ==                                 \* step 13.b
                                      IF Failed(st) \/ k <= actualStart THEN st
                                      ELSE LET from == IdxS(k + actualDeleteCount - 1)
                                               to == IdxS(k + itemCount - 1)
                                           IN  IF HasProperty(st.H, o, from)
                                               THEN Up(PutT(st, o, to, AGet(st.H, o, from)), k - 1)
                                               ELSE Up(DelT(st, o, to), k - 1)
                                   s5 == IF itemCount < actualDeleteCount THEN TrimTail(Down(s4, actualStart), len)
                                         ELSE IF itemCount > actualDeleteCount THEN Up(s4, len - actualDeleteCount)
                                         ELSE s4
                                   RECURSIVE Ins(_, _)
                                   Ins(st, j) ==                                \* step 15
                                      IF Failed(st) \/ j > itemCount THEN st
                                      ELSE Ins(PutT(st, o, IdxS(actualStart + j - 1), items[j]), j + 1)
                                   s6 == Ins(s5, 1)
                                   s7 == PutT(s6, o, S_length, IntV(len - actualDeleteCount + itemCount))   \* step 16
                               IN  IF Failed(s7) THEN s7 ELSE Ret(s7, ObjV(A))  \* step 17

-----------------------------------------------------------------------------
(* 15.4.4.14 indexOf, 15.4.4.15 lastIndexOf                                  *)
M_indexOf(st0, o, args) ==
    LET s1 == LenSt(st0, o)                                                     \* steps 1-3
    IN  IF Failed(s1) THEN s1
        ELSE IF IsZero(s1.v.n) THEN Ret(s1, IntV(-1))                           \* step 4
        ELSE IF ~IsSmall(s1.v.n) THEN Unsupported(s1)
        ELSE LET len == s1.v.n.v
                 x == Arg(args, 1)
                 s2 == IF Len(args) >= 2 THEN ToInt(s1, args[2]) ELSE Ret(s1, IntV(0))   \* step 5
             IN  IF Failed(s2) THEN s2
                 ELSE LET n == s2.v.n
                      IN  IF NumCmp(n, I(len)) >= 0 THEN Ret(s2, IntV(-1))      \* step 6
                          ELSE LET k0 == IF NumCmp(n, I(0)) >= 0 THEN NumToInt(n)              \* step 7
                                         ELSE LET t == NumAdd(I(len), n)                        \* step 8
                                              IN  IF NumCmp(t, I(0)) < 0 THEN 0 ELSE NumToInt(t)
                                   RECURSIVE Loop(_)
                                   Loop(k) ==                                   \* step 9
                                      IF k >= len THEN -1
                                      ELSE IF HasProperty(s2.H, o, IdxS(k)) /\ O!StrictEqV(x, AGet(s2.H, o, IdxS(k)))
                                           THEN k ELSE Loop(k + 1)
                               IN  Ret(s2, IntV(Loop(k0)))

M_lastIndexOf(st0, o, args) ==
    LET s1 == LenSt(st0, o)
    IN  IF Failed(s1) THEN s1
        \* step 4.  deviation: builtinArrayLastIndexOf has no early return for length 0, so a
        \* fromIndex that was passed is converted (its valueOf runs) although nothing can be found
        ELSE IF IsZero(s1.v.n) /\ ~(D("D08_lastIndexOf_converts_from_on_empty") /\ Len(args) >= 2)
             THEN Ret(s1, IntV(-1))
        ELSE IF ~IsSmall(s1.v.n) THEN Unsupported(s1)
        ELSE LET len == s1.v.n.v
                 x == Arg(args, 1)
                 s2 == IF Len(args) >= 2 THEN ToInt(s1, args[2]) ELSE Ret(s1, IntV(len - 1))   \* step 5
             IN  IF Failed(s2) THEN s2
                 ELSE LET n == s2.v.n
                          \* steps 6, 7.  deviation: builtinArrayLastIndexOf clamps "index > length" to
                          \* length-1, so fromIndex = length starts the search AT length
                          k0 == IF NumCmp(n, I(0)) >= 0
                                THEN (IF D("D08_lastIndexOf_from_eq_len") /\ NumCmp(n, I(len)) = 0 THEN len
                                      ELSE IF NumCmp(n, I(len - 1)) > 0 THEN len - 1 ELSE NumToInt(n))
                                ELSE LET t == NumAdd(I(len), n)
                                     IN  IF NumCmp(t, I(0)) < 0 THEN -1 ELSE NumToInt(t)
                          RECURSIVE Loop(_)
                          Loop(k) ==                                            \* step 8
                             IF k < 0 THEN -1
                             ELSE IF HasProperty(s2.H, o, IdxS(k)) /\ O!StrictEqV(x, AGet(s2.H, o, IdxS(k)))
                                  THEN k ELSE Loop(k - 1)
                      IN  Ret(s2, IntV(Loop(k0)))

-----------------------------------------------------------------------------
(* 15.4.4.16 - 15.4.4.20: every, some, forEach, map, filter                  *)
(* common prefix: steps 1-5 (length is read BEFORE the callable check)       *)
IterPrefix(st0, o, args) ==
    LET s1 == LenSt(st0, o)
    IN  IF Failed(s1) THEN s1
        ELSE IF ~IsCallableV(Arg(args, 1)) THEN Throw(s1, "TypeError")          \* step 4
        ELSE IF ~IsSmall(s1.v.n) THEN Unsupported(s1)
        ELSE s1
(* the deviating implementation tests IsCallable before it reads length *)
IterPrefixD(st0, o, args, dev) ==
    IF D(dev) /\ ~IsCallableV(Arg(args, 1)) THEN Throw(st0, "TypeError") ELSE IterPrefix(st0, o, args)

M_every(st0, o, args) ==
    LET s1 == IterPrefixD(st0, o, args, "D08_every_callable_before_length")
    IN  IF Failed(s1) THEN s1
        ELSE LET len == s1.v.n.v  cb == args[1]  T == ThisFor(Arg(args, 2))
                 RECURSIVE Loop(_, _)
                 Loop(st, k) ==                                                 \* step 7
                    IF k >= len THEN Ret(st, BoolV(TRUE))                       \* step 8
                    ELSE LET Pk == IdxS(k)
                         IN  IF ~HasProperty(st.H, o, Pk) THEN Loop(st, k + 1)
                             ELSE LET r == CallCb(st, cb, T, <<AGet(st.H, o, Pk), IntV(k), ObjV(o)>>)
                                  IN  IF Failed(r) THEN r
                                      ELSE IF ~O!ToBooleanV(r.v) THEN Ret(r, BoolV(FALSE))
                                      ELSE Loop(r, k + 1)
             IN  Loop(s1, 0)

M_some(st0, o, args) ==
    LET s1 == IterPrefixD(st0, o, args, "D08_some_callable_before_length")
    IN  IF Failed(s1) THEN s1
        ELSE LET len == s1.v.n.v  cb == args[1]  T == ThisFor(Arg(args, 2))
                 RECURSIVE Loop(_, _)
                 Loop(st, k) ==
                    IF k >= len THEN Ret(st, BoolV(FALSE))
                    ELSE LET Pk == IdxS(k)
                         IN  IF ~HasProperty(st.H, o, Pk) THEN Loop(st, k + 1)
                             ELSE LET r == CallCb(st, cb, T, <<AGet(st.H, o, Pk), IntV(k), ObjV(o)>>)
                                  IN  IF Failed(r) THEN r
                                      ELSE IF O!ToBooleanV(r.v) THEN Ret(r, BoolV(TRUE))
                                      ELSE Loop(r, k + 1)
             IN  Loop(s1, 0)

M_forEach(st0, o, args) ==
    LET s1 == IterPrefixD(st0, o, args, "D08_forEach_callable_before_length")
    IN  IF Failed(s1) THEN s1
        ELSE LET len == s1.v.n.v  cb == args[1]  T == ThisFor(Arg(args, 2))
                 RECURSIVE Loop(_, _)
                 Loop(st, k) ==
                    IF k >= len THEN Ret(st, Undef)
                    ELSE LET Pk == IdxS(k)
                         IN  IF ~HasProperty(st.H, o, Pk) THEN Loop(st, k + 1)
                             ELSE LET r == CallCb(st, cb, T, <<AGet(st.H, o, Pk), IntV(k), ObjV(o)>>)
                                  IN  IF Failed(r) THEN r ELSE Loop(r, k + 1)
             IN  Loop(s1, 0)

(* "new Array(len)" (15.4.2.2) for a uint32 len *)
AllocLen(st, len) ==
    LET a == Alloc(st)
    IN  [st |-> WithH(a.st, SetProp(a.st.H, a.id, S_length, DataP(IntV(len), TRUE, FALSE, FALSE))), id |-> a.id]

M_map(st0, o, args) ==
    LET s1 == IterPrefixD(st0, o, args, "D08_map_callable_before_length")
    IN  IF Failed(s1) THEN s1
        ELSE LET len == s1.v.n.v  cb == args[1]  T == ThisFor(Arg(args, 2))
                 a == AllocLen(s1, len)                                         \* step 6
                 A == a.id
                 RECURSIVE Loop(_, _)
                 Loop(st, k) ==                                                 \* step 8
                    IF k >= len THEN Ret(st, ObjV(A))                           \* step 9
                    ELSE LET Pk == IdxS(k)
                         IN  IF ~HasProperty(st.H, o, Pk)
                             THEN (IF D("D08_map_fills_holes") THEN Loop(DefElem(st, A, Pk, Undef), k + 1)
                                   ELSE Loop(st, k + 1))
                             ELSE LET r == CallCb(st, cb, T, <<AGet(st.H, o, Pk), IntV(k), ObjV(o)>>)
                                  IN  IF Failed(r) THEN r ELSE Loop(DefElem(r, A, Pk, r.v), k + 1)
             IN  Loop(a.st, 0)

M_filter(st0, o, args) ==
    LET s1 == IterPrefixD(st0, o, args, "D08_filter_callable_before_length")
    IN  IF Failed(s1) THEN s1
        ELSE LET len == s1.v.n.v  cb == args[1]  T == ThisFor(Arg(args, 2))
                 a == Alloc(s1)                                                 \* step 6
                 A == a.id
                 RECURSIVE Loop(_, _, _)
                 Loop(st, k, to) ==                                             \* step 9
                    IF k >= len THEN Ret(st, ObjV(A))                           \* step 10
                    ELSE LET Pk == IdxS(k)
                         IN  IF ~HasProperty(st.H, o, Pk) THEN Loop(st, k + 1, to)
                             ELSE LET kValue == AGet(st.H, o, Pk)
                                      r == CallCb(st, cb, T, <<kValue, IntV(k), ObjV(o)>>)
                                  IN  IF Failed(r) THEN r
                                      ELSE IF O!ToBooleanV(r.v) THEN Loop(DefElem(r, A, IdxS(to), kValue), k + 1, to + 1)
                                      ELSE Loop(r, k + 1, to)
             IN  Loop(a.st, 0, 0)

-----------------------------------------------------------------------------
(* 15.4.4.21 reduce, 15.4.4.22 reduceRight                                   *)
M_reduceGen(st0, o, args, right) ==
    LET s1 == IterPrefixD(st0, o, args, IF right THEN "D08_reduceRight_callable_before_length"
                                                   ELSE "D08_reduce_callable_before_length")
    IN  IF Failed(s1) THEN s1
        ELSE LET len == s1.v.n.v  cb == args[1]
                 hasInit == Len(args) >= 2
                 step == IF right THEN -1 ELSE 1
                 InRange(k) == IF right THEN k >= 0 ELSE k < len
                 k0 == IF right THEN len - 1 ELSE 0
                 RECURSIVE Find(_)          \* step 8.b: the first present index from k, or "none"
                 Find(k) == IF ~InRange(k) THEN [found |-> FALSE]
                            ELSE IF HasProperty(s1.H, o, IdxS(k)) THEN [found |-> TRUE, k |-> k]
                            ELSE Find(k + step)
                 \* deviation: the callback of reduceRight receives the property name (a String)
                 IdxArg(k) == IF right /\ D("D08_reduceRight_string_index") THEN StrV(IdxS(k)) ELSE IntV(k)
                 RECURSIVE Loop(_, _, _)
                 Loop(st, k, acc) ==                                            \* step 9
                    IF ~InRange(k) THEN Ret(st, acc)                            \* step 10
                    ELSE LET Pk == IdxS(k)
                         IN  IF ~HasProperty(st.H, o, Pk) THEN Loop(st, k + step, acc)
                             ELSE LET r == CallCb(st, cb, GlobalThis, <<acc, AGet(st.H, o, Pk), IdxArg(k), ObjV(o)>>)
                                  IN  IF Failed(r) THEN r ELSE Loop(r, k + step, r.v)
             IN  IF len = 0 /\ ~hasInit THEN Throw(s1, "TypeError")             \* step 5
                 ELSE IF hasInit THEN Loop(s1, k0, args[2])                     \* step 7
                 ELSE LET f == Find(k0)
                      IN  IF ~f.found
                          THEN (IF D(IF right THEN "D08_reduceRight_all_holes_no_error" ELSE "D08_reduce_all_holes_no_error")
                                THEN Ret(s1, Undef)
                                ELSE Throw(s1, "TypeError"))                    \* step 8.c
                          ELSE Loop(s1, f.k + step, AGet(s1.H, o, IdxS(f.k)))
M_reduce(st, o, args) == M_reduceGen(st, o, args, FALSE)
M_reduceRight(st, o, args) == M_reduceGen(st, o, args, TRUE)

-----------------------------------------------------------------------------
(* 15.4.4.11 sort.  ES5 fixes only the result: a permutation of the present  *)
(* elements, sorted with respect to SortCompare, undefined after all other   *)
(* values, absent ("holes") last.  The receivers generated for sort have     *)
(* only plain data elements on an extensible object without inherited index  *)
(* properties (anything else is implementation-defined by the clause) and a  *)
(* comparison that puts distinguishable values in a strict order, so the     *)
(* final state is unique whatever sequence of [[Get]]/[[Put]]/[[Delete]]     *)
(* calls the implementation chooses.                                         *)
(* comparators: Undef (default), [t |-> "cmp", k |-> "numasc" | "numdesc" |  *)
(* "parity" ((a%2)-(b%2)) | "zero" (always 0)]; the last two have ties and   *)
(* are used by the judge only (C08Judge.tla checks the postcondition)        *)
SortCmp(cmp, x, y) ==       \* SortCompare on two defined values: -1, 0, 1
    IF cmp = Undef
    THEN StrCmp(O!ToStringPrim(x), O!ToStringPrim(y))                            \* steps 14-17
    ELSE IF cmp.k = "zero" THEN 0
    ELSE LET nx == ToNumberPrim(x)  ny == ToNumberPrim(y)
             d == CASE cmp.k = "numasc" -> NumSub(nx, ny)
                    [] cmp.k = "numdesc" -> NumSub(ny, nx)
                    [] cmp.k = "parity" -> NumSub(NumMod(nx, I(2)), NumMod(ny, I(2)))
         IN  IF IsNaN(d) THEN 0 ELSE NumCmp(d, I(0))
RECURSIVE InsertSorted(_, _, _)
InsertSorted(cmp, s, x) ==
    IF s = <<>> THEN <<x>>
    ELSE IF SortCmp(cmp, x, Head(s)) < 0 THEN <<x>> \o s
    ELSE <<Head(s)>> \o InsertSorted(cmp, Tail(s), x)
RECURSIVE SortVals(_, _)
SortVals(cmp, s) == IF s = <<>> THEN <<>> ELSE InsertSorted(cmp, SortVals(cmp, Tail(s)), Head(s))
SortAmbiguous(cmp, s) == \E i, j \in 1..Len(s) : i # j /\ s[i] # s[j] /\ SortCmp(cmp, s[i], s[j]) = 0

M_sort(st0, o, args) ==
    LET s1 == LenSt(st0, o)
    IN  IF Failed(s1) THEN s1
        ELSE IF ~IsSmall(s1.v.n) THEN Unsupported(s1)
        ELSE LET len == s1.v.n.v
                 cmp == Arg(args, 1)
                 present == SelectSeq([i \in 1..len |-> i - 1], LAMBDA k : HasProperty(s1.H, o, IdxS(k)))
                 vals == [i \in 1..Len(present) |-> AGet(s1.H, o, IdxS(present[i]))]
                 defined == SelectSeq(vals, LAMBDA v : v # Undef)
                 nUndef == Len(vals) - Len(defined)
                 sorted == SortVals(cmp, defined) \o [i \in 1..nUndef |-> Undef]
                 RECURSIVE Write(_, _)
                 Write(st, k) ==
                    IF Failed(st) \/ k >= len THEN st
                    ELSE IF k < Len(sorted) THEN Write(PutT(st, o, IdxS(k), sorted[k + 1]), k + 1)
                    ELSE Write(DelT(st, o, IdxS(k)), k + 1)
             IN  IF SortAmbiguous(cmp, defined) THEN Throw(s1, "AMBIGUOUS: generator must not produce ties")
                 ELSE LET s2 == Write(s1, 0) IN IF Failed(s2) THEN s2 ELSE Ret(s2, ObjV(o))

-----------------------------------------------------------------------------
(* 15.4.1 / 15.4.2 the Array constructor (called as a function or with new)  *)
M_ctor(st0, args) ==
    LET a == Alloc(st0)
        A == a.id
    IN  IF Len(args) = 1 /\ args[1].t = "num" THEN                               \* 15.4.2.2
            (LET n == args[1].n
             IN  IF ~NumEq(ToUint32N(n), n) THEN Throw(st0, "RangeError")
                 ELSE Ret(WithH(a.st, SetProp(a.st.H, A, S_length, DataP(NumV(ToUint32N(n)), TRUE, FALSE, FALSE))), ObjV(A)))
        ELSE LET RECURSIVE Fill(_, _)                                           \* 15.4.2.1 (and 15.4.2.2 for a non-Number)
                 Fill(st, i) == IF i > Len(args) THEN st ELSE Fill(DefElem(st, A, IdxS(i - 1), args[i]), i + 1)
             IN  Ret(Fill(a.st, 1), ObjV(A))

(* 15.4.3.2 Array.isArray *)
M_isArray(st, args) ==
    LET x == Arg(args, 1) IN Ret(st, BoolV(x.t = "obj" /\ st.H[x.id].cls = "Array"))

-----------------------------------------------------------------------------
Call(m, st, o, args) ==
    CASE m = "join" -> M_join(st, o, args)
      [] m = "toString" -> M_toString(st, o, args)
      [] m = "pop" -> M_pop(st, o, args)
      [] m = "push" -> M_push(st, o, args)
      [] m = "reverse" -> M_reverse(st, o, args)
      [] m = "shift" -> M_shift(st, o, args)
      [] m = "unshift" -> M_unshift(st, o, args)
      [] m = "concat" -> M_concat(st, o, args)
      [] m = "slice" -> M_slice(st, o, args)
      [] m = "splice" -> M_splice(st, o, args)
      [] m = "indexOf" -> M_indexOf(st, o, args)
      [] m = "lastIndexOf" -> M_lastIndexOf(st, o, args)
      [] m = "every" -> M_every(st, o, args)
      [] m = "some" -> M_some(st, o, args)
      [] m = "forEach" -> M_forEach(st, o, args)
      [] m = "map" -> M_map(st, o, args)
      [] m = "filter" -> M_filter(st, o, args)
      [] m = "reduce" -> M_reduce(st, o, args)
      [] m = "reduceRight" -> M_reduceRight(st, o, args)
      [] m = "sort" -> M_sort(st, o, args)
      [] m \in {"Array", "newArray"} -> M_ctor(st, args)
      [] m = "isArray" -> M_isArray(st, args)
=============================================================================
